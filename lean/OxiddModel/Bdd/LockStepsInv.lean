import OxiddModel.Bdd.LockSteps
import OxiddModel.Bdd.ThreadsGc

/-!
# `LThreads`: the lock-ownership invariant (mutual exclusion, well-lockedness)

* `TInv sh cp tid pos t`: every leaf of the task tree `t` (thread `tid`, position `pos`) that is
  inside a critical section **owns the lock of that section** in the lock table — the bucket of
  its key for `cget`/`cadd`, the level of its node for `red` —, and a `get_or_insert` that has
  looked up its node without finding it still does not find it (`find? = none`: the result of the
  read is valid until the write).
* `GcInv`: the collector owns `gc_ongoing` whenever it is not idle, the buckets its control state
  says (`gcHolds`), and the level it is sweeping.
* `Foot w sh sh'`: the **footprint** of a micro-step of actor `w`: it changes only lock-table
  entries that were free or owned by `w`, and a node can appear in the unique table only on a
  level whose lock `w` owns.
* `TInv.frame` / `GcInv.frame`: an invariant of an actor is preserved by every step whose
  footprint belongs to a *different* actor — this is the precise form of "steps inside a critical
  section touch data no other thread can touch".
* `step_foot`, `gcStep_foot`: every micro-step of the machine has the footprint of its actor and
  re-establishes the actor's own invariant; `CInv.step`, `CInv.reach`: the invariant holds in every
  reachable configuration.
-/
namespace OxiddModel.Bdd.LThreads
open OxiddModel.Bdd OxiddModel.Bdd.BDD OxiddModel.Bdd.Refine OxiddModel.Bdd.Threads
open OxiddModel.Locks (Lock)

/-! ## small facts -/

@[simp] theorem Variant.code_mk : Variant.code.mkHoldsLock = true := rfl
@[simp] theorem Variant.code_gc : Variant.code.gcLocksBuckets = true := rfl

theorem LTask.ret?_some {t : LTask} {r : Edge} (h : t.ret? = some r) : t = .ret r := by
  cases t <;> simp [LTask.ret?] at h
  subst h; rfl

@[simp] theorem setLock_same (lk : Lock → Option Who) (L : Lock) (v : Option Who) :
    setLock lk L v L = v := by simp [setLock]

theorem setLock_ne (lk : Lock → Option Who) {L L' : Lock} (v : Option Who) (h : L' ≠ L) :
    setLock lk L v L' = lk L' := by simp [setLock, h]

theorem find?_eq_none_of' {s : Store} {n : Node} (h : ∀ i, s.get? i ≠ some n) : s.find? n = none := by
  cases hf : s.find? n with
  | none => rfl
  | some j => exact absurd (find?_some hf) (h j)

/-- allocating a different node does not make a node appear -/
theorem find?_alloc_ne {s : Store} {n n' : Node} (h : s.find? n = none) (hne : n ≠ n') :
    (s.alloc n').1.find? n = none := by
  apply find?_eq_none_of'
  intro i hi
  rw [get?_alloc] at hi
  split at hi
  · cases hi; exact hne rfl
  · exact find?_none h i hi

/-- a sweep does not make a node appear -/
theorem find?_sweepLevel {s : Store} {n : Node} (h : s.find? n = none) (roots : List Edge) (l : Nat) :
    (sweepLevel s roots l).find? n = none := by
  apply find?_eq_none_of'
  intro i hi
  rw [get?_sweepLevel] at hi
  split at hi
  · exact find?_none h i hi
  · cases hg : s.get? i with
    | none => rw [hg] at hi; simp at hi
    | some m =>
      rw [hg] at hi
      simp only [Option.filter] at hi
      split at hi
      · cases hi; exact find?_none h i hg
      · cases hi

/-! ## the invariant of a task tree -/

/-- what a `get_or_insert` in phase `ph` needs of the shared state -/
def MkInv (sh : Sh) (w : Who) (fr : Threads.Frame) (r1 r0 : Edge) : MkPh → Prop
  | .locked => sh.locks (.level fr.lvl) = some w
  | .missed => sh.locks (.level fr.lvl) = some w ∧ sh.st.store.find? ⟨fr.lvl, r1, r0⟩ = none
  | .done _ => sh.locks (.level fr.lvl) = some w
  | .gap => False
  | .relocked => False

/-- **lock-ownership invariant of a task tree**: see the file header -/
def TInv (sh : Sh) (cp : CachePar) (tid : Nat) : List Bool → LTask → Prop
  | pos, .cget d c key _ =>
    Call.classify d c = .qry key ∧ sh.locks (.bucket (cp.bkt key)) = some (.task tid pos)
  | pos, .cadd key _ _ => sh.locks (.bucket (cp.bkt key)) = some (.task tid pos)
  | pos, .red _ fr r1 r0 ph => r1 ≠ r0 ∧ MkInv sh (.task tid pos) fr r1 r0 ph
  | pos, .seq1 _ _ t => TInv sh cp tid pos t
  | pos, .seq0 _ _ t => TInv sh cp tid pos t
  | pos, .par _ t1 t0 => TInv sh cp tid (pos ++ [true]) t1 ∧ TInv sh cp tid (pos ++ [false]) t0
  | _, .call _ _ => True
  | _, .miss _ _ _ => True
  | _, .made _ _ => True
  | _, .ret _ => True

theorem TInv_lift (sh : Sh) (cp : CachePar) (tid : Nat) (t : Task) :
    ∀ pos, TInv sh cp tid pos (lift t) := by
  induction t with
  | call | miss | made | ret => intro _; simp [lift, TInv]
  | seq1 fr c0 t1 ih => intro pos; simpa [lift, TInv] using ih pos
  | seq0 fr r1 t0 ih => intro pos; simpa [lift, TInv] using ih pos
  | par fr t1 t0 ih1 ih0 => intro pos; exact ⟨ih1 _, ih0 _⟩

/-! ## footprints -/

/-- **footprint of a step of actor `w`** -/
structure Foot (w : Who) (sh sh' : Sh) : Prop where
  locks : ∀ L, sh'.locks L = sh.locks L ∨ sh.locks L = none ∨ sh.locks L = some w
  store : ∀ n, sh.st.store.find? n = none →
    sh'.st.store.find? n = none ∨ sh.locks (.level n.level) = some w

theorem Foot.refl (w : Who) (sh : Sh) : Foot w sh sh := ⟨fun _ => .inl rfl, fun _ h => .inl h⟩

theorem Foot.acq {w : Who} {sh : Sh} {L : Lock} (h : sh.locks L = none) : Foot w sh (sh.acq L w) := by
  refine ⟨fun L' => ?_, fun _ h => .inl h⟩
  by_cases hL : L' = L
  · subst hL; exact .inr (.inl h)
  · exact .inl (setLock_ne _ _ hL)

theorem Foot.rel {w : Who} {sh : Sh} {L : Lock} (h : sh.locks L = some w) : Foot w sh (sh.rel L) := by
  refine ⟨fun L' => ?_, fun _ h => .inl h⟩
  by_cases hL : L' = L
  · subst hL; exact .inr (.inr h)
  · exact .inl (setLock_ne _ _ hL)

/-- a step that changes only cache and time stamp -/
theorem Foot.cache (w : Who) (sh : Sh) (c : Cache) (n : Nat) :
    Foot w sh { sh with st := ⟨sh.st.store, c, n⟩ } := ⟨fun _ => .inl rfl, fun _ h => .inl h⟩

theorem Foot.tick (w : Who) (sh : Sh) : Foot w sh sh.tick := ⟨fun _ => .inl rfl, fun _ h => .inl h⟩

/-- an owned lock of somebody else survives a step -/
theorem Foot.keeps {w w' : Who} {sh sh' : Sh} (hf : Foot w sh sh') {L : Lock}
    (h : sh.locks L = some w') (hne : w ≠ w') : sh'.locks L = some w' := by
  rcases hf.locks L with h1 | h1 | h1
  · rw [h1]; exact h
  · rw [h] at h1; cases h1
  · rw [h] at h1; cases h1; exact absurd rfl hne

/-- **frame lemma for tasks**: the invariant of a subtree is preserved by every step of an actor
that is not a leaf of this subtree -/
theorem TInv.frame {sh sh' : Sh} {cp : CachePar} {tid : Nat} {w : Who} (hf : Foot w sh sh') :
    ∀ (t : LTask) (pos : List Bool), (∀ sfx, w ≠ .task tid (pos ++ sfx)) →
      TInv sh cp tid pos t → TInv sh' cp tid pos t := by
  intro t
  induction t with
  | call | miss | made | ret => intro _ _ _; trivial
  | cget d c key ph =>
    intro pos hw h
    exact ⟨h.1, hf.keeps h.2 (by simpa using hw [])⟩
  | cadd key r ph =>
    intro pos hw h
    exact hf.keeps h (by simpa using hw [])
  | seq1 fr c0 t1 ih => intro pos hw h; exact ih pos hw h
  | seq0 fr r1 t0 ih => intro pos hw h; exact ih pos hw h
  | par fr t1 t0 ih1 ih0 =>
    intro pos hw h
    refine ⟨ih1 _ (fun sfx => ?_) h.1, ih0 _ (fun sfx => ?_) h.2⟩
    · rw [List.append_assoc]; exact hw _
    · rw [List.append_assoc]; exact hw _
  | red isPar fr r1 r0 ph =>
    intro pos hw h
    have hne : w ≠ .task tid pos := by simpa using hw []
    refine ⟨h.1, ?_⟩
    have h2 := h.2
    cases ph with
    | locked => exact hf.keeps h2 hne
    | done r => exact hf.keeps h2 hne
    | gap => exact h2
    | relocked => exact h2
    | missed =>
      refine ⟨hf.keeps h2.1 hne, ?_⟩
      rcases hf.store _ h2.2 with h3 | h3
      · exact h3
      · rw [h2.1] at h3; cases h3; exact absurd rfl hne

/-! ## the collector's invariant -/

/-- the buckets the collector owns in a control state -/
def gcHolds (cap : Nat) : GcPc → Nat → Bool
  | .locking b, b' => decide (b' < b)
  | .clearing b, b' => decide (b' ≤ b)
  | .levels, b' => decide (b' < cap)
  | .lvlLocked _, b' => decide (b' < cap)
  | .lvlSwept _, b' => decide (b' < cap)
  | .unlocking b, b' => decide (b ≤ b') && decide (b' < cap)
  | _, _ => false

structure GcInv (cp : CachePar) (sh : Sh) (pc : GcPc) : Prop where
  buckets : ∀ b, gcHolds cp.cap pc b = true → sh.locks (.bucket b) = some .gc
  ongoing : pc ≠ .idle → sh.locks .gcOngoing = some .gc
  level : ∀ l, pc = .lvlLocked l ∨ pc = .lvlSwept l → sh.locks (.level l) = some .gc

theorem GcInv.frame {cp : CachePar} {sh sh' : Sh} {pc : GcPc} {w : Who} (hf : Foot w sh sh')
    (hw : w ≠ .gc) (h : GcInv cp sh pc) : GcInv cp sh' pc :=
  ⟨fun b hb => hf.keeps (h.buckets b hb) hw, fun hp => hf.keeps (h.ongoing hp) hw,
    fun l hl => hf.keeps (h.level l hl) hw⟩

/-! ## every micro-step of a task has the footprint of its leaf and keeps the invariant -/

theorem guardOwn_some {sh : Sh} {L : Lock} {w : Who} {o o' : MOut} (h : guardOwn sh L w o = some o') :
    sh.locks L = some w ∧ o' = o := by
  unfold guardOwn at h
  split at h
  · cases h; exact ⟨by assumption, rfl⟩
  · cases h

theorem writeNode_foot {sh : Sh} {w : Who} {isPar : Bool} {fr : Threads.Frame} {r1 r0 : Edge}
    (h : sh.locks (.level fr.lvl) = some w) : Foot w sh (writeNode sh isPar fr r1 r0).sh := by
  refine ⟨fun _ => .inl rfl, fun n hn => ?_⟩
  by_cases hne : n = ⟨fr.lvl, r1, r0⟩
  · subst hne; exact .inr h
  · exact .inl (find?_alloc_ne hn hne)

theorem reduceStart_foot {sh : Sh} {cp : CachePar} {tid : Nat} {pos : List Bool} {isPar : Bool}
    {fr : Threads.Frame} {r1 r0 : Edge} {o : MOut}
    (h : reduceStart sh (.task tid pos) isPar fr r1 r0 = some o) :
    Foot (.task tid pos) sh o.sh ∧ TInv o.sh cp tid pos o.t := by
  unfold reduceStart at h
  split at h
  · cases h; exact ⟨Foot.refl _ _, trivial⟩
  · rename_i hne
    split at h
    · rename_i hfree
      cases h
      exact ⟨Foot.acq hfree, hne, by simp [MkInv, Sh.acq]⟩
    · cases h

/-- **every micro-step of a task tree** changes the shared state within the footprint of one of
its leaves and re-establishes the tree's invariant -/
theorem step_foot (cp : CachePar) (tid : Nat) (sh : Sh) :
    ∀ (t : LTask) (pos path : List Bool) (o : MOut), TInv sh cp tid pos t →
      t.step .code cp tid sh pos path = some o →
      ∃ sfx, Foot (.task tid (pos ++ sfx)) sh o.sh ∧ TInv o.sh cp tid pos o.t := by
  intro t
  induction t with
  | ret r =>
    intro pos path o _ h
    simp only [LTask.step] at h; cases h
    exact ⟨[], Foot.refl _ _, trivial⟩
  | call d c =>
    intro pos path o _ h
    simp only [LTask.step] at h
    refine ⟨[], ?_⟩
    rw [List.append_nil]
    split at h
    · cases h; exact ⟨Foot.refl _ _, TInv_lift _ _ _ _ _⟩
    · rename_i key hcl
      split at h
      · rename_i hfree
        cases h; exact ⟨Foot.acq hfree, hcl, by simp [Sh.acq]⟩
      · cases h; exact ⟨Foot.tick _ _, trivial⟩
  | miss d c key =>
    intro pos path o _ h
    simp only [LTask.step] at h; cases h
    exact ⟨[], Foot.refl _ _, TInv_lift _ _ _ _ _⟩
  | made key r =>
    intro pos path o _ h
    simp only [LTask.step] at h
    refine ⟨[], ?_⟩
    rw [List.append_nil]
    split at h
    · rename_i hfree
      cases h; exact ⟨Foot.acq hfree, by simp [TInv, Sh.acq]⟩
    · cases h; exact ⟨Foot.tick _ _, trivial⟩
  | cget d c key ph =>
    intro pos path o hinv h
    simp only [LTask.step] at h
    obtain ⟨hown, rfl⟩ := guardOwn_some h
    refine ⟨[], ?_⟩
    rw [List.append_nil]
    cases ph with
    | locked =>
      dsimp only
      split
      · exact ⟨Foot.tick _ _, hinv.1, hown⟩
      · exact ⟨Foot.tick _ _, hinv.1, hown⟩
    | hit h => exact ⟨Foot.refl _ _, hinv.1, hown⟩
    | copied h => exact ⟨Foot.rel hown, trivial⟩
    | missed => exact ⟨Foot.rel hown, trivial⟩
  | cadd key r ph =>
    intro pos path o hinv h
    simp only [LTask.step] at h
    obtain ⟨hown, rfl⟩ := guardOwn_some h
    refine ⟨[], ?_⟩
    rw [List.append_nil]
    cases ph with
    | locked => exact ⟨Foot.cache _ _ _ _, hown⟩
    | written => exact ⟨Foot.rel hown, trivial⟩
  | red isPar fr r1 r0 ph =>
    intro pos path o hinv h
    refine ⟨[], ?_⟩
    rw [List.append_nil]
    cases ph with
    | gap => exact absurd hinv.2 (by simp [MkInv])
    | relocked => exact absurd hinv.2 (by simp [MkInv])
    | locked =>
      simp only [LTask.step] at h
      obtain ⟨hown, rfl⟩ := guardOwn_some h
      split
      · exact ⟨Foot.refl _ _, hinv.1, hown⟩
      · rename_i hnone
        exact ⟨Foot.refl _ _, hinv.1, hown, hnone⟩
    | missed =>
      simp only [LTask.step, Variant.code_mk, if_true] at h
      obtain ⟨hown, rfl⟩ := guardOwn_some h
      exact ⟨writeNode_foot hown, hinv.1, hown⟩
    | done r =>
      simp only [LTask.step] at h
      obtain ⟨hown, rfl⟩ := guardOwn_some h
      exact ⟨Foot.rel hown, trivial⟩
  | seq1 fr c0 t1 ih =>
    intro pos path o hinv h
    simp only [LTask.step] at h
    split at h
    · cases h; exact ⟨[], Foot.refl _ _, trivial⟩
    · cases h1 : t1.step .code cp tid sh pos path with
      | none => rw [h1] at h; cases h
      | some o1 =>
        rw [h1] at h; cases h
        exact ih pos path o1 hinv h1
  | seq0 fr r1 t0 ih =>
    intro pos path o hinv h
    simp only [LTask.step] at h
    split at h
    · refine ⟨[], ?_⟩
      rw [List.append_nil]
      exact reduceStart_foot h
    · cases h1 : t0.step .code cp tid sh pos path with
      | none => rw [h1] at h; cases h
      | some o1 =>
        rw [h1] at h; cases h
        exact ih pos path o1 hinv h1
  | par fr t1 t0 ih1 ih0 =>
    intro pos path o hinv h
    simp only [LTask.step] at h
    split at h
    · refine ⟨[], ?_⟩
      rw [List.append_nil]
      exact reduceStart_foot h
    · split at h
      · cases h1 : t1.step .code cp tid sh (pos ++ [true]) path.tail with
        | none => rw [h1] at h; cases h
        | some o1 =>
          rw [h1] at h; cases h
          obtain ⟨sfx, hf, hi⟩ := ih1 _ _ o1 hinv.1 h1
          refine ⟨[true] ++ sfx, by rw [← List.append_assoc]; exact hf, hi, ?_⟩
          refine TInv.frame hf t0 _ (fun s => ?_) hinv.2
          simp [List.append_assoc]
      · cases h1 : t0.step .code cp tid sh (pos ++ [false]) path.tail with
        | none => rw [h1] at h; cases h
        | some o1 =>
          rw [h1] at h; cases h
          obtain ⟨sfx, hf, hi⟩ := ih0 _ _ o1 hinv.2 h1
          refine ⟨[false] ++ sfx, by rw [← List.append_assoc]; exact hf, ?_, hi⟩
          refine TInv.frame hf t1 _ (fun s => ?_) hinv.1
          simp [List.append_assoc]

end OxiddModel.Bdd.LThreads
