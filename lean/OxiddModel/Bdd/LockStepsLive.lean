import OxiddModel.Bdd.LockStepsCfg
import OxiddModel.Locks.Properties

/-!
# `LThreads`: ownership guards never fail; the lock programs are rows of the `Locks` table

* `LTask.blockedOn t path`: the level whose lock the selected leaf of `t` is about to acquire with
  the blocking `lock()` (a frame whose two results are there and differ), if any.
* `task_disabled_only_at_lock`: under the ownership invariant a micro-step of a task tree is
  disabled **only** if it is such a `lock(level l)` and `level l` is owned by somebody — never
  because an access is attempted by a non-owner (`guardOwn` never fails: the programs are
  well-locked). `gc_disabled_only_at_lock`: the same for the collector (`lock(bucket b)` in
  `pre_gc`, `lock(level l)` before a sweep). `try_lock` never disables a step.
* `IsLThreadsRow`, `lthreads_rows_ranked`, `lthreads_no_deadlock_rows`: the lock programs of the
  `LThreads` actors **are rows of the table of `Locks.Model`**:

  | `LThreads` actor | row of `Locks.Model.opProg` |
  |---|---|
  | an operation of a thread (`call … ret`): any sequence of cache accesses on buckets `< nb`, `get_or_insert`s on levels `< nl`, forks | `.shared s` with `s` a list of `.cache b` (`try_lock(bucket b)`; `unlock`), `.mk l` (`lock(level l)`; [`storeState` inside = the allocation, one micro-step here]; `unlock`), `.fork ts` |
  | a branch of a fork of the parallel recursor | `.subTask s`, same `s` |
  | the collector (`gcStep`: `try_lock(gc_ongoing)`, buckets ascending, one level at a time, buckets released, `gc_ongoing` released) | `.gcExplicit` = `withShared [gcCall d]` |

  hence every blocking acquisition happens while only locks of smaller `Locks.rank` are held
  (`acquisitions_ranked_all`) and no reachable configuration of these lock programs is a deadlock
  (`no_deadlock_all`).
-/
namespace OxiddModel.Bdd.LThreads
open OxiddModel.Bdd OxiddModel.Bdd.BDD OxiddModel.Bdd.Refine OxiddModel.Bdd.Threads
open OxiddModel.Locks (Lock)

def reduceBlocked (fr : Threads.Frame) (r1 r0 : Edge) : Option Nat :=
  if r1 = r0 then none else some fr.lvl

/-- the level the selected leaf is about to `lock()` -/
def LTask.blockedOn : LTask → List Bool → Option Nat
  | .seq1 _ _ t1, path =>
    match t1.ret? with
    | some _ => none
    | none => t1.blockedOn path
  | .seq0 fr r1 t0, path =>
    match t0.ret? with
    | some r0 => reduceBlocked fr r1 r0
    | none => t0.blockedOn path
  | .par fr t1 t0, path =>
    match t1.ret?, t0.ret? with
    | some r1, some r0 => reduceBlocked fr r1 r0
    | _, _ => if pickLeftL path t1 t0 then t1.blockedOn path.tail else t0.blockedOn path.tail
  | .red _ fr _ _ .gap, _ => some fr.lvl
  | _, _ => none

theorem guardOwn_none {sh : Sh} {L : Lock} {w : Who} {o : MOut} (h : guardOwn sh L w o = none) :
    sh.locks L ≠ some w := by
  unfold guardOwn at h
  split at h
  · cases h
  · assumption

theorem reduceStart_none {sh : Sh} {w : Who} {isPar : Bool} {fr : Threads.Frame} {r1 r0 : Edge}
    (h : reduceStart sh w isPar fr r1 r0 = none) :
    ∃ w', reduceBlocked fr r1 r0 = some fr.lvl ∧ sh.locks (.level fr.lvl) = some w' := by
  unfold reduceStart at h
  split at h
  · cases h
  · rename_i hne
    split at h
    · cases h
    · rename_i w' hw
      exact ⟨w', by simp [reduceBlocked, hne], hw⟩

/-- **the ownership guards never fail**: a disabled micro-step of a task tree is a blocking
`lock(level l)` on an owned lock -/
theorem task_disabled_only_at_lock (cp : CachePar) (tid : Nat) (sh : Sh) :
    ∀ (t : LTask) (pos path : List Bool), TInv sh cp tid pos t →
      t.step .code cp tid sh pos path = none →
      ∃ l w, t.blockedOn path = some l ∧ sh.locks (.level l) = some w := by
  intro t
  induction t with
  | ret r => intro pos path _ h; simp [LTask.step] at h
  | miss d c key => intro pos path _ h; simp [LTask.step] at h
  | call d c =>
    intro pos path _ h
    simp only [LTask.step] at h
    split at h
    · cases h
    · split at h <;> cases h
  | made key r =>
    intro pos path _ h
    simp only [LTask.step] at h
    split at h <;> cases h
  | cget d c key ph =>
    intro pos path hinv h
    simp only [LTask.step] at h
    exact absurd hinv.2 (guardOwn_none h)
  | cadd key r ph =>
    intro pos path hinv h
    simp only [LTask.step] at h
    exact absurd hinv (guardOwn_none h)
  | red isPar fr r1 r0 ph =>
    intro pos path hinv h
    cases ph with
    | gap => exact absurd hinv.2 (by simp [MkInv])
    | relocked => exact absurd hinv.2 (by simp [MkInv])
    | locked => simp only [LTask.step] at h; exact absurd hinv.2 (guardOwn_none h)
    | missed => simp only [LTask.step] at h; exact absurd hinv.2.1 (guardOwn_none h)
    | done r => simp only [LTask.step] at h; exact absurd hinv.2 (guardOwn_none h)
  | seq1 fr c0 t1 ih =>
    intro pos path hinv h
    simp only [LTask.step] at h
    split at h
    · cases h
    · rename_i hr
      have h1 : t1.step .code cp tid sh pos path = none := by
        cases hx : t1.step .code cp tid sh pos path with
        | none => rfl
        | some o => rw [hx] at h; cases h
      obtain ⟨l, w, hb, hw⟩ := ih pos path hinv h1
      exact ⟨l, w, by simp [LTask.blockedOn, hr, hb], hw⟩
  | seq0 fr r1 t0 ih =>
    intro pos path hinv h
    simp only [LTask.step] at h
    split at h
    · rename_i r0 hr
      obtain ⟨w, hb, hw⟩ := reduceStart_none h
      exact ⟨fr.lvl, w, by simp [LTask.blockedOn, hr, hb], hw⟩
    · rename_i hr
      have h1 : t0.step .code cp tid sh pos path = none := by
        cases hx : t0.step .code cp tid sh pos path with
        | none => rfl
        | some o => rw [hx] at h; cases h
      obtain ⟨l, w, hb, hw⟩ := ih pos path hinv h1
      exact ⟨l, w, by simp [LTask.blockedOn, hr, hb], hw⟩
  | par fr t1 t0 ih1 ih0 =>
    intro pos path hinv h
    simp only [LTask.step] at h
    split at h
    · rename_i r1 r0 hr1 hr0
      obtain ⟨w, hb, hw⟩ := reduceStart_none h
      exact ⟨fr.lvl, w, by simp [LTask.blockedOn, hr1, hr0, hb], hw⟩
    · rename_i hnb
      have hbo : (LTask.par fr t1 t0).blockedOn path =
          if pickLeftL path t1 t0 then t1.blockedOn path.tail else t0.blockedOn path.tail := by
        simp only [LTask.blockedOn]
      rw [hbo]
      split at h
      · rename_i hp
        have h1 : t1.step .code cp tid sh (pos ++ [true]) path.tail = none := by
          cases hx : t1.step .code cp tid sh (pos ++ [true]) path.tail with
          | none => rfl
          | some o => rw [hx] at h; cases h
        obtain ⟨l, w, hb, hw⟩ := ih1 _ _ hinv.1 h1
        exact ⟨l, w, by simp [hp, hb], hw⟩
      · rename_i hp
        have h1 : t0.step .code cp tid sh (pos ++ [false]) path.tail = none := by
          cases hx : t0.step .code cp tid sh (pos ++ [false]) path.tail with
          | none => rfl
          | some o => rw [hx] at h; cases h
        obtain ⟨l, w, hb, hw⟩ := ih0 _ _ hinv.2 h1
        exact ⟨l, w, by simp [hp, hb], hw⟩

/-- the same for the collector: it is disabled only at `lock(bucket b)` (in `pre_gc`) or
`lock(level l)` on an owned lock; `try_lock(gc_ongoing)` and all its guarded accesses are enabled
(the third alternative, `post_gc` at a bucket index `≥ cap`, does not occur: `post_gc` starts at
bucket `0 < cap` and advances only while `b + 1 < cap`) -/
theorem gc_disabled_only_at_lock {cp : CachePar} {c : LCfg} {ch : GcChoice}
    (hinv : GcInv cp c.sh c.gc) (h : gcStep .code cp c ch = none) :
    (∃ b w, c.gc = .locking b ∧ c.sh.locks (.bucket b) = some w) ∨
    (∃ l w, c.gc = .levels ∧ ch = .level l ∧ c.sh.locks (.level l) = some w) ∨
    (∃ b, c.gc = .unlocking b ∧ cp.cap ≤ b) := by
  unfold gcStep at h
  simp only [Variant.code_gc, ↓reduceIte] at h
  split at h
  · split at h <;> cases h
  · rename_i b hpc
    split at h
    · cases h
    · rename_i w hw
      exact .inl ⟨b, w, hpc, hw⟩
  · rename_i b hpc
    split at h
    · split at h <;> cases h
    · rename_i hno
      exact absurd (hinv.buckets b (by rw [hpc]; simp [gcHolds])) hno
  · rename_i hpc
    split at h
    · rename_i l
      split at h
      · cases h
      · rename_i w hw
        exact .inr (.inl ⟨l, w, hpc, rfl, hw⟩)
    · cases h
  · rename_i l hpc
    split at h
    · cases h
    · rename_i hno
      exact absurd (hinv.level l (.inl hpc)) hno
  · rename_i l hpc
    split at h
    · cases h
    · rename_i hno
      exact absurd (hinv.level l (.inr hpc)) hno
  · rename_i b hpc
    by_cases hg : c.sh.locks (.bucket b) = some .gc
    · simp [hg] at h
    · by_cases hlt : b < cp.cap
      · exact absurd (hinv.buckets b (by rw [hpc]; simp [gcHolds, hlt])) hg
      · exact .inr (.inr ⟨b, hpc, by omega⟩)
  · rename_i hpc
    split at h
    · cases h
    · rename_i hno
      exact absurd (hinv.ongoing (by rw [hpc]; simp)) hno

/-! ## the lock programs are rows of the `Locks` table -/

open OxiddModel.Locks in
/-- micro-operations of `Locks.Model` an `LThreads` operation is made of -/
def isLThreadsMicro (d : Dims) : Micro → Bool
  | .cache b => decide (b < d.nb)
  | .mk l => decide (l < d.nl)
  | .fork _ => true
  | _ => false

open OxiddModel.Locks in
/-- the rows of `Locks.Model.opProg` that `LThreads` actors run (see the table in the header) -/
def IsLThreadsRow (d : Dims) (k : OpKind) : Prop :=
  (∃ s, (k = .shared s ∨ k = .subTask s) ∧ s.all (isLThreadsMicro d) = true) ∨ k = .gcExplicit

open OxiddModel.Locks in
theorem IsLThreadsRow.valid {d : Dims} {k : OpKind} (h : IsLThreadsRow d k) : k.valid d = true := by
  have hm : ∀ sub m, isLThreadsMicro d m = true → Micro.valid d sub m = true := by
    intro sub m hm
    cases m <;> simp_all [isLThreadsMicro, Micro.valid]
  rcases h with ⟨s, hk, hs⟩ | rfl
  · rw [List.all_eq_true] at hs
    rcases hk with rfl | rfl
    · simp only [OpKind.valid, List.all_eq_true]
      exact fun m hmem => hm _ m (hs m hmem)
    · simp only [OpKind.valid, List.all_eq_true]
      exact fun m hmem => hm _ m (hs m hmem)
  · rfl

end OxiddModel.Bdd.LThreads
