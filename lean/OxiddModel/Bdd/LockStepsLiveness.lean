import OxiddModel.Bdd.PropertiesC07L

/-!
# `LThreads`: every thread terminates within a bound on its own *enabled* micro-steps

`PropertiesC07T.thread_terminates` bounds the number of atomic steps a thread of `Threads.lean`
needs (`scriptBound`). This file transfers the bound to the micro-step machine `LThreads`
(`LockSteps.lean`), in which a selected step may be **disabled** (a blocking `lock(level l)` on an
owned lock) and in which an atomic action consists of several micro-steps.

* `slack t`: the number of non-commit micro-steps the leaves of the call tree `t` can still do
  before the next commit point (`step_slack`: a non-commit micro-step decreases it, a commit
  increases it by at most 4).
* `pot B c i = 5 * B i + slack (thread i)`: the potential of thread `i`, `B i` its remaining budget
  of atomic steps (`GInv` of `ThreadsProof.lean`).
* `Joint.step`: every enabled micro-step of an unfinished thread strictly decreases its potential,
  no step of anybody else (other threads, the collector) increases it.
* `effCount cp c ss i`: how often the schedule `ss` selected thread `i` **while its step was
  enabled**.
* `lthread_terminates`, `lthreads_fair_terminates`, `progress_decreases`.

What is NOT proved here: that a disabled step becomes enabled again (the owner of the level lock
leaves its critical section when scheduled) — the hypothesis counts enabled selections only.
-/
namespace OxiddModel.Bdd.LThreads
open OxiddModel.Bdd OxiddModel.Bdd.BDD OxiddModel.Bdd.Refine OxiddModel.Bdd.Threads
open OxiddModel.Locks (Lock)

/-! ## slack: non-commit micro-steps before the next commit point -/

def getSlack : GetPh → Nat
  | .locked => 0
  | .hit _ => 2
  | .copied _ => 1
  | .missed => 1

def mkSlack : MkPh → Nat
  | .locked => 1
  | .missed => 0
  | .gap => 1
  | .relocked => 0
  | .done _ => 2

def addSlack : AddPh → Nat
  | .locked => 0
  | .written => 1

/-- the number of micro-steps without a commit label that the leaves of `t` can still perform
before each of them reaches its next commit point -/
def slack : LTask → Nat
  | .call _ _ => 1
  | .cget _ _ _ ph => getSlack ph
  | .miss _ _ _ => 0
  | .seq1 _ _ t => slack t + 3
  | .seq0 _ _ t => slack t + 2
  | .par _ t1 t0 => slack t1 + slack t0 + 2
  | .red _ _ _ _ ph => mkSlack ph
  | .made _ _ => 1
  | .cadd _ _ ph => addSlack ph
  | .ret _ => 0

def LThread.slack (th : LThread) : Nat :=
  match th.cur with
  | some t => LThreads.slack t
  | none => 0

theorem slack_of_ret? {t : LTask} {r : Edge} (h : t.ret? = some r) : slack t = 0 := by
  rw [LTask.ret?_some h]; rfl

theorem slack_lift_fork (d : Nat) (fr : Threads.Frame) (c1 c0 : Call) :
    slack (lift (fork d fr c1 c0)) = 4 := by
  cases d <;> rfl

theorem slack_lift_expand (s : Store) (d : Nat) (key : Key) (c : Call) :
    slack (lift (c.expand s d key)) ≤ 4 := by
  cases c with
  | not f =>
    cases f with
    | term b => simp [Call.expand, lift, slack]
    | inner i =>
      simp only [Call.expand]
      split
      · simp [lift, slack]
      · rw [slack_lift_fork]; exact Nat.le_refl _
  | bin op f g =>
    simp only [Call.expand]
    split
    · rw [slack_lift_fork]; exact Nat.le_refl _
    · simp [lift, slack]
  | ite f g h =>
    simp only [Call.expand]
    split
    · rw [slack_lift_fork]; exact Nat.le_refl _
    · simp [lift, slack]

theorem slack_lift_classify {d : Nat} {c : Call} {t : Task} (h : Call.classify d c = .loc t) :
    slack (lift t) ≤ 1 := by
  unfold Call.classify at h
  repeat' split at h
  all_goals first
    | (cases h; simp [lift, slack])
    | cases h

theorem reduceStart_slack {sh : Sh} {w : Who} {isPar : Bool} {fr : Threads.Frame} {r1 r0 : Edge}
    {o : MOut} (h : reduceStart sh w isPar fr r1 r0 = some o) : slack o.t = 1 := by
  unfold reduceStart at h
  split at h
  · cases h; rfl
  · split at h
    · cases h; rfl
    · cases h

theorem pick_true {path : List Bool} {t1 t0 : LTask} (h : pickLeftL path t1 t0 = true) :
    t1.ret? = none := by
  cases h1 : t1.ret? with
  | none => rfl
  | some r => simp [pickLeftL, h1] at h

theorem pick_false {path : List Bool} {t1 t0 : LTask} (h : ¬ pickLeftL path t1 t0 = true)
    (hn : ∀ r1 r0, t1.ret? = some r1 → t0.ret? = some r0 → False) : t0.ret? = none := by
  cases h0 : t0.ret? with
  | none => rfl
  | some r0 =>
    cases h1 : t1.ret? with
    | none => simp [pickLeftL, h1, h0] at h
    | some r1 => exact (hn r1 r0 h1 h0).elim

/-- **a micro-step without commit label uses up slack; a commit refills it by at most 4** -/
theorem step_slack (cp : CachePar) (tid : Nat) (sh : Sh) :
    ∀ (t : LTask) (pos path : List Bool) (o : MOut), t.ret? = none →
      t.step .code cp tid sh pos path = some o →
      (o.ev = none → slack o.t + 1 ≤ slack t) ∧ slack o.t ≤ slack t + 4 := by
  intro t
  induction t with
  | ret r => intro pos path o hr _; cases hr
  | call d c =>
    intro pos path o _ h
    simp only [LTask.step] at h
    split at h
    · rename_i t hcl
      cases h
      have := slack_lift_classify hcl
      exact ⟨(by intro hh; cases hh), by simp only [slack]; omega⟩
    · split at h
      · cases h; exact ⟨fun _ => by simp [slack, getSlack], by simp [slack, getSlack]⟩
      · cases h; exact ⟨(by intro hh; cases hh), by simp [slack]⟩
  | miss d c key =>
    intro pos path o _ h
    simp only [LTask.step] at h; cases h
    have := slack_lift_expand sh.st.store d key c
    exact ⟨(by intro hh; cases hh), by simp only [slack]; omega⟩
  | made key r =>
    intro pos path o _ h
    simp only [LTask.step] at h
    split at h
    · cases h; exact ⟨fun _ => by simp [slack, addSlack], by simp [slack, addSlack]⟩
    · cases h; exact ⟨(by intro hh; cases hh), by simp [slack]⟩
  | cget d c key ph =>
    intro pos path o _ h
    simp only [LTask.step] at h
    obtain ⟨_, rfl⟩ := guardOwn_some h
    cases ph with
    | locked =>
      dsimp only
      split
      · exact ⟨(by intro hh; cases hh), by simp [slack, getSlack]⟩
      · exact ⟨(by intro hh; cases hh), by simp [slack, getSlack]⟩
    | hit h => exact ⟨fun _ => by simp [slack, getSlack], by simp [slack, getSlack]⟩
    | copied h => exact ⟨fun _ => by simp [slack, getSlack], by simp [slack, getSlack]⟩
    | missed => exact ⟨fun _ => by simp [slack, getSlack], by simp [slack, getSlack]⟩
  | cadd key r ph =>
    intro pos path o _ h
    simp only [LTask.step] at h
    obtain ⟨_, rfl⟩ := guardOwn_some h
    cases ph with
    | locked => exact ⟨(by intro hh; cases hh), by simp [slack, addSlack]⟩
    | written => exact ⟨fun _ => by simp [slack, addSlack], by simp [slack, addSlack]⟩
  | red isPar fr r1 r0 ph =>
    intro pos path o _ h
    cases ph with
    | gap =>
      simp only [LTask.step] at h
      split at h
      · cases h; exact ⟨fun _ => by simp [slack, mkSlack], by simp [slack, mkSlack]⟩
      · cases h
    | relocked =>
      simp only [LTask.step] at h
      obtain ⟨_, rfl⟩ := guardOwn_some h
      exact ⟨(by intro hh; cases hh), by simp [slack, mkSlack, writeNode]⟩
    | locked =>
      simp only [LTask.step] at h
      obtain ⟨_, rfl⟩ := guardOwn_some h
      split
      · exact ⟨(by intro hh; cases hh), by simp [slack, mkSlack]⟩
      · exact ⟨fun _ => by simp [slack, mkSlack], by simp [slack, mkSlack]⟩
    | missed =>
      simp only [LTask.step, Variant.code_mk, if_true] at h
      obtain ⟨_, rfl⟩ := guardOwn_some h
      exact ⟨(by intro hh; cases hh), by simp [slack, mkSlack, writeNode]⟩
    | done r =>
      simp only [LTask.step] at h
      obtain ⟨_, rfl⟩ := guardOwn_some h
      exact ⟨fun _ => by simp [slack, mkSlack], by simp [slack, mkSlack]⟩
  | seq1 fr c0 t1 ih =>
    intro pos path o _ h
    simp only [LTask.step] at h
    split at h
    · cases h; exact ⟨(by intro hh; cases hh), by simp [slack]⟩
    · rename_i hnr
      cases h1 : t1.step .code cp tid sh pos path with
      | none => rw [h1] at h; cases h
      | some o1 =>
        rw [h1] at h; cases h
        have := ih pos path o1 hnr h1
        exact ⟨fun hh => by have := this.1 hh; simp only [slack]; omega,
          by simp only [slack]; omega⟩
  | seq0 fr r1 t0 ih =>
    intro pos path o _ h
    simp only [LTask.step] at h
    split at h
    · rename_i r0 hr0
      have h1 := reduceStart_slack h
      have h0 := slack_of_ret? hr0
      exact ⟨fun _ => by simp only [slack]; omega, by simp only [slack]; omega⟩
    · rename_i hnr
      cases h1 : t0.step .code cp tid sh pos path with
      | none => rw [h1] at h; cases h
      | some o1 =>
        rw [h1] at h; cases h
        have := ih pos path o1 hnr h1
        exact ⟨fun hh => by have := this.1 hh; simp only [slack]; omega,
          by simp only [slack]; omega⟩
  | par fr t1 t0 ih1 ih0 =>
    intro pos path o _ h
    simp only [LTask.step] at h
    split at h
    · have h1 := reduceStart_slack h
      exact ⟨fun _ => by simp only [slack]; omega, by simp only [slack]; omega⟩
    · rename_i hn
      split at h
      · rename_i hp
        cases h1 : t1.step .code cp tid sh (pos ++ [true]) path.tail with
        | none => rw [h1] at h; cases h
        | some o1 =>
          rw [h1] at h; cases h
          have := ih1 _ _ o1 (pick_true hp) h1
          exact ⟨fun hh => by have := this.1 hh; simp only [slack]; omega,
            by simp only [slack]; omega⟩
      · rename_i hp
        cases h1 : t0.step .code cp tid sh (pos ++ [false]) path.tail with
        | none => rw [h1] at h; cases h
        | some o1 =>
          rw [h1] at h; cases h
          have := ih0 _ _ o1 (pick_false hp hn) h1
          exact ⟨fun hh => by have := this.1 hh; simp only [slack]; omega,
            by simp only [slack]; omega⟩

/-! ## threads -/

/-- a finished thread stutters (the step is enabled and changes nothing) -/
theorem LThread.step_of_done {cp : CachePar} {tid : Nat} {sh : Sh} {th : LThread}
    {path : List Bool} (hd : th.done = true) :
    th.step .code cp tid sh path = some (sh, th, none) := by
  simp only [LThread.done, Bool.and_eq_true, Option.isNone_iff_eq_none, List.isEmpty_iff] at hd
  simp [LThread.step, hd.1, hd.2]

theorem liftThread_start_slack (th : Thread) (c : Threads.Cmd) (rest : List Threads.Cmd) (hc : th.cur = none) :
    (liftThread (c.start th rest)).slack ≤ 1 := by
  cases c with
  | not i => simp only [Cmd.start]; split <;> simp [liftThread, LThread.slack, hc, lift, slack]
  | bin op i j => simp only [Cmd.start]; split <;> simp [liftThread, LThread.slack, hc, lift, slack]
  | ite i j k => simp only [Cmd.start]; split <;> simp [liftThread, LThread.slack, hc, lift, slack]
  | clone i => simp only [Cmd.start]; split <;> simp [liftThread, LThread.slack, hc]
  | drop i => simp [Cmd.start, liftThread, LThread.slack, hc]

/-- a micro-step of an unfinished thread without commit label uses up slack; a commit refills it
by at most 4 -/
theorem LThread.step_slack {cp : CachePar} {tid : Nat} {sh sh' : Sh} {th th' : LThread}
    {path : List Bool} {ev : Option Bool}
    (h : th.step .code cp tid sh path = some (sh', th', ev)) (hd : th.done = false) :
    (ev = none → th'.slack + 1 ≤ th.slack) ∧ th'.slack ≤ th.slack + 4 := by
  unfold LThread.step at h
  split at h
  · rename_i t hcur
    split at h
    · cases h
      exact ⟨(by intro hh; cases hh), by simp [LThread.slack]⟩
    · rename_i hnr
      cases h1 : t.step .code cp tid sh [] path with
      | none => rw [h1] at h; cases h
      | some o =>
        rw [h1] at h; cases h
        have := LThreads.step_slack cp tid sh t [] path o hnr h1
        simp only [LThread.slack, hcur]
        exact this
  · rename_i hcur
    have e : th.slack = 0 := by simp [LThread.slack, hcur]
    split at h
    · rename_i hsc
      simp [LThread.done, hcur, hsc] at hd
    · rename_i c rest hsc
      cases h
      have := liftThread_start_slack th.abs c rest (by simp [LThread.abs, hcur])
      exact ⟨(by intro hh; cases hh), by omega⟩

/-! ## configurations: the potential of a thread -/

/-- slack of thread `i` of a thread list (0 if there is no such thread) -/
def slackAt (ths : List LThread) (i : Nat) : Nat :=
  match ths[i]? with
  | some th => th.slack
  | none => 0

/-- **the potential of thread `i`**: `B i` = remaining budget of atomic steps (commit points),
each of which is followed by at most 4 micro-steps without a commit label -/
def pot (B : Nat → Nat) (c : LCfg) (i : Nat) : Nat := 5 * B i + slackAt c.threads i

theorem slackAt_get {ths : List LThread} {i : Nat} {th : LThread} (h : ths[i]? = some th) :
    slackAt ths i = th.slack := by simp [slackAt, h]

theorem slackAt_set {ths : List LThread} {tid : Nat} (th' : LThread) (hlt : tid < ths.length)
    (i : Nat) : slackAt (ths.set tid th') i = if i = tid then th'.slack else slackAt ths i := by
  unfold slackAt
  rw [List.getElem?_set]
  by_cases hi : tid = i
  · subst hi; simp [hlt]
  · have : ¬ i = tid := fun e => hi e.symm
    simp [hi, this]

/-- the joint invariant: ownership invariant of the micro configuration, simulation relation to a
configuration of `Threads`, and the invariant of `ThreadsProof.lean` (with budgets `B`) for it -/
structure Joint (cp : CachePar) (F : Nat → List (Option BDD)) (lc : LCfg) (ac : Cfg)
    (B : Nat → Nat) : Prop where
  cinv : CInv cp lc
  rel : R cp lc ac
  ginv : GInv ac F B

theorem stepB_le (ac : Cfg) (B : Nat → Nat) (sel : Sel) (i : Nat) : stepB ac B sel i ≤ B i := by
  cases sel with
  | thread tid path => simp only [stepB]; split <;> omega
  | gc => exact Nat.le_refl _
  | gcBegin => exact Nat.le_refl _
  | gcEnd => exact Nat.le_refl _
  | gcLevel l => exact Nat.le_refl _

/-- **one enabled micro-step**: the joint invariant is re-established; nobody's potential
increases; the potential of an unfinished thread that moves decreases -/
theorem Joint.step {cp : CachePar} (hcap : 0 < cp.cap) {F : Nat → List (Option BDD)}
    {lc lc' : LCfg} {ac : Cfg} {B : Nat → Nat} {s : LSel} {l : Label}
    (hJ : Joint cp F lc ac B) (h : lc.step .code cp s = some (lc', l)) :
    ∃ ac' B', Joint cp F lc' ac' B' ∧ (∀ i, pot B' lc' i ≤ pot B lc i) ∧
      ∀ i path th, s = .thread i path → lc.threads[i]? = some th → th.done = false →
        pot B' lc' i + 1 ≤ pot B lc i := by
  have hc' := CInv.step h hJ.cinv
  have hsim := sim_step hcap hJ.cinv hJ.rel h
  cases s with
  | gc ch =>
    obtain ⟨_, _, hth⟩ := gcStep_foot h hJ.cinv.gc
    cases l with
    | none =>
      exact ⟨ac, B, ⟨hc', hsim, hJ.ginv⟩, fun i => by simp only [pot, hth]; exact Nat.le_refl _,
        fun i p th hs => by cases hs⟩
    | some lb =>
      obtain ⟨b, sel⟩ := lb
      refine ⟨ac.step (polB cp b) sel, stepB ac B sel,
        ⟨hc', hsim, Cfg.step_ginv (polB_ok cp b) hJ.ginv sel⟩, fun i => ?_,
        fun i p th hs => by cases hs⟩
      have := stepB_le ac B sel i
      simp only [pot, hth]
      omega
  | thread tid path =>
    simp only [LCfg.step] at h
    split at h
    · rename_i hnone
      cases h
      exact ⟨ac, B, hJ, fun i => Nat.le_refl _, fun i p th hs hth _ => by
        cases hs; rw [hnone] at hth; cases hth⟩
    · rename_i th hth
      cases h1 : th.step .code cp tid lc.sh path with
      | none => rw [h1] at h; cases h
      | some out =>
        obtain ⟨sh', th', ev⟩ := out
        rw [h1] at h; cases h
        dsimp only at hc' hsim ⊢
        have hlt : tid < lc.threads.length := lt_of_getElem?_some hth
        have e0 := slackAt_get hth
        -- `d = 1` iff the thread is unfinished
        suffices key : ∃ ac' B', Joint cp F ⟨sh', lc.threads.set tid th', lc.gc⟩ ac' B' ∧
            ∀ i, pot B' ⟨sh', lc.threads.set tid th', lc.gc⟩ i +
              (if i = tid ∧ th.done = false then 1 else 0) ≤ pot B lc i by
          obtain ⟨ac', B', hJ', hk⟩ := key
          refine ⟨ac', B', hJ', fun i => by have := hk i; omega, fun i p th1 hs hth1 hd1 => ?_⟩
          cases hs
          rw [hth] at hth1; cases hth1
          have := hk tid
          simp only [hd1, and_self, if_true] at this
          exact this
        cases hd : th.done with
        | true =>
          rw [LThread.step_of_done hd] at h1
          cases h1
          refine ⟨ac, B, ⟨hc', hsim, hJ.ginv⟩, fun i => ?_⟩
          simp only [pot, slackAt_set _ hlt]
          by_cases hi : i = tid
          · subst hi; simp only [if_true, e0]; simp
          · simp [hi]
        | false =>
          have hsl := LThread.step_slack h1 hd
          cases ev with
          | none =>
            refine ⟨ac, B, ⟨hc', hsim, hJ.ginv⟩, fun i => ?_⟩
            have := hsl.1 rfl
            simp only [pot, slackAt_set _ hlt]
            by_cases hi : i = tid
            · subst hi; simp only [if_true, e0, and_self]; omega
            · simp [hi]
          | some b =>
            have hath : ac.threads[tid]? = some th.abs := by rw [hJ.rel.threads]; simp [hth]
            have halt : tid < ac.threads.length := lt_of_getElem?_some hath
            have hpos : 1 ≤ B tid :=
              (Thread.step_ok (effPol_ok (polB_ok cp b) ac.gcActive) hJ.ginv.1 th.abs path
                (hJ.ginv.2.2 tid th.abs hath).1).2.2
                (by simpa [Thread.done, LThread.done, LThread.abs] using hd)
            refine ⟨ac.step (polB cp b) (.thread tid path), stepB ac B (.thread tid path),
              ⟨hc', hsim, Cfg.step_ginv (polB_ok cp b) hJ.ginv _⟩, fun i => ?_⟩
            simp only [pot, slackAt_set _ hlt]
            by_cases hi : i = tid
            · subst hi
              have eB : stepB ac B (.thread i path) i = B i - 1 := by simp [stepB, halt]
              simp only [if_true, e0, and_self, eB]
              omega
            · have eB : stepB ac B (.thread tid path) i = B i := by simp [stepB, hi]
              simp [hi, eB]

/-! ## runs -/

theorem LCfg.run_cons_none {v : Variant} {cp : CachePar} {lc : LCfg} {s : LSel} (ss : List LSel)
    (h : lc.step v cp s = none) : lc.run v cp (s :: ss) = lc.run v cp ss := by
  simp only [LCfg.run, h]

theorem LCfg.run_cons_some {v : Variant} {cp : CachePar} {lc lc' : LCfg} {s : LSel} {l : Label}
    (ss : List LSel) (h : lc.step v cp s = some (lc', l)) :
    (lc.run v cp (s :: ss)).1 = (lc'.run v cp ss).1 := by
  simp only [LCfg.run, h]
  cases l <;> rfl

/-- the collector never touches the threads -/
theorem gcStep_threads {v : Variant} {cp : CachePar} {c c' : LCfg} {ch : GcChoice} {l : Label}
    (h : gcStep v cp c ch = some (c', l)) : c'.threads = c.threads := by
  unfold gcStep at h
  repeat' split at h
  all_goals first
    | (cases h; done)
    | (cases h; rfl)

theorem LCfg.step_length {v : Variant} {cp : CachePar} {lc lc' : LCfg} {s : LSel} {l : Label}
    (h : lc.step v cp s = some (lc', l)) : lc'.threads.length = lc.threads.length := by
  cases s with
  | gc ch => rw [gcStep_threads h]
  | thread tid path =>
    simp only [LCfg.step] at h
    split at h
    · cases h; rfl
    · rename_i th hth
      cases h1 : th.step v cp tid lc.sh path with
      | none => rw [h1] at h; cases h
      | some out => rw [h1] at h; cases h; simp

theorem LCfg.run_length {v : Variant} {cp : CachePar} (ss : List LSel) :
    ∀ lc : LCfg, (lc.run v cp ss).1.threads.length = lc.threads.length := by
  induction ss with
  | nil => intro lc; rfl
  | cons s ss ih =>
    intro lc
    cases hs : lc.step v cp s with
    | none => rw [LCfg.run_cons_none ss hs]; exact ih lc
    | some out =>
      obtain ⟨lc', l⟩ := out
      rw [LCfg.run_cons_some ss hs, ih, LCfg.step_length hs]

/-- a finished thread stays as it is, whatever anybody does -/
theorem LCfg.step_done {cp : CachePar} {lc lc' : LCfg} {s : LSel} {l : Label} {i : Nat}
    {th : LThread} (hi : lc.threads[i]? = some th) (hd : th.done = true)
    (h : lc.step .code cp s = some (lc', l)) : lc'.threads[i]? = some th := by
  cases s with
  | gc ch => rw [gcStep_threads h]; exact hi
  | thread tid path =>
    simp only [LCfg.step] at h
    split at h
    · cases h; exact hi
    · rename_i th1 hth1
      cases h1 : th1.step .code cp tid lc.sh path with
      | none => rw [h1] at h; cases h
      | some out =>
        obtain ⟨sh', th', ev⟩ := out
        rw [h1] at h; cases h
        dsimp only
        by_cases hit : tid = i
        · subst hit
          rw [hi] at hth1; cases hth1
          rw [LThread.step_of_done hd] at h1
          cases h1
          rw [List.getElem?_set_self (lt_of_getElem?_some hi)]
        · rw [List.getElem?_set_ne hit]; exact hi

theorem LCfg.run_done {cp : CachePar} (ss : List LSel) : ∀ {lc : LCfg} {i : Nat} {th : LThread},
    lc.threads[i]? = some th → th.done = true → (lc.run .code cp ss).1.threads[i]? = some th := by
  induction ss with
  | nil => intro lc i th hi _; exact hi
  | cons s ss ih =>
    intro lc i th hi hd
    cases hs : lc.step .code cp s with
    | none => rw [LCfg.run_cons_none ss hs]; exact ih hi hd
    | some out =>
      obtain ⟨lc', l⟩ := out
      rw [LCfg.run_cons_some ss hs]
      exact ih (LCfg.step_done hi hd hs) hd

/-- `1` iff the selector selects thread `i` -/
def selHit (i : Nat) : LSel → Nat
  | .thread j _ => if j = i then 1 else 0
  | .gc _ => 0

/-- **how often thread `i` was selected while its step was enabled** during the run of `ss` from
`c` (selections of a step that is not enabled — a `lock` on an owned lock — are skipped by
`LCfg.run` and not counted) -/
def effCount (cp : CachePar) : LCfg → List LSel → Nat → Nat
  | _, [], _ => 0
  | c, s :: ss, i =>
    match c.step .code cp s with
    | none => effCount cp c ss i
    | some (c', _) => selHit i s + effCount cp c' ss i

/-- **Every schedule keeps the joint invariant**, and every thread that is not finished at the end
has lost one unit of potential for every enabled step it was selected for. -/
theorem Joint.run {cp : CachePar} (hcap : 0 < cp.cap) {F : Nat → List (Option BDD)}
    (ss : List LSel) : ∀ {lc : LCfg} {ac : Cfg} {B : Nat → Nat}, Joint cp F lc ac B →
      ∃ ac' B', Joint cp F (lc.run .code cp ss).1 ac' B' ∧
        ∀ i th, (lc.run .code cp ss).1.threads[i]? = some th → th.done = true ∨
          pot B' (lc.run .code cp ss).1 i + effCount cp lc ss i ≤ pot B lc i := by
  induction ss with
  | nil =>
    intro lc ac B hJ
    exact ⟨ac, B, hJ, fun i th _ => .inr (by simp [effCount, LCfg.run])⟩
  | cons s ss ih =>
    intro lc ac B hJ
    cases hs : lc.step .code cp s with
    | none =>
      obtain ⟨ac', B', hJ', hc⟩ := ih hJ
      rw [LCfg.run_cons_none ss hs]
      refine ⟨ac', B', hJ', fun i th hi => ?_⟩
      have e : effCount cp lc (s :: ss) i = effCount cp lc ss i := by simp only [effCount, hs]
      rw [e]
      exact hc i th hi
    | some out =>
      obtain ⟨lc1, l⟩ := out
      obtain ⟨ac1, B1, hJ1, hmono, hstrict⟩ := hJ.step hcap hs
      obtain ⟨ac', B', hJ', hc⟩ := ih hJ1
      rw [LCfg.run_cons_some ss hs]
      refine ⟨ac', B', hJ', fun i th hi => ?_⟩
      have e : effCount cp lc (s :: ss) i = selHit i s + effCount cp lc1 ss i := by
        simp only [effCount, hs]
      rw [e]
      rcases hc i th hi with hd | hle
      · exact .inl hd
      · have hm := hmono i
        cases s with
        | gc ch => exact .inr (by simp only [selHit]; omega)
        | thread tid path =>
          by_cases hit : tid = i
          · subst hit
            have hlen : tid < lc.threads.length := by
              have := lt_of_getElem?_some hi
              rwa [LCfg.run_length, LCfg.step_length hs] at this
            obtain ⟨th0, h0⟩ := getElem?_some_of_lt hlen
            cases hd : th0.done with
            | false =>
              have := hstrict tid path th0 rfl h0 hd
              exact .inr (by simp only [selHit, if_true]; omega)
            | true =>
              have := LCfg.run_done (cp := cp) (.thread tid path :: ss) h0 hd
              rw [LCfg.run_cons_some ss hs] at this
              rw [this] at hi; cases hi
              exact .inl hd
          · exact .inr (by simp only [selHit, hit, if_false]; omega)

/-! ## initial configurations, reachable configurations -/

/-- an initial configuration satisfies the joint invariant with the budgets `specB` … -/
theorem joint_init {cp : CachePar} {c0 : LCfg} {ts0 : Nat → List (Option BDD)}
    (hinit : C07L.LInit c0 ts0) :
    Joint cp (specF c0.abs0 ts0) c0 c0.abs0 (specB c0.abs0 ts0) :=
  ⟨hinit.locks.cinv, R_init hinit.locks, ginv_init hinit.init⟩

/-- … and the potential of thread `i` is `5 * scriptBound script_i (ts0 i)` -/
theorem pot_init {c0 : LCfg} {ts0 : Nat → List (Option BDD)} (hinit : C07L.LInit c0 ts0) {i : Nat}
    {th0 : LThread} (hi : c0.threads[i]? = some th0) :
    pot (specB c0.abs0 ts0) c0 i = 5 * scriptBound th0.script (ts0 i) := by
  have hs : specB c0.abs0 ts0 i = scriptBound th0.script (ts0 i) := by
    simp [specB, LCfg.abs0, hi, LThread.abs]
  simp [pot, slackAt, hi, LThread.slack, hinit.locks.idle i th0 hi, hs]

/-- every reachable configuration satisfies the joint invariant, with budgets under which no
thread's potential exceeds its initial potential -/
theorem joint_reach {cp : CachePar} (hcap : 0 < cp.cap) {c0 c : LCfg}
    {ts0 : Nat → List (Option BDD)} (hinit : C07L.LInit c0 ts0) (hr : Reach .code cp c0 c) :
    ∃ ac B, Joint cp (specF c0.abs0 ts0) c ac B ∧
      ∀ i, pot B c i ≤ pot (specB c0.abs0 ts0) c0 i := by
  induction hr with
  | refl => exact ⟨_, _, joint_init hinit, fun _ => Nat.le_refl _⟩
  | step s _ hs ih =>
    obtain ⟨ac, B, hJ, hle⟩ := ih
    obtain ⟨ac', B', hJ', hmono, _⟩ := hJ.step hcap hs
    exact ⟨ac', B', hJ', fun i => Nat.le_trans (hmono i) (hle i)⟩

/-! ## headline theorems -/

/-- **`progress_decreases`: every enabled micro-step of an unfinished thread is progress.**
In every configuration `c` reachable from an initial one there are budgets `B` (remaining atomic
steps per thread; joint invariant `Joint`: lock ownership, simulation relation, invariant of
`ThreadsProof.lean`) whose potentials `pot B c i = 5 * B i + slack_i` are bounded by
`5 * scriptBound script_i (ts0 i)`, and for **every** such `B` and every enabled step
`c --s--> c'` there are budgets `B'` for `c'` (again with the joint invariant) such that

* no thread's potential has increased — whoever moved (another thread, the collector), and
* if `s` selects thread `i` and thread `i` is unfinished, its potential has decreased by at least
  one.

Hence `pot` is a ranking function for the own enabled steps of every thread which nobody else can
push up: a thread cannot be selected (enabled) more than `5 * scriptBound` times without
finishing. -/
theorem progress_decreases {cp : CachePar} (hcap : 0 < cp.cap) {c0 c : LCfg}
    {ts0 : Nat → List (Option BDD)} (hinit : C07L.LInit c0 ts0) (hr : Reach .code cp c0 c) :
    (∃ ac B, Joint cp (specF c0.abs0 ts0) c ac B ∧
      ∀ i th0, c0.threads[i]? = some th0 → pot B c i ≤ 5 * scriptBound th0.script (ts0 i)) ∧
    ∀ ac B, Joint cp (specF c0.abs0 ts0) c ac B →
      ∀ (s : LSel) (c' : LCfg) (l : Label), c.step .code cp s = some (c', l) →
        ∃ ac' B', Joint cp (specF c0.abs0 ts0) c' ac' B' ∧
          (∀ i, pot B' c' i ≤ pot B c i) ∧
          ∀ i path th, s = .thread i path → c.threads[i]? = some th → th.done = false →
            pot B' c' i + 1 ≤ pot B c i := by
  constructor
  · obtain ⟨ac, B, hJ, hle⟩ := joint_reach hcap hinit hr
    exact ⟨ac, B, hJ, fun i th0 hi => by rw [← pot_init hinit hi]; exact hle i⟩
  · intro ac B hJ s c' l hs
    exact hJ.step hcap hs

/-- **`lthread_terminates`: every thread terminates within a bound on its own enabled
micro-steps**, under every schedule of micro-steps. Let `c0` be an initial configuration (all
locks free, collector idle, handles denoting the trees `ts0`), `ss` ANY schedule (thread
micro-steps with arbitrary `par` paths and collector micro-steps, in any order). If, during the
run, thread `i` is selected **while its step is enabled** (`effCount`: selections that hit a
blocking `lock(level l)` on an owned lock are skipped and do not count) more than
`5 * scriptBound script_i (ts0 i)` times — `scriptBound` is the bound of
`PropertiesC07T.thread_terminates`, a function of the script and the operand trees alone; `5` =
one commit point plus at most 4 further micro-steps per atomic action — then thread `i` has
executed its whole script at the end, whatever the other threads and the collector did in
between (their steps, `try_lock` failures they cause, collections: nothing increases the
potential of thread `i`).

Not claimed: that the selections of thread `i` *are* enabled often enough (that needs fairness
towards the lock owners, see `no_deadlock_lthreads_partial`). -/
theorem lthread_terminates {cp : CachePar} (hcap : 0 < cp.cap) (c0 : LCfg)
    (ts0 : Nat → List (Option BDD)) (hinit : C07L.LInit c0 ts0) (ss : List LSel) (i : Nat)
    (th0 : LThread) (hi : c0.threads[i]? = some th0)
    (hfair : 5 * scriptBound th0.script (ts0 i) < effCount cp c0 ss i) :
    ∃ th, (c0.run .code cp ss).1.threads[i]? = some th ∧ th.done = true := by
  obtain ⟨ac', B', _, hc⟩ := Joint.run hcap ss (joint_init (cp := cp) hinit)
  have hlen := LCfg.run_length (v := .code) (cp := cp) ss c0
  obtain ⟨th, hth⟩ := getElem?_some_of_lt (l := (c0.run .code cp ss).1.threads) (i := i)
    (by rw [hlen]; exact lt_of_getElem?_some hi)
  refine ⟨th, hth, ?_⟩
  rcases hc i th hth with hd | hle
  · exact hd
  · rw [pot_init hinit hi] at hle
    omega

theorem LCfg.allDone_iff (c : LCfg) :
    c.allDone = true ↔ ∀ (i : Nat) (th : LThread), c.threads[i]? = some th → th.done = true := by
  simp only [LCfg.allDone, List.all_eq_true]
  constructor
  · intro h i th hi; exact h th (List.mem_of_getElem? hi)
  · intro h th hm
    obtain ⟨i, hi⟩ := List.mem_iff_getElem?.mp hm
    exact h i th hi

/-- **`lthreads_fair_terminates`: schedules that are fair in enabled steps complete.** If every
thread is selected, while enabled, more often than `5 *` its bound (collector steps, disabled
selections and the order are arbitrary), all threads have run to completion at the end — so
`interleaving_correct_locked` applies and the results are the sequential ones. -/
theorem lthreads_fair_terminates {cp : CachePar} (hcap : 0 < cp.cap) (c0 : LCfg)
    (ts0 : Nat → List (Option BDD)) (hinit : C07L.LInit c0 ts0) (ss : List LSel)
    (hfair : ∀ i th0, c0.threads[i]? = some th0 →
      5 * scriptBound th0.script (ts0 i) < effCount cp c0 ss i) :
    (c0.run .code cp ss).1.allDone = true := by
  rw [LCfg.allDone_iff]
  intro i th hth
  have hlen := LCfg.run_length (v := .code) (cp := cp) ss c0
  obtain ⟨th0, hi⟩ := getElem?_some_of_lt (l := c0.threads) (i := i)
    (by rw [← hlen]; exact lt_of_getElem?_some hth)
  obtain ⟨th', hth', hd⟩ := lthread_terminates hcap c0 ts0 hinit ss i th0 hi (hfair i th0 hi)
  rw [hth] at hth'; cases hth'
  exact hd

/-! ## non-vacuity -/

open OxiddModel.Bdd.C06 OxiddModel.Bdd.LThreads.Bad OxiddModel.Bdd.C07L

/-- the schedule `exSched` of `PropertiesC07L` (two threads computing `¬x1`, thread 1 waiting for
the level lock, a collection in between, 69 selections of which some are disabled), followed by
more slots for both threads -/
def liveSched : List LSel := exSched ++ List.replicate 210 a ++ List.replicate 210 b

/-- the bound of both threads is `5 * 45`; in `exSched` alone thread 0 has 21 and thread 1 has 28
enabled selections (of 21 and 31: three selections of thread 1 hit the owned level lock) -/
example : scriptBound [.not 0] [some exX1] = 45 ∧
    effCount cp cfg1 exSched 0 = 21 ∧ effCount cp cfg1 exSched 1 = 28 ∧
    (exSched.map (selHit 0)).sum = 21 ∧ (exSched.map (selHit 1)).sum = 31 := by decide +kernel

/-- the fairness hypothesis of `lthreads_fair_terminates` holds for `liveSched` … -/
theorem liveSched_fair : ∀ i th0, cfg1.threads[i]? = some th0 →
    5 * scriptBound th0.script ([some exX1]) < effCount cp cfg1 liveSched i := by
  intro i th0 hi
  match i, hi with
  | 0, hi => cases hi; decide +kernel
  | 1, hi => cases hi; decide +kernel

/-- … so both theorems apply to it (`cfg1_init`: `cfg1` is an initial configuration) -/
example : (cfg1.run .code cp liveSched).1.allDone = true :=
  lthreads_fair_terminates (cp := cp) (by decide) cfg1 _ cfg1_init liveSched liveSched_fair

example : ∃ th, (cfg1.run .code cp liveSched).1.threads[1]? = some th ∧ th.done = true :=
  lthread_terminates (cp := cp) (by decide) cfg1 _ cfg1_init liveSched 1 _ rfl
    (liveSched_fair 1 _ rfl)

/-- `progress_decreases` applies to every prefix of the run, e.g. to the initial configuration -/
example := progress_decreases (cp := cp) (by decide) cfg1_init (.refl)

/-- the strict decrease is not vacuous: thread 0's first step is enabled and thread 0 is
unfinished -/
example : ∃ c' l th, cfg1.step .code cp a = some (c', l) ∧ cfg1.threads[0]? = some th ∧
    th.done = false := ⟨_, _, _, rfl, rfl, rfl⟩

end OxiddModel.Bdd.LThreads
