import OxiddModel.Bdd.LockStepsRun
import OxiddModel.Bdd.ThreadsRun

/-!
# `LThreads` ⟶ `Threads`: runs

`runB`: a run of the machine of `Threads.lean` along a list of labels `(b, sel)` — step `sel` under
the cache policy `polB cp b` (direct-mapped, `cap` buckets, `hash`; the `try_lock` of this one
access succeeds iff `b`). `sim_run`: every run of `LThreads` is simulated by `runB` along its own
commit labels. `runB_ginv`: the invariant of `ThreadsProof.lean` is preserved along `runB` (every
`polB cp b` is an admissible policy).
-/
namespace OxiddModel.Bdd.LThreads
open OxiddModel.Bdd OxiddModel.Bdd.BDD OxiddModel.Bdd.Refine OxiddModel.Bdd.Threads
open OxiddModel.Locks (Lock)

/-- **one micro-step = stutter or one atomic step** -/
theorem sim_step {cp : CachePar} (hcap : 0 < cp.cap) {lc lc' : LCfg} {ac : Cfg} {l : Label}
    {s : LSel} (hinv : CInv cp lc) (hR : R cp lc ac) (h : lc.step .code cp s = some (lc', l)) :
    LabelGoal cp lc' ac l := by
  cases s with
  | gc ch => exact sim_gc hcap hR h
  | thread tid path =>
    simp only [LCfg.step] at h
    split at h
    · cases h; exact hR
    · rename_i th hth
      cases h1 : th.step .code cp tid lc.sh path with
      | none => rw [h1] at h; cases h
      | some out =>
        obtain ⟨sh', th', ev⟩ := out
        rw [h1] at h; cases h
        have := sim_thread' hcap hinv hR hth h1
        cases ev with
        | none => exact this
        | some b => exact this

/-- the machine of `Threads.lean` run along labels: the cache policy is chosen per step -/
def runB (cp : CachePar) : Cfg → List (Bool × Sel) → Cfg
  | c, [] => c
  | c, (b, s) :: ls => runB cp (c.step (polB cp b) s) ls

/-- the schedule of `Threads` a list of labels stands for -/
def schedOf (ls : List (Bool × Sel)) : List Sel := ls.map Prod.snd

/-- **every run of `LThreads` is simulated by the atomic run along its commit labels** -/
theorem sim_run {cp : CachePar} (hcap : 0 < cp.cap) :
    ∀ (ss : List LSel) (lc : LCfg) (ac : Cfg), CInv cp lc → R cp lc ac →
      CInv cp (lc.run .code cp ss).1 ∧
      R cp (lc.run .code cp ss).1 (runB cp ac (lc.run .code cp ss).2) := by
  intro ss
  induction ss with
  | nil => intro lc ac hinv hR; exact ⟨hinv, hR⟩
  | cons s ss ih =>
    intro lc ac hinv hR
    simp only [LCfg.run]
    cases hs : lc.step .code cp s with
    | none => exact ih lc ac hinv hR
    | some out =>
      obtain ⟨lc', l⟩ := out
      have hinv' := CInv.step hs hinv
      have hsim := sim_step hcap hinv hR hs
      cases l with
      | none => exact ih lc' ac hinv' hsim
      | some lb =>
        obtain ⟨b, sel⟩ := lb
        exact ih lc' _ hinv' hsim

theorem runB_ginv (cp : CachePar) : ∀ (ls : List (Bool × Sel)) {c : Cfg}
    {F : Nat → List (Option BDD)} {B : Nat → Nat}, GInv c F B → ∃ B', GInv (runB cp c ls) F B' := by
  intro ls
  induction ls with
  | nil => intro c F B h; exact ⟨B, h⟩
  | cons x xs ih =>
    intro c F B h
    obtain ⟨b, s⟩ := x
    exact ih (Cfg.step_ginv (polB_ok cp b) h s)

theorem runB_length (cp : CachePar) : ∀ (ls : List (Bool × Sel)) (c : Cfg),
    (runB cp c ls).threads.length = c.threads.length := by
  intro ls
  induction ls with
  | nil => intro c; rfl
  | cons x xs ih =>
    intro c
    obtain ⟨b, s⟩ := x
    simp only [runB]
    rw [ih, Cfg.step_length]

/-! ## initial configurations -/

/-- the configuration of `Threads` an initial configuration stands for -/
def LCfg.abs0 (c : LCfg) : Cfg := ⟨c.sh.st, c.threads.map LThread.abs, false⟩

theorem R_init {cp : CachePar} {c : LCfg} (h : LInit0 c) : R cp c c.abs0 := by
  refine ⟨?_, rfl, by rw [h.gc]; rfl⟩
  rw [h.gc]
  refine ⟨rfl, rfl, ?_, fun hh => by cases hh⟩
  show c.sh.st.cache = c.sh.st.cache.filter _
  simp only [clearedOf, Nat.zero_le, decide_true]
  exact (List.filter_eq_self.mpr (fun _ _ => rfl)).symm

end OxiddModel.Bdd.LThreads
