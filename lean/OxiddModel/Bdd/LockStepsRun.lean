import OxiddModel.Bdd.LockStepsSim

/-!
# `LThreads` ⟶ `Threads`: configurations and runs

`R cp lc ac`: the configuration `ac` of `Threads.lean` that `lc` stands for — same store, time
stamp, threads with abstracted control states (`LThread.abs`), `gcActive` = "the collector is
between the commit points of `gcBegin` and `gcEnd`", caches related by `CRel`.

`sim_step`: one micro-step of the machine is a stutter for `Threads` (label `none`) or exactly
the step `sel` of `Threads` under the cache policy `polB cp b` (label `some (b, sel)`).
`sim_run`: a run is simulated by the run of its labels (`runB`: policy chosen per step).
-/
namespace OxiddModel.Bdd.LThreads
open OxiddModel.Bdd OxiddModel.Bdd.BDD OxiddModel.Bdd.Refine OxiddModel.Bdd.Threads
open OxiddModel.Locks (Lock)

structure R (cp : CachePar) (lc : LCfg) (ac : Cfg) : Prop where
  st : CRel cp (clearedOf lc.gc) (gcActiveOf lc.gc) lc.sh.st ac.st
  threads : ac.threads = lc.threads.map LThread.abs
  active : ac.gcActive = gcActiveOf lc.gc

theorem abs_liftThread (th : Thread) : (liftThread th).abs = th := by
  cases th with
  | mk d hs sc cur =>
    simp only [liftThread, LThread.abs, Option.map_map]
    congr
    cases cur with
    | none => rfl
    | some t => simp [abs_lift]

theorem gcHolds_of {cap : Nat} {pc : GcPc} {b : Nat} (hb : b < cap)
    (h : gcActiveOf pc = true ∨ b < clearedOf pc) : gcHolds cap pc b = true := by
  cases pc with
  | idle => simp [gcActiveOf, clearedOf] at h
  | release => simp [gcActiveOf, clearedOf] at h
  | locking b0 => simp [gcActiveOf, clearedOf] at h; simp [gcHolds, h]
  | clearing b0 => simp [gcActiveOf, clearedOf] at h; simp [gcHolds]; omega
  | levels => simp [gcHolds, hb]
  | lvlLocked l => simp [gcHolds, hb]
  | lvlSwept l => simp [gcHolds, hb]
  | unlocking b0 =>
    cases b0 with
    | zero => simp [gcHolds, hb]
    | succ n => simp [gcActiveOf, clearedOf] at h

theorem set_map_abs (ths : List LThread) (tid : Nat) (th' : LThread) :
    (ths.set tid th').map LThread.abs = (ths.map LThread.abs).set tid th'.abs := by
  rw [List.map_set]

theorem set_same_abs {ths : List LThread} {tid : Nat} {th th' : LThread}
    (hth : ths[tid]? = some th) (h : th'.abs = th.abs) :
    (ths.set tid th').map LThread.abs = ths.map LThread.abs := by
  rw [List.map_set, h]
  apply List.ext_getElem?
  intro i
  rw [List.getElem?_set]
  split
  · rename_i heq
    subst heq
    split
    · simp [hth]
    · rename_i hlt
      simp only [List.length_map] at hlt
      rw [List.getElem?_eq_none (by simp; omega)]
  · rfl

theorem Cfg.step_thread_eq {ac : Cfg} {tid : Nat} {tha : Thread} (p : Policy) (path : List Bool)
    (h : ac.threads[tid]? = some tha) :
    ac.step p (.thread tid path) =
      { ac with st := runOpt (tha.step (effPol p ac.gcActive) ac.st path).1 ac.st,
                threads := ac.threads.set tid (tha.step (effPol p ac.gcActive) ac.st path).2 } := by
  simp [Cfg.step, h]

/-- what a step with commit label `ev` means for `Threads` -/
def SimGoal (cp : CachePar) (lc' : LCfg) (ac : Cfg) (sel : Sel) : Option Bool → Prop
  | none => R cp lc' ac
  | some b => R cp lc' (ac.step (polB cp b) sel)

/-- a micro-step of a thread is a stutter or the step `.thread tid path` of `Threads` -/
theorem sim_thread' {cp : CachePar} (hcap : 0 < cp.cap) {lc : LCfg} {ac : Cfg}
    {tid : Nat} {path : List Bool} (hinv : CInv cp lc) (hR : R cp lc ac) {th th' : LThread}
    {sh' : Sh} {ev : Option Bool} (hth : lc.threads[tid]? = some th)
    (h1 : th.step .code cp tid lc.sh path = some (sh', th', ev)) :
    SimGoal cp ⟨sh', lc.threads.set tid th', lc.gc⟩ ac (.thread tid path) ev := by
  have hath : ac.threads[tid]? = some th.abs := by rw [hR.threads]; simp [hth]
  unfold LThread.step at h1
  split at h1
  · rename_i t hcur
    split at h1
    · -- result stored as a handle
      rename_i r hr
      cases h1
      unfold SimGoal
      dsimp only
      have ha : th.abs.step (effPol (polB cp true) ac.gcActive) ac.st path =
          (none, { th.abs with hs := th.abs.hs ++ [some r], cur := none }) := by
        simp [Thread.step, LThread.abs, hcur, abs_ret?_of_ret? hr]
      rw [Cfg.step_thread_eq _ _ hath, ha]
      refine ⟨hR.st, ?_, hR.active⟩
      dsimp only
      rw [set_map_abs, hR.threads]
      rfl
    · -- micro-step of the task tree
      rename_i hnr
      cases h2 : t.step .code cp tid lc.sh [] path with
      | none => rw [h2] at h1; cases h1
      | some o =>
        rw [h2] at h1; cases h1
        have hs := task_sim hcap hR.st
          (fun b hb hh => hinv.gc.buckets b (gcHolds_of hb hh)) t [] path o
          (hinv.tasks tid th t hth hcur) h2
        unfold TaskSim at hs
        cases hev : o.ev with
        | none =>
          rw [hev] at hs
          unfold SimGoal
          dsimp only at hs ⊢
          refine ⟨by rw [hs.2]; exact hR.st, ?_, hR.active⟩
          rw [hR.threads]
          exact (set_same_abs hth (by simp [LThread.abs, hcur, hs.1])).symm
        | some b =>
          rw [hev] at hs
          unfold SimGoal
          dsimp only at hs ⊢
          obtain ⟨hn, h3, h4⟩ := hs
          have ha : th.abs.step (effPol (polB cp b) ac.gcActive) ac.st path =
              ((t.abs.step (effPol (polB cp b) ac.gcActive) ac.st path).1,
               { th.abs with cur := some (t.abs.step (effPol (polB cp b) ac.gcActive) ac.st path).2 }) := by
            simp [Thread.step, LThread.abs, hcur, hn]
          rw [Cfg.step_thread_eq _ _ hath, ha, hR.active]
          refine ⟨h4, ?_, rfl⟩
          dsimp only
          rw [set_map_abs, hR.threads, h3]
          rfl
  · rename_i hcur
    split at h1
    · cases h1
      unfold SimGoal
      refine ⟨hR.st, ?_, hR.active⟩
      dsimp only
      rw [hR.threads]
      exact (set_same_abs hth rfl).symm
    · rename_i c rest hsc
      cases h1
      unfold SimGoal
      dsimp only
      have ha : th.abs.step (effPol (polB cp true) ac.gcActive) ac.st path =
          (none, c.start th.abs rest) := by
        simp [Thread.step, LThread.abs, hcur, hsc]
      rw [Cfg.step_thread_eq _ _ hath, ha]
      refine ⟨hR.st, ?_, hR.active⟩
      dsimp only
      rw [set_map_abs, hR.threads, abs_liftThread]

/-! ## the collector -/

/-- what a step with label `l` means for `Threads` -/
def LabelGoal (cp : CachePar) (lc' : LCfg) (ac : Cfg) : Label → Prop
  | none => R cp lc' ac
  | some (b, sel) => R cp lc' (ac.step (polB cp b) sel)

theorem bne_and_le (m b : Nat) : (m != b && decide (b ≤ m)) = decide (b + 1 ≤ m) := by
  by_cases h1 : m = b
  · subst h1; simp
  · have : (m != b) = true := by simpa using h1
    rw [this, Bool.true_and]
    exact decide_eq_decide.mpr (by omega)

theorem clear_filter (cp : CachePar) (c : Cache) (b : Nat) :
    clearBucket cp (c.filter (fun x => decide (b ≤ cp.bkt x.1))) b =
      c.filter (fun x => decide (b + 1 ≤ cp.bkt x.1)) := by
  unfold clearBucket
  rw [List.filter_filter]
  apply List.filter_congr
  intro x _
  simp only [CachePar.bkt]
  exact bne_and_le _ _

theorem clearedOf_next (b cap : Nat) :
    clearedOf (if b + 1 < cap then .unlocking (b + 1) else .release) = 0 := by split <;> rfl

theorem gcActiveOf_next (b cap : Nat) :
    gcActiveOf (if b + 1 < cap then .unlocking (b + 1) else .release) = false := by split <;> rfl

theorem filter_all_cleared (cp : CachePar) (hcap : 0 < cp.cap) (c : Cache) {n : Nat}
    (hn : cp.cap ≤ n) : c.filter (fun x => decide (n ≤ cp.bkt x.1)) = [] := by
  rw [List.filter_eq_nil_iff]
  intro x _
  have : cp.bkt x.1 < cp.cap := Nat.mod_lt _ hcap
  simp only [decide_eq_true_eq]
  omega

/-- a micro-step of the collector is a stutter or `gcBegin` / `gcLevel l` / `gcEnd` of `Threads` -/
theorem sim_gc {cp : CachePar} (hcap : 0 < cp.cap) {lc lc' : LCfg} {ac : Cfg} {l : Label}
    {ch : GcChoice} (hR : R cp lc ac) (h : gcStep .code cp lc ch = some (lc', l)) :
    LabelGoal cp lc' ac l := by
  obtain ⟨sh, ths, pc⟩ := lc
  obtain ⟨hst, hth, hact⟩ := hR
  dsimp only at hst hth hact
  cases pc with
  | idle =>
    simp only [gcStep] at h
    split at h
    · cases h; exact ⟨hst, hth, hact⟩
    · cases h; exact ⟨hst, hth, hact⟩
  | locking b =>
    simp only [gcStep] at h
    split at h
    · cases h; exact ⟨hst, hth, hact⟩
    · cases h
  | clearing b =>
    simp only [gcStep, Variant.code_gc, if_true] at h
    simp only [clearedOf, gcActiveOf] at hst hact
    split at h
    · split at h
      · cases h
        refine ⟨⟨hst.store, hst.tick, ?_, fun hh => by cases hh⟩, hth, hact⟩
        show clearBucket cp sh.st.cache b = _
        rw [hst.cache]
        exact clear_filter cp _ b
      · rename_i hlast
        cases h
        refine ⟨⟨hst.store, hst.tick, ?_, fun _ => rfl⟩, hth, rfl⟩
        show clearBucket cp sh.st.cache b = _
        rw [hst.cache]
        show _ = []
        rw [clear_filter]
        exact filter_all_cleared cp hcap _ (by omega)
    · cases h
  | levels =>
    simp only [gcStep] at h
    split at h
    · split at h
      · cases h; exact ⟨hst, hth, hact⟩
      · cases h
    · cases h; exact ⟨hst, hth, hact⟩
  | lvlLocked l0 =>
    simp only [gcStep] at h
    simp only [clearedOf, gcActiveOf] at hst hact
    split at h
    · cases h
      have hroots : ac.roots = LCfg.roots ⟨sh, ths, .lvlLocked l0⟩ := by
        simp only [Cfg.roots, LCfg.roots, hth]
      have hstep : ac.step (polB cp true) (.gcLevel l0) =
          { ac with st := { ac.st with store := sweepLevel ac.st.store ac.roots l0 } } := by
        simp [Cfg.step, hact]
      unfold LabelGoal
      dsimp only
      rw [hstep]
      exact ⟨⟨by dsimp only; rw [hroots, hst.store], hst.tick, hst.cache, hst.empty⟩, hth, hact⟩
    · cases h
  | lvlSwept l0 =>
    simp only [gcStep] at h
    split at h
    · cases h; exact ⟨hst, hth, hact⟩
    · cases h
  | unlocking b =>
    simp only [gcStep] at h
    simp only [clearedOf] at hst
    split at h
    · cases h
      cases b with
      | zero =>
        refine ⟨?_, hth, ?_⟩
        · show CRel cp (clearedOf (if 0 + 1 < cp.cap then .unlocking (0 + 1) else .release))
            (gcActiveOf (if 0 + 1 < cp.cap then .unlocking (0 + 1) else .release)) sh.st ac.st
          rw [clearedOf_next, gcActiveOf_next]
          exact ⟨hst.store, hst.tick, hst.cache, fun hh => by cases hh⟩
        · show false = gcActiveOf (if 0 + 1 < cp.cap then .unlocking (0 + 1) else .release)
          rw [gcActiveOf_next]
      | succ n =>
        refine ⟨?_, hth, ?_⟩
        · show CRel cp (clearedOf (if n + 1 + 1 < cp.cap then .unlocking (n + 1 + 1) else .release))
            (gcActiveOf (if n + 1 + 1 < cp.cap then .unlocking (n + 1 + 1) else .release)) sh.st ac.st
          rw [clearedOf_next, gcActiveOf_next]
          exact ⟨hst.store, hst.tick, hst.cache, fun hh => by cases hh⟩
        · show ac.gcActive = gcActiveOf (if n + 1 + 1 < cp.cap then .unlocking (n + 1 + 1) else .release)
          rw [gcActiveOf_next, hact]
          rfl
    · cases h
  | release =>
    simp only [gcStep] at h
    split at h
    · cases h; exact ⟨hst, hth, hact⟩
    · cases h

end OxiddModel.Bdd.LThreads
