import OxiddModel.Bdd.LockStepsCfg

/-!
# `LThreads` ⟶ `Threads`: every micro-step is a stutter or the commit point of ONE atomic step

`task_sim`: a micro-step of a task tree with label `none` leaves the control state of `Threads` it
stands for (`LTask.abs`) and the data (`St`) unchanged; a micro-step with label `some b` is
exactly `Task.step` of `Threads.lean` on the abstracted control state — same action on the shared
state, same new control state — under the cache policy `Policy.dm cap hash (fun _ => b)` (`b`: did
the `try_lock` succeed), wrapped in `effPol` as in `Cfg.step`.

The lock-ownership invariant enters at exactly these places:
* `red … missed` (the write of `get_or_insert`): the lookup result read earlier is still valid
  (`TInv`: `find? = none`, preserved through other actors' steps by `TInv.frame`);
* `cget … locked` / `cadd … locked` (compare / write under the bucket lock): the owner of a bucket
  knows that the collector does not own it, hence no collection is between `gcBegin` and `gcEnd`
  and the bucket is not one the collector has already cleared (`owner_facts`);
* a `try_lock` that succeeds is a stutter, one that fails commits a miss.

The two caches: while `pre_gc` locks and clears bucket after bucket, `Threads`' cache (cleared in
one step at the commit point `gcBegin` = last bucket cleared) still holds the entries of the
cleared buckets; nobody can look at them, because these buckets are owned by the collector
(`CRel.cache`).
-/
namespace OxiddModel.Bdd.LThreads
open OxiddModel.Bdd OxiddModel.Bdd.BDD OxiddModel.Bdd.Refine OxiddModel.Bdd.Threads
open OxiddModel.Locks (Lock)

/-- the cache behaviour of one access: direct-mapped, `try_lock` outcome `b` -/
def polB (cp : CachePar) (b : Bool) : Policy := Policy.dm cp.cap cp.hash (fun _ => b)

theorem polB_ok (cp : CachePar) (b : Bool) : (polB cp b).OK := Policy.dm_ok _ _ _

/-! ## `Call.classify` is `Call.entry` -/

theorem Call.entry_eq (p : Policy) (st : St) (d : Nat) (c : Call) :
    c.entry p st d =
      match Call.classify d c with
      | .loc t => (none, t)
      | .qry key => query p st d c key := by
  cases c with
  | not f => cases f <;> rfl
  | bin op f g =>
    simp only [Call.entry, Call.classify]
    cases terminalBinS op f g <;> rfl
  | ite f g h =>
    simp only [Call.entry, Call.classify]
    by_cases h1 : g = h
    · rw [if_pos h1, if_pos h1]
    · rw [if_neg h1, if_neg h1]
      by_cases h2 : f = g
      · rw [if_pos h2, if_pos h2]
      · rw [if_neg h2, if_neg h2]
        by_cases h3 : f = h
        · rw [if_pos h3, if_pos h3]
        · rw [if_neg h3, if_neg h3]
          cases f with
          | term b => rfl
          | inner i =>
            cases g with
            | term gb =>
              cases h with
              | term hb => cases gb <;> rfl
              | inner j => cases gb <;> rfl
            | inner j =>
              cases h with
              | term hb => cases hb <;> rfl
              | inner k => rfl

theorem abs_lift (t : Task) : (lift t).abs = t := by
  induction t with
  | call | miss | made | ret => rfl
  | seq1 fr c0 t1 ih => simp [lift, LTask.abs, ih]
  | seq0 fr r1 t0 ih => simp [lift, LTask.abs, ih]
  | par fr t1 t0 ih1 ih0 => simp [lift, LTask.abs, ih1, ih0]

theorem query_none {p : Policy} {st : St} {key : Key} (h : p.get st.tick st.cache key = none)
    (d : Nat) (c : Call) : query p st d c key = (some .cacheGet, .miss d c key) := by
  simp [query, h]

theorem query_some {p : Policy} {st : St} {key : Key} {r : Edge}
    (h : p.get st.tick st.cache key = some r) (d : Nat) (c : Call) :
    query p st d c key = (some .cacheGet, .ret r) := by
  simp [query, h]

/-! ## the policies of single accesses -/

theorem effPol_false_get (cp : CachePar) (a : Bool) (n : Nat) (c : Cache) (k : Key) :
    (effPol (polB cp false) a).get n c k = none := by
  cases a <;> simp [effPol, polB, Policy.dm, Policy.none]

theorem effPol_false_add (cp : CachePar) (a : Bool) (n : Nat) (c : Cache) (k : Key) (r : Edge) :
    (effPol (polB cp false) a).add n c k r = c := by
  cases a <;> simp [effPol, polB, Policy.dm, Policy.none]

theorem polB_true_get (cp : CachePar) (n : Nat) (c : Cache) (k : Key) :
    (effPol (polB cp true) false).get n c k = c.lookup k := by
  simp [effPol, polB, Policy.dm]

theorem polB_true_add (cp : CachePar) (n : Nat) (c : Cache) (k : Key) (r : Edge) :
    (effPol (polB cp true) false).add n c k r =
      (k, r) :: c.filter (fun x => cp.hash x.1 % cp.cap != cp.hash k % cp.cap) := by
  simp [effPol, polB, Policy.dm]

/-! ## the relation between the two shared states -/

/-- `sta` (state of `Threads`) and `st` (state of this machine): same store and time stamp; the
cache of this machine is `Threads`' cache without the buckets `< k` already cleared by an
incomplete `pre_gc`; between `gcBegin` and `gcEnd` both are empty -/
structure CRel (cp : CachePar) (k : Nat) (active : Bool) (st sta : St) : Prop where
  store : sta.store = st.store
  tick : sta.tick = st.tick
  cache : st.cache = sta.cache.filter (fun x => decide (k ≤ cp.bkt x.1))
  empty : active = true → sta.cache = []

theorem CRel.tickd {cp : CachePar} {k : Nat} {a : Bool} {st sta : St} (h : CRel cp k a st sta) :
    CRel cp k a st.tickd sta.tickd :=
  ⟨h.store, by simp [St.tickd, h.tick], h.cache, h.empty⟩

theorem lookup_filter {c : Cache} {key : Key} (q : Key × Edge → Bool)
    (hq : ∀ v, q (key, v) = true) : (c.filter q).lookup key = c.lookup key := by
  induction c with
  | nil => rfl
  | cons x xs ih =>
    obtain ⟨k', v'⟩ := x
    by_cases hk : key == k'
    · have : k' = key := (beq_iff_eq.mp hk).symm
      subst this
      simp [List.filter, hq v', List.lookup]
    · cases hqx : q (k', v') with
      | true => simp [List.filter, hqx, List.lookup, hk, ih]
      | false => simp [List.filter, hqx, List.lookup, hk, ih]

/-- what the owner of a bucket knows about the collector -/
theorem owner_facts {cp : CachePar} (hcap : 0 < cp.cap) {sh : Sh} {k : Nat} {active : Bool}
    (hgc : ∀ b, b < cp.cap → (active = true ∨ b < k) → sh.locks (.bucket b) = some .gc)
    {key : Key} {tid : Nat} {pos : List Bool}
    (hown : sh.locks (.bucket (cp.bkt key)) = some (.task tid pos)) :
    active = false ∧ k ≤ cp.bkt key := by
  have hb : cp.bkt key < cp.cap := Nat.mod_lt _ hcap
  have hno : ¬ (active = true ∨ cp.bkt key < k) := by
    intro hh
    have := hgc _ hb hh
    rw [hown] at this; cases this
  constructor
  · cases active
    · rfl
    · exact absurd (.inl rfl) hno
  · omega

/-! ## the simulation of one micro-step of a task tree -/

/-- what a micro-step `t ⟶ o` means for `Threads` -/
def TaskSim (cp : CachePar) (k : Nat) (active : Bool) (sta : St) (sh : Sh) (t : LTask)
    (path : List Bool) (o : MOut) : Prop :=
  match o.ev with
  | none => o.t.abs = t.abs ∧ o.sh.st = sh.st
  | some b =>
    t.abs.ret? = none ∧
    (Task.step (effPol (polB cp b) active) sta t.abs path).2 = o.t.abs ∧
    CRel cp k active o.sh.st (runOpt (Task.step (effPol (polB cp b) active) sta t.abs path).1 sta)

theorem unred_step (p : Policy) (st : St) (isPar : Bool) (fr : Threads.Frame) (r1 r0 : Edge)
    (path : List Bool) : Task.step p st (unred isPar fr r1 r0) path = reduceOut st fr r1 r0 := by
  cases isPar <;> simp [unred, Task.step, Task.ret?]

theorem unred_ret? (isPar : Bool) (fr : Threads.Frame) (r1 r0 : Edge) :
    (unred isPar fr r1 r0).ret? = none := by cases isPar <;> rfl

theorem reduceStart_sim {cp : CachePar} {k : Nat} {active : Bool} {sta : St} {sh : Sh} {w : Who}
    (hrel : CRel cp k active sh.st sta) {isPar : Bool} {fr : Threads.Frame} {r1 r0 : Edge} {o : MOut}
    (h : reduceStart sh w isPar fr r1 r0 = some o) :
    match o.ev with
    | none => o.t.abs = unred isPar fr r1 r0 ∧ o.sh.st = sh.st
    | some _ => (reduceOut sta fr r1 r0).2 = o.t.abs ∧
        CRel cp k active o.sh.st (runOpt (reduceOut sta fr r1 r0).1 sta) := by
  unfold reduceStart at h
  split at h
  · rename_i heq
    cases h
    subst heq
    dsimp only
    refine ⟨by simp [reduceOut, Store.mkNode, LTask.abs], ?_⟩
    simp only [reduceOut, runOpt, Action.run, Store.mkNode, if_true]
    exact hrel
  · split at h
    · cases h; exact ⟨rfl, rfl⟩
    · cases h

theorem mkNode_hit {s : Store} {l : Nat} {t e : Edge} {i : Nat} (hne : t ≠ e)
    (h : s.find? ⟨l, t, e⟩ = some i) : s.mkNode l t e = (s, .inner i) := by
  simp [Store.mkNode, hne, h]

theorem mkNode_miss {s : Store} {l : Nat} {t e : Edge} (hne : t ≠ e)
    (h : s.find? ⟨l, t, e⟩ = none) :
    s.mkNode l t e = ((s.alloc ⟨l, t, e⟩).1, .inner (s.alloc ⟨l, t, e⟩).2) := by
  simp [Store.mkNode, hne, h]

theorem abs_ret?_of_ret? {t : LTask} {r : Edge} (h : t.ret? = some r) : t.abs.ret? = some r := by
  rw [LTask.ret?_some h]; rfl

theorem par_step_left (p : Policy) (st : St) (fr : Threads.Frame) {a1 a0 : Task} {path : List Bool}
    (h1 : a1.ret? = none) (hp : pickLeft path a1 a0 = true) :
    Task.step p st (.par fr a1 a0) path =
      ((a1.step p st path.tail).1, .par fr (a1.step p st path.tail).2 a0) := by
  simp [Task.step, h1, hp]

theorem par_step_right (p : Policy) (st : St) (fr : Threads.Frame) {a1 a0 : Task} {path : List Bool}
    (h0 : a0.ret? = none) (hp : pickLeft path a1 a0 = false) :
    Task.step p st (.par fr a1 a0) path =
      ((a0.step p st path.tail).1, .par fr a1 (a0.step p st path.tail).2) := by
  cases h : a1.ret? <;> simp [Task.step, h, h0, hp]

theorem pick_left_abs {path : List Bool} {t1 t0 : LTask} (hc : pickLeftL path t1 t0 = true)
    (hn : t1.abs.ret? = none) : pickLeft path t1.abs t0.abs = true := by
  unfold pickLeft
  rw [hn]
  cases h0 : t0.abs.ret? with
  | some _ => rfl
  | none =>
    dsimp only
    unfold pickLeftL at hc
    cases c1 : t1.ret? with
    | some r => rw [c1] at hc; cases hc
    | none =>
      cases c0 : t0.ret? with
      | some r => rw [abs_ret?_of_ret? c0] at h0; cases h0
      | none => rw [c1, c0] at hc; exact hc

theorem pick_right_abs {path : List Bool} {t1 t0 : LTask} (hc : pickLeftL path t1 t0 = false)
    (hn : t0.abs.ret? = none) : pickLeft path t1.abs t0.abs = false := by
  unfold pickLeft
  rw [hn]
  cases h1 : t1.abs.ret? with
  | some _ => rfl
  | none =>
    dsimp only
    unfold pickLeftL at hc
    cases c1 : t1.ret? with
    | some r => rw [abs_ret?_of_ret? c1] at h1; cases h1
    | none =>
      cases c0 : t0.ret? with
      | some r => rw [c1, c0] at hc; cases hc
      | none => rw [c1, c0] at hc; exact hc

/-- **Simulation of task micro-steps.** -/
theorem task_sim {cp : CachePar} (hcap : 0 < cp.cap) {tid : Nat} {sh : Sh} {k : Nat} {active : Bool}
    {sta : St} (hrel : CRel cp k active sh.st sta)
    (hgc : ∀ b, b < cp.cap → (active = true ∨ b < k) → sh.locks (.bucket b) = some .gc) :
    ∀ (t : LTask) (pos path : List Bool) (o : MOut), TInv sh cp tid pos t →
      t.step .code cp tid sh pos path = some o → TaskSim cp k active sta sh t path o := by
  intro t
  induction t with
  | ret r =>
    intro pos path o _ h
    simp only [LTask.step] at h; cases h
    exact ⟨rfl, rfl⟩
  | call d c =>
    intro pos path o _ h
    simp only [LTask.step] at h
    split at h
    · rename_i t' hcl
      cases h
      unfold TaskSim; dsimp only
      have he : ∀ p, Task.step p sta (LTask.call d c).abs path = (none, t') := by
        intro p; simp only [LTask.abs, Task.step, Call.entry_eq, hcl]
      rw [he]
      exact ⟨rfl, (abs_lift t').symm, hrel⟩
    · rename_i key hcl
      split at h
      · cases h; exact ⟨rfl, rfl⟩
      · cases h
        unfold TaskSim; dsimp only
        have he : Task.step (effPol (polB cp false) active) sta (LTask.call d c).abs path =
            (some .cacheGet, .miss d c key) := by
          simp only [LTask.abs, Task.step, Call.entry_eq, hcl]
          exact query_none (effPol_false_get _ _ _ _ _) d c
        rw [he]
        exact ⟨rfl, rfl, hrel.tickd⟩
  | miss d c key =>
    intro pos path o _ h
    simp only [LTask.step] at h; cases h
    unfold TaskSim; dsimp only
    refine ⟨rfl, ?_, ?_⟩
    · simp only [LTask.abs, Task.step, abs_lift, hrel.store]
    · simpa only [LTask.abs, Task.step, runOpt] using hrel
  | made key r =>
    intro pos path o _ h
    simp only [LTask.step] at h
    split at h
    · cases h; exact ⟨rfl, rfl⟩
    · cases h
      unfold TaskSim; dsimp only
      refine ⟨rfl, rfl, ?_⟩
      simp only [LTask.abs, Task.step, runOpt, Action.run, effPol_false_add]
      exact ⟨hrel.store, by simp [Sh.tick, St.tickd, hrel.tick], hrel.cache, hrel.empty⟩
  | cget d c key ph =>
    intro pos path o hinv h
    simp only [LTask.step] at h
    obtain ⟨hown, rfl⟩ := guardOwn_some h
    cases ph with
    | hit h => exact ⟨rfl, rfl⟩
    | copied h => exact ⟨rfl, rfl⟩
    | missed => exact ⟨rfl, rfl⟩
    | locked =>
      obtain ⟨hact, hk⟩ := owner_facts hcap hgc hown
      subst hact
      have hlk : sh.st.cache.lookup key = sta.cache.lookup key := by
        rw [hrel.cache]
        exact lookup_filter _ (fun v => by simpa using hk)
      dsimp only
      cases hl : sh.st.cache.lookup key with
      | some r =>
        unfold TaskSim; dsimp only
        have he : Task.step (effPol (polB cp true) false) sta (LTask.cget d c key .locked).abs path =
            (some .cacheGet, .ret r) := by
          have hcl : Call.classify d c = .qry key := hinv.1
          simp only [LTask.abs, getAbs, Task.step, Call.entry_eq, hcl]
          exact query_some (by rw [polB_true_get, ← hlk, hl]) d c
        rw [he]
        exact ⟨rfl, rfl, hrel.tickd⟩
      | none =>
        unfold TaskSim; dsimp only
        have he : Task.step (effPol (polB cp true) false) sta (LTask.cget d c key .locked).abs path =
            (some .cacheGet, .miss d c key) := by
          have hcl : Call.classify d c = .qry key := hinv.1
          simp only [LTask.abs, getAbs, Task.step, Call.entry_eq, hcl]
          exact query_none (by rw [polB_true_get, ← hlk, hl]) d c
        rw [he]
        exact ⟨rfl, rfl, hrel.tickd⟩
  | cadd key r ph =>
    intro pos path o hinv h
    simp only [LTask.step] at h
    obtain ⟨hown, rfl⟩ := guardOwn_some h
    cases ph with
    | written => exact ⟨rfl, rfl⟩
    | locked =>
      obtain ⟨hact, hk⟩ := owner_facts hcap hgc hown
      subst hact
      unfold TaskSim; dsimp only
      refine ⟨rfl, rfl, ?_⟩
      simp only [LTask.abs, addAbs, Task.step, runOpt, Action.run, polB_true_add]
      refine ⟨hrel.store, by simp [hrel.tick], ?_, fun hh => by cases hh⟩
      dsimp only
      rw [hrel.cache, List.filter_cons]
      have : decide (k ≤ cp.bkt key) = true := by simpa using hk
      simp only [this, if_true, List.filter_filter]
      congr 1
      apply List.filter_congr
      intro x _
      exact Bool.and_comm _ _
  | red isPar fr r1 r0 ph =>
    intro pos path o hinv h
    cases ph with
    | gap => exact absurd hinv.2 (by simp [MkInv])
    | relocked => exact absurd hinv.2 (by simp [MkInv])
    | locked =>
      simp only [LTask.step] at h
      obtain ⟨hown, rfl⟩ := guardOwn_some h
      cases hf : sh.st.store.find? ⟨fr.lvl, r1, r0⟩ with
      | none => exact ⟨rfl, rfl⟩
      | some i =>
        unfold TaskSim; dsimp only
        simp only [LTask.abs, redAbs, unred_step, unred_ret?, reduceOut, runOpt, Action.run,
          hrel.store, mkNode_hit hinv.1 hf, true_and]
        exact ⟨rfl, hrel.tick, hrel.cache, hrel.empty⟩
    | missed =>
      simp only [LTask.step, Variant.code_mk, if_true] at h
      obtain ⟨hown, rfl⟩ := guardOwn_some h
      unfold TaskSim; dsimp only [writeNode]
      simp only [LTask.abs, redAbs, unred_step, unred_ret?, reduceOut, runOpt, Action.run,
        hrel.store, mkNode_miss hinv.1 hinv.2.2, true_and]
      exact ⟨rfl, hrel.tick, hrel.cache, hrel.empty⟩
    | done r =>
      simp only [LTask.step] at h
      obtain ⟨hown, rfl⟩ := guardOwn_some h
      exact ⟨rfl, rfl⟩
  | seq1 fr c0 t1 ih =>
    intro pos path o hinv h
    simp only [LTask.step] at h
    split at h
    · rename_i r1 hr
      cases h
      have := LTask.ret?_some hr
      subst this
      unfold TaskSim; dsimp only
      refine ⟨rfl, rfl, ?_⟩
      simpa only [LTask.abs, Task.step, Task.ret?, runOpt] using hrel
    · cases h1 : t1.step .code cp tid sh pos path with
      | none => rw [h1] at h; cases h
      | some o1 =>
        rw [h1] at h; cases h
        have := ih pos path o1 hinv h1
        unfold TaskSim at this ⊢
        dsimp only
        cases hev : o1.ev with
        | none =>
          rw [hev] at this
          dsimp only at this ⊢
          exact ⟨by simp only [LTask.abs, this.1], this.2⟩
        | some b =>
          rw [hev] at this
          dsimp only at this ⊢
          obtain ⟨hn, h2, h3⟩ := this
          simp only [LTask.abs, Task.step, hn]
          exact ⟨rfl, by rw [h2], h3⟩
  | seq0 fr r1 t0 ih =>
    intro pos path o hinv h
    simp only [LTask.step] at h
    split at h
    · rename_i r0 hr
      have := LTask.ret?_some hr
      subst this
      have hs := reduceStart_sim hrel h
      unfold TaskSim
      cases hev : o.ev with
      | none =>
        rw [hev] at hs
        exact ⟨hs.1.trans rfl, hs.2⟩
      | some b =>
        rw [hev] at hs
        dsimp only at hs ⊢
        simp only [LTask.abs, Task.step, Task.ret?]
        exact ⟨trivial, hs.1, hs.2⟩
    · cases h1 : t0.step .code cp tid sh pos path with
      | none => rw [h1] at h; cases h
      | some o1 =>
        rw [h1] at h; cases h
        have := ih pos path o1 hinv h1
        unfold TaskSim at this ⊢
        dsimp only
        cases hev : o1.ev with
        | none =>
          rw [hev] at this
          dsimp only at this ⊢
          exact ⟨by simp only [LTask.abs, this.1], this.2⟩
        | some b =>
          rw [hev] at this
          dsimp only at this ⊢
          obtain ⟨hn, h2, h3⟩ := this
          simp only [LTask.abs, Task.step, hn]
          exact ⟨rfl, by rw [h2], h3⟩
  | par fr t1 t0 ih1 ih0 =>
    intro pos path o hinv h
    simp only [LTask.step] at h
    split at h
    · rename_i r1 r0 hr1 hr0
      have := LTask.ret?_some hr1
      subst this
      have := LTask.ret?_some hr0
      subst this
      have hs := reduceStart_sim hrel h
      unfold TaskSim
      cases hev : o.ev with
      | none =>
        rw [hev] at hs
        exact ⟨hs.1.trans rfl, hs.2⟩
      | some b =>
        rw [hev] at hs
        dsimp only at hs ⊢
        simp only [LTask.abs, Task.step, Task.ret?]
        exact ⟨trivial, hs.1, hs.2⟩
    · split at h
      · rename_i hpick
        cases h1 : t1.step .code cp tid sh (pos ++ [true]) path.tail with
        | none => rw [h1] at h; cases h
        | some o1 =>
          rw [h1] at h; cases h
          have := ih1 _ _ o1 hinv.1 h1
          unfold TaskSim at this ⊢
          dsimp only
          cases hev : o1.ev with
          | none =>
            rw [hev] at this
            dsimp only at this ⊢
            exact ⟨by simp only [LTask.abs, this.1], this.2⟩
          | some b =>
            rw [hev] at this
            dsimp only at this ⊢
            obtain ⟨hn, h2, h3⟩ := this
            simp only [LTask.abs, par_step_left _ _ _ hn (pick_left_abs hpick hn)]
            exact ⟨rfl, by rw [h2], h3⟩
      · rename_i hpick
        have hpick : pickLeftL path t1 t0 = false := by simpa using hpick
        cases h1 : t0.step .code cp tid sh (pos ++ [false]) path.tail with
        | none => rw [h1] at h; cases h
        | some o1 =>
          rw [h1] at h; cases h
          have := ih0 _ _ o1 hinv.2 h1
          unfold TaskSim at this ⊢
          dsimp only
          cases hev : o1.ev with
          | none =>
            rw [hev] at this
            dsimp only at this ⊢
            exact ⟨by simp only [LTask.abs, this.1], this.2⟩
          | some b =>
            rw [hev] at this
            dsimp only at this ⊢
            obtain ⟨hn, h2, h3⟩ := this
            simp only [LTask.abs, par_step_right _ _ _ hn (pick_right_abs hpick hn)]
            exact ⟨rfl, by rw [h2], h3⟩

end OxiddModel.Bdd.LThreads
