/-!
# Tree-level model of the simple BDD rules (`crates/oxidd-rules-bdd/src/simple`)

A diagram is modelled by its unfolding into a tree over *levels*; the variable↔level maps are
kept by the driver. Every function below mirrors the case structure of the Rust function named
in its doc comment (same terminal cases in the same order, same cofactor selection, same
delegation between operators) but without store, apply cache and reference counts — those are
the subject of the `Store` layer, which is tied to this one by refinement theorems.

Where the Rust code compares edges (`f == g`) the model compares trees; this is justified by
canonicity (`OxiddModel.Bdd.canon` + hash consing): in a store satisfying the invariant two
edges are equal iff the trees they denote are equal.
-/
namespace OxiddModel.Bdd

inductive BDD where
  | leaf : Bool → BDD
  | node : Nat → BDD → BDD → BDD
deriving DecidableEq, Repr, Inhabited

namespace BDD

/-- value under an assignment of the *levels* -/
def eval (σ : Nat → Bool) : BDD → Bool
  | leaf b => b
  | node l t e => if σ l then t.eval σ else e.eval σ

def size : BDD → Nat
  | leaf _ => 1
  | node _ t e => 1 + t.size + e.size

theorem size_pos (a : BDD) : 0 < a.size := by cases a <;> simp [size] <;> omega

/-- all levels on every path are ≥ `n` and strictly increase -/
inductive Ordered : Nat → BDD → Prop
  | leaf : Ordered n (leaf b)
  | node : n ≤ l → Ordered (l+1) t → Ordered (l+1) e → Ordered n (node l t e)

/-- the BDD reduction rule: no node has identical children -/
def Reduced : BDD → Prop
  | leaf _ => True
  | node _ t e => t ≠ e ∧ Reduced t ∧ Reduced e

/-- normal form: ordered from level `n` on and reduced -/
def NF (n : Nat) (a : BDD) : Prop := Ordered n a ∧ Reduced a

def isLeaf : BDD → Bool
  | leaf _ => true
  | node .. => false

end BDD

open BDD

/-- `reduce` (simple/mod.rs): the reduction rule plus hash consing, which is the identity on trees -/
def mk (l : Nat) (t e : BDD) : BDD := if t = e then t else .node l t e

/-- the eight binary operators of `BDDOp` that `apply_bin` is instantiated with -/
inductive Op where
  | and | or | nand | nor | xor | equiv | imp | impStrict
deriving DecidableEq, Repr, Inhabited

def Op.sem : Op → Bool → Bool → Bool
  | .and, a, b => a && b
  | .or, a, b => a || b
  | .nand, a, b => !(a && b)
  | .nor, a, b => !(a || b)
  | .xor, a, b => a != b
  | .equiv, a, b => a == b
  | .imp, a, b => !a || b
  | .impStrict, a, b => !a && b

/-- result of `terminal_bin` -/
inductive Operation where
  | done : BDD → Operation
  | notOf : BDD → Operation
  | binary : Op → BDD → BDD → Operation
deriving Repr

/-- `terminal_bin::<OP>` (simple/mod.rs). The operand swap `f > g` for commutative operators only
affects the apply-cache key; it is not visible at tree level. -/
def terminalBin (op : Op) (f g : BDD) : Operation :=
  match op with
  | .and =>
    if f = g then .done f else
    match f, g with
    | .node .., .node .. => .binary .and f g
    | .leaf false, _ => .done (.leaf false)
    | _, .leaf false => .done (.leaf false)
    | .leaf true, _ => .done g
    | _, .leaf true => .done f
  | .or =>
    if f = g then .done f else
    match f, g with
    | .node .., .node .. => .binary .or f g
    | .leaf true, _ => .done (.leaf true)
    | _, .leaf true => .done (.leaf true)
    | .leaf false, _ => .done g
    | _, .leaf false => .done f
  | .nand =>
    if f = g then .notOf f else
    match f, g with
    | .node .., .node .. => .binary .nand f g
    | .leaf false, _ => .done (.leaf true)
    | _, .leaf false => .done (.leaf true)
    | .leaf true, _ => .notOf g
    | _, .leaf true => .notOf f
  | .nor =>
    if f = g then .notOf f else
    match f, g with
    | .node .., .node .. => .binary .nor f g
    | .leaf true, _ => .done (.leaf false)
    | _, .leaf true => .done (.leaf false)
    | .leaf false, _ => .notOf g
    | _, .leaf false => .notOf f
  | .xor =>
    if f = g then .done (.leaf false) else
    match f, g with
    | .node .., .node .. => .binary .xor f g
    | .leaf false, _ => .done g
    | _, .leaf false => .done f
    | .leaf true, _ => .notOf g
    | _, .leaf true => .notOf f
  | .equiv =>
    if f = g then .done (.leaf true) else
    match f, g with
    | .node .., .node .. => .binary .equiv f g
    | .leaf true, _ => .done g
    | _, .leaf true => .done f
    | .leaf false, _ => .notOf g
    | _, .leaf false => .notOf f
  | .imp =>
    if f = g then .done (.leaf true) else
    match f, g with
    | .node .., .node .. => .binary .imp f g
    | .leaf false, _ => .done (.leaf true)
    | _, .leaf true => .done (.leaf true)
    | .leaf true, _ => .done g
    | _, .leaf false => .notOf f
  | .impStrict =>
    if f = g then .done (.leaf false) else
    match f, g with
    | .node .., .node .. => .binary .impStrict f g
    | .leaf true, _ => .done (.leaf false)
    | _, .leaf false => .done (.leaf false)
    | .leaf false, _ => .done g
    | _, .leaf true => .notOf f

/-- `apply_not` -/
def applyNot : BDD → BDD
  | .leaf b => .leaf (!b)
  | .node l t e => mk l (applyNot t) (applyNot e)

/-- the part of `apply_bin` before the recursion: `Done(h) ⇒ h`, `Not(h) ⇒ apply_not(h)`,
`Binary ⇒` recurse (`none`) -/
def terminalCase (op : Op) (f g : BDD) : Option BDD :=
  match terminalBin op f g with
  | .done r => some r
  | .notOf h => some (applyNot h)
  | .binary .. => none

/-- `apply_bin::<OP>` -/
def applyBin (op : Op) (f g : BDD) : BDD :=
  match terminalCase op f g with
  | some r => r
  | none =>
    match f, g with
    | .node lf ft fe, .node lg gt ge =>
      let l := min lf lg
      mk l
        (applyBin op (if lf = l then ft else .node lf ft fe) (if lg = l then gt else .node lg gt ge))
        (applyBin op (if lf = l then fe else .node lf ft fe) (if lg = l then ge else .node lg gt ge))
    | _, _ => .leaf false -- unreachable: `terminalCase` is `none` only for two inner nodes
termination_by f.size + g.size
decreasing_by
  all_goals simp_wf
  all_goals (split <;> split <;> simp only [BDD.size] <;> omega)

/-- `apply_ite` -/
def applyIte (f g h : BDD) : BDD :=
  if g = h then g else
  if f = g then applyBin .or f h else
  if f = h then applyBin .and f g else
  match f with
  | .leaf b => if b then g else h
  | .node lf ft fe =>
    match g, h with
    | .leaf true, .node .. => applyBin .or f h
    | .leaf false, .node .. => applyBin .impStrict f h
    | .node .., .leaf true => applyBin .imp f g
    | .node .., .leaf false => applyBin .and f g
    | .leaf gb, .leaf _ => if gb then f else applyNot f
    | .node lg gt ge, .node lh ht he =>
      let l := min (min lf lg) lh
      mk l
        (applyIte (if lf = l then ft else .node lf ft fe) (if lg = l then gt else .node lg gt ge)
          (if lh = l then ht else .node lh ht he))
        (applyIte (if lf = l then fe else .node lf ft fe) (if lg = l then ge else .node lg gt ge)
          (if lh = l then he else .node lh ht he))
termination_by f.size + g.size + h.size
decreasing_by
  all_goals simp_wf
  all_goals (split <;> split <;> split <;> simp only [BDD.size] <;> omega)

/-- `set_pop` (lib.rs): drop the variables of the set (a conjunction of positive literals) above
level `until`, following the then-child -/
def setPop (set : BDD) (until_ : Nat) : BDD :=
  match set with
  | .node l t _ => if l ≥ until_ then set else setPop t until_
  | .leaf _ => set

/-- quantifier kinds; the Rust code passes the combining operator `And`/`Or`/`Xor` as `Q` -/
inductive Quant where
  | forall_ | exists_ | unique
deriving DecidableEq, Repr, Inhabited

def Quant.op : Quant → Op
  | .forall_ => .and
  | .exists_ => .or
  | .unique => .xor

/-- `quant::<Q>` -/
def quant (q : Quant) (f vars : BDD) : BDD :=
  match f with
  | .leaf _ =>
    if q ≠ .unique || vars.isLeaf then f else .leaf false
  | .node fl ft fe =>
    let vars := if q ≠ .unique then setPop vars fl else vars
    match vars with
    | .leaf _ => f
    | .node vl vt _ =>
      if q = .unique ∧ vl < fl then .leaf false else
      let vt' := if vl = fl then vt else vars
      let t := quant q ft vt'
      let e := quant q fe vt'
      if fl = vl then applyBin q.op t e else mk fl t e

/-- `apply_quant::<Q, OP>` -/
def applyQuant (q : Quant) (op : Op) (f g vars : BDD) : BDD :=
  match terminalBin op f g with
  | .notOf h => quant q (applyNot h) vars
  | .done h => quant q h vars
  | .binary .. =>
    match f, g with
    | .node fl ft fe, .node gl gt ge =>
      let minl := min fl gl
      let vars := if q ≠ .unique then setPop vars minl else vars
      match vars with
      | .leaf _ => applyBin op f g
      | .node vl vt _ =>
        if vl < minl ∧ q = .unique then .leaf false else
        if minl > vl then applyBin op f g else
        let vt' := if vl = minl then vt else vars
        let t := applyQuant q op (if fl ≤ gl then ft else .node fl ft fe) (if fl ≥ gl then gt else .node gl gt ge) vt'
        let e := applyQuant q op (if fl ≤ gl then fe else .node fl ft fe) (if fl ≥ gl then ge else .node gl gt ge) vt'
        if minl = vl then applyBin q.op t e else mk minl t e
    | _, _ => .leaf false -- unreachable
termination_by f.size + g.size
decreasing_by
  all_goals simp_wf
  all_goals (split <;> split <;> simp only [BDD.size] <;> omega)

/-- `restrict` including its tail-recursive `inner` walk over the literal cube `vars` -/
def restrict (f vars : BDD) : BDD :=
  match f, vars with
  | .node fl ft fe, .node vl vt ve =>
    if vl > fl then
      -- f above the top-most restrict variable
      mk fl (restrict ft (.node vl vt ve)) (restrict fe (.node vl vt ve))
    else if vl < fl then
      -- vars above f
      match vt with
      | .node l1 a1 b1 => restrict (.node fl ft fe) (.node l1 a1 b1)
      | .leaf true => .node fl ft fe
      | .leaf false =>
        match ve with
        | .node l2 a2 b2 => restrict (.node fl ft fe) (.node l2 a2 b2)
        | .leaf _ => .node fl ft fe
    else
      match vt with
      | .node l1 a1 b1 => restrict ft (.node l1 a1 b1)   -- positive literal ⇒ then branch
      | .leaf true => ft
      | .leaf false =>                                   -- negative literal ⇒ else branch
        match ve with
        | .node l2 a2 b2 => restrict fe (.node l2 a2 b2)
        | .leaf _ => fe
  | _, _ => f
termination_by f.size + vars.size
decreasing_by
  all_goals simp_wf
  all_goals simp only [BDD.size]
  all_goals omega

/-- `substitute` with the vector built by `substitute_prepare` (level ↦ replacement) -/
def substitute (subst : List BDD) : BDD → BDD
  | .leaf b => .leaf b
  | .node l t e =>
    match subst[l]? with
    | none => .node l t e
    | some r => applyIte r (substitute subst t) (substitute subst e)

/-- `substitute_prepare`: levels not mentioned are mapped to the variable of that level -/
def substPrepare (pairs : List (Nat × BDD)) : List BDD :=
  let len := pairs.foldl (fun m p => max m (p.1 + 1)) 0
  (List.range len).map fun l =>
    match pairs.lookup l with
    | some r => r
    | none => .node l (.leaf true) (.leaf false)

/-- `pick_cube_edge`: the list of `(level, value)` decisions along the single path; `none` for ⊥ -/
def pickPath (choice : Nat → Bool) : BDD → List (Nat × Bool)
  | .leaf _ => []
  | .node l t e =>
    let c := if t = .leaf false then false else if e = .leaf false then true else choice l
    if c then (l, true) :: pickPath choice t else (l, false) :: pickPath choice e

def pickCube (choice : Nat → Bool) (f : BDD) : Option (List (Nat × Bool)) :=
  match f with
  | .leaf false => none
  | _ => some (pickPath choice f)

/-- `pick_cube_dd_edge` -/
def pickCubeDD (choice : Nat → Bool) : BDD → BDD
  | .leaf b => .leaf b
  | .node l t e =>
    let c := if t = .leaf false then false else if e = .leaf false then true else choice l
    if c then .node l (pickCubeDD choice t) (.leaf false)
    else .node l (.leaf false) (pickCubeDD choice e)

/-- `literal_set_pop` (local to `pick_cube_dd_set_edge`): drop the literals above level `until`,
following the child that is not ⊥ -/
def literalSetPop (set : BDD) (until_ : Nat) : BDD :=
  match set with
  | .node l t e => if l < until_ then (if t = .leaf false then literalSetPop e until_ else literalSetPop t until_) else set
  | .leaf _ => set

/-- `pick_cube_dd_set_edge` -/
def pickCubeDDSet (f literalSet : BDD) : BDD :=
  match f with
  | .leaf b => .leaf b
  | .node l t e =>
    let ls := literalSetPop literalSet l
    let (ls', c) : BDD × Bool :=
      match ls with
      | .node sl st se =>
        if sl = l then (if se = .leaf false then (st, true) else (se, false)) else (ls, false)
      | .leaf _ => (ls, false)
    let c := if t = .leaf false then false else if e = .leaf false then true else c
    if c then .node l (pickCubeDDSet t ls') (.leaf false)
    else .node l (.leaf false) (pickCubeDDSet e ls')

/-- number of models over the levels `[k, n)` (reference semantics for counting) -/
def countFrom (n : Nat) : Nat → BDD → Nat
  | k, .leaf b => if b then 2 ^ (n - k) else 0
  | k, .node l t e => 2 ^ (l - k) * (countFrom n (l + 1) t + countFrom n (l + 1) e)

/-- `sat_count_edge` over exact naturals: terminal value `2^vars`, `(c_t + c_e) >> 1` -/
def satCount (vars : Nat) : BDD → Nat
  | .leaf b => if b then 2 ^ vars else 0
  | .node _ t e => (satCount vars t + satCount vars e) >>> 1

/-- all distinct subtrees (the nodes of the shared diagram), used for `node_count` -/
def subtrees : BDD → List BDD → List BDD
  | .leaf b, acc => if acc.contains (.leaf b) then acc else .leaf b :: acc
  | .node l t e, acc =>
    if acc.contains (.node l t e) then acc
    else .node l t e :: subtrees e (subtrees t acc)

def nodeCount (f : BDD) : Nat := (subtrees f []).length

/-- the constant and variable constructors -/
def var (l : Nat) : BDD := .node l (.leaf true) (.leaf false)
def notVar (l : Nat) : BDD := .node l (.leaf false) (.leaf true)

end OxiddModel.Bdd
