import OxiddModel.Bdd.Canon

/-!
# Cube picking (`pick_cube_edge`, `pick_cube_dd_edge`, `pick_cube_dd_set_edge`) — lemmas for C13

All statements are for arbitrary trees (no bound on depth or levels). The headline theorems are
collected in `PropertiesC13.lean`.
-/
namespace OxiddModel.Bdd
open BDD

/-! ## vocabulary -/

/-- the cube (conjunction of literals) denoted by a decision path: `σ` satisfies it iff it gives
every recorded level its recorded value -/
def cubeSem (path : List (Nat × Bool)) (σ : Nat → Bool) : Prop := ∀ p ∈ path, σ p.1 = p.2

theorem cubeSem_nil (σ : Nat → Bool) : cubeSem [] σ := by intro p hp; cases hp

theorem cubeSem_cons (l : Nat) (b : Bool) (p : List (Nat × Bool)) (σ : Nat → Bool) :
    cubeSem ((l, b) :: p) σ ↔ σ l = b ∧ cubeSem p σ := by
  constructor
  · intro h
    exact ⟨h (l, b) (List.mem_cons_self ..), fun q hq => h q (List.mem_cons_of_mem _ hq)⟩
  · rintro ⟨h1, h2⟩ q hq
    cases hq with
    | head => exact h1
    | tail _ hq => exact h2 q hq

/-- a *cube diagram* from level `n` on: a single path to ⊤, exactly one node per mentioned level
whose other child is ⊥ (`node l rest ⊥` = positive literal, `node l ⊥ rest` = negative literal),
levels strictly increasing -/
inductive IsCube : Nat → BDD → Prop
  | top : IsCube n (.leaf true)
  | pos : n ≤ l → IsCube (l+1) r → IsCube n (.node l r (.leaf false))
  | neg : n ≤ l → IsCube (l+1) r → IsCube n (.node l (.leaf false) r)

/-- the literals of a cube diagram, top-down (polarity test as in the code: else-child ⊥ ⇒ positive) -/
def cubeLits : BDD → List (Nat × Bool)
  | .leaf _ => []
  | .node l t e => if e = .leaf false then (l, true) :: cubeLits t else (l, false) :: cubeLits e

/-- the polarity a literal cube prescribes for level `l`: the polarity of the literal of that level
if there is one, `false` otherwise (what `pick_cube_dd_set_edge` uses) -/
def litChoice (ls : BDD) (l : Nat) : Bool := ((cubeLits ls).lookup l).getD false

/-- follow a decision path from the root: every step must be at the level of the current node and
satisfy `P level then else value`; the walk ends in `r` -/
def Walk (P : Nat → BDD → BDD → Bool → Prop) : BDD → List (Nat × Bool) → BDD → Prop
  | f, [], r => f = r
  | .node l t e, (l', b) :: p, r => l' = l ∧ P l t e b ∧ Walk P (if b then t else e) p r
  | .leaf _, _ :: _, _ => False

/-- the rule by which the three picking functions decide at a node `node l t e`, given the value `c`
proposed by the caller (choice function resp. literal set): forced by a ⊥ child, else `c` -/
def Decided (c : Nat → Bool) (l : Nat) (t e : BDD) (b : Bool) : Prop :=
  (t = .leaf false → b = false) ∧
  (t ≠ .leaf false → e = .leaf false → b = true) ∧
  (t ≠ .leaf false → e ≠ .leaf false → b = c l)

/-! ## the decision -/

/-- the decision taken at a node with children `t`, `e` when the caller proposes `c` -/
def dec (c : Bool) (t e : BDD) : Bool :=
  if t = .leaf false then false else if e = .leaf false then true else c

theorem dec_true {c : Bool} {t e : BDD} (h : dec c t e = true) : t ≠ .leaf false := by
  unfold dec at h; intro ht; simp [ht] at h

theorem dec_false {c : Bool} {t e : BDD} (hne : t ≠ e) (h : dec c t e = false) : e ≠ .leaf false := by
  unfold dec at h
  intro he
  subst he
  simp [hne] at h

theorem dec_child_ne {c : Bool} {t e : BDD} (hne : t ≠ e) :
    (if dec c t e then t else e) ≠ .leaf false := by
  cases h : dec c t e
  · simpa using dec_false hne h
  · simpa using dec_true h

theorem dec_decided (c : Nat → Bool) (l : Nat) (t e : BDD) : Decided c l t e (dec (c l) t e) := by
  unfold dec
  refine ⟨fun h => by simp [h], fun h1 h2 => by simp [h1, h2], fun h1 h2 => by simp [h1, h2]⟩

theorem pickPath_node (choice : Nat → Bool) (l : Nat) (t e : BDD) :
    pickPath choice (.node l t e) =
      (l, dec (choice l) t e) :: pickPath choice (if dec (choice l) t e then t else e) := by
  simp only [pickPath, dec]
  by_cases h1 : t = .leaf false <;> by_cases h2 : e = .leaf false <;> cases choice l <;>
    simp [h1, h2]

theorem pickCubeDD_node (choice : Nat → Bool) (l : Nat) (t e : BDD) :
    pickCubeDD choice (.node l t e) =
      if dec (choice l) t e then .node l (pickCubeDD choice t) (.leaf false)
      else .node l (.leaf false) (pickCubeDD choice e) := by
  rw [pickCubeDD]; rfl

/-! ## cube diagrams -/

theorem IsCube.ordered {n : Nat} {c : BDD} (h : IsCube n c) : Ordered n c := by
  induction h with
  | top => exact .leaf
  | pos hl _ ih => exact .node hl ih .leaf
  | neg hl _ ih => exact .node hl .leaf ih

theorem IsCube.ne_false {n : Nat} {c : BDD} (h : IsCube n c) : c ≠ .leaf false := by
  cases h <;> simp

theorem IsCube.reduced {n : Nat} {c : BDD} (h : IsCube n c) : Reduced c := by
  induction h with
  | top => trivial
  | pos _ hr ih => exact ⟨hr.ne_false, ih, trivial⟩
  | neg _ hr ih => exact ⟨fun h => hr.ne_false h.symm, trivial, ih⟩

theorem IsCube.nf {n : Nat} {c : BDD} (h : IsCube n c) : NF n c := ⟨h.ordered, h.reduced⟩

theorem IsCube.mono {n m : Nat} {c : BDD} (h : IsCube n c) (hmn : m ≤ n) : IsCube m c := by
  cases h with
  | top => exact .top
  | pos hl hr => exact .pos (by omega) hr
  | neg hl hr => exact .neg (by omega) hr

/-- a cube diagram denotes exactly the conjunction of its literals -/
theorem IsCube.eval_iff {n : Nat} {c : BDD} (h : IsCube n c) (σ : Nat → Bool) :
    c.eval σ = true ↔ cubeSem (cubeLits c) σ := by
  induction h with
  | top => simp [eval, cubeLits, cubeSem_nil]
  | pos _ _ ih =>
    simp only [eval, cubeLits, if_true, cubeSem_cons, ← ih]
    cases σ _ <;> simp
  | @neg n l r _ hr ih =>
    simp only [eval, cubeLits, if_neg hr.ne_false, cubeSem_cons, ← ih]
    cases σ l <;> simp

/-- the literal levels of a cube diagram are strictly increasing and start at `n` -/
theorem IsCube.lits_sorted {n : Nat} {c : BDD} (h : IsCube n c) :
    (∀ p ∈ cubeLits c, n ≤ p.1) ∧ List.Pairwise (· < ·) ((cubeLits c).map Prod.fst) := by
  induction h with
  | top => simp [cubeLits]
  | pos hl _ ih =>
    simp only [cubeLits, if_true, List.map_cons, List.pairwise_cons, List.mem_cons, List.mem_map]
    refine ⟨?_, ?_, ih.2⟩
    · rintro p (rfl | hp)
      · exact hl
      · have := ih.1 p hp; omega
    · rintro a ⟨p, hp, rfl⟩; have := ih.1 p hp; omega
  | neg hl hr ih =>
    simp only [cubeLits, if_neg hr.ne_false, List.map_cons, List.pairwise_cons, List.mem_cons,
      List.mem_map]
    refine ⟨?_, ?_, ih.2⟩
    · rintro p (rfl | hp)
      · exact hl
      · have := ih.1 p hp; omega
    · rintro a ⟨p, hp, rfl⟩; have := ih.1 p hp; omega

/-- every cube diagram is satisfiable -/
theorem IsCube.sat {n : Nat} {c : BDD} (h : IsCube n c) : ∃ σ, c.eval σ = true := by
  induction h with
  | top => exact ⟨fun _ => false, rfl⟩
  | pos _ hr ih =>
    obtain ⟨σ, hσ⟩ := ih
    exact ⟨upd σ _ true, by rw [eval_node_upd_true hr.ordered]; exact hσ⟩
  | neg _ hr ih =>
    obtain ⟨σ, hσ⟩ := ih
    exact ⟨upd σ _ false, by rw [eval_node_upd_false hr.ordered]; exact hσ⟩

/-! ## `pick_cube_dd_edge` -/

theorem pickCubeDD_eq_false_iff (choice : Nat → Bool) (f : BDD) :
    pickCubeDD choice f = .leaf false ↔ f = .leaf false := by
  cases f with
  | leaf b => simp [pickCubeDD]
  | node l t e => rw [pickCubeDD_node]; split <;> simp

/-- the result is a cube diagram (for a satisfiable reduced ordered argument) -/
theorem pickCubeDD_isCube (choice : Nat → Bool) {n : Nat} {f : BDD} (ho : Ordered n f)
    (hr : Reduced f) (hs : f ≠ .leaf false) : IsCube n (pickCubeDD choice f) := by
  induction ho with
  | leaf => rename_i b; cases b <;> simp_all [pickCubeDD]; exact .top
  | @node n l t e hl _ _ iht ihe =>
    rw [pickCubeDD_node]
    cases h : dec (choice l) t e
    · simp only [Bool.false_eq_true, if_false]
      exact .neg hl (ihe hr.2.2 (dec_false hr.1 h))
    · simp only [if_true]
      exact .pos hl (iht hr.2.1 (dec_true h))

/-- the picked diagram implies the function — for every tree -/
theorem pickCubeDD_implies (choice : Nat → Bool) (f : BDD) (σ : Nat → Bool) :
    (pickCubeDD choice f).eval σ = true → f.eval σ = true := by
  induction f with
  | leaf b => simp [pickCubeDD]
  | node l t e iht ihe =>
    rw [pickCubeDD_node]
    cases dec (choice l) t e <;> simp only [Bool.false_eq_true, if_false, if_true, eval] <;>
      cases σ l <;> simp <;> assumption

/-- vector and diagram describe the same cube -/
theorem pickCubeDD_eval_iff (choice : Nat → Bool) {f : BDD} (hr : Reduced f) (hs : f ≠ .leaf false)
    (σ : Nat → Bool) : (pickCubeDD choice f).eval σ = true ↔ cubeSem (pickPath choice f) σ := by
  induction f with
  | leaf b => cases b <;> simp_all [pickCubeDD, pickPath, eval, cubeSem_nil]
  | node l t e iht ihe =>
    rw [pickCubeDD_node, pickPath_node, cubeSem_cons]
    cases h : dec (choice l) t e
    · simp only [Bool.false_eq_true, if_false, eval, ← ihe hr.2.2 (dec_false hr.1 h)]
      cases σ l <;> simp
    · simp only [if_true, eval, ← iht hr.2.1 (dec_true h)]
      cases σ l <;> simp

/-- the literals of the picked cube diagram are the entries of the picked vector -/
theorem pickCubeDD_lits (choice : Nat → Bool) {f : BDD} (hr : Reduced f) (hs : f ≠ .leaf false) :
    cubeLits (pickCubeDD choice f) = pickPath choice f := by
  induction f with
  | leaf b => simp [pickCubeDD, pickPath, cubeLits]
  | node l t e iht ihe =>
    rw [pickCubeDD_node, pickPath_node]
    cases h : dec (choice l) t e
    · have he := dec_false hr.1 h
      have : pickCubeDD choice e ≠ .leaf false := by rwa [Ne, pickCubeDD_eq_false_iff]
      simp only [Bool.false_eq_true, if_false, cubeLits, if_neg this, ihe hr.2.2 he]
    · simp only [if_true, cubeLits, iht hr.2.1 (dec_true h)]

/-- the result depends on the choice function only at levels `≥ n` when `f` is ordered from `n` -/
theorem pickCubeDD_congr {n : Nat} {f : BDD} (ho : Ordered n f) (c1 c2 : Nat → Bool)
    (h : ∀ l, n ≤ l → c1 l = c2 l) : pickCubeDD c1 f = pickCubeDD c2 f := by
  induction ho with
  | leaf => rfl
  | node hl _ _ iht ihe =>
    rw [pickCubeDD_node, pickCubeDD_node, h _ hl,
      iht (fun l hl' => h l (by omega)), ihe (fun l hl' => h l (by omega))]

/-! ## `pick_cube_edge` -/

/-- the picked vector implies the function -/
theorem pickPath_implies (choice : Nat → Bool) {f : BDD} (hr : Reduced f) (hs : f ≠ .leaf false)
    (σ : Nat → Bool) (h : cubeSem (pickPath choice f) σ) : f.eval σ = true :=
  pickCubeDD_implies choice f σ ((pickCubeDD_eval_iff choice hr hs σ).mpr h)

/-- levels of the picked vector: all `≥ n` and strictly increasing -/
theorem pickPath_sorted (choice : Nat → Bool) {n : Nat} {f : BDD} (ho : Ordered n f) :
    (∀ p ∈ pickPath choice f, n ≤ p.1) ∧
      List.Pairwise (· < ·) ((pickPath choice f).map Prod.fst) := by
  induction ho with
  | leaf => simp [pickPath]
  | @node n l t e hl _ _ iht ihe =>
    rw [pickPath_node]
    have ih : (∀ p ∈ pickPath choice (if dec (choice l) t e then t else e), l + 1 ≤ p.1) ∧
        List.Pairwise (· < ·) ((pickPath choice (if dec (choice l) t e then t else e)).map Prod.fst) := by
      split
      · exact iht
      · exact ihe
    simp only [List.map_cons, List.pairwise_cons, List.mem_cons, List.mem_map]
    refine ⟨?_, ?_, ih.2⟩
    · rintro p (rfl | hp)
      · exact hl
      · have := ih.1 p hp; omega
    · rintro a ⟨p, hp, rfl⟩; have := ih.1 p hp; omega

/-- the picked vector is a root-to-⊤ path of the diagram every step of which follows the decision
rule -/
theorem pickPath_walk (choice : Nat → Bool) {f : BDD} (hr : Reduced f) (hs : f ≠ .leaf false) :
    Walk (Decided choice) f (pickPath choice f) (.leaf true) := by
  induction f with
  | leaf b => cases b <;> simp_all [pickPath, Walk]
  | node l t e iht ihe =>
    rw [pickPath_node]
    refine ⟨rfl, dec_decided choice l t e, ?_⟩
    cases h : dec (choice l) t e
    · simpa using ihe hr.2.2 (dec_false hr.1 h)
    · simpa using iht hr.2.1 (dec_true h)

/-- semantic reading of "forced": whenever the recorded value differs from the caller's choice, no
assignment that agrees with the earlier decisions and gives the level the chosen value satisfies
the function. (Needs no hypothesis on `f`.) -/
theorem pickPath_override_forced (choice : Nat → Bool) (f : BDD) (pre post : List (Nat × Bool))
    (l : Nat) (b : Bool) (hp : pickPath choice f = pre ++ (l, b) :: post) (hb : b ≠ choice l)
    (σ : Nat → Bool) (hpre : cubeSem pre σ) (hl : σ l = choice l) : f.eval σ = false := by
  induction f generalizing pre with
  | leaf b' => simp [pickPath] at hp
  | node l0 t e iht ihe =>
    rw [pickPath_node] at hp
    cases pre with
    | nil =>
      simp only [List.nil_append, List.cons.injEq, Prod.mk.injEq] at hp
      obtain ⟨⟨rfl, hd⟩, _⟩ := hp
      subst hd
      simp only [eval, hl]
      unfold dec at hb
      by_cases h1 : t = .leaf false
      · simp [h1] at hb; simp [← hb, h1, eval]
      · by_cases h2 : e = .leaf false
        · simp [h1, h2] at hb; simp [hb, h2, eval]
        · simp [h1, h2] at hb
    | cons q pre' =>
      simp only [List.cons_append, List.cons.injEq] at hp
      obtain ⟨rfl, hp⟩ := hp
      rw [cubeSem_cons] at hpre
      simp only [eval, hpre.1]
      cases h : dec (choice l0) t e
      · rw [h] at hp; simp only [Bool.false_eq_true, if_false] at hp ⊢; exact ihe pre' hp hpre.2
      · rw [h] at hp; simp only [if_true] at hp ⊢; exact iht pre' hp hpre.2

/-! ## `pick_cube_dd_set_edge` -/

/-- the literal-set step of `pick_cube_dd_set_edge` at a node of level `l`: pop the literals above
`l`, then read off (and consume) the literal of level `l` if present -/
def setStep (ls : BDD) (l : Nat) : BDD × Bool :=
  match literalSetPop ls l with
  | .node sl st se =>
    if sl = l then (if se = .leaf false then (st, true) else (se, false))
    else (literalSetPop ls l, false)
  | .leaf _ => (literalSetPop ls l, false)

theorem pickCubeDDSet_node (l : Nat) (t e ls : BDD) :
    pickCubeDDSet (.node l t e) ls =
      if dec (setStep ls l).2 t e then .node l (pickCubeDDSet t (setStep ls l).1) (.leaf false)
      else .node l (.leaf false) (pickCubeDDSet e (setStep ls l).1) := by
  simp only [pickCubeDDSet, dec, setStep]
  split <;> rfl

theorem pickCubeDDSet_eq_false_iff (f ls : BDD) :
    pickCubeDDSet f ls = .leaf false ↔ f = .leaf false := by
  cases f with
  | leaf b => simp [pickCubeDDSet]
  | node l t e => rw [pickCubeDDSet_node]; split <;> simp

/-- for *every* second argument (cube or not) `pick_cube_dd_set` behaves like `pick_cube_dd` with
some choice function: on an ordered diagram at most one node per level is visited -/
theorem pickCubeDDSet_as_choice {n : Nat} {f : BDD} (ho : Ordered n f) (ls : BDD) :
    ∃ choice : Nat → Bool, pickCubeDDSet f ls = pickCubeDD choice f := by
  induction ho generalizing ls with
  | leaf => exact ⟨fun _ => false, by simp [pickCubeDDSet, pickCubeDD]⟩
  | node hl ht he iht ihe =>
    rename_i n l t e
    obtain ⟨ct, hct⟩ := iht (setStep ls l).1
    obtain ⟨ce, hce⟩ := ihe (setStep ls l).1
    cases h : dec (setStep ls l).2 t e
    · refine ⟨fun x => if x = l then (setStep ls l).2 else ce x, ?_⟩
      rw [pickCubeDDSet_node, pickCubeDD_node]
      simp only [if_true, h, hce]
      rw [pickCubeDD_congr he ce (fun x => if x = l then (setStep ls l).2 else ce x)
        (fun x hx => by simp; omega)]
      simp
    · refine ⟨fun x => if x = l then (setStep ls l).2 else ct x, ?_⟩
      rw [pickCubeDDSet_node, pickCubeDD_node]
      simp only [if_true, h, hct]
      rw [pickCubeDD_congr ht ct (fun x => if x = l then (setStep ls l).2 else ct x)
        (fun x hx => by simp; omega)]

/-! ### literal cubes -/

theorem lookup_none_of_lt {l : Nat} {ps : List (Nat × Bool)} (h : ∀ p ∈ ps, l < p.1) :
    ps.lookup l = none := by
  induction ps with
  | nil => rfl
  | cons p ps ih =>
    obtain ⟨a, b⟩ := p
    have h1 : l < a := h (a, b) (List.mem_cons_self ..)
    have h2 : (l == a) = false := by simp; omega
    simp only [List.lookup, h2]
    exact ih (fun q hq => h q (List.mem_cons_of_mem _ hq))

/-- popping keeps a cube a cube, now starting at `l`, and does not change the literals at levels
`≥ l` -/
theorem literalSetPop_cube {m : Nat} {ls : BDD} (h : IsCube m ls) (l : Nat) :
    IsCube l (literalSetPop ls l) ∧
      ∀ x, l ≤ x → (cubeLits (literalSetPop ls l)).lookup x = (cubeLits ls).lookup x := by
  induction h with
  | top => exact ⟨by simp only [literalSetPop]; exact .top, fun _ _ => rfl⟩
  | pos hl hr ih =>
    rename_i m sl r
    simp only [literalSetPop]
    by_cases hlt : sl < l
    · simp only [hlt, if_true, if_neg hr.ne_false]
      refine ⟨ih.1, fun x hx => ?_⟩
      rw [ih.2 x hx]
      have : (x == sl) = false := by simp; omega
      simp [cubeLits, List.lookup, this]
    · simp only [hlt, if_false]
      exact ⟨.pos (by omega) hr, fun _ _ => trivial⟩
  | neg hl hr ih =>
    rename_i m sl r
    simp only [literalSetPop]
    by_cases hlt : sl < l
    · simp only [hlt, if_true]
      refine ⟨ih.1, fun x hx => ?_⟩
      rw [ih.2 x hx]
      have : (x == sl) = false := by simp; omega
      simp [cubeLits, List.lookup, this, hr.ne_false]
    · simp only [hlt, if_false]
      exact ⟨.neg (by omega) hr, fun _ _ => trivial⟩

/-- the literal-set step on a literal cube: the proposed value is the polarity of level `l`
(`false` if absent), and the remaining cube prescribes the same polarities below -/
theorem setStep_cube {m : Nat} {ls : BDD} (h : IsCube m ls) (l : Nat) :
    (setStep ls l).2 = litChoice ls l ∧ IsCube (l+1) (setStep ls l).1 ∧
      ∀ x, l + 1 ≤ x → litChoice (setStep ls l).1 x = litChoice ls x := by
  obtain ⟨hc, hlk⟩ := literalSetPop_cube h l
  unfold setStep litChoice
  generalize literalSetPop ls l = ls0 at hc hlk
  cases hc with
  | top =>
    refine ⟨?_, .top, fun x hx => by rw [hlk x (by omega)]⟩
    rw [← hlk l (Nat.le_refl _)]; simp [cubeLits]
  | pos hl hr =>
    rename_i sl r
    by_cases heq : sl = l
    · subst heq
      simp only [if_true]
      refine ⟨?_, hr, fun x hx => ?_⟩
      · rw [← hlk sl (Nat.le_refl _)]; simp [cubeLits]
      · rw [← hlk x (by omega)]
        have : (x == sl) = false := by simp; omega
        simp [cubeLits, List.lookup, this]
    · simp only [heq, if_false]
      refine ⟨?_, .pos (by omega) hr, fun x hx => by rw [hlk x (by omega)]⟩
      rw [← hlk l (Nat.le_refl _), lookup_none_of_lt]
      · rfl
      · intro p hp
        have := (IsCube.pos (n := l+1) (by omega) hr).lits_sorted.1 p hp
        omega
  | neg hl hr =>
    rename_i sl r
    by_cases heq : sl = l
    · subst heq
      simp only [if_true, if_neg hr.ne_false]
      refine ⟨?_, hr, fun x hx => ?_⟩
      · rw [← hlk sl (Nat.le_refl _)]; simp [cubeLits, hr.ne_false]
      · rw [← hlk x (by omega)]
        have : (x == sl) = false := by simp; omega
        simp [cubeLits, List.lookup, this, hr.ne_false]
    · simp only [heq, if_false]
      refine ⟨?_, .neg (by omega) hr, fun x hx => by rw [hlk x (by omega)]⟩
      rw [← hlk l (Nat.le_refl _), lookup_none_of_lt]
      · rfl
      · intro p hp
        have := (IsCube.neg (n := l+1) (by omega) hr).lits_sorted.1 p hp
        omega

/-- with a literal cube as second argument, `pick_cube_dd_set` *is* `pick_cube_dd` with the choice
function "polarity of the level in the literal set, `false` if absent" -/
theorem pickCubeDDSet_eq_pickCubeDD {n m : Nat} {f ls : BDD} (ho : Ordered n f) (hc : IsCube m ls) :
    pickCubeDDSet f ls = pickCubeDD (litChoice ls) f := by
  induction ho generalizing ls m with
  | leaf => simp [pickCubeDDSet, pickCubeDD]
  | node hl ht he iht ihe =>
    rename_i n l t e
    obtain ⟨h1, h2, h3⟩ := setStep_cube hc l
    rw [pickCubeDDSet_node, pickCubeDD_node, h1, iht h2, ihe h2,
      pickCubeDD_congr ht _ _ h3, pickCubeDD_congr he _ _ h3]

/-! ### what `litChoice` means -/

theorem lookup_of_mem_sorted {ps : List (Nat × Bool)} (hs : List.Pairwise (· < ·) (ps.map Prod.fst))
    {l : Nat} {b : Bool} (hm : (l, b) ∈ ps) : ps.lookup l = some b := by
  induction ps with
  | nil => cases hm
  | cons p ps ih =>
    obtain ⟨a, c⟩ := p
    simp only [List.map_cons, List.pairwise_cons, List.mem_map] at hs
    rcases List.mem_cons.mp hm with h | h
    · cases h; simp [List.lookup]
    · have : a < l := hs.1 l ⟨(l, b), h, rfl⟩
      have hne : (l == a) = false := by simp; omega
      simp only [List.lookup, hne]
      exact ih hs.2 h

theorem lookup_none_of_not_mem {ps : List (Nat × Bool)} {l : Nat} (h : ∀ b, (l, b) ∉ ps) :
    ps.lookup l = none := by
  induction ps with
  | nil => rfl
  | cons p ps ih =>
    obtain ⟨a, c⟩ := p
    have hne : (l == a) = false := by
      simp only [beq_eq_false_iff_ne, ne_eq]
      rintro rfl
      exact h c (List.mem_cons_self ..)
    simp only [List.lookup, hne]
    exact ih (fun b hb => h b (List.mem_cons_of_mem _ hb))

/-- `litChoice ls l` is the polarity of the literal of level `l` in the cube `ls` … -/
theorem litChoice_of_mem {m : Nat} {ls : BDD} (hc : IsCube m ls) {l : Nat} {b : Bool}
    (h : (l, b) ∈ cubeLits ls) : litChoice ls l = b := by
  unfold litChoice
  rw [lookup_of_mem_sorted hc.lits_sorted.2 h]; rfl

/-- … and `false` if the cube has no literal of that level -/
theorem litChoice_of_not_mem {ls : BDD} {l : Nat} (h : ∀ b, (l, b) ∉ cubeLits ls) :
    litChoice ls l = false := by
  unfold litChoice
  rw [lookup_none_of_not_mem h]; rfl

/-- levels that are not on the picked path are don't-cares of the picked cube -/
theorem cubeSem_upd_of_not_mem (path : List (Nat × Bool)) (l : Nat) (b : Bool) (σ : Nat → Bool)
    (h : ∀ c, (l, c) ∉ path) : cubeSem path (upd σ l b) ↔ cubeSem path σ := by
  unfold cubeSem
  constructor <;> intro hp p hm
  · have hne : p.1 ≠ l := by rintro rfl; exact h p.2 hm
    rw [← hp p hm, upd_ne σ b hne]
  · have hne : p.1 ≠ l := by rintro rfl; exact h p.2 hm
    rw [upd_ne σ b hne]; exact hp p hm

end OxiddModel.Bdd
