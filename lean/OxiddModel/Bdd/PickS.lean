import OxiddModel.Bdd.RcQLemmas
import OxiddModel.Bdd.Pick

/-!
# `pick_cube_dd`, `pick_cube_dd_set` over the id store — counter-free, with and without capacity

`RcQ.lean` models `pick_cube_dd_edge::inner` and `pick_cube_dd_set_edge::inner` with counters
(`pickCubeDDR`, `pickCubeDDSetR`). Here are the counter-free versions over the hash-consed id store:

* `Store.getOrInsert` / `Store.getOrInsertC cap`: `LevelViewSet::get_or_insert(InnerNode::new(level,
  [t, e]))` — `reduce` **without** the `t == e` test; with a capacity it fails exactly when a fresh
  slot is needed and `cap` nodes are stored;
* `pickCubeDDS choice` / `pickCubeDDC cap choice`, `pickCubeDDSetS af` / `pickCubeDDSetC cap af`:
  the uncapped and the capacity-bounded walk; neither touches the apply cache or the time stamp;
* `pickCubeDDR_erase'`, `pickCubeDDSetR_erase'`: forgetting the counters the runs of `RcQ.lean`
  **are** the `…C` runs (same result, same store, same cache, same time stamp, no hypothesis);
* `pickCubeDDC_both`, `pickCubeDDSetC_both`: `BothG` (`ThresholdS.lean`) between the capped and the
  uncapped run — success means complete agreement, failure means the store is full, and the capped
  run succeeds whenever the uncapped one fits. All threshold statements follow from it.
-/
namespace OxiddModel.Bdd.Rc
open OxiddModel.Bdd OxiddModel.Bdd.BDD OxiddModel.Bdd.Refine

/-! ## `get_or_insert` -/

/-- `get_or_insert`: unique-table lookup, else a fresh slot (no reduction test) -/
def _root_.OxiddModel.Bdd.Refine.Store.getOrInsert (s : Store) (level : Nat) (t e : Edge) :
    Store × Edge :=
  match s.find? ⟨level, t, e⟩ with
  | some i => (s, .inner i)
  | none => let r := s.alloc ⟨level, t, e⟩; (r.1, .inner r.2)

/-- `get_or_insert` when `add_node` may fail: `none` = `Err(OutOfMemory)`, store unchanged -/
def _root_.OxiddModel.Bdd.Refine.Store.getOrInsertC (cap : Nat) (s : Store) (level : Nat)
    (t e : Edge) : Option (Store × Edge) :=
  match s.find? ⟨level, t, e⟩ with
  | some i => some (s, .inner i)
  | none =>
    if s.count < cap then
      let r := s.alloc ⟨level, t, e⟩
      some (r.1, .inner r.2)
    else none

theorem getOrInsert_eq_mkNode {s : Store} {l : Nat} {t e : Edge} (hte : t ≠ e) :
    s.getOrInsert l t e = s.mkNode l t e := by
  unfold Store.getOrInsert Store.mkNode
  rw [if_neg hte]
  cases s.find? ⟨l, t, e⟩ <;> rfl

theorem getOrInsert_le (s : Store) (l : Nat) (t e : Edge) : s.Le (s.getOrInsert l t e).1 := by
  unfold Store.getOrInsert
  split
  · exact Store.Le.refl _
  · exact alloc_le _ _

theorem getOrInsert_unique (s : Store) (l : Nat) (t e : Edge) (hu : s.Unique) :
    (s.getOrInsert l t e).1.Unique := by
  unfold Store.getOrInsert
  split
  · exact hu
  · rename_i hnone
    intro i j n hi hj
    simp only [get?_alloc] at hi hj
    split at hi <;> split at hj
    · omega
    · cases hi; exact absurd hj (find?_none hnone j)
    · cases hj; exact absurd hi (find?_none hnone i)
    · exact hu i j n hi hj

theorem count_getOrInsert (s : Store) (l : Nat) (t e : Edge) :
    (s.getOrInsert l t e).1.count = s.count ∨
    ((s.getOrInsert l t e).1.count = s.count + 1 ∧ s.find? ⟨l, t, e⟩ = none) := by
  unfold Store.getOrInsert
  split
  · exact .inl rfl
  · rename_i hnone
    exact .inr ⟨count_alloc _ _, hnone⟩

theorem count_getOrInsert_ge (s : Store) (l : Nat) (t e : Edge) :
    s.count ≤ (s.getOrInsert l t e).1.count := by
  rcases count_getOrInsert s l t e with h | h <;> omega

/-- the node found or created denotes the tree with the given children — also when both children
are equal (then the node is redundant, and so is the tree) -/
theorem getOrInsert_denotes (s : Store) (l : Nat) (t e : Edge) (tt te : BDD)
    (ht : Denotes s t tt) (he : Denotes s e te) :
    Denotes (s.getOrInsert l t e).1 (s.getOrInsert l t e).2 (.node l tt te) := by
  have hle := getOrInsert_le s l t e
  unfold Store.getOrInsert at *
  split
  · rename_i i hi
    exact .inner (find?_some hi) ht he
  · rename_i hnone
    simp only [hnone] at hle
    refine .inner ?_ (ht.mono hle) (he.mono hle)
    rw [get?_alloc]; simp

theorem getOrInsertC_some {cap : Nat} {s : Store} {l : Nat} {t e : Edge} {m : Store × Edge}
    (h : s.getOrInsertC cap l t e = some m) : m = s.getOrInsert l t e ∧ Fits cap s m.1 := by
  cases hf : s.find? ⟨l, t, e⟩ with
  | some i =>
    simp only [Store.getOrInsertC, hf, Option.some.injEq] at h
    subst h
    simp [Store.getOrInsert, hf, Fits]
  | none =>
    simp only [Store.getOrInsertC, hf] at h
    split at h
    · simp only [Option.some.injEq] at h
      subst h
      refine ⟨by simp [Store.getOrInsert, hf], .inl ?_⟩
      show (s.alloc _).1.count ≤ cap
      rw [count_alloc]; omega
    · cases h

theorem getOrInsertC_none {cap : Nat} {s : Store} {l : Nat} {t e : Edge}
    (h : s.getOrInsertC cap l t e = none) : cap ≤ s.count ∧ s.find? ⟨l, t, e⟩ = none := by
  unfold Store.getOrInsertC at h
  split at h
  · cases h
  · rename_i hnone
    split at h
    · cases h
    · exact ⟨by omega, hnone⟩

theorem getOrInsertC_of_fits {cap : Nat} {s : Store} {l : Nat} {t e : Edge}
    (h : Fits cap s (s.getOrInsert l t e).1) :
    s.getOrInsertC cap l t e = some (s.getOrInsert l t e) := by
  cases hf : s.find? ⟨l, t, e⟩ with
  | some i => simp [Store.getOrInsertC, Store.getOrInsert, hf]
  | none =>
    have hc : (s.getOrInsert l t e).1.count = s.count + 1 := by
      simp only [Store.getOrInsert, hf]
      exact count_alloc _ _
    have hlt : s.count < cap := by unfold Fits at h; omega
    simp [Store.getOrInsertC, Store.getOrInsert, hf, hlt]

/-- `get_or_insert` as a step on states -/
def goiS (l : Nat) (t e : Edge) (st : St) : St × Edge :=
  ({ st with store := (st.store.getOrInsert l t e).1 }, (st.store.getOrInsert l t e).2)

/-- `get_or_insert(..)?` as a step on states -/
def goiC (cap : Nat) (l : Nat) (t e : Edge) (st : St) : Option Edge × St :=
  match st.store.getOrInsertC cap l t e with
  | none => (none, st)
  | some m => (some m.2, { st with store := m.1 })

theorem goiC_both (cap : Nat) (l : Nat) (t e : Edge) (st : St) :
    BothG cap st.store (goiC cap l t e st) (goiS l t e st) := by
  unfold goiC goiS
  cases h : st.store.getOrInsertC cap l t e with
  | none =>
    refine ⟨Store.Le.refl _, id, Nat.le_refl _, id, (fun e he => by cases he),
      fun _ => (getOrInsertC_none h).1, count_getOrInsert_ge _ _ _ _, fun hfit => ?_⟩
    have : Fits cap st.store (st.store.getOrInsert l t e).1 := hfit
    rw [getOrInsertC_of_fits this] at h
    cases h
  | some m =>
    obtain ⟨hm, hf⟩ := getOrInsertC_some h
    subst hm
    refine ⟨getOrInsert_le _ _ _ _, getOrInsert_unique _ _ _ _, count_getOrInsert_ge _ _ _ _, ?_, ?_,
      ?_, count_getOrInsert_ge _ _ _ _, fun _ => rfl⟩
    · intro hb; unfold Fits at hf; show (st.store.getOrInsert l t e).1.count ≤ cap; omega
    · intro e' he; cases he; exact ⟨rfl, hf⟩
    · intro he; cases he

/-! ## the walks -/

/-- the node `pick_cube_dd(_set)` builds from the sub-cube `sub` and the decision `c` -/
def pickKidsT (c : Bool) (sub : Edge) : Edge := if c then sub else .term false
def pickKidsE (c : Bool) (sub : Edge) : Edge := if c then .term false else sub

/-- `pick_cube_dd_edge::inner`, uncapped -/
def pickCubeDDS (choice : Nat → Bool) : Nat → St → Edge → St × Edge
  | 0, st, f => (st, f)
  | fuel+1, st, f =>
    match f with
    | .term _ => (st, f)
    | .inner i =>
      match st.store.get? i with
      | none => (st, f)
      | some n =>
        let c := pickChoice n (choice n.level)
        bindS (fun s => pickCubeDDS choice fuel s (if c then n.t else n.e))
          (fun sub s => goiS n.level (pickKidsT c sub) (pickKidsE c sub) s) st

/-- `pick_cube_dd_edge::inner` with a node capacity -/
def pickCubeDDC (cap : Nat) (choice : Nat → Bool) : Nat → St → Edge → Option Edge × St
  | 0, st, f => (some f, st)
  | fuel+1, st, f =>
    match f with
    | .term _ => (some f, st)
    | .inner i =>
      match st.store.get? i with
      | none => (some f, st)
      | some n =>
        let c := pickChoice n (choice n.level)
        bindC (fun s => pickCubeDDC cap choice fuel s (if c then n.t else n.e))
          (fun sub s => goiC cap n.level (pickKidsT c sub) (pickKidsE c sub) s) st

/-- `pick_cube_dd_set_edge::inner`, uncapped (`af`: fuel of `literal_set_pop`) -/
def pickCubeDDSetS (af : Nat) : Nat → St → Edge → Edge → St × Edge
  | 0, st, f, _ => (st, f)
  | fuel+1, st, f, ls =>
    match f with
    | .term _ => (st, f)
    | .inner i =>
      match st.store.get? i with
      | none => (st, f)
      | some n =>
        let lc := litAt st.store (litSetPopS st.store af ls n.level) n.level
        let c := pickChoice n lc.2
        bindS (fun s => pickCubeDDSetS af fuel s (if c then n.t else n.e) lc.1)
          (fun sub s => goiS n.level (pickKidsT c sub) (pickKidsE c sub) s) st

/-- `pick_cube_dd_set_edge::inner` with a node capacity -/
def pickCubeDDSetC (cap : Nat) (af : Nat) : Nat → St → Edge → Edge → Option Edge × St
  | 0, st, f, _ => (some f, st)
  | fuel+1, st, f, ls =>
    match f with
    | .term _ => (some f, st)
    | .inner i =>
      match st.store.get? i with
      | none => (some f, st)
      | some n =>
        let lc := litAt st.store (litSetPopS st.store af ls n.level) n.level
        let c := pickChoice n lc.2
        bindC (fun s => pickCubeDDSetC cap af fuel s (if c then n.t else n.e) lc.1)
          (fun sub s => goiC cap n.level (pickKidsT c sub) (pickKidsE c sub) s) st

/-! ## capped vs. uncapped -/

theorem pickCubeDDC_both (cap : Nat) (choice : Nat → Bool) (fuel : Nat) : ∀ (st : St) (f : Edge),
    BothG cap st.store (pickCubeDDC cap choice fuel st f) (pickCubeDDS choice fuel st f) := by
  induction fuel with
  | zero => intro st f; exact BothG.pure cap f rfl
  | succ fuel ih =>
    intro st f
    cases f with
    | term b => exact BothG.pure cap _ rfl
    | inner i =>
      cases hi : st.store.get? i with
      | none => simp only [pickCubeDDC, pickCubeDDS, hi]; exact BothG.pure cap _ rfl
      | some n =>
        simp only [pickCubeDDC, pickCubeDDS, hi]
        exact BothG.bind (ih _ _) (fun sub s => goiC_both cap _ _ _ s)

theorem pickCubeDDSetC_both (cap : Nat) (af : Nat) (fuel : Nat) : ∀ (st : St) (f ls : Edge),
    BothG cap st.store (pickCubeDDSetC cap af fuel st f ls) (pickCubeDDSetS af fuel st f ls) := by
  induction fuel with
  | zero => intro st f ls; exact BothG.pure cap f rfl
  | succ fuel ih =>
    intro st f ls
    cases f with
    | term b => exact BothG.pure cap _ rfl
    | inner i =>
      cases hi : st.store.get? i with
      | none => simp only [pickCubeDDSetC, pickCubeDDSetS, hi]; exact BothG.pure cap _ rfl
      | some n =>
        simp only [pickCubeDDSetC, pickCubeDDSetS, hi]
        exact BothG.bind (ih _ _ _) (fun sub s => goiC_both cap _ _ _ s)

/-! ## the walks leave cache and time stamp alone -/

theorem goiS_cache (l : Nat) (t e : Edge) (st : St) :
    (goiS l t e st).1.cache = st.cache ∧ (goiS l t e st).1.tick = st.tick := ⟨rfl, rfl⟩

theorem pickCubeDDS_cache (choice : Nat → Bool) (fuel : Nat) : ∀ (st : St) (f : Edge),
    (pickCubeDDS choice fuel st f).1.cache = st.cache ∧
    (pickCubeDDS choice fuel st f).1.tick = st.tick := by
  induction fuel with
  | zero => intro st f; exact ⟨rfl, rfl⟩
  | succ fuel ih =>
    intro st f
    cases f with
    | term b => exact ⟨rfl, rfl⟩
    | inner i =>
      cases hi : st.store.get? i with
      | none => simp only [pickCubeDDS, hi]; exact ⟨trivial, trivial⟩
      | some n =>
        simp only [pickCubeDDS, hi, bindS]
        exact ih _ _

theorem pickCubeDDSetS_cache (af : Nat) (fuel : Nat) : ∀ (st : St) (f ls : Edge),
    (pickCubeDDSetS af fuel st f ls).1.cache = st.cache ∧
    (pickCubeDDSetS af fuel st f ls).1.tick = st.tick := by
  induction fuel with
  | zero => intro st f ls; exact ⟨rfl, rfl⟩
  | succ fuel ih =>
    intro st f ls
    cases f with
    | term b => exact ⟨rfl, rfl⟩
    | inner i =>
      cases hi : st.store.get? i with
      | none => simp only [pickCubeDDSetS, hi]; exact ⟨trivial, trivial⟩
      | some n =>
        simp only [pickCubeDDSetS, hi, bindS]
        exact ih _ _ _

theorem goiC_cache (cap : Nat) (l : Nat) (t e : Edge) (st : St) :
    (goiC cap l t e st).2.cache = st.cache ∧ (goiC cap l t e st).2.tick = st.tick := by
  unfold goiC
  cases st.store.getOrInsertC cap l t e <;> exact ⟨rfl, rfl⟩

theorem bindC_goiC_cache {cap l : Nat} {c : Bool} {cC : St → Option Edge × St} {st : St}
    (h : (cC st).2.cache = st.cache ∧ (cC st).2.tick = st.tick) :
    (bindC cC (fun sub s => goiC cap l (pickKidsT c sub) (pickKidsE c sub) s) st).2.cache = st.cache ∧
    (bindC cC (fun sub s => goiC cap l (pickKidsT c sub) (pickKidsE c sub) s) st).2.tick = st.tick := by
  unfold bindC
  cases hc : cC st with
  | mk o st1 =>
    rw [hc] at h
    cases o with
    | none => exact h
    | some sub =>
      simp only
      have := goiC_cache cap l (pickKidsT c sub) (pickKidsE c sub) st1
      exact ⟨this.1.trans h.1, this.2.trans h.2⟩

theorem pickCubeDDC_cache (cap : Nat) (choice : Nat → Bool) (fuel : Nat) : ∀ (st : St) (f : Edge),
    (pickCubeDDC cap choice fuel st f).2.cache = st.cache ∧
    (pickCubeDDC cap choice fuel st f).2.tick = st.tick := by
  induction fuel with
  | zero => intro st f; exact ⟨rfl, rfl⟩
  | succ fuel ih =>
    intro st f
    cases f with
    | term b => exact ⟨rfl, rfl⟩
    | inner i =>
      cases hi : st.store.get? i with
      | none => simp only [pickCubeDDC, hi]; exact ⟨trivial, trivial⟩
      | some n =>
        simp only [pickCubeDDC, hi]
        exact bindC_goiC_cache (ih _ _)

theorem pickCubeDDSetC_cache (cap : Nat) (af : Nat) (fuel : Nat) : ∀ (st : St) (f ls : Edge),
    (pickCubeDDSetC cap af fuel st f ls).2.cache = st.cache ∧
    (pickCubeDDSetC cap af fuel st f ls).2.tick = st.tick := by
  induction fuel with
  | zero => intro st f ls; exact ⟨rfl, rfl⟩
  | succ fuel ih =>
    intro st f ls
    cases f with
    | term b => exact ⟨rfl, rfl⟩
    | inner i =>
      cases hi : st.store.get? i with
      | none => simp only [pickCubeDDSetC, hi]; exact ⟨trivial, trivial⟩
      | some n =>
        simp only [pickCubeDDSetC, hi]
        exact bindC_goiC_cache (ih _ _ _)

/-! ## erasure -/

theorem getOrInsertR_erase (cap : Nat) (r : RSt) (l : Nat) (t e : Edge) :
    erase (getOrInsertR cap r l t e) = goiC cap l t e r.st := by
  unfold getOrInsertR goiC Store.getOrInsertC
  cases hf : r.st.store.find? ⟨l, t, e⟩ with
  | some i => simp [erase]
  | none =>
    simp only
    split
    · simp [erase]
    · simp [erase]

theorem pickNodeR_erase {cap level : Nat} {c : Bool} {R : Option Edge × RSt}
    {cC : St → Option Edge × St} {st : St} (h : erase R = cC st) :
    erase (pickNodeR cap level c R) =
      bindC cC (fun sub s => goiC cap level (pickKidsT c sub) (pickKidsE c sub) s) st := by
  obtain ⟨o, r1⟩ := R
  unfold bindC
  rw [← h]
  cases o with
  | none => rfl
  | some sub =>
    simp only [pickNodeR, erase]
    exact getOrInsertR_erase cap r1 level _ _

theorem pickCubeDDR_erase' (cap : Nat) (choice : Nat → Bool) (fuel : Nat) : ∀ (r : RSt) (f : Edge),
    erase (pickCubeDDR cap choice fuel r f) = pickCubeDDC cap choice fuel r.st f := by
  induction fuel with
  | zero => intro r f; simp [pickCubeDDR, pickCubeDDC, erase]
  | succ fuel ih =>
    intro r f
    cases f with
    | term b => simp [pickCubeDDR, pickCubeDDC, erase]
    | inner i =>
      simp only [pickCubeDDR, pickCubeDDC]
      cases hi : r.st.store.get? i with
      | none => simp [erase]
      | some n =>
        simp only
        exact pickNodeR_erase (cC := fun s => pickCubeDDC cap choice fuel s _) (ih r _)

theorem pickCubeDDSetR_erase' (cap : Nat) (af : Nat) (fuel : Nat) : ∀ (r : RSt) (f ls : Edge),
    erase (pickCubeDDSetR cap af fuel r f ls) = pickCubeDDSetC cap af fuel r.st f ls := by
  induction fuel with
  | zero => intro r f ls; simp [pickCubeDDSetR, pickCubeDDSetC, erase]
  | succ fuel ih =>
    intro r f ls
    cases f with
    | term b => simp [pickCubeDDSetR, pickCubeDDSetC, erase]
    | inner i =>
      simp only [pickCubeDDSetR, pickCubeDDSetC]
      cases hi : r.st.store.get? i with
      | none => simp [erase]
      | some n =>
        simp only
        exact pickNodeR_erase (cC := fun s => pickCubeDDSetC cap af fuel s _ _) (ih r _ _)

end OxiddModel.Bdd.Rc
