import OxiddModel.Bdd.PickS

/-!
# What the store-level cube picking returns

`pickCubeDDS_spec`, `pickCubeDDSetS_spec`: the edge returned by the (uncapped) store-level walk
denotes the tree-level `pickCubeDD choice a` resp. `pickCubeDDSet a v` of `Model.lean` /
`Pick.lean`, where `a`, `v` are the trees the operand edges denote; the store is only extended.
No hypothesis on the store (hash consing is not needed: `get_or_insert` finds *a* node with the
right content or creates one).

`pickCubeDDS_canon`, `pickCubeDDSetS_canon`: on a hash-consed reduced store the final store **is**
`intern s T` for the result tree `T` — the walk creates no node outside its result, so the number
of nodes it needs is `fresh s T`, independent of the fuel.
-/
namespace OxiddModel.Bdd.Rc
open OxiddModel.Bdd OxiddModel.Bdd.BDD OxiddModel.Bdd.Refine

/-! ## the decision -/

theorem denotes_false_iff {s : Store} {x : Edge} {a : BDD} (h : Denotes s x a) :
    x = .term false ↔ a = .leaf false := by
  cases h with
  | term => simp
  | inner _ _ _ => simp

/-- the store-level decision is the tree-level decision -/
theorem pickChoice_eq_dec {s : Store} {l : Nat} {t e : Edge} {tt te : BDD} (c : Bool)
    (ht : Denotes s t tt) (he : Denotes s e te) : pickChoice ⟨l, t, e⟩ c = dec c tt te := by
  unfold pickChoice dec
  simp only [denotes_false_iff ht, denotes_false_iff he]

/-! ## `pick_cube_dd` -/

theorem pickCubeDDS_spec (choice : Nat → Bool) (fuel : Nat) : ∀ (st : St) (f : Edge) (a : BDD),
    Denotes st.store f a → a.size ≤ fuel →
    st.store.Le (pickCubeDDS choice fuel st f).1.store ∧
    Denotes (pickCubeDDS choice fuel st f).1.store (pickCubeDDS choice fuel st f).2
      (pickCubeDD choice a) := by
  induction fuel with
  | zero => intro st f a _ hsz; have := size_pos a; omega
  | succ fuel ih =>
    intro st f a hf hsz
    cases hf with
    | @term b => exact ⟨Store.Le.refl _, by simp only [pickCubeDDS, pickCubeDD]; exact .term⟩
    | @inner i l t e tt te hi hft hfe =>
      simp only [BDD.size] at hsz
      simp only [pickCubeDDS, hi, bindS, goiS, pickChoice_eq_dec _ hft hfe]
      rw [pickCubeDD_node]
      cases hd : dec (choice l) tt te
      · obtain ⟨le1, d1⟩ := ih st e te hfe (by omega)
        simp only [Bool.false_eq_true, if_false, pickKidsT, pickKidsE]
        exact ⟨le1.trans (getOrInsert_le _ _ _ _), getOrInsert_denotes _ l _ _ _ _ .term d1⟩
      · obtain ⟨le1, d1⟩ := ih st t tt hft (by omega)
        simp only [if_true, pickKidsT, pickKidsE]
        exact ⟨le1.trans (getOrInsert_le _ _ _ _), getOrInsert_denotes _ l _ _ _ _ d1 .term⟩

/-! ## `literal_set_pop`, the literal at a level -/

theorem litSetPopS_denotes {s : Store} (u : Nat) (fuel : Nat) : ∀ {set : Edge} {v : BDD},
    Denotes s set v → v.size ≤ fuel → Denotes s (litSetPopS s fuel set u) (literalSetPop v u) := by
  induction fuel with
  | zero => intro set v _ hsz; have := size_pos v; omega
  | succ fuel ih =>
    intro set v hv hsz
    cases hv with
    | @term b => simp only [litSetPopS, literalSetPop]; exact .term
    | @inner i l t e tt te hi ht he =>
      simp only [BDD.size] at hsz
      simp only [litSetPopS, hi, literalSetPop]
      by_cases hlu : l < u
      · simp only [hlu, if_true]
        by_cases htf : tt = .leaf false
        · have : t = .term false := (denotes_false_iff ht).mpr htf
          simp only [htf, this, if_true]
          exact ih he (by omega)
        · have : t ≠ .term false := fun h => htf ((denotes_false_iff ht).mp h)
          simp only [htf, this, if_false]
          exact ih ht (by omega)
      · simp only [hlu, if_false]
        exact .inner hi ht he

theorem literalSetPop_size_le (v : BDD) (u : Nat) : (literalSetPop v u).size ≤ v.size := by
  induction v with
  | leaf b => simp [literalSetPop]
  | node l t e iht ihe =>
    simp only [literalSetPop]
    split
    · split <;> simp only [BDD.size] <;> omega
    · exact Nat.le_refl _

theorem setStep_size_le (v : BDD) (l : Nat) : (setStep v l).1.size ≤ v.size := by
  have := literalSetPop_size_le v l
  unfold setStep
  generalize literalSetPop v l = w at this ⊢
  cases w with
  | leaf b => exact this
  | node sl st se =>
    simp only
    simp only [BDD.size] at this
    split
    · split <;> simp only <;> omega
    · simp only [BDD.size]; exact this

/-- `litAt` on the popped set is `setStep` -/
theorem litAt_denotes {s : Store} {ls : Edge} {v : BDD} (l : Nat)
    (h : Denotes s ls (literalSetPop v l)) :
    Denotes s (litAt s ls l).1 (setStep v l).1 ∧ (litAt s ls l).2 = (setStep v l).2 := by
  unfold setStep
  generalize literalSetPop v l = w at h ⊢
  cases h with
  | @term b => simp only [litAt]; exact ⟨.term, trivial⟩
  | @inner i sl t e tt te hi ht he =>
    simp only [litAt, hi]
    by_cases hl : sl = l
    · simp only [hl, if_true]
      by_cases hef : te = .leaf false
      · have : e = .term false := (denotes_false_iff he).mpr hef
        simp only [hef, this, if_true]
        exact ⟨ht, trivial⟩
      · have : e ≠ .term false := fun h => hef ((denotes_false_iff he).mp h)
        simp only [hef, this, if_false]
        exact ⟨he, trivial⟩
    · simp only [hl, if_false]
      exact ⟨.inner hi ht he, trivial⟩

/-! ## `pick_cube_dd_set` -/

theorem pickCubeDDSetS_spec (af : Nat) (fuel : Nat) : ∀ (st : St) (f ls : Edge) (a v : BDD),
    Denotes st.store f a → Denotes st.store ls v → a.size ≤ fuel → v.size ≤ af →
    st.store.Le (pickCubeDDSetS af fuel st f ls).1.store ∧
    Denotes (pickCubeDDSetS af fuel st f ls).1.store (pickCubeDDSetS af fuel st f ls).2
      (pickCubeDDSet a v) := by
  induction fuel with
  | zero => intro st f ls a v _ _ hsz _; have := size_pos a; omega
  | succ fuel ih =>
    intro st f ls a v hf hl hsz haf
    cases hf with
    | @term b => exact ⟨Store.Le.refl _, by simp only [pickCubeDDSetS, pickCubeDDSet]; exact .term⟩
    | @inner i l t e tt te hi hft hfe =>
      simp only [BDD.size] at hsz
      obtain ⟨hd1, hd2⟩ := litAt_denotes l (litSetPopS_denotes l af hl haf)
      have hsz' : (setStep v l).1.size ≤ af := Nat.le_trans (setStep_size_le v l) haf
      simp only [pickCubeDDSetS, hi, bindS, goiS, pickChoice_eq_dec _ hft hfe, hd2]
      rw [pickCubeDDSet_node]
      cases hd : dec (setStep v l).2 tt te
      · obtain ⟨le1, d1⟩ := ih st e _ te _ hfe hd1 (by omega) hsz'
        simp only [Bool.false_eq_true, if_false, pickKidsT, pickKidsE]
        exact ⟨le1.trans (getOrInsert_le _ _ _ _), getOrInsert_denotes _ l _ _ _ _ .term d1⟩
      · obtain ⟨le1, d1⟩ := ih st t _ tt _ hft hd1 (by omega) hsz'
        simp only [if_true, pickKidsT, pickKidsE]
        exact ⟨le1.trans (getOrInsert_le _ _ _ _), getOrInsert_denotes _ l _ _ _ _ d1 .term⟩

/-! ## no garbage: the final store is the store with the result interned -/

theorem tne_of_nored {s : Store} (hu : s.Unique) (hr : s.NoRed) {i l : Nat} {t e : Edge}
    {tt te : BDD} (hi : s.get? i = some ⟨l, t, e⟩) (ht : Denotes s t tt) (he : Denotes s e te) :
    tt ≠ te := by
  intro h
  subst h
  exact hr i _ hi (inj_of_unique hu _ _ _ ht he)

theorem pickCubeDDS_canon (choice : Nat → Bool) (fuel : Nat) : ∀ (st : St) (f : Edge) (a : BDD),
    st.store.Unique → st.store.NoRed → Denotes st.store f a → a.size ≤ fuel →
    (pickCubeDDS choice fuel st f).1.store = (intern st.store (pickCubeDD choice a)).1 ∧
    (pickCubeDDS choice fuel st f).2 = (intern st.store (pickCubeDD choice a)).2 := by
  induction fuel with
  | zero => intro st f a _ _ _ hsz; have := size_pos a; omega
  | succ fuel ih =>
    intro st f a hu hr hf hsz
    cases hf with
    | @term b => simp only [pickCubeDDS, pickCubeDD, intern]; exact ⟨trivial, trivial⟩
    | @inner i l t e tt te hi hft hfe =>
      simp only [BDD.size] at hsz
      have hne := tne_of_nored hu hr hi hft hfe
      simp only [pickCubeDDS, hi, bindS, goiS, pickChoice_eq_dec _ hft hfe]
      rw [pickCubeDD_node]
      cases hd : dec (choice l) tt te
      · obtain ⟨c1, c2⟩ := ih st e te hu hr hfe (by omega)
        have d1 := (pickCubeDDS_spec choice fuel st e te hfe (by omega)).2
        have hnf : (pickCubeDDS choice fuel st e).2 ≠ .term false := by
          intro h
          have := (denotes_false_iff d1).mp h
          rw [pickCubeDD_eq_false_iff] at this
          exact dec_false hne hd this
        simp only [Bool.false_eq_true, if_false, pickKidsT, pickKidsE, intern]
        rw [getOrInsert_eq_mkNode (Ne.symm hnf), c1, c2]
        exact ⟨rfl, rfl⟩
      · obtain ⟨c1, c2⟩ := ih st t tt hu hr hft (by omega)
        have d1 := (pickCubeDDS_spec choice fuel st t tt hft (by omega)).2
        have hnf : (pickCubeDDS choice fuel st t).2 ≠ .term false := by
          intro h
          have := (denotes_false_iff d1).mp h
          rw [pickCubeDD_eq_false_iff] at this
          exact dec_true hd this
        simp only [if_true, pickKidsT, pickKidsE, intern]
        rw [getOrInsert_eq_mkNode hnf, c1, c2]
        exact ⟨rfl, rfl⟩

theorem pickCubeDDSetS_canon (af : Nat) (fuel : Nat) : ∀ (st : St) (f ls : Edge) (a v : BDD),
    st.store.Unique → st.store.NoRed → Denotes st.store f a → Denotes st.store ls v →
    a.size ≤ fuel → v.size ≤ af →
    (pickCubeDDSetS af fuel st f ls).1.store = (intern st.store (pickCubeDDSet a v)).1 ∧
    (pickCubeDDSetS af fuel st f ls).2 = (intern st.store (pickCubeDDSet a v)).2 := by
  induction fuel with
  | zero => intro st f ls a v _ _ _ _ hsz _; have := size_pos a; omega
  | succ fuel ih =>
    intro st f ls a v hu hr hf hl hsz haf
    cases hf with
    | @term b => simp only [pickCubeDDSetS, pickCubeDDSet, intern]; exact ⟨trivial, trivial⟩
    | @inner i l t e tt te hi hft hfe =>
      simp only [BDD.size] at hsz
      have hne := tne_of_nored hu hr hi hft hfe
      obtain ⟨hd1, hd2⟩ := litAt_denotes l (litSetPopS_denotes l af hl haf)
      have hsz' : (setStep v l).1.size ≤ af := Nat.le_trans (setStep_size_le v l) haf
      simp only [pickCubeDDSetS, hi, bindS, goiS, pickChoice_eq_dec _ hft hfe, hd2]
      rw [pickCubeDDSet_node]
      cases hd : dec (setStep v l).2 tt te
      · obtain ⟨c1, c2⟩ := ih st e _ te _ hu hr hfe hd1 (by omega) hsz'
        have d1 := (pickCubeDDSetS_spec af fuel st e _ te _ hfe hd1 (by omega) hsz').2
        have hnf : (pickCubeDDSetS af fuel st e
            (litAt st.store (litSetPopS st.store af ls l) l).1).2 ≠ .term false := by
          intro h
          have := (denotes_false_iff d1).mp h
          rw [pickCubeDDSet_eq_false_iff] at this
          exact dec_false hne hd this
        simp only [Bool.false_eq_true, if_false, pickKidsT, pickKidsE, intern]
        rw [getOrInsert_eq_mkNode (Ne.symm hnf), c1, c2]
        exact ⟨rfl, rfl⟩
      · obtain ⟨c1, c2⟩ := ih st t _ tt _ hu hr hft hd1 (by omega) hsz'
        have d1 := (pickCubeDDSetS_spec af fuel st t _ tt _ hft hd1 (by omega) hsz').2
        have hnf : (pickCubeDDSetS af fuel st t
            (litAt st.store (litSetPopS st.store af ls l) l).1).2 ≠ .term false := by
          intro h
          have := (denotes_false_iff d1).mp h
          rw [pickCubeDDSet_eq_false_iff] at this
          exact dec_true hd this
        simp only [if_true, pickKidsT, pickKidsE, intern]
        rw [getOrInsert_eq_mkNode hnf, c1, c2]
        exact ⟨rfl, rfl⟩

end OxiddModel.Bdd.Rc
