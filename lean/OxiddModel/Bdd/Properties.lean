import OxiddModel.Bdd.Model
