import OxiddModel.Bdd.Ite
import OxiddModel.Bdd.Canon

/-!
# Headline theorems for the simple BDD rules (properties C01/C02, tree level)

`σ` ranges over all assignments of the levels, `f g h` over all trees: the statements hold for
every operand tuple and every diagram depth. Together with `canon`, `*_sem` + `*_nf` determine
the result *tree* of every operation: it is the unique normal form of the specified function.
-/
namespace OxiddModel.Bdd
open BDD

/-- C02: `not` is pointwise negation. -/
theorem bdd_not_sem (f : BDD) (σ : Nat → Bool) : (applyNot f).eval σ = !f.eval σ :=
  applyNot_eval σ f

/-- C02: every binary connective (`and, or, nand, nor, xor, equiv, imp, imp_strict`) takes under
every assignment the value of the propositional connective applied to the operand values. -/
theorem bdd_apply_sem (op : Op) (f g : BDD) (σ : Nat → Bool) :
    (applyBin op f g).eval σ = op.sem (f.eval σ) (g.eval σ) :=
  applyBin_eval op f g σ

/-- the connectives' truth tables are the propositional ones (finite table, by `decide`) -/
theorem op_sem_table :
    (∀ a b, Op.and.sem a b = (a && b)) ∧ (∀ a b, Op.or.sem a b = (a || b)) ∧
    (∀ a b, Op.nand.sem a b = !(a && b)) ∧ (∀ a b, Op.nor.sem a b = !(a || b)) ∧
    (∀ a b, Op.xor.sem a b = (a ^^ b)) ∧ (∀ a b, Op.equiv.sem a b = !(a ^^ b)) ∧
    (∀ a b, Op.imp.sem a b = (!a || b)) ∧ (∀ a b, Op.impStrict.sem a b = (!a && b)) := by
  decide

/-- C02: `ite` is pointwise if-then-else, for every operand triple. -/
theorem bdd_ite_sem (f g h : BDD) (σ : Nat → Bool) :
    (applyIte f g h).eval σ = if f.eval σ then g.eval σ else h.eval σ :=
  applyIte_eval f g h σ

/-- C03/C01: results are again ordered and reduced. -/
theorem bdd_not_nf (f : BDD) (n : Nat) (hf : NF n f) : NF n (applyNot f) := applyNot_nf hf.1
theorem bdd_apply_nf (op : Op) (f g : BDD) (n : Nat) (hf : NF n f) (hg : NF n g) :
    NF n (applyBin op f g) := applyBin_nf op f g n hf hg
theorem bdd_ite_nf (f g h : BDD) (n : Nat) (hf : NF n f) (hg : NF n g) (hh : NF n h) :
    NF n (applyIte f g h) := applyIte_nf f g h n hf hg hh

/-- C02: constants and (negated) variables. -/
theorem bdd_const_var_sem (l : Nat) (σ : Nat → Bool) :
    (BDD.leaf true).eval σ = true ∧ (BDD.leaf false).eval σ = false ∧
    (var l).eval σ = σ l ∧ (notVar l).eval σ = !σ l := by
  simp [eval, var, notVar]

theorem bdd_var_nf (l : Nat) : NF l (var l) ∧ NF l (notVar l) := by
  refine ⟨⟨.node (Nat.le_refl _) .leaf .leaf, ?_⟩, ⟨.node (Nat.le_refl _) .leaf .leaf, ?_⟩⟩ <;>
    simp [var, notVar, Reduced]

/-- C02: the cofactors (the two children of the root) are the Shannon cofactors with respect to the
top-most variable. -/
theorem bdd_cofactors_shannon (l : Nat) (t e : BDD) (n : Nat) (h : NF n (.node l t e)) (σ : Nat → Bool) :
    t.eval σ = (BDD.node l t e).eval (upd σ l true) ∧ e.eval σ = (BDD.node l t e).eval (upd σ l false) := by
  cases h.1 with
  | node _ ht he => exact ⟨(eval_node_upd_true ht σ).symm, (eval_node_upd_false he σ).symm⟩

/-- C01 (tree level): two normal-form diagrams are equal iff they denote the same function. -/
theorem bdd_canonical (a b : BDD) (n : Nat) (ha : NF n a) (hb : NF n b) :
    a = b ↔ ∀ σ, a.eval σ = b.eval σ := nf_eq_iff a b n ha hb

/-- C01+C02: the result of a connective is *the* normal form of the specified function — any other
normal-form diagram of that function is the same tree (so results do not depend on how the operands
were obtained). -/
theorem bdd_apply_unique (op : Op) (f g r : BDD) (n : Nat) (hf : NF n f) (hg : NF n g) (hr : NF n r)
    (h : ∀ σ, r.eval σ = op.sem (f.eval σ) (g.eval σ)) : r = applyBin op f g :=
  (nf_eq_iff r _ n hr (applyBin_nf op f g n hf hg)).mpr (fun σ => by rw [h, applyBin_eval])

theorem bdd_sat_valid (a : BDD) (n : Nat) (ha : NF n a) :
    (a ≠ .leaf false ↔ ∃ σ, a.eval σ = true) ∧ (a = .leaf true ↔ ∀ σ, a.eval σ = true) := by
  refine ⟨?_, nf_true_iff a n ha⟩
  rw [Ne, nf_false_iff a n ha]
  constructor
  · intro h
    apply Classical.byContradiction
    intro hne
    exact h (fun σ => by
      cases hv : a.eval σ
      · rfl
      · exact absurd ⟨σ, hv⟩ hne)
  · rintro ⟨σ, hσ⟩ h; rw [h σ] at hσ; cases hσ

/-- non-vacuity: a concrete shared, level-skipping diagram in normal form, and a non-trivial
instance of the operator theorems -/
example : NF 0 (BDD.node 0 (.node 2 (.leaf true) (.leaf false)) (.node 1 (.leaf false) (.node 2 (.leaf true) (.leaf false)))) := by
  refine ⟨.node (by omega) (.node (by omega) .leaf .leaf) (.node (by omega) .leaf (.node (by omega) .leaf .leaf)), ?_⟩
  simp [Reduced]

example : applyBin .and (var 0) (var 1) = .node 0 (.node 1 (.leaf true) (.leaf false)) (.leaf false) := by
  symm
  apply bdd_apply_unique .and (var 0) (var 1) _ 0 ((bdd_var_nf 0).1) ⟨(bdd_var_nf 1).1.1.mono (by omega), (bdd_var_nf 1).1.2⟩
  · refine ⟨.node (by omega) (.node (by omega) .leaf .leaf) .leaf, ?_⟩
    simp [Reduced]
  · intro σ; simp [eval, var, Op.sem]

end OxiddModel.Bdd
