import OxiddModel.Bdd.ApplyQuant
import OxiddModel.Bdd.Restrict
import OxiddModel.Bdd.Subst
import OxiddModel.Bdd.Properties

/-!
# Headline theorems for property C04 (simple BDD rules, tree level)

*Quantification, restriction, apply-and-quantify and substitution are correct.*

All statements hold for **every** tree `f`, `g`, every variable set / literal cube / replacement
vector and every assignment `σ` of the levels — no bound on the number of variables or the depth.
The hypotheses are the operations' documented preconditions: operands are ordered diagrams
(`Ordered n f`), `vars` is a conjunction of positive literals (`IsVarSet m vars`) resp. a literal
cube (`IsLitCube m vars`) with increasing levels; nothing is assumed about how the levels of `vars`
interleave with those of the operands (so the `set_pop`/skip logic is covered in full).
In a manager every diagram is ordered, so for real operands the increasing-levels part of
`IsVarSet`/`IsLitCube` holds automatically; that it cannot be dropped at tree level is shown by
`quant_needs_ordered_vars` below.

The specification of quantification is `qsem q ls g` (`OxiddModel/Bdd/QuantSem.lean`):
`qsem q [] g = g` and `qsem q (l :: ls) g σ = qsem q ls g σ[l:=⊤] ∘ qsem q ls g σ[l:=⊥]` with
`∘ = ∧, ∨, ⊕` for `forall, exists, unique`.
-/
namespace OxiddModel.Bdd
open BDD

/-! ## quantification -/

/-- C04: `forall`/`exists`/`unique` over a variable set equal the iterated conjunction /
disjunction / exclusive-or of the two cofactors for each listed variable. The special cases of
`unique` in the code (variable above `f` ⇒ `⊥`; terminal `f` with non-empty set ⇒ `⊥`) are
consequences of this specification (`g ⊕ g = ⊥`), not extra assumptions. -/
theorem bdd_quant_sem (q : Quant) (f vars : BDD) (n m : Nat) (hf : Ordered n f)
    (hv : IsVarSet m vars) (σ : Nat → Bool) :
    (quant q f vars).eval σ = qsem q (varsOf vars) f.eval σ :=
  quant_sem q hf hv σ

/-- C04, one variable: the result is the connective applied to the two Shannon cofactors. -/
theorem bdd_quant_single (q : Quant) (f : BDD) (n l : Nat) (hf : Ordered n f) (σ : Nat → Bool) :
    (quant q f (var l)).eval σ = q.op.sem (f.eval (upd σ l true)) (f.eval (upd σ l false)) := by
  have hv : IsVarSet 0 (var l) := .node (Nat.zero_le _) .top
  rw [quant_sem q hf hv]; rfl

/-- C04: `exists` is existential quantification over the listed levels … -/
theorem bdd_exists_iff (f vars : BDD) (n m : Nat) (hf : Ordered n f) (hv : IsVarSet m vars)
    (σ : Nat → Bool) :
    (quant .exists_ f vars).eval σ = true ↔
      ∃ τ, (∀ v, v ∉ varsOf vars → τ v = σ v) ∧ f.eval τ = true := by
  rw [quant_sem .exists_ hf hv]; exact qsem_exists_iff _ _ σ

/-- … and `forall` is universal quantification over the listed levels. -/
theorem bdd_forall_iff (f vars : BDD) (n m : Nat) (hf : Ordered n f) (hv : IsVarSet m vars)
    (σ : Nat → Bool) :
    (quant .forall_ f vars).eval σ = true ↔
      ∀ τ, (∀ v, v ∉ varsOf vars → τ v = σ v) → f.eval τ = true := by
  rw [quant_sem .forall_ hf hv]; exact qsem_forall_iff _ _ σ

/-- `quant_comm`: the specification does not depend on the order in which the levels are listed
(for all three quantifiers), and for `forall`/`exists` listing a level twice is harmless. -/
theorem bdd_quant_order_indep (q : Quant) (ls ls' : List Nat) (h : ls.Perm ls')
    (g : (Nat → Bool) → Bool) : qsem q ls g = qsem q ls' g :=
  qsem_perm q h g

/-- the result of a quantification no longer depends on the quantified levels -/
theorem bdd_quant_indep (q : Quant) (f vars : BDD) (n m : Nat) (hf : Ordered n f)
    (hv : IsVarSet m vars) (l : Nat) (hl : l ∈ varsOf vars) (σ : Nat → Bool) (b : Bool) :
    (quant q f vars).eval (upd σ l b) = (quant q f vars).eval σ := by
  rw [quant_sem q hf hv, quant_sem q hf hv]
  exact qsem_indep_mem q f.eval hl σ b

/-- C04/C01: the result of a quantification is in normal form (whatever the `vars` operand). -/
theorem bdd_quant_nf (q : Quant) (f vars : BDD) (n : Nat) (hf : NF n f) : NF n (quant q f vars) :=
  quant_nf q vars hf

/-- C04+C01: hence the result *tree* is determined by the specification. -/
theorem bdd_quant_unique (q : Quant) (f vars r : BDD) (n m : Nat) (hf : NF n f) (hv : IsVarSet m vars)
    (hr : NF n r) (h : ∀ σ, r.eval σ = qsem q (varsOf vars) f.eval σ) : r = quant q f vars :=
  (nf_eq_iff r _ n hr (quant_nf q vars hf)).mpr (fun σ => by rw [h, quant_sem q hf.1 hv])

/-- the increasing-levels requirement on `vars` is necessary at tree level: with the mis-ordered
"set" `x3 ∧ x1` the variable `x1` of `x0 ∧ x1` is not quantified (`set_pop` never looks below the
root of `vars`) -/
theorem quant_needs_ordered_vars :
    quant .exists_ (.node 0 (.node 1 (.leaf true) (.leaf false)) (.leaf false))
        (.node 3 (.node 1 (.leaf true) (.leaf false)) (.leaf false))
      = .node 0 (.node 1 (.leaf true) (.leaf false)) (.leaf false) := by
  decide

/-! ## restriction -/

/-- C04: `restrict` equals the cofactor with respect to the partial assignment given by the
literal cube. -/
theorem bdd_restrict_sem (f vars : BDD) (n m : Nat) (hf : Ordered n f) (hv : IsLitCube m vars)
    (σ : Nat → Bool) : (restrict f vars).eval σ = f.eval (override σ (litsOf vars)) :=
  restrict_sem hf hv σ

/-- the partial assignment of a cube is the one that makes the cube true: on assignments
satisfying the cube, `restrict f cube` agrees with `f` -/
theorem bdd_restrict_agree (f vars : BDD) (n m : Nat) (hf : Ordered n f) (hv : IsLitCube m vars)
    (σ : Nat → Bool) (hσ : vars.eval σ = true) : (restrict f vars).eval σ = f.eval σ := by
  rw [restrict_sem hf hv, hv.override_of_eval hσ]

theorem bdd_cube_override (vars : BDD) (m : Nat) (hv : IsLitCube m vars) (σ : Nat → Bool) :
    vars.eval (override σ (litsOf vars)) = true := hv.eval_override σ

theorem bdd_restrict_nf (f vars : BDD) (n : Nat) (hf : NF n f) : NF n (restrict f vars) :=
  restrict_nf vars hf

/-! ## apply-and-quantify -/

/-- C04: `apply_forall/apply_exists/apply_unique` with any of the 8 inner operators denote the
quantification of the pointwise connective. -/
theorem bdd_apply_quant_sem (q : Quant) (op : Op) (f g vars : BDD) (n m : Nat) (hf : Ordered n f)
    (hg : Ordered n g) (hv : IsVarSet m vars) (σ : Nat → Bool) :
    (applyQuant q op f g vars).eval σ
      = qsem q (varsOf vars) (fun τ => op.sem (f.eval τ) (g.eval τ)) σ :=
  applyQuant_sem q op hf hg hv σ

theorem bdd_apply_quant_nf (q : Quant) (op : Op) (f g vars : BDD) (n : Nat) (hf : NF n f) (hg : NF n g) :
    NF n (applyQuant q op f g vars) := applyQuant_nf q op vars hf hg

/-- C04: the combined form returns the *same diagram* as the plain operator followed by the
respective quantification. -/
theorem bdd_apply_quant_eq (q : Quant) (op : Op) (f g vars : BDD) (n m : Nat) (hf : NF n f) (hg : NF n g)
    (hv : IsVarSet m vars) : applyQuant q op f g vars = quant q (applyBin op f g) vars :=
  applyQuant_eq q op hf hg hv

/-! ## substitution -/

/-- C04: `substitute` with a replacement vector replaces every level `l < sv.length` by `sv[l]`,
all simultaneously (the replacements are evaluated under the original `σ`); nothing is required of
the replacement functions. -/
theorem bdd_subst_sem (sv : List BDD) (f : BDD) (n : Nat) (hf : Ordered n f) (σ : Nat → Bool) :
    (substitute sv f).eval σ
      = f.eval (fun l => match sv[l]? with | some r => r.eval σ | none => σ l) :=
  subst_sem sv hf σ

/-- C04: with the vector built by `substitute_prepare` the net effect is the simultaneous
substitution of exactly the listed levels; every other level is left untouched. -/
theorem bdd_subst_prepare_sem (pairs : List (Nat × BDD)) (f : BDD) (n : Nat) (hf : Ordered n f)
    (σ : Nat → Bool) :
    (substitute (substPrepare pairs) f).eval σ
      = f.eval (fun l => match pairs.lookup l with | some r => r.eval σ | none => σ l) :=
  subst_prepare_sem pairs hf σ

/-- substituting nothing is the identity function; a substitution not mentioning any level of `f`
leaves `f`'s function unchanged -/
theorem bdd_subst_untouched (pairs : List (Nat × BDD)) (f : BDD) (n : Nat) (hf : Ordered n f)
    (h : ∀ p ∈ pairs, p.1 < n) (σ : Nat → Bool) :
    (substitute (substPrepare pairs) f).eval σ = f.eval σ := by
  rw [subst_prepare_sem pairs hf]
  apply eval_indep hf
  intro v hv
  simp only [pairsAssign]
  cases hl : pairs.lookup v with
  | none => rfl
  | some r => have := h _ (lookup_mem hl); simp at this; omega

/-- C04/C01: the result of a substitution is in normal form. -/
theorem bdd_subst_nf (pairs : List (Nat × BDD)) (f : BDD) (n : Nat) (h : ∀ p ∈ pairs, NF 0 p.2)
    (hf : NF n f) : NF 0 (substitute (substPrepare pairs) f) :=
  subst_prepare_nf h hf

/-! ## non-vacuity: concrete instances with a quantified/restricted level strictly between the
levels of the operand (so `set_pop` and the skip logic are exercised) -/

/-- `x0 ? x1 : x2` -/
def c04F : BDD := .node 0 (.node 1 (.leaf true) (.leaf false)) (.node 2 (.leaf true) (.leaf false))

theorem c04F_nf : NF 0 c04F := by
  refine ⟨.node (by omega) (.node (by omega) .leaf .leaf) (.node (by omega) .leaf .leaf), ?_⟩
  simp [c04F, Reduced]

theorem c04_var_set : IsVarSet 0 (var 1) := .node (by omega) .top

/-- the two-element set `{x1, x2}` -/
def c04Vars : BDD := .node 1 (.node 2 (.leaf true) (.leaf false)) (.leaf false)
theorem c04Vars_ok : IsVarSet 0 c04Vars := .node (by omega) (.node (by omega) .top)

/-- `∃x1. (x0 ? x1 : x2) = x0 ∨ x2`, `∀x1. … = ¬x0 ∧ x2`, `∃!x1. … = x0` -/
example (σ : Nat → Bool) : (quant .exists_ c04F (var 1)).eval σ = (σ 0 || σ 2) := by
  rw [bdd_quant_sem _ _ _ 0 0 c04F_nf.1 c04_var_set]
  cases h0 : σ 0 <;> cases h2 : σ 2 <;> simp [varsOf, var, qsem, q1, c04F, eval, upd, Quant.op, Op.sem, h0, h2]

example (σ : Nat → Bool) : (quant .forall_ c04F (var 1)).eval σ = (!σ 0 && σ 2) := by
  rw [bdd_quant_sem _ _ _ 0 0 c04F_nf.1 c04_var_set]
  cases h0 : σ 0 <;> cases h2 : σ 2 <;> simp [varsOf, var, qsem, q1, c04F, eval, upd, Quant.op, Op.sem, h0, h2]

example (σ : Nat → Bool) : (quant .unique c04F (var 1)).eval σ = σ 0 := by
  rw [bdd_quant_sem _ _ _ 0 0 c04F_nf.1 c04_var_set]
  cases h0 : σ 0 <;> cases h2 : σ 2 <;> simp [varsOf, var, qsem, q1, c04F, eval, upd, Quant.op, Op.sem, h0, h2]

/-- and therefore the result *tree* of `∃x1` is the normal form of `x0 ∨ x2` -/
example : quant .exists_ c04F (var 1) = .node 0 (.leaf true) (.node 2 (.leaf true) (.leaf false)) := by
  symm
  apply bdd_quant_unique .exists_ c04F (var 1) _ 0 0 c04F_nf c04_var_set
  · refine ⟨.node (by omega) .leaf (.node (by omega) .leaf .leaf), ?_⟩
    simp [Reduced]
  · intro σ
    cases h0 : σ 0 <;> cases h2 : σ 2 <;> simp [varsOf, var, qsem, q1, c04F, eval, upd, Quant.op, Op.sem, h0, h2]

/-- two variables: `∃x1 x2. (x0 ? x1 : x2) = ⊤` -/
example (σ : Nat → Bool) : (quant .exists_ c04F c04Vars).eval σ = true := by
  rw [bdd_quant_sem _ _ _ 0 0 c04F_nf.1 c04Vars_ok]
  cases h0 : σ 0 <;> simp [varsOf, c04Vars, qsem, q1, c04F, eval, upd, Quant.op, Op.sem, h0]

example : [1, 2].Perm [2, 1] := List.Perm.swap 2 1 []

/-- the cube `¬x1 ∧ x2`; `(x0 ? x1 : x2)[x1:=⊥, x2:=⊤] = ¬x0` -/
def c04Cube : BDD := .node 1 (.leaf false) (.node 2 (.leaf true) (.leaf false))
theorem c04Cube_ok : IsLitCube 0 c04Cube := .neg (by omega) (.pos (by omega) .top)

example (σ : Nat → Bool) : (restrict c04F c04Cube).eval σ = !σ 0 := by
  rw [bdd_restrict_sem _ _ 0 0 c04F_nf.1 c04Cube_ok]
  cases h0 : σ 0 <;> simp [c04F, c04Cube, litsOf, override, List.lookup, eval, h0]

/-- `∃x1. (x0 ? x1 : x2) ∧ x2` through the combined form is the plain `and` followed by `exists` -/
example : applyQuant .exists_ .and c04F (var 2) (var 1) = quant .exists_ (applyBin .and c04F (var 2)) (var 1) :=
  bdd_apply_quant_eq .exists_ .and c04F (var 2) (var 1) 0 0 c04F_nf
    ⟨(bdd_var_nf 2).1.1.mono (by omega), (bdd_var_nf 2).1.2⟩ c04_var_set

example (σ : Nat → Bool) : (applyQuant .exists_ .and c04F (var 2) (var 1)).eval σ = σ 2 := by
  rw [bdd_apply_quant_sem _ _ _ _ _ 0 0 c04F_nf.1 ((bdd_var_nf 2).1.1.mono (by omega)) c04_var_set]
  cases h0 : σ 0 <;> cases h2 : σ 2 <;> simp [varsOf, var, qsem, q1, c04F, eval, upd, Quant.op, Op.sem, h0, h2]

/-- simultaneous substitution `x0 ↦ x2, x2 ↦ x0` (a swap, which sequential substitution would get
wrong) in `x0 ? x1 : x2` gives `x2 ? x1 : x0` -/
example (σ : Nat → Bool) :
    (substitute (substPrepare [(0, var 2), (2, var 0)]) c04F).eval σ = if σ 2 then σ 1 else σ 0 := by
  rw [bdd_subst_prepare_sem _ _ 0 c04F_nf.1]
  simp [c04F, eval, List.lookup, var]

example : ∀ p ∈ [(0, var 2), (2, var 0)], NF 0 p.2 := by
  intro p hp
  simp only [List.mem_cons, List.not_mem_nil, or_false] at hp
  rcases hp with rfl | rfl
  · exact ⟨(bdd_var_nf 2).1.1.mono (by omega), (bdd_var_nf 2).1.2⟩
  · exact (bdd_var_nf 0).1

end OxiddModel.Bdd
