import OxiddModel.Bdd.HistoryX
import OxiddModel.Bdd.CanonX
import OxiddModel.Bdd.WitnessC04S
import OxiddModel.Bdd.PropertiesC04

/-!
# C04 / C06 at store level — quantification, apply-and-quantify, restriction, substitution with
hash-consed nodes and the apply cache (simple BDD rules)

Property C04: *"quantification, restriction, apply-and-quantify and substitution are the specified
functions"*; property C06: *"the apply cache is transparent: a memoised result is only served for
exactly the key it was computed for — operator, every operand including variable sets, cubes and
the substitution id"*.

`PropertiesC04.lean` proves C04 for the tree-level functions `quant`, `applyQuant`, `restrict`,
`substitute`/`substPrepare` of `Model.lean`. `PropertiesC06.lean` proves C06 for the store-level
`apply_not`/`apply_bin`/`apply_ite`. This file closes the gap for the remaining recursive
algorithms of `crates/oxidd-rules-bdd/src/simple/apply_rec.rs`:

| Rust                              | store level (`…S.lean`)      | tree level        |
|-----------------------------------|------------------------------|-------------------|
| `quant::<Q>`                      | `quantS` (`QuantS`)          | `quant`           |
| `apply_quant::<Q, OP>` (all `Q`)  | `applyQuantS` (`ApplyQuantS`)| `applyQuant`      |
| `restrict` (+ `inner`)            | `restrictS` (`RestrictS`)    | `restrict`        |
| `substitute_prepare`              | `substPrepareS` (`SubstS`)   | `substPrepare`    |
| `substitute`                      | `substituteS` (`SubstS`)     | `substitute`      |

(`apply_quant` is a single Rust function; the `Unique` variant is its instance `Q = Xor`, covered
by `q = .unique`.) The cache is the one of `CacheS.lean` (same `Policy`, `Policy.OK`); keys are
`XKey`s — operator (`BDDOp`), edge operands, numeric operands — stored through the injective
encoding `encKey` (`CacheX.lean`). `CacheOKX reg s c`: every entry denotes `specX reg` of its
operands; for `Substitute` entries this is relative to the registry `reg : id ↦ vector`.

All `…_spec` theorems hold for every admissible policy (`Policy.OK`: ideal, none, direct mapped
with arbitrary hash / capacity / lock failures), every sound cache, every store and all operands.
No orderedness assumption is needed for the refinement to the tree-level functions; the `…_sem`
theorems compose with `PropertiesC04.lean` (there the documented preconditions `Ordered`,
`IsVarSet`, `IsLitCube` enter).

Fuel: `fuel` bounds the main recursion, `af` the inner calls (`set_pop`, `apply_bin::<Q>`,
`apply_ite`, `apply_not`), whose operands are *results* and hence not bounded by the operand
sizes; `quantNeed`/`substNeed` are explicit sufficient amounts, for `apply_quant` the bound is
existential (`∃ N` depending on the operand trees only).

**Not proved / limits** (see also the final section): for `quant`, `apply_quant`, `substitute`
the *store* after the operation (and the slot of a freshly allocated result) can depend on cache
hits, because a hit skips the creation of intermediate nodes (`quant_ids_depend_on_cache`);
transparency for these is therefore stated (a) for arbitrary sound caches: for denotations, for
results that already exist, and up to any common hash-consed extension of the two stores; (b) for
`quant` and `substitute` from *closed* caches (`ClosedX`: the intermediate nodes of every entry's
computation are still in the store — always the case in the real manager, and in particular for
the empty cache): equal edges and equal stores. (b) is not proved for `apply_quant`. For `restrict`
the full statement (equal edges, equal stores, `= intern`) holds for all sound caches. Reference counts, `AllocResult` errors and the
parallel recursor are outside this layer.
-/
namespace OxiddModel.Bdd.C04S
open OxiddModel.Bdd OxiddModel.Bdd.BDD OxiddModel.Bdd.Refine OxiddModel.Bdd.C04SW

/-! ## the cached algorithms refine the tree-level functions -/

/-- **`quant::<Q>` with cache refines `quant q`** (`forall`, `exists`, `unique`). From any state
whose store is hash-consed and whose cache is sound, for every admissible cache behaviour: the
returned edge denotes `quant q a v` for the trees denoted by `f` and `vars` — including the
`set_pop` normalisation of `vars` before the cache lookup —, the store is only extended, and
`Unique`, `CacheOKX` and `NoRed` hold afterwards. -/
theorem quantS_spec {p : Policy} (pok : p.OK) (reg : Nat → List BDD) (q : Quant) (af fuel : Nat)
    (st : St) (f vars : Edge) (a v : BDD) (hu : st.store.Unique)
    (hc : CacheOKX reg st.store st.cache) (hf : Denotes st.store f a)
    (hv : Denotes st.store vars v) (hfuel : a.size ≤ fuel) (haf : quantNeed q a v ≤ af) :
    Denotes (quantS p q af fuel st f vars).1.store (quantS p q af fuel st f vars).2 (quant q a v) ∧
    st.store.Le (quantS p q af fuel st f vars).1.store ∧
    (quantS p q af fuel st f vars).1.store.Unique ∧
    CacheOKX reg (quantS p q af fuel st f vars).1.store (quantS p q af fuel st f vars).1.cache ∧
    (st.store.NoRed → (quantS p q af fuel st f vars).1.store.NoRed) :=
  have P := Refine.quantS_spec pok reg q af fuel st f vars a v ⟨hu, hc⟩ hf hv hfuel haf
  ⟨P.den, P.le, P.inv.1, P.inv.2, P.nored⟩

/-- non-vacuity: `∀{x1}. (x0 ∨ x1)` on `exS` with a 2-bucket direct-mapped cache whose lock fails at
odd time stamps; the result is the new node `x0` -/
example :
    let R := quantS (Policy.dm 2 (fun k => k.2.length) (fun t => t % 2 == 0)) .forall_ 10 10
      ⟨exS, [], 0⟩ (.inner 2) (.inner 0)
    Denotes R.1.store R.2 (quant .forall_ exOr exX1) ∧ exS.Le R.1.store ∧ R.1.store.Unique ∧
      CacheOKX reg0 R.1.store R.1.cache ∧ (exS.NoRed → R.1.store.NoRed) :=
  quantS_spec (Policy.dm_ok _ _ _) reg0 .forall_ 10 10 ⟨exS, [], 0⟩ (.inner 2) (.inner 0) exOr exX1
    exS_unique (CacheOKX.nil _ _) exS_or exS_x1 (by decide) (by decide +kernel)

example : (quantS Policy.exact .forall_ 10 10 ⟨exS, [], 0⟩ (.inner 2) (.inner 0)).2 = .inner 4 ∧
    quant .forall_ exOr exX1 = var 0 := by
  constructor <;> decide +kernel

/-- **`apply_quant::<Q, OP>` with cache refines `applyQuant q op`**, for the three quantifiers and
the eight inner operators, including the continuation with the operands *as normalised by
`terminal_bin`* (sound by `applyQuant_comm`), the delegations to `quant`, `apply_not`,
`apply_bin::<OP>`, `apply_bin::<Q>`, and the three-operand cache key. `N` depends on the operand
trees only. -/
theorem applyQuantS_spec (reg : Nat → List BDD) (q : Quant) (op : Op) (a b v : BDD) :
    ∃ N, ∀ (p : Policy), p.OK → ∀ (af fuel : Nat), N ≤ af → a.size + b.size ≤ fuel →
      ∀ (st : St) (f g vars : Edge), st.store.Unique → CacheOKX reg st.store st.cache →
        Denotes st.store f a → Denotes st.store g b → Denotes st.store vars v →
        Denotes (applyQuantS p q op af fuel st f g vars).1.store
          (applyQuantS p q op af fuel st f g vars).2 (applyQuant q op a b v) ∧
        st.store.Le (applyQuantS p q op af fuel st f g vars).1.store ∧
        (applyQuantS p q op af fuel st f g vars).1.store.Unique ∧
        CacheOKX reg (applyQuantS p q op af fuel st f g vars).1.store
          (applyQuantS p q op af fuel st f g vars).1.cache ∧
        (st.store.NoRed → (applyQuantS p q op af fuel st f g vars).1.store.NoRed) := by
  obtain ⟨N, h⟩ := Refine.applyQuantS_spec reg q op _ a b v (Nat.le_refl _)
  refine ⟨N, fun p pok af fuel hN hfuel st f g vars hu hc hf hg hv => ?_⟩
  have P := h p pok af fuel hN hfuel st f g vars ⟨hu, hc⟩ hf hg hv
  exact ⟨P.den, P.le, P.inv.1, P.inv.2, P.nored⟩

/-- non-vacuity: the hypotheses are satisfiable on `exS` (`∃{x1}. (x0∧x1) ⊕ (x0∨x1)`; the operands
are given in the order that `terminal_bin` swaps) -/
example : ∃ af fuel,
    let R := applyQuantS Policy.exact .exists_ .xor af fuel ⟨exS, [], 0⟩ (.inner 2) (.inner 1) (.inner 0)
    Denotes R.1.store R.2 (applyQuant .exists_ .xor exOr exAnd exX1) ∧ R.1.store.Unique ∧
      CacheOKX reg0 R.1.store R.1.cache := by
  obtain ⟨N, h⟩ := applyQuantS_spec reg0 .exists_ .xor exOr exAnd exX1
  have := h Policy.exact Policy.exact_ok N (N + exOr.size + exAnd.size) (Nat.le_refl _) (by omega)
    ⟨exS, [], 0⟩ (.inner 2) (.inner 1) (.inner 0) exS_unique (CacheOKX.nil _ _) exS_or exS_and exS_x1
  exact ⟨_, _, this.1, this.2.2.1, this.2.2.2.1⟩

/-- a concrete run: the cache afterwards holds an entry under the three-operand key
`(ExistsAnd, [#1, #2, #0])` with the operands in normalised order (`terminal_bin` swaps `#2 > #1`),
and `∃x1. (x0∨x1) ∧ (x0∧x1) = x0` -/
example :
    (applyQuantS Policy.exact .exists_ .and 20 20 ⟨exS, [], 0⟩ (.inner 2) (.inner 1) (.inner 0)).2
      = .inner 4 ∧
    applyQuant .exists_ .and exOr exAnd exX1 = var 0 ∧
    (encKey (applyQuantKey .exists_ .and (.inner 1) (.inner 2) (.inner 0)), Edge.inner 4) ∈
      (applyQuantS Policy.exact .exists_ .and 20 20 ⟨exS, [], 0⟩ (.inner 2) (.inner 1) (.inner 0)).1.cache := by
  refine ⟨by decide +kernel, by decide +kernel, by decide +kernel⟩

/-- … and one through the `Not` arm of `terminal_bin` is not needed for `xor` here, but the
delegation to `quant` and `apply_not` is exercised: `∀x1. (x0∨x1) ⊕ (x0∧x1) = ⊥` -/
example :
    (applyQuantS Policy.exact .forall_ .xor 20 20 ⟨exS, [], 0⟩ (.inner 2) (.inner 1) (.inner 0)).2
      = .term false ∧ applyQuant .forall_ .xor exOr exAnd exX1 = .leaf false := by
  refine ⟨by decide +kernel, by decide +kernel⟩

/-- **`restrict` with cache refines `restrict`**: the tail-recursive walk over the cube, the cache
key `(Restrict, [f, vars])` for the `f`/`vars` *the walk stopped at*, `reduce`. Every node created
is a node of the result, so store and result are canonical: `intern st.store (restrict a v)`. -/
theorem restrictS_spec {p : Policy} (pok : p.OK) (reg : Nat → List BDD) (fuel : Nat) (st : St)
    (f vars : Edge) (a v : BDD) (hu : st.store.Unique) (hc : CacheOKX reg st.store st.cache)
    (hf : Denotes st.store f a) (hv : Denotes st.store vars v) (hfuel : a.size + v.size ≤ fuel) :
    Denotes (restrictS p fuel st f vars).1.store (restrictS p fuel st f vars).2 (restrict a v) ∧
    st.store.Le (restrictS p fuel st f vars).1.store ∧
    (restrictS p fuel st f vars).1.store.Unique ∧
    CacheOKX reg (restrictS p fuel st f vars).1.store (restrictS p fuel st f vars).1.cache ∧
    (st.store.NoRed → (restrictS p fuel st f vars).1.store.NoRed ∧
      ((restrictS p fuel st f vars).1.store, (restrictS p fuel st f vars).2) =
        intern st.store (restrict a v)) :=
  have P := Refine.restrictS_spec pok reg fuel st f vars a v ⟨hu, hc⟩ hf hv hfuel
  ⟨P.den, P.le, P.inv.1, P.inv.2, fun hr => ⟨P.nored hr, P.canon hr⟩⟩

/-- non-vacuity: `(x0∧x1)|x1=⊤ = x0` on `exS` without cache -/
example :
    let R := restrictS Policy.none 10 ⟨exS, [], 0⟩ (.inner 1) (.inner 0)
    Denotes R.1.store R.2 (restrict exAnd exX1) ∧ exS.Le R.1.store ∧ R.1.store.Unique ∧
      CacheOKX reg0 R.1.store R.1.cache ∧
      (exS.NoRed → R.1.store.NoRed ∧ (R.1.store, R.2) = intern exS (restrict exAnd exX1)) :=
  restrictS_spec Policy.none_ok reg0 10 ⟨exS, [], 0⟩ (.inner 1) (.inner 0) exAnd exX1 exS_unique
    (CacheOKX.nil _ _) exS_and exS_x1 (by decide)

/-- **`substitute_prepare` refines `substPrepare`**: levels not mentioned get their variable node
(`get_or_insert`), the store is only extended, hash consing and reducedness are kept. -/
theorem substPrepareS_spec (s : Store) (pairs : List (Nat × Edge)) (pairsT : List (Nat × BDD))
    (hu : s.Unique) (hp : DenotesP s pairs pairsT) :
    s.Le (substPrepareS s pairs).1 ∧ (substPrepareS s pairs).1.Unique ∧
    (s.NoRed → (substPrepareS s pairs).1.NoRed) ∧
    DenotesL (substPrepareS s pairs).1 (substPrepareS s pairs).2 (substPrepare pairsT) :=
  Refine.substPrepareS_spec s pairs pairsT hu hp

/-- non-vacuity: the substitution `x1 ↦ ¬x1` on `exS`: level 0 is not mentioned, so the vector is
`[x0, ¬x1]` and the variable node `x0` is created in slot 4 -/
example : (substPrepareS exS [(1, .inner 3)]).2 = [.inner 4, .inner 3] ∧
    (substPrepareS exS [(1, .inner 3)]).1.get? 4 = some ⟨0, .term true, .term false⟩ ∧
    substPrepare [(1, exNX1)] = [var 0, exNX1] := by
  refine ⟨by decide +kernel, by decide +kernel, by decide +kernel⟩

example : DenotesP exS [(1, .inner 3)] [(1, exNX1)] := .cons exS_nx1 .nil

/-- **`substitute` with cache refines `substitute (reg id)`**, where `reg id` is the replacement
vector registered for the substitution id: hypothesis `hsub` says that the vector passed along with
`id` *is* the registered one. This is the uniqueness assumption on `Substitution::id()` made
explicit: the cache key is `(Substitute, [f], [id])` and does not contain the vector.
`subst_id_reuse_unsound` shows that it cannot be dropped. -/
theorem substituteS_spec {p : Policy} (pok : p.OK) (reg : Nat → List BDD) (subst : List Edge)
    (id af fuel : Nat) (st : St) (f : Edge) (a : BDD) (hu : st.store.Unique)
    (hc : CacheOKX reg st.store st.cache) (hsub : DenotesL st.store subst (reg id))
    (hf : Denotes st.store f a) (hfuel : a.size ≤ fuel) (haf : substNeed (reg id) a ≤ af) :
    Denotes (substituteS p subst id af fuel st f).1.store (substituteS p subst id af fuel st f).2
      (substitute (reg id) a) ∧
    st.store.Le (substituteS p subst id af fuel st f).1.store ∧
    (substituteS p subst id af fuel st f).1.store.Unique ∧
    CacheOKX reg (substituteS p subst id af fuel st f).1.store
      (substituteS p subst id af fuel st f).1.cache ∧
    (st.store.NoRed → (substituteS p subst id af fuel st f).1.store.NoRed) :=
  have P := Refine.substituteS_spec pok reg subst id af fuel st f a ⟨hu, hc⟩ hsub hf hfuel haf
  ⟨P.den, P.le, P.inv.1, P.inv.2, P.nored⟩

/-- non-vacuity: `(x0∨x1)[x0 := ¬x1] = ⊤` on `exS`, id 8 registered for the vector `[¬x1]` -/
example :
    let R := substituteS Policy.exact exSub2 8 10 10 ⟨exS, [], 0⟩ (.inner 2)
    Denotes R.1.store R.2 (substitute exSv2 exOr) ∧ exS.Le R.1.store ∧ R.1.store.Unique ∧
      CacheOKX (fun _ => exSv2) R.1.store R.1.cache ∧ (exS.NoRed → R.1.store.NoRed) :=
  substituteS_spec Policy.exact_ok (fun _ => exSv2) exSub2 8 10 10 ⟨exS, [], 0⟩ (.inner 2) exOr
    exS_unique (CacheOKX.nil _ _) exS_sub2 exS_or (by decide) (by decide +kernel)

/-- **`substitute_edge` = `substitute_prepare` + `substitute`** refines
`substitute (substPrepare pairs)`, provided the id is registered for exactly this substitution. -/
theorem substituteEdgeS_spec {p : Policy} (pok : p.OK) (reg : Nat → List BDD)
    (pairs : List (Nat × Edge)) (pairsT : List (Nat × BDD)) (id af fuel : Nat) (st : St) (f : Edge)
    (a : BDD) (hu : st.store.Unique) (hc : CacheOKX reg st.store st.cache)
    (hp : DenotesP st.store pairs pairsT) (hreg : reg id = substPrepare pairsT)
    (hf : Denotes st.store f a) (hfuel : a.size ≤ fuel)
    (haf : substNeed (substPrepare pairsT) a ≤ af) :
    Denotes (substituteEdgeS p pairs id af fuel st f).1.store
      (substituteEdgeS p pairs id af fuel st f).2 (substitute (substPrepare pairsT) a) ∧
    st.store.Le (substituteEdgeS p pairs id af fuel st f).1.store ∧
    (substituteEdgeS p pairs id af fuel st f).1.store.Unique ∧
    CacheOKX reg (substituteEdgeS p pairs id af fuel st f).1.store
      (substituteEdgeS p pairs id af fuel st f).1.cache ∧
    (st.store.NoRed → (substituteEdgeS p pairs id af fuel st f).1.store.NoRed) :=
  have P := Refine.substituteEdgeS_spec pok reg pairs pairsT id af fuel st f a ⟨hu, hc⟩ hp hreg hf
    hfuel haf
  ⟨P.den, P.le, P.inv.1, P.inv.2, P.nored⟩

/-- non-vacuity: `(x0 ∧ x1)[x1 := ¬x1] = x0 ∧ ¬x1` on `exS` -/
example :
    let R := substituteEdgeS Policy.exact [(1, .inner 3)] 5 10 10 ⟨exS, [], 0⟩ (.inner 1)
    Denotes R.1.store R.2 (substitute (substPrepare [(1, exNX1)]) exAnd) ∧ R.1.store.Unique :=
  have h := substituteEdgeS_spec Policy.exact_ok (fun _ => substPrepare [(1, exNX1)])
    [(1, .inner 3)] [(1, exNX1)] 5 10 10 ⟨exS, [], 0⟩ (.inner 1) exAnd exS_unique (CacheOKX.nil _ _)
    (.cons exS_nx1 .nil) rfl exS_and (by decide) (by decide +kernel)
  ⟨h.1, h.2.2.1⟩

example : substitute (substPrepare [(1, exNX1)]) exAnd = .node 0 exNX1 (.leaf false) := by
  decide +kernel

/-- **`apply_not`, `apply_bin::<OP>`, `apply_ite` stay correct on a cache that also holds entries
of the other operators** (they are called by `quant`/`apply_quant`/`substitute` on the shared
cache): the specifications of `PropertiesC06` hold under the extended invariant, with the same
canonicity (`= intern`); and every cache that is sound in the sense of `PropertiesC06` is sound in
the extended sense. -/
theorem base_ops_on_extended_cache {p : Policy} (pok : p.OK) (reg : Nat → List BDD) (fuel : Nat)
    (st : St) (hu : st.store.Unique) (hc : CacheOKX reg st.store st.cache) :
    (∀ f a, Denotes st.store f a → a.size ≤ fuel →
      PostX reg st.store (applyNot a) (notS p fuel st f)) ∧
    (∀ op f g a b, Denotes st.store f a → Denotes st.store g b → a.size + b.size ≤ fuel →
      PostX reg st.store (applyBin op a b) (applyS p op fuel st f g)) ∧
    (∀ f g h a b c, Denotes st.store f a → Denotes st.store g b → Denotes st.store h c →
      a.size + b.size + c.size ≤ fuel →
      PostX reg st.store (applyIte a b c) (iteS p fuel st f g h)) ∧
    (∀ c', CacheOK st.store c' → CacheOKX reg st.store c') :=
  ⟨fun f a hf hs => notS_specX pok reg fuel st f a ⟨hu, hc⟩ hf hs,
   fun op f g a b hf hg hs => applyS_specX pok reg op fuel st f g a b ⟨hu, hc⟩ hf hg hs,
   fun f g h a b c hf hg hh hs => iteS_specX pok reg fuel st f g h a b c ⟨hu, hc⟩ hf hg hh hs,
   fun _ h => h.toX reg⟩

/-- non-vacuity: `and` on a cache warmed up by a quantification (it holds a `Forall` entry) -/
example :
    let W := (quantS Policy.exact .forall_ 10 10 ⟨exS, [], 0⟩ (.inner 2) (.inner 0)).1
    W.cache ≠ [] ∧ PostX reg0 W.store (applyBin .and exAnd exOr) (applyS Policy.exact .and 10 W (.inner 1) (.inner 2)) := by
  intro W
  have P := quantS_spec Policy.exact_ok reg0 .forall_ 10 10 ⟨exS, [], 0⟩ (.inner 2) (.inner 0) exOr
    exX1 exS_unique (CacheOKX.nil _ _) exS_or exS_x1 (by decide) (by decide +kernel)
  refine ⟨by decide +kernel, ?_⟩
  exact (base_ops_on_extended_cache Policy.exact_ok reg0 10 W P.2.2.1 P.2.2.2.1).2.1 .and _ _ _ _
    (exS_and.mono P.2.1) (exS_or.mono P.2.1) (by decide)

/-! ## the results are the specified functions (composition with `PropertiesC04`) -/

/-- C04 at store level: the edge returned by `forall`/`exists`/`unique` denotes a tree whose
function is the iterated conjunction / disjunction / exclusive-or of the cofactors over the listed
variables. -/
theorem quantS_sem {p : Policy} (pok : p.OK) (reg : Nat → List BDD) (q : Quant) (af fuel : Nat)
    (st : St) (f vars : Edge) (a v : BDD) (n m : Nat) (hu : st.store.Unique)
    (hc : CacheOKX reg st.store st.cache) (hf : Denotes st.store f a)
    (hv : Denotes st.store vars v) (hfuel : a.size ≤ fuel) (haf : quantNeed q a v ≤ af)
    (ho : Ordered n a) (hvs : IsVarSet m v) :
    ∃ T, Denotes (quantS p q af fuel st f vars).1.store (quantS p q af fuel st f vars).2 T ∧
      ∀ σ, T.eval σ = qsem q (varsOf v) a.eval σ :=
  ⟨_, (quantS_spec pok reg q af fuel st f vars a v hu hc hf hv hfuel haf).1,
    fun σ => bdd_quant_sem q a v n m ho hvs σ⟩

example (σ : Nat → Bool) : ∃ T,
    Denotes (quantS Policy.exact .forall_ 10 10 ⟨exS, [], 0⟩ (.inner 2) (.inner 0)).1.store
      (quantS Policy.exact .forall_ 10 10 ⟨exS, [], 0⟩ (.inner 2) (.inner 0)).2 T ∧
    T.eval σ = qsem .forall_ [1] exOr.eval σ := by
  obtain ⟨T, h1, h2⟩ := quantS_sem Policy.exact_ok reg0 .forall_ 10 10 ⟨exS, [], 0⟩ (.inner 2)
    (.inner 0) exOr exX1 0 0 exS_unique (CacheOKX.nil _ _) exS_or exS_x1 (by decide)
    (by decide +kernel) (.node (by omega) .leaf (.node (by omega) .leaf .leaf))
    (.node (by omega) .top)
  exact ⟨T, h1, h2 σ⟩

/-- C04 at store level for `apply_forall`/`apply_exists`/`apply_unique`. -/
theorem applyQuantS_sem (reg : Nat → List BDD) (q : Quant) (op : Op) (a b v : BDD) (n m : Nat)
    (ha : Ordered n a) (hb : Ordered n b) (hvs : IsVarSet m v) :
    ∃ N, ∀ (p : Policy), p.OK → ∀ (af fuel : Nat), N ≤ af → a.size + b.size ≤ fuel →
      ∀ (st : St) (f g vars : Edge), st.store.Unique → CacheOKX reg st.store st.cache →
        Denotes st.store f a → Denotes st.store g b → Denotes st.store vars v →
        ∃ T, Denotes (applyQuantS p q op af fuel st f g vars).1.store
            (applyQuantS p q op af fuel st f g vars).2 T ∧
          ∀ σ, T.eval σ = qsem q (varsOf v) (fun τ => op.sem (a.eval τ) (b.eval τ)) σ := by
  obtain ⟨N, h⟩ := applyQuantS_spec reg q op a b v
  exact ⟨N, fun p pok af fuel hN hfuel st f g vars hu hc hf hg hv =>
    ⟨_, (h p pok af fuel hN hfuel st f g vars hu hc hf hg hv).1,
      fun σ => bdd_apply_quant_sem q op a b v n m ha hb hvs σ⟩⟩

example : ∃ N : Nat, N = N :=
  have ⟨N, _⟩ := applyQuantS_sem reg0 .exists_ .xor exOr exAnd exX1 0 0
    (.node (by omega) .leaf (.node (by omega) .leaf .leaf))
    (.node (by omega) (.node (by omega) .leaf .leaf) .leaf) (.node (by omega) .top)
  ⟨N, rfl⟩

/-- C04 at store level for `restrict`: the cofactor w.r.t. the partial assignment of the cube. -/
theorem restrictS_sem {p : Policy} (pok : p.OK) (reg : Nat → List BDD) (fuel : Nat) (st : St)
    (f vars : Edge) (a v : BDD) (n m : Nat) (hu : st.store.Unique)
    (hc : CacheOKX reg st.store st.cache) (hf : Denotes st.store f a)
    (hv : Denotes st.store vars v) (hfuel : a.size + v.size ≤ fuel)
    (ho : Ordered n a) (hcube : IsLitCube m v) :
    ∃ T, Denotes (restrictS p fuel st f vars).1.store (restrictS p fuel st f vars).2 T ∧
      ∀ σ, T.eval σ = a.eval (override σ (litsOf v)) :=
  ⟨_, (restrictS_spec pok reg fuel st f vars a v hu hc hf hv hfuel).1,
    fun σ => bdd_restrict_sem a v n m ho hcube σ⟩

example (σ : Nat → Bool) : ∃ T,
    Denotes (restrictS Policy.exact 10 ⟨exS, [], 0⟩ (.inner 1) (.inner 3)).1.store
      (restrictS Policy.exact 10 ⟨exS, [], 0⟩ (.inner 1) (.inner 3)).2 T ∧
    T.eval σ = exAnd.eval (override σ [(1, false)]) := by
  obtain ⟨T, h1, h2⟩ := restrictS_sem Policy.exact_ok reg0 10 ⟨exS, [], 0⟩ (.inner 1) (.inner 3)
    exAnd exNX1 0 0 exS_unique (CacheOKX.nil _ _) exS_and exS_nx1 (by decide)
    (.node (by omega) (.node (by omega) .leaf .leaf) .leaf) (.neg (by omega) .top)
  exact ⟨T, h1, h2 σ⟩

/-- C04 at store level for `substitute_edge`: simultaneous substitution of exactly the listed
levels. -/
theorem substituteEdgeS_sem {p : Policy} (pok : p.OK) (reg : Nat → List BDD)
    (pairs : List (Nat × Edge)) (pairsT : List (Nat × BDD)) (id af fuel : Nat) (st : St) (f : Edge)
    (a : BDD) (n : Nat) (hu : st.store.Unique) (hc : CacheOKX reg st.store st.cache)
    (hp : DenotesP st.store pairs pairsT) (hreg : reg id = substPrepare pairsT)
    (hf : Denotes st.store f a) (hfuel : a.size ≤ fuel)
    (haf : substNeed (substPrepare pairsT) a ≤ af) (ho : Ordered n a) :
    ∃ T, Denotes (substituteEdgeS p pairs id af fuel st f).1.store
        (substituteEdgeS p pairs id af fuel st f).2 T ∧
      ∀ σ, T.eval σ =
        a.eval (fun l => match pairsT.lookup l with | some r => r.eval σ | none => σ l) :=
  ⟨_, (substituteEdgeS_spec pok reg pairs pairsT id af fuel st f a hu hc hp hreg hf hfuel haf).1,
    fun σ => bdd_subst_prepare_sem pairsT a n ho σ⟩

example (σ : Nat → Bool) : ∃ T,
    Denotes (substituteEdgeS Policy.exact [(1, .inner 3)] 5 10 10 ⟨exS, [], 0⟩ (.inner 1)).1.store
      (substituteEdgeS Policy.exact [(1, .inner 3)] 5 10 10 ⟨exS, [], 0⟩ (.inner 1)).2 T ∧
    T.eval σ = (σ 0 && !σ 1) := by
  obtain ⟨T, h1, h2⟩ := substituteEdgeS_sem Policy.exact_ok (fun _ => substPrepare [(1, exNX1)])
    [(1, .inner 3)] [(1, exNX1)] 5 10 10 ⟨exS, [], 0⟩ (.inner 1) exAnd 0 exS_unique
    (CacheOKX.nil _ _) (.cons exS_nx1 .nil) rfl exS_and (by decide) (by decide +kernel)
    (.node (by omega) (.node (by omega) .leaf .leaf) .leaf)
  refine ⟨T, h1, ?_⟩
  rw [h2 σ]
  cases h0 : σ 0 <;> cases h1 : σ 1 <;> simp [exAnd, exX1, exNX1, eval, List.lookup, h0, h1]

/-! ## cache keys -/

/-- **A hit needs the full key: operator, every edge operand, every numeric operand.** For every
admissible policy a hit for a well-formed key is backed by an entry whose key — decoded — has the
same operator, the same edge operands and the same numeric operands (`encKey` is injective). -/
theorem xkey_full {p : Policy} (pok : p.OK) (t : Nat) (c : Cache) (k : XKey) (hk : k.WF)
    (r : Edge) (h : p.get t c (encKey k) = some r) :
    (encKey k, r) ∈ c ∧
    ∀ k' : XKey, k'.WF → encKey k' = encKey k →
      k'.op = k.op ∧ k'.operands = k.operands ∧ k'.nums = k.nums :=
  ⟨pok.get_mem t c _ r h, fun k' hk' e => by rw [encKey_inj hk' hk e]; exact ⟨rfl, rfl, rfl⟩⟩

/-- consequently: if no entry carries exactly this key, every admissible policy misses -/
theorem xkey_no_cross_hit {p : Policy} (pok : p.OK) (t : Nat) (c : Cache) (k : Key)
    (h : ∀ x, x ∈ c → x.1 ≠ k) : p.get t c k = none := by
  cases hg : p.get t c k with
  | none => rfl
  | some r => exact absurd rfl (h _ (pok.get_mem t c k r hg))

/-- non-vacuity: after `∀{x0,x1}. x0∨x1` the ideal cache answers the query `(Forall, [#2, #1])` and
misses `(Forall, [#2, #0])`, `(Exists, [#2, #1])` and the `Restrict` key with the same operands -/
example :
    let c := (quantS Policy.exact .forall_ 10 10 ⟨exS, [], 0⟩ (.inner 2) (.inner 1)).1.cache
    Policy.exact.get 0 c (encKey (quantKey .forall_ (.inner 2) (.inner 1))) = some (.term false) ∧
    Policy.exact.get 0 c (encKey (quantKey .forall_ (.inner 2) (.inner 0))) = none ∧
    Policy.exact.get 0 c (encKey (quantKey .exists_ (.inner 2) (.inner 1))) = none ∧
    Policy.exact.get 0 c (encKey (restrictKey (.inner 2) (.inner 1))) = none := by
  decide +kernel

/-- **The quantification key contains the variable set.**
1. the meaning of a `Forall/Exists/Unique` entry is relative to *both* operands: it is sound iff
   its value denotes `quant q a v` for the trees of `f` **and** `vars`;
2. two quantification keys coincide only if quantifier, `f` and the `vars` edge coincide;
3. hence a query with a variable-set edge `vars` is never answered from an entry stored for
   another set: if no quantification entry of the cache carries `vars`, every admissible policy
   misses — whatever entries exist for the same node `f` with other sets (superset or subset);
4. every entry `quant::<Q>` creates is keyed by `(Q's operator, [·, ·])` or is an entry of an
   inner `apply_bin::<Q>`/`apply_not`.
`quant_key_without_vars_unsound` is the negative witness. -/
theorem quant_key_has_vars {p : Policy} (pok : p.OK) :
    (∀ (reg : Nat → List BDD) (s : Store) (q : Quant) (f vars : Edge) (a v : BDD) (r : Edge),
      Denotes s f a → Denotes s vars v →
      (EntryOKX reg s (encKey (quantKey q f vars)) r ↔ Denotes s r (quant q a v))) ∧
    (∀ (q q' : Quant) (f f' vars vars' : Edge),
      encKey (quantKey q' f' vars') = encKey (quantKey q f vars) → q' = q ∧ f' = f ∧ vars' = vars) ∧
    (∀ (t : Nat) (c : Cache) (q : Quant) (f vars : Edge),
      (∀ x q' f' w, x ∈ c → x.1 = encKey (quantKey q' f' w) → w ≠ vars) →
      p.get t c (encKey (quantKey q f vars)) = none) ∧
    (∀ (q : Quant) (af fuel : Nat) (st : St) (f vars : Edge) (x : Key × Edge),
      x ∈ (quantS p q af fuel st f vars).1.cache →
      x ∈ st.cache ∨ IsBaseKey x.1 ∨ ∃ f' v', x.1 = encKey (quantKey q f' v')) := by
  refine ⟨?_, ?_, ?_, fun q af fuel st f vars x hx => quantS_grows pok q af fuel st f vars x hx⟩
  · intro reg s q f vars a v r hf hv
    exact ⟨fun h => h.hit (quantKey_wf q f vars) (DenotesL.two hf hv) rfl,
      fun h => EntryOKX.intro (quantKey_wf q f vars) (DenotesL.two hf hv) rfl h⟩
  · intro q q' f f' vars vars' e
    have := encKey_inj (quantKey_wf _ _ _) (quantKey_wf _ _ _) e
    simp only [quantKey, XKey.mk.injEq, XOp.quant.injEq, List.cons.injEq, and_true] at this
    exact ⟨this.1, this.2.1, this.2.2⟩
  · intro t c q f vars hall
    apply xkey_no_cross_hit pok
    intro x hx heq
    exact hall x q f vars hx heq rfl

/-- non-vacuity of part 3 on the cache after the superset query: it holds a `Forall` entry for the
node `#2` with the set `#1 = {x0,x1}`; the query for the subset `#0 = {x1}` on the same node
misses under a direct-mapped policy too -/
example :
    let c := (quantS Policy.exact .forall_ 10 10 ⟨exS, [], 0⟩ (.inner 2) (.inner 1)).1.cache
    (encKey (quantKey .forall_ (.inner 2) (.inner 1)), Edge.term false) ∈ c ∧
    (Policy.dm 4 (fun _ => 0) (fun _ => true)).get 3 c
      (encKey (quantKey .forall_ (.inner 2) (.inner 0))) = none := by
  intro c
  refine ⟨by decide +kernel, ?_⟩
  apply xkey_no_cross_hit (Policy.dm_ok _ _ _)
  decide +kernel

/-- **Dropping `vars` from the quantification key is unsound** (superset, then subset of the
variables on the same node, ideal cache): the second query is answered ⊥ from the entry of the
first, but the specified result is `x0`. The real `quantS` answers correctly in the same history. -/
theorem quant_key_without_vars_unsound :
    -- defective key
    (quantS_noVars Policy.exact .forall_ 10 10 ⟨exS, [], 0⟩ (.inner 2) (.inner 1)).2 = .term false ∧
    (quantS_noVars Policy.exact .forall_ 10 10
      (quantS_noVars Policy.exact .forall_ 10 10 ⟨exS, [], 0⟩ (.inner 2) (.inner 1)).1
      (.inner 2) (.inner 0)).2 = .term false ∧
    -- … which no store can make a correct answer for `∀{x1}. x0∨x1`
    (∀ s : Store, ¬ Denotes s (.term false) (quant .forall_ exOr exX1)) ∧
    -- real key: the second result is the (new) node `x0`
    (quantS Policy.exact .forall_ 10 10 ⟨exS, [], 0⟩ (.inner 2) (.inner 1)).2 = .term false ∧
    (quantS Policy.exact .forall_ 10 10
      (quantS Policy.exact .forall_ 10 10 ⟨exS, [], 0⟩ (.inner 2) (.inner 1)).1
      (.inner 2) (.inner 0)).2 = .inner 4 ∧
    (quantS Policy.exact .forall_ 10 10
      (quantS Policy.exact .forall_ 10 10 ⟨exS, [], 0⟩ (.inner 2) (.inner 1)).1
      (.inner 2) (.inner 0)).1.store.get? 4 = some ⟨0, .term true, .term false⟩ := by
  refine ⟨by decide +kernel, by decide +kernel, ?_, by decide +kernel, by decide +kernel,
    by decide +kernel⟩
  intro s h
  rw [quant_superset_subset.2] at h
  cases h


/-- **The `apply_quant` key contains all three operands, the inner operator and the quantifier.**
1. an entry is sound iff its value denotes `applyQuant q op a b v` for the trees of `f`, `g`
   **and** `vars`;
2. two keys coincide only if quantifier, inner operator and all three edges coincide;
3. an `apply_quant` key never coincides with a `quant`, `Restrict`, `Substitute` or base key
   (for the same or other operands);
4. every entry `apply_quant::<Q, OP>` creates is keyed by `(from_apply_quant(Q, OP), [·,·,·])`,
   by `(Q's operator, [·,·])` (delegation to `quant`), or is an entry of an inner
   `apply_bin`/`apply_not`. -/
theorem apply_quant_key_full {p : Policy} (pok : p.OK) :
    (∀ (reg : Nat → List BDD) (s : Store) (q : Quant) (op : Op) (f g vars : Edge) (a b v : BDD)
      (r : Edge), Denotes s f a → Denotes s g b → Denotes s vars v →
      (EntryOKX reg s (encKey (applyQuantKey q op f g vars)) r ↔
        Denotes s r (applyQuant q op a b v))) ∧
    (∀ (q q' : Quant) (op op' : Op) (f f' g g' vars vars' : Edge),
      encKey (applyQuantKey q' op' f' g' vars') = encKey (applyQuantKey q op f g vars) →
      q' = q ∧ op' = op ∧ f' = f ∧ g' = g ∧ vars' = vars) ∧
    (∀ (q q' : Quant) (op : Op) (f g vars x y : Edge) (id : Nat) (k : Key),
      encKey (applyQuantKey q op f g vars) ≠ encKey (quantKey q' x y) ∧
      encKey (applyQuantKey q op f g vars) ≠ encKey (restrictKey x y) ∧
      encKey (applyQuantKey q op f g vars) ≠ encKey (substKey x id) ∧
      (IsBaseKey k → encKey (applyQuantKey q op f g vars) ≠ k)) ∧
    (∀ (q : Quant) (op : Op) (af fuel : Nat) (st : St) (f g vars : Edge) (x : Key × Edge),
      x ∈ (applyQuantS p q op af fuel st f g vars).1.cache →
      x ∈ st.cache ∨ IsBaseKey x.1 ∨ (∃ f' v', x.1 = encKey (quantKey q f' v')) ∨
        ∃ f' g' v', x.1 = encKey (applyQuantKey q op f' g' v')) := by
  refine ⟨?_, ?_, ?_, fun q op af fuel st f g vars x hx =>
    applyQuantS_grows pok q op af fuel st f g vars x hx⟩
  · intro reg s q op f g vars a b v r hf hg hv
    exact ⟨fun h => h.hit (applyQuantKey_wf q op f g vars) (DenotesL.three hf hg hv) rfl,
      fun h => EntryOKX.intro (applyQuantKey_wf q op f g vars) (DenotesL.three hf hg hv) rfl h⟩
  · intro q q' op op' f f' g g' vars vars' e
    have := encKey_inj (applyQuantKey_wf _ _ _ _ _) (applyQuantKey_wf _ _ _ _ _) e
    simp only [applyQuantKey, XKey.mk.injEq, XOp.applyQuant.injEq, List.cons.injEq, and_true] at this
    exact ⟨this.1.1, this.1.2, this.2.1, this.2.2.1, this.2.2.2⟩
  · intro q q' op f g vars x y id k
    refine ⟨fun e => ?_, fun e => ?_, fun e => ?_, fun hk e => ?_⟩
    · have := encKey_inj (applyQuantKey_wf _ _ _ _ _) (quantKey_wf _ _ _) e
      simp [applyQuantKey, quantKey] at this
    · have := encKey_inj (applyQuantKey_wf _ _ _ _ _) (restrictKey_wf _ _) e
      simp [applyQuantKey, restrictKey] at this
    · have := encKey_inj (applyQuantKey_wf _ _ _ _ _) (substKey_wf _ _) e
      simp [applyQuantKey, substKey] at this
    · subst e
      exact not_isBaseKey_ext (k := applyQuantKey q op f g vars) (fun t h => by cases h) hk

/-- non-vacuity: the entry created by `∃{x1}. (x0∨x1) ∧ (x0∧x1)` is not served for another variable
set, another inner operator, another quantifier or the un-normalised operand order -/
example :
    let c := (applyQuantS Policy.exact .exists_ .and 20 20 ⟨exS, [], 0⟩ (.inner 2) (.inner 1) (.inner 0)).1.cache
    Policy.exact.get 0 c (encKey (applyQuantKey .exists_ .and (.inner 1) (.inner 2) (.inner 0)))
      = some (.inner 4) ∧
    Policy.exact.get 0 c (encKey (applyQuantKey .exists_ .and (.inner 1) (.inner 2) (.inner 1))) = none ∧
    Policy.exact.get 0 c (encKey (applyQuantKey .exists_ .or (.inner 1) (.inner 2) (.inner 0))) = none ∧
    Policy.exact.get 0 c (encKey (applyQuantKey .forall_ .and (.inner 1) (.inner 2) (.inner 0))) = none ∧
    Policy.exact.get 0 c (encKey (applyQuantKey .exists_ .and (.inner 2) (.inner 1) (.inner 0))) = none := by
  decide +kernel

/-- **The `Restrict` key contains the cube.** An entry is sound iff its value denotes
`restrict a v` for the trees of `f` **and** the cube edge; two keys coincide only if both edges
coincide; a query with cube edge `vars` misses unless an entry with exactly this cube edge (and
`f`) exists; `restrict` only creates `(Restrict, [·, ·])` entries.
`restrict_key_without_cube_unsound` is the negative witness. -/
theorem restrict_key_has_cube {p : Policy} (pok : p.OK) :
    (∀ (reg : Nat → List BDD) (s : Store) (f vars : Edge) (a v : BDD) (r : Edge),
      Denotes s f a → Denotes s vars v →
      (EntryOKX reg s (encKey (restrictKey f vars)) r ↔ Denotes s r (restrict a v))) ∧
    (∀ (f f' vars vars' : Edge),
      encKey (restrictKey f' vars') = encKey (restrictKey f vars) → f' = f ∧ vars' = vars) ∧
    (∀ (t : Nat) (c : Cache) (f vars : Edge),
      (∀ x f' w, x ∈ c → x.1 = encKey (restrictKey f' w) → w ≠ vars) →
      p.get t c (encKey (restrictKey f vars)) = none) ∧
    (∀ (fuel : Nat) (st : St) (f vars : Edge) (x : Key × Edge),
      x ∈ (restrictS p fuel st f vars).1.cache →
      x ∈ st.cache ∨ ∃ f' v', x.1 = encKey (restrictKey f' v')) := by
  refine ⟨?_, ?_, ?_, fun fuel st f vars x hx => restrictS_grows pok fuel st f vars x hx⟩
  · intro reg s f vars a v r hf hv
    exact ⟨fun h => h.hit (restrictKey_wf f vars) (DenotesL.two hf hv) rfl,
      fun h => EntryOKX.intro (restrictKey_wf f vars) (DenotesL.two hf hv) rfl h⟩
  · intro f f' vars vars' e
    have := encKey_inj (restrictKey_wf _ _) (restrictKey_wf _ _) e
    simp only [restrictKey, XKey.mk.injEq, List.cons.injEq, and_true, true_and] at this
    exact this
  · intro t c f vars hall
    apply xkey_no_cross_hit pok
    intro x hx heq
    exact hall x f vars hx heq rfl

/-- non-vacuity: after `restrict(x0∧x1, x1)` a query with the cube `¬x1` on the same node misses -/
example :
    let c := (restrictS Policy.exact 10 ⟨exS, [], 0⟩ (.inner 1) (.inner 0)).1.cache
    c = [(encKey (restrictKey (.inner 1) (.inner 0)), .inner 4)] ∧
    Policy.exact.get 0 c (encKey (restrictKey (.inner 1) (.inner 3))) = none := by
  decide +kernel

/-- **Dropping the cube from the `Restrict` key is unsound**: `restrict(x0∧x1, x1)` then
`restrict(x0∧x1, ¬x1)` with the ideal cache returns the node `x0` for both; the real `restrictS`
returns `x0`, then ⊥. -/
theorem restrict_key_without_cube_unsound :
    (restrictS_noCube Policy.exact 10 ⟨exS, [], 0⟩ (.inner 1) (.inner 0)).2 = .inner 4 ∧
    (restrictS_noCube Policy.exact 10
      (restrictS_noCube Policy.exact 10 ⟨exS, [], 0⟩ (.inner 1) (.inner 0)).1
      (.inner 1) (.inner 3)).2 = .inner 4 ∧
    (∀ s : Store, ¬ Denotes s (.inner 4) (restrict exAnd exNX1)) ∧
    (restrictS Policy.exact 10 ⟨exS, [], 0⟩ (.inner 1) (.inner 0)).2 = .inner 4 ∧
    (restrictS Policy.exact 10
      (restrictS Policy.exact 10 ⟨exS, [], 0⟩ (.inner 1) (.inner 0)).1
      (.inner 1) (.inner 3)).2 = .term false := by
  refine ⟨by decide +kernel, by decide +kernel, ?_, by decide +kernel, by decide +kernel⟩
  intro s h
  rw [restrict_two_cubes.2] at h
  cases h


/-- **The `Substitute` key contains the substitution id (and only the id).** An entry
`(Substitute, [f], [id]) ↦ r` is sound iff `r` denotes `substitute (reg id) a` — relative to the
vector *registered* for `id`; two keys coincide only if `f` and `id` coincide; a query under `id`
misses unless an entry with exactly this id (and `f`) exists; `substitute(…, id)` only creates
`(Substitute, [·], [id])` entries and entries of the inner `apply_ite`.
`subst_id_reuse_unsound` shows what happens when two vectors share an id. -/
theorem subst_key_has_id {p : Policy} (pok : p.OK) :
    (∀ (reg : Nat → List BDD) (s : Store) (f : Edge) (id : Nat) (a : BDD) (r : Edge),
      Denotes s f a →
      (EntryOKX reg s (encKey (substKey f id)) r ↔ Denotes s r (substitute (reg id) a))) ∧
    (∀ (f f' : Edge) (id id' : Nat),
      encKey (substKey f' id') = encKey (substKey f id) → f' = f ∧ id' = id) ∧
    (∀ (t : Nat) (c : Cache) (f : Edge) (id : Nat),
      (∀ x f' id', x ∈ c → x.1 = encKey (substKey f' id') → id' ≠ id) →
      p.get t c (encKey (substKey f id)) = none) ∧
    (∀ (subst : List Edge) (id af fuel : Nat) (st : St) (f : Edge) (x : Key × Edge),
      x ∈ (substituteS p subst id af fuel st f).1.cache →
      x ∈ st.cache ∨ IsBaseKey x.1 ∨ ∃ f', x.1 = encKey (substKey f' id)) := by
  refine ⟨?_, ?_, ?_, fun subst id af fuel st f x hx =>
    substituteS_grows pok subst id af fuel st f x hx⟩
  · intro reg s f id a r hf
    exact ⟨fun h => h.hit (substKey_wf f id) (DenotesL.one hf) rfl,
      fun h => EntryOKX.intro (substKey_wf f id) (DenotesL.one hf) rfl h⟩
  · intro f f' id id' e
    have := encKey_inj (substKey_wf _ _) (substKey_wf _ _) e
    simp only [substKey, XKey.mk.injEq, List.cons.injEq, and_true, true_and] at this
    exact this
  · intro t c f id hall
    apply xkey_no_cross_hit pok
    intro x hx heq
    exact hall x f id hx heq rfl

/-- non-vacuity: the entry of substitution 7 is not served for substitution 8 on the same node -/
example :
    let c := (substituteS Policy.exact exSub1 7 10 10 ⟨exS, [], 0⟩ (.inner 2)).1.cache
    Policy.exact.get 0 c (encKey (substKey (.inner 2) 7)) = some (.inner 0) ∧
    Policy.exact.get 0 c (encKey (substKey (.inner 2) 8)) = none := by
  decide +kernel

/-- **Substitution ids must identify the replacement vector.** Two different vectors `x0 ↦ x1`
and `x0 ↦ ¬x1` are used with the *same* id 7 on `f = x0 ∨ x1`, ideal cache:

1. after the first call the cache is sound for the registry that maps id 7 to the first vector
   (it *looks* sound — every entry is a correct result of the call that created it);
2. the second call hits the entry `(Substitute, [f], [7])` and returns `x1`, the result for the
   first vector;
3. the specified result `(x0∨x1)[x0 := ¬x1]` is ⊤, which that edge denotes in no store;
4. with distinct ids (7, 8) the second call returns ⊤.

So `substituteS_spec`'s hypothesis `DenotesL st.store subst (reg id)` — `reg` is a *function* of
the id — cannot be dropped: no registry assigns both vectors to id 7. -/
theorem subst_id_reuse_unsound :
    let R1 := substituteS Policy.exact exSub1 7 10 10 ⟨exS, [], 0⟩ (.inner 2)
    let R2 := substituteS Policy.exact exSub2 7 10 10 R1.1 (.inner 2)
    let R2' := substituteS Policy.exact exSub2 8 10 10 R1.1 (.inner 2)
    exSv1 ≠ exSv2 ∧
    InvX (fun _ => exSv1) R1.1 ∧ Denotes R1.1.store R1.2 (substitute exSv1 exOr) ∧
    R1.1.cache = [(encKey (substKey (.inner 2) 7), .inner 0)] ∧
    R2.2 = .inner 0 ∧ Denotes R2.1.store R2.2 (substitute exSv1 exOr) ∧
    (∀ s : Store, ¬ Denotes s R2.2 (substitute exSv2 exOr)) ∧
    R2'.2 = .term true := by
  intro R1 R2 R2'
  have P1 := Refine.substituteS_spec Policy.exact_ok (fun _ => exSv1) exSub1 7 10 10 ⟨exS, [], 0⟩
    (.inner 2) exOr (exS_inv _) exS_sub1 exS_or (by decide) (by decide +kernel)
  have e2 : R2.2 = .inner 0 := by decide +kernel
  have hs : R2.1.store = R1.1.store := by
    show (⟨R2.1.store.nodes⟩ : Store) = ⟨R1.1.store.nodes⟩
    rw [show R2.1.store.nodes = R1.1.store.nodes by decide +kernel]
  have hx1 : Denotes R1.1.store (.inner 0) exX1 := exS_x1.mono P1.le
  refine ⟨by decide, P1.inv, P1.den, by decide +kernel, e2, ?_, ?_, by decide +kernel⟩
  · rw [e2, hs, subst_two_vectors.1]; exact hx1
  · intro s h
    rw [e2, subst_two_vectors.2] at h
    cases h


/-! ## transparency -/

/-- **The cache is transparent for `restrict`** in the strongest sense: two runs from the same
hash-consed, reduced store with different sound caches, policies, time stamps and fuels return
**equal edges and end in equal stores** (both are `intern s (restrict a v)`). -/
theorem restrict_cache_transparent {p1 p2 : Policy} (ok1 : p1.OK) (ok2 : p2.OK)
    (reg1 reg2 : Nat → List BDD) (s : Store) (c1 c2 : Cache) (t1 t2 fuel1 fuel2 : Nat)
    (f vars : Edge) (a v : BDD) (hu : s.Unique) (hr : s.NoRed) (h1 : CacheOKX reg1 s c1)
    (h2 : CacheOKX reg2 s c2) (hf : Denotes s f a) (hv : Denotes s vars v)
    (hfuel1 : a.size + v.size ≤ fuel1) (hfuel2 : a.size + v.size ≤ fuel2) :
    (restrictS p1 fuel1 ⟨s, c1, t1⟩ f vars).2 = (restrictS p2 fuel2 ⟨s, c2, t2⟩ f vars).2 ∧
    (restrictS p1 fuel1 ⟨s, c1, t1⟩ f vars).1.store =
      (restrictS p2 fuel2 ⟨s, c2, t2⟩ f vars).1.store := by
  have P1 := (Refine.restrictS_spec ok1 reg1 fuel1 ⟨s, c1, t1⟩ f vars a v ⟨hu, h1⟩ hf hv hfuel1).canon hr
  have P2 := (Refine.restrictS_spec ok2 reg2 fuel2 ⟨s, c2, t2⟩ f vars a v ⟨hu, h2⟩ hf hv hfuel2).canon hr
  have e := P1.trans P2.symm
  exact ⟨(Prod.mk.inj e).2, (Prod.mk.inj e).1⟩

/-- non-vacuity: no cache vs. ideal cache warmed up by a quantification -/
example :
    (restrictS Policy.none 10 ⟨exS, [], 0⟩ (.inner 1) (.inner 0)).2 =
    (restrictS Policy.exact 12
      ⟨exS, [(encKey (quantKey .forall_ (.inner 2) (.inner 1)), .term false)], 5⟩
      (.inner 1) (.inner 0)).2 :=
  (restrict_cache_transparent Policy.none_ok Policy.exact_ok reg0 reg0 exS [] _ 0 5 10 12 (.inner 1)
    (.inner 0) exAnd exX1 exS_unique exS_nored (CacheOKX.nil _ _)
    (by
      intro k r hm
      simp only [List.mem_cons, List.not_mem_nil, or_false, Prod.mk.injEq] at hm
      obtain ⟨rfl, rfl⟩ := hm
      refine EntryOKX.intro (quantKey_wf _ _ _) (DenotesL.two exS_or exS_and) rfl ?_
      rw [quant_superset_subset.1]; exact .term)
    exS_and exS_x1 (by decide) (by decide)).1

/-- **The cache is transparent for `quant`.** Two runs from the same hash-consed store with
different sound caches, policies, time stamps and fuels:
1. both results denote the same tree, `quant q a v`;
2. if that tree is already present in the initial store as edge `x`, both runs return `x`;
3. in every common hash-consed extension of the two final stores the two edges are equal.
(Equality of the final stores and of freshly allocated slots is *not* claimed and does not hold in
general: `quant_ids_depend_on_cache`.) -/
theorem quant_cache_transparent {p1 p2 : Policy} (ok1 : p1.OK) (ok2 : p2.OK)
    (reg1 reg2 : Nat → List BDD) (q : Quant) (s : Store) (c1 c2 : Cache)
    (t1 t2 af1 af2 fuel1 fuel2 : Nat) (f vars : Edge) (a v : BDD) (hu : s.Unique)
    (h1 : CacheOKX reg1 s c1) (h2 : CacheOKX reg2 s c2) (hf : Denotes s f a)
    (hv : Denotes s vars v) (hfuel1 : a.size ≤ fuel1) (hfuel2 : a.size ≤ fuel2)
    (haf1 : quantNeed q a v ≤ af1) (haf2 : quantNeed q a v ≤ af2) :
    Denotes (quantS p1 q af1 fuel1 ⟨s, c1, t1⟩ f vars).1.store
      (quantS p1 q af1 fuel1 ⟨s, c1, t1⟩ f vars).2 (quant q a v) ∧
    Denotes (quantS p2 q af2 fuel2 ⟨s, c2, t2⟩ f vars).1.store
      (quantS p2 q af2 fuel2 ⟨s, c2, t2⟩ f vars).2 (quant q a v) ∧
    (∀ x, Denotes s x (quant q a v) →
      (quantS p1 q af1 fuel1 ⟨s, c1, t1⟩ f vars).2 = x ∧
      (quantS p2 q af2 fuel2 ⟨s, c2, t2⟩ f vars).2 = x) ∧
    (∀ s', (quantS p1 q af1 fuel1 ⟨s, c1, t1⟩ f vars).1.store.Le s' →
      (quantS p2 q af2 fuel2 ⟨s, c2, t2⟩ f vars).1.store.Le s' → s'.Unique →
      (quantS p1 q af1 fuel1 ⟨s, c1, t1⟩ f vars).2 = (quantS p2 q af2 fuel2 ⟨s, c2, t2⟩ f vars).2) := by
  have P1 := Refine.quantS_spec ok1 reg1 q af1 fuel1 ⟨s, c1, t1⟩ f vars a v ⟨hu, h1⟩ hf hv hfuel1 haf1
  have P2 := Refine.quantS_spec ok2 reg2 q af2 fuel2 ⟨s, c2, t2⟩ f vars a v ⟨hu, h2⟩ hf hv hfuel2 haf2
  refine ⟨P1.den, P2.den, fun x hx => ⟨?_, ?_⟩, fun s' l1 l2 hu' => ?_⟩
  · exact inj_of_unique P1.inv.1 _ _ _ P1.den (hx.mono P1.le)
  · exact inj_of_unique P2.inv.1 _ _ _ P2.den (hx.mono P2.le)
  · exact inj_of_unique hu' _ _ _ (P1.den.mono l1) (P2.den.mono l2)

/-- non-vacuity on the store of `quant_ids_depend_on_cache`: cold run vs. warm run with the
one-entry cache; both results denote `∃{x1,x2}. h` although the edges differ -/
example :
    Denotes (quantS Policy.none .exists_ 20 20 ⟨gS, [], 0⟩ (.inner 5) (.inner 7)).1.store
      (quantS Policy.none .exists_ 20 20 ⟨gS, [], 0⟩ (.inner 5) (.inner 7)).2 (quant .exists_ gH gV) ∧
    Denotes (quantS Policy.exact .exists_ 20 20 ⟨gS, gCache, 0⟩ (.inner 5) (.inner 7)).1.store
      (quantS Policy.exact .exists_ 20 20 ⟨gS, gCache, 0⟩ (.inner 5) (.inner 7)).2
      (quant .exists_ gH gV) :=
  have h := quant_cache_transparent Policy.none_ok Policy.exact_ok reg0 reg0 .exists_ gS [] gCache
    0 0 20 20 20 20 (.inner 5) (.inner 7) gH gV gS_unique (CacheOKX.nil _ _) (gCache_ok _) gS_h gS_v
    (by decide) (by decide) (by decide +kernel) (by decide +kernel)
  ⟨h.1, h.2.1⟩

/-- the same for `apply_quant` -/
theorem apply_quant_cache_transparent (reg1 reg2 : Nat → List BDD) (q : Quant) (op : Op)
    (a b v : BDD) :
    ∃ N, ∀ (p1 p2 : Policy), p1.OK → p2.OK → ∀ (af1 af2 fuel1 fuel2 : Nat), N ≤ af1 → N ≤ af2 →
      a.size + b.size ≤ fuel1 → a.size + b.size ≤ fuel2 →
      ∀ (s : Store) (c1 c2 : Cache) (t1 t2 : Nat) (f g vars : Edge), s.Unique →
        CacheOKX reg1 s c1 → CacheOKX reg2 s c2 → Denotes s f a → Denotes s g b →
        Denotes s vars v →
        Denotes (applyQuantS p1 q op af1 fuel1 ⟨s, c1, t1⟩ f g vars).1.store
          (applyQuantS p1 q op af1 fuel1 ⟨s, c1, t1⟩ f g vars).2 (applyQuant q op a b v) ∧
        Denotes (applyQuantS p2 q op af2 fuel2 ⟨s, c2, t2⟩ f g vars).1.store
          (applyQuantS p2 q op af2 fuel2 ⟨s, c2, t2⟩ f g vars).2 (applyQuant q op a b v) ∧
        (∀ x, Denotes s x (applyQuant q op a b v) →
          (applyQuantS p1 q op af1 fuel1 ⟨s, c1, t1⟩ f g vars).2 = x ∧
          (applyQuantS p2 q op af2 fuel2 ⟨s, c2, t2⟩ f g vars).2 = x) ∧
        (∀ s', (applyQuantS p1 q op af1 fuel1 ⟨s, c1, t1⟩ f g vars).1.store.Le s' →
          (applyQuantS p2 q op af2 fuel2 ⟨s, c2, t2⟩ f g vars).1.store.Le s' → s'.Unique →
          (applyQuantS p1 q op af1 fuel1 ⟨s, c1, t1⟩ f g vars).2 =
            (applyQuantS p2 q op af2 fuel2 ⟨s, c2, t2⟩ f g vars).2) := by
  obtain ⟨N1, h1⟩ := Refine.applyQuantS_spec reg1 q op _ a b v (Nat.le_refl _)
  obtain ⟨N2, h2⟩ := Refine.applyQuantS_spec reg2 q op _ a b v (Nat.le_refl _)
  refine ⟨max N1 N2, ?_⟩
  intro p1 p2 ok1 ok2 af1 af2 fuel1 fuel2 ha1 ha2 hf1 hf2 s c1 c2 t1 t2 f g vars hu hc1 hc2 hf hg hv
  have P1 := h1 p1 ok1 af1 fuel1 (by omega) hf1 ⟨s, c1, t1⟩ f g vars ⟨hu, hc1⟩ hf hg hv
  have P2 := h2 p2 ok2 af2 fuel2 (by omega) hf2 ⟨s, c2, t2⟩ f g vars ⟨hu, hc2⟩ hf hg hv
  refine ⟨P1.den, P2.den, fun x hx => ⟨?_, ?_⟩, fun s' l1 l2 hu' => ?_⟩
  · exact inj_of_unique P1.inv.1 _ _ _ P1.den (hx.mono P1.le)
  · exact inj_of_unique P2.inv.1 _ _ _ P2.den (hx.mono P2.le)
  · exact inj_of_unique hu' _ _ _ (P1.den.mono l1) (P2.den.mono l2)

example : ∃ N : Nat, N = N :=
  have ⟨N, _⟩ := apply_quant_cache_transparent reg0 reg0 .exists_ .xor exOr exAnd exX1
  ⟨N, rfl⟩

/-- the same for `substitute` (both caches sound for registries that agree on the id used) -/
theorem subst_cache_transparent {p1 p2 : Policy} (ok1 : p1.OK) (ok2 : p2.OK)
    (reg1 reg2 : Nat → List BDD) (id : Nat) (hreg : reg1 id = reg2 id) (s : Store)
    (c1 c2 : Cache) (t1 t2 af1 af2 fuel1 fuel2 : Nat) (subst : List Edge) (f : Edge) (a : BDD)
    (hu : s.Unique) (h1 : CacheOKX reg1 s c1) (h2 : CacheOKX reg2 s c2)
    (hsub : DenotesL s subst (reg1 id)) (hf : Denotes s f a)
    (hfuel1 : a.size ≤ fuel1) (hfuel2 : a.size ≤ fuel2)
    (haf1 : substNeed (reg1 id) a ≤ af1) (haf2 : substNeed (reg1 id) a ≤ af2) :
    Denotes (substituteS p1 subst id af1 fuel1 ⟨s, c1, t1⟩ f).1.store
      (substituteS p1 subst id af1 fuel1 ⟨s, c1, t1⟩ f).2 (substitute (reg1 id) a) ∧
    Denotes (substituteS p2 subst id af2 fuel2 ⟨s, c2, t2⟩ f).1.store
      (substituteS p2 subst id af2 fuel2 ⟨s, c2, t2⟩ f).2 (substitute (reg1 id) a) ∧
    (∀ x, Denotes s x (substitute (reg1 id) a) →
      (substituteS p1 subst id af1 fuel1 ⟨s, c1, t1⟩ f).2 = x ∧
      (substituteS p2 subst id af2 fuel2 ⟨s, c2, t2⟩ f).2 = x) ∧
    (∀ s', (substituteS p1 subst id af1 fuel1 ⟨s, c1, t1⟩ f).1.store.Le s' →
      (substituteS p2 subst id af2 fuel2 ⟨s, c2, t2⟩ f).1.store.Le s' → s'.Unique →
      (substituteS p1 subst id af1 fuel1 ⟨s, c1, t1⟩ f).2 =
        (substituteS p2 subst id af2 fuel2 ⟨s, c2, t2⟩ f).2) := by
  have P1 := Refine.substituteS_spec ok1 reg1 subst id af1 fuel1 ⟨s, c1, t1⟩ f a ⟨hu, h1⟩ hsub hf
    hfuel1 haf1
  have P2 := Refine.substituteS_spec ok2 reg2 subst id af2 fuel2 ⟨s, c2, t2⟩ f a ⟨hu, h2⟩
    (hreg ▸ hsub) hf hfuel2 (hreg ▸ haf2)
  rw [← hreg] at P2
  refine ⟨P1.den, P2.den, fun x hx => ⟨?_, ?_⟩, fun s' l1 l2 hu' => ?_⟩
  · exact inj_of_unique P1.inv.1 _ _ _ P1.den (hx.mono P1.le)
  · exact inj_of_unique P2.inv.1 _ _ _ P2.den (hx.mono P2.le)
  · exact inj_of_unique hu' _ _ _ (P1.den.mono l1) (P2.den.mono l2)

/-- non-vacuity: `(x0∨x1)[x0 := x1] = x1` is already in the store as `#0`; ideal cache and no
cache both return `#0` -/
example :
    (substituteS Policy.exact exSub1 7 10 10 ⟨exS, [], 0⟩ (.inner 2)).2 = .inner 0 ∧
    (substituteS Policy.none exSub1 7 10 10 ⟨exS, [], 3⟩ (.inner 2)).2 = .inner 0 :=
  (subst_cache_transparent Policy.exact_ok Policy.none_ok (fun _ => exSv1) (fun _ => exSv1) 7 rfl exS
    [] [] 0 3 10 10 10 10 exSub1 (.inner 2) exOr exS_unique (CacheOKX.nil _ _) (CacheOKX.nil _ _)
    exS_sub1 exS_or (by decide) (by decide) (by decide +kernel) (by decide +kernel)).2.2.1 (.inner 0)
    (by rw [subst_two_vectors.1]; exact exS_x1)

/-- **For `quant` the slot of a new result node may depend on the cache.** Same store, same
operands (`∃{x1,x2}. h`), two sound caches (empty vs. one entry for the sub-problem
`∃{x1,x2}. f`): the cold run allocates the intermediate node `x3 ∨ x4` in slot 8 and the result in
slot 9; the warm run skips the intermediate node and allocates the result in slot 8. Both results
denote the same tree (`quantS_spec`). Hence the store-level canonicity `(store, edge) = intern s T`
of `not`/`bin`/`ite`/`restrict` does **not** hold for `quant` from arbitrary sound caches (it does
from caches whose entries' intermediate nodes are still in the store, which is the case in the
real manager: dead nodes are only removed by a gc, and a gc clears the apply cache). -/
theorem quant_ids_depend_on_cache :
    let Rc := quantS Policy.none .exists_ 20 20 ⟨gS, [], 0⟩ (.inner 5) (.inner 7)
    let Rw := quantS Policy.exact .exists_ 20 20 ⟨gS, gCache, 0⟩ (.inner 5) (.inner 7)
    Rc.2 = .inner 9 ∧ Rw.2 = .inner 8 ∧
    Denotes Rc.1.store Rc.2 (quant .exists_ gH gV) ∧
    Denotes Rw.1.store Rw.2 (quant .exists_ gH gV) ∧
    Rc.1.store.get? 8 = some ⟨3, .term true, .inner 1⟩ ∧
    Rw.1.store.get? 8 = some ⟨0, .term true, .inner 0⟩ := by
  intro Rc Rw
  have Pc := Refine.quantS_spec Policy.none_ok reg0 .exists_ 20 20 ⟨gS, [], 0⟩ (.inner 5) (.inner 7)
    gH gV ⟨gS_unique, CacheOKX.nil _ _⟩ gS_h gS_v (by decide) (by decide +kernel)
  have Pw := Refine.quantS_spec Policy.exact_ok reg0 .exists_ 20 20 ⟨gS, gCache, 0⟩ (.inner 5) (.inner 7)
    gH gV ⟨gS_unique, gCache_ok _⟩ gS_h gS_v (by decide) (by decide +kernel)
  exact ⟨by decide +kernel, by decide +kernel, Pc.den, Pw.den, by decide +kernel,
    by decide +kernel⟩


/-! ## full transparency of `quant` and `substitute` from closed caches -/

/-- **From closed caches `quant` is transparent at the level of edges and stores.** A cache is
*closed* (`ClosedX`) if for each of its `quant`/`substitute` entries the intermediate results of
the computation that produced it are still nodes of the store — which is the case in the real
manager, where nodes are only removed by a gc and a gc clears the apply cache; the empty cache is
closed, and closedness is preserved. Two runs from the same hash-consed, reduced store with
different sound closed caches, policies, time stamps and fuels return **equal edges and end in
equal stores** — `intern (internAll s (qInter q a v)) (quant q a v)`, a function of the operand
trees — and the caches afterwards are closed again. (`quant_ids_depend_on_cache` shows that
closedness cannot be dropped.) -/
theorem quant_closed_cache_transparent {p1 p2 : Policy} (ok1 : p1.OK) (ok2 : p2.OK)
    (reg1 reg2 : Nat → List BDD) (q : Quant) (s : Store) (c1 c2 : Cache)
    (t1 t2 af1 af2 fuel1 fuel2 : Nat) (f vars : Edge) (a v : BDD) (hu : s.Unique) (hr : s.NoRed)
    (h1 : CacheOKX reg1 s c1) (h2 : CacheOKX reg2 s c2) (cl1 : ClosedX reg1 s c1)
    (cl2 : ClosedX reg2 s c2) (hf : Denotes s f a) (hv : Denotes s vars v)
    (hfuel1 : a.size ≤ fuel1) (hfuel2 : a.size ≤ fuel2)
    (haf1 : quantNeed q a v ≤ af1) (haf2 : quantNeed q a v ≤ af2) :
    (quantS p1 q af1 fuel1 ⟨s, c1, t1⟩ f vars).2 = (quantS p2 q af2 fuel2 ⟨s, c2, t2⟩ f vars).2 ∧
    (quantS p1 q af1 fuel1 ⟨s, c1, t1⟩ f vars).1.store =
      (quantS p2 q af2 fuel2 ⟨s, c2, t2⟩ f vars).1.store ∧
    ((quantS p1 q af1 fuel1 ⟨s, c1, t1⟩ f vars).1.store,
      (quantS p1 q af1 fuel1 ⟨s, c1, t1⟩ f vars).2) =
      intern (internAll s (qInter q a v)) (quant q a v) ∧
    ClosedX reg1 (quantS p1 q af1 fuel1 ⟨s, c1, t1⟩ f vars).1.store
      (quantS p1 q af1 fuel1 ⟨s, c1, t1⟩ f vars).1.cache ∧
    ClosedX reg2 (quantS p2 q af2 fuel2 ⟨s, c2, t2⟩ f vars).1.store
      (quantS p2 q af2 fuel2 ⟨s, c2, t2⟩ f vars).1.cache := by
  obtain ⟨P1, C1⟩ := quantS_canon ok1 reg1 q af1 fuel1 ⟨s, c1, t1⟩ f vars a v ⟨hu, h1⟩ cl1 hr hf hv
    hfuel1 haf1
  obtain ⟨P2, C2⟩ := quantS_canon ok2 reg2 q af2 fuel2 ⟨s, c2, t2⟩ f vars a v ⟨hu, h2⟩ cl2 hr hf hv
    hfuel2 haf2
  have e := P1.canon.trans P2.canon.symm
  exact ⟨(Prod.mk.inj e).2, (Prod.mk.inj e).1, P1.canon, C1, C2⟩

/-- non-vacuity on the store of `quant_ids_depend_on_cache`: from the *empty* cache (which is
closed) the run without cache and the run with the ideal cache agree on edge and store -/
example :
    (quantS Policy.none .exists_ 20 20 ⟨gS, [], 0⟩ (.inner 5) (.inner 7)).2 =
      (quantS Policy.exact .exists_ 25 21 ⟨gS, [], 4⟩ (.inner 5) (.inner 7)).2 ∧
    (quantS Policy.none .exists_ 20 20 ⟨gS, [], 0⟩ (.inner 5) (.inner 7)).1.store =
      (quantS Policy.exact .exists_ 25 21 ⟨gS, [], 4⟩ (.inner 5) (.inner 7)).1.store :=
  have h := quant_closed_cache_transparent Policy.none_ok Policy.exact_ok reg0 reg0 .exists_ gS [] []
    0 4 20 25 20 21 (.inner 5) (.inner 7) gH gV gS_unique gS_nored (CacheOKX.nil _ _)
    (CacheOKX.nil _ _) (ClosedX.nil _ _) (ClosedX.nil _ _) gS_h gS_v (by decide) (by decide)
    (by decide +kernel) (by decide +kernel)
  ⟨h.1, h.2.1⟩

/-- … and the one-entry cache of `quant_ids_depend_on_cache` is sound but **not** closed -/
example : CacheOKX reg0 gS gCache ∧ ¬ ClosedX reg0 gS gCache := by
  refine ⟨gCache_ok _, fun hcl => ?_⟩
  have h := quant_closed_cache_transparent Policy.none_ok Policy.exact_ok reg0 reg0 .exists_ gS []
    gCache 0 0 20 20 20 20 (.inner 5) (.inner 7) gH gV gS_unique gS_nored (CacheOKX.nil _ _)
    (gCache_ok _) (ClosedX.nil _ _) hcl gS_h gS_v (by decide) (by decide) (by decide +kernel)
    (by decide +kernel)
  have w := quant_ids_depend_on_cache
  simp only at w
  rw [w.1, w.2.1] at h
  exact absurd h.1 (by decide)

/-- **From closed caches `substitute` is transparent at the level of edges and stores** (both
caches sound and closed for registries that agree on the id used). -/
theorem subst_closed_cache_transparent {p1 p2 : Policy} (ok1 : p1.OK) (ok2 : p2.OK)
    (reg1 reg2 : Nat → List BDD) (id : Nat) (hreg : reg1 id = reg2 id) (s : Store)
    (c1 c2 : Cache) (t1 t2 af1 af2 fuel1 fuel2 : Nat) (subst : List Edge) (f : Edge) (a : BDD)
    (hu : s.Unique) (hr : s.NoRed) (h1 : CacheOKX reg1 s c1) (h2 : CacheOKX reg2 s c2)
    (cl1 : ClosedX reg1 s c1) (cl2 : ClosedX reg2 s c2)
    (hsub : DenotesL s subst (reg1 id)) (hf : Denotes s f a)
    (hfuel1 : a.size ≤ fuel1) (hfuel2 : a.size ≤ fuel2)
    (haf1 : substNeed (reg1 id) a ≤ af1) (haf2 : substNeed (reg1 id) a ≤ af2) :
    (substituteS p1 subst id af1 fuel1 ⟨s, c1, t1⟩ f).2 =
      (substituteS p2 subst id af2 fuel2 ⟨s, c2, t2⟩ f).2 ∧
    (substituteS p1 subst id af1 fuel1 ⟨s, c1, t1⟩ f).1.store =
      (substituteS p2 subst id af2 fuel2 ⟨s, c2, t2⟩ f).1.store ∧
    ((substituteS p1 subst id af1 fuel1 ⟨s, c1, t1⟩ f).1.store,
      (substituteS p1 subst id af1 fuel1 ⟨s, c1, t1⟩ f).2) =
      intern (internAll s (sInter (reg1 id) a)) (substitute (reg1 id) a) ∧
    ClosedX reg1 (substituteS p1 subst id af1 fuel1 ⟨s, c1, t1⟩ f).1.store
      (substituteS p1 subst id af1 fuel1 ⟨s, c1, t1⟩ f).1.cache ∧
    ClosedX reg2 (substituteS p2 subst id af2 fuel2 ⟨s, c2, t2⟩ f).1.store
      (substituteS p2 subst id af2 fuel2 ⟨s, c2, t2⟩ f).1.cache := by
  obtain ⟨P1, C1⟩ := substituteS_canon ok1 reg1 subst id af1 fuel1 ⟨s, c1, t1⟩ f a ⟨hu, h1⟩ cl1 hr
    hsub hf hfuel1 haf1
  obtain ⟨P2, C2⟩ := substituteS_canon ok2 reg2 subst id af2 fuel2 ⟨s, c2, t2⟩ f a ⟨hu, h2⟩ cl2 hr
    (hreg ▸ hsub) hf hfuel2 (hreg ▸ haf2)
  rw [← hreg] at P2
  have e := P1.canon.trans P2.canon.symm
  exact ⟨(Prod.mk.inj e).2, (Prod.mk.inj e).1, P1.canon, C1, C2⟩

/-- non-vacuity: `(x0∧x1)[x0 := ¬x1, x1 := x1]`-style run on `exS` with the vector `[¬x1]`, no
cache vs. ideal cache, both from the empty cache -/
example :
    (substituteS Policy.none exSub2 8 10 10 ⟨exS, [], 0⟩ (.inner 1)).2 =
      (substituteS Policy.exact exSub2 8 12 11 ⟨exS, [], 3⟩ (.inner 1)).2 ∧
    (substituteS Policy.none exSub2 8 10 10 ⟨exS, [], 0⟩ (.inner 1)).1.store =
      (substituteS Policy.exact exSub2 8 12 11 ⟨exS, [], 3⟩ (.inner 1)).1.store :=
  have h := subst_closed_cache_transparent Policy.none_ok Policy.exact_ok (fun _ => exSv2)
    (fun _ => exSv2) 8 rfl exS [] [] 0 3 10 12 10 11 exSub2 (.inner 1) exAnd exS_unique exS_nored
    (CacheOKX.nil _ _) (CacheOKX.nil _ _) (ClosedX.nil _ _) (ClosedX.nil _ _) exS_sub2 exS_and
    (by decide) (by decide) (by decide +kernel) (by decide +kernel)
  ⟨h.1, h.2.1⟩

/-- closedness is an invariant of everything that happens to the cache between two operations:
the empty cache (after a gc, a reordering, `clear`) is closed; evictions keep a cache closed;
store extension keeps a sound cache closed; operations that only add base-key entries
(`not`/`bin`/`ite`) and `restrict` entries keep it closed -/
theorem closed_cache_invariant (reg : Nat → List BDD) :
    (∀ s, ClosedX reg s []) ∧
    (∀ s c c', ClosedX reg s c → (∀ x, x ∈ c' → x ∈ c) → ClosedX reg s c') ∧
    (∀ s s' c, ClosedX reg s c → CacheOKX reg s c → s.Le s' → ClosedX reg s' c) ∧
    (∀ s s' c c', ClosedX reg s c → CacheOKX reg s c → s.Le s' → Grows IsBaseKey c c' →
      ClosedX reg s' c') ∧
    (∀ s f vars, ClosedEntry reg s (encKey (restrictKey f vars))) :=
  ⟨ClosedX.nil reg, fun _ _ _ h hs => h.sub hs, fun _ _ _ h hc hle => h.mono hc hle,
   fun _ _ _ _ h hc hle hg => h.grows_base hc hle hg, fun _ f vars => ClosedEntry.restrict f vars⟩

/-- non-vacuity: the cache after a quantification on `exS` is closed and stays closed after an
`and` on top of it -/
example :
    let W := (quantS Policy.exact .forall_ 10 10 ⟨exS, [], 0⟩ (.inner 2) (.inner 0)).1
    ClosedX reg0 W.store W.cache ∧
    ClosedX reg0 (applyS Policy.exact .and 10 W (.inner 1) (.inner 2)).1.store
      (applyS Policy.exact .and 10 W (.inner 1) (.inner 2)).1.cache := by
  intro W
  obtain ⟨P, C⟩ := quantS_canon Policy.exact_ok reg0 .forall_ 10 10 ⟨exS, [], 0⟩ (.inner 2) (.inner 0)
    exOr exX1 (exS_inv _) (ClosedX.nil _ _) exS_nored exS_or exS_x1 (by decide) (by decide +kernel)
  refine ⟨C, ?_⟩
  have PA := applyS_specX Policy.exact_ok reg0 .and 10 W (.inner 1) (.inner 2) exAnd exOr P.w.inv
    (exS_and.mono P.w.le) (exS_or.mono P.w.le) (by decide)
  exact (closed_cache_invariant reg0).2.2.2.1 _ _ _ _ C P.w.inv.2 PA.le
    (applyS_grows Policy.exact_ok .and 10 W _ _)


/-! ## histories -/

/-- **Every run of a history of cached operations computes the reference semantics.** A history is
a list of `not`/`bin`/`ite`/`quant`/`apply_quant`/`restrict`/`substitute` commands whose operands
are registers (initial edges and earlier results), interspersed with points at which the cache may
drop arbitrary entries. For every history there is a fuel bound `N` depending on the denoted trees
only such that every run — any admissible policy, any eviction choices, any sound initial cache,
any hash-consed initial store whose registers denote `envT` — keeps `Unique ∧ CacheOKX` (and
`NoRed`), only extends the store, and ends with registers denoting exactly the tree-level
`runAllT cs envT`. `ValidAllT` only says that each substitution id is used for the substitution it
is registered for. -/
theorem historyX_spec (reg : Nat → List BDD) (cs : List CmdX) (envT : List BDD)
    (hv : ValidAllT reg cs envT) :
    ∃ N, ∀ (cfg : CacheCfg), cfg.policy.OK → ∀ fuel, N ≤ fuel →
      ∀ (st : St) (env : List Edge), st.store.Unique → CacheOKX reg st.store st.cache →
        DenotesL st.store env envT →
        (runAllX cfg fuel cs (st, env)).1.store.Unique ∧
        CacheOKX reg (runAllX cfg fuel cs (st, env)).1.store (runAllX cfg fuel cs (st, env)).1.cache ∧
        st.store.Le (runAllX cfg fuel cs (st, env)).1.store ∧
        (st.store.NoRed → (runAllX cfg fuel cs (st, env)).1.store.NoRed) ∧
        DenotesL (runAllX cfg fuel cs (st, env)).1.store (runAllX cfg fuel cs (st, env)).2
          (runAllT cs envT) := by
  obtain ⟨N, h⟩ := Refine.historyX_spec reg cs envT hv
  refine ⟨N, fun cfg pok fuel hN st env hu hc henv => ?_⟩
  have P := h cfg pok fuel hN st env ⟨hu, hc⟩ henv
  exact ⟨P.inv.1, P.inv.2, P.le, P.nored, P.den⟩

/-- **History transparency.** Two runs of the same history with different admissible policies,
eviction choices, sound initial caches, time stamps and fuels (even from different hash-consed
stores whose registers denote the same trees): the registers of both runs denote, position by
position, the same trees; and in every common hash-consed extension of the two final stores the
two register lists are equal edge by edge. In particular a different operator, variable set, cube
or substitution on the same operands in between — just another history — cannot change a result. -/
theorem historyX_transparent (reg1 reg2 : Nat → List BDD) (cs : List CmdX) (envT : List BDD)
    (hv1 : ValidAllT reg1 cs envT) (hv2 : ValidAllT reg2 cs envT) :
    ∃ N, ∀ (cfg1 cfg2 : CacheCfg), cfg1.policy.OK → cfg2.policy.OK → ∀ fuel1 fuel2, N ≤ fuel1 →
      N ≤ fuel2 → ∀ (st1 st2 : St) (env1 env2 : List Edge),
        st1.store.Unique → CacheOKX reg1 st1.store st1.cache →
        st2.store.Unique → CacheOKX reg2 st2.store st2.cache →
        DenotesL st1.store env1 envT → DenotesL st2.store env2 envT →
        DenotesL (runAllX cfg1 fuel1 cs (st1, env1)).1.store (runAllX cfg1 fuel1 cs (st1, env1)).2
          (runAllT cs envT) ∧
        DenotesL (runAllX cfg2 fuel2 cs (st2, env2)).1.store (runAllX cfg2 fuel2 cs (st2, env2)).2
          (runAllT cs envT) ∧
        ∀ s', (runAllX cfg1 fuel1 cs (st1, env1)).1.store.Le s' →
          (runAllX cfg2 fuel2 cs (st2, env2)).1.store.Le s' → s'.Unique →
          (runAllX cfg1 fuel1 cs (st1, env1)).2 = (runAllX cfg2 fuel2 cs (st2, env2)).2 := by
  obtain ⟨N, h⟩ := Refine.historyX_transparent reg1 reg2 cs envT hv1 hv2
  exact ⟨N, fun cfg1 cfg2 ok1 ok2 f1 f2 h1 h2 st1 st2 e1 e2 u1 c1 u2 c2 d1 d2 =>
    h cfg1 cfg2 ok1 ok2 f1 f2 h1 h2 st1 st2 e1 e2 ⟨u1, c1⟩ ⟨u2, c2⟩ d1 d2⟩

/-- the registers of `exS`: `r0 = x1`, `r1 = x0∧x1`, `r2 = x0∨x1`, `r3 = ¬x1` -/
def exEnv : List Edge := [.inner 0, .inner 1, .inner 2, .inner 3]
def exEnvT : List BDD := [exX1, exAnd, exOr, exNX1]

theorem exEnv_ok : DenotesL exS exEnv exEnvT :=
  .cons exS_x1 (.cons exS_and (.cons exS_or (.cons exS_nx1 .nil)))

/-- superset then subset quantification on the same node, an eviction point, a restriction, an
apply-and-quantify, a substitution (`x0 ↦ ¬x1`, id 7), and base operations on earlier results -/
def exHistory : List CmdX :=
  [.quant .forall_ 2 1, .quant .forall_ 2 0, .cacheOp 0, .restrict 1 3,
   .applyQuant .exists_ .and 2 1 0, .subst 7 [(0, 3)] 2, .bin .and 5 7, .ite 5 0 3, .not 9]

/-- the registry: id 7 stands for `[¬x1]` -/
def exReg : Nat → List BDD := fun _ => [exNX1]

theorem exHistory_valid : ValidAllT exReg exHistory exEnvT := by
  refine ⟨trivial, trivial, trivial, trivial, trivial, ?_, trivial, trivial, trivial, trivial⟩
  show exReg 7 = substPrepare _
  decide +kernel

/-- the reference results: `⊥, x0, ⊥, x0, ⊤, x0, x0 ? x1 : ¬x1, ¬x0` -/
example : (runAllT exHistory exEnvT).drop 4 =
    [.leaf false, var 0, .leaf false, var 0, .leaf true, var 0,
     .node 0 exX1 exNX1, notVar 0] := by decide +kernel

/-- two concrete runs: ideal cache that keeps everything vs. a one-bucket direct-mapped cache
with failing locks that drops everything at the eviction point — same result edges here -/
example : (runAllX ⟨Policy.exact, fun _ _ => true⟩ 30 exHistory (⟨exS, [], 0⟩, exEnv)).2.drop 4 =
    [.term false, .inner 4, .term false, .inner 4, .term true, .inner 4, .inner 5, .inner 6] := by
  decide +kernel

example : (runAllX ⟨Policy.dm 1 (fun _ => 0) (fun t => t % 3 != 0), fun _ _ => false⟩ 30 exHistory
    (⟨exS, [], 7⟩, exEnv)).2.drop 4 =
    [.term false, .inner 4, .term false, .inner 4, .term true, .inner 4, .inner 5, .inner 6] := by
  decide +kernel

/-- non-vacuity of `historyX_spec` / `historyX_transparent`: their hypotheses hold for `exHistory`
on `exS` -/
example : ∃ fuel, DenotesL
    (runAllX ⟨Policy.exact, fun _ _ => true⟩ fuel exHistory (⟨exS, [], 0⟩, exEnv)).1.store
    (runAllX ⟨Policy.exact, fun _ _ => true⟩ fuel exHistory (⟨exS, [], 0⟩, exEnv)).2
    (runAllT exHistory exEnvT) := by
  obtain ⟨N, h⟩ := historyX_spec exReg exHistory exEnvT exHistory_valid
  exact ⟨N, (h ⟨Policy.exact, fun _ _ => true⟩ Policy.exact_ok N (Nat.le_refl _) ⟨exS, [], 0⟩ exEnv
    exS_unique (CacheOKX.nil _ _) exEnv_ok).2.2.2.2⟩

example : ∃ N : Nat, N = N :=
  have ⟨N, _⟩ := historyX_transparent exReg exReg exHistory exEnvT exHistory_valid exHistory_valid
  ⟨N, rfl⟩

end OxiddModel.Bdd.C04S
