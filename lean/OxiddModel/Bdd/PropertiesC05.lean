import OxiddModel.Bdd.Gc

/-!
# C05 — reference counts are exact; a collection frees exactly the unreferenced nodes

Property text: *"A stored node disappears only when neither a function handle nor another stored
node refers to it, and a garbage collection removes every such node and nothing else, so every
handle denotes the same function before and after any collection. The reference count reported for
a node equals the number of live handles plus stored parent edges pointing to it, and once all
handles are dropped a collection returns the manager to its initial node count."*

Model (`Store.lean`): the unique table is a duplicate-free list `S` of inner-node trees closed
under children; `rc hs S n` = live handles + stored parent edges; `gc hs numLevels S` is the single
top-down pass of `Manager::gc` (per level, `retain` the nodes whose count is non-zero; a removed
node releases its children, which are visited later in the same pass).

All theorems hold for **all** stores, handle lists and level counts satisfying `StoreWF`
(`Gc.lean`): `S.Nodup`, only inner nodes stored, `Closed S`, every stored node `Ordered`, every
stored level `< numLevels`, every inner handle stored. No bound on sizes.

Where `Ordered` is used: only in `parent_level_lt` (a stored parent lives on a strictly smaller
level than its child), which `gcLevel_step` needs to know that, when level `k` is visited, the fate
of every parent of a level-`k` node has already been decided. That is the reason a *single*
top-down pass suffices; `bottom_up_one_pass_not_enough` shows that the same pass with the levels
visited bottom-up leaves garbage behind.
-/
namespace OxiddModel.Bdd
open BDD

section
variable {hs S : List BDD} {numLevels : Nat}

/-! ## 1. the pass removes exactly the unreachable nodes -/

/-- **C05, "a garbage collection removes every such node and nothing else".** A node is in the
store after the collection iff it was stored before and is reachable from a live handle through
stored parent edges. Hence a node disappears *only when* neither a handle nor a surviving stored
node refers to it (`→`), and *every* such node disappears (`←`, contrapositive). -/
theorem gc_exact (wf : StoreWF hs numLevels S) (n : BDD) :
    n ∈ gc hs numLevels S ↔ n ∈ S ∧ Reach hs n :=
  mem_gc wf.inner wf.closed wf.ordered wf.levels wf.handles n

/-- The collected store as a list: the reachable stored nodes in their old order. -/
theorem gc_eq_filter (wf : StoreWF hs numLevels S) :
    gc hs numLevels S = S.filter (fun n => decide (n ∈ reachList hs)) :=
  gc_eq_filter_reachList wf.inner wf.closed wf.ordered wf.levels wf.handles

/-- **One pass is not enough bottom-up.** Store: `p = node 0 c ⊥` with child `c = node 1 ⊤ ⊥`, no
handles. Visiting level 1 first keeps `c` (its parent `p` still holds an edge), then level 0 removes
`p`; `c` is left behind although nothing refers to it. The top-down pass of `Manager::gc` removes
both; a second bottom-up pass would be needed. -/
theorem bottom_up_one_pass_not_enough :
    let c := BDD.node 1 (.leaf true) (.leaf false)
    let p := BDD.node 0 c (.leaf false)
    gcLevels [] (List.range 2).reverse [p, c] = [c] ∧
    gcLevels [] (List.range 2) [p, c] = [] ∧
    gcLevels [] (List.range 2).reverse (gcLevels [] (List.range 2).reverse [p, c]) = [] := by
  decide

/-! ## 2. the collected store is a well-formed sub-store; live diagrams are untouched -/

/-- the collection only removes nodes and keeps the order of the rest (no hypotheses) -/
theorem gc_sublist (hs : List BDD) (numLevels : Nat) (S : List BDD) :
    (gc hs numLevels S).Sublist S :=
  gcLevels_sublist hs _ S

theorem gc_nodup (hn : S.Nodup) : (gc hs numLevels S).Nodup :=
  (gc_sublist hs numLevels S).nodup hn

/-- no dangling edges after the collection: children of surviving nodes survive -/
theorem gc_closed (wf : StoreWF hs numLevels S) : Closed (gc hs numLevels S) := by
  intro n hn c hc
  obtain ⟨hS, hr⟩ := (gc_exact wf n).mp hn
  rcases wf.closed n hS c hc with h | h
  · exact .inl h
  · exact .inr ((gc_exact wf c).mpr ⟨h, .kid hr hc⟩)

/-- all store hypotheses are preserved by a collection -/
theorem gc_wf (wf : StoreWF hs numLevels S) : StoreWF hs numLevels (gc hs numLevels S) where
  nodup := gc_nodup wf.nodup
  inner n hn := wf.inner n ((gc_sublist ..).subset hn)
  closed := gc_closed wf
  ordered n hn := wf.ordered n ((gc_sublist ..).subset hn)
  levels n hn := wf.levels n ((gc_sublist ..).subset hn)
  handles h hh := (wf.handles h hh).imp id fun hS => (gc_exact wf h).mpr ⟨hS, .root hh⟩

/-- **C05, "every handle denotes the same function before and after any collection".** Every inner
node of every live handle's diagram is still stored after the collection. In this model the tree
*is* the denotation of the handle (hash consing makes node and tree interchangeable), and `gc` does
not touch `hs`, so "same function" is trivial once no node of a live diagram is freed — which is
this statement. -/
theorem gc_handles_untouched (wf : StoreWF hs numLevels S) :
    ∀ h ∈ hs, ∀ n, Reach [h] n → n.isLeaf = false → n ∈ gc hs numLevels S := by
  intro h hh n hr hin
  have hr' : Reach hs n := hr.trans (.root hh)
  rcases reach_mem_store wf.closed wf.handles hr' with hl | hS
  · rw [hin] at hl; cases hl
  · exact (gc_exact wf n).mpr ⟨hS, hr'⟩

/-! ## 3. reference counts after the collection -/

theorem sum_map_filter_split {α} (f : α → Nat) (p : α → Bool) (l : List α) :
    (l.map f).sum = ((l.filter p).map f).sum + ((l.filter fun x => !p x).map f).sum := by
  induction l with
  | nil => rfl
  | cons a l ih =>
    cases h : p a <;> simp only [List.filter_cons, h, Bool.not_true, Bool.not_false, if_true,
      if_false, List.map_cons, List.sum_cons, Bool.false_eq_true] <;> omega

/-- **C05, "the reference count … equals the number of live handles plus stored parent edges".**
After the collection the count of `n` is the number of handles to `n` plus the edges from the
*reachable* stored parents only. -/
theorem gc_rc (wf : StoreWF hs numLevels S) (n : BDD) :
    rc hs (gc hs numLevels S) n =
      hs.count n +
        ((S.filter fun p => decide (p ∈ reachList hs)).map fun p => (kids p).count n).sum := by
  rw [gc_eq_filter wf, rc]

/-- … equivalently: the collection lowers the count of `n` by exactly the number of edges from the
removed (unreachable) parents. -/
theorem gc_rc_released (wf : StoreWF hs numLevels S) (n : BDD) :
    rc hs S n = rc hs (gc hs numLevels S) n +
      ((S.filter fun p => !decide (p ∈ reachList hs)).map fun p => (kids p).count n).sum := by
  rw [gc_rc wf, rc, sum_map_filter_split _ (fun p => decide (p ∈ reachList hs)) S]
  omega

/-- every node that survives a collection has a positive count -/
theorem gc_rc_pos (wf : StoreWF hs numLevels S) :
    ∀ n ∈ gc hs numLevels S, 0 < rc hs (gc hs numLevels S) n := by
  intro n hn
  obtain ⟨_, hr⟩ := (gc_exact wf n).mp hn
  rw [rc_pos]
  rcases hr.cases_parent with hm | ⟨p, hp, hk⟩
  · exact .inl hm
  · refine .inr ⟨p, (gc_exact wf p).mpr ⟨?_, hp⟩, hk⟩
    rcases reach_mem_store wf.closed wf.handles hp with hl | hS
    · rw [inner_of_mem_kids hk] at hl; cases hl
    · exact hS

/-- **C05, "a stored node disappears only when neither a function handle nor another stored node
refers to it".** A stored node is removed by the collection iff, in the store that remains, its
reference count is zero: no live handle and no surviving node points to it. -/
theorem gc_removed_iff (wf : StoreWF hs numLevels S) {n : BDD} (hn : n ∈ S) :
    n ∉ gc hs numLevels S ↔ rc hs (gc hs numLevels S) n = 0 := by
  constructor
  · intro hng
    have hnr : ¬ Reach hs n := fun hr => hng ((gc_exact wf n).mpr ⟨hn, hr⟩)
    rw [rc_eq_zero]
    exact ⟨fun hm => hnr (.root hm),
      fun p hp hk => hnr (.kid ((gc_exact wf p).mp hp).2 hk)⟩
  · intro h0 hg
    have := gc_rc_pos wf n hg
    omega

/-- a node that is unreferenced already before the collection is removed -/
theorem gc_removes_unreferenced (wf : StoreWF hs numLevels S) {n : BDD} (hn : n ∈ S)
    (h0 : rc hs S n = 0) : n ∉ gc hs numLevels S := by
  rw [gc_removed_iff wf hn]
  have := gc_rc_released wf n
  omega

/-- a second collection removes nothing -/
theorem gc_idem (wf : StoreWF hs numLevels S) :
    gc hs numLevels (gc hs numLevels S) = gc hs numLevels S := by
  rw [gc_eq_filter (gc_wf wf), List.filter_eq_self]
  intro a ha
  have hr := ((gc_exact wf a).mp ha)
  exact decide_eq_true ((mem_reachList hs a).mpr ⟨hr.2, wf.inner a hr.1⟩)

/-! ## 4. all handles dropped -/

/-- if all live handles are terminals the collection empties the store -/
theorem gc_leaf_handles (wf : StoreWF hs numLevels S) (hl : ∀ h ∈ hs, h.isLeaf = true) :
    gc hs numLevels S = [] := by
  apply List.eq_nil_iff_forall_not_mem.mpr
  intro n hn
  obtain ⟨hS, hr⟩ := (gc_exact wf n).mp hn
  have h1 := reach_of_leaf_handles hl hr
  rw [wf.inner n hS] at h1
  cases h1

/-- **C05, "once all handles are dropped a collection returns the manager to its initial node
count".** With no handles the store is empty after one collection (the initial node count of the
model's store, which holds inner nodes only). -/
theorem gc_all_dropped (wf : StoreWF [] numLevels S) : gc [] numLevels S = [] :=
  gc_leaf_handles wf (fun _ h => by cases h)

/-! ## 5. how many nodes are collected -/

/-- The number of collected nodes (`gc()`'s return value) is the number of stored nodes that are
not reachable from the handles. -/
theorem gc_count (wf : StoreWF hs numLevels S) :
    S.length - (gc hs numLevels S).length =
        (S.filter fun n => !decide (n ∈ reachList hs)).length ∧
    (gc hs numLevels S).length ≤ S.length ∧
    ∀ n, n ∈ (S.filter fun n => !decide (n ∈ reachList hs)) ↔ n ∈ S ∧ ¬ Reach hs n := by
  have h := length_filter_add_length_filter_not (fun n => decide (n ∈ reachList hs)) S
  rw [← gc_eq_filter wf] at h
  refine ⟨by omega, by omega, fun n => ?_⟩
  simp only [List.mem_filter, Bool.not_eq_true', decide_eq_false_iff_not, mem_reachList]
  constructor
  · rintro ⟨hS, hn⟩
    exact ⟨hS, fun hr => hn ⟨hr, wf.inner n hS⟩⟩
  · rintro ⟨hS, hn⟩
    exact ⟨hS, fun hr => hn hr.1⟩

/-! ## 6. `reachList` (what the driver's `dump` prints) is the store after a collection -/

/-- `reachList` enumerates, without repetition, exactly the inner nodes reachable from the
handles -/
theorem reachList_spec (hs : List BDD) :
    (∀ n, n ∈ reachList hs ↔ Reach hs n ∧ n.isLeaf = false) ∧ (reachList hs).Nodup :=
  ⟨mem_reachList hs, reachList_nodup hs⟩

/-- The store after a collection is a permutation of `reachList hs` (the unique table does not fix
an iteration order; the driver sorts its output). -/
theorem gc_perm_reachList (wf : StoreWF hs numLevels S) :
    (gc hs numLevels S).Perm (reachList hs) := by
  rw [List.perm_ext_iff_of_nodup (gc_nodup wf.nodup) (reachList_nodup hs)]
  intro n
  rw [gc_exact wf, mem_reachList]
  constructor
  · rintro ⟨hS, hr⟩
    exact ⟨hr, wf.inner n hS⟩
  · rintro ⟨hr, hin⟩
    rcases reach_mem_store wf.closed wf.handles hr with hl | hS
    · rw [hin] at hl; cases hl
    · exact ⟨hS, hr⟩

/-- the counts printed by `dump` (`rc hs (reachList hs) n`) are the counts in the collected store -/
theorem dump_rc (wf : StoreWF hs numLevels S) (n : BDD) :
    rc hs (reachList hs) n = rc hs (gc hs numLevels S) n :=
  (rc_perm (gc_perm_reachList wf) hs n).symm

/-! ## 7. clone / drop / new parent change the counts as the property says -/

/-- **clone**: a new handle to `h` increases the count of `h` by one and no other count. -/
theorem rc_after_clone (h : BDD) (hs S : List BDD) (n : BDD) :
    rc (h :: hs) S n = rc hs S n + (if h = n then 1 else 0) :=
  rc_cons_handle h hs S n

/-- **drop**: removing one occurrence of the live handle `h` decreases the count of `h` by one and
no other count. -/
theorem rc_after_drop (h : BDD) (hs S : List BDD) (n : BDD) (hm : h ∈ hs) :
    rc hs S n = rc (hs.erase h) S n + (if h = n then 1 else 0) :=
  rc_erase_handle h hs S n hm

/-- the two together, in the form asked for -/
theorem rc_after_clone_drop (h : BDD) (hs S : List BDD) (n : BDD) :
    rc (h :: hs) S n = rc hs S n + (if h = n then 1 else 0) ∧
    (h ∈ hs → rc (hs.erase h) S n = rc hs S n - (if h = n then 1 else 0)) := by
  refine ⟨rc_cons_handle h hs S n, fun hm => ?_⟩
  have := rc_erase_handle h hs S n hm
  omega

/-- **new stored node**: inserting `p ∉ S` into the unique table increases the count of each child
by its multiplicity among `p`'s edges and leaves every other count unchanged (the position in the
table is irrelevant by `rc_perm`). -/
theorem rc_parent (p : BDD) (hs S : List BDD) (_hp : p ∉ S) (n : BDD) :
    rc hs (p :: S) n = rc hs S n + (kids p).count n ∧
    (n ∉ kids p → rc hs (p :: S) n = rc hs S n) := by
  refine ⟨rc_cons_node p hs S n, fun hn => ?_⟩
  rw [rc_cons_node, List.count_eq_zero.mpr hn]
  rfl

end

/-! ## non-vacuity: a concrete store with garbage, shared nodes and a level-skipping edge -/

namespace Ex05
def a : BDD := .node 2 (.leaf true) (.leaf false)
def b : BDD := .node 1 a (.leaf false)
/-- root: `a` is shared between `b` and `c`; the else edge of `c` skips level 1 -/
def c : BDD := .node 0 b a
/-- garbage that refers to the shared live node `a` (level-skipping edge) -/
def g : BDD := .node 0 a (.leaf false)
/-- garbage that only dies after its parent `g3` has been removed in the same pass -/
def g2 : BDD := .node 1 (.leaf false) a
def g3 : BDD := .node 0 g2 (.leaf true)
def S : List BDD := [a, g2, c, g, b, g3]
def hs : List BDD := [c, .leaf true, c]

theorem wf : StoreWF hs 3 S where
  nodup := by decide
  inner := by decide
  closed := by unfold Closed; decide
  ordered n hn := ⟨0, orderedB_sound 0 n ((by decide : ∀ n ∈ S, orderedB 0 n = true) n hn)⟩
  levels n hn l hl := by
    have h : ∀ n ∈ S, ∀ l ∈ levelOf n, l < 3 := by decide
    exact h n hn l hl
  handles := by decide

theorem wf_dropped : StoreWF [] 3 S := { wf with handles := fun _ h => by cases h }

example : gc hs 3 S = [a, c, b] := by decide
example : g ∈ S ∧ g ∉ gc hs 3 S ∧ g2 ∉ gc hs 3 S ∧ g3 ∉ gc hs 3 S := by decide
example : rc hs S a = 4 ∧ rc hs (gc hs 3 S) a = 2 ∧ rc hs (gc hs 3 S) c = 2 := by decide
example : reachList hs = [c, b, a] := by decide
example : ¬ Reach hs g := fun h => by
  have := ((gc_exact wf g).mpr ⟨by decide, h⟩); revert this; decide
example := gc_exact wf
example := gc_eq_filter wf
example := gc_closed wf
example := gc_wf wf
example := gc_handles_untouched wf
example := gc_rc wf
example := gc_rc_released wf
example := gc_rc_pos wf
example := gc_idem wf
example := gc_removed_iff wf (n := g2) (by decide)
example : rc hs S g2 = 1 ∧ rc hs (gc hs 3 S) g2 = 0 := by decide
example := gc_removes_unreferenced wf (n := g3) (by decide) (by decide)
example := gc_count wf
example : S.length - (gc hs 3 S).length = 3 := by decide
example := gc_perm_reachList wf
example := dump_rc wf
example : gc [] 3 S = [] := gc_all_dropped wf_dropped
example : gc [.leaf false, .leaf true] 3 S = [] :=
  gc_leaf_handles { wf with handles := by decide } (by decide)
example : rc (c :: hs) S c = 3 ∧ rc (hs.erase c) S c = 1 ∧ rc hs S c = 2 := by decide
example : rc hs (g :: [a, c, b]) a = rc hs [a, c, b] a + 1 := (rc_parent g hs _ (by decide) a).1
end Ex05

end OxiddModel.Bdd
