import OxiddModel.Bdd.RcQLemmas
import OxiddModel.Bdd.RcQLemmasRc
import OxiddModel.Bdd.RcQHistory
import OxiddModel.Bdd.PropertiesC05R
import OxiddModel.Bdd.PropertiesC14Q
import OxiddModel.Bdd.PropertiesC04S

/-!
# C05 / C14 (C04, C13) — exact reference counters for quantification, apply-and-quantify, restrict, substitution, cube picking

`PropertiesC05R.lean` proves that `apply_not`, `apply_bin`, `apply_ite` keep
`rc = 1 + external references + stored parent edges` (`RcInv`) on success and on OutOfMemory at any
allocation point. Here the same is proved for the remaining recursive operations of the simple
BDD rules (`RcQ.lean` mirrors `quant`, `apply_quant`, `restrict`, `substitute_prepare`,
`substitute`, `substitute_edge`, `pick_cube_dd_edge`, `pick_cube_dd_set_edge` of
`crates/oxidd-rules-bdd/src/simple/apply_rec.rs` with every `clone_edge`, `drop_edge`,
`EdgeDropGuard`, `EdgeVecDropGuard` and `?`):

* `…_rc_exact`: success ⇒ `RcInv s' (result :: ext)`, OutOfMemory ⇒ `RcInv s' ext`, for every
  capacity, every fuel, every admissible cache policy, all operands pointing to stored nodes;
  for `substitute_edge` the edges of the substitution object are among `ext` and stay owned;
* `…_erase`: forgetting the counters these runs **are** `quantC`, `applyQuantC`, `restrictC`,
  `substituteEdgeC` of `ThresholdQ.lean`; hence `…_correct` (C04: the result denotes the
  tree-level function) and the exact OutOfMemory thresholds of `PropertiesC14Q.lean` hold for the
  counted runs (`quantR_oom_iff_needed`);
* `rc_history_q`: histories mixing all operations with `clone`/`drop`/`gc`/`mksubst`/`dropsubst`;
* `applyQuant_leak_violates_rcinv`: the seeded pattern (collapsed operand held as a plain edge
  across the failing `quant`) violates `RcInv` on a concrete store.
-/
namespace OxiddModel.Bdd.C05Q
open OxiddModel.Bdd OxiddModel.Bdd.BDD OxiddModel.Bdd.Refine OxiddModel.Bdd.Rc
open OxiddModel.Bdd.C05R (rcCheck rcCheck_of_inv rcinv_empty eq_of_fst)

/-! ## exact counters -/

/-- **`quantR_rc_exact`** (`quant::<Q>`, `Q` ∈ ∀, ∃, ∃!). Operands borrowed; after a successful
run the counters are exact for the caller's references plus the result, after OutOfMemory — in a
recursive call, in the inner `apply_bin::<Q>` (the two guarded sub-results are released by the
`?`), or in `reduce` — for the caller's references alone. -/
theorem quantR_rc_exact {p : Policy} (pok : p.OK) (cap : Nat) (q : Quant) (af fuel : Nat) (r : RSt)
    (f vars : Edge) (ext : List Edge) (h : RcInv r ext) (hf : r.st.store.has f)
    (hv : r.st.store.has vars) :
    match quantR cap p q af fuel r f vars with
    | (some x, r') => RcInv r' (x :: ext)
    | (none, r') => RcInv r' ext := (quantR_rc pok cap q af fuel r f vars ext h hf hv).2

/-- **`restrictR_rc_exact`** (`restrict`: the borrowed tail-recursive walk with its single
`clone_edge`, cache, `rec.binary`, `reduce`). -/
theorem restrictR_rc_exact {p : Policy} (pok : p.OK) (cap : Nat) (fuel : Nat) (r : RSt)
    (f vars : Edge) (ext : List Edge) (h : RcInv r ext) (hf : r.st.store.has f)
    (hv : r.st.store.has vars) :
    match restrictR cap p fuel r f vars with
    | (some x, r') => RcInv r' (x :: ext)
    | (none, r') => RcInv r' ext := (restrictR_rc pok cap fuel r f vars ext h hf hv).2

/-- **`applyQuantR_rc_exact`** (`apply_quant::<Q, OP>`, all 3 × 8 combinations): the collapsed
operand of `Operation::Done` / the result of `apply_not` for `Operation::Not` is guarded while
`quant` runs, so it is released when `quant` fails; the early exits to `apply_bin::<OP>`; the
recursion with `apply_bin::<Q>` on borrowed guards or `reduce`. -/
theorem applyQuantR_rc_exact {p : Policy} (pok : p.OK) (cap : Nat) (q : Quant) (op : Op)
    (af fuel : Nat) (r : RSt) (f g vars : Edge) (ext : List Edge) (h : RcInv r ext)
    (hf : r.st.store.has f) (hg : r.st.store.has g) (hv : r.st.store.has vars) :
    match applyQuantR cap p q op af fuel r f g vars with
    | (some x, r') => RcInv r' (x :: ext)
    | (none, r') => RcInv r' ext := (applyQuantR_rc pok cap q op af fuel r f g vars ext h hf hg hv).2

/-- **`substPrepareR_rc_exact`** (`substitute_prepare`): on success every edge of the vector is
owned (clones of the replacements, variable nodes created on the way); when `get_or_insert` fails
at any level, everything collected so far has been released. -/
theorem substPrepareR_rc_exact (cap : Nat) (pairs : List (Nat × Edge)) (ls : List Nat) (r : RSt)
    (ext : List Edge) (h : RcInv r ext)
    (hp : ∀ l rep, pairs.lookup l = some rep → r.st.store.has rep) :
    match prepLoopR cap pairs ls r with
    | (some sv, r') => RcInv r' (sv ++ ext)
    | (none, r') => RcInv r' ext := (prepLoopR_rc cap pairs ls r ext h hp).2

/-- **`substituteR_rc_exact`** (`substitute` with a borrowed vector). -/
theorem substituteR_rc_exact {p : Policy} (pok : p.OK) (cap : Nat) (subst : List Edge) (id : Nat)
    (af fuel : Nat) (r : RSt) (f : Edge) (ext : List Edge) (h : RcInv r ext)
    (hf : r.st.store.has f) (hs : ∀ e ∈ subst, r.st.store.has e) :
    match substituteR cap p subst id af fuel r f with
    | (some x, r') => RcInv r' (x :: ext)
    | (none, r') => RcInv r' ext := (substituteR_rc pok cap subst id af fuel r f ext h hf hs).2

/-- **`substituteEdgeR_rc_exact`** (`substitute_edge` = prepare + substitute + drop of the
vector). The replacement edges of the substitution object are among the caller's references `ext`
(`hp`); they are in `ext` afterwards as well: the object keeps owning them, whether the call
succeeds or fails in the preparation or in the substitution. -/
theorem substituteEdgeR_rc_exact {p : Policy} (pok : p.OK) (cap : Nat) (pairs : List (Nat × Edge))
    (id : Nat) (af fuel : Nat) (r : RSt) (f : Edge) (ext : List Edge) (h : RcInv r ext)
    (hf : r.st.store.has f) (hp : ∀ pr ∈ pairs, pr.2 ∈ ext) :
    match substituteEdgeR cap p pairs id af fuel r f with
    | (some x, r') => RcInv r' (x :: ext)
    | (none, r') => RcInv r' ext :=
  (substituteEdgeR_rc pok cap pairs id af fuel r f ext h hf
    (fun l rep hl => h.ext_ok rep (hp (l, rep) (Refine.lookup_mem hl)))).2

/-- **`pickCubeDDR_rc_exact`** (`pick_cube_dd`): the cube is built bottom-up with
`get_or_insert`; the sub-cube is guarded until then. -/
theorem pickCubeDDR_rc_exact (cap : Nat) (choice : Nat → Bool) (fuel : Nat) (r : RSt) (f : Edge)
    (ext : List Edge) (h : RcInv r ext) (hf : r.st.store.has f) :
    match pickCubeDDR cap choice fuel r f with
    | (some x, r') => RcInv r' (x :: ext)
    | (none, r') => RcInv r' ext := (pickCubeDDR_rc cap choice fuel r f ext h hf).2

/-- **`pickCubeDDSetR_rc_exact`** (`pick_cube_dd_set`). -/
theorem pickCubeDDSetR_rc_exact (cap : Nat) (af fuel : Nat) (r : RSt) (f ls : Edge)
    (ext : List Edge) (h : RcInv r ext) (hf : r.st.store.has f) (hl : r.st.store.has ls) :
    match pickCubeDDSetR cap af fuel r f ls with
    | (some x, r') => RcInv r' (x :: ext)
    | (none, r') => RcInv r' ext := (pickCubeDDSetR_rc cap af fuel r f ls ext h hf hl).2

/-- `get_or_insert` with owned children (no reduction test) -/
theorem getOrInsertR_rc_exact (cap : Nat) (r : RSt) (l : Nat) (t e : Edge) (ext : List Edge)
    (h : RcInv r (t :: e :: ext)) :
    match getOrInsertR cap r l t e with
    | (some x, r') => RcInv r' (x :: ext)
    | (none, r') => RcInv r' ext := getOrInsertR_rc h

/-! ## erasure: without the counters these are the algorithms of `ThresholdQ.lean` -/

theorem fst_snd_of_erase {R : Option Edge × RSt} {C : Option Edge × St} (h : erase R = C) :
    R.1 = C.1 ∧ R.2.st = C.2 := ⟨congrArg Prod.fst h, congrArg Prod.snd h⟩

/-- **`quantR_erase`.** Same result (edge or OutOfMemory), same store, same cache, same time
stamp as `quantC` — for all inputs. -/
theorem quantR_erase (cap : Nat) (p : Policy) (q : Quant) (af fuel : Nat) (r : RSt) (f vars : Edge) :
    (quantR cap p q af fuel r f vars).1 = (quantC cap p q af fuel r.st f vars).1 ∧
    (quantR cap p q af fuel r f vars).2.st = (quantC cap p q af fuel r.st f vars).2 :=
  fst_snd_of_erase (quantR_erase' cap p q af fuel r f vars)

theorem restrictR_erase (cap : Nat) (p : Policy) (fuel : Nat) (r : RSt) (f vars : Edge) :
    (restrictR cap p fuel r f vars).1 = (restrictC cap p fuel r.st f vars).1 ∧
    (restrictR cap p fuel r f vars).2.st = (restrictC cap p fuel r.st f vars).2 :=
  fst_snd_of_erase (restrictR_erase' cap p fuel r f vars)

theorem applyQuantR_erase (cap : Nat) (p : Policy) (q : Quant) (op : Op) (af fuel : Nat) (r : RSt)
    (f g vars : Edge) :
    (applyQuantR cap p q op af fuel r f g vars).1 = (applyQuantC cap p q op af fuel r.st f g vars).1 ∧
    (applyQuantR cap p q op af fuel r f g vars).2.st = (applyQuantC cap p q op af fuel r.st f g vars).2 :=
  fst_snd_of_erase (applyQuantR_erase' cap p q op af fuel r f g vars)

theorem substituteEdgeR_erase (cap : Nat) (p : Policy) (pairs : List (Nat × Edge)) (id : Nat)
    (af fuel : Nat) (r : RSt) (f : Edge) :
    (substituteEdgeR cap p pairs id af fuel r f).1 = (substituteEdgeC cap p pairs id af fuel r.st f).1 ∧
    (substituteEdgeR cap p pairs id af fuel r f).2.st = (substituteEdgeC cap p pairs id af fuel r.st f).2 :=
  fst_snd_of_erase (substituteEdgeR_erase' cap p pairs id af fuel r f)

/-! ## transfer of C04S (what the result denotes) and C14Q (when OutOfMemory is reported) -/

theorem run_eq_of_ok {cap : Nat} {s : Store} {RR : Option Edge × RSt} {RC : Option Edge × St}
    {RS : St × Edge} (he : RR.1 = RC.1 ∧ RR.2.st = RC.2) (B : BothG cap s RC RS) {e : Edge}
    (hok : RR.1 = some e) : RS = (RR.2.st, e) := by
  have := (B.ok e (he.1 ▸ hok)).1
  rw [this, he.2]

/-- **`quantR_correct`.** A successful counted run of `quant` returns an edge denoting
`quant q a v`, whatever the cache and the capacity. -/
theorem quantR_correct {p : Policy} (pok : p.OK) (reg : Nat → List BDD) (cap : Nat) (q : Quant)
    (af fuel : Nat) (r : RSt) (f vars : Edge) (a v : BDD) (e : Edge) (hu : r.st.store.Unique)
    (hc : CacheOKX reg r.st.store r.st.cache) (hf : Denotes r.st.store f a)
    (hv : Denotes r.st.store vars v) (hfuel : a.size ≤ fuel) (haf : quantNeed q a v ≤ af)
    (hok : (quantR cap p q af fuel r f vars).1 = some e) :
    Denotes (quantR cap p q af fuel r f vars).2.st.store e (quant q a v) := by
  have hS := run_eq_of_ok (quantR_erase cap p q af fuel r f vars)
    (quantC_both cap p q af fuel r.st f vars) hok
  have := (C04S.quantS_spec pok reg q af fuel r.st f vars a v hu hc hf hv hfuel haf).1
  rw [hS] at this
  exact this

/-- **`restrictR_correct`.** -/
theorem restrictR_correct {p : Policy} (pok : p.OK) (reg : Nat → List BDD) (cap : Nat) (fuel : Nat)
    (r : RSt) (f vars : Edge) (a v : BDD) (e : Edge) (hu : r.st.store.Unique)
    (hc : CacheOKX reg r.st.store r.st.cache) (hf : Denotes r.st.store f a)
    (hv : Denotes r.st.store vars v) (hfuel : a.size + v.size ≤ fuel)
    (hok : (restrictR cap p fuel r f vars).1 = some e) :
    Denotes (restrictR cap p fuel r f vars).2.st.store e (restrict a v) := by
  have hS := run_eq_of_ok (restrictR_erase cap p fuel r f vars)
    (restrictC_both cap p fuel r.st f vars).toG hok
  have := (C04S.restrictS_spec pok reg fuel r.st f vars a v hu hc hf hv hfuel).1
  rw [hS] at this
  exact this

/-- **`applyQuantR_correct`.** `N` depends on the operand trees only. -/
theorem applyQuantR_correct (reg : Nat → List BDD) (q : Quant) (op : Op) (a b v : BDD) :
    ∃ N, ∀ (p : Policy), p.OK → ∀ (cap af fuel : Nat), N ≤ af → a.size + b.size ≤ fuel →
      ∀ (r : RSt) (f g vars e : Edge), r.st.store.Unique → CacheOKX reg r.st.store r.st.cache →
        Denotes r.st.store f a → Denotes r.st.store g b → Denotes r.st.store vars v →
        (applyQuantR cap p q op af fuel r f g vars).1 = some e →
        Denotes (applyQuantR cap p q op af fuel r f g vars).2.st.store e (applyQuant q op a b v) := by
  obtain ⟨N, h⟩ := C04S.applyQuantS_spec reg q op a b v
  refine ⟨N, fun p pok cap af fuel hN hfuel r f g vars e hu hc hf hg hv hok => ?_⟩
  have hS := run_eq_of_ok (applyQuantR_erase cap p q op af fuel r f g vars)
    (applyQuantC_both cap p q op af fuel r.st f g vars) hok
  have := (h p pok af fuel hN hfuel r.st f g vars hu hc hf hg hv).1
  rw [hS] at this
  exact this

/-- **`substituteEdgeR_correct`.** -/
theorem substituteEdgeR_correct {p : Policy} (pok : p.OK) (reg : Nat → List BDD) (cap : Nat)
    (pairs : List (Nat × Edge)) (pairsT : List (Nat × BDD)) (id af fuel : Nat) (r : RSt) (f : Edge)
    (a : BDD) (e : Edge) (hu : r.st.store.Unique) (hc : CacheOKX reg r.st.store r.st.cache)
    (hp : DenotesP r.st.store pairs pairsT) (hreg : reg id = substPrepare pairsT)
    (hf : Denotes r.st.store f a) (hfuel : a.size ≤ fuel)
    (haf : substNeed (substPrepare pairsT) a ≤ af)
    (hok : (substituteEdgeR cap p pairs id af fuel r f).1 = some e) :
    Denotes (substituteEdgeR cap p pairs id af fuel r f).2.st.store e
      (substitute (substPrepare pairsT) a) := by
  have hS := run_eq_of_ok (substituteEdgeR_erase cap p pairs id af fuel r f)
    (substituteEdgeC_both cap p pairs id af fuel r.st f) hok
  have := (C04S.substituteEdgeS_spec pok reg pairs pairsT id af fuel r.st f a hu hc hp hreg hf hfuel
    haf).1
  rw [hS] at this
  exact this

/-- **`quantR_oom_iff_needed`** (transfer of C14Q): the counted run reports OutOfMemory exactly
when the uncapped run needs more nodes than fit; and then the counters are exact for the
caller's references. -/
theorem quantR_oom_iff_needed {p : Policy} (pok : p.OK) (cap : Nat) (q : Quant) (af fuel : Nat)
    (r : RSt) (f vars : Edge) (ext : List Edge) (h : RcInv r ext) (hf : f ∈ ext) (hv : vars ∈ ext) :
    ((quantR cap p q af fuel r f vars).1 = none ↔
      0 < neededQuant p q af fuel r.st f vars ∧
        cap < r.st.store.count + neededQuant p q af fuel r.st f vars) ∧
    ((quantR cap p q af fuel r f vars).1 = none → RcInv (quantR cap p q af fuel r f vars).2 ext) := by
  refine ⟨?_, fun herr => ?_⟩
  · rw [(quantR_erase cap p q af fuel r f vars).1]
    exact C14T.quant_oom_iff_needed cap p q af fuel r.st f vars
  · have := quantR_rc_exact pok cap q af fuel r f vars ext h (h.ext_ok f hf) (h.ext_ok vars hv)
    cases hR : quantR cap p q af fuel r f vars with
    | mk o r' =>
      rw [hR] at this herr
      simp only at herr
      subst herr
      exact this

/-! ## histories -/

/-- **`rc_history_q`.** Starting from a state with exact counters (e.g. the empty manager), after
**every** sequence of commands — variable creation, `not`, binary operators, `ite`, `quant`,
`apply_quant`, `restrict`, `substitute` with a substitution object, `pick_cube_dd`,
`pick_cube_dd_set` (each under its own capacity: successful or failing with OutOfMemory
anywhere), `clone`, `drop`, `gc`, creation and drop of substitution objects — the counter of every
stored node equals `1 + handles + edges held by substitution objects + stored parent edges`. -/
theorem rc_history_q {p : Policy} (pok : p.OK) (cmds : List CmdQ) (h : HStQ)
    (hi : RcInv h.r h.owned) : RcInv (runAllQ p cmds h).r (runAllQ p cmds h).owned :=
  runAllQ_rc pok cmds h hi

theorem rc_history_q_empty {p : Policy} (pok : p.OK) (cmds : List CmdQ) :
    RcInv (runAllQ p cmds ⟨RSt.empty, [], []⟩).r (runAllQ p cmds ⟨RSt.empty, [], []⟩).owned :=
  rc_history_q pok cmds ⟨RSt.empty, [], []⟩ rcinv_empty

/-- the collection after any history keeps the counters exact, removes no node reachable from a
handle or from a substitution object, and every owned edge denotes what it denoted (no
orderedness needed) -/
theorem gc_history_sound_q {p : Policy} (pok : p.OK) (N : Nat) (cmds : List CmdQ) :
    let h := runAllQ p cmds ⟨RSt.empty, [], []⟩
    RcInv (gcR N h.r) h.owned ∧
    (∀ i, Reach h.r.st.store h.owned i → ∃ n, h.r.st.store.get? i = some n ∧
      (gcR N h.r).st.store.get? i = some n) ∧
    (∀ x T, x ∈ h.owned → Denotes h.r.st.store x T → Denotes (gcR N h.r).st.store x T) := by
  intro h
  obtain ⟨h1, _, _, h4, h5⟩ := C05R.gcR_sound N h.r h.owned (rc_history_q_empty pok cmds)
  exact ⟨h1, h4, h5⟩

/-
Full statements (not proved here):

  theorem gc_history_exact_q (pok : p.OK) (N) (cmds : List CmdQ) (hok : ∀ c ∈ cmds, c.OK N) :
      let h := runAllQ p cmds ⟨RSt.empty, [], []⟩
      RcInv (gcR N h.r) h.owned ∧
      (∀ i, (∃ n, (gcR N h.r).st.store.get? i = some n) ↔ Reach h.r.st.store h.owned i) ∧ …
  theorem all_dropped_empty_q … (h.hs = [] ∧ h.ss = []) → (gcR N h.r).st.store.count = 0

i.e. without the hypotheses `ho`/`hl` below. What is missing is that the store stays *ordered*
(children on strictly larger levels, levels `< N`) along histories with the new operations. For
`not`/binary/`ite` this is `ord_history` of `PropertiesC05R.lean`; its cache invariant `CacheLv`
(`RcSLemmasOrd.lean`: every operand of a cache key is a stored node and bounds the level of the
cached result) does not survive the extended keys: `encKey` puts the operator code, the arity and
the substitution identifier into the operand list, and the result of `substitute` is not bounded
by the level of its operand. A key-format aware invariant and the level lemmas for the new
operations are not done. The counters (`rc_history_q`) and the soundness of the collection
(`gc_history_sound_q`) do not depend on it.
-/

/-- **`gc_history_exact_q_partial`.** After any history (all operations, succeeding or failing,
clones, drops, collections, substitution objects created and dropped): if the store is ordered
with all levels `< N`, the collection keeps **exactly** the nodes reachable from the live handles
and from the replacement functions of the live substitution objects, with exact counters, and
every owned edge denotes what it denoted. -/
theorem gc_history_exact_q_partial {p : Policy} (pok : p.OK) (N : Nat) (cmds : List CmdQ)
    (ho : (runAllQ p cmds ⟨RSt.empty, [], []⟩).r.st.store.Ordered)
    (hl : ∀ i n, (runAllQ p cmds ⟨RSt.empty, [], []⟩).r.st.store.get? i = some n → n.level < N) :
    let h := runAllQ p cmds ⟨RSt.empty, [], []⟩
    RcInv (gcR N h.r) h.owned ∧
    (∀ i, (∃ n, (gcR N h.r).st.store.get? i = some n) ↔ Reach h.r.st.store h.owned i) ∧
    (∀ i n, (gcR N h.r).st.store.get? i = some n → h.r.st.store.get? i = some n) ∧
    (∀ x T, x ∈ h.owned → Denotes h.r.st.store x T → Denotes (gcR N h.r).st.store x T) := by
  intro h
  exact C05R.gcR_exact N h.r h.owned (rc_history_q_empty pok cmds) ho hl

/-- **`all_dropped_empty_q_partial`.** After any history that ends with no handle and no
substitution object, the collection (of an ordered store) empties the store. -/
theorem all_dropped_empty_q_partial {p : Policy} (pok : p.OK) (N : Nat) (cmds : List CmdQ)
    (hnone : (runAllQ p cmds ⟨RSt.empty, [], []⟩).hs = [] ∧ (runAllQ p cmds ⟨RSt.empty, [], []⟩).ss = [])
    (ho : (runAllQ p cmds ⟨RSt.empty, [], []⟩).r.st.store.Ordered)
    (hl : ∀ i n, (runAllQ p cmds ⟨RSt.empty, [], []⟩).r.st.store.get? i = some n → n.level < N) :
    (gcR N (runAllQ p cmds ⟨RSt.empty, [], []⟩).r).st.store.count = 0 := by
  have hi := rc_history_q_empty pok cmds
  have ho' : (runAllQ p cmds ⟨RSt.empty, [], []⟩).owned = [] := by
    simp [HStQ.owned, hnone.1, hnone.2, substEdges]
  rw [ho'] at hi
  exact (C05R.all_dropped_empty N _ hi ho hl).2

/-! ## negative witness: the seeded defect `R4-C14-applyquant-collapsed-operand-leak` -/

/-- a full manager (capacity 2): `x1` (#0, also the variable set `{x1}`) and `x0 ∧ x1` (#1), one
handle each -/
def exLeak : RSt :=
  ⟨⟨⟨#[some ⟨1, .term true, .term false⟩, some ⟨0, .inner 0, .term false⟩]⟩, [], 0⟩, #[3, 2]⟩

def exLeakHandles : List Edge := [.inner 1, .inner 0]

example : rcCheck exLeak exLeakHandles = true := by decide +kernel

/-- `∃x1. (f ∧ f)` for `f = x0 ∧ x1`: `terminal_bin` collapses `f ∧ f` to (a clone of) `f`; the
quantification needs the new node `x0` and fails. The real code holds the clone in a guard:
exact counters after the error. -/
example : (applyQuantR 2 Policy.exact .exists_ .and 10 10 exLeak (.inner 1) (.inner 1) (.inner 0)).1 = none ∧
    rcCheck (applyQuantR 2 Policy.exact .exists_ .and 10 10 exLeak (.inner 1) (.inner 1) (.inner 0)).2
      exLeakHandles = true := by decide +kernel

/-- **`applyQuant_leak_violates_rcinv`.** With the collapsed operand held as a plain edge across
`quant(..)?` (`applyQuantLeak`) the invariant is violated after the failed call: `x0 ∧ x1` keeps a
reference nobody owns. -/
theorem applyQuant_leak_violates_rcinv :
    (applyQuantLeak 2 Policy.exact .exists_ .and 10 10 exLeak (.inner 1) (.inner 1) (.inner 0)).1 = none ∧
    ¬ RcInv (applyQuantLeak 2 Policy.exact .exists_ .and 10 10 exLeak (.inner 1) (.inner 1) (.inner 0)).2
      exLeakHandles := by
  refine ⟨by decide +kernel, fun h => ?_⟩
  have := rcCheck_of_inv h
  revert this
  decide +kernel

/-- with enough room both versions agree (the defect shows only on the error path) -/
example :
    (applyQuantLeak 3 Policy.exact .exists_ .and 10 10 exLeak (.inner 1) (.inner 1) (.inner 0)).1 =
      (applyQuantR 3 Policy.exact .exists_ .and 10 10 exLeak (.inner 1) (.inner 1) (.inner 0)).1 ∧
    (applyQuantLeak 3 Policy.exact .exists_ .and 10 10 exLeak (.inner 1) (.inner 1) (.inner 0)).2.rc =
      (applyQuantR 3 Policy.exact .exists_ .and 10 10 exLeak (.inner 1) (.inner 1) (.inner 0)).2.rc ∧
    (applyQuantR 3 Policy.exact .exists_ .and 10 10 exLeak (.inner 1) (.inner 1) (.inner 0)).1 =
      some (.inner 2) := by
  decide +kernel

/-! ## non-vacuity: a history with failing and succeeding new operations -/

/-- `x0`, `x1`, `x0 ∧ x1`, drop `x0`, gc (store: `x1`, `x0 ∧ x1`); `∃x1. x0∧x1` under capacity 2
(fails: needs the node `x0`), under capacity 3 (succeeds); a substitution object `[x1 ↦ x0]`
(a clone of the handle of `x0`); `(x0 ∧ x1)[x1 := x0]` under capacity 3 (fails in
`substitute_prepare`: the variable node for level 0 exists, the result is `x0`, but …) and 9;
`pick_cube_dd`; `restrict`; drop the object; drop all handles; gc -/
def exCmds : List CmdQ :=
  [.base (.var 3 0 false), .base (.var 3 1 false), .base (.bin 3 10 .and 1 0), .base (.drop 2),
   .base (.gc 2),
   .quant 2 10 10 .exists_ 0 1, .quant 3 10 10 .exists_ 0 1,
   .mksubst [(1, 0)], .subst 3 10 10 7 1 0, .subst 9 10 10 7 1 0,
   .applyq 9 10 10 .forall_ .or 2 1 2, .restrict 9 10 2 3, .pick 9 10 (fun _ => true) 3,
   .pickset 9 10 10 4 4,
   .dropsubst 0]

def exRun (k : Nat) : HStQ := runAllQ Policy.exact (exCmds.take k) ⟨RSt.empty, [], []⟩

/-- after the failed quantification: nothing changed -/
example : (exRun 6).hs = [.inner 2, .inner 1] ∧ (exRun 6).r.rc = #[1, 3, 2] ∧
    (exRun 6).r.st.store.count = 2 := by decide +kernel

/-- after the successful one: the node `x0` is back (slot 0), with one handle -/
example : (exRun 7).hs = [.inner 0, .inner 2, .inner 1] ∧ (exRun 7).r.rc = #[2, 3, 2] := by
  decide +kernel

/-- the substitution object owns a clone of `x0` -/
example : (exRun 8).ss = [[(1, .inner 0)]] ∧ (exRun 8).r.rc = #[3, 3, 2] ∧
    (exRun 8).owned = [.inner 0, .inner 2, .inner 1, .inner 0] := by decide +kernel

example : ∀ k, k ≤ 15 → RcInv (exRun k).r (exRun k).owned :=
  fun _ _ => rc_history_q_empty Policy.exact_ok _

/-- at the end: the object is gone, the counters are those of handles and parents alone -/
example : (exRun 15).ss = [] ∧
    rcCheck (exRun 15).r (exRun 15).hs = true := by decide +kernel

/-- `quantR_rc_exact` and `quantR_oom_iff_needed` apply to the failing step -/
example : (quantR 2 Policy.exact .exists_ 10 10 (exRun 5).r (.inner 2) (.inner 1)).1 = none ∧
    RcInv (quantR 2 Policy.exact .exists_ 10 10 (exRun 5).r (.inner 2) (.inner 1)).2 (exRun 5).owned := by
  have hi : RcInv (exRun 5).r (exRun 5).owned := rc_history_q_empty Policy.exact_ok _
  have ho : (exRun 5).owned = [.inner 2, .inner 1] := by decide +kernel
  have hn : (quantR 2 Policy.exact .exists_ 10 10 (exRun 5).r (.inner 2) (.inner 1)).1 = none := by
    decide +kernel
  refine ⟨hn, (quantR_oom_iff_needed Policy.exact_ok 2 .exists_ 10 10 (exRun 5).r (.inner 2) (.inner 1)
    _ hi (by rw [ho]; simp) (by rw [ho]; simp)).2 hn⟩

/-- the hypotheses of the two `_partial` theorems hold for the example history followed by
`dropall`; the collection then empties the store -/
def exCmdsEnd : List CmdQ :=
  exCmds ++ List.replicate 12 (.base (.drop 0))

example : (runAllQ Policy.exact exCmdsEnd ⟨RSt.empty, [], []⟩).hs = [] ∧
    (runAllQ Policy.exact exCmdsEnd ⟨RSt.empty, [], []⟩).ss = [] ∧
    orderedB (runAllQ Policy.exact exCmdsEnd ⟨RSt.empty, [], []⟩).r.st.store = true ∧
    0 < (runAllQ Policy.exact exCmdsEnd ⟨RSt.empty, [], []⟩).r.st.store.count ∧
    (gcR 2 (runAllQ Policy.exact exCmdsEnd ⟨RSt.empty, [], []⟩).r).st.store.count = 0 := by
  decide +kernel

end OxiddModel.Bdd.C05Q
