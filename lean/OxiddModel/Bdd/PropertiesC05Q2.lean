import OxiddModel.Bdd.PropertiesC05Q
import OxiddModel.Bdd.RcQLemmasOrd3

/-!
# C05 — the collection is exact after every history with quantification, restrict, substitution, cube picking

`PropertiesC05Q.lean` left `gc_history_exact_q` / `all_dropped_empty_q` as `…_partial` theorems with
the hypothesis "the store reached is ordered with levels `< N`". That hypothesis is proved here for
**every** history of `CmdQ` commands: `ord_history_q`. The invariant that makes the induction go
through is `OrdInvX` (`RcQLemmasOrd.lean`): ordered + levels `< N` + a cache invariant that reads
the *format* of the extended keys (`boundOps`): operator code, arity and substitution id are no
operands; the variable set of `quant`/`apply_quant`/`restrict` bounds nothing; the key of
`substitute` bounds nothing at all (the replacement functions are arbitrary), its cached result
just has to be a stored node.

* `ord_history_q`: after every history from the empty manager `RcInv` and `OrdInvX N` hold;
* `gc_history_exact_q`: the collection leaves **exactly** the nodes reachable from the handles and
  from the replacement functions of the live substitution objects;
* `all_dropped_empty_q`: with no handle and no substitution object left it empties the store;
* `ord_step_q`: the single-command form (any start state satisfying the invariants);
* `subst_level_hypothesis_needed`: the hypothesis on `mksubst` cannot be dropped;
* `cacheLv_fails_on_extended_keys`: the invariant `CacheLv` of `RcSLemmasOrd.lean` is false after
  a single `quant` (why the old proof could not be extended as it was).

The only hypothesis is `CmdQ.OK N`: variables are created, and substitution objects are built, on
levels `< N` (`N` = the number of levels `Manager::gc` walks over) — as in `gc_history_exact` of
`PropertiesC05R.lean` for the old commands.
-/
namespace OxiddModel.Bdd.C05Q
open OxiddModel.Bdd OxiddModel.Bdd.BDD OxiddModel.Bdd.Refine OxiddModel.Bdd.Rc
open OxiddModel.Bdd.C05R (rcinv_empty)

/-- **`ord_step_q`.** One command — any of the old ones, `quant`, `applyq`, `restrict`, `mksubst`,
`dropsubst`, `subst`, `pick`, `pickset`, succeeding or failing with OutOfMemory anywhere — keeps
exact counters, the ordered store with levels `< N` and the level-aware cache invariant. -/
theorem ord_step_q {p : Policy} (pok : p.OK) {N : Nat} (c : CmdQ) (hc : c.OK N) (h : HStQ)
    (hi : RcInv h.r h.owned) (ho : OrdInvX N h.r) (hs : SubstLv N h.ss) :
    RcInv (c.run p h).r (c.run p h).owned ∧ OrdInvX N (c.run p h).r ∧ SubstLv N (c.run p h).ss :=
  ⟨CmdQ.run_rc pok c h hi, CmdQ.run_ordX pok c hc h hi ho hs⟩

/-- **`ord_history_q`.** After every history from the empty manager the counters are exact and
the store is ordered (children on strictly larger levels), all levels are `< N`. -/
theorem ord_history_q {p : Policy} (pok : p.OK) (N : Nat) (cmds : List CmdQ)
    (hok : ∀ c ∈ cmds, c.OK N) :
    let h := runAllQ p cmds ⟨RSt.empty, [], []⟩
    RcInv h.r h.owned ∧ OrdInvX N h.r ∧ h.r.st.store.Ordered ∧
      ∀ i n, h.r.st.store.get? i = some n → n.level < N := by
  intro h
  obtain ⟨h1, h2, _⟩ := runAllQ_ordX pok cmds ⟨RSt.empty, [], []⟩ hok rcinv_empty (ordinvX_empty N)
    (fun ps hps => by cases hps)
  exact ⟨h1, h2, h2.ord, h2.bound⟩

/-- **`gc_history_exact_q`.** After *any* history — variables, `not`, binary operators, `ite`,
`quant`, `apply_quant`, `restrict`, `substitute` with substitution objects, `pick_cube_dd`,
`pick_cube_dd_set` (each under its own capacity: succeeding or failing with OutOfMemory at any
allocation point), `clone`, `drop`, earlier collections, creation and drop of substitution
objects — a collection over the `N` levels keeps **exactly** the nodes reachable from the live
handles and from the replacement functions of the live substitution objects, with exact counters,
and every owned edge denotes what it denoted. No hypothesis on the state reached is left. -/
theorem gc_history_exact_q {p : Policy} (pok : p.OK) (N : Nat) (cmds : List CmdQ)
    (hok : ∀ c ∈ cmds, c.OK N) :
    let h := runAllQ p cmds ⟨RSt.empty, [], []⟩
    RcInv (gcR N h.r) h.owned ∧
    (∀ i, (∃ n, (gcR N h.r).st.store.get? i = some n) ↔ Reach h.r.st.store h.owned i) ∧
    (∀ i n, (gcR N h.r).st.store.get? i = some n → h.r.st.store.get? i = some n) ∧
    (∀ x T, x ∈ h.owned → Denotes h.r.st.store x T → Denotes (gcR N h.r).st.store x T) := by
  obtain ⟨_, _, ho, hl⟩ := ord_history_q pok N cmds hok
  exact gc_history_exact_q_partial pok N cmds ho hl

/-- **`all_dropped_empty_q`.** After any history that ends with no handle and no substitution
object, the collection empties the store: nothing any operation did — on a successful or on a
failing path — leaves a node behind. -/
theorem all_dropped_empty_q {p : Policy} (pok : p.OK) (N : Nat) (cmds : List CmdQ)
    (hok : ∀ c ∈ cmds, c.OK N)
    (hnone : (runAllQ p cmds ⟨RSt.empty, [], []⟩).hs = [] ∧ (runAllQ p cmds ⟨RSt.empty, [], []⟩).ss = []) :
    (gcR N (runAllQ p cmds ⟨RSt.empty, [], []⟩).r).st.store.count = 0 := by
  obtain ⟨_, _, ho, hl⟩ := ord_history_q pok N cmds hok
  exact all_dropped_empty_q_partial pok N cmds hnone ho hl

/-- the same from any start state that satisfies the invariants (e.g. the state after an earlier
history): exactness of the next collection -/
theorem gc_exact_from_q {p : Policy} (pok : p.OK) (N : Nat) (cmds : List CmdQ)
    (hok : ∀ c ∈ cmds, c.OK N) (h0 : HStQ) (hi : RcInv h0.r h0.owned) (ho : OrdInvX N h0.r)
    (hs : SubstLv N h0.ss) :
    let h := runAllQ p cmds h0
    RcInv (gcR N h.r) h.owned ∧
    (∀ i, (∃ n, (gcR N h.r).st.store.get? i = some n) ↔ Reach h.r.st.store h.owned i) := by
  intro h
  obtain ⟨h1, h2, _⟩ := runAllQ_ordX pok cmds h0 hok hi ho hs
  obtain ⟨a, b, _, _⟩ := C05R.gcR_exact N h.r h.owned h1 h2.ord h2.bound
  exact ⟨a, b⟩

/-! ## the old cache invariant does not survive the extended keys -/

/-- **`cacheLv_fails_on_extended_keys`.** After the successful `∃x1. x0 ∧ x1` of the example
history the cache holds the entry `(Not, [#13, #2, f, vars]) ↦ x0` (`13 = Exists as u8`); `CacheLv`
of `RcSLemmasOrd.lean` demands every operand of a key to be a stored node, and slot 13 does not
exist. (`OrdInvX` holds there: `ord_history_q`.) -/
theorem cacheLv_fails_on_extended_keys : ¬ CacheLv (exRun 7).r.st.store (exRun 7).r.st.cache := by
  intro h
  have hm : (encKey (quantKey .exists_ (.inner 2) (.inner 1)), Edge.inner 0) ∈ (exRun 7).r.st.cache := by
    decide +kernel
  obtain ⟨n, hn⟩ := (h _ _ hm).1 (.inner 13) (by decide)
  have hnone : (exRun 7).r.st.store.get? 13 = none := by decide +kernel
  rw [hnone] at hn
  cases hn

/-! ## the level hypothesis on substitution objects is needed -/

/-- one variable (level 0), a substitution object replacing **level 3**, one `subst` (its
`substitute_prepare` creates the variable nodes of levels 1 and 2), everything dropped -/
def exBadLevel : List CmdQ :=
  [.base (.var 9 0 false), .mksubst [(3, 0)], .subst 9 10 10 7 0 0, .dropsubst 0,
   .base (.drop 0), .base (.drop 0)]

/-- **`subst_level_hypothesis_needed`.** Without `CmdQ.OK N` for `mksubst` the statement is false:
with `N = 2` levels walked by the collection and a substitution object on level 3 (in the real
code impossible: `Subst::new` takes variable *functions*, which live on existing levels) the
variable node of level 2 created by `substitute_prepare` is never visited, and the store is not
empty after everything was dropped. -/
theorem subst_level_hypothesis_needed :
    (runAllQ Policy.exact exBadLevel ⟨RSt.empty, [], []⟩).hs = [] ∧
    (runAllQ Policy.exact exBadLevel ⟨RSt.empty, [], []⟩).ss = [] ∧
    (gcR 2 (runAllQ Policy.exact exBadLevel ⟨RSt.empty, [], []⟩).r).st.store.count = 1 ∧
    (gcR 4 (runAllQ Policy.exact exBadLevel ⟨RSt.empty, [], []⟩).r).st.store.count = 0 := by
  decide +kernel

/-! ## non-vacuity -/

theorem exCmds_ok : ∀ c ∈ exCmds, c.OK 2 := by
  intro c hc
  simp only [exCmds, List.mem_cons, List.mem_nil_iff, or_false] at hc
  rcases hc with rfl | rfl | rfl | rfl | rfl | rfl | rfl | rfl | rfl | rfl | rfl | rfl | rfl | rfl | rfl <;>
    simp [CmdQ.OK, Cmd.OK]

theorem exCmdsEnd_ok : ∀ c ∈ exCmdsEnd, c.OK 2 := by
  intro c hc
  rcases List.mem_append.mp hc with hc | hc
  · exact exCmds_ok c hc
  · rw [List.eq_of_mem_replicate hc]; trivial

/-- the example history of `PropertiesC05Q.lean` (failing and succeeding `quant`, a substitution
object, `subst` under two capacities, `applyq`, `restrict`, `pick`, `pickset`, `dropsubst`)
followed by dropping every handle: the theorem — not an evaluation — says the collection empties
the store; the store was not empty before -/
example : 0 < (runAllQ Policy.exact exCmdsEnd ⟨RSt.empty, [], []⟩).r.st.store.count ∧
    (gcR 2 (runAllQ Policy.exact exCmdsEnd ⟨RSt.empty, [], []⟩).r).st.store.count = 0 :=
  ⟨by decide +kernel,
   all_dropped_empty_q Policy.exact_ok 2 exCmdsEnd exCmdsEnd_ok ⟨by decide +kernel, by decide +kernel⟩⟩

/-- the example up to step 14 (a live substitution object `[x1 ↦ x0]`), then every handle dropped -/
def exCmdsG : List CmdQ := exCmds.take 14 ++ List.replicate 9 (.base (.drop 0))

theorem exCmdsG_ok : ∀ c ∈ exCmdsG, c.OK 2 := by
  intro c hc
  rcases List.mem_append.mp hc with hc | hc
  · exact exCmds_ok c (List.mem_of_mem_take hc)
  · rw [List.eq_of_mem_replicate hc]; trivial

/-- no handle is left, but the substitution object is alive: the collection keeps exactly what is
reachable from its replacement function (one node of three) -/
example :
    (∀ i, (∃ n, (gcR 2 (runAllQ Policy.exact exCmdsG ⟨RSt.empty, [], []⟩).r).st.store.get? i = some n) ↔
      Reach (runAllQ Policy.exact exCmdsG ⟨RSt.empty, [], []⟩).r.st.store
        (runAllQ Policy.exact exCmdsG ⟨RSt.empty, [], []⟩).owned i) ∧
    (runAllQ Policy.exact exCmdsG ⟨RSt.empty, [], []⟩).hs = [] ∧
    (runAllQ Policy.exact exCmdsG ⟨RSt.empty, [], []⟩).owned = [.inner 0] ∧
    (runAllQ Policy.exact exCmdsG ⟨RSt.empty, [], []⟩).r.st.store.count = 3 ∧
    (gcR 2 (runAllQ Policy.exact exCmdsG ⟨RSt.empty, [], []⟩).r).st.store.count = 1 :=
  ⟨(gc_history_exact_q Policy.exact_ok 2 exCmdsG exCmdsG_ok).2.1,
   by decide +kernel, by decide +kernel, by decide +kernel, by decide +kernel⟩

/-- the invariant holds at every step of the example, in particular right after the failed
operations (steps 6 and 9) -/
example : ∀ k, OrdInvX 2 (exRun k).r :=
  fun k => (ord_history_q Policy.exact_ok 2 (exCmds.take k)
    (fun c hc => exCmds_ok c (List.mem_of_mem_take hc))).2.1

end OxiddModel.Bdd.C05Q
