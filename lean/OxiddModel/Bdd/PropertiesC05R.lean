import OxiddModel.Bdd.RcSLemmasAlg
import OxiddModel.Bdd.RcSHistory
import OxiddModel.Bdd.RcSLemmasOrd
import OxiddModel.Bdd.PropertiesC14

/-!
# C05 / C14 — the reference counters are maintained exactly by the algorithms

Property C05: *"the reference count of a node equals the number of live handles plus the number of
stored parent edges; `gc` frees exactly the unreferenced nodes"*. Property C14: *"an operation that
fails with out-of-memory releases everything it had acquired … exact reference counts"*.

`PropertiesC05.lean` proves the collector on a store whose counts are *computed* from the graph;
`PropertiesC14.lean` proves the capacity-bounded algorithms without counters. Here the counters
are **state** (`RcS.lean`): every `clone_edge` / `drop_edge` / `EdgeDropGuard` of `apply_rec.rs`,
`recursor.rs`, `reduce`, `get_or_insert`, `add_node` is a step of the model, and the theorems say
that these steps keep `rc = 1 + external references + stored parent edges` (`RcInv`; the `1` is the
unique table's reference, `ref_count()` reports `rc - 1`) — after every successful run with the
result added to the caller's references, after every failing run (OutOfMemory at *any* allocation
point, for every capacity) with the caller's references unchanged: nothing leaked, nothing
released twice.

All theorems hold for all stores, counters, caches, cache policies (`Policy.OK`), operands that
point to stored nodes, capacities and **every** fuel (no size bound is needed for the counters).
-/
namespace OxiddModel.Bdd.C05R
open OxiddModel.Bdd OxiddModel.Bdd.BDD OxiddModel.Bdd.Refine OxiddModel.Bdd.Rc

/-! ## the primitives -/

/-- the empty manager satisfies the invariant -/
theorem rcinv_empty : RcInv RSt.empty [] where
  ext_ok _ h := by cases h
  kids_ok i n h := by simp [RSt.empty, Store.get?] at h
  cache_ok _ _ h := by cases h
  rc_eq i n h := by simp [RSt.empty, Store.get?] at h

/-- **`clone_edge`** of an edge to a stored node: one more external reference. -/
theorem clone_rc {r : RSt} {ext : List Edge} {x : Edge} (h : RcInv r ext) (hx : x ∈ ext) :
    RcInv (cloneEdge r x) (x :: ext) := cloneEdge_rc h (h.ext_ok x hx)

/-- **`drop_edge`** of an owned edge: one external reference less, and the counter does not
underflow (`debug_assert!(_old_rc > 1)` in `drop_edge` holds). -/
theorem drop_rc {r : RSt} {ext : List Edge} {x : Edge} (h : RcInv r (x :: ext)) :
    RcInv (dropEdge r x) ext ∧ ∀ j, x = .inner j → 2 ≤ rcGet r.rc j :=
  ⟨dropEdge_rc h, fun _ hj => dropEdge_no_underflow (hj ▸ h)⟩

/-- **`mkNodeR_rc`** (`reduce` = reduction rule + `get_or_insert` + `add_node`): the two owned
children are consumed. Reduction (`t == e`: `e` dropped), unique-table hit (both dropped, the found
node retained), allocation (both move into the node, `rc = 2`) and **OutOfMemory** (both dropped)
all leave exact counters. -/
theorem mkNodeR_rc_exact (cap : Nat) (r : RSt) (l : Nat) (t e : Edge) (ext : List Edge)
    (h : RcInv r (t :: e :: ext)) :
    match mkNodeR cap r l t e with
    | (some x, r') => RcInv r' (x :: ext)
    | (none, r') => RcInv r' ext := mkNodeR_rc h

/-! ## the algorithms -/

/-- **`applyR_rc_exact`.** `apply_bin::<OP>` with borrowed operands that point to stored nodes
(e.g. edges the caller owns, `applyR_rc_owned`): after a successful run the counters are exact for
the caller's references plus the result, after a failing run (OutOfMemory at any of the
allocation points, any capacity) for the caller's references alone. -/
theorem applyR_rc_exact {p : Policy} (pok : p.OK) (cap : Nat) (op : Op) (fuel : Nat) (r : RSt)
    (f g : Edge) (ext : List Edge) (h : RcInv r ext) (hf : r.st.store.has f)
    (hg : r.st.store.has g) :
    match applyR cap p op fuel r f g with
    | (some x, r') => RcInv r' (x :: ext)
    | (none, r') => RcInv r' ext := (applyR_rc pok cap op fuel r f g ext h hf hg).2

theorem applyR_rc_owned {p : Policy} (pok : p.OK) (cap : Nat) (op : Op) (fuel : Nat) (r : RSt)
    (f g : Edge) (ext : List Edge) (h : RcInv r ext) (hf : f ∈ ext) (hg : g ∈ ext) :
    match applyR cap p op fuel r f g with
    | (some x, r') => RcInv r' (x :: ext)
    | (none, r') => RcInv r' ext :=
  applyR_rc_exact pok cap op fuel r f g ext h (h.ext_ok f hf) (h.ext_ok g hg)

/-- `apply_not` -/
theorem notR_rc_exact {p : Policy} (pok : p.OK) (cap : Nat) (fuel : Nat) (r : RSt)
    (f : Edge) (ext : List Edge) (h : RcInv r ext) (hf : r.st.store.has f) :
    match notR cap p fuel r f with
    | (some x, r') => RcInv r' (x :: ext)
    | (none, r') => RcInv r' ext := (notR_rc pok cap fuel r f ext h hf).2

/-- `apply_ite` -/
theorem iteR_rc_exact {p : Policy} (pok : p.OK) (cap : Nat) (fuel : Nat) (r : RSt)
    (f g k : Edge) (ext : List Edge) (h : RcInv r ext) (hf : r.st.store.has f)
    (hg : r.st.store.has g) (hk : r.st.store.has k) :
    match iteR cap p fuel r f g k with
    | (some x, r') => RcInv r' (x :: ext)
    | (none, r') => RcInv r' ext := (iteR_rc pok cap fuel r f g k ext h hf hg hk).2

/-- `var_edge` / `not_var_edge` -/
theorem varR_rc_exact (cap : Nat) (r : RSt) (level : Nat) (neg : Bool) (ext : List Edge)
    (h : RcInv r ext) :
    match varR cap r level neg with
    | (some x, r') => RcInv r' (x :: ext)
    | (none, r') => RcInv r' ext := by
  have h2 : RcInv r (.term (!neg) :: .term neg :: ext) :=
    cloneEdge_rc (x := .term (!neg)) (cloneEdge_rc (x := .term neg) h trivial) trivial
  exact mkNodeR_rc h2

/-! ## erasure: without the counters these are the algorithms of `CapS.lean` -/

/-- **`applyR_erase`.** Forgetting the counters, `applyR` *is* `applyC`: same result (edge or
OutOfMemory), same store, same cache, same time stamp — for all inputs. Hence every theorem about
`applyC` (C06 transparency, C14 clean errors, capacity independence, retry after `gc`) holds for
the counted run. -/
theorem applyR_erase (cap : Nat) (p : Policy) (op : Op) (fuel : Nat) (r : RSt) (f g : Edge) :
    (applyR cap p op fuel r f g).1 = (applyC cap p op fuel r.st f g).1 ∧
    (applyR cap p op fuel r f g).2.st = (applyC cap p op fuel r.st f g).2 := by
  have := applyR_erase' cap p op fuel r f g
  exact ⟨congrArg Prod.fst this, congrArg Prod.snd this⟩

theorem notR_erase_eq (cap : Nat) (p : Policy) (fuel : Nat) (r : RSt) (f : Edge) :
    (notR cap p fuel r f).1 = (notC cap p fuel r.st f).1 ∧
    (notR cap p fuel r f).2.st = (notC cap p fuel r.st f).2 := by
  have := notR_erase cap p fuel r f
  exact ⟨congrArg Prod.fst this, congrArg Prod.snd this⟩

theorem iteR_erase (cap : Nat) (p : Policy) (fuel : Nat) (r : RSt) (f g h : Edge) :
    (iteR cap p fuel r f g h).1 = (iteC cap p fuel r.st f g h).1 ∧
    (iteR cap p fuel r f g h).2.st = (iteC cap p fuel r.st f g h).2 := by
  have := iteR_erase' cap p fuel r f g h
  exact ⟨congrArg Prod.fst this, congrArg Prod.snd this⟩

/-- transfer (C02/C06/C14 `result_capacity_independent`): a successful counted run returns an edge
denoting `applyBin op a b`, whatever the cache and the capacity -/
theorem applyR_correct {p : Policy} (pok : p.OK) (cap : Nat) (op : Op) (fuel : Nat) (r : RSt)
    (f g : Edge) (a b : BDD) (e : Edge) (hu : r.st.store.Unique)
    (hc : CacheOK r.st.store r.st.cache) (hf : Denotes r.st.store f a) (hg : Denotes r.st.store g b)
    (hfuel : a.size + b.size ≤ fuel) (hok : (applyR cap p op fuel r f g).1 = some e) :
    Denotes (applyR cap p op fuel r f g).2.st.store e (applyBin op a b) := by
  obtain ⟨h1, h2⟩ := applyR_erase cap p op fuel r f g
  rw [h1] at hok
  rw [h2]
  exact (C14.result_capacity_independent pok cap op fuel r.st f g a b e hu hc hf hg hfuel hok).2.1

/-- transfer (C14 `op_error_clean`) together with the counters: after OutOfMemory the store is only
extended, hash consing and the cache are sound, all handles denote what they denoted, **and** the
counters are exact for the caller's references -/
theorem applyR_error_clean {p : Policy} (pok : p.OK) (cap : Nat) (op : Op) (fuel : Nat) (r : RSt)
    (f g : Edge) (a b : BDD) (ext : List Edge) (hu : r.st.store.Unique)
    (hc : CacheOK r.st.store r.st.cache) (hf : Denotes r.st.store f a) (hg : Denotes r.st.store g b)
    (hfuel : a.size + b.size ≤ fuel) (hi : RcInv r ext) (hfe : f ∈ ext) (hge : g ∈ ext)
    (herr : (applyR cap p op fuel r f g).1 = none) :
    C14.Clean cap r.st (applyR cap p op fuel r f g).2.st ∧
    RcInv (applyR cap p op fuel r f g).2 ext := by
  obtain ⟨h1, h2⟩ := applyR_erase cap p op fuel r f g
  refine ⟨?_, ?_⟩
  · rw [h2]
    exact C14.op_error_clean pok cap op fuel r.st f g a b hu hc hf hg hfuel (h1 ▸ herr)
  · have := applyR_rc_owned pok cap op fuel r f g ext hi hfe hge
    cases hR : applyR cap p op fuel r f g with
    | mk o r' =>
      rw [hR] at this herr
      simp only at herr
      subst herr
      exact this

/-! ## negative witness: the seeded defect `C05-oom-leaks-children` -/

/-- executable necessary condition of `RcInv` (the counter equation on all slots) -/
def rcCheck (r : RSt) (ext : List Edge) : Bool :=
  (List.range r.st.store.nodes.size).all fun i =>
    match r.st.store.get? i with
    | none => true
    | some _ => rcGet r.rc i == 1 + ext.count (.inner i) + parents r.st.store i

theorem rcCheck_of_inv {r : RSt} {ext : List Edge} (h : RcInv r ext) : rcCheck r ext = true := by
  unfold rcCheck
  rw [List.all_eq_true]
  intro i _
  cases hi : r.st.store.get? i with
  | none => rfl
  | some n => simp [h.rc_eq i n hi]

/-- a full manager (capacity 2) holding `x0` (#0) and `x1` (#1), one handle each; the running
operation `x0 ∧ x1` owns a clone of `x1` (the then-result) and is about to call
`reduce(level 0, x1, ⊥)` -/
def exFull : RSt :=
  ⟨⟨⟨#[some ⟨0, .term true, .term false⟩, some ⟨1, .term true, .term false⟩]⟩, [], 0⟩, #[2, 3]⟩

def exHandles : List Edge := [.inner 0, .inner 1]

example : rcCheck exFull (.inner 1 :: .term false :: exHandles) = true := by decide +kernel

/-- the real `add_node` drops the children of the rejected node: exact counters after the error -/
example : (mkNodeR 2 exFull 0 (.inner 1) (.term false)).1 = none ∧
    rcCheck (mkNodeR 2 exFull 0 (.inner 1) (.term false)).2 exHandles = true := by decide +kernel

/-- **`leak_violates_rcinv`.** With `add_node` returning the error *without* dropping the children
(`node.drop_with(std::mem::forget)`, the seeded change `C05-oom-leaks-children`) the invariant is
violated after the failed `reduce`: `x1` keeps a reference nobody owns. -/
theorem leak_violates_rcinv :
    (mkNodeLeak 2 exFull 0 (.inner 1) (.term false)).1 = none ∧
    ¬ RcInv (mkNodeLeak 2 exFull 0 (.inner 1) (.term false)).2 exHandles := by
  refine ⟨by decide +kernel, fun h => ?_⟩
  have := rcCheck_of_inv h
  revert this
  decide +kernel

/-! ## non-vacuity -/

theorem eq_of_fst {R : Option Edge × RSt} {o : Option Edge} (h : R.1 = o) : R = (o, R.2) := by
  cases R; cases h; rfl

/-- `x0`, `x1` built by `var_edge` in the empty manager (capacity 3) -/
def exVars : RSt := (varR 3 (varR 3 RSt.empty 0 false).2 1 false).2

example : exVars.st.store.nodes = #[some ⟨0, .term true, .term false⟩, some ⟨1, .term true, .term false⟩]
    ∧ exVars.rc = #[2, 2] := by decide +kernel

theorem exVars_inv : RcInv exVars [.inner 1, .inner 0] := by
  have h0 := varR_rc_exact 3 RSt.empty 0 false [] rcinv_empty
  have e0 : varR 3 RSt.empty 0 false = (some (.inner 0), (varR 3 RSt.empty 0 false).2) :=
    eq_of_fst (by decide +kernel)
  rw [e0] at h0
  have h1 := varR_rc_exact 3 (varR 3 RSt.empty 0 false).2 1 false _ h0
  have e1 : varR 3 (varR 3 RSt.empty 0 false).2 1 false = (some (.inner 1), exVars) :=
    eq_of_fst (by decide +kernel)
  rw [e1] at h1
  exact h1

/-- success: `x0 ∧ x1` allocates node #2 = (level 0, x1, ⊥); `x1` gets a parent edge -/
example : (applyR 3 Policy.exact .and 10 exVars (.inner 0) (.inner 1)).1 = some (.inner 2) ∧
    (applyR 3 Policy.exact .and 10 exVars (.inner 0) (.inner 1)).2.rc = #[2, 3, 2] := by
  decide +kernel

example : RcInv (applyR 3 Policy.exact .and 10 exVars (.inner 0) (.inner 1)).2
    [.inner 2, .inner 1, .inner 0] := by
  have := applyR_rc_owned Policy.exact_ok 3 .and 10 exVars (.inner 0) (.inner 1) _ exVars_inv
    (by simp) (by simp)
  have e : applyR 3 Policy.exact .and 10 exVars (.inner 0) (.inner 1) =
      (some (.inner 2), (applyR 3 Policy.exact .and 10 exVars (.inner 0) (.inner 1)).2) :=
    eq_of_fst (by decide +kernel)
  rw [e] at this
  exact this

/-- failure: the same operation with capacity 2 — OutOfMemory, the counters are those before -/
example : (applyR 2 Policy.exact .and 10 exVars (.inner 0) (.inner 1)).1 = none ∧
    (applyR 2 Policy.exact .and 10 exVars (.inner 0) (.inner 1)).2.rc = #[2, 2] ∧
    RcInv (applyR 2 Policy.exact .and 10 exVars (.inner 0) (.inner 1)).2 [.inner 1, .inner 0] := by
  refine ⟨by decide +kernel, by decide +kernel, ?_⟩
  have := applyR_rc_owned Policy.exact_ok 2 .and 10 exVars (.inner 0) (.inner 1) _ exVars_inv
    (by simp) (by simp)
  have e : applyR 2 Policy.exact .and 10 exVars (.inner 0) (.inner 1) =
      (none, (applyR 2 Policy.exact .and 10 exVars (.inner 0) (.inner 1)).2) :=
    eq_of_fst (by decide +kernel)
  rw [e] at this
  exact this

/-! ## garbage collection driven by the counters -/

/-- **`gcR_sound`** (any store, ordered or not): the level-wise sweep that removes the nodes whose
counter shows only the unique table's reference (`rc == 1`) and releases their children keeps the
counters exact, clears the cache, creates and changes nothing, removes no node reachable from an
external edge, and every external edge denotes what it denoted. -/
theorem gcR_sound (numLevels : Nat) (r : RSt) (ext : List Edge) (h : RcInv r ext) :
    RcInv (gcR numLevels r) ext ∧ (gcR numLevels r).st.cache = [] ∧
    (∀ i n, (gcR numLevels r).st.store.get? i = some n → r.st.store.get? i = some n) ∧
    (∀ i, Reach r.st.store ext i → ∃ n, r.st.store.get? i = some n ∧
      (gcR numLevels r).st.store.get? i = some n) ∧
    (∀ x T, x ∈ ext → Denotes r.st.store x T → Denotes (gcR numLevels r).st.store x T) := by
  refine ⟨(gcR_rc numLevels h).1, (gcR_rc numLevels h).2, gcR_sub numLevels r,
    fun i hr => gcR_keeps_reach numLevels h hr, ?_⟩
  intro x T hx hd
  exact gcR_denotes numLevels h hd (fun i hi => .root (hi ▸ hx))

/-- **`gcR_exact`.** If moreover the store is ordered (children on strictly larger levels — the
reason why `Manager::gc` needs only one pass from the top level down) and every level is visited,
the nodes that remain are **exactly** the nodes reachable from the external edges: a node is
freed iff no handle and no surviving parent references it. -/
theorem gcR_exact (numLevels : Nat) (r : RSt) (ext : List Edge) (h : RcInv r ext)
    (ho : r.st.store.Ordered) (hl : ∀ i n, r.st.store.get? i = some n → n.level < numLevels) :
    RcInv (gcR numLevels r) ext ∧
    (∀ i, (∃ n, (gcR numLevels r).st.store.get? i = some n) ↔ Reach r.st.store ext i) ∧
    (∀ i n, (gcR numLevels r).st.store.get? i = some n → r.st.store.get? i = some n) ∧
    (∀ x T, x ∈ ext → Denotes r.st.store x T → Denotes (gcR numLevels r).st.store x T) := by
  obtain ⟨h1, _, h3, h4, h5⟩ := gcR_sound numLevels r ext h
  refine ⟨h1, fun i => ⟨?_, ?_⟩, h3, h5⟩
  · rintro ⟨n, hn⟩
    exact gcR_complete numLevels h ho hl hn
  · intro hr
    obtain ⟨n, _, hn⟩ := h4 i hr
    exact ⟨n, hn⟩

theorem reach_nil {s : Store} {i : Nat} (h : Reach s [] i) : False := by
  induction h with
  | root hm => cases hm
  | kid _ _ _ ih => exact ih

/-- **`all_dropped_empty`.** When every handle has been dropped, the collection empties the store
(the manager returns to its initial node count). -/
theorem all_dropped_empty (numLevels : Nat) (r : RSt) (h : RcInv r [])
    (ho : r.st.store.Ordered) (hl : ∀ i n, r.st.store.get? i = some n → n.level < numLevels) :
    (∀ i, (gcR numLevels r).st.store.get? i = none) ∧ (gcR numLevels r).st.store.count = 0 := by
  have hnone : ∀ i, (gcR numLevels r).st.store.get? i = none := by
    intro i
    cases hi : (gcR numLevels r).st.store.get? i with
    | none => rfl
    | some n => exact (reach_nil (gcR_complete numLevels h ho hl hi)).elim
  refine ⟨hnone, ?_⟩
  unfold Store.count
  rw [Array.countP_eq_zero]
  intro o ho'
  obtain ⟨k, hk, hko⟩ := Array.mem_iff_getElem.mp ho'
  have := hnone k
  simp only [Store.get?, hk, Array.getElem?_eq_getElem, Option.join_some] at this
  rw [hko] at this
  simp [this]

/-! ## histories -/

/-- **`rc_history`.** Starting from a state with exact counters (e.g. the empty manager), after
**every** sequence of commands — variable creation, `not`, binary operators, `ite` (each under
its own capacity: successful or failing with OutOfMemory anywhere), `clone`, `drop`, `gc` — the
counter of every stored node equals `1 + handles + stored parent edges`. -/
theorem rc_history {p : Policy} (pok : p.OK) (cmds : List Rc.Cmd) (h : HSt) (hi : RcInv h.r h.hs) :
    RcInv (runAll p cmds h).r (runAll p cmds h).hs := runAll_rc pok cmds h hi

theorem rc_history_empty {p : Policy} (pok : p.OK) (cmds : List Rc.Cmd) :
    RcInv (runAll p cmds ⟨RSt.empty, []⟩).r (runAll p cmds ⟨RSt.empty, []⟩).hs :=
  rc_history pok cmds ⟨RSt.empty, []⟩ rcinv_empty

/-! ## orderedness is maintained, so the collection is exact along every history -/

theorem ordinv_empty (N : Nat) : OrdInv N RSt.empty where
  ord i n j m h := by simp [RSt.empty, Store.get?] at h
  bound i n h := by simp [RSt.empty, Store.get?] at h
  cache _ _ h := by cases h

/-- **`applyR_ordered`.** `apply_bin::<OP>` keeps the store ordered (children on strictly larger
levels), all levels below the number of levels, and the cache level-respecting — on success and
on failure; the result lies on a level `≥` the top level of the operands. (`OrdInv`, `Above` in
`RcSLemmasOrd.lean`; the same for `notR`, `iteR`: `notR_ord`, `iteR_ord`.) -/
theorem applyR_ordered {p : Policy} (pok : p.OK) (N cap : Nat) (op : Op) (fuel : Nat) (r : RSt)
    (f g : Edge) (ext : List Edge) (L : Nat) (h : RcInv r ext) (ho : OrdInv N r)
    (hf : Above r.st.store L f) (hg : Above r.st.store L g) :
    OrdInv N (applyR cap p op fuel r f g).2 ∧
    ∀ x, (applyR cap p op fuel r f g).1 = some x → Above (applyR cap p op fuel r f g).2.st.store L x :=
  applyR_ord pok N cap op fuel r f g ext L h ho hf hg

/-- **`ord_history`.** Along every history whose variables are created on levels `< N`, the
counters stay exact *and* the store stays ordered with all levels `< N`. -/
theorem ord_history {p : Policy} (pok : p.OK) (N : Nat) (cmds : List Rc.Cmd)
    (hok : ∀ c ∈ cmds, c.OK N) :
    RcInv (runAll p cmds ⟨RSt.empty, []⟩).r (runAll p cmds ⟨RSt.empty, []⟩).hs ∧
    OrdInv N (runAll p cmds ⟨RSt.empty, []⟩).r :=
  runAll_ord pok cmds ⟨RSt.empty, []⟩ hok rcinv_empty (ordinv_empty N)

/-- **`gc_history_exact`.** After *any* history (operations succeeding or failing with
OutOfMemory, clones, drops, earlier collections) a collection over the `N` levels keeps exactly
the nodes reachable from the live handles, with exact counters, and every handle denotes what it
denoted — no hypothesis on the state is left. -/
theorem gc_history_exact {p : Policy} (pok : p.OK) (N : Nat) (cmds : List Rc.Cmd)
    (hok : ∀ c ∈ cmds, c.OK N) :
    let h := runAll p cmds ⟨RSt.empty, []⟩
    RcInv (gcR N h.r) h.hs ∧
    (∀ i, (∃ n, (gcR N h.r).st.store.get? i = some n) ↔ Reach h.r.st.store h.hs i) ∧
    (∀ i n, (gcR N h.r).st.store.get? i = some n → h.r.st.store.get? i = some n) ∧
    (∀ x T, x ∈ h.hs → Denotes h.r.st.store x T → Denotes (gcR N h.r).st.store x T) := by
  intro h
  obtain ⟨hi, ho⟩ := ord_history pok N cmds hok
  exact gcR_exact N h.r h.hs hi ho.ord ho.bound

/-- after any history, dropping all handles and collecting empties the store -/
theorem all_dropped_empty_history {p : Policy} (pok : p.OK) (N : Nat) (cmds : List Rc.Cmd)
    (hok : ∀ c ∈ cmds, c.OK N) (hnone : (runAll p cmds ⟨RSt.empty, []⟩).hs = []) :
    (gcR N (runAll p cmds ⟨RSt.empty, []⟩).r).st.store.count = 0 := by
  obtain ⟨hi, ho⟩ := ord_history pok N cmds hok
  rw [hnone] at hi
  exact (all_dropped_empty N _ hi ho.ord ho.bound).2

/-! ## non-vacuity: a history with a failing operation, garbage, and a collection -/

/-- `x0`, `x1`; `x0 ∧ x1` (capacity 3: ok); `x0 ⊕ x1` under capacity 4 — needs `¬x1` and the root:
the first allocation succeeds, the second fails; drop `x0 ∧ x1`; collect -/
def exCmds : List Rc.Cmd :=
  [.var 3 0 false, .var 3 1 false, .bin 3 10 .and 1 0, .bin 4 10 .xor 2 1, .drop 0, .gc 2]

def exRun (k : Nat) : HSt := runAll Policy.exact (exCmds.take k) ⟨RSt.empty, []⟩

/-- after the failed `xor`: four nodes (`¬x1` is garbage), handles unchanged, counters exact -/
example : (exRun 4).hs = [.inner 2, .inner 1, .inner 0] ∧
    (exRun 4).r.st.store.nodes = #[some ⟨0, .term true, .term false⟩, some ⟨1, .term true, .term false⟩,
      some ⟨0, .inner 1, .term false⟩, some ⟨1, .term false, .term true⟩] ∧
    (exRun 4).r.rc = #[2, 3, 2, 1] := by decide +kernel

example : RcInv (exRun 4).r (exRun 4).hs := rc_history_empty Policy.exact_ok _

/-- after `drop` and `gc`: exactly the two variable nodes remain (the counters of the freed slots
are meaningless: the real slot holds the free-list link) -/
example : (exRun 6).hs = [.inner 1, .inner 0] ∧
    (exRun 6).r.st.store.nodes = #[some ⟨0, .term true, .term false⟩, some ⟨1, .term true, .term false⟩,
      none, none] ∧ (exRun 6).r.rc = #[2, 2, 1, 1] := by decide +kernel

/-- the hypotheses of `gcR_exact` hold for the state before the collection -/
example : RcInv (exRun 5).r (exRun 5).hs ∧ (exRun 5).r.st.store.Ordered ∧
    ∀ i n, (exRun 5).r.st.store.get? i = some n → n.level < 2 := by
  refine ⟨rc_history_empty Policy.exact_ok _, ordered_of_orderedB (by decide +kernel), ?_⟩
  intro i n hi
  have hlt : i < 4 := by
    by_cases hlt : i < 4
    · exact hlt
    · have : (exRun 5).r.st.store.nodes.size = 4 := by decide +kernel
      simp [Store.get?, this, hlt] at hi
  have key : ∀ j, j < 4 → ∀ m, (exRun 5).r.st.store.get? j = some m → m.level < 2 := by
    intro j hj m hm
    have : ∀ j, j < 4 → (match (exRun 5).r.st.store.get? j with
        | some m => decide (m.level < 2) | none => true) = true := by decide +kernel
    have := this j hj
    rw [hm] at this
    simpa using this
  exact key i hlt n hi

/-- the hypothesis of `ord_history` / `gc_history_exact` holds for the example history -/
example : ∀ c ∈ exCmds, c.OK 2 := by
  intro c hc
  simp only [exCmds, List.mem_cons, List.mem_nil_iff, or_false] at hc
  rcases hc with rfl | rfl | rfl | rfl | rfl | rfl <;> simp [Rc.Cmd.OK]

/-- dropping everything and collecting empties the store -/
example : (runAll Policy.exact (exCmds ++ [.drop 0, .drop 0, .gc 2]) ⟨RSt.empty, []⟩).r.st.store.count = 0 := by
  decide +kernel

end OxiddModel.Bdd.C05R
