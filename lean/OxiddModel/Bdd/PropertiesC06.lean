import OxiddModel.Bdd.HistoryS
import OxiddModel.Bdd.Guarantee

/-!
# C06 — the apply cache is transparent (simple BDD rules, store level)

Property text: *"The handle returned by an operation is determined by its operator, operands and
the current variable order alone: it is the same whatever operations ran before, whatever the
apply-cache capacity is, and whichever entries were evicted or overwritten. A result memoised for
one operator, operand tuple or substitution is never served for another, and no memoised result
outlives a garbage collection, reordering or variable addition that could invalidate it."*

Modelled code: `apply_not`, `apply_bin::<OP>` (8 operators), `apply_ite`
(`crates/oxidd-rules-bdd/src/simple/apply_rec.rs`), `terminal_bin`, `reduce`
(`simple/mod.rs`), and the cache discipline of `crates/oxidd-cache/src/direct.rs` abstracted to a
`Policy` (`CacheS.lean`): a `get` may miss although the key was added, an `add` may be dropped or
evict other entries, behaviour may change with every access (time stamp); the only facts used are
`Policy.OK` (*a hit returns a value stored under exactly the queried tag and operand list*, *`add`
invents no entries*). `Policy.exact`, `Policy.none` and `Policy.dm cap hash lock` (direct mapped,
arbitrary hash, capacity and `try_lock` failure pattern) satisfy it.

All theorems hold for all stores, caches, operands and every fuel ≥ the sum of operand sizes.

What is *not* covered here: the bucket/lock implementation of `DMApplyCache` itself (it is
abstracted by `Policy.OK`; its full-key comparison is the content of `cache_key_full` for the
model policies only), `substitute`/`restrict`/quantification (not part of this layer), reordering
(the cache is cleared like for `gc`, but level swaps are not modelled here), and the other
decision-diagram kinds.
-/
namespace OxiddModel.Bdd.C06
open OxiddModel.Bdd OxiddModel.Bdd.BDD OxiddModel.Bdd.Refine

/-! ## the cached algorithms refine the tree-level operations, for every cache behaviour -/

/-- **`apply_not` with cache refines `applyNot`.** From any state whose store is hash-consed
(`Unique`) and whose cache is sound (`CacheOK`), for every admissible cache behaviour `p`: the
returned edge denotes `applyNot a`, the store is only extended, and `Unique ∧ CacheOK` hold
afterwards. (C06: the result is determined by the operand's denotation — no dependence on the
cache content, capacity or eviction.) -/
theorem notS_spec {p : Policy} (pok : p.OK) (fuel : Nat) (st : St) (f : Edge) (a : BDD)
    (hu : st.store.Unique) (hc : CacheOK st.store st.cache) (hf : Denotes st.store f a)
    (hfuel : a.size ≤ fuel) :
    Denotes (notS p fuel st f).1.store (notS p fuel st f).2 (applyNot a) ∧
    st.store.Le (notS p fuel st f).1.store ∧
    (notS p fuel st f).1.store.Unique ∧
    CacheOK (notS p fuel st f).1.store (notS p fuel st f).1.cache :=
  have P := Refine.notS_spec pok fuel st f a ⟨hu, hc⟩ hf hfuel
  ⟨P.den, P.le, P.inv.1, P.inv.2⟩

/-- **`apply_bin::<OP>` with cache refines `applyBin op`**, for each of the eight operators
(`and, or, nand, nor, xor, equiv, imp, impStrict`), including the operand swap of the commutative
ones in the cache key and the delegation to `apply_not`. -/
theorem applyS_spec {p : Policy} (pok : p.OK) (op : Op) (fuel : Nat) (st : St) (f g : Edge)
    (a b : BDD) (hu : st.store.Unique) (hc : CacheOK st.store st.cache)
    (hf : Denotes st.store f a) (hg : Denotes st.store g b) (hfuel : a.size + b.size ≤ fuel) :
    Denotes (applyS p op fuel st f g).1.store (applyS p op fuel st f g).2 (applyBin op a b) ∧
    st.store.Le (applyS p op fuel st f g).1.store ∧
    (applyS p op fuel st f g).1.store.Unique ∧
    CacheOK (applyS p op fuel st f g).1.store (applyS p op fuel st f g).1.cache :=
  have P := Refine.applyS_spec pok op fuel st f g a b ⟨hu, hc⟩ hf hg hfuel
  ⟨P.den, P.le, P.inv.1, P.inv.2⟩

/-- **`apply_ite` with cache refines `applyIte`**, including all its delegations to
`apply_bin::<Or/And/Imp/ImpStrict>` and `apply_not`. -/
theorem iteS_spec {p : Policy} (pok : p.OK) (fuel : Nat) (st : St) (f g h : Edge) (a b c : BDD)
    (hu : st.store.Unique) (hc : CacheOK st.store st.cache)
    (hf : Denotes st.store f a) (hg : Denotes st.store g b) (hh : Denotes st.store h c)
    (hfuel : a.size + b.size + c.size ≤ fuel) :
    Denotes (iteS p fuel st f g h).1.store (iteS p fuel st f g h).2 (applyIte a b c) ∧
    st.store.Le (iteS p fuel st f g h).1.store ∧
    (iteS p fuel st f g h).1.store.Unique ∧
    CacheOK (iteS p fuel st f g h).1.store (iteS p fuel st f g h).1.cache :=
  have P := Refine.iteS_spec pok fuel st f g h a b c ⟨hu, hc⟩ hf hg hh hfuel
  ⟨P.den, P.le, P.inv.1, P.inv.2⟩

/-! ## transparency -/

/-- **The cache is transparent (`apply_bin`).** Two runs of the same operation from the same
(hash-consed, reduced) store with two *different* sound caches `c1`, `c2` (e.g. empty vs. warmed
up vs. after evictions), different cache behaviours `p1`, `p2` (capacity, hash, lock failures),
different time stamps and fuels: the returned **edges are equal and the stores afterwards are
equal** (both are `intern s (applyBin op a b)`). -/
theorem cache_transparent {p1 p2 : Policy} (ok1 : p1.OK) (ok2 : p2.OK) (op : Op)
    (s : Store) (c1 c2 : Cache) (t1 t2 fuel1 fuel2 : Nat) (f g : Edge) (a b : BDD)
    (hu : s.Unique) (hr : s.NoRed) (h1 : CacheOK s c1) (h2 : CacheOK s c2)
    (hf : Denotes s f a) (hg : Denotes s g b)
    (hfuel1 : a.size + b.size ≤ fuel1) (hfuel2 : a.size + b.size ≤ fuel2) :
    (applyS p1 op fuel1 ⟨s, c1, t1⟩ f g).2 = (applyS p2 op fuel2 ⟨s, c2, t2⟩ f g).2 ∧
    (applyS p1 op fuel1 ⟨s, c1, t1⟩ f g).1.store = (applyS p2 op fuel2 ⟨s, c2, t2⟩ f g).1.store := by
  have P1 := (Refine.applyS_spec ok1 op fuel1 ⟨s, c1, t1⟩ f g a b ⟨hu, h1⟩ hf hg hfuel1).canon hr
  have P2 := (Refine.applyS_spec ok2 op fuel2 ⟨s, c2, t2⟩ f g a b ⟨hu, h2⟩ hf hg hfuel2).canon hr
  have e := P1.trans P2.symm
  exact ⟨(Prod.mk.inj e).2, (Prod.mk.inj e).1⟩

/-- the same for `apply_not` -/
theorem cache_transparent_not {p1 p2 : Policy} (ok1 : p1.OK) (ok2 : p2.OK)
    (s : Store) (c1 c2 : Cache) (t1 t2 fuel1 fuel2 : Nat) (f : Edge) (a : BDD)
    (hu : s.Unique) (hr : s.NoRed) (h1 : CacheOK s c1) (h2 : CacheOK s c2)
    (hf : Denotes s f a) (hfuel1 : a.size ≤ fuel1) (hfuel2 : a.size ≤ fuel2) :
    (notS p1 fuel1 ⟨s, c1, t1⟩ f).2 = (notS p2 fuel2 ⟨s, c2, t2⟩ f).2 ∧
    (notS p1 fuel1 ⟨s, c1, t1⟩ f).1.store = (notS p2 fuel2 ⟨s, c2, t2⟩ f).1.store := by
  have P1 := (Refine.notS_spec ok1 fuel1 ⟨s, c1, t1⟩ f a ⟨hu, h1⟩ hf hfuel1).canon hr
  have P2 := (Refine.notS_spec ok2 fuel2 ⟨s, c2, t2⟩ f a ⟨hu, h2⟩ hf hfuel2).canon hr
  have e := P1.trans P2.symm
  exact ⟨(Prod.mk.inj e).2, (Prod.mk.inj e).1⟩

/-- the same for `apply_ite` -/
theorem cache_transparent_ite {p1 p2 : Policy} (ok1 : p1.OK) (ok2 : p2.OK)
    (s : Store) (c1 c2 : Cache) (t1 t2 fuel1 fuel2 : Nat) (f g h : Edge) (a b c : BDD)
    (hu : s.Unique) (hr : s.NoRed) (h1 : CacheOK s c1) (h2 : CacheOK s c2)
    (hf : Denotes s f a) (hg : Denotes s g b) (hh : Denotes s h c)
    (hfuel1 : a.size + b.size + c.size ≤ fuel1) (hfuel2 : a.size + b.size + c.size ≤ fuel2) :
    (iteS p1 fuel1 ⟨s, c1, t1⟩ f g h).2 = (iteS p2 fuel2 ⟨s, c2, t2⟩ f g h).2 ∧
    (iteS p1 fuel1 ⟨s, c1, t1⟩ f g h).1.store = (iteS p2 fuel2 ⟨s, c2, t2⟩ f g h).1.store := by
  have P1 := (Refine.iteS_spec ok1 fuel1 ⟨s, c1, t1⟩ f g h a b c ⟨hu, h1⟩ hf hg hh hfuel1).canon hr
  have P2 := (Refine.iteS_spec ok2 fuel2 ⟨s, c2, t2⟩ f g h a b c ⟨hu, h2⟩ hf hg hh hfuel2).canon hr
  have e := P1.trans P2.symm
  exact ⟨(Prod.mk.inj e).2, (Prod.mk.inj e).1⟩

/-- without the reducedness assumption on the store: if the result tree is already present in the
initial store as edge `x`, every run returns exactly `x`, whatever the cache does -/
theorem cache_transparent_existing {p : Policy} (pok : p.OK) (op : Op) (fuel : Nat) (st : St)
    (f g x : Edge) (a b : BDD) (hu : st.store.Unique) (hc : CacheOK st.store st.cache)
    (hf : Denotes st.store f a) (hg : Denotes st.store g b) (hfuel : a.size + b.size ≤ fuel)
    (hx : Denotes st.store x (applyBin op a b)) : (applyS p op fuel st f g).2 = x := by
  have P := Refine.applyS_spec pok op fuel st f g a b ⟨hu, hc⟩ hf hg hfuel
  exact inj_of_unique P.inv.1 _ _ _ P.den (hx.mono P.le)

/-- **History independence.** The same history of operations (`not`/`bin op`/`ite` on arbitrary
operands, interspersed with points at which the cache drops arbitrary entries), run twice from
the same store with different cache behaviours, eviction choices, initial caches and time stamps:
every returned edge is the same and the final stores are the same. In particular a *different
operator on the same operands in between* (which is just another history) cannot change a
result. -/
theorem history_transparent {cfg1 cfg2 : CacheCfg} (ok1 : cfg1.policy.OK) (ok2 : cfg2.policy.OK)
    (fuel : Nat) (cs : List Cmd) (st1 st2 : St) (hs : st1.store = st2.store)
    (hu : st1.store.Unique) (hr : st1.store.NoRed)
    (h1 : CacheOK st1.store st1.cache) (h2 : CacheOK st2.store st2.cache)
    (hv : ValidAll cfg1 fuel cs st1) :
    (runAll cfg1 fuel cs st1).2 = (runAll cfg2 fuel cs st2).2 ∧
    (runAll cfg1 fuel cs st1).1.store = (runAll cfg2 fuel cs st2).1.store :=
  have h := Refine.history_transparent ok1 ok2 fuel cs st1 st2 hs ⟨hu, h1⟩ ⟨hs ▸ hu, h2⟩ hr hv
  ⟨h.1, h.2.1⟩

/-! ## keys -/

/-- **A hit needs the full key.** For every admissible policy a hit for `(tag, operands)` is
backed by an entry with the *same tag and the same operand list*. -/
theorem cache_key_full {p : Policy} (pok : p.OK) (t : Nat) (c : Cache) (tag : OpTag)
    (operands : List Edge) (r : Edge) (h : p.get t c (tag, operands) = some r) :
    ∃ x, x ∈ c ∧ x.1.1 = tag ∧ x.1.2 = operands ∧ x.2 = r :=
  ⟨_, pok.get_mem t c _ r h, rfl, rfl, rfl⟩

/-- consequently, a result memoised for one operator or operand tuple is never served for
another: if no entry carries exactly this key, every admissible policy misses -/
theorem no_cross_hit {p : Policy} (pok : p.OK) (t : Nat) (c : Cache) (k : Key)
    (h : ∀ x, x ∈ c → x.1 ≠ k) : p.get t c k = none := by
  cases hg : p.get t c k with
  | none => rfl
  | some r => exact absurd rfl (h _ (pok.get_mem t c k r hg))

/-- the model policies are admissible: ideal cache, no cache, and the direct-mapped cache for
every capacity, hash function and lock-failure pattern -/
theorem policies_admissible (cap : Nat) (hash : Key → Nat) (lock : Nat → Bool) :
    Policy.exact.OK ∧ Policy.none.OK ∧ (Policy.dm cap hash lock).OK :=
  ⟨Policy.exact_ok, Policy.none_ok, Policy.dm_ok cap hash lock⟩

/-- **Each operator is memoised under its own tag.** Whatever `terminal_bin::<OP>` returns as
`Binary(tag, o1, o2)` — the key `apply_bin::<OP>` uses for `get` and `add` — has `tag = OP` and
the operands `{f, g}` (swapped only for a commutative `OP`). The MTBDD defect "`Max` memoised
under `Min`" is a violation of exactly this statement (in another crate). -/
theorem memo_tag_ok (op : Op) (f g : Edge) (tag : OpTag) (o1 o2 : Edge)
    (h : terminalBinS op f g = .binary tag o1 o2) :
    tag = tagOf op ∧ ((o1 = f ∧ o2 = g) ∨ (Op.comm op = true ∧ o1 = g ∧ o2 = f)) :=
  terminalBinS_tag op f g tag o1 o2 h

/-- distinct operators have distinct tags, so their cache entries can never be confused -/
theorem tags_distinct {a b : Op} (h : tagOf a = tagOf b) : a = b := tagOf_inj h

/-- the edge-level `terminal_bin` agrees with the tree-level one (terminal cases in the same
order, `f == g` on edges = equality of trees) in every hash-consed store -/
theorem terminalBinS_refines (op : Op) {s : Store} (hu : s.Unique) {f g : Edge} {a b : BDD}
    (hf : Denotes s f a) (hg : Denotes s g b) :
    OpCorr s op f g a b (terminalBinS op f g) (terminalBin op a b) :=
  terminalBinS_corr op (inj_of_unique hu) hf hg

/-! ## invalidation -/

/-- **gc.** Clearing the cache (what `pre_gc` does before any node is removed) establishes
`CacheOK` for *any* store, in particular for the store after the collection; and the whole
collection step `Action.gc` (clear, then sweep the unreferenced nodes) keeps the invariant. -/
theorem cacheok_gc (s' : Store) : CacheOK s' [] := CacheOK.nil s'

theorem gc_keeps_inv (st : St) (roots : List Edge) (hu : st.store.Unique)
    (hc : CacheOK st.store st.cache) :
    ((Action.gc roots).run st).store.Unique ∧
    CacheOK ((Action.gc roots).run st).store ((Action.gc roots).run st).cache :=
  (step_guarantee (.gc roots) st [] ⟨hu, hc⟩ trivial (fun _ h => by cases h)).1

/-- **add_vars.** `CacheOK` is preserved by every store extension, and neither `Denotes` nor
`specOf` mentions the number of levels: appending levels cannot invalidate a BDD cache entry
(in contrast to ZBDDs, where the meaning of an edge depends on the number of levels). -/
theorem cacheok_addvars {s s' : Store} {c : Cache} (h : CacheOK s c) (hle : s.Le s') :
    CacheOK s' c := h.mono hle

/-- evicting or overwriting entries (any sub-collection survives) keeps the cache sound -/
theorem cacheok_evict {s : Store} {c c' : Cache} (h : CacheOK s c) (hs : ∀ x, x ∈ c' → x ∈ c) :
    CacheOK s c' := h.sub hs

/-! ## non-vacuity: a concrete store with a shared node, concrete caches, concrete runs -/

/-- `x1` -/
def exX1 : BDD := .node 1 (.leaf true) (.leaf false)
/-- `x0 ∧ x1` -/
def exAnd : BDD := .node 0 exX1 (.leaf false)
/-- `x0 ∨ x1` -/
def exOr : BDD := .node 0 (.leaf true) exX1

/-- the store holding `x0 ∧ x1` and `x0 ∨ x1`; the node for `x1` is shared -/
def exStore : Store := (intern (intern ⟨#[]⟩ exAnd).1 exOr).1

example : exStore.nodes =
    #[some ⟨1, .term true, .term false⟩, some ⟨0, .inner 0, .term false⟩,
      some ⟨0, .term true, .inner 0⟩] := by decide +kernel

theorem empty_unique : (⟨#[]⟩ : Store).Unique := by
  intro i j n hi; simp [Store.get?] at hi
theorem empty_nored : (⟨#[]⟩ : Store).NoRed := by
  intro i n hi; simp [Store.get?] at hi

theorem exStore_unique : exStore.Unique := intern_unique _ _ (intern_unique _ _ empty_unique)
theorem exStore_nored : exStore.NoRed := intern_nored _ _ (intern_nored _ _ empty_nored)

theorem exStore_x1 : Denotes exStore (.inner 0) exX1 :=
  .inner (by decide +kernel : exStore.get? 0 = some ⟨1, .term true, .term false⟩) .term .term
theorem exStore_and : Denotes exStore (.inner 1) exAnd :=
  .inner (by decide +kernel : exStore.get? 1 = some ⟨0, .inner 0, .term false⟩) exStore_x1 .term
theorem exStore_or : Denotes exStore (.inner 2) exOr :=
  .inner (by decide +kernel : exStore.get? 2 = some ⟨0, .term true, .inner 0⟩) .term exStore_x1

/-- a warmed-up state: after computing `(x0 ∧ x1) ∧ (x0 ∨ x1)` with the ideal cache -/
def exWarm : St := (applyS Policy.exact .and 10 ⟨exStore, [], 0⟩ (.inner 1) (.inner 2)).1

/-- the warm cache is not empty: it holds the entry `(And, [#1, #2]) ↦ #1` -/
example : exWarm.cache = [((.and, [.inner 1, .inner 2]), .inner 1)] := by decide +kernel
example : exWarm.store.nodes = exStore.nodes := by decide +kernel

/-- … and it is sound, by `applyS_spec` (hypotheses of the spec are satisfiable) -/
theorem exWarm_ok : exWarm.store.Unique ∧ CacheOK exWarm.store exWarm.cache :=
  have h := applyS_spec Policy.exact_ok .and 10 ⟨exStore, [], 0⟩ (.inner 1) (.inner 2) exAnd exOr
    exStore_unique (CacheOK.nil _) exStore_and exStore_or (by decide)
  ⟨h.2.2.1, h.2.2.2⟩

/-- a hand-written sound cache on `exStore`: entries for two different operators on the same
operands -/
def exCache : Cache :=
  [((.and, [.inner 1, .inner 2]), .inner 1), ((.or, [.inner 1, .inner 2]), .inner 2)]

theorem exCache_ok : CacheOK exStore exCache := by
  intro k r hm
  simp only [exCache, List.mem_cons, List.not_mem_nil, or_false] at hm
  have e1 : applyBin .and exAnd exOr = exAnd := by decide +kernel
  have e2 : applyBin .or exAnd exOr = exOr := by decide +kernel
  rcases hm with h | h <;> cases h
  · exact ⟨_, _, DenotesL.two exStore_and exStore_or, rfl, by rw [e1]; exact exStore_and⟩
  · exact ⟨_, _, DenotesL.two exStore_and exStore_or, rfl, by rw [e2]; exact exStore_or⟩

/-- an *unsound* entry is rejected by `CacheOK`: `or` memoised with the result of `and` -/
example : ¬ CacheOK exStore [((.or, [.inner 1, .inner 2]), .inner 1)] := by
  intro h
  obtain ⟨ts, T, hd, hs, hr⟩ := h _ _ List.mem_cons_self
  have := DenotesL.functional hd (DenotesL.two exStore_and exStore_or)
  subst this
  have e2 : applyBin .or exAnd exOr = exOr := by decide +kernel
  simp only [specOf, e2, Option.some.injEq] at hs
  subst hs
  exact absurd (Denotes.functional hr exStore_and) (by decide)

/-- non-vacuity of `notS_spec` and `iteS_spec`: the hypotheses hold on `exStore` with the
hand-written cache and a 2-bucket direct-mapped policy -/
example :
    let R := notS (Policy.dm 2 (fun k => k.2.length) (fun _ => true)) 5 ⟨exStore, exCache, 3⟩ (.inner 2)
    Denotes R.1.store R.2 (applyNot exOr) ∧ exStore.Le R.1.store ∧ R.1.store.Unique ∧
      CacheOK R.1.store R.1.cache :=
  notS_spec (Policy.dm_ok _ _ _) 5 ⟨exStore, exCache, 3⟩ (.inner 2) exOr exStore_unique exCache_ok
    exStore_or (by decide)

example :
    let R := iteS Policy.exact 13 ⟨exStore, exCache, 0⟩ (.inner 0) (.inner 1) (.inner 2)
    Denotes R.1.store R.2 (applyIte exX1 exAnd exOr) ∧ exStore.Le R.1.store ∧ R.1.store.Unique ∧
      CacheOK R.1.store R.1.cache :=
  iteS_spec Policy.exact_ok 13 ⟨exStore, exCache, 0⟩ (.inner 0) (.inner 1) (.inner 2) exX1 exAnd exOr
    exStore_unique exCache_ok exStore_x1 exStore_and exStore_or (by decide)

/-- non-vacuity of `cacheok_addvars`/`cacheok_evict`: the hand-written cache stays sound in the
(strictly larger) store after an `xor`, and after dropping its first entry -/
example : CacheOK (applyS Policy.none .xor 10 ⟨exStore, [], 0⟩ (.inner 1) (.inner 2)).1.store
    exCache :=
  cacheok_addvars exCache_ok
    (applyS_spec Policy.none_ok .xor 10 ⟨exStore, [], 0⟩ (.inner 1) (.inner 2) exAnd exOr
      exStore_unique (CacheOK.nil _) exStore_and exStore_or (by decide)).2.1

example : CacheOK exStore exCache.tail :=
  cacheok_evict exCache_ok (fun _ h => List.mem_of_mem_tail h)

/-- non-vacuity of `cache_transparent`: cold start without cache vs. warm state with a
direct-mapped cache of capacity 1 whose lock fails at every odd time stamp -/
example :
    (applyS Policy.none .xor 10 ⟨exStore, [], 0⟩ (.inner 1) (.inner 2)).2 =
    (applyS (Policy.dm 1 (fun _ => 0) (fun t => t % 2 == 0)) .xor 12 ⟨exStore, exWarm.cache, 5⟩
      (.inner 1) (.inner 2)).2 :=
  (cache_transparent Policy.none_ok (Policy.dm_ok _ _ _) .xor exStore [] exWarm.cache 0 5 10 12
    (.inner 1) (.inner 2) exAnd exOr exStore_unique exStore_nored (CacheOK.nil _)
    (by have := exWarm_ok.2
        have e : exWarm.store = exStore := by
          show (⟨exWarm.store.nodes⟩ : Store) = ⟨exStore.nodes⟩
          rw [show exWarm.store.nodes = exStore.nodes by decide +kernel]
        rwa [e] at this)
    exStore_and exStore_or (by decide) (by decide)).1

/-- the concrete value: `(x0 ∧ x1) ⊕ (x0 ∨ x1)` needs two new nodes; the result is node #4 -/
example : (applyS Policy.none .xor 10 ⟨exStore, [], 0⟩ (.inner 1) (.inner 2)).2 = .inner 4 := by
  decide +kernel

/-- the same operation hits the warm cache for `and` and must not for `xor`/`or` (full key) -/
example : Policy.exact.get 0 exWarm.cache (.and, [.inner 1, .inner 2]) = some (.inner 1) ∧
    Policy.exact.get 0 exWarm.cache (.or, [.inner 1, .inner 2]) = none ∧
    Policy.exact.get 0 exWarm.cache (.and, [.inner 2, .inner 1]) = none := by decide +kernel

/-- non-vacuity of `memo_tag_ok`, with the operand swap (`#2 > #1`) -/
example : terminalBinS .xor (.inner 2) (.inner 1) = .binary .xor (.inner 1) (.inner 2) := by
  decide

/-- non-vacuity of `history_transparent`: `and`, then `or` *on the same operands*, an eviction
point, `and` again, `ite`, `not` — with the ideal cache vs. a capacity-1 direct-mapped one that
also drops everything at the eviction point -/
def exHistory : List Cmd :=
  [.bin .and (.inner 1) (.inner 2), .bin .or (.inner 1) (.inner 2), .cacheOp 0,
   .bin .and (.inner 1) (.inner 2), .ite (.inner 0) (.inner 1) (.inner 2), .not (.inner 2)]

example : (runAll ⟨Policy.exact, fun _ _ => true⟩ 13 exHistory ⟨exStore, [], 0⟩).2 =
    [some (.inner 1), some (.inner 2), none, some (.inner 1), some (.inner 3), some (.inner 5)] := by
  decide +kernel

example : (runAll ⟨Policy.dm 1 (fun _ => 0) (fun _ => true), fun _ _ => false⟩ 13 exHistory
      ⟨exStore, exWarm.cache, 7⟩).2 =
    [some (.inner 1), some (.inner 2), none, some (.inner 1), some (.inner 3), some (.inner 5)] := by
  decide +kernel

/-- the validity hypothesis of `history_transparent` is satisfiable (shown for a prefix-style
history whose second command runs in the store produced by the first) -/
example : ValidAll ⟨Policy.exact, fun _ _ => true⟩ 13
    [.bin .xor (.inner 1) (.inner 2), .bin .or (.inner 1) (.inner 2), .cacheOp 3]
    ⟨exStore, [], 0⟩ := by
  have h := applyS_spec Policy.exact_ok .xor 13 ⟨exStore, [], 0⟩ (.inner 1) (.inner 2) exAnd exOr
    exStore_unique (CacheOK.nil _) exStore_and exStore_or (by decide)
  refine ⟨⟨exAnd, exOr, exStore_and, exStore_or, by decide⟩,
    ⟨exAnd, exOr, exStore_and.mono h.2.1, exStore_or.mono h.2.1, by decide⟩, trivial, trivial⟩

/-- why `pre_gc` must clear the cache: after sweeping the unreferenced nodes of `exWarm` with no
roots, the entry `(And, [#1, #2]) ↦ #1` refers to freed slots -/
theorem stale_without_clear : CacheOK exWarm.store exWarm.cache ∧
    ¬ CacheOK (exWarm.store.sweep []) exWarm.cache := by
  refine ⟨exWarm_ok.2, fun h => ?_⟩
  obtain ⟨ts, T, _, _, hd⟩ := h (.and, [.inner 1, .inner 2]) (.inner 1)
    (by decide +kernel)
  cases hd with
  | inner hi _ _ =>
    have : (exWarm.store.sweep []).get? 1 = none := by decide +kernel
    rw [this] at hi; cases hi

end OxiddModel.Bdd.C06
