import OxiddModel.Bdd.Guarantee
import OxiddModel.Bdd.PropertiesC06

/-!
# C07 — concurrent and parallel execution ≡ sequential execution (interleaving model)

Property text: *"Operations issued concurrently from several threads on one manager — including
the implicit parallel recursion of the multi-threaded apply algorithms, handle clone/drop on any
thread, and garbage collections running alongside — each return exactly the handle that a
sequential execution would return. They never deadlock, never corrupt the diagram, and afterwards
the diagram is well-formed with exact reference counts."*

Shape of the argument (rely/guarantee, `ApplyE.lean`, `Guarantee.lean`):

* **rely** — `notE`, `applyE op`, `iteE` are the algorithms of `apply_rec.rs` with an adversarial
  environment `env` invoked at every atomic point (entry of every recursive call, after the cache
  query, before node creation, before the cache add) and a schedule `sch` choosing at every fork
  which recursive call runs first. `EnvOK env` only demands that an environment step keeps
  `Unique`, `CacheOK` and the denotation of the edges the thread *holds*; it may add nodes,
  add/evict/overwrite/clear cache entries and free every node not reachable from held edges.
  `…E_spec`: for **every** such environment and schedule the result denotes the same tree as the
  sequential run (`applyBin op a b` etc.), the invariant holds afterwards, and all held edges
  still denote the same trees.
* **guarantee** — `step_guarantee`: every atomic action of the algorithms, the cache and the
  collector is itself an `EnvOK` step for everybody else; `runEnv_ok`: so is a complete operation
  of another thread.

Not covered (stated precisely at `schedule_independent_partial`): the real scheduler and memory
model (atomicity of the actions is assumed: level mutex, bucket spin lock), deadlock freedom,
exact reference counts (holding an edge is modelled by membership in the `held` list, not by
counters), and the resumption-level composition theorem for *fine-grained* interleaving of two
instrumented threads (only its two ingredients are proved).
-/
namespace OxiddModel.Bdd.C07
open OxiddModel.Bdd OxiddModel.Bdd.BDD OxiddModel.Bdd.Refine

/-! ## rely: each algorithm is correct against every admissible environment -/

/-- **`apply_not` under interference.** For every `EnvOK` environment, every schedule, step
numbering `k` and every list `held` of edges owned by callers: the result denotes `applyNot a`
(the sequential result, cf. `C06.notS_spec`), `Unique ∧ CacheOK` hold afterwards, and `f` and all
`held` edges still denote the same trees. -/
theorem notE_spec {p : Policy} (pok : p.OK) {env : Env} (hok : EnvOK env) (sch : Sched)
    (fuel k : Nat) (held : List Edge) (st : St) (f : Edge) (a : BDD)
    (hu : st.store.Unique) (hc : CacheOK st.store st.cache) (hf : Denotes st.store f a)
    (hfuel : a.size ≤ fuel) :
    Denotes (notE p env sch fuel k held st f).1.store (notE p env sch fuel k held st f).2.1
      (applyNot a) ∧
    (notE p env sch fuel k held st f).1.store.Unique ∧
    CacheOK (notE p env sch fuel k held st f).1.store (notE p env sch fuel k held st f).1.cache ∧
    StableOn (f :: held) st.store (notE p env sch fuel k held st f).1.store :=
  have P := Refine.notE_spec pok hok sch fuel k held st f a ⟨hu, hc⟩ hf hfuel
  ⟨P.den, P.inv.1, P.inv.2, P.stable⟩

/-- **`apply_bin::<OP>` under interference**, for each of the eight operators. The environment
quantifier ranges over all interleavings with other threads' operations and the collector; the
schedule quantifier over all fork orders of the parallel recursor. -/
theorem applyE_spec {p : Policy} (pok : p.OK) {env : Env} (hok : EnvOK env) (sch : Sched) (op : Op)
    (fuel k : Nat) (held : List Edge) (st : St) (f g : Edge) (a b : BDD)
    (hu : st.store.Unique) (hc : CacheOK st.store st.cache)
    (hf : Denotes st.store f a) (hg : Denotes st.store g b) (hfuel : a.size + b.size ≤ fuel) :
    Denotes (applyE p env sch op fuel k held st f g).1.store
      (applyE p env sch op fuel k held st f g).2.1 (applyBin op a b) ∧
    (applyE p env sch op fuel k held st f g).1.store.Unique ∧
    CacheOK (applyE p env sch op fuel k held st f g).1.store
      (applyE p env sch op fuel k held st f g).1.cache ∧
    StableOn (f :: g :: held) st.store (applyE p env sch op fuel k held st f g).1.store :=
  have P := Refine.applyE_spec pok hok sch op fuel k held st f g a b ⟨hu, hc⟩ hf hg hfuel
  ⟨P.den, P.inv.1, P.inv.2, P.stable⟩

/-- **`apply_ite` under interference**, including its delegations. -/
theorem iteE_spec {p : Policy} (pok : p.OK) {env : Env} (hok : EnvOK env) (sch : Sched)
    (fuel k : Nat) (held : List Edge) (st : St) (f g h : Edge) (a b c : BDD)
    (hu : st.store.Unique) (hc : CacheOK st.store st.cache)
    (hf : Denotes st.store f a) (hg : Denotes st.store g b) (hh : Denotes st.store h c)
    (hfuel : a.size + b.size + c.size ≤ fuel) :
    Denotes (iteE p env sch fuel k held st f g h).1.store
      (iteE p env sch fuel k held st f g h).2.1 (applyIte a b c) ∧
    (iteE p env sch fuel k held st f g h).1.store.Unique ∧
    CacheOK (iteE p env sch fuel k held st f g h).1.store
      (iteE p env sch fuel k held st f g h).1.cache ∧
    StableOn (f :: g :: h :: held) st.store (iteE p env sch fuel k held st f g h).1.store :=
  have P := Refine.iteE_spec pok hok sch fuel k held st f g h a b c ⟨hu, hc⟩ hf hg hh hfuel
  ⟨P.den, P.inv.1, P.inv.2, P.stable⟩

/-- **Same handle as the sequential run.** If the sequential result is present in the manager
(as the held edge `x`, e.g. a handle the user already owns), the concurrent run returns exactly
`x` — for every environment and schedule. (In general the *denotation* equals the sequential one
and hash consing makes the edge for it unique in every store, cf. `Refine.inj_of_unique`; which
slot id a *new* node gets depends on the allocation order, in the real code as in the model.) -/
theorem applyE_returns_existing {p : Policy} (pok : p.OK) {env : Env} (hok : EnvOK env)
    (sch : Sched) (op : Op) (fuel k : Nat) (held : List Edge) (st : St) (f g x : Edge) (a b : BDD)
    (hu : st.store.Unique) (hc : CacheOK st.store st.cache)
    (hf : Denotes st.store f a) (hg : Denotes st.store g b) (hfuel : a.size + b.size ≤ fuel)
    (hx : Denotes st.store x (applyBin op a b)) (hheld : x ∈ held) :
    (applyE p env sch op fuel k held st f g).2.1 = x := by
  have P := Refine.applyE_spec pok hok sch op fuel k held st f g a b ⟨hu, hc⟩ hf hg hfuel
  have hx' := P.stable x (mem_tail2 _ hheld) _ hx
  exact inj_of_unique P.inv.1 _ _ _ P.den hx'

/-! ## guarantee -/

/-- **Every atomic action is an admissible environment step for every other thread**: node
creation (`reduce`/`get_or_insert`), cache query, cache add of a sound entry through any
admissible policy, cache clear, and a collection pass (`Action.gc roots`: clear the cache, then
free every node that is referenced neither by a stored node nor by an edge somebody holds) keep
`Unique ∧ CacheOK` and the denotation of any list `H` of held edges (for the collector:
`H ⊆ roots`). -/
theorem step_guarantee (a : Action) (st : St) (H : List Edge) (hu : st.store.Unique)
    (hc : CacheOK st.store st.cache) (hpre : a.Pre st) (hprot : a.Protects H) :
    (a.run st).store.Unique ∧ CacheOK (a.run st).store (a.run st).cache ∧
    StableOn H st.store (a.run st).store :=
  have h := Refine.step_guarantee a st H ⟨hu, hc⟩ hpre hprot
  ⟨h.1.1, h.1.2, h.2⟩

/-- the store-changing actions of the *algorithms* (`mk`, `cacheGet`, `cacheAdd`, `cacheClear`)
only extend the store -/
theorem step_extends (a : Action) (st : St) (h : ∀ roots, a ≠ .gc roots) :
    st.store.Le (a.run st).store := by
  cases a with
  | mk l t e => exact mkNode_le _ _ _ _
  | cacheGet => exact Store.Le.refl _
  | cacheAdd p k r => exact Store.Le.refl _
  | cacheClear => exact Store.Le.refl _
  | gc roots => exact absurd rfl (h roots)

/-- environments assembled from arbitrary atomic actions (chosen per step from the state and the
held edges, respecting the actions' preconditions) are admissible -/
theorem envOK_of_actions (pick : Nat → List Edge → St → Action)
    (hpre : ∀ k H st, Refine.Inv st → (pick k H st).Pre st) (hprot : ∀ k H st, (pick k H st).Protects H) :
    EnvOK (fun k H st => (pick k H st).run st) := Refine.envOK_of_actions pick hpre hprot

/-- **Threads are each other's environments (call granularity).** A complete `apply_bin` of
another thread — itself running against `env` and holding the observer's edges `H` in addition to
its own — is an admissible environment step. -/
theorem runEnv_ok {p : Policy} (pok : p.OK) {env : Env} (hok : EnvOK env) (sch : Sched) (op : Op)
    (fuel : Nat) (f g : Edge) : EnvOK (runEnv p env sch op fuel f g) :=
  Refine.runEnv_ok pok hok sch op fuel f g

/-! ## fork/join -/

/-- **Fork/join of the parallel recursor.** The then-branch call `(f1, g1)` evaluated against an
environment that, at *every* atomic point, additionally performs the complete else-branch call
`(f0, g0)`, and symmetrically the else-branch against the then-branch: both yield the edges
denoting `applyBin op a1 b1` resp. `applyBin op a0 b0`, exactly as in the sequential order. (The
order in which the two calls are *started* is the schedule `sch`, over which `applyE_spec` is
universally quantified.) -/
theorem par_split {p : Policy} (pok : p.OK) {env : Env} (hok : EnvOK env) (sch : Sched) (op : Op)
    (fuel k : Nat) (held : List Edge) (st : St) (f1 g1 f0 g0 : Edge) (a1 b1 a0 b0 : BDD)
    (hu : st.store.Unique) (hc : CacheOK st.store st.cache)
    (h1f : Denotes st.store f1 a1) (h1g : Denotes st.store g1 b1)
    (h0f : Denotes st.store f0 a0) (h0g : Denotes st.store g0 b0)
    (hfuel1 : a1.size + b1.size ≤ fuel) (hfuel0 : a0.size + b0.size ≤ fuel) :
    let envT : Env := fun k H s => runEnv p env sch op fuel f0 g0 k H (env k H s)
    let envE : Env := fun k H s => runEnv p env sch op fuel f1 g1 k H (env k H s)
    let RT := applyE p envT sch op fuel k (f0 :: g0 :: held) st f1 g1
    let RE := applyE p envE sch op fuel k (f1 :: g1 :: held) st f0 g0
    (Denotes RT.1.store RT.2.1 (applyBin op a1 b1) ∧ Denotes RT.1.store f0 a0 ∧
      Denotes RT.1.store g0 b0) ∧
    (Denotes RE.1.store RE.2.1 (applyBin op a0 b0) ∧ Denotes RE.1.store f1 a1 ∧
      Denotes RE.1.store g1 b1) := by
  intro envT envE RT RE
  have okT : EnvOK envT := EnvOK.comp hok (Refine.runEnv_ok pok hok sch op fuel f0 g0)
  have okE : EnvOK envE := EnvOK.comp hok (Refine.runEnv_ok pok hok sch op fuel f1 g1)
  have PT := Refine.applyE_spec pok okT sch op fuel k (f0 :: g0 :: held) st f1 g1 a1 b1 ⟨hu, hc⟩
    h1f h1g hfuel1
  have PE := Refine.applyE_spec pok okE sch op fuel k (f1 :: g1 :: held) st f0 g0 a0 b0 ⟨hu, hc⟩
    h0f h0g hfuel0
  exact ⟨⟨PT.den, PT.stable f0 (by simp) _ h0f, PT.stable g0 (by simp) _ h0g⟩,
    ⟨PE.den, PE.stable f1 (by simp) _ h1f, PE.stable g1 (by simp) _ h1g⟩⟩

/-- two runs of the same operation under *different* schedules and *different* environments
(e.g. sequential vs. parallel with other threads and the collector active) return edges denoting
the same tree -/
theorem schedule_env_independent {p1 p2 : Policy} (ok1 : p1.OK) (ok2 : p2.OK) {env1 env2 : Env}
    (h1 : EnvOK env1) (h2 : EnvOK env2) (sch1 sch2 : Sched) (op : Op) (fuel k1 k2 : Nat)
    (held1 held2 : List Edge) (st : St) (f g : Edge) (a b : BDD)
    (hu : st.store.Unique) (hc : CacheOK st.store st.cache)
    (hf : Denotes st.store f a) (hg : Denotes st.store g b) (hfuel : a.size + b.size ≤ fuel) :
    ∃ T, Denotes (applyE p1 env1 sch1 op fuel k1 held1 st f g).1.store
          (applyE p1 env1 sch1 op fuel k1 held1 st f g).2.1 T ∧
      Denotes (applyE p2 env2 sch2 op fuel k2 held2 st f g).1.store
          (applyE p2 env2 sch2 op fuel k2 held2 st f g).2.1 T ∧
      Denotes (applyS p1 op fuel st f g).1.store (applyS p1 op fuel st f g).2 T :=
  ⟨applyBin op a b,
    (Refine.applyE_spec ok1 h1 sch1 op fuel k1 held1 st f g a b ⟨hu, hc⟩ hf hg hfuel).den,
    (Refine.applyE_spec ok2 h2 sch2 op fuel k2 held2 st f g a b ⟨hu, hc⟩ hf hg hfuel).den,
    (Refine.applyS_spec ok1 op fuel st f g a b ⟨hu, hc⟩ hf hg hfuel).den⟩

/-! ## the composed statement -/

/-- **Schedule independence (partial).** Per-thread correctness against all admissible
environments and schedules (*rely*), together with: every atomic action and every complete
operation of a thread is an admissible environment step for the others (*guarantee*).

Full statement (not proved as one theorem): *for every finite set of threads running
`notE/applyE/iteE` programs, a collector thread, and every interleaving of their atomic actions,
each operation returns the edge denoting the tree-level result and the final state satisfies the
invariant.* What is missing between the conjuncts below and that statement:

* the **resumption-level composition**: exhibiting each thread as a sequence of `Action`s whose
  preconditions hold when executed (for `cacheAdd` this is exactly the `EntryOK` fact established
  inside `finishE_post`) and folding `step_guarantee` over an interleaving — the standard parallel
  composition rule of rely/guarantee; here composition is proved only at call granularity
  (`runEnv_ok`, `par_split`);
* **atomicity** of the actions is assumed (in the code: level mutex around `get_or_insert` and the
  `gc` of that level, bucket spin lock with `try_lock`, all buckets locked during `gc`); the
  memory model (Release/Acquire on reference counts) is outside the model;
* **deadlock freedom / termination** of the real lock protocol and the worker pool;
* **exact reference counts**: "held" is a list of edges, the collector receives the union of all
  held lists as `roots`; that the counters compute this set is property C05. -/
theorem schedule_independent_partial {p : Policy} (pok : p.OK) :
    -- rely: every operation is correct against every admissible environment and schedule
    (∀ (env : Env), EnvOK env → ∀ (sch : Sched) (op : Op) (fuel k : Nat) (held : List Edge) (st : St)
      (f g : Edge) (a b : BDD), Refine.Inv st → Denotes st.store f a → Denotes st.store g b →
      a.size + b.size ≤ fuel →
      PostE st.store (f :: g :: held) (applyBin op a b) (applyE p env sch op fuel k held st f g)) ∧
    (∀ (env : Env), EnvOK env → ∀ (sch : Sched) (fuel k : Nat) (held : List Edge) (st : St)
      (f : Edge) (a : BDD), Refine.Inv st → Denotes st.store f a → a.size ≤ fuel →
      PostE st.store (f :: held) (applyNot a) (notE p env sch fuel k held st f)) ∧
    (∀ (env : Env), EnvOK env → ∀ (sch : Sched) (fuel k : Nat) (held : List Edge) (st : St)
      (f g h : Edge) (a b c : BDD), Refine.Inv st → Denotes st.store f a → Denotes st.store g b →
      Denotes st.store h c → a.size + b.size + c.size ≤ fuel →
      PostE st.store (f :: g :: h :: held) (applyIte a b c) (iteE p env sch fuel k held st f g h)) ∧
    -- guarantee: atomic actions and whole operations are admissible environment steps
    (∀ (a : Action) (st : St) (H : List Edge), Refine.Inv st → a.Pre st → a.Protects H →
      Refine.Inv (a.run st) ∧ StableOn H st.store (a.run st).store) ∧
    (∀ (env : Env), EnvOK env → ∀ (sch : Sched) (op : Op) (fuel : Nat) (f g : Edge),
      EnvOK (runEnv p env sch op fuel f g)) :=
  ⟨fun _ hok sch op fuel k held st f g a b => Refine.applyE_spec pok hok sch op fuel k held st f g a b,
   fun _ hok sch fuel k held st f a => Refine.notE_spec pok hok sch fuel k held st f a,
   fun _ hok sch fuel k held st f g h a b c =>
     Refine.iteE_spec pok hok sch fuel k held st f g h a b c,
   fun a st H => Refine.step_guarantee a st H,
   fun _ hok sch op fuel f g => Refine.runEnv_ok pok hok sch op fuel f g⟩

/-! ## non-vacuity: a concrete adversarial environment that really changes the store -/

open OxiddModel.Bdd.C06

/-- at even steps: a full collection (cache cleared, every node that is neither held nor
referenced is freed); at odd steps: another thread creates the node `¬x_{k+7}` and the time stamp
moves on -/
def exEnv : Env := fun k H st =>
  if k % 2 == 0 then (Action.gc H).run st
  else (Action.mk (k + 7) (.term false) (.term true)).run st

theorem exEnv_ok : EnvOK exEnv := by
  have := Refine.envOK_of_actions
    (fun k H _ => if k % 2 == 0 then Action.gc H else Action.mk (k + 7) (.term false) (.term true))
    (fun k H st _ => by split <;> trivial)
    (fun k H st => by split <;> simp [Action.Protects])
  intro k H st hinv
  have h := this k H st hinv
  simp only [exEnv]
  split <;> simp_all

/-- the environment really frees nodes: with only `x0 ∧ x1` (#1) held, the collection at step 0
removes `x0 ∨ x1` (#2) … -/
example : (exEnv 0 [.inner 1] ⟨exStore, exCache, 0⟩).store.nodes =
    #[some ⟨1, .term true, .term false⟩, some ⟨0, .inner 0, .term false⟩, none] ∧
    (exEnv 0 [.inner 1] ⟨exStore, exCache, 0⟩).cache = [] := by decide +kernel

/-- … and really creates nodes -/
example : (exEnv 1 [] ⟨exStore, exCache, 0⟩).store.nodes =
    #[some ⟨1, .term true, .term false⟩, some ⟨0, .inner 0, .term false⟩,
      some ⟨0, .term true, .inner 0⟩, some ⟨8, .term false, .term true⟩] := by decide +kernel

/-- a concrete run of `(x0 ∧ x1) ⊕ (x0 ∨ x1)` under `exEnv`, else-branch first at even forks,
with a capacity-1 cache: the theorem applies (all hypotheses are satisfiable) … -/
example :
    let R := applyE (Policy.dm 1 (fun _ => 0) (fun _ => true)) exEnv (fun k => k % 2 == 1) .xor 10
      0 [] ⟨exStore, exCache, 0⟩ (.inner 1) (.inner 2)
    Denotes R.1.store R.2.1 (applyBin .xor exAnd exOr) ∧ R.1.store.Unique ∧
    CacheOK R.1.store R.1.cache ∧ StableOn [.inner 1, .inner 2] exStore R.1.store :=
  applyE_spec (Policy.dm_ok _ _ _) exEnv_ok _ .xor 10 0 [] ⟨exStore, exCache, 0⟩ (.inner 1)
    (.inner 2) exAnd exOr exStore_unique exCache_ok exStore_and exStore_or (by decide)

/-- … and its concrete outcome: the same result edge `#4` as the sequential run (see
`PropertiesC06`), although the store was swept six times in between (the operands' and the
partial results' nodes survived because they were held) and a foreign node is left at the end -/
example :
    let R := applyE (Policy.dm 1 (fun _ => 0) (fun _ => true)) exEnv (fun k => k % 2 == 1) .xor 10
      0 [] ⟨exStore, exCache, 0⟩ (.inner 1) (.inner 2)
    R.2.1 = .inner 4 ∧ R.2.2 = 12 ∧
    R.1.cache = [((.xor, [.inner 1, .inner 2]), .inner 4)] ∧
    R.1.store.nodes =
      #[some ⟨1, .term true, .term false⟩, some ⟨0, .inner 0, .term false⟩,
        some ⟨0, .term true, .inner 0⟩, some ⟨1, .term false, .term true⟩,
        some ⟨0, .inner 3, .inner 0⟩, some ⟨18, .term false, .term true⟩] := by decide +kernel

/-- non-vacuity of `notE_spec`, `iteE_spec` under `exEnv` -/
example :
    let R := notE Policy.exact exEnv (fun _ => true) 5 0 [.inner 1] ⟨exStore, exCache, 0⟩ (.inner 2)
    Denotes R.1.store R.2.1 (applyNot exOr) ∧ R.1.store.Unique ∧ CacheOK R.1.store R.1.cache ∧
      StableOn [.inner 2, .inner 1] exStore R.1.store :=
  notE_spec Policy.exact_ok exEnv_ok _ 5 0 [.inner 1] ⟨exStore, exCache, 0⟩ (.inner 2) exOr
    exStore_unique exCache_ok exStore_or (by decide)

example :
    let R := iteE Policy.exact exEnv (fun k => k % 3 == 0) 13 0 [] ⟨exStore, exCache, 0⟩
      (.inner 0) (.inner 1) (.inner 2)
    Denotes R.1.store R.2.1 (applyIte exX1 exAnd exOr) ∧ R.1.store.Unique ∧
      CacheOK R.1.store R.1.cache ∧ StableOn [.inner 0, .inner 1, .inner 2] exStore R.1.store :=
  iteE_spec Policy.exact_ok exEnv_ok _ 13 0 [] ⟨exStore, exCache, 0⟩ (.inner 0) (.inner 1) (.inner 2)
    exX1 exAnd exOr exStore_unique exCache_ok exStore_x1 exStore_and exStore_or (by decide)

/-- non-vacuity of `step_guarantee` for the collector: with `#1` held, `#1` keeps its meaning
although `#2` is freed -/
example : StableOn [.inner 1] exStore ((Action.gc [.inner 1]).run ⟨exStore, exCache, 0⟩).store :=
  (step_guarantee (.gc [.inner 1]) ⟨exStore, exCache, 0⟩ [.inner 1] exStore_unique exCache_ok
    trivial (fun _ h => h)).2.2

/-- non-vacuity of `par_split`: the two cofactor calls of `(x0 ∧ x1) ⊕ (x0 ∨ x1)` at level 0, i.e.
`x1 ⊕ ⊤` and `⊥ ⊕ x1`, each against the other one plus `exEnv` -/
example := par_split Policy.exact_ok exEnv_ok (fun _ => true) .xor 4 0 [] ⟨exStore, exCache, 0⟩
  (.inner 0) (.term true) (.term false) (.inner 0) exX1 (.leaf true) (.leaf false) exX1
  exStore_unique exCache_ok exStore_x1 .term .term exStore_x1 (by decide) (by decide)

/-- non-vacuity of `applyE_returns_existing`: `(x0 ∧ x1) ∧ (x0 ∨ x1)` with the result `#1` held -/
example : (applyE Policy.exact exEnv (fun _ => false) .and 10 0 [.inner 1] ⟨exStore, [], 0⟩
    (.inner 1) (.inner 2)).2.1 = .inner 1 :=
  applyE_returns_existing Policy.exact_ok exEnv_ok _ .and 10 0 [.inner 1] ⟨exStore, [], 0⟩
    (.inner 1) (.inner 2) (.inner 1) exAnd exOr exStore_unique (CacheOK.nil _) exStore_and
    exStore_or (by decide)
    (by have e : applyBin .and exAnd exOr = exAnd := by decide +kernel
        rw [e]; exact exStore_and)
    (by simp)

end OxiddModel.Bdd.C07
