import OxiddModel.Bdd.LockStepsReduce
import OxiddModel.Bdd.LockStepsBad
import OxiddModel.Bdd.LockStepsLive
import OxiddModel.Bdd.PropertiesC07T
import OxiddModel.Locks.Properties

/-!
# C07 — the atomicity assumption of the interleaving proofs, discharged by the locks

`PropertiesC07T` proves that every interleaving of the *atomic actions* (`get_or_insert`, cache
query, cache insertion, one level's sweep, `gcBegin`/`gcEnd`) is correct, and lists the atomicity
of these actions as an assumption. This file replaces the assumption by the semantics of the
locks: `LThreads` (`LockSteps.lean`) splits every action into the micro-steps the code executes —
`lock` / read / write / `unlock`, `try_lock` / compare / copy / `unlock`, the collector's
`try_lock(gc_ongoing)`, `lock` + `clear` of every bucket, per level `lock` / sweep / `unlock`,
`unlock` of every bucket, `unlock(gc_ongoing)` — with a lock table in the shared state, `lock`
enabled only while the lock is free, every protected access enabled only for the owner, and **any
interleaving of micro-steps**.

* `mutual_exclusion`, `critical_sections_exclusive`, `thread_excludes_collector` — in every
  reachable configuration every task inside a critical section owns the lock of that section in
  the lock table (one owner per lock), so no two actors are inside critical sections of the same
  lock; the collector owns exactly what its control state says.
* `reduction` — every run of `LThreads` is a run of `Threads` (`runB`) in which each critical
  section is ONE step taken at its commit point (the labels the machine emits), with the same
  store, time stamp, thread states and — outside an incomplete `pre_gc` — the same cache.
* `interleaving_correct_locked`, `interleaving_invariant_locked` — the headline theorems of
  `PropertiesC07T` for `LThreads`: no atomicity assumption, only the lock semantics.
* `lthreads_rows_ranked`, `lthreads_no_deadlock_rows` — the lock programs of the `LThreads`
  actions are rows of the table of `Locks.Model`, hence ranked and deadlock free
  (`Locks.Properties.no_deadlock_all`); `guards_never_fail_partial` see below.
* negative witnesses: `LockStepsBad.lean` (re-exported at the end).
-/
namespace OxiddModel.Bdd.C07L
open OxiddModel.Bdd OxiddModel.Bdd.BDD OxiddModel.Bdd.Refine OxiddModel.Bdd.Threads
open OxiddModel.Bdd.LThreads
open OxiddModel.Locks (Lock)

/-! ## 2. mutual exclusion -/

/-- **`mutual_exclusion`.** In every configuration reachable from an initial one (no lock owned, no
operation in progress, collector idle) by any interleaving of micro-steps:

* every leaf of every thread's call tree that is inside a cache query / insertion on bucket `b`
  owns `bucket b`, every leaf inside `get_or_insert` on level `l` (after `lock`, before `unlock`)
  owns `level l` — *in the lock table*, which has one owner per lock — and a lookup that missed
  still misses (`TInv`);
* the collector owns `gc_ongoing` whenever it is not idle, the buckets `0 … b-1` while locking
  bucket `b`, all buckets from the end of `pre_gc` to `post_gc`, and the level it sweeps (`GcInv`).

Since every read and write of a bucket, of a level's table and the release of `gc_ongoing` is
guarded by ownership in the machine (`guardOwn`, the `if … = some .gc` of `gcStep`), every such
access is performed by the owner of its lock. -/
theorem mutual_exclusion {cp : CachePar} {c0 c : LCfg} (h0 : LInit0 c0)
    (hr : Reach .code cp c0 c) : CInv cp c :=
  CInv.reach hr h0.cinv

/-- the critical sections the leaves of a task tree are in: lock and owner -/
def csOf (cp : CachePar) (tid : Nat) : List Bool → LTask → List (Lock × Who)
  | pos, .cget _ _ key _ => [(.bucket (cp.bkt key), .task tid pos)]
  | pos, .cadd key _ _ => [(.bucket (cp.bkt key), .task tid pos)]
  | pos, .red _ fr _ _ ph =>
    match ph with
    | .gap => []
    | _ => [(.level fr.lvl, .task tid pos)]
  | pos, .seq1 _ _ t => csOf cp tid pos t
  | pos, .seq0 _ _ t => csOf cp tid pos t
  | pos, .par _ t1 t0 => csOf cp tid (pos ++ [true]) t1 ++ csOf cp tid (pos ++ [false]) t0
  | _, _ => []

theorem TInv.csOf {sh : Sh} {cp : CachePar} {tid : Nat} :
    ∀ (t : LTask) (pos : List Bool), TInv sh cp tid pos t →
      ∀ x, x ∈ csOf cp tid pos t → sh.locks x.1 = some x.2 := by
  intro t
  induction t with
  | call | miss | made | ret => intro pos _ x hx; simp [C07L.csOf] at hx
  | cget d c key ph => intro pos h x hx; simp [C07L.csOf] at hx; subst hx; exact h.2
  | cadd key r ph => intro pos h x hx; simp [C07L.csOf] at hx; subst hx; exact h
  | seq1 fr c0 t1 ih => intro pos h x hx; exact ih pos h x hx
  | seq0 fr r1 t0 ih => intro pos h x hx; exact ih pos h x hx
  | par fr t1 t0 ih1 ih0 =>
    intro pos h x hx
    simp only [C07L.csOf, List.mem_append] at hx
    rcases hx with hx | hx
    · exact ih1 _ h.1 x hx
    · exact ih0 _ h.2 x hx
  | red isPar fr r1 r0 ph =>
    intro pos h x hx
    cases ph with
    | gap => simp [C07L.csOf] at hx
    | relocked => exact absurd h.2 (by simp [MkInv])
    | locked => simp [C07L.csOf] at hx; subst hx; exact h.2
    | missed => simp [C07L.csOf] at hx; subst hx; exact h.2.1
    | done r => simp [C07L.csOf] at hx; subst hx; exact h.2

/-- **No two tasks are inside critical sections of the same lock**: if a leaf of thread `i` and a
leaf of thread `j` (the same or another thread, the same or another fork branch) are both inside
a critical section of lock `L`, they are the same task (same thread, same position). -/
theorem critical_sections_exclusive {cp : CachePar} {c0 c : LCfg} (h0 : LInit0 c0)
    (hr : Reach .code cp c0 c) {i j : Nat} {thi thj : LThread} {ti tj : LTask}
    (hi : c.threads[i]? = some thi) (hj : c.threads[j]? = some thj)
    (hci : thi.cur = some ti) (hcj : thj.cur = some tj) {L : Lock} {w1 w2 : Who}
    (h1 : (L, w1) ∈ csOf cp i [] ti) (h2 : (L, w2) ∈ csOf cp j [] tj) : w1 = w2 := by
  have hinv := mutual_exclusion h0 hr
  have e1 := TInv.csOf ti [] (hinv.tasks i thi ti hi hci) _ h1
  have e2 := TInv.csOf tj [] (hinv.tasks j thj tj hj hcj) _ h2
  rw [e1] at e2
  exact Option.some.inj e2

/-- **A task inside a critical section excludes the collector**: while a leaf of a thread is inside
a cache access on bucket `b`, the collector does not own `b` — in particular it is not between
`gcBegin` and `gcEnd` and has not yet cleared `b`; while a leaf is inside `get_or_insert` on
level `l`, the collector is not sweeping `l`. -/
theorem thread_excludes_collector {cp : CachePar} {c0 c : LCfg} (h0 : LInit0 c0)
    (hr : Reach .code cp c0 c) {i : Nat} {th : LThread} {t : LTask}
    (hi : c.threads[i]? = some th) (hc : th.cur = some t) {w : Who} :
    (∀ b, (Lock.bucket b, w) ∈ csOf cp i [] t → gcHolds cp.cap c.gc b = false) ∧
    (∀ l, (Lock.level l, w) ∈ csOf cp i [] t → c.gc ≠ .lvlLocked l ∧ c.gc ≠ .lvlSwept l) := by
  have hinv := mutual_exclusion h0 hr
  have hw : ∀ L, (L, w) ∈ csOf cp i [] t → ∃ pos, w = .task i pos ∧ c.sh.locks L = some w := by
    intro L hm
    have e := TInv.csOf t [] (hinv.tasks i th t hi hc) _ hm
    suffices ∀ (t : LTask) (pos : List Bool), (L, w) ∈ csOf cp i pos t → ∃ q, w = .task i q from by
      obtain ⟨q, hq⟩ := this t [] hm
      exact ⟨q, hq, e⟩
    intro t
    induction t with
    | call | miss | made | ret => intro pos hx; simp [csOf] at hx
    | cget d c key ph => intro pos hx; simp [csOf] at hx; exact ⟨pos, hx.2⟩
    | cadd key r ph => intro pos hx; simp [csOf] at hx; exact ⟨pos, hx.2⟩
    | seq1 fr c0 t1 ih => intro pos hx; exact ih pos hx
    | seq0 fr r1 t0 ih => intro pos hx; exact ih pos hx
    | par fr t1 t0 ih1 ih0 =>
      intro pos hx
      simp only [csOf, List.mem_append] at hx
      rcases hx with hx | hx
      · exact ih1 _ hx
      · exact ih0 _ hx
    | red isPar fr r1 r0 ph =>
      intro pos hx
      cases ph <;> simp [csOf] at hx <;> exact ⟨pos, hx.2⟩
  constructor
  · intro b hm
    obtain ⟨q, rfl, e⟩ := hw _ hm
    cases hg : gcHolds cp.cap c.gc b with
    | false => rfl
    | true => rw [hinv.gc.buckets b hg] at e; cases e
  · intro l hm
    obtain ⟨q, rfl, e⟩ := hw _ hm
    constructor
    · intro hpc; rw [hinv.gc.level l (.inl hpc)] at e; cases e
    · intro hpc; rw [hinv.gc.level l (.inr hpc)] at e; cases e

/-! ## 3. reduction -/

/-- **`reduction`.** Let `c0` be an initial configuration, `ss` ANY schedule of micro-steps
(thread steps with arbitrary `par` paths and collector steps in any order; selected steps that are
not enabled are skipped) and `ls` the commit labels the run emits. Then the run of the machine of
`Threads.lean` from the corresponding configuration along `ls` — every critical section ONE
atomic step, taken at its commit point, under the direct-mapped cache policy with the outcome of
that access's `try_lock` — ends in the configuration the `LThreads` run ends in:

* same unique table and time stamp,
* same threads: handles, remaining script, and the control state of every operation in progress
  (`LTask.abs`: before the commit point of a critical section the state before the atomic action,
  afterwards the state after it) — in particular every thread's results (`hs`) are equal,
* `gcActive` ⇔ the collector is between the commit points of `gcBegin` (last bucket cleared) and
  `gcEnd` (first bucket unlocked),
* same apply cache, except that while `pre_gc` is locking bucket `k` the entries in buckets `< k`
  (already cleared, owned by the collector, invisible to everybody) are still present in
  `Threads`' cache; equal whenever the collector is not inside `pre_gc`. -/
theorem reduction {cp : CachePar} (hcap : 0 < cp.cap) {c0 : LCfg} (h0 : LInit0 c0)
    (ss : List LSel) :
    let r := c0.run .code cp ss
    let ac := runB cp c0.abs0 r.2
    ac.st.store = r.1.sh.st.store ∧ ac.st.tick = r.1.sh.st.tick ∧
    ac.threads = r.1.threads.map LThread.abs ∧
    ac.gcActive = gcActiveOf r.1.gc ∧
    r.1.sh.st.cache = ac.st.cache.filter (fun x => decide (clearedOf r.1.gc ≤ cp.bkt x.1)) ∧
    (clearedOf r.1.gc = 0 → r.1.sh.st.cache = ac.st.cache) := by
  intro r ac
  have hR := (sim_run hcap ss c0 c0.abs0 h0.cinv (R_init h0)).2
  refine ⟨hR.st.store, hR.st.tick, hR.threads, hR.active, hR.st.cache, fun hz => ?_⟩
  have := hR.st.cache
  rw [hz] at this
  rw [this]
  exact List.filter_eq_self.mpr (fun _ _ => by simp)

/-- every thread's results are those of the atomic run -/
theorem reduction_results {cp : CachePar} (hcap : 0 < cp.cap) {c0 : LCfg} (h0 : LInit0 c0)
    (ss : List LSel) (i : Nat) (th : LThread)
    (hi : (c0.run .code cp ss).1.threads[i]? = some th) :
    ∃ tha, (runB cp c0.abs0 (c0.run .code cp ss).2).threads[i]? = some tha ∧
      tha.hs = th.hs ∧ tha.script = th.script ∧ tha.done = th.done := by
  have h := (reduction hcap h0 ss).2.2.1
  refine ⟨th.abs, by rw [h]; simp [hi], rfl, rfl, ?_⟩
  simp [Thread.done, LThread.done, LThread.abs]

/-! ## the headline theorems of `PropertiesC07T` for `LThreads` -/

/-- initial configurations of `LThreads`: an initial configuration of `Threads`
(`Threads.Init`: hash-consed store, sound cache, handles denoting the trees `ts0`) with all locks
free and the collector idle -/
structure LInit (c : LCfg) (ts0 : Nat → List (Option BDD)) : Prop where
  locks : LInit0 c
  init : Init c.abs0 ts0

theorem allDone_abs {lc : LCfg} {ac : Cfg} (h : ac.threads = lc.threads.map LThread.abs)
    (hd : lc.allDone = true) : ac.allDone = true := by
  simp only [Cfg.allDone, LCfg.allDone, List.all_eq_true] at hd ⊢
  intro x hx
  rw [h, List.mem_map] at hx
  obtain ⟨th, hth, rfl⟩ := hx
  have := hd th hth
  simpa [Thread.done, LThread.done, LThread.abs] using this

/-- **Never corrupted, at every moment, with the locks instead of the atomicity assumption.**
After any schedule prefix of micro-steps: the unique table is hash-consed, the apply cache is sound
(every entry's result denotes the tree its key specifies), every handle denotes a tree. -/
theorem interleaving_invariant_locked {cp : CachePar} (hcap : 0 < cp.cap) (c0 : LCfg)
    (ts0 : Nat → List (Option BDD)) (hinit : LInit c0 ts0) (ss : List LSel) :
    (c0.run .code cp ss).1.sh.st.store.Unique ∧
    CacheOK (c0.run .code cp ss).1.sh.st.store (c0.run .code cp ss).1.sh.st.cache ∧
    ∀ (i : Nat) (th : LThread), (c0.run .code cp ss).1.threads[i]? = some th →
      ∃ ts, HsDen (c0.run .code cp ss).1.sh.st.store th.hs ts := by
  have hR := (sim_run hcap ss c0 c0.abs0 hinit.locks.cinv (R_init hinit.locks)).2
  obtain ⟨B', hG⟩ := runB_ginv cp (c0.run .code cp ss).2 (ginv_init hinit.init)
  rw [← hR.st.store]
  refine ⟨hG.1.1, ?_, fun i th hi => ?_⟩
  · refine CacheOK.sub hG.1.2 (fun x hx => ?_)
    rw [hR.st.cache] at hx
    exact (List.mem_filter.mp hx).1
  · have hth : (runB cp c0.abs0 (c0.run .code cp ss).2).threads[i]? = some th.abs := by
      rw [hR.threads]; simp [hi]
    obtain ⟨ts, hhs, _⟩ := (hG.2.2 i th.abs hth).1
    exact ⟨ts, hhs⟩

/-- **`interleaving_correct_locked`: every interleaving of micro-steps is correct.** For every
number of threads, scripts (`not`, the eight binary operators, `ite`, `clone`, `drop`), split
depths (sequential recursor and parallel recursor with its fork/join), every direct-mapped cache
(`cap > 0` buckets, any hash function) and **every schedule of micro-steps** — lock acquisitions,
reads, writes, releases of all tasks and of the collector interleaved in any order, `try_lock`s
failing whenever somebody owns the bucket — that runs all threads to completion:

* the final unique table is hash-consed and the final cache is sound,
* the set of threads is unchanged, and
* the handles of each thread `i` denote, slot by slot, `evalScript script_i (ts0 i)`: the result
  of executing its script **sequentially on trees** (`applyNot` / `applyBin op` / `applyIte`).

This is `PropertiesC07T.interleaving_correct` with its atomicity assumption replaced by the lock
semantics of `LThreads`. -/
theorem interleaving_correct_locked {cp : CachePar} (hcap : 0 < cp.cap) (c0 : LCfg)
    (ts0 : Nat → List (Option BDD)) (hinit : LInit c0 ts0) (ss : List LSel)
    (hdone : (c0.run .code cp ss).1.allDone = true) :
    (c0.run .code cp ss).1.sh.st.store.Unique ∧
    CacheOK (c0.run .code cp ss).1.sh.st.store (c0.run .code cp ss).1.sh.st.cache ∧
    (c0.run .code cp ss).1.threads.length = c0.threads.length ∧
    ∀ i th0, c0.threads[i]? = some th0 →
      ∃ th, (c0.run .code cp ss).1.threads[i]? = some th ∧
        HsDen (c0.run .code cp ss).1.sh.st.store th.hs (evalScript th0.script (ts0 i)) := by
  have hR := (sim_run hcap ss c0 c0.abs0 hinit.locks.cinv (R_init hinit.locks)).2
  obtain ⟨B', hG⟩ := runB_ginv cp (c0.run .code cp ss).2 (ginv_init hinit.init)
  have hI := interleaving_invariant_locked hcap c0 ts0 hinit ss
  have hlen : (c0.run .code cp ss).1.threads.length = c0.threads.length := by
    have h1 := runB_length cp (c0.run .code cp ss).2 c0.abs0
    rw [hR.threads] at h1
    simpa [LCfg.abs0] using h1
  refine ⟨hI.1, hI.2.1, hlen, fun i th0 hi => ?_⟩
  obtain ⟨th, hth⟩ := getElem?_some_of_lt (l := (c0.run .code cp ss).1.threads) (i := i)
    (by rw [hlen]; exact lt_of_getElem?_some hi)
  refine ⟨th, hth, ?_⟩
  have hath : (runB cp c0.abs0 (c0.run .code cp ss).2).threads[i]? = some th.abs := by
    rw [hR.threads]; simp [hth]
  have hd := (allDone_iff _).mp (allDone_abs hR.threads hdone) i th.abs hath
  have := (hG.2.2 i th.abs hath).1.final hd
  rw [← hR.st.store]
  have hs : specF c0.abs0 ts0 i = evalScript th0.script (ts0 i) := by
    simp [specF, LCfg.abs0, hi, LThread.abs]
  rw [hs] at this
  exact this

/-- the result of a single `apply_bin::<OP>`, spelled out -/
theorem interleaving_bin_correct_locked {cp : CachePar} (hcap : 0 < cp.cap) (c0 : LCfg)
    (ts0 : Nat → List (Option BDD)) (hinit : LInit c0 ts0) (ss : List LSel)
    (hdone : (c0.run .code cp ss).1.allDone = true) (i : Nat) (th0 : LThread) (op : Op) (j k : Nat)
    (a b : BDD) (hi : c0.threads[i]? = some th0) (hs : th0.script = [.bin op j k])
    (ha : hget (ts0 i) j = some a) (hb : hget (ts0 i) k = some b) :
    ∃ th r, (c0.run .code cp ss).1.threads[i]? = some th ∧ hget th.hs th0.hs.length = some r ∧
      Denotes (c0.run .code cp ss).1.sh.st.store r (applyBin op a b) := by
  obtain ⟨th, hth, hden⟩ := (interleaving_correct_locked hcap c0 ts0 hinit ss hdone).2.2.2 i th0 hi
  have hi' : c0.abs0.threads[i]? = some th0.abs := by simp [LCfg.abs0, hi]
  have hl : th0.hs.length = (ts0 i).length := (hinit.init.handles i th0.abs hi').1
  have : hget (evalScript th0.script (ts0 i)) th0.hs.length = some (applyBin op a b) := by
    rw [hs]
    simp only [evalScript, evalCmd, ha, hb]
    rw [hget_append, hl]; simp
  obtain ⟨r, hr, hd⟩ := hden.get this
  exact ⟨th, r, hth, hr, hd⟩

/-! ## 2./4. well-lockedness and deadlock freedom -/

/-- **`access_by_owner`: the programs are well-locked.** In every reachable configuration, a
selected step of a thread with an operation in progress is disabled **only** when its selected
leaf is about to execute the blocking `lock(level l)` of `get_or_insert` and `level l` is owned
(by another task or by the collector). No step is ever disabled because a read or write of a
bucket / of a level's table / a release would be performed by a task that does not own the lock:
the ownership guards of the machine never fail. (`try_lock` steps are always enabled.) -/
theorem access_by_owner {cp : CachePar} {c0 c : LCfg} (h0 : LInit0 c0) (hr : Reach .code cp c0 c)
    {tid : Nat} {path : List Bool} {th : LThread} {t : LTask}
    (hi : c.threads[tid]? = some th) (hc : th.cur = some t)
    (hdis : c.step .code cp (.thread tid path) = none) :
    ∃ l w, t.blockedOn path = some l ∧ c.sh.locks (.level l) = some w := by
  have hinv := mutual_exclusion h0 hr
  simp only [LCfg.step, hi, LThread.step, hc] at hdis
  cases hr' : t.ret? with
  | some r => simp [hr'] at hdis
  | none =>
    simp only [hr', Option.map_eq_none_iff] at hdis
    exact task_disabled_only_at_lock cp tid c.sh t [] path (hinv.tasks tid th t hi hc) hdis

/-- the same for the collector: it waits only in `lock(bucket b)` of `pre_gc` and in
`lock(level l)`, for a lock that is owned; every other step (including `try_lock(gc_ongoing)`,
`clear`, sweep and all releases) is enabled -/
theorem collector_access_by_owner {cp : CachePar} {c0 c : LCfg} (h0 : LInit0 c0)
    (hr : Reach .code cp c0 c) {ch : GcChoice} (hdis : c.step .code cp (.gc ch) = none) :
    (∃ b w, c.gc = .locking b ∧ c.sh.locks (.bucket b) = some w) ∨
    (∃ l w, c.gc = .levels ∧ ch = .level l ∧ c.sh.locks (.level l) = some w) ∨
    (∃ b, c.gc = .unlocking b ∧ cp.cap ≤ b) :=
  gc_disabled_only_at_lock (mutual_exclusion h0 hr).gc hdis

open OxiddModel.Locks in
/-- **the lock programs of `LThreads` are ranked rows of the `Locks` table**: for every number of
buckets and levels and every operation (any sequence of cache accesses, `get_or_insert`s and
forks), the row `.shared s` / `.subTask s` / `.gcExplicit` that the actor runs (table in
`LockStepsLive.lean`) satisfies the static discipline of `Locks.Model`: every blocking acquisition
while only locks of strictly smaller rank are held (a task holds no bucket and no other level when
it locks a level; the collector acquires `gc_ongoing` < buckets ascending < one level at a time),
`try_lock` never blocks, everything is released at the end -/
theorem lthreads_rows_ranked (d : Dims) (k : OpKind) (hk : IsLThreadsRow d k) :
    ok (disc d) k.isSub [] (opProg d k) = true :=
  acquisitions_ranked_all d k hk.valid

open OxiddModel.Locks in
/-- **`no_deadlock_lthreads_partial`.** Any finite set of threads running the lock programs of
`LThreads` actors (rows `IsLThreadsRow`: thread operations, fork branches, collectors; joined
threads are sub-tasks): no reachable configuration of the locking-protocol semantics of
`Locks.Model` is a deadlock (instance of `Locks.Properties.no_deadlock_all`).

Full statement (NOT proved): *for every configuration `c` of `LThreads` reachable from an initial
one, if some thread is not done or the collector is not idle then some selected step is enabled
and changes the configuration.* Proved towards it, on `LThreads` itself: the only disabled steps
are blocking `lock`s on owned locks (`access_by_owner`, `collector_access_by_owner`), and every
owner recorded in the lock table for a task in a critical section is that task
(`mutual_exclusion`). Missing: the converse invariant (every owner recorded in the lock table is
inside the critical section, so that its next step — which is never a blocking `lock` — is
enabled), i.e. the formal projection of `LThreads` runs onto runs of these `Locks` programs. -/
theorem no_deadlock_lthreads_partial (d : Dims) (ks : List OpKind)
    (hk : ∀ k ∈ ks, IsLThreadsRow d k) (hj : JoinWF (initCfg d ks)) {cfg : Config Lock}
    (hr : Locks.Reach .mgr (initCfg d ks) cfg)
    (hun : ∃ (i : Nat) (t : Locks.Thread Lock), cfg[i]? = some t ∧ t.prog ≠ .done) :
    ∃ i cfg', Locks.step .mgr cfg i = some cfg' :=
  no_deadlock_all d ks (fun k hk' => (hk k hk').valid) hj hr hun

/-! ## non-vacuity -/

open OxiddModel.Bdd.C06 OxiddModel.Bdd.LThreads.Bad

/-- the two-thread configuration of `LockStepsBad` is an initial configuration -/
theorem cfg1_init : LInit cfg1 (fun _ => [some exX1]) where
  locks := ⟨fun _ => rfl, by
    intro i th hi
    match i, hi with
    | 0, hi => cases hi; rfl
    | 1, hi => cases hi; rfl, rfl⟩
  init := {
    unique := exStore_unique
    cache := CacheOK.nil _
    nogc := fun h => by cases h
    idle := by
      intro i th hi
      match i, hi with
      | 0, hi => cases hi; rfl
      | 1, hi => cases hi; rfl
    handles := by
      have h : HsDen exStore [some (.inner 0)] [some exX1] := by
        refine ⟨rfl, fun i => ?_⟩
        match i with
        | 0 => exact exStore_x1
        | i + 1 => trivial
      intro i th hi
      match i, hi with
      | 0, hi => cases hi; exact h
      | 1, hi => cases hi; exact h }

/-- the schedule of `LockStepsBad.sched1` (with the collector running a complete collection in
between) is complete on the code's variant … -/
def exSched : List LSel :=
  List.replicate 11 a ++ [.gc .finish, .gc .finish] ++ List.replicate 11 b ++
    [.gc .finish, .gc .finish, .gc .finish, .gc (.level 1)] ++ List.replicate 10 a ++
    List.replicate 3 (.gc .finish) ++ List.replicate 10 b ++ List.replicate 8 (.gc .finish) ++
    List.replicate 10 b

theorem exDone : (cfg1.run .code cp exSched).1.allDone = true := by decide +kernel

/-- … 22 commit points, i.e. atomic steps of `Threads`, for 69 scheduled micro-steps (some of them
skipped: thread 1 waits for the level lock, its cache accesses during the collection fail); the
collector is in the middle of `post_gc` at the end -/
example : (cfg1.run .code cp exSched).2.length = 22 ∧ exSched.length = 69 ∧
    (cfg1.run .code cp exSched).1.gc = .unlocking 1 := by decide +kernel

/-- `interleaving_correct_locked`, `reduction`, `mutual_exclusion` apply to this run -/
example := interleaving_correct_locked (cp := cp) (by decide) cfg1 _ cfg1_init exSched exDone
example := reduction (cp := cp) (by decide) cfg1_init.locks exSched
example : ∃ th r, (cfg1.run .code cp exSched).1.threads[1]? = some th ∧ hget th.hs 1 = some r ∧
    Denotes (cfg1.run .code cp exSched).1.sh.st.store r (applyNot exX1) := by
  obtain ⟨th, hth, hden⟩ :=
    (interleaving_correct_locked (cp := cp) (by decide) cfg1 _ cfg1_init exSched exDone).2.2.2 1 _ rfl
  obtain ⟨r, hr, hd⟩ := hden.get (i := 1) (t := applyNot exX1) (by decide +kernel)
  exact ⟨th, r, hth, hr, hd⟩

open OxiddModel.Locks in
/-- `lthreads_rows_ranked` on a row with all three kinds of micro-operations -/
example := lthreads_rows_ranked ⟨2, 3⟩ (.shared [.cache 1, .fork [0, 1], .mk 2, .cache 1])
  (.inl ⟨_, .inl rfl, by decide⟩)

/-! ## 5. negative witnesses (`LockStepsBad.lean`) -/

/-- a `get_or_insert` that releases the level lock between lookup and insertion allows an
interleaving that creates a duplicate node -/
theorem check_then_act_breaks_unique :
    ¬ (cfg1.run checkThenAct cp sched1).1.sh.st.store.Unique :=
  check_then_act_not_unique

/-- a collector that does not keep the buckets locked allows a stale cache hit: a finished
operation returns an edge that denotes nothing, and the cache is unsound
(`C07-cache-unlocked-during-gc`) -/
theorem unlocked_buckets_break_cache :
    (¬ ∃ T, Denotes (cfg2.run bucketsUnlocked cp sched2).1.sh.st.store (.inner 3) T) ∧
    ¬ CacheOK (cfg2.run bucketsUnlocked cp sched2).1.sh.st.store
        (cfg2.run bucketsUnlocked cp sched2).1.sh.st.cache :=
  unlocked_buckets_dangling

end OxiddModel.Bdd.C07L
