import OxiddModel.Bdd.LockStepsDeadlock2
import OxiddModel.Bdd.PropertiesC07L

/-!
# C07 — deadlock freedom of the micro-step machine `LThreads` itself

`PropertiesC07L` left open (`no_deadlock_lthreads_partial`): deadlock freedom of `LThreads` was
only proved for the *lock programs* of its actors as rows of `Locks.Model`; missing was the
converse ownership invariant. This file closes it, directly on `LThreads`, for every thread count,
script, split depth, cache geometry and schedule:

* `owners_inside_critical_sections` — in every reachable configuration every owner recorded in the
  lock table IS inside the critical section of that lock (`Conv`; converse of `mutual_exclusion`).
* `lock_owner_enabled` — the owner of a level lock (and every task that owns any lock) has an
  enabled micro-step: critical sections contain no blocking `lock`.
* `wait_for_acyclic` — an unfinished thread either has an enabled step, or its selected leaf waits
  at `lock(level l)` for an owner that has an enabled step: every wait-for chain has length one.
* `no_deadlock_lthreads` — no reachable configuration in which some thread has not finished is a
  deadlock: an **unfinished** thread has an enabled step, or the collector is between
  `lock(level l)` and `unlock(level l)` and its step is enabled.
* `collector_never_stuck` — the collector's step is enabled or it waits for a task that is enabled.
* `every_lock_released` — at quiescence (all threads finished, collector idle) the lock table is
  empty; `finished_thread_owns_nothing`.

(The liveness bound — every enabled step of an unfinished thread strictly decreases a potential
bounded by `5 · scriptBound` — is in `LockStepsLiveness.lean`.)
-/
namespace OxiddModel.Bdd.C07L
open OxiddModel.Bdd OxiddModel.Bdd.BDD OxiddModel.Bdd.Refine OxiddModel.Bdd.Threads
open OxiddModel.Bdd.LThreads
open OxiddModel.Locks (Lock)

/-- the configuration after a schedule is reachable -/
theorem reach_run {cp : CachePar} (c0 : LCfg) : ∀ (ss : List LSel) (c : LCfg),
    Reach .code cp c0 c → Reach .code cp c0 (c.run .code cp ss).1 := by
  intro ss
  induction ss with
  | nil => intro c h; exact h
  | cons s ss ih =>
    intro c h
    simp only [LCfg.run]
    cases hs : c.step .code cp s with
    | none => exact ih c h
    | some out =>
      obtain ⟨c', l⟩ := out
      cases l with
      | none => exact ih c' (.step s h hs)
      | some lb => exact ih c' (.step s h hs)

/-- **Converse ownership invariant.** In every configuration reachable from an initial one:
if the lock table records the task at position `pos` of thread `tid` as owner of `L`, then thread
`tid` has an operation in progress and the leaf at `pos` of its call tree is inside the critical
section of `L` (cache query / insertion on that bucket, `get_or_insert` on that level, after the
acquisition and before the release); if it records the collector, the collector's control state
holds `L` (`gc_ongoing` whenever not idle, the buckets locked so far / not yet unlocked, the level
between `lock` and `unlock`). Together with `mutual_exclusion`: the lock table is exactly the set
of critical sections the actors are in. -/
theorem owners_inside_critical_sections {cp : CachePar} (hcap : 0 < cp.cap) {c0 c : LCfg}
    (h0 : LInit0 c0) (hr : Reach .code cp c0 c) : Conv cp c :=
  (Good.reach hcap hr h0).conv

/-- **A lock's owner always has an enabled step.** Every task that owns a lock, and the owner of
every level lock (task or collector), can be selected so that its next micro-step is enabled:
inside a critical section an actor only reads, writes and releases — never a blocking `lock`. -/
theorem lock_owner_enabled {cp : CachePar} (hcap : 0 < cp.cap) {c0 c : LCfg} (h0 : LInit0 c0)
    (hr : Reach .code cp c0 c) :
    (∀ L tid pos, c.sh.locks L = some (.task tid pos) → OwnerMoves cp c (.task tid pos)) ∧
    (∀ lv w, c.sh.locks (.level lv) = some w → OwnerMoves cp c w) :=
  ⟨fun _ _ _ h => (Good.reach hcap hr h0).task_owner_moves h,
   fun _ _ h => (Good.reach hcap hr h0).level_owner_moves h⟩

/-- **The wait-for graph is acyclic** (every chain has length ≤ 1): whatever `par` path is
selected for thread `tid`, its step is enabled, or the selected leaf is about to execute the
blocking `lock(level lv)` of `get_or_insert`, `level lv` is owned by `w`, and `w` — a task inside
`get_or_insert` on that level, or the collector sweeping it — has an enabled step (`OwnerMoves`).
`try_lock` never blocks; the blocked leaf itself holds no lock (`blockedOn` leaves are `seq0` /
`par` frames, not inside any section). -/
theorem wait_for_acyclic {cp : CachePar} (hcap : 0 < cp.cap) {c0 c : LCfg} (h0 : LInit0 c0)
    (hr : Reach .code cp c0 c) {tid : Nat} {th : LThread} (hth : c.threads[tid]? = some th)
    (path : List Bool) :
    (∃ c' l, c.step .code cp (.thread tid path) = some (c', l)) ∨
    (∃ t lv w, th.cur = some t ∧ t.blockedOn path = some lv ∧ c.sh.locks (.level lv) = some w ∧
      OwnerMoves cp c w) :=
  (Good.reach hcap hr h0).thread_enabled_or_blocked hth path

/-- **`no_deadlock_lthreads`: no reachable configuration of `LThreads` is a deadlock.** For every
number of threads, scripts, split depths, every direct-mapped cache (`cap > 0`) and every
configuration `c` reachable by any schedule of micro-steps: if some thread has not finished, then

* some **unfinished** thread `tid` has, for a suitable `par` path, an enabled micro-step (not the
  stutter of a finished thread, not a step of a non-existing thread), or
* the collector is between `lock(level lv)` and `unlock(level lv)` and its next step (sweep /
  unlock) is enabled whatever the scheduler tells it — after at most two such steps the level is
  free again.

(`LockStepsLiveness.progress_decreases`: every such thread step strictly decreases a potential, so
"enabled" is real progress.) -/
theorem no_deadlock_lthreads {cp : CachePar} (hcap : 0 < cp.cap) {c0 c : LCfg} (h0 : LInit0 c0)
    (hr : Reach .code cp c0 c) (hnd : c.allDone = false) :
    (∃ tid th path c' l, c.threads[tid]? = some th ∧ th.done = false ∧
      c.step .code cp (.thread tid path) = some (c', l)) ∨
    ((∃ lv, c.gc = .lvlLocked lv ∨ c.gc = .lvlSwept lv) ∧
      ∀ ch, ∃ c' l, c.step .code cp (.gc ch) = some (c', l)) :=
  (Good.reach hcap hr h0).no_deadlock hnd

/-- the same after any schedule -/
theorem no_deadlock_lthreads_run {cp : CachePar} (hcap : 0 < cp.cap) {c0 : LCfg} (h0 : LInit0 c0)
    (ss : List LSel) (hnd : (c0.run .code cp ss).1.allDone = false) :
    (∃ tid th path c' l, (c0.run .code cp ss).1.threads[tid]? = some th ∧ th.done = false ∧
      (c0.run .code cp ss).1.step .code cp (.thread tid path) = some (c', l)) ∨
    ((∃ lv, (c0.run .code cp ss).1.gc = .lvlLocked lv ∨ (c0.run .code cp ss).1.gc = .lvlSwept lv) ∧
      ∀ ch, ∃ c' l, (c0.run .code cp ss).1.step .code cp (.gc ch) = some (c', l)) :=
  no_deadlock_lthreads hcap h0 (reach_run c0 ss c0 .refl) hnd

/-- **The collector is never stuck either**: its step is enabled, or it waits in `lock(bucket b)`
of `pre_gc` / `lock(level l)` for a lock owned by a task that has an enabled step. -/
theorem collector_never_stuck {cp : CachePar} (hcap : 0 < cp.cap) {c0 c : LCfg} (h0 : LInit0 c0)
    (hr : Reach .code cp c0 c) (ch : GcChoice) :
    (∃ c' l, c.step .code cp (.gc ch) = some (c', l)) ∨
    (∃ L tid pos, c.sh.locks L = some (.task tid pos) ∧ OwnerMoves cp c (.task tid pos) ∧
      ((∃ b, L = .bucket b ∧ c.gc = .locking b) ∨ (∃ lv, L = .level lv ∧ c.gc = .levels))) :=
  (Good.reach hcap hr h0).collector_enabled_or_blocked ch

/-- **`every_lock_released`: at quiescence the lock table is empty.** In every reachable
configuration in which all threads have finished and the collector is idle, no lock is owned. -/
theorem every_lock_released {cp : CachePar} (hcap : 0 < cp.cap) {c0 c : LCfg} (h0 : LInit0 c0)
    (hr : Reach .code cp c0 c) (hd : c.allDone = true) (hgc : c.gc = .idle) (L : Lock) :
    c.sh.locks L = none :=
  (Good.reach hcap hr h0).locks_empty hd hgc L

/-- a thread without an operation in progress (in particular a finished one) owns no lock, at
every moment, whatever the other actors do -/
theorem finished_thread_owns_nothing {cp : CachePar} (hcap : 0 < cp.cap) {c0 c : LCfg}
    (h0 : LInit0 c0) (hr : Reach .code cp c0 c) {tid : Nat} {th : LThread}
    (hth : c.threads[tid]? = some th) (hd : th.cur = none) (L : Lock) (pos : List Bool) :
    c.sh.locks L ≠ some (.task tid pos) :=
  (Good.reach hcap hr h0).thread_done_owns_nothing hth hd L pos

/-! ## non-vacuity -/

open OxiddModel.Bdd.LThreads.Bad

/-- after 11 steps of thread 0 and 11 selections of thread 1 (`cfg1`: both compute `¬x1`)
thread 0 is inside `get_or_insert` on level 1 holding the lock, thread 1 waits for it:
`.thread 1 []` is disabled — and `no_deadlock_lthreads` / `wait_for_acyclic` apply -/
def exWait : List LSel := List.replicate 11 a ++ List.replicate 11 b

example : ((cfg1.run .code cp exWait).1.step .code cp b).isNone = true ∧
    (cfg1.run .code cp exWait).1.sh.locks (.level 1) = some (.task 0 []) ∧
    (cfg1.run .code cp exWait).1.allDone = false := by decide +kernel

example := no_deadlock_lthreads_run (cp := cp) (by decide) cfg1_init.locks exWait (by decide +kernel)
example (th : LThread) (hth : (cfg1.run .code cp exWait).1.threads[1]? = some th) :=
  wait_for_acyclic (cp := cp) (by decide) cfg1_init.locks (reach_run cfg1 exWait cfg1 .refl) hth []

/-- the complete schedule of `PropertiesC07L.exSched`, the collector finishing `post_gc`: all
threads done, collector idle — `every_lock_released` applies, the lock table is empty -/
def exQuiet : List LSel := exSched ++ List.replicate 2 g

example : (cfg1.run .code cp exQuiet).1.allDone = true ∧ (cfg1.run .code cp exQuiet).1.gc = .idle := by
  decide +kernel

example (L : Lock) : (cfg1.run .code cp exQuiet).1.sh.locks L = none :=
  every_lock_released (cp := cp) (by decide) cfg1_init.locks (reach_run cfg1 exQuiet cfg1 .refl)
    (by decide +kernel) (by decide +kernel) L

/-- in the middle of `exSched` locks are owned (so `every_lock_released` is not trivially true) -/
example : (cfg1.run .code cp (exSched.take 30)).1.sh.locks .gcOngoing = some .gc := by decide +kernel

end OxiddModel.Bdd.C07L
