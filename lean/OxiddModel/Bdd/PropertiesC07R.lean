import OxiddModel.Bdd.RThreadsProof
import OxiddModel.Bdd.PropertiesC07T

/-!
# C07 (last clause) / C05 — exact reference counts under EVERY interleaving

Property C07 ends: *"They never deadlock, never corrupt the diagram, and afterwards the diagram is
well-formed with exact reference counts."* `PropertiesC07T.lean` proves the interleaving theorem
for a machine **without** counters (its collector frees "what is neither a root nor the child of a
stored node" and says: *that the real counters compute this is C05*); `PropertiesC05R.lean` proves
the counters exact, but only for **sequential** runs.

This file is about the machine `RThreads.lean` that has both: the shared state carries one counter
per node, `retain` (`fetch_add`) and `release` (`fetch_sub`) are each ONE atomic step, `get_or_insert`
under the level mutex is one step (miss: allocate with `rc = 2`; hit: retain the node found), the
children of the rejected node are released by separate steps, handle clone / drop on any thread
are single retain / release steps, and the collector sweeps one level per step **deciding by the
counter** (`rc == 1`) and releasing the children of what it frees. The per-thread program is
`apply_not` / `apply_bin::<OP>` (eight operators) / `apply_ite` of `apply_rec.rs` with the
sequential or the parallel recursor of any split depth and all its `clone_edge` / `drop_edge` /
`EdgeDropGuard`s.

For **every** number of threads, scripts, split depths, admissible cache behaviour and **every
schedule** (`List RSel`, no fairness or length assumption):

* `rc_invariant_interleaved` — at every reachable configuration
  `rc n = 1 + handles on n + edges to n owned by some continuation + stored parent edges of n`;
* `collector_frees_only_unreferenced`, `gc_refines` — a level sweep frees exactly the nodes of that
  level that no handle, no owned edge and no stored parent refers to: it **is** the collector step
  of `Threads.lean`;
* `rthreads_simulates`, `interleaving_correct_rc` — the erased run is a run of `Threads.lean`;
  hence every operation returns the sequential result, on the counter machine;
* `quiescent_exact`, `full_gc_exact`, `full_gc_empty` — when all threads are done
  `rc n = 1 + handles + parents`; a full collection leaves exactly the nodes reachable from
  handles; with no handles nothing;
* `no_use_after_free`, `acts_on_stored` — every edge any continuation holds refers to a stored
  node, and every `retain` / `release` hits a stored node;
* negative witnesses: `RThreadsBad.lean`.

**Assumptions that stay assumptions**: atomicity of the listed actions (level mutex, bucket lock;
the sweep of one level as one step — the code's sweep interleaves with `retain`/`release` of other
threads on that level, which can only turn a "free" decision into "keep"); sequential consistency
(the orderings the code relies on are extracted and checked in `Generated.ObOrderings`); the retain
of `found` in `get_or_insert` is performed before the releases of the rejected children (the code:
after, all under the level mutex). Not modelled: allocation failure, BCDD/ZBDD/MTBDD, quantification,
substitution, reordering.
-/
namespace OxiddModel.Bdd.C07R
open OxiddModel.Bdd OxiddModel.Bdd.BDD OxiddModel.Bdd.Refine OxiddModel.Bdd.Threads
open OxiddModel.Bdd.RThreads
open OxiddModel.Bdd.Rc (RSt rcGet rcSet cloneEdge dropEdge RcInv parents)

/-! ## initial configurations -/

/-- an initial configuration: `Threads.Init` of the erased configuration (hash-consed store, sound
cache, all threads idle, handles denote the trees `ts0`), exact counters for the handles, every
stored node denotes an ordered tree -/
structure RInit (c : RCfg) (ts0 : Nat → List (Option BDD)) : Prop where
  init : Init c.erase ts0
  rc : RcInv c.rst c.ext
  ord : AllOrd c.rst.st.store

theorem rginv_init {c : RCfg} {ts0 : Nat → List (Option BDD)} (h : RInit c ts0) :
    RGInv c (specF c.erase ts0) (specB c.erase ts0) where
  ginv := ginv_init h.init
  rc := h.rc
  ord := h.ord
  pend := by
    intro i th t hi hc
    have he : c.erase.threads[i]? = some th.erase := by
      rw [getElem?_erase_threads, hi]; rfl
    have := h.init.idle i th.erase he
    simp [RThread.erase, hc] at this

theorem reachable_rginv {p : Policy} (pok : p.OK) {c0 : RCfg} {ts0 : Nat → List (Option BDD)}
    (hinit : RInit c0 ts0) (sched : List RSel) :
    ∃ B, RGInv (c0.run p sched) (specF c0.erase ts0) B :=
  (RCfg.run_rginv pok sched (rginv_init hinit)).1

/-! ## the counters are exact at every moment -/

/-- handles on slot `i`, over all threads -/
def handleCount (c : RCfg) (i : Nat) : Nat :=
  (c.threads.flatMap RThread.handles).count (.inner i)

/-- the edges owned by the continuation of a thread: results of finished sub-tasks,
`EdgeDropGuard`s, clones in flight, the edge `reduce` returned, edges still to be released -/
def curOwned (th : RThread) : List Edge :=
  match th.cur with
  | some t => t.owned
  | none => []

theorem owned_eq (th : RThread) : th.owned = th.handles ++ curOwned th := by
  unfold RThread.owned curOwned; cases th.cur <;> rfl

/-- edges to slot `i` owned by the continuation of some thread -/
def ownedCount (c : RCfg) (i : Nat) : Nat := (c.threads.flatMap curOwned).count (.inner i)

theorem ext_count (c : RCfg) (i : Nat) :
    c.ext.count (.inner i) = handleCount c i + ownedCount c i := by
  unfold RCfg.ext handleCount ownedCount
  induction c.threads with
  | nil => rfl
  | cons th ths ih =>
    simp only [List.flatMap_cons, List.count_append, owned_eq, ih]
    omega

/-- **`rc_invariant_interleaved`.** At EVERY reachable configuration — after any schedule prefix,
for any number of threads — the counters are exact for the multiset of all counted references
defined from the configuration (`RcInv … c.ext`), i.e. for every stored node `n`

`rc n = 1 + (handles on n over all threads) + (edges to n owned by some thread's continuation)
        + (stored parent edges of n)`,

every counted reference and every child edge points to a stored node. -/
theorem rc_invariant_interleaved {p : Policy} (pok : p.OK) (c0 : RCfg)
    (ts0 : Nat → List (Option BDD)) (hinit : RInit c0 ts0) (sched : List RSel) :
    RcInv (c0.run p sched).rst (c0.run p sched).ext ∧
    ∀ i n, (c0.run p sched).rst.st.store.get? i = some n →
      rcGet (c0.run p sched).rst.rc i =
        1 + handleCount (c0.run p sched) i + ownedCount (c0.run p sched) i +
          parents (c0.run p sched).rst.st.store i := by
  obtain ⟨B, hG⟩ := reachable_rginv pok hinit sched
  refine ⟨hG.rc, fun i n hi => ?_⟩
  rw [hG.rc.rc_eq i n hi, ext_count]
  omega

/-! ## the collector -/

/-- at a reachable configuration the counter-driven sweep of a level is the collector step of
`Threads.lean` -/
theorem gcLevel_refines {p : Policy} {c : RCfg} {F : Nat → List (Option BDD)} {B : Nat → Nat}
    (h : RGInv c F B) (l : Nat) :
    (c.step p (.gcLevel l)).erase = c.erase.step p (.gcLevel l) := by
  cases ha : c.gcActive with
  | false =>
    have ha' : c.erase.gcActive = false := ha
    simp [RCfg.step, Cfg.step, ha, ha']
  | true =>
    have ha' : c.erase.gcActive = true := ha
    have hstore : (Rc.gcLevel c.rst l).st.store = sweepLevel c.rst.st.store c.erase.roots l := by
      rw [gcLevel_eq_sweepLevel h.rc h.ord.ordered l]
      exact sweepLevel_congr _ _ _ l (prot_ext_roots h.pend)
    simp only [RCfg.step, Cfg.step, ha, ha', if_true]
    simp only [RCfg.erase]
    congr 1
    exact St.ext' hstore (gcLevel_cache _ _) (gcLevel_tick _ _)

/-- **`gc_refines`.** At every reachable configuration the sweep of level `l` **by the counters**
(`rc == 1`, children of freed nodes released) changes store, cache and threads exactly as the
sweep of `Threads.lean` **by references** (`sweepLevel`: not a root, not the child of a stored
node) does: the counter-driven collector of this machine IS the collector of `Threads.lean`. -/
theorem gc_refines {p : Policy} (pok : p.OK) (c0 : RCfg) (ts0 : Nat → List (Option BDD))
    (hinit : RInit c0 ts0) (sched : List RSel) (l : Nat) :
    ((c0.run p sched).step p (.gcLevel l)).erase = (c0.run p sched).erase.step p (.gcLevel l) := by
  obtain ⟨B, hG⟩ := reachable_rginv pok hinit sched
  exact gcLevel_refines hG l

theorem collector_step {p : Policy} {c : RCfg} {F : Nat → List (Option BDD)} {B : Nat → Nat}
    (hG : RGInv c F B) (l j : Nat) (n : Node) (hact : c.gcActive = true)
    (hj : c.rst.st.store.get? j = some n) :
    ((n.level = l ∧ handleCount c j = 0 ∧ ownedCount c j = 0 ∧
        ∀ k m, c.rst.st.store.get? k = some m → m.t ≠ .inner j ∧ m.e ≠ .inner j) →
      (c.step p (.gcLevel l)).rst.st.store.get? j = none) ∧
    (¬ (n.level = l ∧ handleCount c j = 0 ∧ ownedCount c j = 0 ∧
        ∀ k m, c.rst.st.store.get? k = some m → m.t ≠ .inner j ∧ m.e ≠ .inner j) →
      (c.step p (.gcLevel l)).rst.st.store.get? j = some n) := by
  have hc' : (c.step p (.gcLevel l)).rst = Rc.gcLevel c.rst l := by
    simp [RCfg.step, hact]
  have G := get?_gcLevel (l := l) hG.ord.ordered hG.rc.kids_ok j
  have hrc := hG.rc.rc_eq j n hj
  rw [ext_count] at hrc
  have key : frees c.rst l j ↔ (n.level = l ∧ handleCount c j = 0 ∧ ownedCount c j = 0 ∧
        ∀ k m, c.rst.st.store.get? k = some m → m.t ≠ .inner j ∧ m.e ≠ .inner j) := by
    constructor
    · rintro ⟨n', hn', hl, h1⟩
      have e : n' = n := Option.some.inj (hn'.symm.trans hj)
      subst e
      have hp : parents c.rst.st.store j = 0 := by omega
      exact ⟨hl, by omega, by omega, fun k m hk => Rc.parents_zero_no_child hp hk⟩
    · rintro ⟨hl, h1, h2, h3⟩
      refine ⟨n, hj, hl, ?_⟩
      have hp : parents c.rst.st.store j = 0 := Rc.parents_zero h3
      omega
  rw [hc']
  exact ⟨fun hu => G.1 (key.mpr hu), fun hu => (G.2 (fun hf => hu (key.mp hf))).trans hj⟩

/-- **`collector_frees_only_unreferenced`.** At every reachable configuration with a collection
going on, the sweep of level `l` empties slot `j` holding node `n` **iff** `n` is on level `l` and
nothing refers to it — no handle of any thread, no edge owned by any continuation, no stored
parent; every other slot keeps its node. -/
theorem collector_frees_only_unreferenced {p : Policy} (pok : p.OK) (c0 : RCfg)
    (ts0 : Nat → List (Option BDD)) (hinit : RInit c0 ts0) (sched : List RSel) (l j : Nat)
    (n : Node) (hact : (c0.run p sched).gcActive = true)
    (hj : (c0.run p sched).rst.st.store.get? j = some n) :
    ((n.level = l ∧ handleCount (c0.run p sched) j = 0 ∧ ownedCount (c0.run p sched) j = 0 ∧
        ∀ k m, (c0.run p sched).rst.st.store.get? k = some m → m.t ≠ .inner j ∧ m.e ≠ .inner j) →
      ((c0.run p sched).step p (.gcLevel l)).rst.st.store.get? j = none) ∧
    (¬ (n.level = l ∧ handleCount (c0.run p sched) j = 0 ∧ ownedCount (c0.run p sched) j = 0 ∧
        ∀ k m, (c0.run p sched).rst.st.store.get? k = some m → m.t ≠ .inner j ∧ m.e ≠ .inner j) →
      ((c0.run p sched).step p (.gcLevel l)).rst.st.store.get? j = some n) := by
  obtain ⟨B, hG⟩ := reachable_rginv pok hinit sched
  exact collector_step hG l j n hact hj

/-! ## simulation -/

/-- **`rthreads_simulates`.** Forgetting counters and pending releases, every run of the counter
machine is a run of the machine of `Threads.lean` from the erased initial configuration: each
`retain` / `get_or_insert` / cache access / handle operation / collector phase is the step of
`Threads.lean` with the same selector, each release of a rejected child is a stutter. -/
theorem rthreads_simulates {p : Policy} (pok : p.OK) (c0 : RCfg) (ts0 : Nat → List (Option BDD))
    (hinit : RInit c0 ts0) (sched : List RSel) :
    ∃ sched' : List Sel, (c0.run p sched).erase = c0.erase.run p sched' ∧
      sched'.length ≤ sched.length :=
  (RCfg.run_rginv pok sched (rginv_init hinit)).2

theorem done_erase (th : RThread) : th.erase.done = th.done := by
  cases th with
  | mk d hs sc cur => cases cur <;> rfl

theorem allDone_erase (c : RCfg) : c.erase.allDone = c.allDone := by
  simp only [Cfg.allDone, RCfg.allDone, RCfg.erase, List.all_map]
  congr 1
  funext th
  exact done_erase th

/-- **`interleaving_correct_rc`.** `PropertiesC07T.interleaving_correct` transferred to the counter
machine: after every complete schedule the store is hash-consed, the cache sound, and the handles
of each thread denote, slot by slot, the result of executing its script **sequentially on trees** —
with the collector deciding by the counters. -/
theorem interleaving_correct_rc {p : Policy} (pok : p.OK) (c0 : RCfg)
    (ts0 : Nat → List (Option BDD)) (hinit : RInit c0 ts0) (sched : List RSel)
    (hdone : (c0.run p sched).allDone = true) :
    (c0.run p sched).rst.st.store.Unique ∧
    CacheOK (c0.run p sched).rst.st.store (c0.run p sched).rst.st.cache ∧
    (c0.run p sched).threads.length = c0.threads.length ∧
    ∀ i th0, c0.threads[i]? = some th0 →
      ∃ th, (c0.run p sched).threads[i]? = some th ∧
        HsDen (c0.run p sched).rst.st.store th.hs (evalScript th0.script (ts0 i)) := by
  obtain ⟨sched', hrun, _⟩ := rthreads_simulates pok c0 ts0 hinit sched
  have hd : (c0.erase.run p sched').allDone = true := by
    rw [← hrun, allDone_erase]; exact hdone
  obtain ⟨h1, h2, h3, h4⟩ := C07T.interleaving_correct pok c0.erase ts0 hinit.init sched' hd
  rw [← hrun] at h1 h2 h3 h4
  refine ⟨h1, h2, by simpa [RCfg.erase] using h3, fun i th0 hi => ?_⟩
  have he : c0.erase.threads[i]? = some th0.erase := by
    rw [getElem?_erase_threads, hi]; rfl
  obtain ⟨th, hth, hden⟩ := h4 i th0.erase he
  rw [getElem?_erase_threads] at hth
  cases hx : (c0.run p sched).threads[i]? with
  | none => rw [hx] at hth; cases hth
  | some th' =>
    rw [hx] at hth
    simp only [Option.map_some, Option.some.injEq] at hth
    subst hth
    exact ⟨th', rfl, hden⟩

/-! ## quiescence -/

theorem idle_of_done {c : RCfg} (h : c.allDone = true) : ∀ th, th ∈ c.threads → th.cur = none := by
  intro th hm
  have := List.all_eq_true.mp h th hm
  simp only [RThread.done, Bool.and_eq_true, Option.isNone_iff_eq_none] at this
  exact this.1

theorem flatMap_idle : ∀ (l : List RThread), (∀ th, th ∈ l → th.cur = none) →
    l.flatMap curOwned = [] ∧ l.flatMap RThread.owned = l.flatMap RThread.handles := by
  intro l
  induction l with
  | nil => intro _; exact ⟨rfl, rfl⟩
  | cons th ths ih =>
    intro h
    obtain ⟨i1, i2⟩ := ih (fun t ht => h t (List.mem_cons_of_mem _ ht))
    have hc := h th List.mem_cons_self
    simp only [List.flatMap_cons, i1, i2]
    constructor
    · simp [curOwned, hc]
    · simp [RThread.owned, hc]

theorem ownedCount_done {c : RCfg} (h : c.allDone = true) (i : Nat) : ownedCount c i = 0 := by
  unfold ownedCount
  rw [(flatMap_idle c.threads (idle_of_done h)).1]; rfl

theorem ext_done {c : RCfg} (h : c.allDone = true) :
    c.ext = c.threads.flatMap RThread.handles :=
  (flatMap_idle c.threads (idle_of_done h)).2

/-- **`quiescent_exact`.** When all threads are done (after any complete schedule), for every
stored node `rc = 1 + handles + stored parent edges`: `InnerNode::ref_count()` (= `rc - 1`) reports
exactly the number of live handles plus stored parent edges. No temporary is left. -/
theorem quiescent_exact {p : Policy} (pok : p.OK) (c0 : RCfg) (ts0 : Nat → List (Option BDD))
    (hinit : RInit c0 ts0) (sched : List RSel) (hdone : (c0.run p sched).allDone = true) :
    ∀ i n, (c0.run p sched).rst.st.store.get? i = some n →
      rcGet (c0.run p sched).rst.rc i =
        1 + handleCount (c0.run p sched) i + parents (c0.run p sched).rst.st.store i ∧
      (c0.run p sched).rst.refCount i =
        handleCount (c0.run p sched) i + parents (c0.run p sched).rst.st.store i := by
  intro i n hi
  have := (rc_invariant_interleaved pok c0 ts0 hinit sched).2 i n hi
  rw [ownedCount_done hdone] at this
  exact ⟨by omega, by unfold RSt.refCount; omega⟩

/-- a full collection: `pre_gc`, the levels `0 … N-1` from the top, `post_gc` -/
def fullGc (N : Nat) : List RSel := .gcBegin :: ((List.range N).map .gcLevel ++ [.gcEnd])

theorem run_levels (p : Policy) : ∀ (ls : List Nat) (c : RCfg) (rest : List RSel),
    c.gcActive = true →
    c.run p (ls.map .gcLevel ++ rest) = RCfg.run p { c with rst := ls.foldl Rc.gcLevel c.rst } rest := by
  intro ls
  induction ls with
  | nil => intro c rest _; rfl
  | cons l ls ih =>
    intro c rest ha
    simp only [List.map_cons, List.cons_append, RCfg.run, List.foldl_cons]
    have e : c.step p (.gcLevel l) = { c with rst := Rc.gcLevel c.rst l } := by
      simp [RCfg.step, ha]
    rw [e]
    exact ih { c with rst := Rc.gcLevel c.rst l } rest ha

/-- a full collection of the machine is `Rc.gcR` (`Manager::gc` of `RcS.lean`) -/
theorem run_fullGc (p : Policy) (c : RCfg) (N : Nat) :
    (c.run p (fullGc N)).rst = Rc.gcR N c.rst ∧ (c.run p (fullGc N)).threads = c.threads := by
  unfold fullGc
  simp only [RCfg.run]
  have e : c.step p .gcBegin =
      { c with rst := { c.rst with st := { c.rst.st with cache := [] } }, gcActive := true } := rfl
  rw [e, run_levels p _ _ _ rfl]
  exact ⟨rfl, rfl⟩

theorem full_gc_core {p : Policy} {c : RCfg} {F : Nat → List (Option BDD)} {B : Nat → Nat}
    (hG : RGInv c F B) (hdone : c.allDone = true) (N : Nat)
    (hN : ∀ i n, c.rst.st.store.get? i = some n → n.level < N) :
    (∀ i, (∃ n, (c.run p (fullGc N)).rst.st.store.get? i = some n) ↔
      Rc.Reach c.rst.st.store (c.threads.flatMap RThread.handles) i) ∧
    (∀ i n, (c.run p (fullGc N)).rst.st.store.get? i = some n → c.rst.st.store.get? i = some n) ∧
    RcInv (c.run p (fullGc N)).rst (c.run p (fullGc N)).ext := by
  have hrst : (c.run p (fullGc N)).rst = Rc.gcR N c.rst := (run_fullGc p c N).1
  have hth : (c.run p (fullGc N)).threads = c.threads := (run_fullGc p c N).2
  have hext : (c.run p (fullGc N)).ext = c.ext := by unfold RCfg.ext; rw [hth]
  have hrc : RcInv c.rst (c.threads.flatMap RThread.handles) := by
    rw [← ext_done hdone]; exact hG.rc
  rw [hrst, hext]
  refine ⟨fun i => ⟨?_, ?_⟩, Rc.gcR_sub N c.rst, (Rc.gcR_rc N hG.rc).1⟩
  · rintro ⟨n, hn⟩
    exact Rc.gcR_complete N hrc hG.ord.ordered hN hn
  · intro hr
    obtain ⟨n, _, hn⟩ := Rc.gcR_keeps_reach N hrc hr
    exact ⟨n, hn⟩

/-- **`full_gc_exact`.** After a complete schedule, a full collection (over all levels) leaves
**exactly** the nodes reachable from the handles (`Rc.Reach`), changes none of them, and the counters
stay exact. -/
theorem full_gc_exact {p : Policy} (pok : p.OK) (c0 : RCfg) (ts0 : Nat → List (Option BDD))
    (hinit : RInit c0 ts0) (sched : List RSel) (hdone : (c0.run p sched).allDone = true) (N : Nat)
    (hN : ∀ i n, (c0.run p sched).rst.st.store.get? i = some n → n.level < N) :
    (∀ i, (∃ n, ((c0.run p sched).run p (fullGc N)).rst.st.store.get? i = some n) ↔
      Rc.Reach (c0.run p sched).rst.st.store
        ((c0.run p sched).threads.flatMap RThread.handles) i) ∧
    (∀ i n, ((c0.run p sched).run p (fullGc N)).rst.st.store.get? i = some n →
      (c0.run p sched).rst.st.store.get? i = some n) ∧
    RcInv ((c0.run p sched).run p (fullGc N)).rst ((c0.run p sched).run p (fullGc N)).ext := by
  obtain ⟨B, hG⟩ := reachable_rginv pok hinit sched
  exact full_gc_core hG hdone N hN

theorem reach_nil {s : Store} {i : Nat} (h : Rc.Reach s [] i) : False := by
  induction h with
  | root hm => cases hm
  | kid _ _ _ ih => exact ih

/-- **`full_gc_empty`.** If moreover no thread owns a handle any more, the full collection empties
the store. -/
theorem full_gc_empty {p : Policy} (pok : p.OK) (c0 : RCfg) (ts0 : Nat → List (Option BDD))
    (hinit : RInit c0 ts0) (sched : List RSel) (hdone : (c0.run p sched).allDone = true) (N : Nat)
    (hN : ∀ i n, (c0.run p sched).rst.st.store.get? i = some n → n.level < N)
    (hno : (c0.run p sched).threads.flatMap RThread.handles = []) :
    ∀ i, ((c0.run p sched).run p (fullGc N)).rst.st.store.get? i = none := by
  intro i
  have := (full_gc_exact pok c0 ts0 hinit sched hdone N hN).1 i
  rw [hno] at this
  cases hi : ((c0.run p sched).run p (fullGc N)).rst.st.store.get? i with
  | none => rfl
  | some n => exact (reach_nil (this.mp ⟨n, hi⟩)).elim

/-! ## no use after free -/

theorem rheld_sub (t : RTask) : ∀ e, e ∈ t.held → e ∈ t.erase.held ∨ e ∈ t.owned := by
  induction t with
  | call d c => intro e h; exact .inl h
  | miss d c key => intro e h; exact .inl h
  | ret r => intro e h; exact .inl h
  | made key r ds =>
    intro e h
    simp only [RTask.held, List.mem_cons, List.mem_append] at h
    rcases h with h | h | h
    · exact .inl (by simp [RTask.erase, Task.held, h])
    · exact .inl (by simp [RTask.erase, Task.held, h])
    · exact .inr (by simp [RTask.owned, h])
  | seq1 fr c0 t1 ih =>
    intro e h
    simp only [RTask.held, List.mem_append] at h
    rcases h with h | h | h
    · exact .inl (by simp [RTask.erase, Task.held, h])
    · exact .inl (by simp [RTask.erase, Task.held, h])
    · rcases ih e h with h1 | h1
      · exact .inl (by simp [RTask.erase, Task.held, h1])
      · exact .inr h1
  | seq0 fr r1 t0 ih =>
    intro e h
    simp only [RTask.held, List.mem_append, List.mem_cons] at h
    rcases h with h | h | h
    · exact .inl (by simp [RTask.erase, Task.held, h])
    · exact .inl (by simp [RTask.erase, Task.held, h])
    · rcases ih e h with h1 | h1
      · exact .inl (by simp [RTask.erase, Task.held, h1])
      · exact .inr (by simp [RTask.owned, h1])
  | par fr t1 t0 ih1 ih0 =>
    intro e h
    simp only [RTask.held, List.mem_append] at h
    rcases h with h | h | h
    · exact .inl (by simp [RTask.erase, Task.held, h])
    · rcases ih1 e h with h1 | h1
      · exact .inl (by simp [RTask.erase, Task.held, h1])
      · exact .inr (by simp [RTask.owned, h1])
    · rcases ih0 e h with h1 | h1
      · exact .inl (by simp [RTask.erase, Task.held, h1])
      · exact .inr (by simp [RTask.owned, h1])

/-- **`no_use_after_free`.** At every reachable configuration, under every schedule, **every edge
any thread holds** — handles, operands of every pending call (borrowed cofactors), cache keys kept
in frames, guarded results, the edge `reduce` returned, edges still to be released — refers to a
stored node (or a terminal). The step functions read, retain and release only edges of
`RThread.held`; so no step ever reads or retains a freed slot. -/
theorem no_use_after_free {p : Policy} (pok : p.OK) (c0 : RCfg) (ts0 : Nat → List (Option BDD))
    (hinit : RInit c0 ts0) (sched : List RSel) (i : Nat) (th : RThread)
    (hi : (c0.run p sched).threads[i]? = some th) :
    ∀ e, e ∈ th.held → (c0.run p sched).rst.st.store.has e := by
  obtain ⟨B, hG⟩ := reachable_rginv pok hinit sched
  intro e he
  have hte : (c0.run p sched).erase.threads[i]? = some th.erase := by
    rw [getElem?_erase_threads, hi]; rfl
  have hinv := (hG.ginv.2.2 i th.erase hte).1
  have own : e ∈ th.owned → (c0.run p sched).rst.st.store.has e := fun ho =>
    hG.rc.ext_ok e (List.mem_flatMap.mpr ⟨th, List.mem_of_getElem? hi, ho⟩)
  unfold RThread.held at he
  rcases List.mem_append.mp he with h1 | h1
  · exact own (List.mem_append.mpr (.inl h1))
  · cases hc : th.cur with
    | none => rw [hc] at h1; cases h1
    | some t =>
      rw [hc] at h1
      rcases rheld_sub t e h1 with h2 | h2
      · refine ThreadInv.held_has hinv e ?_
        simp only [Thread.held, RThread.erase, hc, Option.map_some]
        exact List.mem_append.mpr (.inr h2)
      · exact own (by unfold RThread.owned; rw [hc]; exact List.mem_append.mpr (.inr h2))

theorem acts_core {p : Policy} (pok : p.OK) {c : RCfg} {F : Nat → List (Option BDD)}
    {B : Nat → Nat} (hG : RGInv c F B) (tid : Nat) (path : List Bool) (th : RThread)
    (hi : c.threads[tid]? = some th) :
    (∀ e, (th.step (effPol p c.gcActive) c.rst.st path).1 = .retain e ∨
        (th.step (effPol p c.gcActive) c.rst.st path).1 = .cacheGet (some e) →
      c.rst.st.store.has e) ∧
    (∀ j, (th.step (effPol p c.gcActive) c.rst.st path).1 = .release (.inner j) →
      (∃ n, c.rst.st.store.get? j = some n) ∧ 2 ≤ rcGet c.rst.rc j) := by
  obtain ⟨B1, hG1, _⟩ := RCfg.step_rginv pok hG (.thread tid path)
  generalize ha : (th.step (effPol p c.gcActive) c.rst.st path).1 = a
  have hstep : c.step p (.thread tid path) =
      { c with rst := a.run c.rst,
               threads := c.threads.set tid (th.step (effPol p c.gcActive) c.rst.st path).2 } := by
    simp [RCfg.step, hi, ha]
  have hacct := ext_acct_set (l := c.threads) hi
    (RThread.step_acct (effPol p c.gcActive) c.rst.st th path)
  rw [ha] at hacct
  constructor
  · intro e he
    -- `e` is a counted reference after the step, and the store is unchanged
    have hg : (gainOf c.rst.st.store a).count e = 1 := by
      rcases he with he | he <;> simp [he, gainOf]
    have hl : (loseOf c.rst.st.store a).count e = 0 := by
      rcases he with he | he <;> simp [he, loseOf]
    have h2 := (hacct e).2
    have hmem : e ∈ (c.step p (.thread tid path)).ext := by
      rw [hstep]
      show e ∈ (c.threads.set tid _).flatMap RThread.owned
      apply List.count_pos_iff.mp
      omega
    have := hG1.rc.ext_ok e hmem
    rw [hstep] at this
    have hs : (a.run c.rst).st.store = c.rst.st.store := by
      rcases he with he | he <;> simp [he, RAct.run]
    simpa [hs] using this
  · intro j hj
    have hle := (hacct (.inner j)).1
    simp only [hj, loseOf, List.count_cons_self, List.count_nil] at hle
    have hpos : 0 < c.ext.count (.inner j) := by
      show 0 < List.count (Edge.inner j) (c.threads.flatMap RThread.owned); omega
    have hm : Edge.inner j ∈ c.ext := List.count_pos_iff.mp hpos
    obtain ⟨n, hn⟩ := hG.rc.ext_ok _ hm
    refine ⟨⟨n, hn⟩, ?_⟩
    have := hG.rc.rc_eq j n hn
    omega

/-- **`acts_on_stored`.** At every reachable configuration, whatever thread and `par` path the
scheduler selects next: if the step is a `retain e` (or a cache hit, which retains its result)
then `e` points to a stored node **before** the step; if it is a `release` of an edge to slot `j`
then slot `j` is occupied and `rc j ≥ 2` — the `fetch_add` / `fetch_sub` never hits a freed slot,
and a `release` never takes the counter below the table's own reference
(`debug_assert!(_old_rc > 1)` of `drop_edge`). -/
theorem acts_on_stored {p : Policy} (pok : p.OK) (c0 : RCfg) (ts0 : Nat → List (Option BDD))
    (hinit : RInit c0 ts0) (sched : List RSel) (tid : Nat) (path : List Bool) (th : RThread)
    (hi : (c0.run p sched).threads[tid]? = some th) :
    (∀ e, (th.step (effPol p (c0.run p sched).gcActive) (c0.run p sched).rst.st path).1 = .retain e ∨
        (th.step (effPol p (c0.run p sched).gcActive) (c0.run p sched).rst.st path).1 =
          .cacheGet (some e) →
      (c0.run p sched).rst.st.store.has e) ∧
    (∀ j, (th.step (effPol p (c0.run p sched).gcActive) (c0.run p sched).rst.st path).1 =
        .release (.inner j) →
      (∃ n, (c0.run p sched).rst.st.store.get? j = some n) ∧
        2 ≤ rcGet (c0.run p sched).rst.rc j) := by
  obtain ⟨B, hG⟩ := reachable_rginv pok hinit sched
  exact acts_core pok hG tid path th hi

/-! ## non-vacuity: two threads, the parallel recursor and the counter-driven collector -/

def exS : Store := ⟨#[some ⟨0, .term true, .term false⟩, some ⟨1, .term true, .term false⟩]⟩

def exX0 : BDD := .node 0 (.leaf true) (.leaf false)
def exX1 : BDD := .node 1 (.leaf true) (.leaf false)

/-- store: `#0 = x0`, `#1 = x1`, both counters `3` (the table's reference and one handle per
thread). Thread 0 (parallel recursor, split depth 1): `x0 ∧ x1`, clone the result, drop it.
Thread 1 (sequential): `x1 ∧ x0`, drop the result, compute it again. -/
def exR : RCfg :=
  ⟨⟨⟨exS, [], 0⟩, #[3, 3]⟩,
   [⟨1, [some (.inner 0), some (.inner 1)], [.bin .and 0 1, .clone 2, .drop 2], none⟩,
    ⟨0, [some (.inner 0), some (.inner 1)], [.bin .and 1 0, .drop 2, .bin .and 1 0], none⟩], false⟩

def exTs : Nat → List (Option BDD) := fun _ => [some exX0, some exX1]

theorem exS_get (i : Nat) : exS.get? i =
    match i with
    | 0 => some ⟨0, .term true, .term false⟩
    | 1 => some ⟨1, .term true, .term false⟩
    | _ => none := by
  match i with
  | 0 => rfl
  | 1 => rfl
  | i + 2 => simp [Store.get?, exS]

theorem exS_x0 : Denotes exS (.inner 0) exX0 := .inner (exS_get 0) .term .term
theorem exS_x1 : Denotes exS (.inner 1) exX1 := .inner (exS_get 1) .term .term

theorem exRInit : RInit exR exTs where
  init := {
    unique := by
      intro i j n hi hj
      change exS.get? i = some n at hi
      change exS.get? j = some n at hj
      rw [exS_get] at hi hj
      match i, j with
      | 0, 0 => rfl
      | 1, 1 => rfl
      | 0, 1 => simp only [Option.some.injEq] at hi hj; rw [← hi] at hj; cases hj
      | 1, 0 => simp only [Option.some.injEq] at hi hj; rw [← hi] at hj; cases hj
      | i + 2, _ => cases hi
      | 0, j + 2 => cases hj
      | 1, j + 2 => cases hj
    cache := CacheOK.nil _
    nogc := fun h => by cases h
    idle := by
      intro i th hi
      match i, hi with
      | 0, hi => cases hi; rfl
      | 1, hi => cases hi; rfl
    handles := by
      have h : HsDen exS [some (.inner 0), some (.inner 1)] [some exX0, some exX1] := by
        refine ⟨rfl, fun i => ?_⟩
        match i with
        | 0 => exact exS_x0
        | 1 => exact exS_x1
        | i + 2 => trivial
      intro i th hi
      match i, hi with
      | 0, hi => cases hi; exact h
      | 1, hi => cases hi; exact h }
  rc := {
    ext_ok := by
      intro e he
      have : e = .inner 0 ∨ e = .inner 1 := by
        simp [RCfg.ext, exR, RThread.owned, RThread.handles] at he
        rcases he with h | h | h | h <;> simp [h]
      rcases this with rfl | rfl
      · exact ⟨_, exS_get 0⟩
      · exact ⟨_, exS_get 1⟩
    kids_ok := by
      intro i n hi
      change exS.get? i = some n at hi
      rw [exS_get] at hi
      match i with
      | 0 => cases hi; exact ⟨trivial, trivial⟩
      | 1 => cases hi; exact ⟨trivial, trivial⟩
      | i + 2 => cases hi
    cache_ok := fun _ _ h => by cases h
    rc_eq := by
      intro i n hi
      change exS.get? i = some n at hi
      rw [exS_get] at hi
      match i with
      | 0 => decide +kernel
      | 1 => decide +kernel
      | i + 2 => cases hi }
  ord := by
    intro i n hi
    change exS.get? i = some n at hi
    show ∃ T, Denotes exS (Edge.inner i) T ∧ Ordered 0 T
    rw [exS_get] at hi
    match i with
    | 0 => exact ⟨exX0, exS_x0, .node (Nat.le_refl _) .leaf .leaf⟩
    | 1 => exact ⟨exX1, exS_x1, .node (Nat.zero_le _) .leaf .leaf⟩
    | i + 2 => cases hi

def t0 (path : List Bool) : RSel := .thread 0 path
def t1 : RSel := .thread 1 []

/-- thread 0 forks, its then-branch returns a **clone** of `x1` (`#1`, counter `4`); thread 1
computes `x1 ∧ x0` (new node `#2 = (0, #1, ⊥)`, `#1` gets a parent edge) and drops the result, so
`#2` has `rc = 1`; a collection begins and the sweep of level 0 **frees `#2` by its counter** and
releases its child `#1` — while thread 0 is in the middle of computing the same function -/
def exSA : List RSel := List.replicate 4 (t0 [true]) ++ List.replicate 10 t1 ++ [.gcBegin, .gcLevel 0]
/-- … during the collection thread 1 recomputes `x1 ∧ x0` (cache locked: all misses) and
re-creates the node in the freed slot 2 (`rc = 2`); thread 0 finishes its else-branch, joins, and
its `get_or_insert` **hits** `#2`: `#2` is retained (`rc = 3`), the children `#1`, `⊥` of the rejected
node are still to be released -/
def exSC : List RSel := exSA ++ List.replicate 7 t1 ++ [t0 [false], t0 []]
/-- … the collection ends; thread 0 releases `#1` and `⊥`, adds the cache entry, stores the
handle, clones it (`retain`), drops it (`release`); thread 1 finishes -/
def exSD : List RSel :=
  exSC ++ [.gcLevel 1, .gcEnd, t0 [], t0 [], t0 [], t0 [], t0 [], t0 [], t1, t1]

example : (exR.run Policy.exact exSA).rst.st.store.nodes =
      #[some ⟨0, .term true, .term false⟩, some ⟨1, .term true, .term false⟩, none] ∧
    (exR.run Policy.exact exSA).rst.rc = #[3, 4, 1] ∧
    (exR.run Policy.exact exSA).threads.map (·.cur) =
      [some (.par ⟨(.and, [.inner 0, .inner 1]), 0⟩ (.ret (.inner 1))
        (.call 0 (.bin .and (.term false) (.inner 1)))), none] := by decide +kernel

/-- `#1`: the table's reference, two handles, the pending release of thread 0, the parent edge of
`#2` = 5; `#2`: the table's, thread 0's and thread 1's result = 3 -/
example : (exR.run Policy.exact exSC).rst.rc = #[3, 5, 3] ∧
    (exR.run Policy.exact exSC).threads.map (·.cur) =
      [some (.made (.and, [.inner 0, .inner 1]) (.inner 2) [.inner 1, .term false]),
       some (.made (.and, [.inner 0, .inner 1]) (.inner 2) [])] ∧
    ownedCount (exR.run Policy.exact exSC) 1 = 1 ∧ handleCount (exR.run Policy.exact exSC) 1 = 2 ∧
    (exR.run Policy.exact exSC).gcActive = true := by decide +kernel

theorem exDone : (exR.run Policy.exact exSD).allDone = true := by decide +kernel

example : (exR.run Policy.exact exSD).rst.rc = #[3, 4, 3] ∧
    (exR.run Policy.exact exSD).threads.map (·.hs) =
      [[some (.inner 0), some (.inner 1), none, some (.inner 2)],
       [some (.inner 0), some (.inner 1), none, some (.inner 2)]] ∧
    exSD.length = 35 := by decide +kernel

/-- the theorems apply to these runs (all hypotheses are satisfiable) -/
example := rc_invariant_interleaved Policy.exact_ok exR exTs exRInit exSC
example := gc_refines Policy.exact_ok exR exTs exRInit
  (List.replicate 4 (t0 [true]) ++ List.replicate 10 t1 ++ [.gcBegin]) 0
/-- the sweep of level 0 after `gcBegin` frees `#2` (nothing refers to it) and keeps `#0` -/
example := (collector_frees_only_unreferenced Policy.exact_ok exR exTs exRInit
  (List.replicate 4 (t0 [true]) ++ List.replicate 10 t1 ++ [.gcBegin]) 0 2 ⟨0, .inner 1, .term false⟩
  (by decide +kernel) (by decide +kernel)).1
example := rthreads_simulates Policy.exact_ok exR exTs exRInit exSD
example := interleaving_correct_rc Policy.exact_ok exR exTs exRInit exSD exDone
example := quiescent_exact Policy.exact_ok exR exTs exRInit exSD exDone
example := full_gc_exact Policy.exact_ok exR exTs exRInit exSD exDone 2
example := no_use_after_free Policy.exact_ok exR exTs exRInit exSC 0 _ rfl
example := acts_on_stored Policy.exact_ok exR exTs exRInit exSC 0 [] _ rfl
/-- the next step of thread 0 after `exSC` is the release of the rejected child `#1` -/
example : ((exR.run Policy.exact exSC).threads[0]?.map fun th =>
    (th.step (effPol Policy.exact true) (exR.run Policy.exact exSC).rst.st []).1.erase.isNone) =
    some true := by decide +kernel

end OxiddModel.Bdd.C07R
