import OxiddModel.Bdd.ThreadsRun
import OxiddModel.Bdd.ThreadsSeq
import OxiddModel.Bdd.PropertiesC06

/-!
# C07 — the resumption-level composition: every interleaving of atomic actions is correct

Property text: *"Operations issued concurrently from several threads on one manager — including
the implicit parallel recursion of the multi-threaded apply algorithms, handle clone/drop on any
thread, and garbage collections running alongside — each return exactly the handle that a
sequential execution would return. They never deadlock, never corrupt the diagram, and afterwards
the diagram is well-formed with exact reference counts."*

`PropertiesC07.schedule_independent_partial` left open the **resumption-level composition**: an
interleaving semantics at the granularity of the atomic actions and a proof that *every*
interleaving is correct. This file states that theorem about the machine of `Threads.lean`:

* any number of user threads, each running a script of `not` / the eight binary operators /
  `ite` / `clone` / `drop` on its own handles, with the sequential recursor or the parallel
  recursor of any split depth (`fork`/`join`: both cofactor calls separately schedulable);
* a collector that may run between any two atomic actions, either as one atomic collection or in
  phases (`gcBegin`: cache cleared and locked, `gcLevel l`: one level swept under its mutex,
  `gcEnd`) that interleave with the threads' actions; its root set consists of the edges that
  carry a **reference count** (handles, results owned by frames) — the *borrowed* operand edges
  of recursive calls are not roots, their protection is proved (`collection_keeps_held`);
* an arbitrary apply-cache behaviour `p` with `Policy.OK` (capacity, hashing, `try_lock`
  failures, evictions — per access);
* **every schedule** (`List Sel`, no fairness or length assumption).

Theorems: `interleaving_invariant` (at every moment), `interleaving_correct` (complete
schedules: each thread ends with handles denoting exactly what the sequential tree-level
execution of its script yields), `interleaving_handles_kept`, `interleaving_same_handle`,
`interleaving_vs_sequential`, `sequential_schedule_is_applyS` / `…_notS` / `…_iteS` (the
machine's program text is `applyS`), `collection_keeps_held`, `cache_locked_during_gc`,
`no_temporaries_left`, `thread_terminates`, `fair_schedule_completes`,
`complete_schedule_exists`.

**Assumptions that stay assumptions** (see `Threads.lean`): atomicity of the actions `mk`
(`get_or_insert` under the level mutex), `cacheGet`/`cacheAdd` (bucket lock), `gcLevel` (the sweep
of one level under the same mutex), `gcBegin` (all buckets locked, entries cleared); sequential
consistency; the reference counts are exact (C05: "unreferenced" = neither a handle nor owned by
a frame nor the child of a stored node); reading an operand node is not an action of its own
(nodes are immutable while reachable from a held edge). Not modelled: BCDD/ZBDD/MTBDD rules, quantification,
substitution, reordering (exclusive lock), allocation failure, the worker pool's own
synchronisation (`Locks.Properties` covers its deadlock freedom).
-/
namespace OxiddModel.Bdd.C07T
open OxiddModel.Bdd OxiddModel.Bdd.BDD OxiddModel.Bdd.Refine OxiddModel.Bdd.Threads

/-! ## safety at every moment -/

/-- **Never corrupted, at every moment.** After *any* schedule prefix from an initial
configuration: the shared store is hash-consed (`Unique`), the apply cache is sound (`CacheOK`),
every handle of every thread denotes a tree, and every operation in progress satisfies its task
invariant (all edges held by its frames denote the trees of its obligation). -/
theorem interleaving_invariant {p : Policy} (pok : p.OK) (c0 : Cfg)
    (ts0 : Nat → List (Option BDD)) (hinit : Init c0 ts0) (sched : List Sel) :
    (c0.run p sched).st.store.Unique ∧
    CacheOK (c0.run p sched).st.store (c0.run p sched).st.cache ∧
    ∀ (i : Nat) (th : Thread), (c0.run p sched).threads[i]? = some th →
      (∃ ts, HsDen (c0.run p sched).st.store th.hs ts) ∧
      (∀ t, th.cur = some t → ∃ T n, TaskOK (c0.run p sched).st.store t T n) := by
  obtain ⟨B', hG, _⟩ := Cfg.run_ginv pok sched (ginv_init hinit)
  refine ⟨hG.1.1, hG.1.2, fun i th hi => ?_⟩
  obtain ⟨ts, hhs, hcur⟩ := (hG.2.2 i th hi).1
  refine ⟨⟨ts, hhs⟩, fun t ht => ?_⟩
  rw [ht] at hcur
  obtain ⟨T, n, hok, _, _⟩ := hcur
  exact ⟨T, n, hok⟩

/-! ## the interleaving theorem -/

/-- **Every interleaving is correct.** For every number of threads, every assignment of scripts,
split depths and handles denoting trees in the initial store, every admissible cache behaviour
and **every schedule** (thread steps with arbitrary `par` paths and collector steps, in any
order) that runs all threads to completion:

* the final shared state satisfies `Unique ∧ CacheOK`,
* the set of threads is unchanged, and
* the handles of each thread `i` denote, slot by slot, exactly
  `evalScript script_i (ts0 i)` — the result of executing its script **sequentially on trees**
  with `applyNot` / `applyBin op` / `applyIte` (`Model.lean`), dropped slots being dropped.

In particular each operation's returned edge (the slot appended by it) denotes the tree-level
result. -/
theorem interleaving_correct {p : Policy} (pok : p.OK) (c0 : Cfg)
    (ts0 : Nat → List (Option BDD)) (hinit : Init c0 ts0) (sched : List Sel)
    (hdone : (c0.run p sched).allDone = true) :
    (c0.run p sched).st.store.Unique ∧
    CacheOK (c0.run p sched).st.store (c0.run p sched).st.cache ∧
    (c0.run p sched).threads.length = c0.threads.length ∧
    ∀ i th0, c0.threads[i]? = some th0 →
      ∃ th, (c0.run p sched).threads[i]? = some th ∧
        HsDen (c0.run p sched).st.store th.hs (evalScript th0.script (ts0 i)) := by
  obtain ⟨B', hG, _⟩ := Cfg.run_ginv pok sched (ginv_init hinit)
  have hlen := Cfg.run_length (p := p) c0 sched
  refine ⟨hG.1.1, hG.1.2, hlen, fun i th0 hi => ?_⟩
  obtain ⟨th, hth⟩ := getElem?_some_of_lt (l := (c0.run p sched).threads) (i := i)
    (by rw [hlen]; exact lt_of_getElem?_some hi)
  refine ⟨th, hth, ?_⟩
  have := (hG.2.2 i th hth).1.final ((allDone_iff _).mp hdone i th hth)
  simpa only [specF, hi] using this

/-- **The result of a single operation**, spelled out for `apply_bin::<OP>`: if thread `i` issues
`bin op j k` as the only command, on handles denoting `a` and `b`, then after every complete
schedule it owns a new handle `r` (slot `hs.length`) denoting `applyBin op a b`. -/
theorem interleaving_bin_correct {p : Policy} (pok : p.OK) (c0 : Cfg)
    (ts0 : Nat → List (Option BDD)) (hinit : Init c0 ts0) (sched : List Sel)
    (hdone : (c0.run p sched).allDone = true) (i : Nat) (th0 : Thread) (op : Op) (j k : Nat)
    (a b : BDD) (hi : c0.threads[i]? = some th0) (hs : th0.script = [.bin op j k])
    (ha : hget (ts0 i) j = some a) (hb : hget (ts0 i) k = some b) :
    ∃ th r, (c0.run p sched).threads[i]? = some th ∧ hget th.hs th0.hs.length = some r ∧
      Denotes (c0.run p sched).st.store r (applyBin op a b) := by
  obtain ⟨th, hth, hden⟩ := (interleaving_correct pok c0 ts0 hinit sched hdone).2.2.2 i th0 hi
  have hl : th0.hs.length = (ts0 i).length := (hinit.handles i th0 hi).1
  have : hget (evalScript th0.script (ts0 i)) th0.hs.length = some (applyBin op a b) := by
    rw [hs]
    simp only [evalScript, evalCmd, ha, hb]
    rw [hget_append, hl]; simp
  obtain ⟨r, hr, hd⟩ := hden.get this
  exact ⟨th, r, hth, hr, hd⟩

/-- the same for `apply_not` -/
theorem interleaving_not_correct {p : Policy} (pok : p.OK) (c0 : Cfg)
    (ts0 : Nat → List (Option BDD)) (hinit : Init c0 ts0) (sched : List Sel)
    (hdone : (c0.run p sched).allDone = true) (i : Nat) (th0 : Thread) (j : Nat)
    (a : BDD) (hi : c0.threads[i]? = some th0) (hs : th0.script = [.not j])
    (ha : hget (ts0 i) j = some a) :
    ∃ th r, (c0.run p sched).threads[i]? = some th ∧ hget th.hs th0.hs.length = some r ∧
      Denotes (c0.run p sched).st.store r (applyNot a) := by
  obtain ⟨th, hth, hden⟩ := (interleaving_correct pok c0 ts0 hinit sched hdone).2.2.2 i th0 hi
  have hl : th0.hs.length = (ts0 i).length := (hinit.handles i th0 hi).1
  have : hget (evalScript th0.script (ts0 i)) th0.hs.length = some (applyNot a) := by
    rw [hs]
    simp only [evalScript, evalCmd, ha]
    rw [hget_append, hl]; simp
  obtain ⟨r, hr, hd⟩ := hden.get this
  exact ⟨th, r, hth, hr, hd⟩

/-- the same for `apply_ite` -/
theorem interleaving_ite_correct {p : Policy} (pok : p.OK) (c0 : Cfg)
    (ts0 : Nat → List (Option BDD)) (hinit : Init c0 ts0) (sched : List Sel)
    (hdone : (c0.run p sched).allDone = true) (i : Nat) (th0 : Thread) (j k l : Nat)
    (a b c : BDD) (hi : c0.threads[i]? = some th0) (hs : th0.script = [.ite j k l])
    (ha : hget (ts0 i) j = some a) (hb : hget (ts0 i) k = some b) (hc : hget (ts0 i) l = some c) :
    ∃ th r, (c0.run p sched).threads[i]? = some th ∧ hget th.hs th0.hs.length = some r ∧
      Denotes (c0.run p sched).st.store r (applyIte a b c) := by
  obtain ⟨th, hth, hden⟩ := (interleaving_correct pok c0 ts0 hinit sched hdone).2.2.2 i th0 hi
  have hl : th0.hs.length = (ts0 i).length := (hinit.handles i th0 hi).1
  have : hget (evalScript th0.script (ts0 i)) th0.hs.length = some (applyIte a b c) := by
    rw [hs]
    simp only [evalScript, evalCmd, ha, hb, hc]
    rw [hget_append, hl]; simp
  obtain ⟨r, hr, hd⟩ := hden.get this
  exact ⟨th, r, hth, hr, hd⟩

/-- **Held handles are untouched.** A handle `e` (slot `j` of thread `i`, denoting `t`) that its
owner's script never drops is, after every complete schedule, still the same edge in the same
slot and still denotes `t` — whatever nodes the other threads created and the collector freed. -/
theorem interleaving_handles_kept {p : Policy} (pok : p.OK) (c0 : Cfg)
    (ts0 : Nat → List (Option BDD)) (hinit : Init c0 ts0) (sched : List Sel)
    (hdone : (c0.run p sched).allDone = true) (i j : Nat) (th0 : Thread) (e : Edge) (t : BDD)
    (hi : c0.threads[i]? = some th0) (he : hget th0.hs j = some e)
    (ht : Denotes c0.st.store e t) (hnd : NoDrop th0.script j) :
    ∃ th, (c0.run p sched).threads[i]? = some th ∧ hget th.hs j = some e ∧
      Denotes (c0.run p sched).st.store e t := by
  obtain ⟨th, hth, hden⟩ := (interleaving_correct pok c0 ts0 hinit sched hdone).2.2.2 i th0 hi
  obtain ⟨th', hth', he'⟩ := Cfg.run_hget (p := p) c0 sched hi he hnd
  rw [hth] at hth'; cases hth'
  obtain ⟨t', ht', hd'⟩ := (hinit.handles i th0 hi).live he
  have := Denotes.functional ht hd'
  subst this
  obtain ⟨e', he'', hd''⟩ := hden.get (evalScript_keeps ht' hnd)
  rw [he'] at he''; cases he''
  exact ⟨th, hth, he', hd''⟩

/-- **Same function ⇒ same handle.** After every complete schedule, two handles — of the same or
of different threads, computed by different operations under arbitrary interleaving, or held from
the start — whose sequential specifications are the same tree are the **same edge**
(`inj_of_unique` in the final store). So a result equals any handle of the same function that
anybody holds; the returned handle is determined by the function computed, not by the schedule. -/
theorem interleaving_same_handle {p : Policy} (pok : p.OK) (c0 : Cfg)
    (ts0 : Nat → List (Option BDD)) (hinit : Init c0 ts0) (sched : List Sel)
    (hdone : (c0.run p sched).allDone = true) (i1 i2 k1 k2 : Nat) (th1 th2 : Thread) (T : BDD)
    (h1 : c0.threads[i1]? = some th1) (h2 : c0.threads[i2]? = some th2)
    (hT1 : hget (evalScript th1.script (ts0 i1)) k1 = some T)
    (hT2 : hget (evalScript th2.script (ts0 i2)) k2 = some T) :
    ∃ th1' th2' e, (c0.run p sched).threads[i1]? = some th1' ∧
      (c0.run p sched).threads[i2]? = some th2' ∧
      hget th1'.hs k1 = some e ∧ hget th2'.hs k2 = some e ∧
      Denotes (c0.run p sched).st.store e T := by
  have C := interleaving_correct pok c0 ts0 hinit sched hdone
  obtain ⟨t1, ht1, hd1⟩ := C.2.2.2 i1 th1 h1
  obtain ⟨t2, ht2, hd2⟩ := C.2.2.2 i2 th2 h2
  obtain ⟨e1, he1, hde1⟩ := hd1.get hT1
  obtain ⟨e2, he2, hde2⟩ := hd2.get hT2
  have := inj_of_unique C.1 _ _ _ hde1 hde2
  subst this
  exact ⟨t1, t2, e1, ht1, ht2, he1, he2, hde1⟩

/-- **The concurrent result denotes what the sequential `applyS` run returns.** The result of
`bin op j k` in any complete interleaving and the edge returned by the functional algorithm
`applyS` (`ApplyS.lean`, the sequential run from the initial state) denote the same tree, each in
its final store. -/
theorem interleaving_vs_sequential {p : Policy} (pok : p.OK) (c0 : Cfg)
    (ts0 : Nat → List (Option BDD)) (hinit : Init c0 ts0) (sched : List Sel)
    (hdone : (c0.run p sched).allDone = true) (i : Nat) (th0 : Thread) (op : Op) (j k : Nat)
    (f g : Edge) (hi : c0.threads[i]? = some th0) (hs : th0.script = [.bin op j k])
    (hf : hget th0.hs j = some f) (hg : hget th0.hs k = some g) (fuel : Nat)
    (hfuel : ∀ a b, Denotes c0.st.store f a → Denotes c0.st.store g b → a.size + b.size ≤ fuel) :
    ∃ th r T, (c0.run p sched).threads[i]? = some th ∧ hget th.hs th0.hs.length = some r ∧
      Denotes (c0.run p sched).st.store r T ∧
      Denotes (applyS p op fuel c0.st f g).1.store (applyS p op fuel c0.st f g).2 T := by
  obtain ⟨a, ha, hda⟩ := (hinit.handles i th0 hi).live hf
  obtain ⟨b, hb, hdb⟩ := (hinit.handles i th0 hi).live hg
  obtain ⟨th, r, hth, hr, hd⟩ :=
    interleaving_bin_correct pok c0 ts0 hinit sched hdone i th0 op j k a b hi hs ha hb
  exact ⟨th, r, _, hth, hr, hd,
    (applyS_spec pok op fuel c0.st f g a b ⟨hinit.unique, hinit.cache⟩ hda hdb
      (hfuel a b hda hdb)).den⟩

/-! ## the program text of the machine is `applyS` -/

/-- **The sequential schedule of the machine computes exactly `applyS`.** One thread with the
sequential recursor, alone: some number of its steps takes the operation `bin op f g` from state
`st` to the finished task `ret r` in state `st'` with `(st', r) = applyS p op fuel st f g` — the
same store, cache, time stamp and edge. -/
theorem sequential_schedule_is_applyS {p : Policy} (pok : p.OK) (op : Op) (fuel : Nat) (st : St)
    (f g : Edge) (a b : BDD) (hu : st.store.Unique) (hc : CacheOK st.store st.cache)
    (hf : Denotes st.store f a) (hg : Denotes st.store g b) (hfuel : a.size + b.size ≤ fuel)
    (d : Nat) (hs : List (Option Edge)) (sc : List Threads.Cmd) :
    ∃ n, Cfg.run p ⟨st, [⟨d, hs, sc, some (.call 0 (.bin op f g))⟩], false⟩
        (List.replicate n (.thread 0 [])) =
      ⟨(applyS p op fuel st f g).1, [⟨d, hs, sc, some (.ret (applyS p op fuel st f g).2)⟩], false⟩ :=
  Cfg.run_solo (applyS_steps pok op fuel st f g a b ⟨hu, hc⟩ hf hg hfuel) d hs sc

/-- the same for `apply_not` -/
theorem sequential_schedule_is_notS {p : Policy} (pok : p.OK) (fuel : Nat) (st : St)
    (f : Edge) (a : BDD) (hu : st.store.Unique) (hc : CacheOK st.store st.cache)
    (hf : Denotes st.store f a) (hfuel : a.size ≤ fuel)
    (d : Nat) (hs : List (Option Edge)) (sc : List Threads.Cmd) :
    ∃ n, Cfg.run p ⟨st, [⟨d, hs, sc, some (.call 0 (.not f))⟩], false⟩
        (List.replicate n (.thread 0 [])) =
      ⟨(notS p fuel st f).1, [⟨d, hs, sc, some (.ret (notS p fuel st f).2)⟩], false⟩ :=
  Cfg.run_solo (notS_steps pok fuel st f a ⟨hu, hc⟩ hf hfuel) d hs sc

/-- the same for `apply_ite` -/
theorem sequential_schedule_is_iteS {p : Policy} (pok : p.OK) (fuel : Nat) (st : St)
    (f g h : Edge) (a b c : BDD) (hu : st.store.Unique) (hc : CacheOK st.store st.cache)
    (hf : Denotes st.store f a) (hg : Denotes st.store g b) (hh : Denotes st.store h c)
    (hfuel : a.size + b.size + c.size ≤ fuel)
    (d : Nat) (hs : List (Option Edge)) (sc : List Threads.Cmd) :
    ∃ n, Cfg.run p ⟨st, [⟨d, hs, sc, some (.call 0 (.ite f g h))⟩], false⟩
        (List.replicate n (.thread 0 [])) =
      ⟨(iteS p fuel st f g h).1, [⟨d, hs, sc, some (.ret (iteS p fuel st f g h).2)⟩], false⟩ :=
  Cfg.run_solo (iteS_steps pok fuel st f g h a b c ⟨hu, hc⟩ hf hg hh hfuel) d hs sc

/-! ## the collector -/

/-- **A collection keeps everything a thread holds, although only counted edges are roots.** At
every reachable configuration, an atomic collection or the sweep of any single level — with the
root set `Cfg.roots` = handles and *owned* results only — keeps the denotation of **every** edge
held by any frame of any thread (`Thread.held`), including the borrowed operands of pending
recursive calls and the cache keys, which carry no reference count: they are reachable from
handles of the same thread (`ThreadCov`), and a node is only freed if no stored node refers to
it. -/
theorem collection_keeps_held {p : Policy} (pok : p.OK) (c0 : Cfg)
    (ts0 : Nat → List (Option BDD)) (hinit : Init c0 ts0) (sched : List Sel) (i : Nat)
    (th : Thread) (hi : (c0.run p sched).threads[i]? = some th) :
    StableOn th.held (c0.run p sched).st.store
      ((c0.run p sched).st.store.sweep (c0.run p sched).roots) ∧
    ∀ l, StableOn th.held (c0.run p sched).st.store
      (sweepLevel (c0.run p sched).st.store (c0.run p sched).roots l) := by
  obtain ⟨B', hG, _⟩ := Cfg.run_ginv pok sched (ginv_init hinit)
  have hcov := (hG.2.2 i th hi).2
  exact ⟨held_stable_of_removal (sweep_removal _ _) (owned_sub_roots hi) hcov,
    fun l => held_stable_of_removal (sweepLevel_removal _ _ l) (owned_sub_roots hi) hcov⟩

/-- **While a phased collection is going on the apply cache stays empty**: it was cleared by
`gcBegin` and every add of a thread is dropped (its buckets are locked), so no entry can refer to
a node that a later phase frees. (Dropping this lock is the seeded defect
`C07-cache-unlocked-during-gc`.) -/
theorem cache_locked_during_gc {p : Policy} (pok : p.OK) (c0 : Cfg)
    (ts0 : Nat → List (Option BDD)) (hinit : Init c0 ts0) (sched : List Sel)
    (h : (c0.run p sched).gcActive = true) : (c0.run p sched).st.cache = [] := by
  obtain ⟨B', hG, _⟩ := Cfg.run_ginv pok sched (ginv_init hinit)
  exact hG.2.1 h

theorem owned_eq_handles_of_idle : ∀ (l : List Thread), (∀ th, th ∈ l → th.cur = none) →
    l.flatMap Thread.owned = l.flatMap Thread.handles := by
  intro l
  induction l with
  | nil => intro _; rfl
  | cons th ths ih =>
    intro h
    simp only [List.flatMap_cons]
    rw [ih (fun t ht => h t (List.mem_cons_of_mem _ ht))]
    have : th.owned = th.handles := by
      unfold Thread.owned; rw [h th List.mem_cons_self]; simp
    rw [this]

/-- **No temporaries are left**: when all threads have finished, the only edges with a reference
count are the live handles. -/
theorem no_temporaries_left (c : Cfg) (h : c.allDone = true) :
    c.roots = c.threads.flatMap Thread.handles := by
  unfold Cfg.roots
  apply owned_eq_handles_of_idle
  intro th hm
  have := List.all_eq_true.mp h th hm
  simp only [Thread.done, Bool.and_eq_true, Option.isNone_iff_eq_none] at this
  exact this.1

/-! ## progress -/

/-- **Every thread terminates within a bound on its own steps**, under every schedule: if the
schedule selects thread `i` more often than `scriptBound script_i (ts0 i)` — a number computed
from its script and the sizes of its operand trees alone — thread `i` has executed its whole
script at the end, no matter what the other threads and the collector do in between (no step of
a thread ever waits for another thread: the model has no blocking action; cache lock failures
are misses). -/
theorem thread_terminates {p : Policy} (pok : p.OK) (c0 : Cfg)
    (ts0 : Nat → List (Option BDD)) (hinit : Init c0 ts0) (sched : List Sel) (i : Nat)
    (th0 : Thread) (hi : c0.threads[i]? = some th0)
    (hfair : scriptBound th0.script (ts0 i) < selCount i sched) :
    ∃ th, (c0.run p sched).threads[i]? = some th ∧ th.done = true := by
  obtain ⟨B', hG, hcount⟩ := Cfg.run_ginv pok sched (ginv_init hinit)
  have hlen := Cfg.run_length (p := p) c0 sched
  obtain ⟨th, hth⟩ := getElem?_some_of_lt (l := (c0.run p sched).threads) (i := i)
    (by rw [hlen]; exact lt_of_getElem?_some hi)
  refine ⟨th, hth, ?_⟩
  rcases hcount i th hth with hd | hle
  · exact hd
  · simp only [specB, hi] at hle
    omega

/-- **Fair schedules complete**: a schedule that gives every thread more slots than its bound
(collector steps and the order are arbitrary) runs all threads to completion. -/
theorem fair_schedule_completes {p : Policy} (pok : p.OK) (c0 : Cfg)
    (ts0 : Nat → List (Option BDD)) (hinit : Init c0 ts0) (sched : List Sel)
    (hfair : ∀ i th0, c0.threads[i]? = some th0 →
      scriptBound th0.script (ts0 i) < selCount i sched) :
    (c0.run p sched).allDone = true := by
  rw [allDone_iff]
  intro i th hth
  have hlen := Cfg.run_length (p := p) c0 sched
  obtain ⟨th0, hi⟩ := getElem?_some_of_lt (l := c0.threads) (i := i)
    (by rw [← hlen]; exact lt_of_getElem?_some hth)
  obtain ⟨th', hth', hd⟩ := thread_terminates pok c0 ts0 hinit sched i th0 hi (hfair i th0 hi)
  rw [hth] at hth'; cases hth'
  exact hd

/-- hence "runs all threads to completion" is never vacuous: from every initial configuration a
complete schedule exists (and appending or inserting collector steps keeps it complete) -/
theorem complete_schedule_exists {p : Policy} (pok : p.OK) (c0 : Cfg)
    (ts0 : Nat → List (Option BDD)) (hinit : Init c0 ts0) :
    ∃ sched, (c0.run p sched).allDone = true :=
  ⟨fairSched c0 ts0, fair_schedule_completes pok c0 ts0 hinit _
    (fun _ _ hi => selCount_fair c0 ts0 hi)⟩

/-! ## non-vacuity: two threads and the collector on a concrete store -/

open OxiddModel.Bdd.C06

/-- a direct-mapped cache with two buckets (bucket = number of operands) -/
def exPol : Policy := Policy.dm 2 (fun k => k.2.length) (fun _ => true)

/-- thread 0 computes `(x0 ∧ x1) ⊕ (x0 ∨ x1)` with the parallel recursor (split depth 1);
thread 1 computes the same function sequentially (operands swapped), drops the result, computes
`¬(x0 ∧ x1)`, and computes the `⊕` again. Both own handles `#1 = x0 ∧ x1`, `#2 = x0 ∨ x1` of the
store `exStore` of `PropertiesC06`. -/
def exCfg : Cfg :=
  ⟨⟨exStore, [], 0⟩,
   [⟨1, [some (.inner 1), some (.inner 2)], [.bin .xor 0 1], none⟩,
    ⟨0, [some (.inner 1), some (.inner 2)],
      [.bin .xor 1 0, .drop 2, .not 0, .bin .xor 0 1], none⟩], false⟩

def exTs : Nat → List (Option BDD) := fun _ => [some exAnd, some exOr]

theorem exInit : Init exCfg exTs where
  unique := exStore_unique
  cache := CacheOK.nil _
  nogc := fun h => by cases h
  idle := by
    intro i th hi
    match i, hi with
    | 0, hi => cases hi; rfl
    | 1, hi => cases hi; rfl
  handles := by
    have h : HsDen exStore [some (.inner 1), some (.inner 2)] [some exAnd, some exOr] := by
      refine ⟨rfl, fun i => ?_⟩
      match i with
      | 0 => exact exStore_and
      | 1 => exact exStore_or
      | i + 2 => trivial
    intro i th hi
    match i, hi with
    | 0, hi => cases hi; exact h
    | 1, hi => cases hi; exact h

def t0 (path : List Bool) : Sel := .thread 0 path
def t1 : Sel := .thread 1 []

/-- thread 0 issues its command, misses the cache and forks both cofactor calls -/
def exS1 : List Sel := [t0 [], t0 [], t0 []]
/-- … thread 1 runs its first `⊕` completely (creating `#3 = ¬x1`, `#4 = ⊕`), thread 0's
then-branch finds `¬x1` in the cache and now owns `#3`; thread 1 drops its result; a phased
collection begins and sweeps level 0 -/
def exS2 : List Sel :=
  exS1 ++ List.replicate 16 t1 ++ [t0 [true], t0 [true], t1, .gcBegin, .gcLevel 0]
/-- … **during the collection** thread 1 computes `¬(x0 ∧ x1)` up to the creation of its node
(its cache accesses fail); the collection sweeps level 1 and ends; thread 0 finishes its
else-branch, joins, creates its result node and adds it to the cache -/
def exS3 : List Sel :=
  exS2 ++ List.replicate 13 t1 ++ [.gcLevel 1, .gcEnd, t0 [false], t0 [], t0 [], t0 []]
/-- … thread 1 finishes, computes `⊕` again (cache hit); a last, atomic collection -/
def exSched : List Sel := exS3 ++ List.replicate 5 t1 ++ [.gc]

/-- after `exS1`: thread 0 is inside a fork of the parallel recursor — both cofactor calls
`x1 ⊕ ⊤` and `⊥ ⊕ x1` are pending sub-tasks -/
example : ((exCfg.run exPol exS1).threads.map (·.cur)) =
    [some (.par ⟨(.xor, [.inner 1, .inner 2]), 0⟩
        (.call 0 (.bin .xor (.inner 0) (.term true)))
        (.call 0 (.bin .xor (.term false) (.inner 0)))), none] := by decide +kernel

/-- after `exS2`: the sweep of level 0 has **freed** thread 1's dropped result `#4` although
thread 0 is in the middle of computing the same function; `#3` survives because thread 0's
then-branch owns it (`ret #3` inside the `par` frame); the roots are the handles and that result
only — the pending else-call's operand `#0` is borrowed; the cache is empty and locked -/
example : (exCfg.run exPol exS2).roots = [.inner 1, .inner 2, .inner 3, .inner 1, .inner 2] ∧
    (exCfg.run exPol exS2).gcActive = true ∧
    (exCfg.run exPol exS2).st.store.nodes =
      #[some ⟨1, .term true, .term false⟩, some ⟨0, .inner 0, .term false⟩,
        some ⟨0, .term true, .inner 0⟩, some ⟨1, .term false, .term true⟩, none] ∧
    (exCfg.run exPol exS2).st.cache = [] ∧
    (exCfg.run exPol exS2).threads.map (·.cur) =
      [some (.par ⟨(.xor, [.inner 1, .inner 2]), 0⟩ (.ret (.inner 3))
        (.call 0 (.bin .xor (.term false) (.inner 0)))), none] ∧
    (exCfg.run exPol exS2).threads.map (·.hs) =
      [[some (.inner 1), some (.inner 2)], [some (.inner 1), some (.inner 2), none]] := by
  decide +kernel

/-- after `exS3`: the freed slot 4 was **re-used** by thread 1 for `¬(x0 ∧ x1)` while the
collection was still going on, so thread 0's result node is **re-created** in slot 5 — a
different slot than in the sequential run (`#4`, see `PropertiesC06`), denoting the same tree; the
cache holds thread 0's entry only (thread 1's adds during the collection were dropped) -/
example : (exCfg.run exPol exS3).st.cache = [((.xor, [.inner 1, .inner 2]), .inner 5)] ∧
    (exCfg.run exPol exS3).st.store.nodes =
      #[some ⟨1, .term true, .term false⟩, some ⟨0, .inner 0, .term false⟩,
        some ⟨0, .term true, .inner 0⟩, some ⟨1, .term false, .term true⟩,
        some ⟨0, .inner 3, .term true⟩, some ⟨0, .inner 3, .inner 0⟩] ∧
    (exCfg.run exPol exS3).threads.map (·.hs) =
      [[some (.inner 1), some (.inner 2), some (.inner 5)],
       [some (.inner 1), some (.inner 2), none]] := by
  decide +kernel

/-- the schedule is complete, and the outcome: both threads own the handle `#5` for
`(x0 ∧ x1) ⊕ (x0 ∨ x1)` (thread 1 got it from the cache entry thread 0 added) -/
theorem exDone : (exCfg.run exPol exSched).allDone = true := by decide +kernel

example : (exCfg.run exPol exSched).threads.map (·.hs) =
    [[some (.inner 1), some (.inner 2), some (.inner 5)],
     [some (.inner 1), some (.inner 2), none, some (.inner 4), some (.inner 5)]] ∧
    exSched.length = 49 := by
  decide +kernel

/-- `interleaving_correct` applies to this run (all hypotheses are satisfiable) … -/
example := interleaving_correct (Policy.dm_ok _ _ _) exCfg exTs exInit exSched exDone

/-- … and says that thread 0's new handle denotes `applyBin .xor exAnd exOr` -/
example : ∃ th r, (exCfg.run exPol exSched).threads[0]? = some th ∧ hget th.hs 2 = some r ∧
    Denotes (exCfg.run exPol exSched).st.store r (applyBin .xor exAnd exOr) :=
  interleaving_bin_correct (Policy.dm_ok _ _ _) exCfg exTs exInit exSched exDone 0 _ .xor 0 1
    exAnd exOr rfl rfl rfl rfl

/-- `interleaving_same_handle`: thread 0's result (slot 2) and thread 1's second result (slot 4)
are the same edge, because `applyBin .xor` is commutative on these operands -/
example := interleaving_same_handle (Policy.dm_ok _ _ _) exCfg exTs exInit exSched exDone 0 1 2 4
  _ _ (applyBin .xor exAnd exOr) rfl rfl (by decide +kernel) (by decide +kernel)

/-- `interleaving_handles_kept`: thread 1 still owns `#2 = x0 ∨ x1` in slot 1 -/
example := interleaving_handles_kept (Policy.dm_ok _ _ _) exCfg exTs exInit exSched exDone 1 1 _
  (.inner 2) exOr rfl rfl exStore_or (by intro c hc; simp at hc; rcases hc with h | h | h | h <;> subst h <;> simp)

/-- `thread_terminates`: the bound of thread 0 is 6141 own steps (worst case without any cache hit; it needs 9 here) -/
example : scriptBound [Threads.Cmd.bin .xor 0 1] (exTs 0) = 6141 := by decide +kernel

/-- `collection_keeps_held`, `cache_locked_during_gc` in the middle of the phased collection;
`no_temporaries_left` at the end -/
example := collection_keeps_held (Policy.dm_ok 2 (fun k => k.2.length) (fun _ => true)) exCfg exTs
  exInit exS2 0 _ rfl
example : (exCfg.run exPol exS2).st.cache = [] :=
  cache_locked_during_gc (Policy.dm_ok _ _ _) exCfg exTs exInit exS2 (by decide +kernel)
example : (exCfg.run exPol exSched).roots =
    [.inner 1, .inner 2, .inner 5, .inner 1, .inner 2, .inner 4, .inner 5] :=
  (no_temporaries_left _ exDone).trans (by decide +kernel)

/-- `interleaving_invariant` holds at the intermediate configuration after `exS2` -/
example := interleaving_invariant (Policy.dm_ok 2 (fun k => k.2.length) (fun _ => true)) exCfg exTs
  exInit exS2

example := sequential_schedule_is_iteS (Policy.dm_ok 2 (fun k => k.2.length) (fun _ => true))
  13 ⟨exStore, [], 0⟩ (.inner 0) (.inner 1) (.inner 2) exX1 exAnd exOr exStore_unique
  (CacheOK.nil _) exStore_x1 exStore_and exStore_or (by decide) 0 [] []

/-- `sequential_schedule_is_applyS`: alone, the machine goes through `applyS`'s states -/
example := sequential_schedule_is_applyS (Policy.dm_ok 2 (fun k => k.2.length) (fun _ => true))
  .xor 10 ⟨exStore, [], 0⟩ (.inner 1) (.inner 2) exAnd exOr exStore_unique (CacheOK.nil _)
  exStore_and exStore_or (by decide) 0 [] []

/-- the fair schedule of `complete_schedule_exists` for `exCfg` is not empty -/
example : (fairSched exCfg exTs).length = 18615 := by decide +kernel

/-! ## why the model's mechanisms are needed (negative witnesses) -/

/-- thread 0 owns the then-result `#3` inside its `par` frame; thread 1 has just dropped `#4` -/
def exMid : Cfg :=
  exCfg.run exPol (exS1 ++ List.replicate 16 t1 ++ [t0 [true], t0 [true], t1])

/-- **Owned results must be roots** (`EdgeDropGuard`; seeded defect `C07-parallel-recursor-guard`):
with the handles alone as roots two sweeps free `#3` although thread 0 holds it as the result of
its then-branch; with `Cfg.roots` it survives. -/
example :
    ((exMid.st.store.sweep (exMid.threads.flatMap Thread.handles)).sweep
      (exMid.threads.flatMap Thread.handles)).get? 3 = none ∧
    Edge.inner 3 ∈ exMid.threads.flatMap Thread.held ∧
    ((exMid.st.store.sweep exMid.roots).sweep exMid.roots).get? 3 =
      some ⟨1, .term false, .term true⟩ := by decide +kernel

/-- **The cache must stay locked during a phased collection** (seeded defect
`C07-cache-unlocked-during-gc`): an entry that is present when a level is swept — here
`(And, [#1, #2]) ↦ #1` of `exWarm` with nobody holding `#1` — refers to a freed slot afterwards.
In the machine this cannot happen: `cache_locked_during_gc`. -/
theorem stale_entry_if_cache_unlocked : CacheOK exWarm.store exWarm.cache ∧
    ¬ CacheOK (sweepLevel exWarm.store [] 0) exWarm.cache := by
  refine ⟨exWarm_ok.2, fun h => ?_⟩
  obtain ⟨ts, T, _, _, hd⟩ := h (.and, [.inner 1, .inner 2]) (.inner 1) (by decide +kernel)
  cases hd with
  | inner hi _ _ =>
    have : (sweepLevel exWarm.store [] 0).get? 1 = none := by decide +kernel
    rw [this] at hi; cases hi

end OxiddModel.Bdd.C07T
