import OxiddModel.Bdd.Count

/-!
# Headline theorems for property C12 (model counting, counting half) and the node-count part of
# C03, simple BDD rules, tree level

`satCount vars f` models `sat_count_edge` over exact naturals (terminal value `2^vars`, inner node
`(count(then) + count(else)) >> 1`); the number types themselves (saturating machine integers,
floats, `Natural`) and the count cache are the subject of other areas. `nodeCount f` models
`node_count` (number of nodes of the shared diagram, terminals included), `subtrees` its traversal
with a visited set. `f` ranges over **all** ordered trees, `vars` over all naturals covering the
levels of `f`: no bound on depth, width or level numbers.

Vocabulary (defined in `Count.lean`):
* `LevelsLt vars f` — every level occurring in `f` is `< vars`;
* `countModels g k m σ` — enumerate all assignments of the `m` levels `[k, k+m)` (other levels as in
  `σ`) and count those under which `g` holds;
* `bitvecs m` — the list of all `2^m` Boolean vectors of length `m`; `overlay σ k bs` — `σ` with the
  vector `bs` written onto the levels `k, k+1, …`;
* `Subterm g f` — `g` is a node of (the shared diagram of) `f`.
-/
namespace OxiddModel.Bdd
open BDD

/-- C12 "sat_count(vars) returns exactly the number of satisfying assignments of the handle's
function over the given variable count": for every ordered diagram all of whose levels are below
`vars`, the result of the `(c_t + c_e) >> 1` recursion equals
1. the reference enumeration `countModels` over the levels `[0, vars)` (whatever the values `σ` of
   the other levels), and
2. literally the number of Boolean vectors `bs` of length `vars` with `f(bs) = true`, where
   `bitvecs vars` lists every vector of length `vars` exactly once.
In particular every `>> 1` is exact. -/
theorem satcount_exact (vars : Nat) (f : BDD) (k : Nat) (hf : Ordered k f) (hv : LevelsLt vars f) :
    (∀ σ, satCount vars f = countModels f.eval 0 vars σ) ∧
    satCount vars f = (bitvecs vars).countP (fun bs => f.eval (fun l => (bs[l]?).getD false)) ∧
    ((bitvecs vars).Nodup ∧ ∀ bs : List Bool, bs ∈ bitvecs vars ↔ bs.length = vars) := by
  have h0 : Ordered 0 f := hf.mono (Nat.zero_le _)
  have h1 : ∀ σ, satCount vars f = countModels f.eval 0 vars σ := fun σ => by
    rw [satCount_eq_scaled h0 hv (Nat.zero_le _), Nat.pow_zero, Nat.one_mul]
    have := countFrom_eq_countModels vars 0 f σ h0 (by simpa using hv)
    simpa using this
  refine ⟨h1, ?_, bitvecs_nodup vars, fun bs => ⟨bitvecs_length vars bs, ?_⟩⟩
  · rw [h1 (fun _ => false), countModels_eq_countP]
    congr 1
    funext bs
    congr 1
    funext l
    exact overlay_zero bs l
  · rintro rfl; exact bitvecs_complete bs

/-- the count never exceeds `2^vars` (so a machine integer that can hold `2^vars` never saturates) -/
theorem satcount_le (vars : Nat) (f : BDD) (k : Nat) (hf : Ordered k f) (hv : LevelsLt vars f) :
    satCount vars f ≤ 2 ^ vars := by
  rw [(satcount_exact vars f k hf hv).1 (fun _ => false)]
  exact countModels_le _ _ _ _

/-- C12, used by the saturation-marker argument: for a normal-form diagram covered by `vars` the
count is `0` exactly for ⊥, i.e. exactly for the unsatisfiable function. -/
theorem satcount_false_iff (vars : Nat) (f : BDD) (k : Nat) (hf : NF k f) (hv : LevelsLt vars f) :
    (satCount vars f = 0 ↔ f = .leaf false) ∧ (satCount vars f = 0 ↔ ∀ σ, f.eval σ = false) := by
  have h : satCount vars f = 0 ↔ f = .leaf false := by
    rw [satCount_eq_scaled (hf.1.mono (Nat.zero_le _)) hv (Nat.zero_le _), Nat.pow_zero,
      Nat.one_mul]
    exact countFrom_eq_zero_iff hf.2 vars 0
  exact ⟨h, h.trans (nf_false_iff f k hf)⟩

/-- C03 "the node count of any handle equals the size of the unique reduced diagram of its
function": the traversal behind `node_count` returns every node (distinct subterm, terminals
included) of the diagram exactly once, so `nodeCount f` is the number of distinct subterms of `f` —
the length of *any* duplicate-free enumeration of them. -/
theorem nodeCount_subtrees (f : BDD) :
    (subtrees f []).Nodup ∧ (∀ x, x ∈ subtrees f [] ↔ Subterm x f) ∧
    ∀ L : List BDD, L.Nodup → (∀ x, x ∈ L ↔ Subterm x f) → L.length = nodeCount f := by
  obtain ⟨h1, _, h3⟩ := subtrees_spec f [] List.nodup_nil (fun x hx => by cases hx)
  have h3' : ∀ x, x ∈ subtrees f [] ↔ Subterm x f := fun x => by simp [h3 x]
  refine ⟨h1, h3', fun L hL hm => ?_⟩
  unfold nodeCount
  exact ((List.perm_ext_iff_of_nodup hL h1).mpr (fun x => by rw [hm, h3'])).length_eq

/-- … and by canonicity that number depends only on the denoted function (and the order): two
normal-form diagrams of the same function have the same node count. -/
theorem nodeCount_canonical (f g : BDD) (n : Nat) (hf : NF n f) (hg : NF n g)
    (h : ∀ σ, f.eval σ = g.eval σ) : nodeCount f = nodeCount g := by
  rw [(nf_eq_iff f g n hf hg).mpr h]

/-! ## non-vacuity -/

/-- a shared, level-skipping diagram: `x0 ? x2 : (¬x1 ∧ x2)` — 3 models over 3 levels, 6 over 4 -/
def exG : BDD :=
  .node 0 (.node 2 (.leaf true) (.leaf false)) (.node 1 (.leaf false) (.node 2 (.leaf true) (.leaf false)))

theorem exG_nf : NF 0 exG := by
  refine ⟨.node (by omega) (.node (by omega) .leaf .leaf) (.node (by omega) .leaf (.node (by omega) .leaf .leaf)), ?_⟩
  simp [exG, Reduced]

theorem exG_lt : LevelsLt 3 exG := by simp [exG, LevelsLt]

example : satCount 3 exG = 3 ∧ satCount 4 exG = 6 ∧ satCount 3 (.leaf false) = 0 ∧
    countModels exG.eval 0 3 (fun _ => false) = 3 ∧
    nodeCount exG = 5 ∧ (bitvecs 3).length = 8 := by decide

example := satcount_exact 3 exG 0 exG_nf.1 exG_lt
example := satcount_exact 4 exG 0 exG_nf.1 (exG_lt.mono (by omega))
example := satcount_le 3 exG 0 exG_nf.1 exG_lt
example := satcount_false_iff 3 exG 0 exG_nf exG_lt
example := nodeCount_subtrees exG
example := nodeCount_canonical exG exG 0 exG_nf exG_nf (fun _ => rfl)

/-- the hypothesis `LevelsLt vars f` cannot be dropped: with too small a `vars` the shift is inexact
and a satisfiable function gets count 0 -/
example : satCount 0 (var 5) = 0 ∧ var 5 ≠ .leaf false := by decide

end OxiddModel.Bdd
