import OxiddModel.Bdd.PropertiesC12S

/-!
# The repaired epoch protocol is correct under interleaved collections

`count_during_collection_wrong` (`PropertiesC12S.lean`) shows that with the code as it is — the
epoch `gc_count` is advanced once, at the *start* of `Manager::gc` — a count that runs while a
collection on another thread is under way can leave stale entries under the current epoch. This
file models the proposed repair (`proposed_fix.diff`) and proves it correct for **every**
interleaving of the steps of a collection with the operations of other threads:

* `Manager::gc`: `gc_count.fetch_add(1)` at the start *and* at the end (the count is odd exactly
  while a collection runs; `gc_ongoing` excludes two collections at once);
* `Manager::reorder`: `gc_count += 2` (exclusive access, no collection can be running);
* `SatCountCache::clear_if_invalid`: additionally clears when the epoch is odd.

`HOp` and the spec `SpecAll`/`CountSpec` are those of the as-is model; only the interpretation of
the steps (`runFix`) differs. Counts are atomic steps of the history (see REPORT for the argument
about a count that overlaps the start of a collection).
-/
namespace OxiddModel.Bdd.CountS
open OxiddModel.Bdd OxiddModel.Bdd.BDD OxiddModel.Bdd.Refine

/-- repaired `clear_if_invalid`: `if epoch != self.epoch || epoch % 2 != 0 || vars != self.vars` -/
def CountCache.clearIfInvalidFix (c : CountCache) (gcCount vars : Nat) : CountCache :=
  if gcCount ≠ c.epoch ∨ gcCount % 2 ≠ 0 ∨ vars ≠ c.vars then
    { c with epoch := gcCount, vars := vars, map := [] }
  else c

def satCountFix (s : Store) (rc : Nat → Nat) (gcCount : Nat) (fuel : Nat) (c : CountCache) (e : Edge)
    (vars : Nat) : CountCache × Nat :=
  innerS s rc (2 ^ vars) fuel (c.clearIfInvalidFix gcCount vars) e

/-- manager part of a step under the repaired protocol -/
def HOp.stepMgrFix : HOp → Mgr → Mgr
  | .gc s', m => { m with store := s', gcCount := m.gcCount + 2 }
  | .gcEnd, m => { m with gcCount := m.gcCount + 1 }
  | .reorder s' hs', m => { m with store := s', handles := hs', gcCount := m.gcCount + 2 }
  | o, m => o.stepMgr m

/-- one step under the repaired protocol -/
def HOp.runFix : HOp → HState → HState × Option Nat
  | .count i vars fuel, st =>
    match st.mgr.handles[i]? with
    | none => (st, none)
    | some e =>
      let r := satCountFix st.mgr.store st.mgr.rc st.mgr.gcCount fuel st.cache e vars
      (⟨st.mgr, r.1⟩, some r.2)
  | .setCacheAll b, st => (⟨st.mgr, { st.cache with cacheAll := b }⟩, none)
  | o, st => (⟨o.stepMgrFix st.mgr, st.cache⟩, none)

/-- side conditions: those of the as-is model, plus the discipline of the collector — a collection
starts only when none is running (`gc_ongoing.try_lock()`), frees nodes and ends only while it is
running, a reordering has exclusive access -/
def HOp.ValidFix (o : HOp) (st : HState) : Prop :=
  o.Valid st ∧
  match o with
  | .gcBegin => st.mgr.gcCount % 2 = 0
  | .gc _ => st.mgr.gcCount % 2 = 0
  | .reorder _ _ => st.mgr.gcCount % 2 = 0
  | .gcFree _ => st.mgr.gcCount % 2 = 1
  | .gcEnd => st.mgr.gcCount % 2 = 1
  | _ => True

def runAllFix : List HOp → HState → HState × List (Option Nat)
  | [], st => (st, [])
  | o :: os, st =>
    let r := o.runFix st
    let rs := runAllFix os r.1
    (rs.1, r.2 :: rs.2)

def ValidAllFix : List HOp → HState → Prop
  | [], _ => True
  | o :: os, st => o.ValidFix st ∧ ValidAllFix os (o.runFix st).1

/-- the invariant of the repaired protocol: entries are right if the epoch is current *and no
collection is running* -/
def HInvFix (st : HState) : Prop :=
  st.mgr.HandlesOK ∧ st.cache.epoch ≤ st.mgr.gcCount ∧
  (st.cache.epoch = st.mgr.gcCount → st.mgr.gcCount % 2 = 0 → CacheOK st.mgr.store st.cache)

theorem clearIfInvalidFix_spec (s : Store) (c : CountCache) (gcCount vars : Nat)
    (h : c.epoch = gcCount → gcCount % 2 = 0 → CacheOK s c) :
    CacheOK s (c.clearIfInvalidFix gcCount vars) ∧
    (c.clearIfInvalidFix gcCount vars).epoch = gcCount ∧
    (c.clearIfInvalidFix gcCount vars).vars = vars := by
  unfold CountCache.clearIfInvalidFix
  split
  · exact ⟨CacheOK.empty _ _ _ _, rfl, rfl⟩
  · rename_i hne
    have h1 : gcCount = c.epoch := Classical.byContradiction fun x => hne (.inl x)
    have h2 : gcCount % 2 = 0 := Classical.byContradiction fun x => hne (.inr (.inl x))
    have h3 : vars = c.vars := Classical.byContradiction fun x => hne (.inr (.inr x))
    exact ⟨h h1.symm h2, h1.symm, h3.symm⟩

/-- one count under the repaired protocol -/
theorem satCountFix_spec (s : Store) (rc : Nat → Nat) (gcCount fuel : Nat) (c : CountCache)
    (e : Edge) (vars : Nat) (t : BDD) (hc : c.epoch = gcCount → gcCount % 2 = 0 → CacheOK s c)
    (hd : Denotes s e t) (hf : t.size ≤ fuel) :
    (satCountFix s rc gcCount fuel c e vars).2 = satCount vars t ∧
    (∀ k, Ordered k t → LevelsLt vars t → (satCountFix s rc gcCount fuel c e vars).2 = models vars t) ∧
    CacheOK s (satCountFix s rc gcCount fuel c e vars).1 ∧
    (satCountFix s rc gcCount fuel c e vars).1.epoch = gcCount := by
  obtain ⟨h1, h2, h3⟩ := clearIfInvalidFix_spec s c gcCount vars hc
  have P := innerS_spec s rc fuel (c.clearIfInvalidFix gcCount vars) e t (2 ^ vars)
    (by rw [h3]) h1 hd hf
  unfold satCountFix
  have hv := P.val
  rw [h3] at hv
  refine ⟨hv, ?_, P.ok, P.epoch.trans h2⟩
  intro k ho hl
  rw [hv]
  exact (satcount_exact vars t k ho hl).2.1

theorem HOp.runFix_mgr (o : HOp) (st : HState) : (o.runFix st).1.mgr = o.stepMgrFix st.mgr := by
  cases o <;> simp only [HOp.runFix, HOp.stepMgrFix, HOp.stepMgr]
  split <;> rfl

/-- **every step of every interleaving keeps the invariant** — including `gcFree` between other
threads' counts, drops and builds -/
theorem validFix_preserved (o : HOp) (st : HState) (hv : o.ValidFix st) (hi : HInvFix st) :
    HInvFix (o.runFix st).1 := by
  obtain ⟨hh, hle, hok⟩ := hi
  obtain ⟨hv, hpar⟩ := hv
  cases o with
  | ext s' e =>
    obtain ⟨hle', t, hd⟩ := hv
    refine ⟨?_, hle, fun h h2 => (hok h h2).mono hle'⟩
    intro x hx
    simp only [HOp.runFix, HOp.stepMgrFix, HOp.stepMgr, List.mem_append, List.mem_singleton] at hx
    rcases hx with hx | hx
    · obtain ⟨t', hd'⟩ := hh x hx; exact ⟨t', hd'.mono hle'⟩
    · subst hx; exact ⟨t, hd⟩
  | clone i =>
    refine ⟨?_, hle, hok⟩
    intro x hx
    simp only [HOp.runFix, HOp.stepMgrFix, HOp.stepMgr, List.mem_append] at hx
    rcases hx with hx | hx
    · exact hh x hx
    · cases hg : st.mgr.handles[i]? with
      | none => simp [hg] at hx
      | some y =>
        simp [hg] at hx; subst hx
        exact hh _ (List.mem_of_getElem? hg)
  | drop i =>
    exact ⟨fun x hx => hh x (List.mem_of_mem_eraseIdx hx), hle, hok⟩
  | gc s' =>
    refine ⟨?_, ?_, ?_⟩
    · intro x hx
      obtain ⟨t, hd⟩ := hh x hx
      exact ⟨t, hv x hx t hd⟩
    · simp only [HOp.runFix, HOp.stepMgrFix]; omega
    · intro h; simp only [HOp.runFix, HOp.stepMgrFix] at h; omega
  | gcBegin =>
    refine ⟨hh, ?_, ?_⟩
    · simp only [HOp.runFix, HOp.stepMgrFix, HOp.stepMgr]; omega
    · intro h; simp only [HOp.runFix, HOp.stepMgrFix, HOp.stepMgr] at h; omega
  | gcFree s' =>
    refine ⟨?_, hle, ?_⟩
    · intro x hx
      obtain ⟨t, hd⟩ := hh x hx
      exact ⟨t, hv x hx t hd⟩
    · intro _ h2
      simp only [HOp.runFix, HOp.stepMgrFix, HOp.stepMgr] at h2
      simp only at hpar
      omega
  | gcEnd =>
    refine ⟨hh, ?_, ?_⟩
    · simp only [HOp.runFix, HOp.stepMgrFix]; omega
    · intro h; simp only [HOp.runFix, HOp.stepMgrFix] at h; omega
  | reorder s' hs' =>
    refine ⟨hv, ?_, ?_⟩
    · simp only [HOp.runFix, HOp.stepMgrFix]; omega
    · intro h; simp only [HOp.runFix, HOp.stepMgrFix] at h; omega
  | addVars k => exact ⟨hh, hle, hok⟩
  | setCacheAll b => exact ⟨hh, hle, fun h h2 => (hok h h2).setAll b⟩
  | count i vars fuel =>
    simp only [HOp.runFix]
    cases hg : st.mgr.handles[i]? with
    | none => exact ⟨hh, hle, hok⟩
    | some e =>
      obtain ⟨t, hd⟩ := hh e (List.mem_of_getElem? hg)
      have S := satCountFix_spec st.mgr.store st.mgr.rc st.mgr.gcCount fuel st.cache e vars t hok hd
        (hv e t hg hd)
      exact ⟨hh, by simp only; omega, fun _ _ => S.2.2.1⟩

/-- the specification of a history under the repaired protocol (the same `CountSpec`: defined on
the manager alone) -/
def SpecAllFix : List HOp → Mgr → List (Option Nat) → Prop
  | [], _, rs => rs = []
  | o :: os, m, r :: rs => CountSpec m o r ∧ SpecAllFix os (o.stepMgrFix m) rs
  | _ :: _, _, [] => False

/-- C12 for the repaired protocol, **for all interleaved histories**: no atomicity hypothesis —
`gcBegin`, any number of `gcFree` steps and `gcEnd` may be separated by counts, drops and
store-extending operations (which may re-issue the ids just freed) of other threads; every count
is exact. -/
theorem fixed_history_exact : ∀ (ops : List HOp) (st : HState), HInvFix st → ValidAllFix ops st →
    SpecAllFix ops st.mgr (runAllFix ops st).2 ∧ HInvFix (runAllFix ops st).1 := by
  intro ops
  induction ops with
  | nil => intro st hi _; exact ⟨rfl, hi⟩
  | cons o os ih =>
    intro st hi hv
    obtain ⟨hv1, hvs⟩ := hv
    have hi' := validFix_preserved o st hv1 hi
    obtain ⟨h1, h2⟩ := ih (o.runFix st).1 hi' hvs
    simp only [runAllFix, SpecAllFix]
    rw [HOp.runFix_mgr] at h1
    refine ⟨⟨?_, h1⟩, h2⟩
    cases o with
    | count i vars fuel =>
      simp only [CountSpec, HOp.runFix]
      cases hg : st.mgr.handles[i]? with
      | none => rfl
      | some e =>
        obtain ⟨t, hd⟩ := hi.1 e (List.mem_of_getElem? hg)
        have S := satCountFix_spec st.mgr.store st.mgr.rc st.mgr.gcCount fuel st.cache e vars t
          hi.2.2 hd (hv1.1 e t hg hd)
        exact ⟨t, hd, by simp only [S.1], fun k ho hl => by simp only [S.2.1 k ho hl]⟩
    | _ => rfl

theorem HInvFix_new : HInvFix HState.new := by
  refine ⟨?_, Nat.le_refl _, fun _ _ => CacheOK.empty _ _ _ _⟩
  intro e he
  simp [HState.new, Mgr.new] at he

/-! ## non-vacuity: the interleaving of `count_during_collection_wrong`, now exact -/

/-- `wDuring` with the end of the collection made explicit -/
def wDuringFix : List HOp :=
  [.ext s1 (.inner 1), .setCacheAll true, .gcBegin, .count 0 2 5, .drop 0, .gcFree s2,
   .ext s3 (.inner 1), .count 0 2 5, .gcEnd, .count 0 2 5]

def HOp.validFixB (F : Nat) (o : HOp) (st : HState) : Bool :=
  o.validB F st &&
  match o with
  | .gcBegin => st.mgr.gcCount % 2 == 0
  | .gc _ => st.mgr.gcCount % 2 == 0
  | .reorder _ _ => st.mgr.gcCount % 2 == 0
  | .gcFree _ => st.mgr.gcCount % 2 == 1
  | .gcEnd => st.mgr.gcCount % 2 == 1
  | _ => true

def validAllFixB (F : Nat) : List HOp → HState → Bool
  | [], _ => true
  | o :: os, st => o.validFixB F st && validAllFixB F os (o.runFix st).1

theorem validAllFixB_sound {F : Nat} : ∀ (ops : List HOp) (st : HState),
    validAllFixB F ops st = true → ValidAllFix ops st := by
  intro ops
  induction ops with
  | nil => intro _ _; trivial
  | cons o os ih =>
    intro st h
    simp only [validAllFixB, HOp.validFixB, Bool.and_eq_true] at h
    refine ⟨⟨o.validB_sound st h.1.1, ?_⟩, ih _ h.2⟩
    have h2 := h.1.2
    cases o <;> simp_all

theorem wDuringFix_valid : ValidAllFix wDuringFix HState.new :=
  validAllFixB_sound (F := 5) _ _ (by decide +kernel)

example := fixed_history_exact wDuringFix HState.new HInvFix_new wDuringFix_valid
/-- the count during the collection is 3 (it was 1 in `count_during_collection_wrong`) -/
example : (runAllFix wDuringFix HState.new).2 =
    [none, none, none, some 1, none, none, none, some 3, none, some 3] := by decide +kernel

end OxiddModel.Bdd.CountS
