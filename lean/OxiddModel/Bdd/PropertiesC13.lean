import OxiddModel.Bdd.Pick

/-!
# Headline theorems for property C13 (cube picking), simple BDD rules, tree level

`pickCube` / `pickPath` model `pick_cube_edge` (the vector, as the list of `(level, value)` entries
that are not don't-care), `pickCubeDD` models `pick_cube_dd_edge`, `pickCubeDDSet` models
`pick_cube_dd_set_edge` including its local `literal_set_pop`. `f` ranges over **all** trees in
normal form (`NF n f`: ordered from level `n`, reduced), `choice` over all choice functions, `σ`
over all assignments of the levels: no bound on depth, width or level numbers.

Vocabulary (defined in `Pick.lean`):
* `cubeSem path σ` — `σ` satisfies the conjunction of the literals `(level, value) ∈ path`;
* `IsCube n c` — `c` is a cube diagram: a single path to ⊤, one node per literal whose other child
  is ⊥ (`node l rest ⊥` positive, `node l ⊥ rest` negative), levels strictly increasing from `n`;
* `cubeLits c` — the literals of a cube diagram; `litChoice ls l` — the polarity of level `l` in the
  literal cube `ls`, `false` if `l` does not occur;
* `Walk P f path r` — `path` is a path of `f` from the root to `r`, every step `(l, b)` taken at a
  node `node l t e` of that very level with `P l t e b`;
* `Decided c l t e b` — `b` is forced by a ⊥ child (`t = ⊥ ⇒ b = false`, else `e = ⊥ ⇒ b = true`),
  and `b = c l` when neither child is ⊥.
-/
namespace OxiddModel.Bdd
open BDD

/-- satisfiability of a normal-form diagram is `≠ ⊥` (from canonicity) -/
theorem nf_sat_iff {n : Nat} {f : BDD} (hf : NF n f) : (∃ σ, f.eval σ = true) ↔ f ≠ .leaf false := by
  rw [Ne, nf_false_iff f n hf]
  constructor
  · rintro ⟨σ, hσ⟩ h; rw [h σ] at hσ; cases hσ
  · intro h
    apply Classical.byContradiction
    intro hne
    exact h (fun σ => by
      cases hv : f.eval σ
      · rfl
      · exact absurd ⟨σ, hv⟩ hne)

/-- C13 "return nothing (resp. the false function) exactly for the unsatisfiable function":
`pick_cube` returns `None`, `pick_cube_dd` and `pick_cube_dd_set` (with *any* second argument)
return ⊥ iff the function has no model. -/
theorem pick_none_iff_false (choice : Nat → Bool) (f ls : BDD) (n : Nat) (hf : NF n f) :
    (pickCube choice f = none ↔ ∀ σ, f.eval σ = false) ∧
    (pickCubeDD choice f = .leaf false ↔ ∀ σ, f.eval σ = false) ∧
    (pickCubeDDSet f ls = .leaf false ↔ ∀ σ, f.eval σ = false) := by
  rw [← nf_false_iff f n hf, pickCubeDD_eq_false_iff, pickCubeDDSet_eq_false_iff]
  refine ⟨?_, Iff.rfl, Iff.rfl⟩
  unfold pickCube
  split <;> simp_all

/-- C13 "otherwise a cube that implies the function": for a satisfiable `f` `pick_cube` returns
`Some` vector, and every assignment satisfying the returned vector / diagram satisfies `f`.
(For `pick_cube_dd_set` for every second argument, literal cube or not.) -/
theorem pick_implies (choice : Nat → Bool) (f ls : BDD) (n : Nat) (hf : NF n f)
    (hs : ∃ σ, f.eval σ = true) :
    (∃ p, pickCube choice f = some p ∧ ∀ σ, cubeSem p σ → f.eval σ = true) ∧
    (∀ σ, (pickCubeDD choice f).eval σ = true → f.eval σ = true) ∧
    (∀ σ, (pickCubeDDSet f ls).eval σ = true → f.eval σ = true) := by
  have hne := (nf_sat_iff hf).mp hs
  refine ⟨⟨pickPath choice f, ?_, fun σ => pickPath_implies choice hf.2 hne σ⟩,
    pickCubeDD_implies choice f, ?_⟩
  · unfold pickCube; split <;> simp_all
  · obtain ⟨c, hc⟩ := pickCubeDDSet_as_choice hf.1 ls
    rw [hc]; exact pickCubeDD_implies c f

/-- C13 "a cube - a conjunction of literals": the diagrams returned for a satisfiable `f` are cube
diagrams (hence themselves in normal form and satisfiable, i.e. not the trivial implicant ⊥), and a
cube diagram denotes the conjunction of its literals; the vector returned by `pick_cube` is
consistent (some assignment satisfies it). -/
theorem pick_is_cube (choice : Nat → Bool) (f ls : BDD) (n : Nat) (hf : NF n f)
    (hs : ∃ σ, f.eval σ = true) :
    IsCube n (pickCubeDD choice f) ∧ IsCube n (pickCubeDDSet f ls) ∧
    (∃ σ, cubeSem (pickPath choice f) σ) ∧
    (∀ c m, IsCube m c → NF m c ∧ (∃ σ, c.eval σ = true) ∧
      ∀ σ, c.eval σ = true ↔ cubeSem (cubeLits c) σ) := by
  have hne := (nf_sat_iff hf).mp hs
  have h1 := pickCubeDD_isCube choice hf.1 hf.2 hne
  refine ⟨h1, ?_, ?_, fun c m hc => ⟨hc.nf, hc.sat, hc.eval_iff⟩⟩
  · obtain ⟨c, hc⟩ := pickCubeDDSet_as_choice hf.1 ls
    rw [hc]; exact pickCubeDD_isCube c hf.1 hf.2 hne
  · obtain ⟨σ, hσ⟩ := h1.sat
    exact ⟨σ, (pickCubeDD_eval_iff choice hf.2 hne σ).mp hσ⟩

/-- C13 "pick_cube and pick_cube_dd describe the same cube": with the same choice function the
diagram returned by `pick_cube_dd` holds exactly under the assignments that satisfy the vector
returned by `pick_cube`; indeed the literals of the diagram are the entries of the vector. -/
theorem pick_same_cube (choice : Nat → Bool) (f : BDD) (n : Nat) (hf : NF n f)
    (hs : ∃ σ, f.eval σ = true) :
    pickCube choice f = some (pickPath choice f) ∧
    (∀ σ, (pickCubeDD choice f).eval σ = true ↔ cubeSem (pickPath choice f) σ) ∧
    cubeLits (pickCubeDD choice f) = pickPath choice f := by
  have hne := (nf_sat_iff hf).mp hs
  refine ⟨?_, pickCubeDD_eval_iff choice hf.2 hne, pickCubeDD_lits choice hf.2 hne⟩
  unfold pickCube; split <;> simp_all

/-- C13 "called at most once per level": the levels recorded in the vector are strictly increasing
(and `≥ n`), so no level is decided — and the choice function consulted — twice. Needs only
orderedness. -/
theorem choice_once_per_level (choice : Nat → Bool) (f : BDD) (n : Nat) (hf : Ordered n f) :
    List.Pairwise (· < ·) ((pickPath choice f).map Prod.fst) ∧ ∀ p ∈ pickPath choice f, n ≤ p.1 :=
  ⟨(pickPath_sorted choice hf).2, (pickPath_sorted choice hf).1⟩

/-- C13 "whenever a variable's value is not forced, it follows the caller's choice function (…
with a node of that level) and is otherwise left as don't-care where the diagram allows":
1. the vector is a root-to-⊤ path of `f`; each entry `(l, b)` is decided at a node of level `l`,
   `b` is `choice l` if neither child is ⊥ and the forced value otherwise;
2. (semantic reading of *forced*, for every tree) if a recorded value differs from the choice then
   no assignment agreeing with the earlier decisions and with the choice satisfies `f`;
3. a level that is not on the path is a don't-care of the picked cube (vector and diagram). -/
theorem choice_followed (choice : Nat → Bool) (f : BDD) (n : Nat) (hf : NF n f)
    (hs : ∃ σ, f.eval σ = true) :
    Walk (Decided choice) f (pickPath choice f) (.leaf true) ∧
    (∀ pre post l b, pickPath choice f = pre ++ (l, b) :: post → b ≠ choice l →
      ∀ σ, cubeSem pre σ → σ l = choice l → f.eval σ = false) ∧
    (∀ l, (∀ c, (l, c) ∉ pickPath choice f) → ∀ σ b,
      (cubeSem (pickPath choice f) (upd σ l b) ↔ cubeSem (pickPath choice f) σ) ∧
      (pickCubeDD choice f).eval (upd σ l b) = (pickCubeDD choice f).eval σ) := by
  have hne := (nf_sat_iff hf).mp hs
  refine ⟨pickPath_walk choice hf.2 hne, fun pre post l b hp hb σ =>
    pickPath_override_forced choice f pre post l b hp hb σ, fun l hl σ b => ?_⟩
  have h := cubeSem_upd_of_not_mem (pickPath choice f) l b σ hl
  refine ⟨h, ?_⟩
  have h1 := pickCubeDD_eval_iff choice hf.2 hne (upd σ l b)
  have h2 := pickCubeDD_eval_iff choice hf.2 hne σ
  cases hv : (pickCubeDD choice f).eval σ
  · cases hv' : (pickCubeDD choice f).eval (upd σ l b)
    · rfl
    · rw [h2.mpr (h.mp (h1.mp hv'))] at hv; cases hv
  · exact h1.mpr (h.mpr (h2.mp hv))

/-- C13 "… or the polarity given in the literal set": if the second argument of `pick_cube_dd_set`
is a literal cube `ls` (`IsCube m ls`) then
1. `pick_cube_dd_set f ls` **is** `pick_cube_dd f` with the choice function `litChoice ls`, so all
   of the above applies to it;
2. consequently its literals form a root-to-⊤ path of `f` on which every non-forced value is
   `litChoice ls l`;
3. `litChoice ls l` is the polarity of the literal of level `l` in `ls`, and `false` if `ls` has no
   literal of that level (as the code does); `ls` itself denotes the conjunction of `cubeLits ls`. -/
theorem literal_followed (f ls : BDD) (n m : Nat) (hf : NF n f) (hs : ∃ σ, f.eval σ = true)
    (hc : IsCube m ls) :
    pickCubeDDSet f ls = pickCubeDD (litChoice ls) f ∧
    Walk (Decided (litChoice ls)) f (cubeLits (pickCubeDDSet f ls)) (.leaf true) ∧
    (∀ l b, (l, b) ∈ cubeLits ls → litChoice ls l = b) ∧
    (∀ l, (∀ b, (l, b) ∉ cubeLits ls) → litChoice ls l = false) ∧
    (∀ σ, ls.eval σ = true ↔ cubeSem (cubeLits ls) σ) := by
  have hne := (nf_sat_iff hf).mp hs
  have h := pickCubeDDSet_eq_pickCubeDD hf.1 hc
  refine ⟨h, ?_, fun l b => litChoice_of_mem hc, fun l => litChoice_of_not_mem, hc.eval_iff⟩
  rw [h, pickCubeDD_lits _ hf.2 hne]
  exact pickPath_walk _ hf.2 hne

/-! ## non-vacuity -/

/-- a shared, level-skipping diagram: `x0 ? x2 : (¬x1 ∧ x2)` -/
def exF : BDD :=
  .node 0 (.node 2 (.leaf true) (.leaf false)) (.node 1 (.leaf false) (.node 2 (.leaf true) (.leaf false)))

/-- the literal cube `¬x0 ∧ x2` -/
def exLs : BDD := .node 0 (.leaf false) (.node 2 (.leaf true) (.leaf false))

theorem exF_nf : NF 0 exF := by
  refine ⟨.node (by omega) (.node (by omega) .leaf .leaf) (.node (by omega) .leaf (.node (by omega) .leaf .leaf)), ?_⟩
  simp [exF, Reduced]

theorem exF_sat : ∃ σ, exF.eval σ = true := ⟨fun _ => true, by simp [exF, eval]⟩

theorem exLs_cube : IsCube 0 exLs := .neg (by omega) (.pos (by omega) .top)

/-- the hypotheses of all theorems above are satisfiable, and the functions do what is claimed on a
diagram with a free choice at the root, a forced choice and a skipped level below it -/
example :
    pickCube (fun _ => true) exF = some [(0, true), (2, true)] ∧
    pickCube (fun _ => false) exF = some [(0, false), (1, false), (2, true)] ∧
    pickCubeDD (fun _ => true) exF = .node 0 (.node 2 (.leaf true) (.leaf false)) (.leaf false) ∧
    pickCubeDDSet exF exLs =
      .node 0 (.leaf false) (.node 1 (.leaf false) (.node 2 (.leaf true) (.leaf false))) ∧
    litChoice exLs 0 = false ∧ litChoice exLs 2 = true ∧ litChoice exLs 1 = false ∧
    pickCube (fun _ => true) (.leaf false) = none := by
  decide

example := pick_none_iff_false (fun _ => true) exF exLs 0 exF_nf
example := pick_implies (fun _ => true) exF exLs 0 exF_nf exF_sat
example := pick_is_cube (fun _ => true) exF exLs 0 exF_nf exF_sat
example := pick_same_cube (fun _ => true) exF 0 exF_nf exF_sat
example := choice_once_per_level (fun _ => true) exF 0 exF_nf.1
example := choice_followed (fun _ => true) exF 0 exF_nf exF_sat
example := literal_followed exF exLs 0 0 exF_nf exF_sat exLs_cube

/-- the override clause of `choice_followed` is not vacuous: at level 1 of `exF` the choice `true`
is overridden because the then-child is ⊥ -/
example : pickPath (fun _ => true) (.node 1 (.leaf false) (.node 2 (.leaf true) (.leaf false))) =
    [] ++ (1, false) :: [(2, true)] ∧ false ≠ (fun _ : Nat => true) 1 := by decide

end OxiddModel.Bdd
