import OxiddModel.Bdd.PickSLemmas
import OxiddModel.Bdd.PropertiesC13
import OxiddModel.Bdd.PropertiesC05Q2
import OxiddModel.Bdd.RcQLemmasCanon
import OxiddModel.Bdd.AllocS

/-!
# C13 (C05, C14) — cube picking at the store level: what the returned edge denotes, when it fails

`PropertiesC13.lean` proves the C13 statements for the tree-level `pickCubeDD` / `pickCubeDDSet`;
`PropertiesC05Q.lean` proves exact counters for the store-level `pickCubeDDR` / `pickCubeDDSetR`
(`pick_cube_dd_edge::inner`, `pick_cube_dd_set_edge::inner` with every `clone_edge`, guard and
`get_or_insert`). This file closes the gap between the two:

* `pickCubeDDR_erase`, `pickCubeDDSetR_erase`: without the counters the runs are the
  capacity-bounded `pickCubeDDC` / `pickCubeDDSetC` of `PickS.lean` (no hypothesis);
* `pickCubeDDC_spec`, `pickCubeDDSetC_spec`: the store is only extended (hash consing kept, cache
  and time stamp untouched); on success the result edge denotes `pickCubeDD choice a` resp.
  `pickCubeDDSet a v` for the trees `a`, `v` the operands denote; failure only with a full store
  and a node still to be created;
* `pickCubeDDR_correct`, `pickCubeDDSetR_correct`: the same for the counted runs;
* `pickCubeDDR_c13`, `pickCubeDDSetR_c13`: hence the C13 statements hold for the edge the real
  algorithm returns: a cube diagram, an implicant of the function, the same cube as the vector
  version, choice followed where not forced, the literal set honoured; `⊥` iff unsatisfiable;
* `canon_history_q`, `handle_denotes_nf`: after any history of `RcQHistory.lean` the store is
  hash-consed and reduced (`RcQLemmasCanon.lean`) and ordered (`ord_history_q`), so every handle and
  every replacement function of a substitution object denotes a diagram in normal form;
* `pickCubeDDR_c13_history`, `pickCubeDDSetR_c13_history`, `neededPick_history`: hence the C13
  statements and the threshold hold for `pick_cube_dd(_set)` on any handle after any history, with
  no hypothesis on the state;
* thresholds: OutOfMemory ⇔ `0 < needed ∧ cap < count + needed` with `needed` = the nodes the
  uncapped walk adds (`pickCubeDDR_oom_iff_needed`), and on a hash-consed reduced store
  `needed = fresh s (pickCubeDD choice a)` — the nodes of the *result cube* that are not stored yet,
  independent of the fuel (`neededPick_eq`, `neededPickSet_eq`).
-/
namespace OxiddModel.Bdd.C13S
open OxiddModel.Bdd OxiddModel.Bdd.BDD OxiddModel.Bdd.Refine OxiddModel.Bdd.Rc
open OxiddModel.Bdd.C05Q (fst_snd_of_erase run_eq_of_ok)

/-! ## erasure -/

/-- **`pickCubeDDR_erase`.** Same result (edge or OutOfMemory), same store, same cache, same time
stamp as the counter-free `pickCubeDDC` — for all inputs. -/
theorem pickCubeDDR_erase (cap : Nat) (choice : Nat → Bool) (fuel : Nat) (r : RSt) (f : Edge) :
    (pickCubeDDR cap choice fuel r f).1 = (pickCubeDDC cap choice fuel r.st f).1 ∧
    (pickCubeDDR cap choice fuel r f).2.st = (pickCubeDDC cap choice fuel r.st f).2 :=
  fst_snd_of_erase (pickCubeDDR_erase' cap choice fuel r f)

theorem pickCubeDDSetR_erase (cap : Nat) (af fuel : Nat) (r : RSt) (f ls : Edge) :
    (pickCubeDDSetR cap af fuel r f ls).1 = (pickCubeDDSetC cap af fuel r.st f ls).1 ∧
    (pickCubeDDSetR cap af fuel r f ls).2.st = (pickCubeDDSetC cap af fuel r.st f ls).2 :=
  fst_snd_of_erase (pickCubeDDSetR_erase' cap af fuel r f ls)

/-! ## what the capacity-bounded walks return -/

/-- nodes `pick_cube_dd` allocates from state `st` when nothing stops it -/
def neededPick (choice : Nat → Bool) (fuel : Nat) (st : St) (f : Edge) : Nat :=
  growth st.store (pickCubeDDS choice fuel st f)

/-- nodes `pick_cube_dd_set` allocates -/
def neededPickSet (af fuel : Nat) (st : St) (f ls : Edge) : Nat :=
  growth st.store (pickCubeDDSetS af fuel st f ls)

/-- **`pickCubeDDC_spec`** (`pick_cube_dd` over the id store, with a node capacity). For every
store, capacity and choice function, `f` denoting the tree `a`:
the store is only extended and stays hash-consed, apply cache and time stamp are untouched; a
returned edge denotes the tree-level `pickCubeDD choice a`; OutOfMemory is returned only with a
full store while a node is still to be created. -/
theorem pickCubeDDC_spec (cap : Nat) (choice : Nat → Bool) (fuel : Nat) (st : St) (f : Edge)
    (a : BDD) (hf : Denotes st.store f a) (hfuel : a.size ≤ fuel) :
    st.store.Le (pickCubeDDC cap choice fuel st f).2.store ∧
    (st.store.Unique → (pickCubeDDC cap choice fuel st f).2.store.Unique) ∧
    (pickCubeDDC cap choice fuel st f).2.cache = st.cache ∧
    (pickCubeDDC cap choice fuel st f).2.tick = st.tick ∧
    (∀ e, (pickCubeDDC cap choice fuel st f).1 = some e →
      Denotes (pickCubeDDC cap choice fuel st f).2.store e (pickCubeDD choice a)) ∧
    ((pickCubeDDC cap choice fuel st f).1 = none →
      cap ≤ (pickCubeDDC cap choice fuel st f).2.store.count ∧ 0 < neededPick choice fuel st f) := by
  have B := pickCubeDDC_both cap choice fuel st f
  have hc := pickCubeDDC_cache cap choice fuel st f
  refine ⟨B.le, B.uniq, hc.1, hc.2, fun e he => ?_, fun hn => ⟨B.err hn, (B.oom_iff.mp hn).1⟩⟩
  have hS := (B.ok e he).1
  have := (pickCubeDDS_spec choice fuel st f a hf hfuel).2
  rw [hS] at this
  exact this

/-- **`pickCubeDDSetC_spec`** (`pick_cube_dd_set`): `f` denotes `a`, the literal set denotes `v`
(`af` = fuel of `literal_set_pop`); a returned edge denotes `pickCubeDDSet a v`. -/
theorem pickCubeDDSetC_spec (cap : Nat) (af fuel : Nat) (st : St) (f ls : Edge) (a v : BDD)
    (hf : Denotes st.store f a) (hl : Denotes st.store ls v) (hfuel : a.size ≤ fuel)
    (haf : v.size ≤ af) :
    st.store.Le (pickCubeDDSetC cap af fuel st f ls).2.store ∧
    (st.store.Unique → (pickCubeDDSetC cap af fuel st f ls).2.store.Unique) ∧
    (pickCubeDDSetC cap af fuel st f ls).2.cache = st.cache ∧
    (pickCubeDDSetC cap af fuel st f ls).2.tick = st.tick ∧
    (∀ e, (pickCubeDDSetC cap af fuel st f ls).1 = some e →
      Denotes (pickCubeDDSetC cap af fuel st f ls).2.store e (pickCubeDDSet a v)) ∧
    ((pickCubeDDSetC cap af fuel st f ls).1 = none →
      cap ≤ (pickCubeDDSetC cap af fuel st f ls).2.store.count ∧
      0 < neededPickSet af fuel st f ls) := by
  have B := pickCubeDDSetC_both cap af fuel st f ls
  have hc := pickCubeDDSetC_cache cap af fuel st f ls
  refine ⟨B.le, B.uniq, hc.1, hc.2, fun e he => ?_, fun hn => ⟨B.err hn, (B.oom_iff.mp hn).1⟩⟩
  have hS := (B.ok e he).1
  have := (pickCubeDDSetS_spec af fuel st f ls a v hf hl hfuel haf).2
  rw [hS] at this
  exact this

/-! ## the counted runs -/

/-- **`pickCubeDDR_correct`.** A successful counted run of `pick_cube_dd` returns an edge denoting
`pickCubeDD choice a`, whatever the capacity. -/
theorem pickCubeDDR_correct (cap : Nat) (choice : Nat → Bool) (fuel : Nat) (r : RSt) (f : Edge)
    (a : BDD) (e : Edge) (hf : Denotes r.st.store f a) (hfuel : a.size ≤ fuel)
    (hok : (pickCubeDDR cap choice fuel r f).1 = some e) :
    Denotes (pickCubeDDR cap choice fuel r f).2.st.store e (pickCubeDD choice a) := by
  obtain ⟨h1, h2⟩ := pickCubeDDR_erase cap choice fuel r f
  rw [h2]
  exact (pickCubeDDC_spec cap choice fuel r.st f a hf hfuel).2.2.2.2.1 e (h1 ▸ hok)

/-- **`pickCubeDDSetR_correct`.** -/
theorem pickCubeDDSetR_correct (cap : Nat) (af fuel : Nat) (r : RSt) (f ls : Edge) (a v : BDD)
    (e : Edge) (hf : Denotes r.st.store f a) (hl : Denotes r.st.store ls v) (hfuel : a.size ≤ fuel)
    (haf : v.size ≤ af) (hok : (pickCubeDDSetR cap af fuel r f ls).1 = some e) :
    Denotes (pickCubeDDSetR cap af fuel r f ls).2.st.store e (pickCubeDDSet a v) := by
  obtain ⟨h1, h2⟩ := pickCubeDDSetR_erase cap af fuel r f ls
  rw [h2]
  exact (pickCubeDDSetC_spec cap af fuel r.st f ls a v hf hl hfuel haf).2.2.2.2.1 e (h1 ▸ hok)

/-- **`pickCubeDDR_c13`.** The C13 statements for the edge `pick_cube_dd` returns at the store
level. `f` denotes a diagram `a` in normal form (ordered from level `n`, reduced). Then the returned
edge denotes a tree `c` with:
1. `c = ⊥` (the edge is the `false` terminal) iff `a` is unsatisfiable;
and for satisfiable `a`:
2. `c` is a cube diagram (a conjunction of literals, levels increasing from `n`);
3. `c` implies `a`;
4. `c` holds exactly under the assignments satisfying the vector `pick_cube` returns for the same
   choice function, and its literals are the entries of that vector;
5. the vector is a root-to-⊤ path of `a` on which every value is forced by a ⊥ child or is the
   caller's choice. -/
theorem pickCubeDDR_c13 (cap : Nat) (choice : Nat → Bool) (fuel : Nat) (r : RSt) (f : Edge)
    (a : BDD) (n : Nat) (e : Edge) (hf : Denotes r.st.store f a) (hnf : NF n a)
    (hfuel : a.size ≤ fuel) (hok : (pickCubeDDR cap choice fuel r f).1 = some e) :
    ∃ c, Denotes (pickCubeDDR cap choice fuel r f).2.st.store e c ∧ c = pickCubeDD choice a ∧
      (e = .term false ↔ ∀ σ, a.eval σ = false) ∧
      ((∃ σ, a.eval σ = true) →
        IsCube n c ∧ (∀ σ, c.eval σ = true → a.eval σ = true) ∧
        (∀ σ, c.eval σ = true ↔ cubeSem (pickPath choice a) σ) ∧
        cubeLits c = pickPath choice a ∧
        Walk (Decided choice) a (pickPath choice a) (.leaf true)) := by
  have hd := pickCubeDDR_correct cap choice fuel r f a e hf hfuel hok
  refine ⟨_, hd, rfl, ?_, fun hs => ?_⟩
  · rw [denotes_false_iff hd]
    exact (pick_none_iff_false choice a a n hnf).2.1
  · exact ⟨(pick_is_cube choice a a n hnf hs).1, (pick_implies choice a a n hnf hs).2.1,
      (pick_same_cube choice a n hnf hs).2.1, (pick_same_cube choice a n hnf hs).2.2,
      (choice_followed choice a n hnf hs).1⟩

/-- **`pickCubeDDSetR_c13`.** The literal set `ls` denotes a literal cube `v` (`IsCube m v`): the
edge `pick_cube_dd_set` returns denotes `pickCubeDD (litChoice v) a` — the cube picked with "the
polarity of the level in the literal set, `false` if absent" as choice function — so everything
of `pickCubeDDR_c13` holds for it with that choice; `litChoice v l` is the polarity of the literal
of level `l` in `v`. For an arbitrary second operand (cube or not) it is still an implicant. -/
theorem pickCubeDDSetR_c13 (cap : Nat) (af fuel : Nat) (r : RSt) (f ls : Edge) (a v : BDD)
    (n : Nat) (e : Edge) (hf : Denotes r.st.store f a) (hl : Denotes r.st.store ls v)
    (hnf : NF n a) (hfuel : a.size ≤ fuel) (haf : v.size ≤ af)
    (hok : (pickCubeDDSetR cap af fuel r f ls).1 = some e) :
    ∃ c, Denotes (pickCubeDDSetR cap af fuel r f ls).2.st.store e c ∧ c = pickCubeDDSet a v ∧
      (e = .term false ↔ ∀ σ, a.eval σ = false) ∧
      ((∃ σ, a.eval σ = true) → IsCube n c ∧ ∀ σ, c.eval σ = true → a.eval σ = true) ∧
      (∀ m, IsCube m v → (∃ σ, a.eval σ = true) →
        c = pickCubeDD (litChoice v) a ∧
        Walk (Decided (litChoice v)) a (cubeLits c) (.leaf true) ∧
        (∀ l b, (l, b) ∈ cubeLits v → litChoice v l = b) ∧
        (∀ l, (∀ b, (l, b) ∉ cubeLits v) → litChoice v l = false)) := by
  have hd := pickCubeDDSetR_correct cap af fuel r f ls a v e hf hl hfuel haf hok
  refine ⟨_, hd, rfl, ?_, fun hs => ?_, fun m hc hs => ?_⟩
  · rw [denotes_false_iff hd]
    exact (pick_none_iff_false (fun _ => false) a v n hnf).2.2
  · exact ⟨(pick_is_cube (fun _ => false) a v n hnf hs).2.1,
      (pick_implies (fun _ => false) a v n hnf hs).2.2⟩
  · obtain ⟨h1, h2, h3, h4, _⟩ := literal_followed a v n m hnf hs hc
    exact ⟨h1, h2, h3, h4⟩

/-! ## the normal-form hypothesis from store invariants -/

/-- in an ordered store every denoted tree is ordered -/
theorem denotes_ordered {s : Store} (ho : s.Ordered) {x : Edge} {a : BDD} (h : Denotes s x a) :
    ∀ L, Above s L x → BDD.Ordered L a := by
  induction h with
  | term => intro L _; exact .leaf
  | @inner i l t e tt te hi ht he iht ihe =>
    intro L hL
    have hl : L ≤ l := hL.level_le hi
    refine .node hl (iht _ ?_) (ihe _ ?_)
    · cases ht with
      | term => trivial
      | @inner j l' t' e' _ _ hj _ _ => exact ⟨_, hj, ho i _ j _ hi (.inl rfl) hj⟩
    · cases he with
      | term => trivial
      | @inner j l' t' e' _ _ hj _ _ => exact ⟨_, hj, ho i _ j _ hi (.inr rfl) hj⟩

/-- ordered + hash-consed + reduced store ⇒ every handle denotes a diagram in normal form -/
theorem denotes_nf {s : Store} (hu : s.Unique) (hr : s.NoRed) (ho : s.Ordered) {x : Edge} {a : BDD}
    (h : Denotes s x a) : NF 0 a :=
  ⟨denotes_ordered ho h 0 (has_above_zero (by
      cases h with
      | term => trivial
      | inner hi _ _ => exact ⟨_, hi⟩)),
    denotes_reduced hu hr h⟩

/-- **`canon_history_q`.** After every history of `CmdQ` commands from the empty manager (no
hypothesis at all) the store is hash-consed and free of redundant nodes — although
`pick_cube_dd(_set)` call `get_or_insert` without the reduction test. -/
theorem canon_history_q (p : Policy) (cmds : List CmdQ) :
    (runAllQ p cmds ⟨RSt.empty, [], []⟩).r.st.store.Unique ∧
    (runAllQ p cmds ⟨RSt.empty, [], []⟩).r.st.store.NoRed :=
  ⟨(runAllQ_canon p cmds ⟨RSt.empty, [], []⟩ canon_empty).uniq,
   (runAllQ_canon p cmds ⟨RSt.empty, [], []⟩ canon_empty).nored⟩

/-- **`handle_denotes_nf`.** After every history every handle and every replacement function of a
live substitution object denotes a tree, and that tree is in normal form. -/
theorem handle_denotes_nf {p : Policy} (pok : p.OK) (N : Nat) (cmds : List CmdQ)
    (hok : ∀ c ∈ cmds, c.OK N) (f : Edge)
    (hf : f ∈ (runAllQ p cmds ⟨RSt.empty, [], []⟩).owned) :
    ∃ a, Denotes (runAllQ p cmds ⟨RSt.empty, [], []⟩).r.st.store f a ∧ NF 0 a := by
  obtain ⟨hi, hox, ho, _⟩ := C05Q.ord_history_q pok N cmds hok
  obtain ⟨hu, hr⟩ := canon_history_q p cmds
  obtain ⟨a, ha⟩ := denotes_exists_has hi hox (hi.ext_ok f hf)
  exact ⟨a, ha, denotes_nf hu hr ho ha⟩

/-- **`pickCubeDDR_c13_history`.** After *any* history of `CmdQ` commands from the empty manager,
for *any* handle `f`: `f` denotes a normal-form diagram `a`, and whenever `pick_cube_dd` on `f`
(any capacity, any choice function, enough fuel) does not fail, the returned edge denotes
`pickCubeDD choice a`; it is `⊥` iff `a` is unsatisfiable; otherwise it is a cube diagram that
implies `a`, is the cube of the vector version and follows the choice function. No hypothesis on
the state is left. -/
theorem pickCubeDDR_c13_history {p : Policy} (pok : p.OK) (N : Nat) (cmds : List CmdQ)
    (hok : ∀ c ∈ cmds, c.OK N) (cap : Nat) (choice : Nat → Bool) (f : Edge)
    (hf : f ∈ (runAllQ p cmds ⟨RSt.empty, [], []⟩).owned) :
    let h := runAllQ p cmds ⟨RSt.empty, [], []⟩
    ∃ a, Denotes h.r.st.store f a ∧ NF 0 a ∧
      ∀ fuel e, a.size ≤ fuel → (pickCubeDDR cap choice fuel h.r f).1 = some e →
        Denotes (pickCubeDDR cap choice fuel h.r f).2.st.store e (pickCubeDD choice a) ∧
        (e = .term false ↔ ∀ σ, a.eval σ = false) ∧
        ((∃ σ, a.eval σ = true) →
          IsCube 0 (pickCubeDD choice a) ∧
          (∀ σ, (pickCubeDD choice a).eval σ = true → a.eval σ = true) ∧
          (∀ σ, (pickCubeDD choice a).eval σ = true ↔ cubeSem (pickPath choice a) σ) ∧
          cubeLits (pickCubeDD choice a) = pickPath choice a ∧
          Walk (Decided choice) a (pickPath choice a) (.leaf true)) := by
  intro h
  obtain ⟨a, ha, hnf⟩ := handle_denotes_nf pok N cmds hok f hf
  refine ⟨a, ha, hnf, fun fuel e hfuel hok' => ?_⟩
  obtain ⟨c, hd, rfl, h1, h2⟩ := pickCubeDDR_c13 cap choice fuel h.r f a 0 e ha hnf hfuel hok'
  exact ⟨hd, h1, h2⟩

/-- **`pickCubeDDSetR_c13_history`.** The same for `pick_cube_dd_set` on any two handles. -/
theorem pickCubeDDSetR_c13_history {p : Policy} (pok : p.OK) (N : Nat) (cmds : List CmdQ)
    (hok : ∀ c ∈ cmds, c.OK N) (cap : Nat) (f ls : Edge)
    (hf : f ∈ (runAllQ p cmds ⟨RSt.empty, [], []⟩).owned)
    (hl : ls ∈ (runAllQ p cmds ⟨RSt.empty, [], []⟩).owned) :
    let h := runAllQ p cmds ⟨RSt.empty, [], []⟩
    ∃ a v, Denotes h.r.st.store f a ∧ Denotes h.r.st.store ls v ∧ NF 0 a ∧ NF 0 v ∧
      ∀ af fuel e, a.size ≤ fuel → v.size ≤ af →
        (pickCubeDDSetR cap af fuel h.r f ls).1 = some e →
        Denotes (pickCubeDDSetR cap af fuel h.r f ls).2.st.store e (pickCubeDDSet a v) ∧
        (e = .term false ↔ ∀ σ, a.eval σ = false) ∧
        ((∃ σ, a.eval σ = true) →
          IsCube 0 (pickCubeDDSet a v) ∧
          ∀ σ, (pickCubeDDSet a v).eval σ = true → a.eval σ = true) ∧
        (∀ m, IsCube m v → (∃ σ, a.eval σ = true) →
          pickCubeDDSet a v = pickCubeDD (litChoice v) a ∧
          Walk (Decided (litChoice v)) a (cubeLits (pickCubeDDSet a v)) (.leaf true) ∧
          (∀ l b, (l, b) ∈ cubeLits v → litChoice v l = b) ∧
          (∀ l, (∀ b, (l, b) ∉ cubeLits v) → litChoice v l = false)) := by
  intro h
  obtain ⟨a, ha, hnf⟩ := handle_denotes_nf pok N cmds hok f hf
  obtain ⟨v, hv, hnv⟩ := handle_denotes_nf pok N cmds hok ls hl
  refine ⟨a, v, ha, hv, hnf, hnv, fun af fuel e hfuel haf hok' => ?_⟩
  obtain ⟨c, hd, rfl, h1, h2, h3⟩ :=
    pickCubeDDSetR_c13 cap af fuel h.r f ls a v 0 e ha hv hnf hfuel haf hok'
  exact ⟨hd, h1, h2, h3⟩

/-! ## thresholds -/

/-- **`pickCubeDDC_oom_iff`.** OutOfMemory iff the walk allocates at least one node when nothing
stops it and the capacity is below `count + needed`; for a store within its capacity: iff fewer
than `needed` slots are free. No hypothesis on the state. -/
theorem pickCubeDDC_oom_iff (cap : Nat) (choice : Nat → Bool) (fuel : Nat) (st : St) (f : Edge) :
    ((pickCubeDDC cap choice fuel st f).1 = none ↔
      0 < neededPick choice fuel st f ∧ cap < st.store.count + neededPick choice fuel st f) ∧
    (st.store.count ≤ cap → ((pickCubeDDC cap choice fuel st f).1 = none ↔
      cap - st.store.count < neededPick choice fuel st f)) :=
  ⟨(pickCubeDDC_both cap choice fuel st f).oom_iff,
   fun hc => (pickCubeDDC_both cap choice fuel st f).oom_iff_free hc⟩

theorem pickCubeDDSetC_oom_iff (cap : Nat) (af fuel : Nat) (st : St) (f ls : Edge) :
    ((pickCubeDDSetC cap af fuel st f ls).1 = none ↔
      0 < neededPickSet af fuel st f ls ∧ cap < st.store.count + neededPickSet af fuel st f ls) ∧
    (st.store.count ≤ cap → ((pickCubeDDSetC cap af fuel st f ls).1 = none ↔
      cap - st.store.count < neededPickSet af fuel st f ls)) :=
  ⟨(pickCubeDDSetC_both cap af fuel st f ls).oom_iff,
   fun hc => (pickCubeDDSetC_both cap af fuel st f ls).oom_iff_free hc⟩

/-- the minimal capacity: every capacity from the current count up to `count + needed − 1` fails,
every capacity from `count + needed` on succeeds with the result of the uncapped walk -/
theorem pickCubeDDC_threshold (choice : Nat → Bool) (fuel : Nat) (st : St) (f : Edge) :
    (∀ cap, st.store.count ≤ cap → cap < st.store.count + neededPick choice fuel st f →
      (pickCubeDDC cap choice fuel st f).1 = none) ∧
    (∀ cap, st.store.count + neededPick choice fuel st f ≤ cap →
      pickCubeDDC cap choice fuel st f =
        (some (pickCubeDDS choice fuel st f).2, (pickCubeDDS choice fuel st f).1)) :=
  BothG.threshold (RCf := fun cap => pickCubeDDC cap choice fuel st f)
    (fun cap => pickCubeDDC_both cap choice fuel st f)

/-- **`pickCubeDDR_oom_iff_needed`.** The counted run reports OutOfMemory exactly when the
uncapped walk needs more nodes than fit; and then the counters are exact for the caller's
references (the guarded sub-cube has been released). -/
theorem pickCubeDDR_oom_iff_needed (cap : Nat) (choice : Nat → Bool) (fuel : Nat) (r : RSt)
    (f : Edge) (ext : List Edge) (h : RcInv r ext) (hf : f ∈ ext) :
    ((pickCubeDDR cap choice fuel r f).1 = none ↔
      0 < neededPick choice fuel r.st f ∧ cap < r.st.store.count + neededPick choice fuel r.st f) ∧
    ((pickCubeDDR cap choice fuel r f).1 = none → RcInv (pickCubeDDR cap choice fuel r f).2 ext) := by
  refine ⟨?_, fun herr => ?_⟩
  · rw [(pickCubeDDR_erase cap choice fuel r f).1]
    exact (pickCubeDDC_oom_iff cap choice fuel r.st f).1
  · have := C05Q.pickCubeDDR_rc_exact cap choice fuel r f ext h (h.ext_ok f hf)
    cases hR : pickCubeDDR cap choice fuel r f with
    | mk o r' =>
      rw [hR] at this herr
      simp only at herr
      subst herr
      exact this

theorem pickCubeDDSetR_oom_iff_needed (cap : Nat) (af fuel : Nat) (r : RSt) (f ls : Edge)
    (ext : List Edge) (h : RcInv r ext) (hf : f ∈ ext) (hl : ls ∈ ext) :
    ((pickCubeDDSetR cap af fuel r f ls).1 = none ↔
      0 < neededPickSet af fuel r.st f ls ∧
        cap < r.st.store.count + neededPickSet af fuel r.st f ls) ∧
    ((pickCubeDDSetR cap af fuel r f ls).1 = none →
      RcInv (pickCubeDDSetR cap af fuel r f ls).2 ext) := by
  refine ⟨?_, fun herr => ?_⟩
  · rw [(pickCubeDDSetR_erase cap af fuel r f ls).1]
    exact (pickCubeDDSetC_oom_iff cap af fuel r.st f ls).1
  · have := C05Q.pickCubeDDSetR_rc_exact cap af fuel r f ls ext h (h.ext_ok f hf) (h.ext_ok ls hl)
    cases hR : pickCubeDDSetR cap af fuel r f ls with
    | mk o r' =>
      rw [hR] at this herr
      simp only at herr
      subst herr
      exact this

/-- **`neededPick_eq`.** On a hash-consed reduced store the number of nodes `pick_cube_dd` needs is
the number of nodes of the *result cube* that are not stored yet: it does not depend on the fuel,
and the walk leaves no garbage (the final store is the store with the cube interned). -/
theorem neededPick_eq (choice : Nat → Bool) (fuel : Nat) (st : St) (f : Edge) (a : BDD)
    (hu : st.store.Unique) (hr : st.store.NoRed) (hf : Denotes st.store f a)
    (hfuel : a.size ≤ fuel) :
    neededPick choice fuel st f = fresh st.store (pickCubeDD choice a) := by
  unfold neededPick growth fresh
  rw [(pickCubeDDS_canon choice fuel st f a hu hr hf hfuel).1]

theorem neededPickSet_eq (af fuel : Nat) (st : St) (f ls : Edge) (a v : BDD)
    (hu : st.store.Unique) (hr : st.store.NoRed) (hf : Denotes st.store f a)
    (hl : Denotes st.store ls v) (hfuel : a.size ≤ fuel) (haf : v.size ≤ af) :
    neededPickSet af fuel st f ls = fresh st.store (pickCubeDDSet a v) := by
  unfold neededPickSet growth fresh
  rw [(pickCubeDDSetS_canon af fuel st f ls a v hu hr hf hl hfuel haf).1]

/-- at most one node per level of the picked cube -/
theorem neededPick_le (choice : Nat → Bool) (fuel : Nat) (st : St) (f : Edge) (a : BDD)
    (hu : st.store.Unique) (hr : st.store.NoRed) (hf : Denotes st.store f a)
    (hfuel : a.size ≤ fuel) :
    neededPick choice fuel st f ≤ innerSize (pickCubeDD choice a) := by
  rw [neededPick_eq choice fuel st f a hu hr hf hfuel]
  exact fresh_le _ _

/-- **`neededPick_history`.** After any history, for any handle: `pick_cube_dd` reports
OutOfMemory iff the picked cube has a node that is not stored and fewer free slots than such nodes
— `needed` is `fresh store (picked cube)`, whatever the fuel. No hypothesis on the state. -/
theorem neededPick_history {p : Policy} (pok : p.OK) (N : Nat) (cmds : List CmdQ)
    (hok : ∀ c ∈ cmds, c.OK N) (cap : Nat) (choice : Nat → Bool) (f : Edge)
    (hf : f ∈ (runAllQ p cmds ⟨RSt.empty, [], []⟩).owned) :
    let h := runAllQ p cmds ⟨RSt.empty, [], []⟩
    ∃ a, Denotes h.r.st.store f a ∧ ∀ fuel, a.size ≤ fuel →
      ((pickCubeDDR cap choice fuel h.r f).1 = none ↔
        0 < fresh h.r.st.store (pickCubeDD choice a) ∧
          cap < h.r.st.store.count + fresh h.r.st.store (pickCubeDD choice a)) := by
  intro h
  obtain ⟨a, ha, _⟩ := handle_denotes_nf pok N cmds hok f hf
  obtain ⟨hu, hr⟩ := canon_history_q p cmds
  refine ⟨a, ha, fun fuel hfuel => ?_⟩
  rw [← neededPick_eq choice fuel h.r.st f a hu hr ha hfuel, (pickCubeDDR_erase cap choice fuel h.r f).1]
  exact (pickCubeDDC_oom_iff cap choice fuel h.r.st f).1

/-! ## non-vacuity -/

/-- `x0`, `x1`, `x0 ∨ x1`; `pick_cube_dd` of `x0 ∨ x1` with the choice "always false" under
capacity 3 (the cube `¬x0 ∧ x1` needs one new node: OutOfMemory) and under capacity 4 -/
def exCmdsP : List CmdQ :=
  [.base (.var 9 0 false), .base (.var 9 1 false), .base (.bin 9 10 .or 1 0),
   .pick 3 10 (fun _ => false) 0, .pick 4 10 (fun _ => false) 0,
   .pickset 4 10 10 1 0]

def exRunP (k : Nat) : HStQ := runAllQ Policy.exact (exCmdsP.take k) ⟨RSt.empty, [], []⟩

/-- the tree of `x0 ∨ x1` -/
def exOr : BDD := .node 0 (.leaf true) (.node 1 (.leaf true) (.leaf false))

theorem exOr_denotes : Denotes (exRunP 3).r.st.store (.inner 2) exOr :=
  .inner (show (exRunP 3).r.st.store.get? 2 = some ⟨0, .term true, .inner 1⟩ by decide +kernel) .term
    (.inner (show (exRunP 3).r.st.store.get? 1 = some ⟨1, .term true, .term false⟩ by decide +kernel)
      .term .term)

theorem exOr_nf : NF 0 exOr := by
  refine ⟨.node (by omega) .leaf (.node (by omega) .leaf .leaf), ?_⟩
  simp [exOr, Reduced]

theorem exOr_sat : ∃ σ, exOr.eval σ = true := ⟨fun _ => true, by simp [exOr, eval]⟩

/-- the failing and the succeeding call, evaluated -/
example :
    (exRunP 3).hs = [.inner 2, .inner 1, .inner 0] ∧ (exRunP 3).r.st.store.count = 3 ∧
    (pickCubeDDR 3 (fun _ => false) 10 (exRunP 3).r (.inner 2)).1 = none ∧
    (pickCubeDDR 4 (fun _ => false) 10 (exRunP 3).r (.inner 2)).1 = some (.inner 3) ∧
    (pickCubeDDR 4 (fun _ => false) 10 (exRunP 3).r (.inner 2)).2.st.store.get? 3 =
      some ⟨0, .term false, .inner 1⟩ ∧
    pickCubeDD (fun _ => false) exOr = .node 0 (.leaf false) (.node 1 (.leaf true) (.leaf false)) ∧
    neededPick (fun _ => false) 10 (exRunP 3).r.st (.inner 2) = 1 := by
  decide +kernel

/-- the theorems apply to it: the edge `#3` denotes the picked cube, which is a cube diagram,
implies `x0 ∨ x1`, … -/
example := pickCubeDDR_c13 4 (fun _ => false) 10 (exRunP 3).r (.inner 2) exOr 0 (.inner 3)
  exOr_denotes exOr_nf (by decide) (by decide +kernel)

example : Denotes (pickCubeDDR 4 (fun _ => false) 10 (exRunP 3).r (.inner 2)).2.st.store (.inner 3)
    (.node 0 (.leaf false) (.node 1 (.leaf true) (.leaf false))) :=
  pickCubeDDR_correct 4 (fun _ => false) 10 (exRunP 3).r (.inner 2) exOr (.inner 3)
    exOr_denotes (by decide) (by decide +kernel)

theorem exP_nodes : (exRunP 3).r.st.store.nodes =
    #[some ⟨0, .term true, .term false⟩, some ⟨1, .term true, .term false⟩,
      some ⟨0, .term true, .inner 1⟩] := by decide +kernel

theorem exP_unique : (exRunP 3).r.st.store.Unique := by
  intro i j n hi hj
  unfold Store.get? at hi hj
  rw [exP_nodes] at hi hj
  rcases i with _ | _ | _ | i <;> rcases j with _ | _ | _ | j <;> simp at hi hj <;>
    first | rfl | (subst hi; simp at hj)

theorem exP_nored : (exRunP 3).r.st.store.NoRed := by
  intro i n hi
  unfold Store.get? at hi
  rw [exP_nodes] at hi
  rcases i with _ | _ | _ | i <;> simp at hi <;> subst hi <;> simp

theorem exCmdsP3_ok : ∀ c ∈ exCmdsP.take 3, c.OK 2 := by
  intro c hc
  simp only [exCmdsP, List.take, List.mem_cons, List.mem_nil_iff, or_false] at hc
  rcases hc with rfl | rfl | rfl <;> simp [CmdQ.OK, Cmd.OK]

/-- the history forms on the example history (no hypothesis on the state; the handle is `#2`) -/
example := pickCubeDDR_c13_history Policy.exact_ok 2 (exCmdsP.take 3) exCmdsP3_ok
  4 (fun _ => false) (.inner 2) (by decide +kernel)

example := pickCubeDDSetR_c13_history Policy.exact_ok 2 (exCmdsP.take 3) exCmdsP3_ok
  4 (.inner 2) (.inner 1) (by decide +kernel) (by decide +kernel)

example := neededPick_history Policy.exact_ok 2 (exCmdsP.take 3) exCmdsP3_ok
  3 (fun _ => false) (.inner 2) (by decide +kernel)

/-- `canon_history_q` agrees with the direct proofs for the example -/
example : (exRunP 3).r.st.store.Unique ∧ (exRunP 3).r.st.store.NoRed :=
  canon_history_q Policy.exact (exCmdsP.take 3)

/-- `neededPick_eq` on the example: one node of the cube `¬x0 ∧ x1` is missing -/
example : fresh (exRunP 3).r.st.store (pickCubeDD (fun _ => false) exOr) = 1 := by
  rw [← neededPick_eq (fun _ => false) 10 (exRunP 3).r.st (.inner 2) exOr exP_unique exP_nored
    exOr_denotes (by decide)]
  decide +kernel

/-- the failing call: the threshold theorem says why, and the counters are exact afterwards -/
example : (pickCubeDDR 3 (fun _ => false) 10 (exRunP 3).r (.inner 2)).1 = none ∧
    RcInv (pickCubeDDR 3 (fun _ => false) 10 (exRunP 3).r (.inner 2)).2 (exRunP 3).owned := by
  have hi : RcInv (exRunP 3).r (exRunP 3).owned := C05Q.rc_history_q_empty Policy.exact_ok _
  have hm : Edge.inner 2 ∈ (exRunP 3).owned := by decide +kernel
  have h := pickCubeDDR_oom_iff_needed 3 (fun _ => false) 10 (exRunP 3).r (.inner 2) _ hi hm
  have hn : (pickCubeDDR 3 (fun _ => false) 10 (exRunP 3).r (.inner 2)).1 = none :=
    h.1.mpr (by decide +kernel)
  exact ⟨hn, h.2 hn⟩

/-- `pick_cube_dd_set` of `x0 ∨ x1` with the literal set `x1` (handle 1): level 0 is absent from the
set (choice `false`), level 1 is positive: the cube `¬x0 ∧ x1` (found: slot 3, no allocation) -/
example :
    (exRunP 5).hs = [.inner 3, .inner 2, .inner 1, .inner 0] ∧
    (pickCubeDDSetR 4 10 10 (exRunP 5).r (.inner 2) (.inner 1)).1 = some (.inner 3) ∧
    pickCubeDDSet exOr (.node 1 (.leaf true) (.leaf false)) =
      .node 0 (.leaf false) (.node 1 (.leaf true) (.leaf false)) ∧
    neededPickSet 10 10 (exRunP 5).r.st (.inner 2) (.inner 1) = 0 := by
  decide +kernel

end OxiddModel.Bdd.C13S
