import OxiddModel.Bdd.Uniform
import OxiddModel.Bdd.UniformSeq
import OxiddModel.Bdd.PropertiesC13
import OxiddModel.Bdd.PropertiesC12

/-!
# Headline theorems for property C13, last clause: "uniform picking never returns a non-model and
# selects models without bias" — simple BDD rules, tree level

`pickUniform vars rs f` models `pick_cube_uniform_edge` (`oxidd-core/src/function.rs`):
`pick_cube_edge` with the choice closure "`r < t_count / (t_count + e_count)`", where
`t_count`/`e_count` are `sat_count_edge` of the two children over **all** `vars = num_levels`
variables (here the exact `satCount`, a `Nat`), and `r` is the next number of an explicit random
source `rs` (a list of fractions; a number is consumed exactly when the closure is called, i.e. when
neither child is `⊥`). The comparison is done cross-multiplied in `Nat` (`takeThen`).

`f` ranges over **all** trees in normal form whose levels are `< vars`, `rs` over all random sources,
`σ` over all assignments: no bound on depth, width, level numbers or counts.

Vocabulary (defined in `Uniform.lean`):
* `RootPath f c` — `c` is the decision list of a root-to-`⊤` path of `f`; by `uniform_returnable`
  these are exactly the cubes the sampler can return;
* `cubeProb vars f c : Nat × Nat` — numerator and denominator of the probability that the sampler
  returns `c`: the product along `c` of `1` (forced step) resp.
  `count(chosen child) / (count(t) + count(e))` (step decided by the closure; for `r` uniform on
  `[0,1)` the event `r < p` has probability `p`, `uniform_draw_count` is the discrete form);
* `modelProb vars f σ` — probability of the *total* assignment `σ`: `cubeProb` of the one cube `σ`
  lies in (`pathOf σ f`), times `1/2` per don't-care variable (fair coin flips, as the doc comment
  of `pick_cube_uniform` prescribes);
* `rootPaths f` — the list of all root-to-`⊤` paths; `fracSum` — sum of a list of fractions.

What is *not* modelled: `F64` rounding of the counts and of the quotient, and `WyRand`.
-/
namespace OxiddModel.Bdd
open BDD

/-- The sampler is `pick_cube` with *some* choice function (each level is visited at most once), so
everything proved about `pick_cube` in `PropertiesC13` applies to it. -/
theorem uniform_is_pick (vars : Nat) (rs : List Frac) (f : BDD) (n : Nat) (hf : Ordered n f) :
    ∃ choice : Nat → Bool, pickUniform vars rs f = pickCube choice f := by
  obtain ⟨c, hc⟩ := uniformPath_as_choice vars hf rs
  refine ⟨c, ?_⟩
  unfold pickUniform pickCube
  split <;> simp_all

/-- C13 "uniform picking never returns a non-model" (and returns nothing exactly for the
unsatisfiable function): via `pick_none_iff_false` and `pick_implies`. -/
theorem uniform_never_nonmodel (vars : Nat) (rs : List Frac) (f : BDD) (n : Nat) (hf : NF n f) :
    (pickUniform vars rs f = none ↔ ∀ σ, f.eval σ = false) ∧
    (∀ c, pickUniform vars rs f = some c → ∀ σ, cubeSem c σ → f.eval σ = true) := by
  obtain ⟨choice, hc⟩ := uniform_is_pick vars rs f n hf.1
  rw [hc]
  refine ⟨(pick_none_iff_false choice f f n hf).1, fun c hsome σ hσ => ?_⟩
  by_cases hs : ∃ σ, f.eval σ = true
  · obtain ⟨p, hp, himp⟩ := (pick_implies choice f f n hf hs).1
    rw [hp] at hsome
    cases hsome
    exact himp σ hσ
  · have : pickCube choice f = none :=
      (pick_none_iff_false choice f f n hf).1.mpr (fun σ => by
        cases h : f.eval σ
        · rfl
        · exact absurd ⟨σ, h⟩ hs)
    rw [this] at hsome; cases hsome

/-- The cubes the sampler can return (for some random source with all numbers in `[0,1)`) are exactly
the root-to-`⊤` paths of the diagram. -/
theorem uniform_returnable (vars : Nat) (f : BDD) (n : Nat) (hf : NF n f) (hv : LevelsLt vars f)
    (c : List (Nat × Bool)) :
    (∃ rs : List Frac, (∀ r ∈ rs, r.num < r.den) ∧ pickUniform vars rs f = some c) ↔ RootPath f c := by
  constructor
  · rintro ⟨rs, _, h⟩
    unfold pickUniform at h
    split at h
    · cases h
    · rename_i hne
      cases h
      exact uniformPath_rootPath vars rs hf.2 (by intro h; exact hne h)
  · intro hw
    obtain ⟨h1, h2⟩ := drawsFor_spec hf.1 hf.2 hv hw
    refine ⟨drawsFor vars f c, h2, ?_⟩
    have hne := rootPath_ne_false hw
    unfold pickUniform
    split
    · exact absurd rfl hne
    · rw [h1]

/-- C13 "selects models without bias", cube form (the statement of the doc comment of
`pick_cube_uniform`: "a partial valuation with n don't cares [is returned] with a probability that
is 2ⁿ as high as the probability of any total valuation"). For every normal-form `f` over `vars`
variables and every cube `c` the sampler can return, with `k = vars - |c|` don't-care variables:
`cubeProb f c = 2^k / satCount vars f` (cross-multiplied in `Nat`; the denominators are positive, so
this *is* the equation of fractions), and `satCount vars f` is the number of models. -/
theorem uniform_cube_prob (vars : Nat) (f : BDD) (n : Nat) (hf : NF n f) (hv : LevelsLt vars f)
    (c : List (Nat × Bool)) (hc : RootPath f c) :
    (cubeProb vars f c).1 * satCount vars f = 2 ^ (vars - c.length) * (cubeProb vars f c).2 ∧
    0 < (cubeProb vars f c).2 ∧ 0 < satCount vars f ∧ c.length ≤ vars ∧
    satCount vars f = (bitvecs vars).countP (fun bs => f.eval (fun l => (bs[l]?).getD false)) := by
  have h0 : Ordered 0 f := hf.1.mono (Nat.zero_le _)
  obtain ⟨h1, h2⟩ := cubeProb_telescope h0 hf.2 hv hc
  have hlen := rootPath_length h0 hv (Nat.zero_le _) hc
  refine ⟨?_, h2, satCount_pos h0 hf.2 hv (rootPath_ne_false hc), by omega,
    (satcount_exact vars f 0 h0 hv).2.1⟩
  have e : 2 ^ vars = 2 ^ (vars - c.length) * 2 ^ c.length := by
    rw [← Nat.pow_add]; congr 1; omega
  have h1' : ((cubeProb vars f c).1 * satCount vars f) * 2 ^ c.length =
      (2 ^ (vars - c.length) * (cubeProb vars f c).2) * 2 ^ c.length := by
    rw [h1, e]; ac_rfl
  exact Nat.eq_of_mul_eq_mul_right (Nat.two_pow_pos _) h1'

/-- C13 "selects models without bias", model form. Completing the don't cares of the returned cube
by fair coin flips,
1. every satisfying total assignment `σ` is produced with probability **exactly**
   `1 / satCount vars f` (`modelProb.1 · satCount = modelProb.2`, denominator positive);
2. the only returnable cube that contains `σ` is the path `σ` follows (the returnable cubes are
   pairwise disjoint), so `modelProb` is the whole probability of `σ`, not just a lower bound;
3. a non-model has probability `0` and lies in no returnable cube. -/
theorem uniform_model_prob (vars : Nat) (f : BDD) (n : Nat) (hf : NF n f) (hv : LevelsLt vars f)
    (σ : Nat → Bool) :
    (f.eval σ = true →
      (modelProb vars f σ).1 * satCount vars f = (modelProb vars f σ).2 ∧
      0 < (modelProb vars f σ).2 ∧
      RootPath f (pathOf σ f) ∧ cubeSem (pathOf σ f) σ) ∧
    (∀ c, RootPath f c → cubeSem c σ → c = pathOf σ f) ∧
    (f.eval σ = false →
      (modelProb vars f σ).1 = 0 ∧ ∀ c, RootPath f c → ¬ cubeSem c σ) := by
  refine ⟨fun h => ?_, fun c hc hσ => rootPath_unique hc σ hσ, fun h => ?_⟩
  · have hw := pathOf_rootPath σ f h
    obtain ⟨h1, h2, _, h4, _⟩ := uniform_cube_prob vars f n hf hv _ hw
    refine ⟨?_, Nat.mul_pos h2 (Nat.two_pow_pos _), hw, pathOf_cubeSem σ f⟩
    simp only [modelProb]
    rw [h1]; ac_rfl
  · refine ⟨cubeProb_pathOf_nonmodel vars σ f h, fun c hc hσ => ?_⟩
    rw [rootPath_implies hc σ hσ] at h; cases h

/-- … hence any two models have the same probability (the bias statement proper). -/
theorem uniform_no_bias (vars : Nat) (f : BDD) (n : Nat) (hf : NF n f) (hv : LevelsLt vars f)
    (σ τ : Nat → Bool) (hσ : f.eval σ = true) (hτ : f.eval τ = true) :
    (modelProb vars f σ).1 * (modelProb vars f τ).2 = (modelProb vars f τ).1 * (modelProb vars f σ).2 := by
  obtain ⟨h1, _⟩ := (uniform_model_prob vars f n hf hv σ).1 hσ
  obtain ⟨h2, _⟩ := (uniform_model_prob vars f n hf hv τ).1 hτ
  rw [← h1, ← h2]; ac_rfl

/-- The probabilities of all returnable cubes sum to `1`: `rootPaths f` lists every returnable cube
exactly once, and the sum of their `cubeProb` has numerator = denominator (> 0). Equivalently, in
integers: the weights `2^(don't cares)` of the returnable cubes sum to the model count. -/
theorem uniform_total (vars : Nat) (f : BDD) (n : Nat) (hf : NF n f) (hv : LevelsLt vars f)
    (hs : f ≠ .leaf false) :
    (fracSum ((rootPaths f).map (cubeProb vars f))).1 = (fracSum ((rootPaths f).map (cubeProb vars f))).2 ∧
    0 < (fracSum ((rootPaths f).map (cubeProb vars f))).2 ∧
    natSum ((rootPaths f).map (cubeWeight vars)) = satCount vars f ∧
    (rootPaths f).Nodup ∧ (∀ c, c ∈ rootPaths f ↔ RootPath f c) := by
  have h0 : Ordered 0 f := hf.1.mono (Nat.zero_le _)
  have hw := rootPaths_weight h0 hv (Nat.zero_le _)
  have hpos := satCount_pos h0 hf.2 hv hs
  obtain ⟨h1, h2⟩ := fracSum_weights (satCount vars f) (cubeProb vars f) (cubeWeight vars) (rootPaths f)
    (fun c hc => by
      obtain ⟨a, b, _⟩ := uniform_cube_prob vars f n hf hv c (mem_rootPaths.mp hc)
      exact ⟨a, b⟩)
  refine ⟨?_, h2, hw, rootPaths_nodup f, fun c => mem_rootPaths⟩
  rw [hw, Nat.mul_comm] at h1
  exact Nat.eq_of_mul_eq_mul_left hpos h1

/-- No division by zero: whenever the closure is consulted, both counts it computes are positive
(`uniformCounts` lists the pairs `(t_count, e_count)` in the order of consultation). -/
theorem uniform_no_zero_div (vars : Nat) (rs : List Frac) (f : BDD) (n : Nat) (hf : NF n f)
    (hv : LevelsLt vars f) : ∀ p ∈ uniformCounts vars rs f, 0 < p.1 ∧ 0 < p.2 ∧ 0 < p.1 + p.2 := by
  intro p hp
  obtain ⟨a, b⟩ := uniformCounts_pos hf.1 hf.2 hv rs p hp
  exact ⟨a, b, by omega⟩

/-- One draw, measure-free: if the random source delivers `i/N` with `i` uniform in `0..N` and `N`
is a multiple `q·(ct+ce)` of the denominator, exactly `q·ct` of the `N` equally likely values make
the closure take the then-branch — the branch probability is `ct/(ct+ce)` exactly, as `stepProb`
(hence `cubeProb`) assumes. -/
theorem uniform_draw_count (ct ce q : Nat) (h : 0 < ct + ce) :
    countBelow (fun i => takeThen ⟨i, q * (ct + ce)⟩ ct ce) (q * (ct + ce)) = q * ct :=
  draw_count ct ce q h

/-- "Without bias" with no probabilities at all. Let every draw be one of the `N` equally likely
values `0/N, …, (N-1)/N` and consider all `N^m` sequences of `m` draws (`seqs N m`). If `N` is a
multiple of every denominator `t_count + e_count` the closure forms on the path of the returnable
cube `c` (`DenomsDivide`) and `m` is at least the number of draws that path consumes (`choicesOn`),
then the **number** of sequences on which the sampler returns `c` (`hits`) is exactly
`N^m · 2^k / satCount vars f`, `k` the number of don't cares of `c` — so every model is produced by
the same number `N^m / satCount` of (sequence, coin flips) outcomes, up to the factor `2^k / 2^k`. -/
theorem uniform_seq_count (vars : Nat) (f : BDD) (n : Nat) (hf : NF n f) (hv : LevelsLt vars f)
    (c : List (Nat × Bool)) (hc : RootPath f c) (N m : Nat) (hd : DenomsDivide vars N f c)
    (hm : choicesOn f c ≤ m) :
    hits vars N m f c * satCount vars f = N ^ m * 2 ^ (vars - c.length) := by
  have h0 : Ordered 0 f := hf.1.mono (Nat.zero_le _)
  have h1 := hits_telescope h0 hf.2 hv N hc hd m hm
  have hlen := rootPath_length h0 hv (Nat.zero_le _) hc
  have e : 2 ^ vars = 2 ^ (vars - c.length) * 2 ^ c.length := by
    rw [← Nat.pow_add]; congr 1; omega
  have h1' : (hits vars N m f c * satCount vars f) * 2 ^ c.length =
      (N ^ m * 2 ^ (vars - c.length)) * 2 ^ c.length := by
    rw [h1, e]; ac_rfl
  exact Nat.eq_of_mul_eq_mul_right (Nat.two_pow_pos _) h1'

/-! ## non-vacuity -/

/-- `N = 6` is a multiple of the only denominator (`4 + 2`) on the path of `x0 ∧ x2`: 4 of the 6
one-draw sequences, and 24 of the 36 two-draw sequences, return that cube -/
example : hits 3 6 1 exF [(0, true), (2, true)] = 4 ∧ hits 3 6 2 exF [(0, true), (2, true)] = 24 ∧
    choicesOn exF [(0, true), (2, true)] = 1 := by decide

example := uniform_seq_count 3 exF 0 exF_nf (by simp [exF, LevelsLt]) [(0, true), (2, true)]
  (by simp [RootPath, Walk, exF]) 6 1 (by simp [DenomsDivide, exF, satCount]; exact ⟨1, by decide⟩) (by decide)

/-- `x0 ? x2 : (¬x1 ∧ x2)` over 3 variables: 3 models; cubes `x0∧x2` (one don't care, probability
4/6) and `¬x0∧¬x1∧x2` (probability 2/6); the model `111` has probability 4/12 = 1/3 -/
example :
    satCount 3 exF = 3 ∧
    rootPaths exF = [[(0, true), (2, true)], [(0, false), (1, false), (2, true)]] ∧
    cubeProb 3 exF [(0, true), (2, true)] = (4, 6) ∧
    cubeProb 3 exF [(0, false), (1, false), (2, true)] = (2, 6) ∧
    pickUniform 3 [⟨1, 2⟩] exF = some [(0, true), (2, true)] ∧
    pickUniform 3 [⟨2, 3⟩] exF = some [(0, false), (1, false), (2, true)] ∧
    uniformCounts 3 [⟨2, 3⟩] exF = [(4, 2)] ∧
    modelProb 3 exF (fun _ => true) = (4, 12) ∧
    fracSum ((rootPaths exF).map (cubeProb 3 exF)) = (36, 36) := by decide

theorem exF_lt : LevelsLt 3 exF := by simp [exF, LevelsLt]

example := uniform_is_pick 3 [⟨1, 2⟩] exF 0 exF_nf.1
example := uniform_never_nonmodel 3 [⟨1, 2⟩] exF 0 exF_nf
example := (uniform_returnable 3 exF 0 exF_nf exF_lt [(0, true), (2, true)]).mpr (by simp [RootPath, Walk, exF])
example := uniform_cube_prob 3 exF 0 exF_nf exF_lt [(0, true), (2, true)] (by simp [RootPath, Walk, exF])
example := (uniform_model_prob 3 exF 0 exF_nf exF_lt (fun _ => true)).1 (by decide)
example := (uniform_model_prob 3 exF 0 exF_nf exF_lt (fun _ => false)).2.2 (by decide)
example := uniform_no_bias 3 exF 0 exF_nf exF_lt (fun _ => true) (fun l => l == 2) (by decide) (by decide)
example := uniform_total 3 exF 0 exF_nf exF_lt (by decide)
example := uniform_no_zero_div 3 [⟨2, 3⟩] exF 0 exF_nf exF_lt
example := uniform_draw_count 4 2 5 (by omega)

end OxiddModel.Bdd
