import OxiddModel.Bdd.CapS
import OxiddModel.Bdd.PropertiesC06

/-!
# C14 — resource exhaustion is reported as an error and leaves the manager intact

Property text: *"If an operation needs more inner nodes or terminals than the manager's capacity
allows, it returns the out-of-memory error — it does not panic, abort, hang or return a wrong
handle — and it releases everything it had acquired. Afterwards all existing handles are still
valid and correct, the diagram is well-formed with exact reference counts, and once space has been
freed (drop + gc) the same operation succeeds with the correct result."*

Model (`CapS.lean`): `Store.mkNodeC cap` = `reduce` over an `add_node` that fails when a fresh slot
is needed and `cap` nodes are stored (`crates/oxidd-manager-index/src/manager.rs`, `add_node`:
`Err(OutOfMemory)` after dropping the rejected node's children); `notC/applyC/iteC cap` = the
algorithms of `apply_rec.rs` with `?`-propagation. `none` is the error.

All theorems hold for all stores, caches, cache policies (`Policy.OK`), operands, capacities and
every fuel ≥ the sum of the operand sizes.

What is *not* covered: explicit reference counts and the `EdgeDropGuard`s (holding is implicit;
"releases everything" appears as: the nodes created before the failure are unreferenced garbage
that the next `gc` removes — see the example at the end); terminal capacity (BDD terminals are
static); the multi-threaded recursor's join (`?` after both branches returned); the pointer-based
manager's allocator failure; panics/aborts of the real allocator.
-/
namespace OxiddModel.Bdd.C14
open OxiddModel.Bdd OxiddModel.Bdd.BDD OxiddModel.Bdd.Refine

/-! ## `add_node` / `reduce` -/

/-- **`mk_oom_clean`.** `reduce` reports OutOfMemory only if a fresh node is really needed (no
reduction, no unique-table hit) and the store is full; the store is untouched (the function
returns no new store at all). -/
theorem mk_oom_clean {cap : Nat} {s : Store} {l : Nat} {t e : Edge}
    (h : s.mkNodeC cap l t e = none) : cap ≤ s.count ∧ t ≠ e ∧ s.find? ⟨l, t, e⟩ = none := by
  refine ⟨mkNodeC_none h, ?_, ?_⟩
  · intro hte; simp [Store.mkNodeC, hte] at h
  · cases hf : s.find? ⟨l, t, e⟩ with
    | none => rfl
    | some i =>
      by_cases hte : t = e
      · simp [Store.mkNodeC, hte] at h
      · simp [Store.mkNodeC, hte, hf] at h

/-- reductions and unique-table hits succeed on a full store (any capacity, even 0) -/
theorem mk_full_ok (cap : Nat) (s : Store) (l : Nat) (t e : Edge)
    (h : t = e ∨ ∃ i, s.find? ⟨l, t, e⟩ = some i) :
    s.mkNodeC cap l t e = some (s.mkNode l t e) ∧ (s.mkNode l t e).1 = s := by
  rcases h with h | ⟨i, h⟩
  · simp [Store.mkNodeC, Store.mkNode, h]
  · by_cases hte : t = e
    · simp [Store.mkNodeC, Store.mkNode, hte]
    · simp [Store.mkNodeC, Store.mkNode, hte, h]

/-- when it succeeds it is the uncapped `reduce` -/
theorem mk_capacity_independent {cap : Nat} {s : Store} {l : Nat} {t e : Edge} {m : Store × Edge}
    (h : s.mkNodeC cap l t e = some m) : m = s.mkNode l t e := (mkNodeC_some h).1

/-! ## errors are clean -/

/-- what "clean" means -/
structure Clean (cap : Nat) (st st' : St) : Prop where
  /-- the store was only extended (with the garbage created before the failure) -/
  le : st.store.Le st'.store
  /-- hash consing holds -/
  unique : st'.store.Unique
  /-- the cache (with the entries added before the failure) is sound -/
  cache : CacheOK st'.store st'.cache
  /-- every edge that denoted a tree still denotes the same tree: all handles are intact -/
  handles : ∀ x t, Denotes st.store x t → Denotes st'.store x t
  /-- the store is full: the error is not spurious -/
  full : cap ≤ st'.store.count
  /-- and not over-full if it was within the capacity before -/
  exact : st.store.count ≤ cap → st'.store.count = cap

theorem clean_of {cap : Nat} {st : St} {RC : Option Edge × St} {RS : St × Edge}
    (hS : Sound cap st.store RC RS) (hu : st.store.Unique) (hI : Refine.Inv RC.2)
    (herr : RC.1 = none) : Clean cap st RC.2 :=
  ⟨hS.le, hS.uniq hu, hI.2, fun _ _ h => h.mono hS.le, hS.err herr,
    fun hb => Nat.le_antisymm (hS.bound hb) (hS.err herr)⟩

/-- **`op_error_clean` (`apply_bin::<OP>`).** If the capped run returns OutOfMemory, then: the
store is an extension of the initial one, `Unique ∧ CacheOK` hold, every edge denotes what it
denoted before, and the store is full (`= cap` if it was `≤ cap` before). -/
theorem op_error_clean {p : Policy} (pok : p.OK) (cap : Nat) (op : Op) (fuel : Nat) (st : St)
    (f g : Edge) (a b : BDD) (hu : st.store.Unique) (hc : CacheOK st.store st.cache)
    (hf : Denotes st.store f a) (hg : Denotes st.store g b) (hfuel : a.size + b.size ≤ fuel)
    (herr : (applyC cap p op fuel st f g).1 = none) :
    Clean cap st (applyC cap p op fuel st f g).2 :=
  clean_of (applyC_both cap p op fuel st f g).1 hu
    (applyC_inv pok cap op fuel st f g a b ⟨hu, hc⟩ hf hg hfuel) herr

/-- `op_error_clean` for `apply_not` -/
theorem op_error_clean_not {p : Policy} (pok : p.OK) (cap : Nat) (fuel : Nat) (st : St)
    (f : Edge) (a : BDD) (hu : st.store.Unique) (hc : CacheOK st.store st.cache)
    (hf : Denotes st.store f a) (hfuel : a.size ≤ fuel)
    (herr : (notC cap p fuel st f).1 = none) : Clean cap st (notC cap p fuel st f).2 :=
  clean_of (notC_both cap p fuel st f).1 hu (notC_inv pok cap fuel st f a ⟨hu, hc⟩ hf hfuel) herr

/-- `op_error_clean` for `apply_ite` -/
theorem op_error_clean_ite {p : Policy} (pok : p.OK) (cap : Nat) (fuel : Nat) (st : St)
    (f g h : Edge) (a b c : BDD) (hu : st.store.Unique) (hc : CacheOK st.store st.cache)
    (hf : Denotes st.store f a) (hg : Denotes st.store g b) (hh : Denotes st.store h c)
    (hfuel : a.size + b.size + c.size ≤ fuel) (herr : (iteC cap p fuel st f g h).1 = none) :
    Clean cap st (iteC cap p fuel st f g h).2 :=
  clean_of (iteC_both cap p fuel st f g h).1 hu
    (iteC_inv pok cap fuel st f g h a b c ⟨hu, hc⟩ hf hg hh hfuel) herr

/-- **`no_spurious_oom`.** An error is reported only when the capacity really is exhausted: the
uncapped run of the same operation from the same state allocates nodes and ends with more than
`cap` nodes. (Purely structural: no hypotheses on the state.) -/
theorem no_spurious_oom (cap : Nat) (p : Policy) (op : Op) (fuel : Nat) (st : St) (f g : Edge)
    (herr : (applyC cap p op fuel st f g).1 = none) :
    cap < (applyS p op fuel st f g).1.store.count ∧
    st.store.count < (applyS p op fuel st f g).1.store.count := by
  have hC := (applyC_both cap p op fuel st f g).2
  have : ¬ Fits cap st.store (applyS p op fuel st f g).1.store := fun hfit => by
    rw [hC.fits hfit] at herr; cases herr
  have := hC.mono
  unfold Fits at *
  omega

/-! ## success does not depend on the capacity -/

/-- **`result_capacity_independent`.** If the capped run succeeds, it returns the *same edge* and
ends in the *same state* (store, cache, time stamp) as the uncapped `applyS` run; hence the edge
denotes `applyBin op a b`, and (for a reduced store) store and edge are `intern s (applyBin op a b)`
as in C06. -/
theorem result_capacity_independent {p : Policy} (pok : p.OK) (cap : Nat) (op : Op) (fuel : Nat)
    (st : St) (f g : Edge) (a b : BDD) (e : Edge) (hu : st.store.Unique)
    (hc : CacheOK st.store st.cache) (hf : Denotes st.store f a) (hg : Denotes st.store g b)
    (hfuel : a.size + b.size ≤ fuel) (hok : (applyC cap p op fuel st f g).1 = some e) :
    applyS p op fuel st f g = ((applyC cap p op fuel st f g).2, e) ∧
    Denotes (applyC cap p op fuel st f g).2.store e (applyBin op a b) ∧
    (st.store.NoRed → ((applyC cap p op fuel st f g).2.store, e) = intern st.store (applyBin op a b)) := by
  have h := ((applyC_both cap p op fuel st f g).1.ok e hok).1
  have P := Refine.applyS_spec pok op fuel st f g a b ⟨hu, hc⟩ hf hg hfuel
  rw [h] at P
  exact ⟨h, P.den, P.canon⟩

/-- two successful runs under different capacities agree completely -/
theorem capacities_agree (c1 c2 : Nat) (p : Policy) (op : Op) (fuel : Nat) (st : St) (f g : Edge)
    (e1 e2 : Edge) (h1 : (applyC c1 p op fuel st f g).1 = some e1)
    (h2 : (applyC c2 p op fuel st f g).1 = some e2) :
    e1 = e2 ∧ (applyC c1 p op fuel st f g).2 = (applyC c2 p op fuel st f g).2 := by
  have a1 := ((applyC_both c1 p op fuel st f g).1.ok e1 h1).1
  have a2 := ((applyC_both c2 p op fuel st f g).1.ok e2 h2).1
  have := a1.symm.trans a2
  exact ⟨(Prod.mk.inj this).2, (Prod.mk.inj this).1⟩

/-- the same for `apply_not` and `apply_ite` -/
theorem result_capacity_independent_not (cap : Nat) (p : Policy) (fuel : Nat) (st : St) (f e : Edge)
    (hok : (notC cap p fuel st f).1 = some e) : notS p fuel st f = ((notC cap p fuel st f).2, e) :=
  ((notC_both cap p fuel st f).1.ok e hok).1

theorem result_capacity_independent_ite (cap : Nat) (p : Policy) (fuel : Nat) (st : St)
    (f g h e : Edge) (hok : (iteC cap p fuel st f g h).1 = some e) :
    iteS p fuel st f g h = ((iteC cap p fuel st f g h).2, e) :=
  ((iteC_both cap p fuel st f g h).1.ok e hok).1

/-- **`oom_monotone`.** Success with capacity `c` implies success with every `c' ≥ c`, with the
same result and final state. -/
theorem oom_monotone {c c' : Nat} (hcc : c ≤ c') (p : Policy) (op : Op) (fuel : Nat) (st : St)
    (f g e : Edge) (hok : (applyC c p op fuel st f g).1 = some e) :
    applyC c' p op fuel st f g = applyC c p op fuel st f g := by
  obtain ⟨hS, hfit⟩ := (applyC_both c p op fuel st f g).1.ok e hok
  have h' := (applyC_both c' p op fuel st f g).2.fits (by rw [hS]; exact hfit.mono hcc)
  rw [h', hS]
  cases hR : applyC c p op fuel st f g with
  | mk o st' => rw [hR] at hok; cases hok; rfl

/-! ## retry -/

/-- **`retry_succeeds`.** If the uncapped run from this state ends with at most `cap` nodes — i.e.
it creates `k` new nodes and `count + k ≤ cap` — the capped run succeeds, with exactly the
uncapped result. -/
theorem retry_succeeds (cap : Nat) (p : Policy) (op : Op) (fuel : Nat) (st : St) (f g : Edge)
    (hfit : (applyS p op fuel st f g).1.store.count ≤ cap) :
    applyC cap p op fuel st f g = (some (applyS p op fuel st f g).2, (applyS p op fuel st f g).1) :=
  (applyC_both cap p op fuel st f g).2.fits (.inl hfit)

/-- the same with the number `k` of fresh nodes made explicit -/
theorem retry_succeeds_k (cap k : Nat) (p : Policy) (op : Op) (fuel : Nat) (st : St) (f g : Edge)
    (hk : (applyS p op fuel st f g).1.store.count = st.store.count + k)
    (hfit : st.store.count + k ≤ cap) :
    (applyC cap p op fuel st f g).1 = some (applyS p op fuel st f g).2 := by
  rw [retry_succeeds cap p op fuel st f g (by omega)]

theorem retry_succeeds_not (cap : Nat) (p : Policy) (fuel : Nat) (st : St) (f : Edge)
    (hfit : (notS p fuel st f).1.store.count ≤ cap) :
    notC cap p fuel st f = (some (notS p fuel st f).2, (notS p fuel st f).1) :=
  (notC_both cap p fuel st f).2.fits (.inl hfit)

theorem retry_succeeds_ite (cap : Nat) (p : Policy) (fuel : Nat) (st : St) (f g h : Edge)
    (hfit : (iteS p fuel st f g h).1.store.count ≤ cap) :
    iteC cap p fuel st f g h = (some (iteS p fuel st f g h).2, (iteS p fuel st f g h).1) :=
  (iteC_both cap p fuel st f g h).2.fits (.inl hfit)

/-- a full store does not hurt when nothing new is needed (e.g. the result exists already) -/
theorem no_alloc_succeeds (cap : Nat) (p : Policy) (op : Op) (fuel : Nat) (st : St) (f g : Edge)
    (h : (applyS p op fuel st f g).1.store.count = st.store.count) :
    (applyC cap p op fuel st f g).1 = some (applyS p op fuel st f g).2 := by
  rw [(applyC_both cap p op fuel st f g).2.fits (.inr h)]

/-- **Retry after `gc`.** From any state satisfying the invariant (in particular the state left by
a failed run, see `op_error_clean`): run the collector with the operands among the roots. Then
(1) the number of nodes did not grow, the invariant holds and the operands denote the same trees;
(2) if the operation now fits — for a reduced store: `count (intern s' (applyBin op a b)) ≤ cap`,
i.e. *live nodes + fresh nodes of the result ≤ cap* — the capped run succeeds and returns an edge
denoting `applyBin op a b`. -/
theorem retry_after_gc {p : Policy} (pok : p.OK) (cap : Nat) (op : Op) (fuel : Nat) (st : St)
    (roots : List Edge) (f g : Edge) (a b : BDD) (hu : st.store.Unique)
    (hc : CacheOK st.store st.cache) (hf : Denotes st.store f a) (hg : Denotes st.store g b)
    (hfr : f ∈ roots) (hgr : g ∈ roots) (hfuel : a.size + b.size ≤ fuel) :
    let st' := (Action.gc roots).run st
    st'.store.count ≤ st.store.count ∧ st'.store.Unique ∧ CacheOK st'.store st'.cache ∧
    Denotes st'.store f a ∧ Denotes st'.store g b ∧
    ((applyS p op fuel st' f g).1.store.count ≤ cap →
      ∃ e, (applyC cap p op fuel st' f g).1 = some e ∧
        Denotes (applyC cap p op fuel st' f g).2.store e (applyBin op a b)) ∧
    (st.store.NoRed → (intern st'.store (applyBin op a b)).1.count ≤ cap →
      ∃ e, (applyC cap p op fuel st' f g).1 = some e ∧
        Denotes (applyC cap p op fuel st' f g).2.store e (applyBin op a b)) := by
  intro st'
  obtain ⟨hinv', hst⟩ := Refine.step_guarantee (.gc roots) st roots ⟨hu, hc⟩ trivial (fun _ h => h)
  have hf' : Denotes st'.store f a := hst f hfr _ hf
  have hg' : Denotes st'.store g b := hst g hgr _ hg
  have P := Refine.applyS_spec pok op fuel st' f g a b hinv' hf' hg' hfuel
  have main : (applyS p op fuel st' f g).1.store.count ≤ cap →
      ∃ e, (applyC cap p op fuel st' f g).1 = some e ∧
        Denotes (applyC cap p op fuel st' f g).2.store e (applyBin op a b) := by
    intro hfit
    refine ⟨(applyS p op fuel st' f g).2, ?_⟩
    rw [retry_succeeds cap p op fuel st' f g hfit]
    exact ⟨rfl, P.den⟩
  refine ⟨sweep_count_le _ _, hinv'.1, hinv'.2, hf', hg', main, ?_⟩
  intro hr hfit
  have hr' : st'.store.NoRed := sweep_nored roots hr
  have hcan := P.canon hr'
  apply main
  rw [show (applyS p op fuel st' f g).1.store = (intern st'.store (applyBin op a b)).1 from
    congrArg Prod.fst hcan]
  exact hfit

/-! ## non-vacuity: a run that fails midway, leaves garbage, and succeeds after `gc` -/

open OxiddModel.Bdd.C06

/-- `exStore` (`x1`, `x0 ∧ x1`, `x0 ∨ x1`) plus a node for `x0` (#3) held by some other handle -/
def exStore4 : Store := (intern exStore (.node 0 (.leaf true) (.leaf false))).1

theorem exStore4_unique : exStore4.Unique := intern_unique _ _ exStore_unique
theorem exStore4_nored : exStore4.NoRed := intern_nored _ _ exStore_nored
theorem exStore4_and : Denotes exStore4 (.inner 1) exAnd := exStore_and.mono (intern_le _ _)
theorem exStore4_or : Denotes exStore4 (.inner 2) exOr := exStore_or.mono (intern_le _ _)

example : exStore4.count = 4 := by decide +kernel

/-- capacity 5: `(x0 ∧ x1) ⊕ (x0 ∨ x1)` needs two fresh nodes. The run creates `¬x1` (#4), memoises
it, and fails at the second `reduce`: OutOfMemory, with garbage and a cache entry left behind -/
def exFail : Option Edge × St := applyC 5 Policy.exact .xor 10 ⟨exStore4, [], 0⟩ (.inner 1) (.inner 2)

example : exFail.1 = none ∧
    exFail.2.store.nodes =
      #[some ⟨1, .term true, .term false⟩, some ⟨0, .inner 0, .term false⟩,
        some ⟨0, .term true, .inner 0⟩, some ⟨0, .term true, .term false⟩,
        some ⟨1, .term false, .term true⟩] ∧
    exFail.2.cache = [((.not, [.inner 0]), .inner 4)] ∧ exFail.2.store.count = 5 := by
  decide +kernel

/-- the failed state is clean (hypotheses of `op_error_clean` are satisfiable, the error case is
inhabited) -/
theorem exFail_clean : Clean 5 ⟨exStore4, [], 0⟩ exFail.2 :=
  op_error_clean Policy.exact_ok 5 .xor 10 ⟨exStore4, [], 0⟩ (.inner 1) (.inner 2) exAnd exOr
    exStore4_unique (CacheOK.nil _) exStore4_and exStore4_or (by decide) (by decide +kernel)

/-- not spurious: the uncapped run ends with 6 > 5 nodes -/
example : (applyS Policy.exact .xor 10 ⟨exStore4, [], 0⟩ (.inner 1) (.inner 2)).1.store.count = 6 := by
  decide +kernel

/-- the other handle (`x0`, #3) is dropped; `gc` with the operands as roots frees #3 and the
garbage #4 and clears the cache … -/
def exAfterGc : St := (Action.gc [.inner 1, .inner 2]).run exFail.2

example : exAfterGc.store.nodes =
    #[some ⟨1, .term true, .term false⟩, some ⟨0, .inner 0, .term false⟩,
      some ⟨0, .term true, .inner 0⟩, none, none] ∧ exAfterGc.cache = [] ∧
    exAfterGc.store.count = 3 := by decide +kernel

/-- … and the retry under the same capacity succeeds with the correct result -/
example : applyC 5 Policy.exact .xor 10 exAfterGc (.inner 1) (.inner 2) =
    (some (applyS Policy.exact .xor 10 exAfterGc (.inner 1) (.inner 2)).2,
      (applyS Policy.exact .xor 10 exAfterGc (.inner 1) (.inner 2)).1) :=
  retry_succeeds 5 _ _ _ _ _ _ (by decide +kernel)

example : (applyC 5 Policy.exact .xor 10 exAfterGc (.inner 1) (.inner 2)).1 = some (.inner 4) ∧
    (applyC 5 Policy.exact .xor 10 exAfterGc (.inner 1) (.inner 2)).2.store.count = 5 := by
  decide +kernel

/-- the same through `retry_after_gc` (its hypotheses hold for the failed state) -/
example : ∃ e, (applyC 5 Policy.exact .xor 10 exAfterGc (.inner 1) (.inner 2)).1 = some e ∧
    Denotes (applyC 5 Policy.exact .xor 10 exAfterGc (.inner 1) (.inner 2)).2.store e
      (applyBin .xor exAnd exOr) :=
  (retry_after_gc Policy.exact_ok 5 .xor 10 exFail.2 [.inner 1, .inner 2] (.inner 1) (.inner 2)
    exAnd exOr exFail_clean.unique exFail_clean.cache (exFail_clean.handles _ _ exStore4_and)
    (exFail_clean.handles _ _ exStore4_or) (by simp) (by simp) (by decide)).2.2.2.2.2.1
    (by decide +kernel)

/-- monotone threshold on the example: capacities 0..5 fail, 6 and more succeed -/
example : (List.range 9).map (fun c =>
      (applyC c Policy.exact .xor 10 ⟨exStore4, [], 0⟩ (.inner 1) (.inner 2)).1.isSome) =
    [false, false, false, false, false, false, true, true, true] := by decide +kernel

/-- on a full store an operation whose result exists still succeeds (capacity 0) -/
example : (applyC 0 Policy.exact .and 10 ⟨exStore4, [], 0⟩ (.inner 1) (.inner 2)).1 = some (.inner 1) := by
  decide +kernel

end OxiddModel.Bdd.C14
