import OxiddModel.Bdd.RThreadsOomProof
import OxiddModel.Bdd.RThreadsOomSim
import OxiddModel.Bdd.PropertiesC07R

/-!
# C14 / C07 / C05 — OutOfMemory in the PARALLEL recursor and under interleaving: nothing leaks, for every schedule

Property C14: *"If an operation needs more inner nodes … than the manager's capacity allows, it
returns the out-of-memory error … and it releases everything it had acquired. Afterwards all
existing handles are still valid and correct, the diagram is well-formed with exact reference
counts, and once space has been freed (drop + gc) the same operation succeeds …"*, quantified
over *"sequential and multi-threaded"*.

`PropertiesC05R.applyR_rc_exact` proves the counter clause for the **sequential** recursor running
alone; `PropertiesC07R.rc_invariant_interleaved` proves it for every interleaving, parallel
recursor included, but **without** allocation failure. This file is about the machine
`RThreadsOom.lean` that has all three at once: several threads, the parallel recursor of any split
depth (`join` runs both branches to completion, `Ok((ra?, rb?))` releases the surviving result),
and `get_or_insert` misses that end in `Err(OutOfMemory)` — whenever the store is full, and
whenever the scheduler says so (per-thread free lists make exhaustion a per-thread observation).

For **every** number of threads, scripts, split depths, admissible cache behaviour, capacity,
**every schedule and every pattern of allocation failures** (`List OSel`):

* `rc_invariant_interleaved_oom` — at every reachable configuration
  `rc n = 1 + handles on n + edges to n owned by some continuation (pending releases of error
  paths included) + stored parent edges of n`;
* `failed_op_releases_everything`, `quiescent_exact_oom`, `full_gc_exact_oom` — an operation that
  has ended in the error owns nothing; when all threads are done `rc = 1 + handles + parents`; a
  full collection then leaves exactly the nodes reachable from handles;
* `no_use_after_free_oom`, `acts_on_stored_oom` — every edge any continuation holds (on error paths
  too) refers to a stored node; no `retain` / `release` hits a freed slot or takes a counter below
  the table's reference;
* `successful_ops_still_correct`, `no_failure_sequential_result` — the handles of each thread
  denote, slot by slot, its script executed sequentially on trees where exactly the operations
  logged as failed left their result slot empty; a thread none of whose operations failed gets the
  sequential results although operations of other threads failed around it;
* `handles_untouched_by_failure` — a handle its owner does not drop is the same edge with the same
  denotation at every reachable configuration;
* `every_thread_terminates_oom` — a thread selected more often than a bound computed from its
  script and operand trees alone has finished its script, whatever fails: no hang on error paths;
* `capacity_respected` — the store never holds more nodes than the capacity;
* `oom_free_run_is_rthreads_run` — without failing allocations the machine is, step by step and
  counter by counter, the machine of `RThreads.lean` (`PropertiesC07R.lean`): the new step function
  changes nothing but the error paths;
* negative witnesses: the two seeded defects of the parallel join (`Variant.firstErrNoRelease`,
  `Variant.noThenGuard`) and the leaking `add_node` (`Variant.oomLeaksChildren`) leave a counter
  too high after quiescence (`first_error_wins_leaks`, `then_guard_missing_leaks`,
  `oom_leaks_children_leaks`) on runs where the unchanged code is exact.

Assumptions that stay assumptions: those of `PropertiesC07R.lean` (atomicity of the listed
actions, sequential consistency); the children of a rejected node are released by separate steps
(the code releases them inside `add_node`, still under the level mutex of the *parent's* level,
which does not order them with respect to anything acting on the children).
-/
namespace OxiddModel.Bdd.C14P
open OxiddModel.Bdd OxiddModel.Bdd.BDD OxiddModel.Bdd.Refine OxiddModel.Bdd.Threads
open OxiddModel.Bdd.RThreads OxiddModel.Bdd.ROom
open OxiddModel.Bdd.Rc (RSt rcGet rcSet cloneEdge dropEdge RcInv parents)

/-! ## initial configurations -/

/-- an initial configuration: hash-consed store, sound cache, all threads idle with an empty log,
handles denote the trees `ts0`, exact counters for the handles, every stored node denotes an
ordered tree -/
structure OInit (c : OCfg) (ts0 : Nat → List (Option BDD)) : Prop where
  unique : c.rst.st.store.Unique
  cache : CacheOK c.rst.st.store c.rst.st.cache
  nogc : c.gcActive = true → c.rst.st.cache = []
  idle : ∀ (i : Nat) (th : OThread), c.threads[i]? = some th → th.cur = none ∧ th.log = []
  handles : ∀ (i : Nat) (th : OThread), c.threads[i]? = some th →
    HsDen c.rst.st.store th.hs (ts0 i)
  rc : RcInv c.rst c.ext
  ord : AllOrd c.rst.st.store

/-- the specification of thread `i`: its script executed sequentially on trees, for each list of
outcomes (`true` = that command's operation ended in `OutOfMemory`) -/
def specOF (c : OCfg) (ts0 : Nat → List (Option BDD)) (i : Nat) (fs : List Bool) :
    List (Option BDD) :=
  match c.threads[i]? with
  | some th => evalScriptF th.script fs (ts0 i)
  | none => []

/-- the step budget of thread `i`: a function of its script and the operand trees -/
def specOB (c : OCfg) (ts0 : Nat → List (Option BDD)) (i : Nat) : Nat :=
  match c.threads[i]? with
  | some th => sbF th.script (ts0 i)
  | none => 0

theorem oginv_init {c : OCfg} {ts0 : Nat → List (Option BDD)} (h : OInit c ts0) :
    OGInv c (specOF c ts0) (specOB c ts0) where
  inv := ⟨h.unique, h.cache⟩
  gcc := h.nogc
  rc := h.rc
  ord := h.ord
  thr := by
    intro i th hi
    obtain ⟨hc, hl⟩ := h.idle i th hi
    refine ⟨⟨ts0 i, h.handles i th hi, ?_⟩, ?_⟩
    · rw [hc]
      refine ⟨fun fs => ?_, ?_⟩
      · simp [specOF, hi, hl]
      · simp [specOB, hi]
    · unfold OThreadCov; rw [hc]; trivial

theorem reachable_oginv {p : Policy} (pok : p.OK) (cap : Nat) {c0 : OCfg}
    {ts0 : Nat → List (Option BDD)} (hinit : OInit c0 ts0) (sched : List OSel) :
    ∃ B, OGInv (c0.run .ok p cap sched) (specOF c0 ts0) B := by
  obtain ⟨B, hB, _⟩ := OCfg.run_oginv pok cap sched (oginv_init hinit)
  exact ⟨B, hB⟩

/-! ## the counters are exact at every moment -/

/-- handles on slot `i`, over all threads -/
def handleCount (c : OCfg) (i : Nat) : Nat :=
  (c.threads.flatMap OThread.handles).count (.inner i)

/-- the edges owned by the continuation of a thread: results of finished sub-tasks,
`EdgeDropGuard`s, clones in flight, the edge `reduce` returned, edges still to be released — after
a unique-table hit **and on every error path** -/
def curOwned (th : OThread) : List Edge :=
  match th.cur with
  | some t => t.owned
  | none => []

theorem owned_eq (th : OThread) : th.owned = th.handles ++ curOwned th := by
  unfold OThread.owned curOwned; cases th.cur <;> rfl

/-- edges to slot `i` owned by the continuation of some thread -/
def ownedCount (c : OCfg) (i : Nat) : Nat := (c.threads.flatMap curOwned).count (.inner i)

theorem ext_count (c : OCfg) (i : Nat) :
    c.ext.count (.inner i) = handleCount c i + ownedCount c i := by
  unfold OCfg.ext handleCount ownedCount
  induction c.threads with
  | nil => rfl
  | cons th ths ih =>
    simp only [List.flatMap_cons, List.count_append, owned_eq, ih]
    omega

/-- **`rc_invariant_interleaved_oom`.** At EVERY reachable configuration — after any schedule
prefix, for any number of threads, any split depth, any capacity and **any pattern of allocation
failures** — the counters are exact for the multiset of all counted references defined from the
configuration (`RcInv … c.ext`), i.e. for every stored node `n`

`rc n = 1 + (handles on n over all threads) + (edges to n owned by some thread's continuation,
        pending releases of error paths included) + (stored parent edges of n)`,

and every counted reference and every child edge points to a stored node. -/
theorem rc_invariant_interleaved_oom {p : Policy} (pok : p.OK) (cap : Nat) (c0 : OCfg)
    (ts0 : Nat → List (Option BDD)) (hinit : OInit c0 ts0) (sched : List OSel) :
    RcInv (c0.run .ok p cap sched).rst (c0.run .ok p cap sched).ext ∧
    ∀ i n, (c0.run .ok p cap sched).rst.st.store.get? i = some n →
      rcGet (c0.run .ok p cap sched).rst.rc i =
        1 + handleCount (c0.run .ok p cap sched) i + ownedCount (c0.run .ok p cap sched) i +
          parents (c0.run .ok p cap sched).rst.st.store i := by
  obtain ⟨B, hG⟩ := reachable_oginv pok cap hinit sched
  refine ⟨hG.rc, fun i n hi => ?_⟩
  rw [hG.rc.rc_eq i n hi, ext_count]
  omega

/-! ## a failed operation has released everything -/

/-- **`failed_op_releases_everything`.** At every reachable configuration: a thread whose running
operation has ended in the error (`res? = some none`: `Err(OutOfMemory)` is about to be returned to
the caller) owns **nothing** beyond its handles — every result of a finished branch, every guard,
the children of the rejected node have been released —, so in the exact counter equation of
`rc_invariant_interleaved_oom` this thread contributes its handles only; and the step that
delivers the error creates no handle (the result slot stays empty) and changes no counter. -/
theorem failed_op_releases_everything {p : Policy} (pok : p.OK) (cap : Nat) (c0 : OCfg)
    (ts0 : Nat → List (Option BDD)) (hinit : OInit c0 ts0) (sched : List OSel) (i : Nat)
    (th : OThread) (t : OTask) (hi : (c0.run .ok p cap sched).threads[i]? = some th)
    (hc : th.cur = some t) (hfail : t.res? = some none) :
    curOwned th = [] ∧ th.owned = th.handles ∧
    RcInv (c0.run .ok p cap sched).rst (c0.run .ok p cap sched).ext ∧
    (∀ path oom, ((c0.run .ok p cap sched).step .ok p cap (.thread i path oom)).rst =
        (c0.run .ok p cap sched).rst ∧
      ∃ th', ((c0.run .ok p cap sched).step .ok p cap (.thread i path oom)).threads[i]? = some th' ∧
        th'.cur = none ∧ th'.hs = th.hs ++ [none] ∧ th'.handles = th.handles ∧
        th'.log = th.log ++ [true]) := by
  obtain ⟨B, hG⟩ := reachable_oginv pok cap hinit sched
  have e := res?_err hfail
  subst e
  have h1 : curOwned th = [] := by simp [curOwned, hc, OTask.owned]
  refine ⟨h1, by rw [owned_eq, h1, List.append_nil], hG.rc, fun path oom => ?_⟩
  have hlt := lt_of_getElem?_some hi
  simp only [OCfg.step, hi, OThread.step, hc, OTask.res?, RAct.run]
  refine ⟨trivial, { th with hs := th.hs ++ [none], cur := none, log := th.log ++ [true] },
    by simp [hlt], rfl, rfl, ?_, rfl⟩
  simp [OThread.handles, List.filterMap_append]

/-! ## quiescence -/

theorem idle_of_done {c : OCfg} (h : c.allDone = true) : ∀ th, th ∈ c.threads → th.cur = none := by
  intro th hm
  have := List.all_eq_true.mp h th hm
  simp only [OThread.done, Bool.and_eq_true, Option.isNone_iff_eq_none] at this
  exact this.1

theorem flatMap_idle : ∀ (l : List OThread), (∀ th, th ∈ l → th.cur = none) →
    l.flatMap curOwned = [] ∧ l.flatMap OThread.owned = l.flatMap OThread.handles := by
  intro l
  induction l with
  | nil => intro _; exact ⟨rfl, rfl⟩
  | cons th ths ih =>
    intro h
    obtain ⟨i1, i2⟩ := ih (fun t ht => h t (List.mem_cons_of_mem _ ht))
    have hc := h th List.mem_cons_self
    simp only [List.flatMap_cons, i1, i2]
    constructor
    · simp [curOwned, hc]
    · simp [OThread.owned, hc]

theorem ownedCount_done {c : OCfg} (h : c.allDone = true) (i : Nat) : ownedCount c i = 0 := by
  unfold ownedCount
  rw [(flatMap_idle c.threads (idle_of_done h)).1]; rfl

theorem ext_done {c : OCfg} (h : c.allDone = true) :
    c.ext = c.threads.flatMap OThread.handles :=
  (flatMap_idle c.threads (idle_of_done h)).2

/-- **`quiescent_exact_oom`.** When all threads are done — after any complete schedule in which any
number of operations of any thread failed at any allocation point —, for every stored node
`rc = 1 + handles + stored parent edges`: `InnerNode::ref_count()` (= `rc - 1`) reports exactly the
number of live handles plus stored parent edges. No temporary of any failed operation is left. -/
theorem quiescent_exact_oom {p : Policy} (pok : p.OK) (cap : Nat) (c0 : OCfg)
    (ts0 : Nat → List (Option BDD)) (hinit : OInit c0 ts0) (sched : List OSel)
    (hdone : (c0.run .ok p cap sched).allDone = true) :
    ∀ i n, (c0.run .ok p cap sched).rst.st.store.get? i = some n →
      rcGet (c0.run .ok p cap sched).rst.rc i =
        1 + handleCount (c0.run .ok p cap sched) i +
          parents (c0.run .ok p cap sched).rst.st.store i ∧
      (c0.run .ok p cap sched).rst.refCount i =
        handleCount (c0.run .ok p cap sched) i +
          parents (c0.run .ok p cap sched).rst.st.store i := by
  intro i n hi
  have := (rc_invariant_interleaved_oom pok cap c0 ts0 hinit sched).2 i n hi
  rw [ownedCount_done hdone] at this
  exact ⟨by omega, by unfold RSt.refCount; omega⟩

/-- a full collection: `pre_gc`, the levels `0 … N-1` from the top, `post_gc` -/
def fullGc (N : Nat) : List OSel := .gcBegin :: ((List.range N).map .gcLevel ++ [.gcEnd])

theorem run_levels (v : Variant) (p : Policy) (cap : Nat) : ∀ (ls : List Nat) (c : OCfg)
    (rest : List OSel), c.gcActive = true →
    c.run v p cap (ls.map .gcLevel ++ rest) =
      OCfg.run v p cap { c with rst := ls.foldl Rc.gcLevel c.rst } rest := by
  intro ls
  induction ls with
  | nil => intro c rest _; rfl
  | cons l ls ih =>
    intro c rest ha
    simp only [List.map_cons, List.cons_append, OCfg.run, List.foldl_cons]
    have e : c.step v p cap (.gcLevel l) = { c with rst := Rc.gcLevel c.rst l } := by
      simp [OCfg.step, ha]
    rw [e]
    exact ih { c with rst := Rc.gcLevel c.rst l } rest ha

/-- a full collection of the machine is `Rc.gcR` (`Manager::gc` of `RcS.lean`) -/
theorem run_fullGc (v : Variant) (p : Policy) (cap : Nat) (c : OCfg) (N : Nat) :
    (c.run v p cap (fullGc N)).rst = Rc.gcR N c.rst ∧
    (c.run v p cap (fullGc N)).threads = c.threads := by
  unfold fullGc
  simp only [OCfg.run]
  have e : c.step v p cap .gcBegin =
      { c with rst := { c.rst with st := { c.rst.st with cache := [] } }, gcActive := true } := rfl
  rw [e, run_levels v p cap _ _ _ rfl]
  exact ⟨rfl, rfl⟩

/-- **`full_gc_exact_oom`.** After a complete schedule with any pattern of failed operations, a
full collection (over all levels) leaves **exactly** the nodes reachable from the handles
(`Rc.Reach`) — in particular everything a failed operation had built before it failed is freed —,
changes none of them, and the counters stay exact. -/
theorem full_gc_exact_oom {p : Policy} (pok : p.OK) (cap : Nat) (c0 : OCfg)
    (ts0 : Nat → List (Option BDD)) (hinit : OInit c0 ts0) (sched : List OSel)
    (hdone : (c0.run .ok p cap sched).allDone = true) (N : Nat)
    (hN : ∀ i n, (c0.run .ok p cap sched).rst.st.store.get? i = some n → n.level < N) :
    (∀ i, (∃ n, ((c0.run .ok p cap sched).run .ok p cap (fullGc N)).rst.st.store.get? i = some n) ↔
      Rc.Reach (c0.run .ok p cap sched).rst.st.store
        ((c0.run .ok p cap sched).threads.flatMap OThread.handles) i) ∧
    (∀ i n, ((c0.run .ok p cap sched).run .ok p cap (fullGc N)).rst.st.store.get? i = some n →
      (c0.run .ok p cap sched).rst.st.store.get? i = some n) ∧
    RcInv ((c0.run .ok p cap sched).run .ok p cap (fullGc N)).rst
      ((c0.run .ok p cap sched).run .ok p cap (fullGc N)).ext := by
  obtain ⟨B, hG⟩ := reachable_oginv pok cap hinit sched
  generalize c0.run .ok p cap sched = c at hG hdone hN ⊢
  have hrst : (c.run .ok p cap (fullGc N)).rst = Rc.gcR N c.rst := (run_fullGc .ok p cap c N).1
  have hth : (c.run .ok p cap (fullGc N)).threads = c.threads := (run_fullGc .ok p cap c N).2
  have hext : (c.run .ok p cap (fullGc N)).ext = c.ext := by unfold OCfg.ext; rw [hth]
  have hrc : RcInv c.rst (c.threads.flatMap OThread.handles) := by
    rw [← ext_done hdone]; exact hG.rc
  rw [hrst, hext]
  refine ⟨fun i => ⟨?_, ?_⟩, Rc.gcR_sub N c.rst, (Rc.gcR_rc N hG.rc).1⟩
  · rintro ⟨n, hn⟩
    exact Rc.gcR_complete N hrc hG.ord.ordered hN hn
  · intro hr
    obtain ⟨n, _, hn⟩ := Rc.gcR_keeps_reach N hrc hr
    exact ⟨n, hn⟩

/-- **`full_gc_empty_oom`.** If moreover no thread owns a handle any more, the full collection
empties the store: the manager is back to its initial node count whatever failed before. -/
theorem full_gc_empty_oom {p : Policy} (pok : p.OK) (cap : Nat) (c0 : OCfg)
    (ts0 : Nat → List (Option BDD)) (hinit : OInit c0 ts0) (sched : List OSel)
    (hdone : (c0.run .ok p cap sched).allDone = true) (N : Nat)
    (hN : ∀ i n, (c0.run .ok p cap sched).rst.st.store.get? i = some n → n.level < N)
    (hno : (c0.run .ok p cap sched).threads.flatMap OThread.handles = []) :
    ∀ i, ((c0.run .ok p cap sched).run .ok p cap (fullGc N)).rst.st.store.get? i = none := by
  intro i
  have := (full_gc_exact_oom pok cap c0 ts0 hinit sched hdone N hN).1 i
  rw [hno] at this
  cases hi : ((c0.run .ok p cap sched).run .ok p cap (fullGc N)).rst.st.store.get? i with
  | none => rfl
  | some n => exact (C07R.reach_nil (this.mp ⟨n, hi⟩)).elim

/-! ## no use after free -/

/-- **`no_use_after_free_oom`.** At every reachable configuration, under every schedule and every
pattern of allocation failures, **every edge any thread holds** — handles, operands of every
pending call (borrowed cofactors), cache keys kept in frames, guarded results, the edge `reduce`
returned, edges still to be released after a unique-table hit or **on an error path** — refers to
a stored node (or a terminal). -/
theorem no_use_after_free_oom {p : Policy} (pok : p.OK) (cap : Nat) (c0 : OCfg)
    (ts0 : Nat → List (Option BDD)) (hinit : OInit c0 ts0) (sched : List OSel) (i : Nat)
    (th : OThread) (hi : (c0.run .ok p cap sched).threads[i]? = some th) :
    ∀ e, e ∈ th.held → (c0.run .ok p cap sched).rst.st.store.has e := by
  obtain ⟨B, hG⟩ := reachable_oginv pok cap hinit sched
  intro e he
  have own : e ∈ th.owned → (c0.run .ok p cap sched).rst.st.store.has e := fun ho =>
    hG.rc.ext_ok e (oowned_sub_ext hi e ho)
  obtain ⟨ts, hhs, hcur⟩ := (hG.thr i th hi).1
  unfold OThread.held at he
  rcases List.mem_append.mp he with h1 | h1
  · exact own (List.mem_append.mpr (.inl h1))
  · cases hc : th.cur with
    | none => rw [hc] at h1; cases h1
    | some t =>
      rw [hc] at h1 hcur
      obtain ⟨T, n, hok, _⟩ := hcur
      rcases held_sub t e h1 with h2 | h2
      · exact hok.dheld_has e h2
      · exact own (by unfold OThread.owned; rw [hc]; exact List.mem_append.mpr (.inr h2))

/-- **`acts_on_stored_oom`.** At every reachable configuration, whatever thread, `par` path and
allocation outcome the scheduler selects next: if the step is a `retain e` (or a cache hit, which
retains its result) then `e` points to a stored node **before** the step; if it is a `release` of
an edge to slot `j` — also one of an error path — then slot `j` is occupied and `rc j ≥ 2`: the
`fetch_sub` never hits a freed slot and never takes the counter below the table's own reference
(`debug_assert!(_old_rc > 1)` of `drop_edge`): nothing is released twice. -/
theorem acts_on_stored_oom {p : Policy} (pok : p.OK) (cap : Nat) (c0 : OCfg)
    (ts0 : Nat → List (Option BDD)) (hinit : OInit c0 ts0) (sched : List OSel) (tid : Nat)
    (path : List Bool) (full : Bool) (th : OThread)
    (hi : (c0.run .ok p cap sched).threads[tid]? = some th) :
    (∀ e, (th.step .ok (effPol p (c0.run .ok p cap sched).gcActive)
          (c0.run .ok p cap sched).rst.st full path).1 = .retain e ∨
        (th.step .ok (effPol p (c0.run .ok p cap sched).gcActive)
          (c0.run .ok p cap sched).rst.st full path).1 = .cacheGet (some e) →
      (c0.run .ok p cap sched).rst.st.store.has e) ∧
    (∀ j, (th.step .ok (effPol p (c0.run .ok p cap sched).gcActive)
          (c0.run .ok p cap sched).rst.st full path).1 = .release (.inner j) →
      (∃ n, (c0.run .ok p cap sched).rst.st.store.get? j = some n) ∧
        2 ≤ rcGet (c0.run .ok p cap sched).rst.rc j) := by
  obtain ⟨B, hG⟩ := reachable_oginv pok cap hinit sched
  generalize c0.run .ok p cap sched = c at hG hi ⊢
  obtain ⟨_, _, hpre, _⟩ := OThread.step_ok (effPol_ok pok c.gcActive) hG.inv full th path
    (hG.thr tid th hi).1
  have hacct := oext_acct_set (l := c.threads) hi
    (OThread.step_acct (effPol p c.gcActive) c.rst.st full th path)
  generalize (th.step .ok (effPol p c.gcActive) c.rst.st full path).1 = a at hpre hacct ⊢
  constructor
  · intro e he
    rcases he with he | he <;> subst he <;> exact hpre
  · intro j hj
    subst hj
    have hle := (hacct (.inner j)).1
    simp only [loseOf, List.count_cons_self, List.count_nil] at hle
    have hpos : 0 < c.ext.count (.inner j) := by
      show 0 < List.count (Edge.inner j) (c.threads.flatMap OThread.owned); omega
    have hm : Edge.inner j ∈ c.ext := List.count_pos_iff.mp hpos
    obtain ⟨n, hn⟩ := hG.rc.ext_ok _ hm
    refine ⟨⟨n, hn⟩, ?_⟩
    have := hG.rc.rc_eq j n hn
    omega

/-! ## operations that do not fail are still correct -/

theorem allDone_iff (c : OCfg) :
    c.allDone = true ↔ ∀ (i : Nat) (th : OThread), c.threads[i]? = some th → th.done = true := by
  simp only [OCfg.allDone, List.all_eq_true]
  constructor
  · intro h i th hi; exact h th (List.mem_of_getElem? hi)
  · intro h th hm
    obtain ⟨i, hi⟩ := List.mem_iff_getElem?.mp hm
    exact h i th hi

/-- **`successful_ops_still_correct`.** After every complete schedule, with any pattern of
allocation failures: the store is hash-consed (same function ⇒ same edge), the cache sound, and
the handles of each thread denote, slot by slot, the result of executing its script
**sequentially on trees** where exactly the operations the thread's log records as failed left
their result slot empty (`evalScriptF script log`): every operation that returned `Ok(e)` returned
the edge denoting the tree-level result (`applyNot` / `applyBin op` / `applyIte` of `Model.lean`)
of its operand trees — whatever failed before it, after it, or concurrently in other threads. -/
theorem successful_ops_still_correct {p : Policy} (pok : p.OK) (cap : Nat) (c0 : OCfg)
    (ts0 : Nat → List (Option BDD)) (hinit : OInit c0 ts0) (sched : List OSel)
    (hdone : (c0.run .ok p cap sched).allDone = true) :
    (c0.run .ok p cap sched).rst.st.store.Unique ∧
    CacheOK (c0.run .ok p cap sched).rst.st.store (c0.run .ok p cap sched).rst.st.cache ∧
    (c0.run .ok p cap sched).threads.length = c0.threads.length ∧
    ∀ i th0, c0.threads[i]? = some th0 →
      ∃ th, (c0.run .ok p cap sched).threads[i]? = some th ∧
        HsDen (c0.run .ok p cap sched).rst.st.store th.hs
          (evalScriptF th0.script th.log (ts0 i)) := by
  obtain ⟨B, hG⟩ := reachable_oginv pok cap hinit sched
  refine ⟨hG.inv.1, hG.inv.2, OCfg.run_length _ _, fun i th0 hi => ?_⟩
  have hlt : i < (c0.run .ok p cap sched).threads.length := by
    rw [OCfg.run_length]; exact lt_of_getElem?_some hi
  obtain ⟨th, hth⟩ := getElem?_some_of_lt hlt
  refine ⟨th, hth, ?_⟩
  obtain ⟨ts, hhs, hcur⟩ := (hG.thr i th hth).1
  have hd := (allDone_iff _).mp hdone i th hth
  simp only [OThread.done, Bool.and_eq_true, Option.isNone_iff_eq_none, List.isEmpty_iff] at hd
  rw [hd.1, hd.2] at hcur
  have := hcur.1 []
  simp only [evalScriptF, List.append_nil, specOF, hi] at this
  rw [← this]; exact hhs

/-- **`no_failure_sequential_result`.** A thread none of whose operations failed ends with exactly
the handles of the sequential, failure-free execution of its script (`Threads.evalScript`, the
specification of `PropertiesC07T.interleaving_correct`) — although operations of **other** threads
may have run out of memory around it. -/
theorem no_failure_sequential_result {p : Policy} (pok : p.OK) (cap : Nat) (c0 : OCfg)
    (ts0 : Nat → List (Option BDD)) (hinit : OInit c0 ts0) (sched : List OSel)
    (hdone : (c0.run .ok p cap sched).allDone = true) (i : Nat) (th0 th : OThread)
    (hi0 : c0.threads[i]? = some th0) (hi : (c0.run .ok p cap sched).threads[i]? = some th)
    (hok : ∀ f, f ∈ th.log → f = false) :
    HsDen (c0.run .ok p cap sched).rst.st.store th.hs (evalScript th0.script (ts0 i)) := by
  obtain ⟨th', hth', hden⟩ := (successful_ops_still_correct pok cap c0 ts0 hinit sched hdone).2.2.2 i th0 hi0
  rw [hi] at hth'
  cases hth'
  rw [evalScriptF_nofail _ _ _ hok] at hden
  exact hden

/-! ## handles are untouched by failures -/

theorem OThread.step_hget {v : Variant} {p : Policy} (st : St) (full : Bool) (th : OThread)
    (path : List Bool) {j : Nat} {e : Edge} (h : hget th.hs j = some e)
    (hnd : NoDrop th.script j) :
    hget (th.step v p st full path).2.hs j = some e ∧
      NoDrop (th.step v p st full path).2.script j := by
  unfold OThread.step
  cases hc : th.cur with
  | some t =>
    simp only
    cases hr : t.res? with
    | some a =>
      cases a with
      | some r => exact ⟨hget_append_some _ h, hnd⟩
      | none => exact ⟨hget_append_some _ h, hnd⟩
    | none => exact ⟨h, hnd⟩
  | none =>
    simp only
    cases hs : th.script with
    | nil => exact ⟨h, hnd⟩
    | cons c rest =>
      simp only
      rw [hs] at hnd
      have := Cmd.start_hget th.base c rest (j := j) (e := e) h (hnd c List.mem_cons_self)
      exact ⟨this.1, by
        show NoDrop (c.start th.base rest).script j
        rw [this.2]; exact fun c' hc' => hnd c' (List.mem_cons_of_mem _ hc')⟩

/-- one step keeps a handle that is never dropped: same edge, same denotation -/
theorem step_handle {p : Policy} (cap : Nat) {c : OCfg}
    {F : Nat → List Bool → List (Option BDD)} {B : Nat → Nat} (hG : OGInv c F B) (sel : OSel)
    {i j : Nat}
    {th : OThread} {e : Edge} {T : BDD} (hi : c.threads[i]? = some th)
    (h : hget th.hs j = some e) (hnd : NoDrop th.script j) (hd : Denotes c.rst.st.store e T) :
    ∃ th', (c.step .ok p cap sel).threads[i]? = some th' ∧ hget th'.hs j = some e ∧
      NoDrop th'.script j ∧ Denotes (c.step .ok p cap sel).rst.st.store e T := by
  have hden : Denotes (c.step .ok p cap sel).rst.st.store e T := by
    rcases OCfg.step_store (p := p) (cap := cap) hG sel with hle | hrem
    · exact hd.mono hle
    · have hm : e ∈ c.ext := oowned_sub_ext hi e (by
        unfold OThread.owned; exact mem_append_l (hget_mem h))
      exact hrem.denotes_reach (O := c.ext) (fun _ h => h) (.root hm) hd
  cases sel with
  | gcBegin => exact ⟨th, hi, h, hnd, hden⟩
  | gcEnd => exact ⟨th, hi, h, hnd, hden⟩
  | gcLevel l =>
    refine ⟨th, ?_, h, hnd, hden⟩
    simp only [OCfg.step]
    split <;> exact hi
  | thread tid path oom =>
    cases ht : c.threads[tid]? with
    | none =>
      have e0 : c.step .ok p cap (.thread tid path oom) = c := by simp [OCfg.step, ht]
      rw [e0] at hden ⊢
      exact ⟨th, hi, h, hnd, hden⟩
    | some th1 =>
      by_cases hit : tid = i
      · subst hit
        rw [hi] at ht; cases ht
        have hlen := lt_of_getElem?_some hi
        have := OThread.step_hget (v := .ok) (p := effPol p c.gcActive) c.rst.st
          (fullNow cap c.rst.st.store oom) th path h hnd
        refine ⟨_, ?_, this.1, this.2, hden⟩
        simp only [OCfg.step, hi]
        rw [List.getElem?_set]
        simp [hlen]
      · refine ⟨th, ?_, h, hnd, hden⟩
        simp [OCfg.step, ht, List.getElem?_set, hit, hi]

/-- **`handles_untouched_by_failure`.** Whatever the other threads and the collector do and
whichever operations — of this or of any other thread — run out of memory at whichever allocation
point: a handle its owner never drops is, at EVERY reachable configuration, the very same edge
denoting the very same tree. -/
theorem handles_untouched_by_failure {p : Policy} (pok : p.OK) (cap : Nat) (c0 : OCfg)
    (ts0 : Nat → List (Option BDD)) (hinit : OInit c0 ts0) (sched : List OSel) (i j : Nat)
    (th0 : OThread) (e : Edge) (T : BDD) (hi : c0.threads[i]? = some th0)
    (h : hget th0.hs j = some e) (hnd : NoDrop th0.script j)
    (hd : Denotes c0.rst.st.store e T) :
    ∃ th, (c0.run .ok p cap sched).threads[i]? = some th ∧ hget th.hs j = some e ∧
      Denotes (c0.run .ok p cap sched).rst.st.store e T := by
  have hG0 := oginv_init hinit
  generalize specOF c0 ts0 = F at hG0
  generalize specOB c0 ts0 = B at hG0
  clear hinit
  induction sched generalizing c0 th0 B with
  | nil => exact ⟨th0, hi, h, hd⟩
  | cons s ss ih =>
    obtain ⟨th1, h1, h2, h3, h4⟩ := step_handle (p := p) cap hG0 s hi h hnd hd
    exact ih _ th1 h1 h2 h3 h4 _ (OCfg.step_oginv pok cap hG0 s)

/-! ## no hang -/

/-- **`every_thread_terminates_oom`.** Whatever the schedule, the collector and the pattern of
allocation failures: a thread that has been selected more often than its **step bound**
`sbF script ts0` — a function of its script and the operand trees only (`3·W(sizes) + 1` own steps
per operation: entry, expansion, recursive calls, `reduce`, the releases of rejected children or of
an error path, cache add, delivery) — has executed its whole script: every operation has ended
with a handle or with the error. No operation hangs on an error path. -/
theorem every_thread_terminates_oom {p : Policy} (pok : p.OK) (cap : Nat) (c0 : OCfg)
    (ts0 : Nat → List (Option BDD)) (hinit : OInit c0 ts0) (sched : List OSel) (i : Nat)
    (th0 : OThread) (hi : c0.threads[i]? = some th0)
    (hsel : sbF th0.script (ts0 i) < oselCount i sched) :
    ∃ th, (c0.run .ok p cap sched).threads[i]? = some th ∧ th.done = true := by
  obtain ⟨B', _, hcount⟩ := OCfg.run_oginv pok cap sched (oginv_init hinit)
  have hlt : i < (c0.run .ok p cap sched).threads.length := by
    rw [OCfg.run_length]; exact lt_of_getElem?_some hi
  obtain ⟨th, hth⟩ := getElem?_some_of_lt hlt
  refine ⟨th, hth, ?_⟩
  rcases hcount i th hth with hd | hle
  · exact hd
  · simp only [specOB, hi] at hle
    omega

/-! ## the capacity is respected -/

/-- a step told that the store is full performs no allocating `get_or_insert` -/
theorem oreduce_full (st : St) (fr : Frame) (r1 r0 : Edge) {l : Nat} {a b : Edge}
    (h : (oreduce v true st fr r1 r0).1 = .mk l a b) : isMiss st.store l a b = false := by
  unfold oreduce at h
  by_cases hm : isMiss st.store fr.lvl r1 r0 = true
  · simp [hm] at h
  · simp only [hm, Bool.true_and, Bool.false_eq_true, if_false, rreduce_fst, RAct.mk.injEq] at h
    obtain ⟨rfl, rfl, rfl⟩ := h
    simpa using hm

theorem OTask.step_full (v : Variant) (p : Policy) (st : St) (t : OTask) :
    ∀ path l a b, (t.step v p st true path).1 = .mk l a b → isMiss st.store l a b = false := by
  induction t with
  | ret r => intro _ _ _ _ h; cases h
  | fail ds => intro _ _ _ _ h; cases ds <;> cases h
  | call d c =>
    intro _ l a b h
    have := (rentry_erase p st d c).2
    simp only [OTask.step] at h
    rw [h] at this
    rcases entry_act p st d c with e | e <;> rw [e] at this <;> cases this
  | miss d c key =>
    intro _ l a b h
    have := (rexpand_erase st.store d key c).2
    simp only [OTask.step] at h
    rw [h] at this
    cases this
  | made key r ds => intro _ _ _ _ h; cases ds <;> cases h
  | seq1 fr c0 t1 ih =>
    intro path l a b h
    rcases res?_cases t1 with ⟨r1, rfl⟩ | rfl | hr
    · cases h
    · cases h
    · simp only [OTask.step, hr] at h; exact ih path l a b h
  | seq0 fr r1 t0 ih =>
    intro path l a b h
    rcases res?_cases t0 with ⟨r0, rfl⟩ | rfl | hr
    · simp only [OTask.step, OTask.res?] at h; exact oreduce_full st fr r1 r0 h
    · cases h
    · simp only [OTask.step, hr] at h; exact ih path l a b h
  | par fr t1 t0 ih1 ih0 =>
    intro path l a b h
    simp only [OTask.step] at h
    split at h
    · rename_i x y _ _
      cases x with
      | none => cases y <;> cases h
      | some r1 =>
        cases y with
        | none => cases h
        | some r0 => exact oreduce_full st fr r1 r0 h
    · split at h
      · exact ih1 path.tail l a b h
      · exact ih0 path.tail l a b h

theorem OThread.step_full (v : Variant) (p : Policy) (st : St) (th : OThread) (path : List Bool)
    (l : Nat) (a b : Edge) (h : (th.step v p st true path).1 = .mk l a b) :
    isMiss st.store l a b = false := by
  unfold OThread.step at h
  cases hc : th.cur with
  | some t =>
    rw [hc] at h
    simp only at h
    rcases res?_cases t with ⟨r, rfl⟩ | rfl | hr
    · cases h
    · cases h
    · simp only [hr] at h; exact OTask.step_full v p st t path l a b h
  | none =>
    rw [hc] at h
    simp only at h
    cases hs : th.script with
    | nil => rw [hs] at h; cases h
    | cons c rest =>
      rw [hs] at h
      simp only at h
      have := startAct_erase th.hs c
      rw [h] at this
      cases this

theorem sweepLevel_count_le (s : Store) (roots : List Edge) (l : Nat) :
    (sweepLevel s roots l).count ≤ s.count := by
  have key : ∀ (f : Nat → Option Node → Option Node), (∀ i o, (f i o).isSome = true → o.isSome = true) →
      ∀ (xs : List (Option Node)),
      (xs.mapIdx f).countP Option.isSome ≤ xs.countP Option.isSome := by
    intro f hf xs
    induction xs generalizing f with
    | nil => simp
    | cons o os ih =>
      rw [List.mapIdx_cons, List.countP_cons, List.countP_cons]
      have h1 := ih (fun i => f (i + 1)) (fun i o => hf (i + 1) o)
      have h2 := hf 0 o
      cases hfo : (f 0 o).isSome <;> cases ho : o.isSome <;> simp_all <;> omega
  simp only [Store.count, sweepLevel, ← Array.countP_toList, Array.toList_mapIdx]
  apply key
  intro i o h
  split at h
  · exact h
  · cases o with
    | none => simp [Option.filter] at h
    | some n => rfl

/-- **`capacity_respected`.** If the store starts within the capacity it stays within it at every
reachable configuration: a `get_or_insert` miss that finds the store full **does** fail (the
scheduler cannot let it succeed), and no other step adds a node. -/
theorem capacity_respected {p : Policy} (pok : p.OK) (cap : Nat) (c0 : OCfg)
    (ts0 : Nat → List (Option BDD)) (hinit : OInit c0 ts0) (sched : List OSel)
    (hcap : c0.rst.st.store.count ≤ cap) : (c0.run .ok p cap sched).rst.st.store.count ≤ cap := by
  have hG0 := oginv_init hinit
  generalize specOF c0 ts0 = F at hG0
  generalize specOB c0 ts0 = B at hG0
  clear hinit
  induction sched generalizing c0 B with
  | nil => exact hcap
  | cons s ss ih =>
    refine ih _ ?_ _ (OCfg.step_oginv pok cap hG0 s)
    cases s with
    | gcBegin => exact hcap
    | gcEnd => exact hcap
    | gcLevel l =>
      cases ha : c0.gcActive with
      | false => simpa [OCfg.step, ha] using hcap
      | true =>
        have e : c0.step .ok p cap (.gcLevel l) = { c0 with rst := Rc.gcLevel c0.rst l } := by
          simp [OCfg.step, ha]
        rw [e]
        show (Rc.gcLevel c0.rst l).st.store.count ≤ cap
        rw [gcLevel_eq_sweepLevel hG0.rc hG0.ord.ordered l]
        exact Nat.le_trans (sweepLevel_count_le _ _ l) hcap
    | thread tid path oom =>
      simp only [OCfg.step]
      cases ht : c0.threads[tid]? with
      | none => exact hcap
      | some th =>
        simp only
        generalize ha : (th.step .ok (effPol p c0.gcActive) c0.rst.st
          (fullNow cap c0.rst.st.store oom) path).1 = a
        rcases RAct.run_store a c0.rst with hs | ⟨l, x, y, hmk, hxy, hf, hs⟩
        · rw [hs]; exact hcap
        · rw [hs, count_alloc]
          by_cases hfull : cap ≤ c0.rst.st.store.count
          · exfalso
            have hfn : fullNow cap c0.rst.st.store oom = true := by simp [fullNow, hfull]
            rw [hfn, hmk] at ha
            have := OThread.step_full .ok _ c0.rst.st th path l x y ha
            simp [isMiss, hxy, hf] at this
          · omega

/-! ## negative witnesses: the two seeded defects of the parallel join -/

def exS : Store := ⟨#[some ⟨0, .term true, .term false⟩, some ⟨1, .term true, .term false⟩]⟩

/-- one thread, **parallel recursor** of split depth 1, handles `x0 = #0`, `x1 = #1` (counters `2`:
the table's reference and the handle), one binary operation -/
def exW (op : Op) : OCfg :=
  ⟨⟨⟨exS, [], 0⟩, #[2, 2]⟩,
   [⟨1, [some (.inner 0), some (.inner 1)], [.bin op 0 1], none, []⟩], false⟩

/-- the worker runs the then-branch of every join first -/
def schW (n : Nat) : List OSel := List.replicate n (.thread 0 [true] false)

/-- `x0 ⊕ x1` with capacity 2 (the store is full): the then-branch `⊤ ⊕ x1 = ¬x1` needs a node and
fails, the else-branch `⊥ ⊕ x1 = x1` returns a **clone** of `#1` (counter `3`). The unchanged join
releases it: when the operation has returned `Err(OutOfMemory)` the counters are `[2, 2]` again. -/
theorem join_ok_exact_xor :
    let c := (exW .xor).run .ok Policy.exact 2 (schW 16)
    c.allDone = true ∧ c.rst.rc = #[2, 2] ∧ c.threads.map (·.log) = [[true]] ∧
    c.threads.map (·.hs) = [[some (.inner 0), some (.inner 1), none]] ∧
    ((exW .xor).run .ok Policy.exact 2 (schW 13)).rst.rc = #[2, 3] := by decide +kernel

/-- **seeded defect 1** (`par` join returning on the first error without releasing the second
branch's result): the same run ends with `rc(#1) = 3` although only one handle and no parent refers
to `#1` — the clone made by the else-branch is leaked; `quiescent_exact_oom` fails. -/
theorem first_error_wins_leaks :
    let c := (exW .xor).run .firstErrNoRelease Policy.exact 2 (schW 16)
    c.allDone = true ∧ c.rst.rc = #[2, 3] ∧ handleCount c 1 = 1 ∧ parents c.rst.st.store 1 = 0 ∧
    rcGet c.rst.rc 1 ≠ 1 + handleCount c 1 + parents c.rst.st.store 1 := by decide +kernel

/-- `x0 ↔ x1` with capacity 2: the then-branch `⊤ ↔ x1 = x1` returns a clone of `#1`, the
else-branch `⊥ ↔ x1 = ¬x1` needs a node and fails. The unchanged join drops the then-guard. -/
theorem join_ok_exact_equiv :
    let c := (exW .equiv).run .ok Policy.exact 2 (schW 16)
    c.allDone = true ∧ c.rst.rc = #[2, 2] ∧ c.threads.map (·.log) = [[true]] := by decide +kernel

/-- **seeded defect 2** (then-branch result not wrapped in an `EdgeDropGuard`): when only the
else-branch fails the then-result is lost: `rc(#1) = 3` with one handle and no parent. -/
theorem then_guard_missing_leaks :
    let c := (exW .equiv).run .noThenGuard Policy.exact 2 (schW 16)
    c.allDone = true ∧ c.rst.rc = #[2, 3] ∧ handleCount c 1 = 1 ∧ parents c.rst.st.store 1 = 0 ∧
    rcGet c.rst.rc 1 ≠ 1 + handleCount c 1 + parents c.rst.st.store 1 := by decide +kernel

/-- **seeded defect 3** (`C05-oom-leaks-children`, here under the parallel recursor): `x0 ∧ x1` with
capacity 2 — both branches succeed (`x1` cloned, `⊥`), the `get_or_insert` of the root fails; a
failing `add_node` that does not release the children of the rejected node leaves `rc(#1) = 3`;
the unchanged code ends with `[2, 2]`. -/
theorem oom_leaks_children_leaks :
    let c := (exW .and).run .oomLeaksChildren Policy.exact 2 (schW 16)
    c.allDone = true ∧ c.rst.rc = #[2, 3] ∧ handleCount c 1 = 1 ∧ parents c.rst.st.store 1 = 0 ∧
    ((exW .and).run .ok Policy.exact 2 (schW 16)).rst.rc = #[2, 2] ∧
    ((exW .and).run .ok Policy.exact 2 (schW 16)).allDone = true := by decide +kernel

/-- the leak survives a full collection and a drop of all handles: with defect 1 the node `#1`
can never be freed again (the manager does not return to its initial node count) -/
theorem first_error_wins_leak_is_permanent :
    let c := (exW .xor).run .firstErrNoRelease Policy.exact 2
      (schW 16 ++ fullGc 2)
    c.rst.st.store.get? 1 = some ⟨1, .term true, .term false⟩ ∧ c.rst.rc = #[2, 3] := by
  decide +kernel

/-! ## non-vacuity: two threads, the parallel recursor, failures by exhaustion and by choice -/

def exX0 : BDD := .node 0 (.leaf true) (.leaf false)
def exX1 : BDD := .node 1 (.leaf true) (.leaf false)

/-- thread 0 (parallel recursor, split depth 1): `x0 ⊕ x1` twice, then `x0 ∧ x1`; thread 1
(sequential): `x1 ↔ x0`, drop the result, `x0 ∨ x1`. Counters `3`: the table's reference and one
handle per thread. -/
def exO : OCfg :=
  ⟨⟨⟨exS, [], 0⟩, #[3, 3]⟩,
   [⟨1, [some (.inner 0), some (.inner 1)], [.bin .xor 0 1, .bin .xor 0 1, .bin .and 0 1], none, []⟩,
    ⟨0, [some (.inner 0), some (.inner 1)], [.bin .equiv 1 0, .drop 2, .bin .or 0 1], none, []⟩],
   false⟩

def exTs : Nat → List (Option BDD) := fun _ => [some exX0, some exX1]

theorem exS_get (i : Nat) : exS.get? i =
    match i with
    | 0 => some ⟨0, .term true, .term false⟩
    | 1 => some ⟨1, .term true, .term false⟩
    | _ => none := by
  match i with
  | 0 => rfl
  | 1 => rfl
  | i + 2 => simp [Store.get?, exS]

theorem exS_x0 : Denotes exS (.inner 0) exX0 := .inner (exS_get 0) .term .term
theorem exS_x1 : Denotes exS (.inner 1) exX1 := .inner (exS_get 1) .term .term

theorem exOInit : OInit exO exTs where
  unique := by
    intro i j n hi hj
    change exS.get? i = some n at hi
    change exS.get? j = some n at hj
    rw [exS_get] at hi hj
    match i, j with
    | 0, 0 => rfl
    | 1, 1 => rfl
    | 0, 1 => simp only [Option.some.injEq] at hi hj; rw [← hi] at hj; cases hj
    | 1, 0 => simp only [Option.some.injEq] at hi hj; rw [← hi] at hj; cases hj
    | i + 2, _ => cases hi
    | 0, j + 2 => cases hj
    | 1, j + 2 => cases hj
  cache := CacheOK.nil _
  nogc := fun h => by cases h
  idle := by
    intro i th hi
    match i, hi with
    | 0, hi => cases hi; exact ⟨rfl, rfl⟩
    | 1, hi => cases hi; exact ⟨rfl, rfl⟩
  handles := by
    have h : HsDen exS [some (.inner 0), some (.inner 1)] [some exX0, some exX1] := by
      refine ⟨rfl, fun i => ?_⟩
      match i with
      | 0 => exact exS_x0
      | 1 => exact exS_x1
      | i + 2 => trivial
    intro i th hi
    match i, hi with
    | 0, hi => cases hi; exact h
    | 1, hi => cases hi; exact h
  rc := {
    ext_ok := by
      intro e he
      have : e = .inner 0 ∨ e = .inner 1 := by
        simp [OCfg.ext, exO, OThread.owned, OThread.handles] at he
        rcases he with h | h | h | h <;> simp [h]
      rcases this with rfl | rfl
      · exact ⟨_, exS_get 0⟩
      · exact ⟨_, exS_get 1⟩
    kids_ok := by
      intro i n hi
      change exS.get? i = some n at hi
      rw [exS_get] at hi
      match i with
      | 0 => cases hi; exact ⟨trivial, trivial⟩
      | 1 => cases hi; exact ⟨trivial, trivial⟩
      | i + 2 => cases hi
    cache_ok := fun _ _ h => by cases h
    rc_eq := by
      intro i n hi
      change exS.get? i = some n at hi
      rw [exS_get] at hi
      match i with
      | 0 => decide +kernel
      | 1 => decide +kernel
      | i + 2 => cases hi }
  ord := by
    intro i n hi
    change exS.get? i = some n at hi
    show ∃ T, Denotes exS (Edge.inner i) T ∧ Ordered 0 T
    rw [exS_get] at hi
    match i with
    | 0 => exact ⟨exX0, exS_x0, .node (Nat.le_refl _) .leaf .leaf⟩
    | 1 => exact ⟨exX1, exS_x1, .node (Nat.zero_le _) .leaf .leaf⟩
    | i + 2 => cases hi

def s0 (path : List Bool) (oom : Bool) : OSel := .thread 0 path oom
def s1 (oom : Bool) : OSel := .thread 1 [] oom

/-- capacity 5. Thread 1 computes `x1 ↔ x0` (two new nodes `#2 = ¬x1`, `#3`) and drops the result.
Thread 0 computes `x0 ⊕ x1` with the parallel recursor; its else-branch returns a clone of `#1`, its
then-branch gets `#2` from the cache, and the `get_or_insert` of the root **fails by the
scheduler's choice although a slot is free** (4 of 5 in use): `fail [#2, #1]`. -/
def exMid : List OSel := List.replicate 17 (s1 false) ++ List.replicate 8 (s0 [false] true)

/-- … the error path releases `#2` and `#1`, the error is delivered (log `[true]`); thread 0 repeats
`x0 ⊕ x1`, now it succeeds (`#4`, the store is full); thread 1's `x0 ∨ x1` and thread 0's `x0 ∧ x1`
each need one more node and **must** fail (`cap ≤ count`). -/
def exSched : List OSel :=
  List.replicate 17 (s1 false) ++ List.replicate 10 (s0 [false] true) ++
  List.replicate 13 (s0 [true] false) ++ List.replicate 10 (s1 false) ++
  List.replicate 12 (s0 [true] false)

/-- in the middle of the error path: `#1` is still to be released and is counted
(`rc(#1) = 5` = table + 2 handles + parent `#3` + the pending release) -/
example : (exO.run .ok Policy.exact 5 exMid).threads.map (·.cur) = [some (.fail [.inner 1]), none] ∧
    (exO.run .ok Policy.exact 5 exMid).rst.rc = #[3, 5, 2, 1] ∧
    ownedCount (exO.run .ok Policy.exact 5 exMid) 1 = 1 ∧
    (exO.run .ok Policy.exact 5 exMid).rst.st.store.count = 4 := by decide +kernel

/-- at the end: failed and successful operations in both threads; the counters are exact
(`#1`: table + 2 handles + parents `#3`, `#4` = 5; `#3` is garbage with `rc = 1`) -/
example : (exO.run .ok Policy.exact 5 exSched).threads.map (·.log) =
      [[true, false, true], [false, false, true]] ∧
    (exO.run .ok Policy.exact 5 exSched).threads.map (·.hs) =
      [[some (.inner 0), some (.inner 1), none, some (.inner 4), none],
       [some (.inner 0), some (.inner 1), none, none]] ∧
    (exO.run .ok Policy.exact 5 exSched).rst.rc = #[3, 5, 3, 1, 2] ∧
    ((exO.run .ok Policy.exact 5 exSched).run .ok Policy.exact 5 (fullGc 2)).rst.st.store.nodes.map
      (·.isSome) = #[true, true, true, false, true] := by decide +kernel

theorem exDone : (exO.run .ok Policy.exact 5 exSched).allDone = true := by decide +kernel

/-- the theorems apply to these runs (all hypotheses are satisfiable) -/
example := rc_invariant_interleaved_oom Policy.exact_ok 5 exO exTs exOInit exMid
example := failed_op_releases_everything Policy.exact_ok 5 exO exTs exOInit
  (List.replicate 17 (s1 false) ++ List.replicate 9 (s0 [false] true)) 0 _ (.fail []) rfl
  (by decide +kernel) rfl
example := quiescent_exact_oom Policy.exact_ok 5 exO exTs exOInit exSched exDone
example := full_gc_exact_oom Policy.exact_ok 5 exO exTs exOInit exSched exDone 2
example := successful_ops_still_correct Policy.exact_ok 5 exO exTs exOInit exSched exDone
example := no_use_after_free_oom Policy.exact_ok 5 exO exTs exOInit exMid 0 _ rfl
example := acts_on_stored_oom Policy.exact_ok 5 exO exTs exOInit exMid 0 [false] true _ rfl
example := handles_untouched_by_failure Policy.exact_ok 5 exO exTs exOInit exSched 0 1 _
  (.inner 1) exX1 rfl rfl (by intro c hc; simp at hc; rcases hc with rfl | rfl | rfl <;> simp) exS_x1
example := capacity_respected Policy.exact_ok 5 exO exTs exOInit exSched (by decide +kernel)
/-- the (generous) bound of thread 1 of the example is 2283 own steps; a schedule selecting it 2284
times, every allocation failing -/
example : sbF [Threads.Cmd.bin .equiv 1 0, .drop 2, .bin .or 0 1] (exTs 1) = 2283 := by
  decide +kernel
example := every_thread_terminates_oom Policy.exact_ok 5 exO exTs exOInit
  (List.replicate 2284 (s1 true)) 1 _ rfl (by decide +kernel)

/-- a thread without failures next to a failing one gets the sequential results -/
def exO' : OCfg :=
  ⟨⟨⟨exS, [], 0⟩, #[3, 3]⟩,
   [⟨1, [some (.inner 0), some (.inner 1)], [.bin .xor 0 1], none, []⟩,
    ⟨0, [some (.inner 0), some (.inner 1)], [.bin .equiv 1 0], none, []⟩], false⟩

theorem exOInit' : OInit exO' exTs where
  unique := exOInit.unique
  cache := exOInit.cache
  nogc := fun h => by cases h
  idle := by
    intro i th hi
    match i, hi with
    | 0, hi => cases hi; exact ⟨rfl, rfl⟩
    | 1, hi => cases hi; exact ⟨rfl, rfl⟩
  handles := by
    intro i th hi
    match i, hi with
    | 0, hi => cases hi; exact exOInit.handles 0 (exO.threads[0]) rfl
    | 1, hi => cases hi; exact exOInit.handles 1 (exO.threads[1]) rfl
  rc := ⟨exOInit.rc.ext_ok, exOInit.rc.kids_ok, exOInit.rc.cache_ok, exOInit.rc.rc_eq⟩
  ord := exOInit.ord

def exSched' : List OSel := List.replicate 16 (s1 false) ++ List.replicate 10 (s0 [false] true)

theorem exDone' : (exO'.run .ok Policy.exact 5 exSched').allDone = true ∧
    (exO'.run .ok Policy.exact 5 exSched').threads.map (·.log) = [[true], [false]] := by
  decide +kernel

example := no_failure_sequential_result Policy.exact_ok 5 exO' exTs exOInit' exSched' exDone'.1 1 _ _
  rfl rfl (by decide +kernel)


/-! ## the new machine is a conservative extension of `RThreads.lean` -/

/-- **`oom_free_run_is_rthreads_run`.** For every variant of the join, every policy, every capacity:
a run in which the scheduler never asks for a failing allocation and the store never reaches the
capacity (`Roomy`) is, step by step, the run of the machine of `RThreads.lean` /
`PropertiesC07R.lean` under the same schedule — same store, cache, time stamp **and counters**,
same handles, same continuations (`Emb`). The step function of `RThreadsOom.lean` differs from the
one the C07 theorems are about on error paths only. -/
theorem oom_free_run_is_rthreads_run (v : Variant) (p : Policy) (cap : Nat) (r : RCfg)
    (sched : List OSel) (hroom : Roomy v p cap (embC r) sched) :
    Emb ((embC r).run v p cap sched) (r.run p (sched.map OSel.toR)) :=
  roomy_run_is_rthreads_run v p cap sched (emb_embC r) hroom

/-- non-vacuity: the two-thread example of `PropertiesC07R.lean`, capacity 10 -/
example := oom_free_run_is_rthreads_run .ok Policy.exact 10 C07R.exR
  [.thread 0 [true] false, .thread 1 [] false, .gcBegin, .thread 0 [true] false]
  ⟨⟨rfl, by decide +kernel⟩, ⟨rfl, by decide +kernel⟩, trivial, ⟨rfl, by decide +kernel⟩, trivial⟩

end OxiddModel.Bdd.C14P
