import OxiddModel.Bdd.ThresholdQ

/-!
# C14 — exact out-of-memory thresholds of `quant`, `apply_quant`, `restrict`, `substitute`

For the capacity-bounded algorithms of `ThresholdQ.lean` (`quantC`, `applyQuantC`, `restrictC`,
`substituteEdgeC` = `substitute_prepare` + `substitute`) the same exact prediction holds as for
the connectives (`PropertiesC14T.lean`): with `needed` := growth of the uncapped run **with the same
policy and the same cache** (`neededQuant` …; no capacity in the definition),

  the capped run reports OutOfMemory  ⇔  `0 < needed ∧ cap < count + needed`,

so `count + needed` is exactly the minimal capacity, all smaller capacities fail, all larger ones
succeed with the uncapped result and final state, and afterwards the store holds `count + needed`
nodes (`cap` after a failure). No hypotheses: every policy, cache, store, operand, fuel.

Here `needed` is *not* a function of the result tree: these operations create intermediate
results that are garbage afterwards (`garbage_example`: `∃x0 x1. f` needs 2 nodes although its
result `⊤` needs none), and a warm cache can save them (`warm_cache_saves`: with the top-level entry
cached the same call needs 0). In the library a cache entry never outlives the nodes its
computation created (`gc` clears the apply cache before it frees nodes), so at every point reachable
by the API the cache is *saturated* and `needed` is the no-cache value; the stream `c14-threshold`
checks exactly that on the real code (the model runs with `Policy.exact`, the real manager with
direct-mapped caches of 16, 64 and 1024 entries).
-/
namespace OxiddModel.Bdd.C14T
open OxiddModel.Bdd OxiddModel.Bdd.BDD OxiddModel.Bdd.Refine

/-! ## `quant::<Q>` -/

/-- **`quant_oom_iff_needed`.** -/
theorem quant_oom_iff_needed (cap : Nat) (p : Policy) (q : Quant) (af fuel : Nat) (st : St)
    (f vars : Edge) :
    (quantC cap p q af fuel st f vars).1 = none ↔
      0 < neededQuant p q af fuel st f vars ∧ cap < st.store.count + neededQuant p q af fuel st f vars :=
  (quantC_both cap p q af fuel st f vars).oom_iff

/-- **`quant_threshold_exact`.** `count + needed` is the minimal capacity. -/
theorem quant_threshold_exact (p : Policy) (q : Quant) (af fuel : Nat) (st : St) (f vars : Edge) :
    let k := st.store.count + neededQuant p q af fuel st f vars
    (∀ cap, st.store.count ≤ cap → cap < k → (quantC cap p q af fuel st f vars).1 = none) ∧
    (∀ cap, k ≤ cap → quantC cap p q af fuel st f vars =
      (some (quantS p q af fuel st f vars).2, (quantS p q af fuel st f vars).1)) :=
  BothG.threshold (RCf := fun cap => quantC cap p q af fuel st f vars)
    (fun cap => quantC_both cap p q af fuel st f vars)

theorem quant_final_count (cap : Nat) (p : Policy) (q : Quant) (af fuel : Nat) (st : St)
    (f vars : Edge) (hc : st.store.count ≤ cap) :
    (quantC cap p q af fuel st f vars).2.store.count =
      if (quantC cap p q af fuel st f vars).1 = none then cap
      else st.store.count + neededQuant p q af fuel st f vars :=
  (quantC_both cap p q af fuel st f vars).final_count hc

/-! ## `apply_quant::<Q, OP>` -/

theorem applyQuant_oom_iff_needed (cap : Nat) (p : Policy) (q : Quant) (op : Op) (af fuel : Nat)
    (st : St) (f g vars : Edge) :
    (applyQuantC cap p q op af fuel st f g vars).1 = none ↔
      0 < neededApplyQuant p q op af fuel st f g vars ∧
      cap < st.store.count + neededApplyQuant p q op af fuel st f g vars :=
  (applyQuantC_both cap p q op af fuel st f g vars).oom_iff

theorem applyQuant_threshold_exact (p : Policy) (q : Quant) (op : Op) (af fuel : Nat) (st : St)
    (f g vars : Edge) :
    let k := st.store.count + neededApplyQuant p q op af fuel st f g vars
    (∀ cap, st.store.count ≤ cap → cap < k → (applyQuantC cap p q op af fuel st f g vars).1 = none) ∧
    (∀ cap, k ≤ cap → applyQuantC cap p q op af fuel st f g vars =
      (some (applyQuantS p q op af fuel st f g vars).2, (applyQuantS p q op af fuel st f g vars).1)) :=
  BothG.threshold (RCf := fun cap => applyQuantC cap p q op af fuel st f g vars)
    (fun cap => applyQuantC_both cap p q op af fuel st f g vars)

/-! ## `restrict` -/

theorem restrict_oom_iff_needed (cap : Nat) (p : Policy) (fuel : Nat) (st : St) (f vars : Edge) :
    (restrictC cap p fuel st f vars).1 = none ↔
      0 < neededRestrict p fuel st f vars ∧ cap < st.store.count + neededRestrict p fuel st f vars :=
  (restrictC_both cap p fuel st f vars).oom_iff

theorem restrict_threshold_exact (p : Policy) (fuel : Nat) (st : St) (f vars : Edge) :
    let k := st.store.count + neededRestrict p fuel st f vars
    (∀ cap, st.store.count ≤ cap → cap < k → (restrictC cap p fuel st f vars).1 = none) ∧
    (∀ cap, k ≤ cap → restrictC cap p fuel st f vars =
      (some (restrictS p fuel st f vars).2, (restrictS p fuel st f vars).1)) :=
  BothG.threshold (RCf := fun cap => restrictC cap p fuel st f vars)
    (fun cap => (restrictC_both cap p fuel st f vars).toG)

/-! ## `substitute_edge` (preparation phase included) -/

theorem subst_oom_iff_needed (cap : Nat) (p : Policy) (pairs : List (Nat × Edge)) (id : Nat)
    (af fuel : Nat) (st : St) (f : Edge) :
    (substituteEdgeC cap p pairs id af fuel st f).1 = none ↔
      0 < neededSubst p pairs id af fuel st f ∧
      cap < st.store.count + neededSubst p pairs id af fuel st f :=
  (substituteEdgeC_both cap p pairs id af fuel st f).oom_iff

theorem subst_threshold_exact (p : Policy) (pairs : List (Nat × Edge)) (id : Nat) (af fuel : Nat)
    (st : St) (f : Edge) :
    let k := st.store.count + neededSubst p pairs id af fuel st f
    (∀ cap, st.store.count ≤ cap → cap < k → (substituteEdgeC cap p pairs id af fuel st f).1 = none) ∧
    (∀ cap, k ≤ cap → substituteEdgeC cap p pairs id af fuel st f =
      (some (substituteEdgeS p pairs id af fuel st f).2, (substituteEdgeS p pairs id af fuel st f).1)) :=
  BothG.threshold (RCf := fun cap => substituteEdgeC cap p pairs id af fuel st f)
    (fun cap => substituteEdgeC_both cap p pairs id af fuel st f)

/-- on an error of any of the four operations the store is only extended, stays hash-consed and
within the capacity, and is exactly full: the error is never spurious -/
theorem quant_error_clean (cap : Nat) (p : Policy) (q : Quant) (af fuel : Nat) (st : St)
    (f vars : Edge) (hu : st.store.Unique) (hc : st.store.count ≤ cap)
    (herr : (quantC cap p q af fuel st f vars).1 = none) :
    st.store.Le (quantC cap p q af fuel st f vars).2.store ∧
    (quantC cap p q af fuel st f vars).2.store.Unique ∧
    (quantC cap p q af fuel st f vars).2.store.count = cap ∧
    (∀ x t, Denotes st.store x t → Denotes (quantC cap p q af fuel st f vars).2.store x t) := by
  have h := quantC_both cap p q af fuel st f vars
  exact ⟨h.le, h.uniq hu, Nat.le_antisymm (h.bound hc) (h.err herr), fun _ _ d => d.mono h.le⟩

/-! ## non-vacuity: garbage, and what a warm cache saves -/

/-- levels 0..3; `f = ite(x0, ite(x1, x2, x3), ite(x1, x2, ¬x3))` is #5, the variable set
`{x0, x1}` (the cube `x0 ∧ x1`) is #7; 8 nodes -/
def qStore : Store :=
  ⟨#[some ⟨2, .term true, .term false⟩, some ⟨3, .term true, .term false⟩,
     some ⟨1, .inner 0, .inner 1⟩, some ⟨3, .term false, .term true⟩,
     some ⟨1, .inner 0, .inner 3⟩, some ⟨0, .inner 2, .inner 4⟩,
     some ⟨1, .term true, .term false⟩, some ⟨0, .inner 6, .term false⟩]⟩

/-- **`garbage_example`.** `∃ x0 x1. f = ⊤` — the result needs no node, but the run creates
`x2 ∨ x3` and `x2 ∨ ¬x3` (the quantified cofactors), which are garbage afterwards: `needed = 2`,
with or without a cache. Capacity 9 (one free slot) fails, capacity 10 succeeds. -/
theorem garbage_example :
    (quantS Policy.exact .exists_ 100 100 ⟨qStore, [], 0⟩ (.inner 5) (.inner 7)).2 = .term true ∧
    neededQuant Policy.exact .exists_ 100 100 ⟨qStore, [], 0⟩ (.inner 5) (.inner 7) = 2 ∧
    neededQuant Policy.none .exists_ 100 100 ⟨qStore, [], 0⟩ (.inner 5) (.inner 7) = 2 ∧
    (quantC 9 Policy.exact .exists_ 100 100 ⟨qStore, [], 0⟩ (.inner 5) (.inner 7)).1 = none ∧
    (quantC 10 Policy.exact .exists_ 100 100 ⟨qStore, [], 0⟩ (.inner 5) (.inner 7)).1 =
      some (.term true) := by
  decide +kernel

/-- the same two facts as instances of `quant_threshold_exact` (hypotheses satisfiable) -/
example : (quantC 9 Policy.exact .exists_ 100 100 ⟨qStore, [], 0⟩ (.inner 5) (.inner 7)).1 = none :=
  (quant_threshold_exact Policy.exact .exists_ 100 100 ⟨qStore, [], 0⟩ (.inner 5) (.inner 7)).1 9
    (by decide +kernel) (by decide +kernel)

/-- **`warm_cache_saves`.** With the (sound) top-level entry in the cache the same call allocates
nothing and succeeds on a completely full store: `needed` depends on the cache for these
operations, and a cache can only save allocations here (2 without, 0 with). -/
theorem warm_cache_saves :
    neededQuant Policy.exact .exists_ 100 100
      ⟨qStore, [(encKey (quantKey .exists_ (.inner 5) (.inner 7)), .term true)], 0⟩
      (.inner 5) (.inner 7) = 0 ∧
    (quantC 8 Policy.exact .exists_ 100 100
      ⟨qStore, [(encKey (quantKey .exists_ (.inner 5) (.inner 7)), .term true)], 0⟩
      (.inner 5) (.inner 7)).1 = some (.term true) := by
  decide +kernel

/-- monotone and exact over all capacities 8..12 on the example -/
example : (List.range 5).map (fun c =>
      (quantC (8 + c) Policy.exact .exists_ 100 100 ⟨qStore, [], 0⟩ (.inner 5) (.inner 7)).1.isSome) =
    [false, false, true, true, true] := by decide +kernel

/-- `substitute` on the same store: `f[x1 := x3]` (pairs `[(1, #1)]`): the preparation phase alone
creates the variable node of level 0; thresholds as predicted -/
example :
    neededSubst Policy.exact [(1, .inner 1)] 0 100 100 ⟨qStore, [], 0⟩ (.inner 5) =
      growth qStore (substituteEdgeS Policy.exact [(1, .inner 1)] 0 100 100 ⟨qStore, [], 0⟩ (.inner 5)) ∧
    (List.range 8).map (fun c =>
      (substituteEdgeC (8 + c) Policy.exact [(1, .inner 1)] 0 100 100 ⟨qStore, [], 0⟩ (.inner 5)).1.isSome) =
    (List.range 8).map (fun c =>
      decide (neededSubst Policy.exact [(1, .inner 1)] 0 100 100 ⟨qStore, [], 0⟩ (.inner 5) ≤ c)) ∧
    0 < neededSubst Policy.exact [(1, .inner 1)] 0 100 100 ⟨qStore, [], 0⟩ (.inner 5) := by
  decide +kernel

/-- `restrict` and `apply_quant` on the same store -/
example :
    (List.range 6).map (fun c =>
      (restrictC (8 + c) Policy.exact 100 ⟨qStore, [], 0⟩ (.inner 5) (.inner 6)).1.isSome) =
    (List.range 6).map (fun c =>
      decide (neededRestrict Policy.exact 100 ⟨qStore, [], 0⟩ (.inner 5) (.inner 6) ≤ c)) ∧
    (List.range 6).map (fun c =>
      (applyQuantC (8 + c) Policy.exact .forall_ .xor 100 100 ⟨qStore, [], 0⟩ (.inner 2) (.inner 4)
        (.inner 6)).1.isSome) =
    (List.range 6).map (fun c =>
      decide (neededApplyQuant Policy.exact .forall_ .xor 100 100 ⟨qStore, [], 0⟩ (.inner 2) (.inner 4)
        (.inner 6) ≤ c)) := by
  decide +kernel

end OxiddModel.Bdd.C14T
