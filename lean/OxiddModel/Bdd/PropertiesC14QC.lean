import OxiddModel.Bdd.ThresholdClosed
import OxiddModel.Bdd.PropertiesC14Q

/-!
# C14 — thresholds of `restrict`, `quant`, `substitute` independent of the cache the library can have

`PropertiesC14Q.lean`: OutOfMemory ⇔ fewer than `needed` slots are free, with `needed` the growth
of the uncapped run with the *same* policy and cache, and `warm_cache_saves`: for `quant` an
arbitrary sound cache can make `needed` smaller. Here:

* `restrict_oom_iff_fresh`: `restrict` behaves like the connectives — for every admissible policy
  and every sound cache `needed = fresh store (restrict a v)`;
* `quant_needed_closed`, `quant_needed_cache_independent`, `quant_oom_iff_fresh`: from every
  **closed** cache (`ClosedX`: each entry's intermediate results are still stored — the empty
  cache, and every cache reachable through the library's API, because only `gc` removes nodes and
  `gc` clears the cache first) `needed = freshQuant store q a v`, a function of the store and the
  operand trees: the same for an exact cache, a direct-mapped cache with any hash, size and lock
  failures, and no cache. This is what licenses comparing the model driver (exact cache) with
  the real manager (direct-mapped caches) in the stream `c14-threshold`;
* `subst_needed_closed`: the same for `substitute` after its preparation phase.

Not covered: `apply_quant` (its intermediate results are not tracked by `ClosedX`), and the
inequality `needed(sound cache) ≤ needed(closed cache)` for caches that are sound but not closed
(unreachable in the library; `warm_cache_saves` is an instance).
-/
namespace OxiddModel.Bdd.C14T
open OxiddModel.Bdd OxiddModel.Bdd.BDD OxiddModel.Bdd.Refine

/-- **`restrict_oom_iff_fresh`.** For every admissible policy and every sound cache: `restrict`
runs out of memory iff fewer slots are free than the result has nodes that are not stored. -/
theorem restrict_oom_iff_fresh {p : Policy} (pok : p.OK) (reg : Nat → List BDD) (cap fuel : Nat)
    (st : St) (f vars : Edge) (a v : BDD) (hu : st.store.Unique)
    (hc : CacheOKX reg st.store st.cache) (hr : st.store.NoRed) (hf : Denotes st.store f a)
    (hv : Denotes st.store vars v) (hfuel : a.size + v.size ≤ fuel) (hcap : st.store.count ≤ cap) :
    (restrictC cap p fuel st f vars).1 = none ↔
      cap - st.store.count < fresh st.store (restrict a v) := by
  rw [(restrictC_both cap p fuel st f vars).oom_iff_free hcap]
  show cap - st.store.count < neededRestrict p fuel st f vars ↔ _
  rw [neededRestrict_eq pok reg fuel st f vars a v ⟨hu, hc⟩ hr hf hv hfuel]

/-- **`quant_needed_closed`.** From a closed (and sound) cache `needed` of `quant` is
`freshQuant`: determined by the store and the operand trees. -/
theorem quant_needed_closed {p : Policy} (pok : p.OK) (reg : Nat → List BDD) (q : Quant)
    (af fuel : Nat) (st : St) (f vars : Edge) (a v : BDD) (hu : st.store.Unique)
    (hc : CacheOKX reg st.store st.cache) (hcl : ClosedX reg st.store st.cache)
    (hr : st.store.NoRed) (hf : Denotes st.store f a) (hv : Denotes st.store vars v)
    (hsz : a.size ≤ fuel) (hneed : quantNeed q a v ≤ af) :
    neededQuant p q af fuel st f vars = freshQuant st.store q a v :=
  neededQuant_closed pok reg q af fuel st f vars a v ⟨hu, hc⟩ hcl hr hf hv hsz hneed

/-- **`quant_needed_cache_independent`.** Two runs of `quant` from the same store with different
admissible policies, different closed caches, time stamps and (sufficient) fuels need the same
number of nodes — e.g. the model driver's exact cache, the library's direct-mapped cache and no
cache at all. -/
theorem quant_needed_cache_independent {p p' : Policy} (pok : p.OK) (pok' : p'.OK)
    (reg : Nat → List BDD) (q : Quant) (af af' fuel fuel' : Nat) (st st' : St) (f vars : Edge)
    (a v : BDD) (hs : st'.store = st.store) (hu : st.store.Unique) (hr : st.store.NoRed)
    (hc : CacheOKX reg st.store st.cache) (hcl : ClosedX reg st.store st.cache)
    (hc' : CacheOKX reg st.store st'.cache) (hcl' : ClosedX reg st.store st'.cache)
    (hf : Denotes st.store f a) (hv : Denotes st.store vars v) (hsz : a.size ≤ fuel)
    (hsz' : a.size ≤ fuel') (hneed : quantNeed q a v ≤ af) (hneed' : quantNeed q a v ≤ af') :
    neededQuant p q af fuel st f vars = neededQuant p' q af' fuel' st' f vars := by
  rw [quant_needed_closed pok reg q af fuel st f vars a v hu hc hcl hr hf hv hsz hneed,
    quant_needed_closed pok' reg q af' fuel' st' f vars a v (hs ▸ hu) (hs ▸ hc') (hs ▸ hcl')
      (hs ▸ hr) (hs ▸ hf) (hs ▸ hv) hsz' hneed', hs]

/-- **`quant_oom_iff_fresh`.** The prediction for `quant` in terms of the store and the operand
trees: from a closed cache it runs out of memory iff fewer than `freshQuant` slots are free. -/
theorem quant_oom_iff_fresh {p : Policy} (pok : p.OK) (reg : Nat → List BDD) (cap : Nat) (q : Quant)
    (af fuel : Nat) (st : St) (f vars : Edge) (a v : BDD) (hu : st.store.Unique)
    (hc : CacheOKX reg st.store st.cache) (hcl : ClosedX reg st.store st.cache)
    (hr : st.store.NoRed) (hf : Denotes st.store f a) (hv : Denotes st.store vars v)
    (hsz : a.size ≤ fuel) (hneed : quantNeed q a v ≤ af) (hcap : st.store.count ≤ cap) :
    (quantC cap p q af fuel st f vars).1 = none ↔ cap - st.store.count < freshQuant st.store q a v := by
  rw [(quantC_both cap p q af fuel st f vars).oom_iff_free hcap]
  show cap - st.store.count < neededQuant p q af fuel st f vars ↔ _
  rw [quant_needed_closed pok reg q af fuel st f vars a v hu hc hcl hr hf hv hsz hneed]

/-- **`subst_needed_closed`.** The same for `substitute` (the recursion after
`substitute_prepare`; `reg id` are the trees of the prepared replacement vector). -/
theorem subst_needed_closed {p : Policy} (pok : p.OK) (reg : Nat → List BDD) (subst : List Edge)
    (id : Nat) (af fuel : Nat) (st : St) (f : Edge) (a : BDD) (hu : st.store.Unique)
    (hc : CacheOKX reg st.store st.cache) (hcl : ClosedX reg st.store st.cache)
    (hr : st.store.NoRed) (hsub : DenotesL st.store subst (reg id)) (hf : Denotes st.store f a)
    (hsz : a.size ≤ fuel) (hneed : substNeed (reg id) a ≤ af) :
    neededSubstS p subst id af fuel st f = freshSubst st.store (reg id) a :=
  neededSubstS_closed pok reg subst id af fuel st f a ⟨hu, hc⟩ hcl hr hsub hf hsz hneed

/-- `substitute` after its preparation: threshold from a closed cache -/
theorem subst_oom_iff_fresh {p : Policy} (pok : p.OK) (reg : Nat → List BDD) (cap : Nat)
    (subst : List Edge) (id : Nat) (af fuel : Nat) (st : St) (f : Edge) (a : BDD)
    (hu : st.store.Unique) (hc : CacheOKX reg st.store st.cache)
    (hcl : ClosedX reg st.store st.cache) (hr : st.store.NoRed)
    (hsub : DenotesL st.store subst (reg id)) (hf : Denotes st.store f a) (hsz : a.size ≤ fuel)
    (hneed : substNeed (reg id) a ≤ af) (hcap : st.store.count ≤ cap) :
    (substituteC cap p subst id af fuel st f).1 = none ↔
      cap - st.store.count < freshSubst st.store (reg id) a := by
  rw [(substituteC_both cap p subst id af fuel st f).oom_iff_free hcap]
  show cap - st.store.count < neededSubstS p subst id af fuel st f ↔ _
  rw [subst_needed_closed pok reg subst id af fuel st f a hu hc hcl hr hsub hf hsz hneed]

/-! ## non-vacuity on `qStore` (`PropertiesC14Q.lean`) -/

/-- `freshQuant` of the garbage example is 2 (the two quantified cofactors), although the result
`⊤` needs no node … -/
example : freshQuant qStore .exists_
      (.node 0 (.node 1 (.node 2 (.leaf true) (.leaf false)) (.node 3 (.leaf true) (.leaf false)))
               (.node 1 (.node 2 (.leaf true) (.leaf false)) (.node 3 (.leaf false) (.leaf true))))
      (.node 0 (.node 1 (.leaf true) (.leaf false)) (.leaf false)) = 2 ∧
    fresh qStore (.leaf true) = 0 := by decide +kernel

/-- … and equals `needed` for an exact cache, a one-bucket direct-mapped cache with failing locks
and no cache (all started from the empty, hence closed, cache) -/
example :
    neededQuant Policy.exact .exists_ 100 100 ⟨qStore, [], 0⟩ (.inner 5) (.inner 7) = 2 ∧
    neededQuant (Policy.dm 1 (fun _ => 0) (fun t => t % 3 != 0)) .exists_ 100 100 ⟨qStore, [], 5⟩
      (.inner 5) (.inner 7) = 2 ∧
    neededQuant Policy.none .exists_ 100 100 ⟨qStore, [], 0⟩ (.inner 5) (.inner 7) = 2 := by
  decide +kernel

end OxiddModel.Bdd.C14T
