import OxiddModel.Bdd.ThresholdS
import OxiddModel.Bdd.PropertiesC14

/-!
# C14 — the out-of-memory threshold is predicted exactly (`not`, binary operators, `ite`)

`PropertiesC14.lean` proves that an error is never spurious, that success is independent of the
capacity and monotone in it. This file closes the gap "thresholds are not predicted": for every
operation there is a number `needed` — defined without any reference to the capacity as the
growth of the *uncapped* run from the same state — such that

* `oom_iff_needed`: the capped run reports OutOfMemory **iff** `0 < needed ∧ cap < count + needed`
  (no hypotheses at all: any policy, cache, store, operands, fuel);
* `threshold_exact`: hence `count + needed` is *the* minimal capacity: every capacity below it
  (and ≥ the current count) fails, every capacity from it on succeeds with the uncapped result;
* `needed_eq_fresh` / `needed_cache_independent`: under the invariant, `needed` is
  `fresh store T` for the specified result tree `T` — the same for every admissible cache
  policy, every sound cache content and every sufficient fuel. (For these three algorithms a warm
  cache cannot save allocations: every node a sub-call creates is part of the caller's result.
  This is different for quantification, see `PropertiesC14Q.lean`.)
* `oom_iff_fresh`: so the prediction is a function of the store and the operand *trees* only:
  OutOfMemory iff fewer than `fresh store (applyBin op a b)` slots are free;
* `final_count`: after success exactly `needed` more slots are in use, after failure the store is
  exactly full.

The stream `c14-threshold` (protocol `c14t`, `DriverThreshold.lean`) runs these very functions
(`applyC`, `notC`, `iteC` with `Policy.exact`) beside the real index-based manager for every number
of free slots `0 … needed+1`.
-/
namespace OxiddModel.Bdd.C14T
open OxiddModel.Bdd OxiddModel.Bdd.BDD OxiddModel.Bdd.Refine

/-! ## `apply_bin::<OP>` -/

/-- **`oom_iff_needed`.** OutOfMemory iff the operation allocates at all and the capacity is below
`count + needed`. No hypotheses. -/
theorem oom_iff_needed (cap : Nat) (p : Policy) (op : Op) (fuel : Nat) (st : St) (f g : Edge) :
    (applyC cap p op fuel st f g).1 = none ↔
      0 < neededApply p op fuel st f g ∧ cap < st.store.count + neededApply p op fuel st f g :=
  (applyC_both cap p op fuel st f g).oom_iff

/-- **`oom_iff_free`.** In a store within its capacity: OutOfMemory iff fewer than `needed` slots
are free. -/
theorem oom_iff_free (cap : Nat) (p : Policy) (op : Op) (fuel : Nat) (st : St) (f g : Edge)
    (hc : st.store.count ≤ cap) :
    (applyC cap p op fuel st f g).1 = none ↔ cap - st.store.count < neededApply p op fuel st f g :=
  (applyC_both cap p op fuel st f g).oom_iff_free hc

/-- **`threshold_exact`.** `k = count + needed` is the minimal capacity at which the operation
succeeds: all capacities `count ≤ cap < k` fail, all capacities `≥ k` succeed, and then the result
and the final state are those of the uncapped run. (`needed` does not mention `cap`, so this
strengthens `C14.oom_monotone` to an exact, capacity-independent threshold.) -/
theorem threshold_exact (p : Policy) (op : Op) (fuel : Nat) (st : St) (f g : Edge) :
    let k := st.store.count + neededApply p op fuel st f g
    (∀ cap, st.store.count ≤ cap → cap < k → (applyC cap p op fuel st f g).1 = none) ∧
    (∀ cap, k ≤ cap →
      applyC cap p op fuel st f g = (some (applyS p op fuel st f g).2, (applyS p op fuel st f g).1)) := by
  intro k
  constructor
  · intro cap hc hk
    rw [oom_iff_free cap p op fuel st f g hc]
    omega
  · intro cap hk
    have hc : st.store.count ≤ cap := by omega
    apply ((applyC_both cap p op fuel st f g).ok_iff hc).mpr
    show neededApply p op fuel st f g ≤ cap - st.store.count
    omega

/-- the threshold as a single equivalence over all capacities at least the current count -/
theorem success_iff_capacity (cap : Nat) (p : Policy) (op : Op) (fuel : Nat) (st : St) (f g : Edge)
    (hc : st.store.count ≤ cap) :
    (applyC cap p op fuel st f g).1.isSome ↔
      st.store.count + neededApply p op fuel st f g ≤ cap := by
  have h := oom_iff_free cap p op fuel st f g hc
  cases hR : (applyC cap p op fuel st f g).1 with
  | none => rw [hR] at h; simp only [Option.isSome_none, Bool.false_eq_true, false_iff]; have := h.mp rfl; omega
  | some e =>
    rw [hR] at h
    simp only [Option.isSome_some, true_iff]
    have : ¬ (cap - st.store.count < neededApply p op fuel st f g) := fun x => by cases h.mpr x
    omega

/-- **`final_count`.** The number of nodes after the capped run: `cap` after a failure (the store
is exactly full), `count + needed` after a success. -/
theorem final_count (cap : Nat) (p : Policy) (op : Op) (fuel : Nat) (st : St) (f g : Edge)
    (hc : st.store.count ≤ cap) :
    (applyC cap p op fuel st f g).2.store.count =
      if (applyC cap p op fuel st f g).1 = none then cap
      else st.store.count + neededApply p op fuel st f g :=
  (applyC_both cap p op fuel st f g).final_count hc

/-- **`needed_eq_fresh`.** Under the invariant, `needed` is the number of nodes of the result tree
that the store does not hold: a function of the store and the result only. -/
theorem needed_eq_fresh {p : Policy} (pok : p.OK) (op : Op) (fuel : Nat) (st : St) (f g : Edge)
    (a b : BDD) (hu : st.store.Unique) (hc : CacheOK st.store st.cache) (hr : st.store.NoRed)
    (hf : Denotes st.store f a) (hg : Denotes st.store g b) (hfuel : a.size + b.size ≤ fuel) :
    neededApply p op fuel st f g = fresh st.store (applyBin op a b) :=
  neededApply_eq pok op fuel st f g a b ⟨hu, hc⟩ hr hf hg hfuel

/-- **`needed_cache_independent`.** Two runs from the same store with different cache policies,
different (sound) cache contents, different time stamps and different (sufficient) fuel need the
same number of nodes. -/
theorem needed_cache_independent {p p' : Policy} (pok : p.OK) (pok' : p'.OK) (op : Op)
    (fuel fuel' : Nat) (st st' : St) (f g : Edge) (a b : BDD) (hs : st'.store = st.store)
    (hu : st.store.Unique) (hr : st.store.NoRed) (hc : CacheOK st.store st.cache)
    (hc' : CacheOK st.store st'.cache) (hf : Denotes st.store f a) (hg : Denotes st.store g b)
    (hfuel : a.size + b.size ≤ fuel) (hfuel' : a.size + b.size ≤ fuel') :
    neededApply p op fuel st f g = neededApply p' op fuel' st' f g := by
  rw [needed_eq_fresh pok op fuel st f g a b hu hc hr hf hg hfuel,
    needed_eq_fresh pok' op fuel' st' f g a b (hs ▸ hu) (hs ▸ hc') (hs ▸ hr) (hs ▸ hf) (hs ▸ hg) hfuel',
    hs]

/-- **`oom_iff_fresh`.** The prediction in terms of the store and the operand trees alone:
OutOfMemory iff fewer slots are free than the result `applyBin op a b` has nodes that are not
stored yet — for every admissible policy and every sound cache. -/
theorem oom_iff_fresh {p : Policy} (pok : p.OK) (cap : Nat) (op : Op) (fuel : Nat) (st : St)
    (f g : Edge) (a b : BDD) (hu : st.store.Unique) (hc : CacheOK st.store st.cache)
    (hr : st.store.NoRed) (hf : Denotes st.store f a) (hg : Denotes st.store g b)
    (hfuel : a.size + b.size ≤ fuel) (hcap : st.store.count ≤ cap) :
    (applyC cap p op fuel st f g).1 = none ↔ cap - st.store.count < fresh st.store (applyBin op a b) := by
  rw [oom_iff_free cap p op fuel st f g hcap,
    needed_eq_fresh pok op fuel st f g a b hu hc hr hf hg hfuel]

/-! ## `apply_not` -/

theorem oom_iff_needed_not (cap : Nat) (p : Policy) (fuel : Nat) (st : St) (f : Edge) :
    (notC cap p fuel st f).1 = none ↔
      0 < neededNot p fuel st f ∧ cap < st.store.count + neededNot p fuel st f :=
  (notC_both cap p fuel st f).oom_iff

theorem threshold_exact_not (p : Policy) (fuel : Nat) (st : St) (f : Edge) :
    let k := st.store.count + neededNot p fuel st f
    (∀ cap, st.store.count ≤ cap → cap < k → (notC cap p fuel st f).1 = none) ∧
    (∀ cap, k ≤ cap → notC cap p fuel st f = (some (notS p fuel st f).2, (notS p fuel st f).1)) := by
  intro k
  constructor
  · intro cap hc hk
    rw [(notC_both cap p fuel st f).oom_iff_free hc]
    show cap - st.store.count < neededNot p fuel st f
    omega
  · intro cap hk
    have hc : st.store.count ≤ cap := by omega
    apply ((notC_both cap p fuel st f).ok_iff hc).mpr
    show neededNot p fuel st f ≤ cap - st.store.count
    omega

theorem final_count_not (cap : Nat) (p : Policy) (fuel : Nat) (st : St) (f : Edge)
    (hc : st.store.count ≤ cap) :
    (notC cap p fuel st f).2.store.count =
      if (notC cap p fuel st f).1 = none then cap else st.store.count + neededNot p fuel st f :=
  (notC_both cap p fuel st f).final_count hc

theorem oom_iff_fresh_not {p : Policy} (pok : p.OK) (cap : Nat) (fuel : Nat) (st : St) (f : Edge)
    (a : BDD) (hu : st.store.Unique) (hc : CacheOK st.store st.cache) (hr : st.store.NoRed)
    (hf : Denotes st.store f a) (hfuel : a.size ≤ fuel) (hcap : st.store.count ≤ cap) :
    (notC cap p fuel st f).1 = none ↔ cap - st.store.count < fresh st.store (applyNot a) := by
  rw [(notC_both cap p fuel st f).oom_iff_free hcap]
  show cap - st.store.count < neededNot p fuel st f ↔ _
  rw [neededNot_eq pok fuel st f a ⟨hu, hc⟩ hr hf hfuel]

/-! ## `apply_ite` -/

theorem oom_iff_needed_ite (cap : Nat) (p : Policy) (fuel : Nat) (st : St) (f g h : Edge) :
    (iteC cap p fuel st f g h).1 = none ↔
      0 < neededIte p fuel st f g h ∧ cap < st.store.count + neededIte p fuel st f g h :=
  (iteC_both cap p fuel st f g h).oom_iff

theorem threshold_exact_ite (p : Policy) (fuel : Nat) (st : St) (f g h : Edge) :
    let k := st.store.count + neededIte p fuel st f g h
    (∀ cap, st.store.count ≤ cap → cap < k → (iteC cap p fuel st f g h).1 = none) ∧
    (∀ cap, k ≤ cap →
      iteC cap p fuel st f g h = (some (iteS p fuel st f g h).2, (iteS p fuel st f g h).1)) := by
  intro k
  constructor
  · intro cap hc hk
    rw [(iteC_both cap p fuel st f g h).oom_iff_free hc]
    show cap - st.store.count < neededIte p fuel st f g h
    omega
  · intro cap hk
    have hc : st.store.count ≤ cap := by omega
    apply ((iteC_both cap p fuel st f g h).ok_iff hc).mpr
    show neededIte p fuel st f g h ≤ cap - st.store.count
    omega

theorem final_count_ite (cap : Nat) (p : Policy) (fuel : Nat) (st : St) (f g h : Edge)
    (hc : st.store.count ≤ cap) :
    (iteC cap p fuel st f g h).2.store.count =
      if (iteC cap p fuel st f g h).1 = none then cap
      else st.store.count + neededIte p fuel st f g h :=
  (iteC_both cap p fuel st f g h).final_count hc

theorem oom_iff_fresh_ite {p : Policy} (pok : p.OK) (cap : Nat) (fuel : Nat) (st : St)
    (f g h : Edge) (a b c : BDD) (hu : st.store.Unique) (hc : CacheOK st.store st.cache)
    (hr : st.store.NoRed) (hf : Denotes st.store f a) (hg : Denotes st.store g b)
    (hh : Denotes st.store h c) (hfuel : a.size + b.size + c.size ≤ fuel)
    (hcap : st.store.count ≤ cap) :
    (iteC cap p fuel st f g h).1 = none ↔
      cap - st.store.count < fresh st.store (applyIte a b c) := by
  rw [(iteC_both cap p fuel st f g h).oom_iff_free hcap]
  show cap - st.store.count < neededIte p fuel st f g h ↔ _
  rw [neededIte_eq pok fuel st f g h a b c ⟨hu, hc⟩ hr hf hg hh hfuel]

/-! ## bounds on `fresh` -/

/-- at most as many as the result has inner nodes; none if the result is stored already -/
theorem fresh_bounds (s : Store) (T : BDD) :
    fresh s T ≤ innerSize T ∧ (∀ x, s.Unique → s.NoRed → Denotes s x T → fresh s T = 0) :=
  ⟨fresh_le s T, fun _ hu hr h => fresh_of_denotes hu hr h⟩

/-! ## non-vacuity: a concrete store where capacity `k−1` fails and `k` succeeds -/

open OxiddModel.Bdd.C14 OxiddModel.Bdd.C06

/-- `(x0 ∧ x1) ⊕ (x0 ∨ x1)` in `exStore4` (4 nodes) needs exactly 2 fresh nodes … -/
example : neededApply Policy.exact .xor 10 ⟨exStore4, [], 0⟩ (.inner 1) (.inner 2) = 2 := by
  decide +kernel

/-- … which is `fresh` of the result tree (`needed_eq_fresh`, hypotheses satisfiable) … -/
example : neededApply Policy.exact .xor 10 ⟨exStore4, [], 0⟩ (.inner 1) (.inner 2) =
    fresh exStore4 (applyBin .xor exAnd exOr) :=
  needed_eq_fresh Policy.exact_ok .xor 10 ⟨exStore4, [], 0⟩ (.inner 1) (.inner 2) exAnd exOr
    exStore4_unique (CacheOK.nil _) exStore4_nored exStore4_and exStore4_or (by decide)

example : fresh exStore4 (applyBin .xor exAnd exOr) = 2 := by decide +kernel

/-- … the same without a cache, with a direct-mapped one-bucket cache whose lock fails at odd
times, and with a warm (sound) cache: `needed_cache_independent` -/
example : neededApply Policy.none .xor 10 ⟨exStore4, [], 0⟩ (.inner 1) (.inner 2) = 2 ∧
    neededApply (Policy.dm 1 (fun _ => 0) (fun t => t % 2 == 0)) .xor 10 ⟨exStore4, [], 7⟩
      (.inner 1) (.inner 2) = 2 ∧
    neededApply Policy.exact .xor 10 ⟨exStore4, [((.and, [.inner 1, .inner 2]), .inner 1)], 0⟩
      (.inner 1) (.inner 2) = 2 := by
  decide +kernel

/-- capacity `k − 1 = 5` fails, `k = 6` succeeds (4 nodes stored + 2 needed) -/
example : (applyC 5 Policy.exact .xor 10 ⟨exStore4, [], 0⟩ (.inner 1) (.inner 2)).1 = none ∧
    (applyC 6 Policy.exact .xor 10 ⟨exStore4, [], 0⟩ (.inner 1) (.inner 2)).1 = some (.inner 5) := by
  decide +kernel

/-- the same two facts from `threshold_exact` -/
example : (applyC 5 Policy.exact .xor 10 ⟨exStore4, [], 0⟩ (.inner 1) (.inner 2)).1 = none :=
  (threshold_exact Policy.exact .xor 10 ⟨exStore4, [], 0⟩ (.inner 1) (.inner 2)).1 5
    (by decide +kernel) (by decide +kernel)

example : (applyC 6 Policy.exact .xor 10 ⟨exStore4, [], 0⟩ (.inner 1) (.inner 2)).1.isSome = true := by
  rw [(threshold_exact Policy.exact .xor 10 ⟨exStore4, [], 0⟩ (.inner 1) (.inner 2)).2 6
    (by decide +kernel)]
  rfl

/-- `final_count`: 5 = cap after the failure, 6 = 4 + 2 after the success -/
example : (applyC 5 Policy.exact .xor 10 ⟨exStore4, [], 0⟩ (.inner 1) (.inner 2)).2.store.count = 5 ∧
    (applyC 9 Policy.exact .xor 10 ⟨exStore4, [], 0⟩ (.inner 1) (.inner 2)).2.store.count = 6 := by
  decide +kernel

/-- `not` and `ite`: thresholds on the same store. `¬(x0 ∧ x1)` needs 2 nodes (`¬x1` and the
root), `ite(x0 ∧ x1, x1, x0 ∨ x1)` = `x0 ∨ x1`… is stored: needs 0 and succeeds with capacity 0 -/
example : neededNot Policy.exact 10 ⟨exStore4, [], 0⟩ (.inner 1) = 2 ∧
    (notC 5 Policy.exact 10 ⟨exStore4, [], 0⟩ (.inner 1)).1 = none ∧
    (notC 6 Policy.exact 10 ⟨exStore4, [], 0⟩ (.inner 1)).1.isSome = true := by
  decide +kernel

example : neededIte Policy.exact 10 ⟨exStore4, [], 0⟩ (.inner 1) (.inner 0) (.inner 2) = 0 ∧
    (iteC 0 Policy.exact 10 ⟨exStore4, [], 0⟩ (.inner 1) (.inner 0) (.inner 2)).1.isSome = true := by
  decide +kernel

/-- an `ite` that allocates: `ite(x1, x0 ∧ x1, x0 ∨ x1)` -/
example : neededIte Policy.exact 10 ⟨exStore4, [], 0⟩ (.inner 0) (.inner 1) (.inner 2) =
      fresh exStore4 (applyIte (.node 1 (.leaf true) (.leaf false)) exAnd exOr) ∧
    (List.range 8).map (fun c =>
      (iteC c Policy.exact 10 ⟨exStore4, [], 0⟩ (.inner 0) (.inner 1) (.inner 2)).1.isSome) =
    (List.range 8).map (fun c => decide (4 + neededIte Policy.exact 10 ⟨exStore4, [], 0⟩
      (.inner 0) (.inner 1) (.inner 2) ≤ c) || decide (neededIte Policy.exact 10 ⟨exStore4, [], 0⟩
      (.inner 0) (.inner 1) (.inner 2) = 0)) := by
  decide +kernel

end OxiddModel.Bdd.C14T
