import OxiddModel.Bdd.HistoryA
import OxiddModel.Bdd.PropertiesC07

/-!
# C20 — build configurations are observationally equivalent (store-level model)

Property text: *"Every supported configuration — index-based or pointer-based node store, apply
cache enabled or disabled, multi-threaded or single-threaded apply algorithms, any worker count and
split depth — computes the same functions for the same API calls, satisfies the same structural
and reference-count invariants, and agrees on node counts of every handle."*

Which model parameter stands for which part of "configuration":

| configuration dimension | model parameter | hypothesis |
|---|---|---|
| `manager-index` vs `manager-pointer`; free list / bump / per-thread chunk allocation | `alloc : Store → Node → Nat` (`AllocS.lean`) | `AllocOK alloc`: the chosen slot is free (any index, also beyond the end) |
| `apply-cache-direct-mapped` on/off, capacity, hash, `try_lock` failures, evictions | `policy : Policy`, `ev` | `Policy.OK` (`Policy.none` = cache off) |
| `multi-threading` on/off, worker count, split depth, other threads, collector | `sch : Sched` (fork order), `env : Env` | `EnvOK env` (C07) |

Theorems: `applyA_spec` (every allocator refines the tree-level operation), `alloc_irrelevant`
(one operation, two allocators/policies: same denotation, same set of stored trees, same node
count), `history_equiv`/`config_equiv` (whole recorded histories, allocator × cache policy ×
evictions), `threads_irrelevant` (per operation: any schedule/environment denotes the same tree).

Not covered: the real memory layout (`arcslab`, `hugealloc`, slot reuse order of the real free
lists — abstracted by "any free slot"), reference counts (derived here), the pointer-based
manager's code itself (only its allocation freedom is modelled; it shares the rules crates),
histories *under interference* (C07's environment changes the store between operations, so
`SameTrees`/node counts are only claimed for the sequential configurations; under interference
the per-operation denotation is what is proved), `gc`/reordering inside histories, other diagram
kinds.
-/
namespace OxiddModel.Bdd.C20
open OxiddModel.Bdd OxiddModel.Bdd.BDD OxiddModel.Bdd.Refine

/-! ## every allocator refines the tree-level operations -/

/-- **`apply_bin::<OP>` over any allocator** (`applyA_spec`, analogous to `C06.applyS_spec`):
wherever the allocator puts new nodes, the result denotes `applyBin op a b`, the store is only
extended, `Unique ∧ CacheOK` are kept, and store and result are `internA alloc s (applyBin op a b)`
(so also independent of the cache). -/
theorem applyA_spec {alloc : Alloc} (hok : AllocOK alloc) {p : Policy} (pok : p.OK) (op : Op)
    (fuel : Nat) (st : St) (f g : Edge) (a b : BDD) (hu : st.store.Unique)
    (hc : CacheOK st.store st.cache) (hf : Denotes st.store f a) (hg : Denotes st.store g b)
    (hfuel : a.size + b.size ≤ fuel) :
    Denotes (applyA alloc p op fuel st f g).1.store (applyA alloc p op fuel st f g).2 (applyBin op a b) ∧
    st.store.Le (applyA alloc p op fuel st f g).1.store ∧
    (applyA alloc p op fuel st f g).1.store.Unique ∧
    CacheOK (applyA alloc p op fuel st f g).1.store (applyA alloc p op fuel st f g).1.cache ∧
    (st.store.NoRed → ((applyA alloc p op fuel st f g).1.store, (applyA alloc p op fuel st f g).2) =
      internA alloc st.store (applyBin op a b)) :=
  have P := Refine.applyA_spec hok pok op fuel st f g a b ⟨hu, hc⟩ hf hg hfuel
  ⟨P.den, P.le, P.inv.1, P.inv.2, P.canon⟩

theorem notA_spec {alloc : Alloc} (hok : AllocOK alloc) {p : Policy} (pok : p.OK) (fuel : Nat)
    (st : St) (f : Edge) (a : BDD) (hu : st.store.Unique) (hc : CacheOK st.store st.cache)
    (hf : Denotes st.store f a) (hfuel : a.size ≤ fuel) :
    Denotes (notA alloc p fuel st f).1.store (notA alloc p fuel st f).2 (applyNot a) ∧
    st.store.Le (notA alloc p fuel st f).1.store ∧ (notA alloc p fuel st f).1.store.Unique ∧
    CacheOK (notA alloc p fuel st f).1.store (notA alloc p fuel st f).1.cache :=
  have P := Refine.notA_spec hok pok fuel st f a ⟨hu, hc⟩ hf hfuel
  ⟨P.den, P.le, P.inv.1, P.inv.2⟩

theorem iteA_spec {alloc : Alloc} (hok : AllocOK alloc) {p : Policy} (pok : p.OK) (fuel : Nat)
    (st : St) (f g h : Edge) (a b c : BDD) (hu : st.store.Unique) (hc : CacheOK st.store st.cache)
    (hf : Denotes st.store f a) (hg : Denotes st.store g b) (hh : Denotes st.store h c)
    (hfuel : a.size + b.size + c.size ≤ fuel) :
    Denotes (iteA alloc p fuel st f g h).1.store (iteA alloc p fuel st f g h).2 (applyIte a b c) ∧
    st.store.Le (iteA alloc p fuel st f g h).1.store ∧ (iteA alloc p fuel st f g h).1.store.Unique ∧
    CacheOK (iteA alloc p fuel st f g h).1.store (iteA alloc p fuel st f g h).1.cache :=
  have P := Refine.iteA_spec hok pok fuel st f g h a b c ⟨hu, hc⟩ hf hg hh hfuel
  ⟨P.den, P.le, P.inv.1, P.inv.2⟩

/-- the store of `StoreRefine.lean`/C06/C07/C14 (first free slot, else grow) is one instance -/
theorem index_store_is_instance (p : Policy) (op : Op) (fuel : Nat) (st : St) (f g h : Edge) :
    applyS p op fuel st f g = applyA firstFree p op fuel st f g ∧
    notS p fuel st f = notA firstFree p fuel st f ∧
    iteS p fuel st f g h = iteA firstFree p fuel st f g h ∧ AllocOK firstFree :=
  ⟨applyS_eq_applyA p op fuel st f g, notS_eq_notA p fuel st f, iteS_eq_iteA p fuel st f g h,
    firstFree_ok⟩

/-- first-free, bump and "arbitrary far address" allocators are admissible -/
theorem allocators_admissible (off : Node → Nat) :
    AllocOK firstFree ∧ AllocOK bumpAlloc ∧ AllocOK (farAlloc off) :=
  ⟨firstFree_ok, bumpAlloc_ok, farAlloc_ok off⟩

/-! ## one operation -/

/-- **`alloc_irrelevant`.** The same operation in two managers that hold the same set of trees
(`SameTrees`) and equally many nodes, with two allocators, two cache behaviours and two caches,
on operands denoting the same trees `a`, `b` (as edges they differ): both results denote
`applyBin op a b`, the stores afterwards hold the same set of trees again, the node counts agree,
and all structural invariants are kept on both sides. -/
theorem alloc_irrelevant {a₁ a₂ : Alloc} (ok₁ : AllocOK a₁) (ok₂ : AllocOK a₂) {p₁ p₂ : Policy}
    (pk₁ : p₁.OK) (pk₂ : p₂.OK) (op : Op) (fuel : Nat) (st₁ st₂ : St) (f₁ g₁ f₂ g₂ : Edge)
    (a b : BDD)
    (u₁ : st₁.store.Unique) (u₂ : st₂.store.Unique) (r₁ : st₁.store.NoRed) (r₂ : st₂.store.NoRed)
    (w₁ : st₁.store.WF) (w₂ : st₂.store.WF)
    (c₁ : CacheOK st₁.store st₁.cache) (c₂ : CacheOK st₂.store st₂.cache)
    (hs : SameTrees st₁.store st₂.store) (hn : st₁.store.count = st₂.store.count)
    (hf₁ : Denotes st₁.store f₁ a) (hg₁ : Denotes st₁.store g₁ b)
    (hf₂ : Denotes st₂.store f₂ a) (hg₂ : Denotes st₂.store g₂ b) (hfuel : a.size + b.size ≤ fuel) :
    let R₁ := applyA a₁ p₁ op fuel st₁ f₁ g₁
    let R₂ := applyA a₂ p₂ op fuel st₂ f₂ g₂
    Denotes R₁.1.store R₁.2 (applyBin op a b) ∧ Denotes R₂.1.store R₂.2 (applyBin op a b) ∧
    SameTrees R₁.1.store R₂.1.store ∧ R₁.1.store.count = R₂.1.store.count ∧
    (R₁.1.store.Unique ∧ R₁.1.store.NoRed ∧ R₁.1.store.WF ∧ CacheOK R₁.1.store R₁.1.cache) ∧
    (R₂.1.store.Unique ∧ R₂.1.store.NoRed ∧ R₂.1.store.WF ∧ CacheOK R₂.1.store R₂.1.cache) := by
  intro R₁ R₂
  have P₁ := Refine.applyA_spec ok₁ pk₁ op fuel st₁ f₁ g₁ a b ⟨u₁, c₁⟩ hf₁ hg₁ hfuel
  have P₂ := Refine.applyA_spec ok₂ pk₂ op fuel st₂ f₂ g₂ a b ⟨u₂, c₂⟩ hf₂ hg₂ hfuel
  have hT : Reduced (applyBin op a b) :=
    applyBin_reduced op a b (denotes_reduced u₁ r₁ hf₁) (denotes_reduced u₁ r₁ hg₁)
  have E := equiv_after (cfg₁ := ⟨a₁, p₁, fun _ _ => true⟩) (cfg₂ := ⟨a₂, p₂, fun _ _ => true⟩)
    ⟨ok₁, pk₁⟩ ⟨ok₂, pk₂⟩ (h₁ := ⟨st₁, []⟩) (h₂ := ⟨st₂, []⟩)
    ⟨⟨u₁, r₁, w₁, c₁⟩, ⟨u₂, r₂, w₂, c₂⟩, hs, hn, rfl, fun i hi => by cases hi⟩ hT P₁ P₂
  exact ⟨P₁.den, P₂.den, E.same, E.count,
    ⟨E.good₁.unique, E.good₁.nored, E.good₁.wf, E.good₁.cache⟩,
    ⟨E.good₂.unique, E.good₂.nored, E.good₂.wf, E.good₂.cache⟩⟩

/-! ## histories -/

/-- **Recorded histories, allocator × cache policy × evictions.** Two runs of the same recorded
history (operands are handle references) under two configurations, from equivalent states: the
handle tables denote the same trees position by position (*"computes the same functions for the
same API calls"*), both states satisfy the structural invariants (*"the same structural
invariants"*), the stores hold the same set of trees and the same number of nodes (*"agrees on
node counts"*); and the history is valid for the second configuration whenever it is for the
first. -/
theorem history_equiv {cfg₁ cfg₂ : Cfg} (ok₁ : cfg₁.OK) (ok₂ : cfg₂.OK) (fuel : Nat)
    (cs : List Cmd) (h₁ h₂ : HSt) (heq : Equiv h₁ h₂) (hv : ValidAllH cfg₁ fuel cs h₁) :
    Equiv (runH cfg₁ fuel cs h₁) (runH cfg₂ fuel cs h₂) ∧ ValidAllH cfg₂ fuel cs h₂ :=
  Refine.history_equiv ok₁ ok₂ fuel cs h₁ h₂ heq hv

/-- what `Equiv` gives for each handle: one tree `t` denoted on both sides. Every observation of a
handle is a function of `t` — its value under an assignment (`t.eval σ`), its node count
(`nodeCount t`), its satisfiability count (`satCount n t`) — hence identical. -/
theorem handles_agree {h₁ h₂ : HSt} (heq : Equiv h₁ h₂) (i : Nat) (hi : i < h₁.hs.length) :
    ∃ t, Denotes h₁.st.store (h₁.hs.getD i (.term false)) t ∧
      Denotes h₂.st.store (h₂.hs.getD i (.term false)) t := heq.agree.2 i hi

/-- total node counts agree (`num_inner_nodes`) -/
theorem node_counts_agree {h₁ h₂ : HSt} (heq : Equiv h₁ h₂) :
    h₁.st.store.count = h₂.st.store.count ∧ h₁.hs.length = h₂.hs.length :=
  ⟨heq.count, heq.agree.1⟩

/-! ## threads -/

/-- **Thread count, split depth, other threads, collector** (per operation; from C07). On the
index store, under *any* admissible environment and *any* fork schedule, `apply_bin` returns an
edge denoting the same tree as the single-threaded run with *any* allocator and cache policy in
an equivalent manager. -/
theorem threads_irrelevant {pE pA : Policy} (okE : pE.OK) (okA : pA.OK) {env : Env}
    (henv : EnvOK env) (sch : Sched) {alloc : Alloc} (hal : AllocOK alloc) (op : Op)
    (fuel k : Nat) (held : List Edge) (stE stA : St) (fE gE fA gA : Edge) (a b : BDD)
    (uE : stE.store.Unique) (cE : CacheOK stE.store stE.cache)
    (uA : stA.store.Unique) (cA : CacheOK stA.store stA.cache)
    (hfE : Denotes stE.store fE a) (hgE : Denotes stE.store gE b)
    (hfA : Denotes stA.store fA a) (hgA : Denotes stA.store gA b) (hfuel : a.size + b.size ≤ fuel) :
    ∃ T, Denotes (applyE pE env sch op fuel k held stE fE gE).1.store
        (applyE pE env sch op fuel k held stE fE gE).2.1 T ∧
      Denotes (applyA alloc pA op fuel stA fA gA).1.store (applyA alloc pA op fuel stA fA gA).2 T :=
  ⟨applyBin op a b,
    (Refine.applyE_spec okE henv sch op fuel k held stE fE gE a b ⟨uE, cE⟩ hfE hgE hfuel).den,
    (Refine.applyA_spec hal okA op fuel stA fA gA a b ⟨uA, cA⟩ hfA hgA hfuel).den⟩

/-! ## the conjunction -/

/-- **`config_equiv`.** Results (as trees), the set of stored trees, node counts and the
structural invariants are independent of (i) the allocator = node-store backend, (ii) the apply
cache (present or not, capacity, evictions) — both over whole recorded histories — and (iii) the
fork order and the environment (threads, collector) — per operation, as denotation. -/
theorem config_equiv :
    -- (i) + (ii): histories
    (∀ (cfg₁ cfg₂ : Cfg), cfg₁.OK → cfg₂.OK → ∀ (fuel : Nat) (cs : List Cmd) (h₁ h₂ : HSt),
      Equiv h₁ h₂ → ValidAllH cfg₁ fuel cs h₁ →
      Equiv (runH cfg₁ fuel cs h₁) (runH cfg₂ fuel cs h₂) ∧ ValidAllH cfg₂ fuel cs h₂) ∧
    -- (ii) on a fixed backend even the edges and stores coincide (C06)
    (∀ (c₁ c₂ : CacheCfg), c₁.policy.OK → c₂.policy.OK → ∀ (fuel : Nat) (cs : List Cmd) (st₁ st₂ : St),
      st₁.store = st₂.store → st₁.store.Unique → st₁.store.NoRed →
      CacheOK st₁.store st₁.cache → CacheOK st₂.store st₂.cache → ValidAll c₁ fuel cs st₁ →
      (runAll c₁ fuel cs st₁).2 = (runAll c₂ fuel cs st₂).2 ∧
      (runAll c₁ fuel cs st₁).1.store = (runAll c₂ fuel cs st₂).1.store) ∧
    -- (iii): threads, per operation
    (∀ (pE pA : Policy), pE.OK → pA.OK → ∀ (env : Env), EnvOK env → ∀ (sch : Sched) (alloc : Alloc),
      AllocOK alloc → ∀ (op : Op) (fuel k : Nat) (held : List Edge) (stE stA : St)
      (fE gE fA gA : Edge) (a b : BDD), Refine.Inv stE → Refine.Inv stA →
      Denotes stE.store fE a → Denotes stE.store gE b → Denotes stA.store fA a →
      Denotes stA.store gA b → a.size + b.size ≤ fuel →
      Denotes (applyE pE env sch op fuel k held stE fE gE).1.store
        (applyE pE env sch op fuel k held stE fE gE).2.1 (applyBin op a b) ∧
      Denotes (applyA alloc pA op fuel stA fA gA).1.store (applyA alloc pA op fuel stA fA gA).2
        (applyBin op a b)) :=
  ⟨fun _ _ ok₁ ok₂ fuel cs h₁ h₂ heq hv => Refine.history_equiv ok₁ ok₂ fuel cs h₁ h₂ heq hv,
   fun _ _ ok₁ ok₂ fuel cs st₁ st₂ hs hu hr h1 h2 hv =>
     C06.history_transparent ok₁ ok₂ fuel cs st₁ st₂ hs hu hr h1 h2 hv,
   fun _ _ okE okA _ henv sch _ hal op fuel k held stE stA fE gE fA gA a b iE iA hfE hgE hfA hgA hsz =>
     ⟨(Refine.applyE_spec okE henv sch op fuel k held stE fE gE a b iE hfE hgE hsz).den,
      (Refine.applyA_spec hal okA op fuel stA fA gA a b iA hfA hgA hsz).den⟩⟩

/-! ## non-vacuity: two concrete configurations -/

def x0T : BDD := .node 0 (.leaf true) (.leaf false)
def x1T : BDD := .node 1 (.leaf true) (.leaf false)

/-- a fresh manager with the two variables, handles `h0 = x0`, `h1 = x1` -/
def initH (alloc : Alloc) : HSt :=
  let r0 := internA alloc ⟨#[]⟩ x0T
  let r1 := internA alloc r0.1 x1T
  ⟨⟨r1.1, [], 0⟩, [r0.2, r1.2]⟩

/-- index store, first free slot, ideal cache, nothing evicted -/
def cfgA : Cfg := ⟨firstFree, Policy.exact, fun _ _ => true⟩
/-- "pointer-like" store (every node at some far address, leaving holes), a one-bucket cache whose
lock fails every third access, everything evicted at eviction points -/
def cfgB : Cfg :=
  ⟨farAlloc (fun n => n.level + 1), Policy.dm 1 (fun _ => 0) (fun t => t % 3 != 0), fun _ _ => false⟩

theorem cfgA_ok : cfgA.OK := ⟨firstFree_ok, Policy.exact_ok⟩
theorem cfgB_ok : cfgB.OK :=
  ⟨farAlloc_ok _, Policy.dm_ok 1 (fun _ => 0) (fun t => t % 3 != 0)⟩

theorem x0T_red : Reduced x0T := ⟨by decide, trivial, trivial⟩
theorem x1T_red : Reduced x1T := ⟨by decide, trivial, trivial⟩

theorem empty_wf : (⟨#[]⟩ : Store).WF := by
  intro i n hi; simp [Store.get?] at hi

/-- fresh managers of any two backends are equivalent -/
theorem initH_equiv {a₁ a₂ : Alloc} (ok₁ : AllocOK a₁) (ok₂ : AllocOK a₂) :
    Equiv (initH a₁) (initH a₂) := by
  have r0 := x0T_red
  have r1 := x1T_red
  have good : ∀ {al : Alloc}, AllocOK al → Good (initH al) ∧
      Denotes (initH al).st.store ((initH al).hs.getD 0 (.term false)) x0T ∧
      Denotes (initH al).st.store ((initH al).hs.getD 1 (.term false)) x1T := by
    intro al ok
    have u0 := internA_unique (alloc := al) ⟨#[]⟩ x0T C06.empty_unique
    obtain ⟨d0, w0⟩ := internA_spec ok ⟨#[]⟩ x0T C06.empty_unique empty_wf r0
    obtain ⟨d1, w1⟩ := internA_spec ok _ x1T u0 w0 r1
    exact ⟨⟨internA_unique _ _ u0, internA_nored _ _ (internA_nored _ _ C06.empty_nored), w1,
      CacheOK.nil _⟩, d0.mono (internA_le ok _ _), d1⟩
  obtain ⟨g₁, d₁0, d₁1⟩ := good ok₁
  obtain ⟨g₂, d₂0, d₂1⟩ := good ok₂
  obtain ⟨s0, c0⟩ := internA_same ok₁ ok₂ x0T ⟨#[]⟩ ⟨#[]⟩ C06.empty_unique C06.empty_unique
    empty_wf empty_wf r0 (SameTrees.refl _) rfl
  obtain ⟨s1, c1⟩ := internA_same ok₁ ok₂ x1T _ _
    (internA_unique _ _ C06.empty_unique) (internA_unique _ _ C06.empty_unique)
    (internA_spec ok₁ _ _ C06.empty_unique empty_wf r0).2
    (internA_spec ok₂ _ _ C06.empty_unique empty_wf r0).2 r1 s0 c0
  refine ⟨g₁, g₂, s1, c1, rfl, ?_⟩
  intro i hi
  have : i = 0 ∨ i = 1 := by simp [initH] at hi; omega
  rcases this with h | h <;> subst h
  · exact ⟨_, d₁0, d₂0⟩
  · exact ⟨_, d₁1, d₂1⟩

/-- the two initial stores really differ in layout -/
example : (initH cfgA.alloc).st.store.nodes =
      #[some ⟨0, .term true, .term false⟩, some ⟨1, .term true, .term false⟩] ∧
    (initH cfgB.alloc).st.store.nodes =
      #[none, some ⟨0, .term true, .term false⟩, none, none, some ⟨1, .term true, .term false⟩] := by
  decide +kernel

/-- a recorded history: `h2 = h0 ∧ h1`, `h3 = h0 ∨ h1` (same operands, other operator), an
eviction point, `h4 = h2 ⊕ h3`, `h5 = ite(h1, h2, h3)`, `h6 = ¬h3` -/
def exHist : List Cmd :=
  [.bin .and (.inner 0) (.inner 1), .bin .or (.inner 0) (.inner 1), .cacheOp 0,
   .bin .xor (.inner 2) (.inner 3), .ite (.inner 1) (.inner 2) (.inner 3), .not (.inner 3)]

/-- the two runs: different edges (slots), same number of nodes, and `h5 = x0 = h0` in both -/
example :
    (runH cfgA 20 exHist (initH cfgA.alloc)).hs =
      [.inner 0, .inner 1, .inner 2, .inner 3, .inner 5, .inner 0, .inner 6] ∧
    (runH cfgB 20 exHist (initH cfgB.alloc)).hs =
      [.inner 1, .inner 4, .inner 6, .inner 8, .inner 13, .inner 1, .inner 15] ∧
    (runH cfgA 20 exHist (initH cfgA.alloc)).st.store.count = 7 ∧
    (runH cfgB 20 exHist (initH cfgB.alloc)).st.store.count = 7 ∧
    (runH cfgB 20 exHist (initH cfgB.alloc)).st.store.nodes.size = 16 := by decide +kernel

/-- the hypotheses of `history_equiv` are satisfiable: a history whose second command uses the
result of the first -/
example : let cs : List Cmd := [.bin .and (.inner 0) (.inner 1), .not (.inner 2), .cacheOp 1]
    Equiv (runH cfgA 9 cs (initH cfgA.alloc)) (runH cfgB 9 cs (initH cfgB.alloc)) := by
  intro cs
  have E := initH_equiv cfgA_ok.alloc cfgB_ok.alloc
  obtain ⟨t0, d0, _⟩ := E.agree.2 0 (by decide)
  obtain ⟨t1, d1, _⟩ := E.agree.2 1 (by decide)
  have i₁ : Refine.Inv (initH cfgA.alloc).st := ⟨E.good₁.unique, E.good₁.cache⟩
  -- the trees behind h0, h1
  have e0 : t0 = x0T := by
    obtain ⟨d, _⟩ := internA_spec firstFree_ok ⟨#[]⟩ x0T C06.empty_unique empty_wf x0T_red
    exact Denotes.functional d0 (d.mono (internA_le firstFree_ok _ _))
  have e1 : t1 = x1T := by
    obtain ⟨_, w⟩ := internA_spec firstFree_ok ⟨#[]⟩ x0T C06.empty_unique empty_wf x0T_red
    obtain ⟨d, _⟩ := internA_spec firstFree_ok _ x1T
      (internA_unique _ _ C06.empty_unique) w x1T_red
    exact Denotes.functional d1 d
  subst e0 e1
  have P := Refine.applyA_spec cfgA_ok.alloc cfgA_ok.policy .and 9 _ _ _ x0T x1T i₁ d0 d1 (by decide)
  refine (history_equiv cfgA_ok cfgB_ok 9 cs _ _ E ⟨⟨x0T, x1T, d0, d1, by decide⟩, ⟨?_, trivial, trivial⟩⟩).1
  refine ⟨applyBin .and x0T x1T, ?_, by decide +kernel⟩
  show Denotes _ (((initH cfgA.alloc).hs ++ [_]).getD 2 _) _
  exact P.den

/-- non-vacuity of `alloc_irrelevant`: `x0 ∧ x1` in the two fresh managers -/
example :=
  alloc_irrelevant cfgA_ok.alloc cfgB_ok.alloc cfgA_ok.policy cfgB_ok.policy .and 9
    (initH cfgA.alloc).st (initH cfgB.alloc).st
    ((initH cfgA.alloc).hs.getD 0 (.term false)) ((initH cfgA.alloc).hs.getD 1 (.term false))
    ((initH cfgB.alloc).hs.getD 0 (.term false)) ((initH cfgB.alloc).hs.getD 1 (.term false))

end OxiddModel.Bdd.C20
