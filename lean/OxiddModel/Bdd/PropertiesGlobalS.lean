import OxiddModel.Bdd.GlobalSSteps
import OxiddModel.Bdd.PropertiesQueriesS

/-!
# C01 / C03 / C05 / C08 — ONE store-level history theorem

Property C01: *"two function handles compare equal if and only if they denote the same function
over the manager's variables … regardless of the sequence of operations, handle drops, garbage
collections, variable additions and reorderings through which the two handles were obtained."*

`GlobalS.lean` defines ONE manager state (id-indexed node store with stored level numbers and one
reference counter per slot, apply cache, `gc_count`, the order `{v2l, l2v}`, the number of
variables, the table of live handles) and ONE step function for `var`/`not_var`, `not`, the eight
binary operators, `ite` (each under its own node capacity: succeeding or failing with OutOfMemory
at any allocation point), `clone`, `drop`, `gc`, `add_vars` and `set_var_order`. The theorems below
hold for **every history** (`List Step`, no bound on length, no side condition on the steps) from
the empty manager and for **every configuration** `Cfg.OK` (cache policy, slot allocator and
hash-table iteration order of the reordering):

* `global_inv` — the store is ordered w.r.t. the stored level numbers, all levels `< n`, reduced,
  hash consed, the cache sound, the var/level maps mutually inverse, no dangling edge, counters
  exact (`rc = 1 + handles + parents`), and the per-level tables seen by the reordering code are
  consistent (`SwapStore.Inv`);
* `global_semantics` — every handle denotes, as a function of the VARIABLES, the function its
  producing expression specifies; `ghost_unchanged`: `gc`, `add_vars`, `set_var_order` and failed
  operations leave every handle's expression alone (so they change no handle's function);
* `global_canonical` (C01) — two handles are the same edge iff they denote the same function of the
  variables;
* `global_gc_exact` (C05) — after a `gc` step exactly the nodes reachable from the handles remain;
  with no handles the store is empty;
* `global_node_count` (C03) — `node_count` of a handle is the number of nodes of THE reduced ordered
  diagram of its function under the CURRENT order.

The proofs compose the existing developments rather than redoing them: counters `RcS*`
(C05/C14), capped/uncapped algorithms `CapS`/`ApplyS` (C14/C06), `setVarOrderS_correct` (C08),
`nodeCountS_spec` (C03), `bdd_canonical` (C01 on trees); new are the bridge between the two store
representations (`GlobalSBridge.lean`), reducedness after failing runs (`GlobalSNoRed.lean`), the
size bound that makes the fuel a function of `n`, and the bookkeeping of the order maps.
-/
namespace OxiddModel.Bdd.Global
open OxiddModel.Bdd OxiddModel.Bdd.BDD OxiddModel.Bdd.Refine OxiddModel.Bdd.Rc
open OxiddModel.Reorder
open OxiddModel.Reorder.SwapStore (Heap SNode SStore)

/-! ## the empty manager, induction over the history -/

theorem ginv_empty : GInv GSt.empty where
  rc := C05R.rcinv_empty
  ord := C05R.ordinv_empty 0
  uniq := C06.empty_unique
  nored := C06.empty_nored
  cache := CacheOK.nil _
  perm := ordOK_empty

theorem foldl_inv {c : Cfg} (hc : c.OK) : ∀ (hist : List Step) (x : GSt × List Expr),
    GInv x.1 → Sem x.1 x.2 →
    GInv (hist.foldl (fun x s => (step c x.1 s, track c x.1 x.2 s)) x).1 ∧
    Sem (hist.foldl (fun x s => (step c x.1 s, track c x.1 x.2 s)) x).1
      (hist.foldl (fun x s => (step c x.1 s, track c x.1 x.2 s)) x).2 := by
  intro hist
  induction hist with
  | nil => intro x hi hs; exact ⟨hi, hs⟩
  | cons s rest ih =>
    intro x hi hs
    obtain ⟨h1, h2⟩ := step_inv hc hi hs s
    exact ih _ h1 h2

/-- the invariant and the meaning of all handles, after every history -/
theorem run_inv {c : Cfg} (hc : c.OK) (hist : List Step) :
    GInv (run c hist) ∧ Sem (run c hist) (runT c hist).2 := by
  rw [← runT_fst]
  exact foldl_inv hc hist (GSt.empty, []) ginv_empty .nil

theorem run_append (c : Cfg) (hist : List Step) (s : Step) :
    run c (hist ++ [s]) = step c (run c hist) s := by
  simp [run, List.foldl_append]

/-! ## `global_inv` -/

/-- **`global_inv`.** After every history: (1) children lie on strictly larger levels (ordered
w.r.t. the current order: the level of a node is the current level of its variable, see
`global_semantics`), (2) all levels are `< n`, (3) no node has equal children (reduced), (4) no two
slots hold the same node (hash consed), (5) every cache entry is the result its key specifies,
(6) `v2l` and `l2v` have `n` entries and are mutually inverse, (7) every handle and every child
edge points to a stored node, (8) the counter of every stored node is
`1 + #handles on it + #stored parent edges` (the `1` is the unique table's reference;
`ref_count()` reports `rc - 1`), and (9) the per-level unique tables, as the reordering code sees
them, partition the nodes by level without duplicates (`SwapStore.Inv`). -/
theorem global_inv {c : Cfg} (hc : c.OK) (hist : List Step) :
    let g := run c hist
    g.r.st.store.Ordered ∧
    (∀ i nd, g.r.st.store.get? i = some nd → nd.level < g.n) ∧
    g.r.st.store.NoRed ∧
    g.r.st.store.Unique ∧
    CacheOK g.r.st.store g.r.st.cache ∧
    OrdOK g.n g.v2l g.l2v ∧
    ((∀ x ∈ g.hs, g.r.st.store.has x) ∧
      ∀ i nd, g.r.st.store.get? i = some nd → g.r.st.store.has nd.t ∧ g.r.st.store.has nd.e) ∧
    (∀ i nd, g.r.st.store.get? i = some nd →
      rcGet g.r.rc i = 1 + g.hs.count (.inner i) + parents g.r.st.store i) ∧
    SwapStore.Inv (extOfHs g.hs) (toS g.r g.n) := by
  intro g
  have h := (run_inv hc hist).1
  exact ⟨h.ord.ord, h.ord.bound, h.nored, h.uniq, h.cache, h.perm, ⟨h.rc.ext_ok, h.rc.kids_ok⟩,
    h.rc.rc_eq, h.sinv⟩

/-! ## `global_semantics` -/

/-- **`global_semantics`.** After every history the ghost list has one expression per handle, and
every handle denotes a diagram in normal form whose value under every assignment `ρ` of the
VARIABLES (through the current `l2v`) is the value of the expression that produced the handle:
operations applied to the functions of their operands. -/
theorem global_semantics {c : Cfg} (hc : c.OK) (hist : List Step) :
    let g := run c hist
    let es := (runT c hist).2
    es.length = g.hs.length ∧
    ∀ (i : Nat) (x : Edge), g.hs[i]? = some x → ∃ (e : Expr) (t : BDD), es[i]? = some e ∧ Denotes g.r.st.store x t ∧ NF 0 t ∧
      ∀ ρ, evalL g.l2v ρ t = e.fn ρ := by
  intro g es
  obtain ⟨hi, hs⟩ := run_inv hc hist
  refine ⟨forall₂_length hs, fun i x hx => ?_⟩
  obtain ⟨e, he, t, hd, hev⟩ := forall₂_get hs hx
  exact ⟨e, t, he, hd, hi.nf hd, hev⟩

/-- **`ghost_unchanged`.** `gc`, `add_vars`, `set_var_order` and operations that fail with
OutOfMemory (or name a handle that does not exist) push nothing and change no handle's expression:
by `global_semantics` for the longer history every old handle still denotes the function it
denoted. -/
theorem ghost_unchanged (c : Cfg) (g : GSt) (es : List Expr) :
    track c g es .gc = es ∧ (∀ k, track c g es (.addVars k) = es) ∧
    (∀ o, track c g es (.setVarOrder o) = es) ∧
    (∀ s r', opRes c g s = some (none, r') → (∀ a, s ≠ .clone a) → (∀ a, s ≠ .drop a) →
      track c g es s = es) := by
  refine ⟨rfl, fun _ => rfl, fun _ => rfl, ?_⟩
  intro s r' h h1 h2
  cases s with
  | clone a => exact absurd rfl (h1 a)
  | drop a => exact absurd rfl (h2 a)
  | gc => rfl
  | addVars k => rfl
  | setVarOrder o => rfl
  | var cap v neg => simp only [track, h]
  | not cap a => simp only [track, h]
  | bin cap op a b => simp only [track, h]
  | ite cap a b d => simp only [track, h]

/-- … and the handle list itself is the old one after these steps -/
theorem handles_unchanged (c : Cfg) (g : GSt) :
    (step c g .gc).hs = g.hs ∧ (∀ k, (step c g (.addVars k)).hs = g.hs) ∧
    (∀ o, (step c g (.setVarOrder o)).hs = g.hs) := by
  refine ⟨rfl, fun _ => rfl, fun o => ?_⟩
  simp only [step, reorder]
  split <;> rfl

/-! ## `global_canonical` (C01) -/

/-- **`global_canonical`.** After every history two handles are the same edge (`==`, and hence
`Hash`/`Ord`, which are functions of the edge) **iff** the expressions that produced them specify
the same function of the variables. -/
theorem global_canonical {c : Cfg} (hc : c.OK) (hist : List Step) :
    let g := run c hist
    let es := (runT c hist).2
    ∀ (i j : Nat) (x y : Edge) (ex ey : Expr), g.hs[i]? = some x → g.hs[j]? = some y → es[i]? = some ex → es[j]? = some ey →
      (x = y ↔ ∀ ρ, ex.fn ρ = ey.fn ρ) := by
  intro g es i j x y ex ey hx hy hex hey
  obtain ⟨hi, hs⟩ := run_inv hc hist
  obtain ⟨ex', hex', tx, hdx, hevx⟩ := forall₂_get hs hx
  obtain ⟨ey', hey', ty, hdy, hevy⟩ := forall₂_get hs hy
  have e1 : ex' = ex := by
    have : es[i]? = some ex' := hex'
    rw [hex] at this; cases this; rfl
  have e2 : ey' = ey := by
    have : es[j]? = some ey' := hey'
    rw [hey] at this; cases this; rfl
  subst e1 e2
  constructor
  · intro hxy ρ
    subst hxy
    rw [← hevx ρ, ← hevy ρ, hdx.functional hdy]
  · intro hfn
    have htt : tx = ty := (bdd_canonical tx ty 0 (hi.nf hdx) (hi.nf hdy)).mpr
      (eval_of_evalL hi.perm (fun ρ => by rw [hevx ρ, hevy ρ, hfn ρ]))
    subst htt
    exact inj_of_unique hi.uniq _ _ _ hdx hdy

/-- the same without the ghost: for any two handles and the diagrams they denote, equality of the
edges is equality of the functions of the variables -/
theorem global_canonical_den {c : Cfg} (hc : c.OK) (hist : List Step) :
    let g := run c hist
    ∀ (x y : Edge) (tx ty : BDD), x ∈ g.hs → y ∈ g.hs → Denotes g.r.st.store x tx → Denotes g.r.st.store y ty →
      (x = y ↔ ∀ ρ, evalL g.l2v ρ tx = evalL g.l2v ρ ty) := by
  intro g x y tx ty _ _ hdx hdy
  have hi := (run_inv hc hist).1
  constructor
  · intro hxy ρ; subst hxy; rw [hdx.functional hdy]
  · intro hfn
    have htt : tx = ty := (bdd_canonical tx ty 0 (hi.nf hdx) (hi.nf hdy)).mpr
      (eval_of_evalL hi.perm hfn)
    subst htt
    exact inj_of_unique hi.uniq _ _ _ hdx hdy

/-! ## `global_gc_exact` (C05) -/

theorem reach_sub {s s' : Store} {ext : List Edge} (hsub : Sub s' s) {i : Nat}
    (h : Reach s' ext i) : Reach s ext i := by
  induction h with
  | root hm => exact .root hm
  | kid _ hp hk ih => exact .kid ih (hsub _ _ hp) hk

/-- **`global_gc_exact`.** Let `g` be the state after any history and `g'` the state after one more
`gc` step (`run_append`: that is the history `hist ++ [gc]`). Then the invariant holds, the handles
are the old ones, `gc_count` is advanced, the apply cache is empty, and the stored nodes of `g'` are
**exactly** the nodes reachable from the handles — in the store before the collection and, since
every surviving node keeps its content, in the store after it; nothing else is changed; and with no
handles the store is empty. -/
theorem global_gc_exact {c : Cfg} (hc : c.OK) (hist : List Step) :
    let g := run c hist
    let g' := step c g .gc
    GInv g' ∧ g'.hs = g.hs ∧ g'.gcCount = g.gcCount + 1 ∧ g'.r.st.cache = [] ∧
    (∀ i, (∃ nd, g'.r.st.store.get? i = some nd) ↔ Reach g.r.st.store g.hs i) ∧
    (∀ i, (∃ nd, g'.r.st.store.get? i = some nd) ↔ Reach g'.r.st.store g'.hs i) ∧
    (∀ i nd, g'.r.st.store.get? i = some nd → g.r.st.store.get? i = some nd) ∧
    (g.hs = [] → g'.r.st.store.count = 0) := by
  intro g g'
  obtain ⟨hi, hs⟩ := run_inv hc hist
  have hi' : GInv g' := (step_inv hc hi hs .gc).1
  obtain ⟨_, hex, hsub, _⟩ := C05R.gcR_exact g.n g.r g.hs hi.rc hi.ord.ord hi.ord.bound
  have hcache := (C05R.gcR_sound g.n g.r g.hs hi.rc).2.1
  refine ⟨hi', rfl, rfl, hcache, hex, fun i => ?_, hsub, fun hnil => ?_⟩
  · constructor
    · intro h
      have hr := (hex i).mp h
      -- reachability is preserved because reachable nodes keep their content
      have : ∀ {k}, Reach g.r.st.store g.hs k → Reach (gcR g.n g.r).st.store g.hs k := by
        intro k hk
        induction hk with
        | root hm => exact .root hm
        | kid hp hget hkid ih =>
          obtain ⟨n', h1, h2⟩ := gcR_keeps_reach g.n hi.rc hp
          rw [hget] at h1; cases h1
          exact .kid ih h2 hkid
      exact this hr
    · intro h
      exact (hex i).mpr (reach_sub hsub h)
  · have := C05R.all_dropped_empty g.n g.r (hnil ▸ hi.rc) hi.ord.ord hi.ord.bound
    exact this.2

/-! ## `global_node_count` (C03) -/

/-- **`global_node_count`.** After every history, for every handle: if `t` is ANY reduced ordered
diagram (over levels) whose function of the variables **under the current order** is the function
of the handle's expression, then `node_count` of the handle (the visited-set traversal of the
store, `QueriesS.nodeCountS`) is the number of distinct nodes of `t`. Such a `t` exists
(`global_semantics`) and is unique (`bdd_canonical`), so this is *the* size of the function's
diagram under the current order; it may change at a `set_var_order` step (example below). -/
theorem global_node_count {c : Cfg} (hc : c.OK) (hist : List Step) :
    let g := run c hist
    let es := (runT c hist).2
    ∀ (i : Nat) (x : Edge) (e : Expr), g.hs[i]? = some x → es[i]? = some e →
      ∀ t : BDD, NF 0 t → (∀ ρ, evalL g.l2v ρ t = e.fn ρ) →
        ∀ fuel, t.size < fuel → QueriesS.nodeCountS g.r.st.store fuel x = nodeCount t := by
  intro g es i x e hx he t hnf hev fuel hfuel
  obtain ⟨hi, hs⟩ := run_inv hc hist
  obtain ⟨e', he', t0, hd, hev0⟩ := forall₂_get hs hx
  have e1 : e' = e := by
    have : es[i]? = some e' := he'
    rw [he] at this; cases this; rfl
  subst e1
  have htt : t = t0 := (bdd_canonical t t0 0 hnf (hi.nf hd)).mpr
    (eval_of_evalL hi.perm (fun ρ => by rw [hev ρ, hev0 ρ]))
  subst htt
  exact QueriesS.nodeCountS_spec g.r.st.store hi.uniq x t hd fuel hfuel

/-! ## non-vacuity: one history with every kind of step -/

theorem cfg_std_ok : Cfg.std.OK :=
  ⟨Policy.exact_ok, SwapStore.allocOK_firstFree, SwapStore.orderOK_id⟩

/-- another admissible configuration: no apply cache, tables iterated back to front -/
theorem cfg_none_rev_ok : (⟨Policy.none, Heap.firstFree, List.reverse⟩ : Cfg).OK :=
  ⟨Policy.none_ok, SwapStore.allocOK_firstFree, SwapStore.orderOK_reverse⟩

/-- Three variables; `f = ite(x0, x1, x2)`; a clone; `x1 ⊕ x2` under capacity 5 (the first
allocation succeeds, the second fails: OutOfMemory, one garbage node); all handles but one on `f`
dropped; `gc`; `set_var_order [2, 0]` (new order `x1, x2, x0`: the diagram of `f` grows from 3 to 5
nodes); then the second route to the same function, with fresh variable handles:
`(x0 ∧ x1) ∨ (¬x0 ∧ x2)`; `gc`; `add_vars 1`. -/
def exHist : List Step :=
  [.addVars 3,
   .var 10 0 false, .var 10 1 false, .var 10 2 false,   -- handles [x2, x1, x0]
   .ite 10 2 1 0,                                       -- [f, x2, x1, x0]
   .clone 0,                                            -- [f, f, x2, x1, x0]
   .bin 5 .xor 3 2,                                     -- OutOfMemory after one allocation
   .drop 2, .drop 2, .drop 2, .drop 0,                  -- [f]
   .gc,
   .setVarOrder [2, 0],
   .var 10 0 false, .var 10 1 false, .var 10 2 false,   -- [x2, x1, x0, f]
   .bin 10 .and 2 1,                                    -- [x0∧x1, x2, x1, x0, f]
   .not 10 3,                                           -- [¬x0, x0∧x1, x2, x1, x0, f]
   .bin 10 .and 0 2,                                    -- [¬x0∧x2, ¬x0, x0∧x1, x2, x1, x0, f]
   .bin 10 .or 2 0,                                     -- [(x0∧x1)∨(¬x0∧x2), …, f]
   .gc,
   .addVars 1]

/-- the failed `xor`: no new handle, one node of garbage (5 nodes instead of 4) -/
example : (run Cfg.std (exHist.take 6)).hs = (run Cfg.std (exHist.take 7)).hs ∧
    (run Cfg.std (exHist.take 6)).r.st.store.count = 4 ∧
    (run Cfg.std (exHist.take 7)).r.st.store.count = 5 := by decide +kernel

/-- after the drops and the collection exactly the three nodes of `f` remain; the reordering
rebuilds `f` with five -/
example : (run Cfg.std (exHist.take 12)).r.st.store.count = 3 ∧
    (run Cfg.std (exHist.take 12)).hs = [.inner 3] ∧
    (run Cfg.std (exHist.take 13)).r.st.store.count = 5 ∧
    (run Cfg.std (exHist.take 13)).hs = [.inner 3] ∧
    (run Cfg.std (exHist.take 13)).l2v = [1, 2, 0] ∧
    (run Cfg.std (exHist.take 13)).v2l = [2, 0, 1] := by decide +kernel

/-- the final state: **the two routes give the same edge** (`inner 3`, first and last handle),
across the reordering and two collections -/
theorem exHist_run :
    (run Cfg.std exHist).hs =
      [.inner 3, .inner 4, .inner 1, .inner 7, .inner 6, .inner 2, .inner 5, .inner 3] ∧
    (run Cfg.std exHist).l2v = [1, 2, 0, 3] ∧ (run Cfg.std exHist).v2l = [2, 0, 1, 3] ∧
    (run Cfg.std exHist).n = 4 ∧ (run Cfg.std exHist).gcCount = 3 ∧
    (run Cfg.std exHist).r.rc = #[2, 3, 2, 3, 3, 4, 2, 2] := by decide +kernel

/-- the ghost: the expressions of the eight handles -/
theorem exHist_ghost :
    (runT Cfg.std exHist).2 =
      [.bin .or (.bin .and (.var 0 false) (.var 1 false))
          (.bin .and (.not (.var 0 false)) (.var 2 false)),
       .bin .and (.not (.var 0 false)) (.var 2 false),
       .not (.var 0 false),
       .bin .and (.var 0 false) (.var 1 false),
       .var 2 false, .var 1 false, .var 0 false,
       .ite (.var 0 false) (.var 1 false) (.var 2 false)] := by decide +kernel

/-- all theorems apply to it (no hypothesis besides `Cfg.OK`) -/
example : GInv (run Cfg.std exHist) := (run_inv cfg_std_ok exHist).1

/-- `global_canonical` on the example: since the two handles are the same edge, the two
expressions specify the same function — `(x0 ∧ x1) ∨ (¬x0 ∧ x2) = ite(x0, x1, x2)` — obtained
from the machine, not from Boolean algebra -/
example : ∀ ρ : Nat → Bool, ((ρ 0 && ρ 1) || (!ρ 0 && ρ 2)) = (if ρ 0 then ρ 1 else ρ 2) := by
  have h := global_canonical cfg_std_ok exHist 0 7 (.inner 3) (.inner 3) _ _
    (by rw [exHist_run.1]; rfl) (by rw [exHist_run.1]; rfl)
    (by rw [exHist_ghost]; rfl) (by rw [exHist_ghost]; rfl)
  exact h.mp rfl

/-- and conversely two handles with different functions are different edges -/
example : (run Cfg.std exHist).hs[0]? ≠ (run Cfg.std exHist).hs[1]? := by
  rw [exHist_run.1]; decide

/-- `global_node_count` on the example: `f` has 3 nodes (+ 2 terminals) under the initial order
and 5 (+ 2) after `set_var_order [2, 0]` -/
example : QueriesS.nodeCountS (run Cfg.std (exHist.take 12)).r.st.store 20 (.inner 3) = 5 ∧
    QueriesS.nodeCountS (run Cfg.std (exHist.take 13)).r.st.store 20 (.inner 3) = 7 := by
  decide +kernel

/-- dropping every handle and collecting empties the store -/
example : (run Cfg.std (exHist ++ [.drop 0, .drop 0, .drop 0, .drop 0, .drop 0, .drop 0, .drop 0,
    .drop 0, .gc])).r.st.store.count = 0 := by decide +kernel

/-- the same history under the other configuration (no cache, reversed table iteration): the
theorems apply as well, and the handles again coincide -/
example : (run ⟨Policy.none, Heap.firstFree, List.reverse⟩ exHist).hs[0]? =
    (run ⟨Policy.none, Heap.firstFree, List.reverse⟩ exHist).hs[7]? := by decide +kernel

end OxiddModel.Bdd.Global
