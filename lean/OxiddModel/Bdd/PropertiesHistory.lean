import OxiddModel.Bdd.History

/-!
# C01 / C03 over histories (simple BDD rules, tree level)

C01: *"two function handles compare equal if and only if they denote the same function over the
manager's variables … regardless of the sequence of operations, handle drops, garbage collections,
variable additions and reorderings through which the two handles were obtained."*

C03: *"Whenever no operation is in progress, every stored inner node has all children on strictly
lower levels (or terminals), violates none of its kind's reduction rules, is listed in exactly the
level it reports, and no two nodes of one level have identical children; the variable-to-level and
level-to-variable maps are mutually inverse permutations … the node count of any handle equals the
size of the unique reduced diagram of its function under the current order"*, *"after every step of
every explored history"*.

`History.lean` defines the abstract manager (`MState`, `ManagerOp`, `step`, `run`, `Reachable`) and
the invariant `Inv`, and proves that each kind of step preserves it. Here the induction over
histories is carried out and the consequences for reachable states are drawn. All theorems are for
**every** history (list of commands with arbitrary intermediate garbage), every number of levels
and every number of handles; nothing is bounded.

What is *not* in the machine (see the final report of the area): `substitute` and
`pick_cube_dd_set` are not commands (their per-call theorems `bdd_subst_*`, `literal_followed` are
at tree level only); operations run atomically (no interleaving inside one operation, no
out-of-memory abort); the unique table is a set of trees (hash consing itself – that equal trees
get the same node – is `StoreRefine.lean`/`ApplyS.lean`), so "listed in exactly the level it
reports" is the statement that a stored tree's root level is `< numLevels` and a node is
identified with (level, children); the variable ↔ level maps are represented by `l2v` alone (a
permutation of `[0, numLevels)`, `v2l` is its inverse by definition).
-/
namespace OxiddModel.Bdd.History
open OxiddModel.Bdd OxiddModel.Bdd.BDD OxiddModel.Reorder

/-! ## 1. the invariant holds after every step of every history -/

/-- the fresh manager satisfies the invariant -/
theorem inv_init : Inv init where
  handlesGood := fun _ h => by cases h
  storeWF :=
    { nodup := List.nodup_nil
      inner := fun _ h => by cases h
      closed := fun _ h => by cases h
      ordered := fun _ h => by cases h
      levels := fun _ h => by cases h
      handles := fun _ h => by cases h }
  storeGood := fun _ h => by cases h
  l2vPerm := List.Perm.refl _
  specLen := rfl
  sem := fun i f sf h => by simp [init] at h

/-- **Every command preserves the invariant** – well-formed or not, whatever garbage it leaves:
handle-creating operations, `clone`, `drop`, `gc`, `addVars`, `swap`. -/
theorem inv_step {s : MState} (inv : Inv s) (op : ManagerOp) (g : List BDD) :
    Inv (step s op g) := by
  cases op with
  | drop i =>
    show Inv (if i < s.handles.length then
      { s with handles := s.handles.eraseIdx i, spec := s.spec.eraseIdx i } else s)
    split
    · exact inv_drop inv i
    · exact inv
  | gc => exact inv_gc inv
  | addVars k => exact inv_addVars inv k
  | swap u =>
    show Inv (if u + 1 < s.numLevels then s.swapped u g else s)
    split
    · exact inv_swapped inv ‹_› g
    · exact inv
  | const b => exact inv_opResult inv (.const b) g
  | var l => exact inv_opResult inv (.var l) g
  | notVar l => exact inv_opResult inv (.notVar l) g
  | not i => exact inv_opResult inv (.not i) g
  | bin o i j => exact inv_opResult inv (.bin o i j) g
  | ite i j k => exact inv_opResult inv (.ite i j k) g
  | quant q i j => exact inv_opResult inv (.quant q i j) g
  | applyQuant q o i j k => exact inv_opResult inv (.applyQuant q o i j k) g
  | restrict i j => exact inv_opResult inv (.restrict i j) g
  | pickDD c i => exact inv_opResult inv (.pickDD c i) g
  | clone i => exact inv_opResult inv (.clone i) g

theorem inv_run_from (h : List (ManagerOp × List BDD)) {s : MState} (inv : Inv s) :
    Inv (run h s) := by
  induction h generalizing s with
  | nil => exact inv
  | cons x h ih => obtain ⟨op, g⟩ := x; exact ih (inv_step inv op g)

/-- **C01/C03 for all histories**: the invariant holds in every state of every history – for every
list of commands and every resolution of the intermediate-garbage nondeterminism. -/
theorem inv_run (h : List (ManagerOp × List BDD)) : Inv (run h init) :=
  inv_run_from h inv_init

/-- the same, for the inductively defined set of reachable states -/
theorem inv_reachable {s : MState} (hs : Reachable s) : Inv s := by
  induction hs with
  | init => exact inv_init
  | step op g _ ih => exact inv_step ih op g

/-! ## 2. ill-formed commands; progress -/

/-- the commands that create a handle -/
def ManagerOp.creates : ManagerOp → Bool
  | .drop _ | .gc | .addVars _ | .swap _ => false
  | _ => true

/-- a command is well-formed in a state: positions and levels in range, the `vars` operand of a
quantification a variable set, the `vars` operand of `restrict` a literal cube -/
def WellFormed (s : MState) : ManagerOp → Prop
  | .const _ => True
  | .var l => l < s.numLevels
  | .notVar l => l < s.numLevels
  | .not i => i < s.handles.length
  | .bin _ i j => i < s.handles.length ∧ j < s.handles.length
  | .ite i j k => i < s.handles.length ∧ j < s.handles.length ∧ k < s.handles.length
  | .quant _ i j => i < s.handles.length ∧ ∃ v, s.handles[j]? = some v ∧ IsVarSet 0 v
  | .applyQuant _ _ i j k =>
    i < s.handles.length ∧ j < s.handles.length ∧ ∃ v, s.handles[k]? = some v ∧ IsVarSet 0 v
  | .restrict i j => i < s.handles.length ∧ ∃ c, s.handles[j]? = some c ∧ IsLitCube 0 c
  | .pickDD _ i => i < s.handles.length
  | .clone i => i < s.handles.length
  | .drop i => i < s.handles.length
  | .gc => True
  | .addVars _ => True
  | .swap u => u + 1 < s.numLevels

theorem arg_none {s : MState} {i : Nat} (h : ¬ i < s.handles.length) : s.arg i = none := by
  unfold MState.arg
  rw [List.getElem?_eq_none (by omega)]

theorem arg_some {s : MState} (inv : Inv s) {i : Nat} (h : i < s.handles.length) :
    s.arg i = some (s.handles[i], s.spec[i]'(by rw [inv.specLen]; exact h)) := by
  unfold MState.arg
  rw [List.getElem?_eq_getElem h, List.getElem?_eq_getElem (by rw [inv.specLen]; exact h)]

theorem arg_fst {s : MState} {i : Nat} {a : BDD × Fn} (h : s.arg i = some a) :
    s.handles[i]? = some a.1 := (arg_eq_some.mp h).1

theorem isVarSetB_complete {n : Nat} {v : BDD} (h : IsVarSet n v) : isVarSetB n v = true := by
  induction h with
  | top => rfl
  | node hl _ ih => simp [isVarSetB, hl, ih]

theorem isLitCubeB_complete {n : Nat} {v : BDD} (h : IsLitCube n v) : isLitCubeB n v = true := by
  induction h with
  | top => rfl
  | pos hl _ ih => simp [isLitCubeB, hl, ih]
  | neg hl _ ih => simp [isLitCubeB, hl, ih]

/-- **An ill-formed command leaves the state unchanged** (position or level out of range, `vars`
operand not of the required shape). -/
theorem step_illformed (s : MState) (op : ManagerOp) (g : List BDD) (h : ¬ WellFormed s op) :
    step s op g = s := by
  have hres : ∀ op', opResult s op' = none →
      (match opResult s op' with
        | some (r, f) => s.withResult r f g
        | none => s) = s := by
    intro op' h'; rw [h']
  cases op with
  | const b => exact absurd trivial h
  | var l => exact hres _ (by simp only [opResult]; exact if_neg h)
  | notVar l => exact hres _ (by simp only [opResult]; exact if_neg h)
  | not i => exact hres _ (by simp only [opResult, arg_none h, Option.bind_none])
  | pickDD c i => exact hres _ (by simp only [opResult, arg_none h, Option.bind_none])
  | clone i => exact hres _ (by simp only [opResult, arg_none h])
  | bin o i j =>
    refine hres _ ?_
    simp only [WellFormed, not_and] at h
    by_cases hi : i < s.handles.length
    · simp only [opResult, arg_none (h hi), Option.bind_none, Option.bind_fun_none]
    · simp only [opResult, arg_none hi, Option.bind_none]
  | ite i j k =>
    refine hres _ ?_
    simp only [WellFormed, not_and] at h
    by_cases hi : i < s.handles.length
    · by_cases hj : j < s.handles.length
      · simp only [opResult, arg_none (h hi hj), Option.bind_none, Option.bind_fun_none]
      · simp only [opResult, arg_none hj, Option.bind_none, Option.bind_fun_none]
    · simp only [opResult, arg_none hi, Option.bind_none]
  | quant q i j =>
    refine hres _ ?_
    simp only [WellFormed, not_and] at h
    cases ha : opResult s (.quant q i j) with
    | none => rfl
    | some p =>
      exfalso
      simp only [opResult, Option.bind_eq_some_iff] at ha
      obtain ⟨a, ha, v, hv, hp⟩ := ha
      split at hp
      · rename_i hvs
        have hi : i < s.handles.length := (List.getElem?_eq_some_iff.mp (arg_fst ha)).1
        exact h hi ⟨v.1, arg_fst hv, isVarSetB_sound _ _ hvs⟩
      · cases hp
  | applyQuant q o i j k =>
    refine hres _ ?_
    simp only [WellFormed, not_and] at h
    cases ha : opResult s (.applyQuant q o i j k) with
    | none => rfl
    | some p =>
      exfalso
      simp only [opResult, Option.bind_eq_some_iff] at ha
      obtain ⟨a, ha, b, hb, v, hv, hp⟩ := ha
      split at hp
      · rename_i hvs
        have hi : i < s.handles.length := (List.getElem?_eq_some_iff.mp (arg_fst ha)).1
        have hj : j < s.handles.length := (List.getElem?_eq_some_iff.mp (arg_fst hb)).1
        exact h hi hj ⟨v.1, arg_fst hv, isVarSetB_sound _ _ hvs⟩
      · cases hp
  | restrict i j =>
    refine hres _ ?_
    simp only [WellFormed, not_and] at h
    cases ha : opResult s (.restrict i j) with
    | none => rfl
    | some p =>
      exfalso
      simp only [opResult, Option.bind_eq_some_iff] at ha
      obtain ⟨a, ha, c, hc, hp⟩ := ha
      split at hp
      · rename_i hcs
        have hi : i < s.handles.length := (List.getElem?_eq_some_iff.mp (arg_fst ha)).1
        exact h hi ⟨c.1, arg_fst hc, isLitCubeB_sound _ _ hcs⟩
      · cases hp
  | drop i =>
    show (if i < s.handles.length then
      { s with handles := s.handles.eraseIdx i, spec := s.spec.eraseIdx i } else s) = s
    exact if_neg h
  | gc => exact absurd trivial h
  | addVars k => exact absurd trivial h
  | swap u =>
    show (if u + 1 < s.numLevels then s.swapped u g else s) = s
    exact if_neg h

/-- **Progress**: in a state satisfying the invariant a well-formed handle-creating command does
create a handle (the machine never rejects a well-formed command). -/
theorem step_wellformed {s : MState} (inv : Inv s) (op : ManagerOp) (g : List BDD)
    (hw : WellFormed s op) (hc : op.creates = true) :
    ∃ r f, opResult s op = some (r, f) ∧ step s op g = s.withResult r f g := by
  have hstep : ∀ {op' : ManagerOp} {r : BDD} {f : Fn}, opResult s op' = some (r, f) →
      (match opResult s op' with
        | some (r, f) => s.withResult r f g
        | none => s) = s.withResult r f g := by
    intro op' r f h'; rw [h']
  have fin : ∀ {op' : ManagerOp}, (∃ p : BDD × Fn, opResult s op' = some p) →
      ∃ r f, opResult s op' = some (r, f) ∧
        (match opResult s op' with
          | some (r, f) => s.withResult r f g
          | none => s) = s.withResult r f g :=
    fun ⟨p, h⟩ => ⟨p.1, p.2, h, hstep h⟩
  cases op with
  | const b => exact ⟨_, _, rfl, rfl⟩
  | var l => exact fin ⟨_, if_pos hw⟩
  | notVar l => exact fin ⟨_, if_pos hw⟩
  | not i =>
    exact fin (by simp only [opResult, arg_some inv hw, Option.bind_some]; exact ⟨_, rfl⟩)
  | bin o i j =>
    exact fin (by
      simp only [opResult, arg_some inv hw.1, arg_some inv hw.2, Option.bind_some]
      exact ⟨_, rfl⟩)
  | ite i j k =>
    exact fin (by
      simp only [opResult, arg_some inv hw.1, arg_some inv hw.2.1, arg_some inv hw.2.2,
        Option.bind_some]
      exact ⟨_, rfl⟩)
  | quant q i j =>
    obtain ⟨hi, v, hv, hvs⟩ := hw
    obtain ⟨hj, rfl⟩ := List.getElem?_eq_some_iff.mp hv
    exact fin (by
      simp only [opResult, arg_some inv hi, arg_some inv hj, Option.bind_some,
        isVarSetB_complete hvs, if_true]
      exact ⟨_, rfl⟩)
  | applyQuant q o i j k =>
    obtain ⟨hi, hj, v, hv, hvs⟩ := hw
    obtain ⟨hk, rfl⟩ := List.getElem?_eq_some_iff.mp hv
    exact fin (by
      simp only [opResult, arg_some inv hi, arg_some inv hj, arg_some inv hk, Option.bind_some,
        isVarSetB_complete hvs, if_true]
      exact ⟨_, rfl⟩)
  | restrict i j =>
    obtain ⟨hi, c, hc', hcs⟩ := hw
    obtain ⟨hj, rfl⟩ := List.getElem?_eq_some_iff.mp hc'
    exact fin (by
      simp only [opResult, arg_some inv hi, arg_some inv hj, Option.bind_some,
        isLitCubeB_complete hcs, if_true]
      exact ⟨_, rfl⟩)
  | pickDD c i =>
    exact fin (by simp only [opResult, arg_some inv hw, Option.bind_some]; exact ⟨_, rfl⟩)
  | clone i =>
    exact fin (by simp only [opResult, arg_some inv hw]; exact ⟨_, rfl⟩)
  | drop i => cases hc
  | gc => cases hc
  | addVars k => cases hc
  | swap u => cases hc

/-- a handle-creating command never removes a stored node and never touches an existing handle -/
theorem step_creates_monotone (s : MState) (op : ManagerOp) (g : List BDD)
    (hc : op.creates = true) :
    (∀ x ∈ s.store, x ∈ (step s op g).store) ∧
    (∀ (i : Nat) (f : BDD), s.handles[i]? = some f → (step s op g).handles[i]? = some f) ∧
    (step s op g).numLevels = s.numLevels ∧ (step s op g).l2v = s.l2v := by
  have key : ∀ op', (∀ x ∈ s.store, x ∈ (match opResult s op' with
        | some (r, f) => s.withResult r f g
        | none => s).store) ∧
      (∀ (i : Nat) (f : BDD), s.handles[i]? = some f → (match opResult s op' with
        | some (r, f) => s.withResult r f g
        | none => s).handles[i]? = some f) ∧
      (match opResult s op' with
        | some (r, f) => s.withResult r f g
        | none => s).numLevels = s.numLevels ∧
      (match opResult s op' with
        | some (r, f) => s.withResult r f g
        | none => s).l2v = s.l2v := by
    intro op'
    cases opResult s op' with
    | none => exact ⟨fun _ h => h, fun _ _ h => h, rfl, rfl⟩
    | some p =>
      refine ⟨fun x hx => extend_subset _ _ x hx, fun i f hf => ?_, rfl, rfl⟩
      show (s.handles ++ [p.1])[i]? = some f
      rw [List.getElem?_append_left (List.getElem?_eq_some_iff.mp hf).1]
      exact hf
  cases op with
  | drop i => cases hc
  | gc => cases hc
  | addVars k => cases hc
  | swap u => cases hc
  | const b => exact key (.const b)
  | var l => exact key (.var l)
  | notVar l => exact key (.notVar l)
  | not i => exact key (.not i)
  | bin o i j => exact key (.bin o i j)
  | ite i j k => exact key (.ite i j k)
  | quant q i j => exact key (.quant q i j)
  | applyQuant q o i j k => exact key (.applyQuant q o i j k)
  | restrict i j => exact key (.restrict i j)
  | pickDD c i => exact key (.pickDD c i)
  | clone i => exact key (.clone i)

/-! ## 3. C01: canonicity after any history -/

/-- **C01.** In every state satisfying the invariant – hence after every history – two live
handles are equal (as diagrams, i.e. as edges of the hash-consed store) iff they denote the same
function of the levels. -/
theorem handles_canonical {s : MState} (inv : Inv s) (i j : Nat) (hi : i < s.handles.length)
    (hj : j < s.handles.length) :
    s.handles[i] = s.handles[j] ↔ ∀ σ, s.handles[i].eval σ = s.handles[j].eval σ :=
  bdd_canonical _ _ 0 (inv.handlesGood _ (List.getElem_mem hi)).1
    (inv.handlesGood _ (List.getElem_mem hj)).1

/-- **C02/C04 lifted to histories.** Every live handle denotes the function of the *variables*
that the history specifies for it. -/
theorem history_semantics {s : MState} (hs : Reachable s) (i : Nat) (hi : i < s.handles.length)
    (hi' : i < s.spec.length) (ρ : Nat → Bool) : den s.l2v s.handles[i] ρ = s.spec[i] ρ :=
  (inv_reachable hs).sem i _ _ (List.getElem?_eq_getElem hi) (List.getElem?_eq_getElem hi') ρ

theorem spec_length {s : MState} (hs : Reachable s) : s.spec.length = s.handles.length :=
  (inv_reachable hs).specLen

/-- **C01, in terms of the specified functions.** Two live handles are equal iff the functions of
the variables they are supposed to denote – by whatever sequence of operations, drops, collections,
variable additions and reorderings they were obtained – are equal. -/
theorem handles_canonical_spec {s : MState} (inv : Inv s) (i j : Nat) (hi : i < s.handles.length)
    (hj : j < s.handles.length) (hi' : i < s.spec.length) (hj' : j < s.spec.length) :
    s.handles[i] = s.handles[j] ↔ ∀ ρ, s.spec[i] ρ = s.spec[j] ρ := by
  have si := inv.sem i _ _ (List.getElem?_eq_getElem hi) (List.getElem?_eq_getElem hi')
  have sj := inv.sem j _ _ (List.getElem?_eq_getElem hj) (List.getElem?_eq_getElem hj')
  constructor
  · intro h ρ
    rw [← si ρ, ← sj ρ, h]
  · intro h
    rw [handles_canonical inv i j hi hj]
    intro σ
    obtain ⟨ρ, rfl⟩ := comp_surj (lvFun_inj inv.l2vPerm) σ
    rw [si ρ, sj ρ, h ρ]

/-- C01 for every history, in one statement -/
theorem canonical_after_any_history (h : List (ManagerOp × List BDD)) (i j : Nat)
    (hi : i < (run h init).handles.length) (hj : j < (run h init).handles.length)
    (hi' : i < (run h init).spec.length) (hj' : j < (run h init).spec.length) :
    (run h init).handles[i] = (run h init).handles[j] ↔
      ∀ ρ, (run h init).spec[i] ρ = (run h init).spec[j] ρ :=
  handles_canonical_spec (inv_run h) i j hi hj hi' hj'

/-! ## 4. garbage collection -/

/-- **`gc` preserves the handles and their functions and leaves exactly the reachable nodes.**
Handles, specified functions, level map unchanged (so every handle denotes the same function); a
node is stored afterwards iff it was stored and is reachable from a live handle; the new store is
a permutation of `reachList handles`; every inner node of every live handle is still stored. -/
theorem gc_preserves_handles {s : MState} (inv : Inv s) (g : List BDD) :
    (step s .gc g).handles = s.handles ∧ (step s .gc g).spec = s.spec ∧
    (step s .gc g).l2v = s.l2v ∧ (step s .gc g).numLevels = s.numLevels ∧
    (∀ n, n ∈ (step s .gc g).store ↔ n ∈ s.store ∧ Reach s.handles n) ∧
    (step s .gc g).store.Perm (reachList s.handles) ∧
    (∀ h ∈ s.handles, ∀ x, Subterm x h → x.isLeaf = false → x ∈ (step s .gc g).store) :=
  ⟨rfl, rfl, rfl, rfl, gc_exact inv.storeWF, gc_perm_reachList inv.storeWF,
    fun h hh x hx hl =>
      gc_handles_untouched inv.storeWF h hh x ((reach_singleton_iff h x).mpr hx) hl⟩

/-- after dropping every handle a collection empties the store, after any history -/
theorem gc_all_dropped_history {s : MState} (inv : Inv s) (hh : s.handles = []) (g : List BDD) :
    (step s .gc g).store = [] := by
  show gc s.handles s.numLevels s.store = []
  have wf := inv.storeWF
  rw [hh] at wf ⊢
  exact gc_all_dropped wf

/-! ## 5. C03: the stored diagram -/

/-- **C03, read off the invariant.** For every stored inner node `node l t e`: its level exists
(`l < numLevels`); it violates no reduction rule (`t ≠ e`, and it is in normal form altogether);
each child is a terminal or a *stored* node on a strictly lower level (`l < level child`); and no
node is stored twice (a node being its level and children: no two nodes of one level have identical
children). Every inner node of a live handle is stored. -/
theorem stored_nodes_c03 {s : MState} (inv : Inv s) :
    (∀ l t e, BDD.node l t e ∈ s.store →
      l < s.numLevels ∧ t ≠ e ∧ NF 0 (.node l t e) ∧
      (∀ c ∈ [t, e], c.isLeaf = true ∨ (c ∈ s.store ∧ ∃ lc, levelOf c = some lc ∧ l < lc))) ∧
    (∀ i j (hi : i < s.store.length) (hj : j < s.store.length), s.store[i] = s.store[j] → i = j) ∧
    (∀ h ∈ s.handles, ∀ x, Subterm x h → x.isLeaf = true ∨ x ∈ s.store) ∧
    s.l2v.Perm (List.range s.numLevels) := by
  refine ⟨fun l t e hm => ?_, fun i j hi hj h => (List.getElem_inj inv.storeWF.nodup).mp h,
    fun h hh x hx => ?_, inv.l2vPerm⟩
  · have hg := inv.storeGood _ hm
    refine ⟨hg.2.1, hg.1.2.1, hg.1, fun c hc => ?_⟩
    have hcl := inv.storeWF.closed _ hm c (by simpa [kids] using hc)
    rcases hcl with hcl | hcl
    · exact .inl hcl
    · right
      refine ⟨hcl, ?_⟩
      obtain ⟨lc, hlc⟩ := levelOf_of_inner (inv.storeWF.inner c hcl)
      exact ⟨lc, hlc, parent_level_lt ⟨0, hg.1.1⟩ (by simpa [kids] using hc) rfl hlc⟩
  · exact reach_mem_store inv.storeWF.closed inv.storeWF.handles
      (((reach_singleton_iff h x).mpr hx).trans (.root hh))

/-- **C03, "the variable-to-level and level-to-variable maps are mutually inverse permutations".**
The level → variable map restricted to `[0, numLevels)` is a bijection onto `[0, numLevels)` (so
the variable → level map, its inverse, exists and is unique), after every history. -/
theorem l2v_bijective {s : MState} (inv : Inv s) :
    (∀ x, x < s.numLevels → lvFun s.l2v x < s.numLevels) ∧
    (∀ x y, lvFun s.l2v x = lvFun s.l2v y → x = y) ∧
    (∀ v, v < s.numLevels → ∃ x, x < s.numLevels ∧ lvFun s.l2v x = v) := by
  refine ⟨fun x hx => lvFun_lt inv.l2vPerm hx, lvFun_inj inv.l2vPerm, fun v hv => ?_⟩
  have hm : v ∈ s.l2v := inv.l2vPerm.mem_iff.mpr (List.mem_range.mpr hv)
  obtain ⟨x, hx, hxv⟩ := List.mem_iff_getElem.mp hm
  refine ⟨x, by rw [← l2v_length inv.l2vPerm]; exact hx, ?_⟩
  unfold lvFun
  rw [List.getElem?_eq_getElem hx, Option.getD_some, hxv]

/-- **C03, node counts.** For every live handle: `node_count` is the number of distinct subterms
(nodes of the shared diagram, terminals included) – the length of *any* duplicate-free enumeration
of them –, all of them are terminals or stored; two live handles with the same function have the
same count; and any normal-form diagram of the same function has that count (it is the same
diagram): the count is the size of the unique reduced diagram of the function under the current
order. -/
theorem nodecount_minimal {s : MState} (inv : Inv s) (i : Nat) (hi : i < s.handles.length) :
    (∀ L : List BDD, L.Nodup → (∀ x, x ∈ L ↔ Subterm x s.handles[i]) →
      L.length = nodeCount s.handles[i]) ∧
    (∀ x, Subterm x s.handles[i] → x.isLeaf = true ∨ x ∈ s.store) ∧
    (∀ j (hj : j < s.handles.length), (∀ σ, s.handles[i].eval σ = s.handles[j].eval σ) →
      nodeCount s.handles[i] = nodeCount s.handles[j]) ∧
    (∀ t, NF 0 t → (∀ σ, t.eval σ = s.handles[i].eval σ) →
      t = s.handles[i] ∧ nodeCount t = nodeCount s.handles[i]) := by
  have hgi := (inv.handlesGood _ (List.getElem_mem hi)).1
  refine ⟨(nodeCount_subtrees _).2.2,
    (stored_nodes_c03 inv).2.2.1 _ (List.getElem_mem hi),
    fun j hj h => nodeCount_canonical _ _ 0 hgi (inv.handlesGood _ (List.getElem_mem hj)).1 h,
    fun t ht h => ?_⟩
  have := (bdd_canonical t _ 0 ht hgi).mpr h
  exact ⟨this, by rw [this]⟩

/-! ## 6. adding variables -/

/-- **C16 clause "adding variables never changes the function denoted by an existing handle".**
`addVars k` leaves handles, store and specified functions untouched and the level → variable map
unchanged as a function, so every diagram denotes the same function of the variables (and of the
levels) as before; the new variables are the new bottom levels. -/
theorem addVars_denotation_stable {s : MState} (inv : Inv s) (k : Nat) (g : List BDD) :
    (step s (.addVars k) g).handles = s.handles ∧ (step s (.addVars k) g).store = s.store ∧
    (step s (.addVars k) g).spec = s.spec ∧
    (step s (.addVars k) g).numLevels = s.numLevels + k ∧
    lvFun (step s (.addVars k) g).l2v = lvFun s.l2v ∧
    (∀ t, den (step s (.addVars k) g).l2v t = den s.l2v t) ∧
    (∀ x, s.numLevels ≤ x → x < s.numLevels + k → lvFun (step s (.addVars k) g).l2v x = x) := by
  have hl : lvFun (s.l2v ++ (List.range k).map (s.numLevels + ·)) = lvFun s.l2v :=
    lvFun_addVars (l2v_length inv.l2vPerm) k
  refine ⟨rfl, rfl, rfl, rfl, hl, fun t => ?_, fun x hx _ => ?_⟩
  · show den (s.l2v ++ (List.range k).map (s.numLevels + ·)) t = den s.l2v t
    unfold den; rw [hl]
  · show lvFun (s.l2v ++ (List.range k).map (s.numLevels + ·)) x = x
    rw [hl]; exact lvFun_ge inv.l2vPerm hx

/-! ## 7. reordering -/

/-- **A level swap preserves every handle's function of the variables and handle equality.** -/
theorem swap_preserves_functions {s : MState} (inv : Inv s) {u : Nat} (hu : u + 1 < s.numLevels)
    (g : List BDD) :
    (step s (.swap u) g).spec = s.spec ∧
    (step s (.swap u) g).handles = s.handles.map (swapTree u) ∧
    (step s (.swap u) g).l2v = swapAdj u s.l2v ∧
    (∀ f ∈ s.handles, ∀ ρ, den (step s (.swap u) g).l2v (swapTree u f) ρ = den s.l2v f ρ) ∧
    (∀ f ∈ s.handles, ∀ f' ∈ s.handles, swapTree u f = swapTree u f' ↔ f = f') := by
  have hst : step s (.swap u) g = s.swapped u g := if_pos hu
  rw [hst]
  refine ⟨rfl, rfl, rfl, fun f hf ρ => ?_, fun f hf f' hf' => ?_⟩
  · exact swap_den (by rw [l2v_length inv.l2vPerm]; exact hu) (inv.handlesGood f hf).1.1 ρ
  · exact swapTree_eq_iff u (inv.handlesGood f hf).1 (inv.handlesGood f' hf').1

theorem run_swapOps_cons (u : Nat) (sw : List Nat) (s : MState) :
    run (swapOps (u :: sw)) s = run (swapOps sw) (step s (.swap u) []) := rfl

/-- **`set_var_order` as a list of adjacent swaps.** Running any list of in-range level swaps
preserves the invariant, leaves the specified functions untouched (so by `Inv.sem` every handle
still denotes the same function of the variables), maps every handle through `swapTrees`, and
permutes the level → variable map by the same swaps. -/
theorem reorder_preserves_functions (sw : List Nat) {s : MState} (inv : Inv s)
    (hsw : ∀ u ∈ sw, u + 1 < s.numLevels) :
    Inv (run (swapOps sw) s) ∧ (run (swapOps sw) s).spec = s.spec ∧
    (run (swapOps sw) s).handles = s.handles.map (swapTrees sw) ∧
    (run (swapOps sw) s).l2v = applySwaps sw s.l2v ∧
    (run (swapOps sw) s).numLevels = s.numLevels := by
  induction sw generalizing s with
  | nil =>
    have hid : ∀ l : List BDD, l.map (swapTrees []) = l := fun l => by
      induction l with
      | nil => rfl
      | cons a l ih => rw [List.map_cons, ih]; rfl
    exact ⟨inv, rfl, (hid _).symm, rfl, rfl⟩
  | cons u sw ih =>
    have hu := hsw u (List.mem_cons_self ..)
    have hst : step s (.swap u) [] = s.swapped u [] := if_pos hu
    rw [run_swapOps_cons, hst]
    obtain ⟨h1, h2, h3, h4, h5⟩ := ih (s := s.swapped u []) (inv_swapped inv hu [])
      (fun v hv => hsw v (List.mem_cons_of_mem _ hv))
    refine ⟨h1, h2, ?_, h4, h5⟩
    rw [h3]
    show (s.handles.map (swapTree u)).map (swapTrees sw) = s.handles.map (swapTrees (u :: sw))
    rw [List.map_map]
    rfl

theorem validSwaps_inRange : ∀ (sw l : List Nat), ValidSwaps sw l → ∀ u ∈ sw, u + 1 < l.length := by
  intro sw
  induction sw with
  | nil => intro l _ u hu; cases hu
  | cons i sw ih =>
    intro l hv u hu
    rcases List.mem_cons.mp hu with rfl | hu
    · exact hv.1.1
    · have := ih _ hv.2 u hu
      rwa [swapAdj_length] at this

/-- the swaps emitted by `bubble_sort` for a target sequence over all levels -/
theorem set_var_order_preserves_functions {s : MState} (inv : Inv s) (seq : List Nat) (fuel : Nat)
    (hlen : seq.length = s.numLevels) :
    Inv (run (swapOps (bubbleSort fuel seq).2) s) ∧
    (run (swapOps (bubbleSort fuel seq).2) s).spec = s.spec ∧
    (run (swapOps (bubbleSort fuel seq).2) s).handles =
      s.handles.map (swapTrees (bubbleSort fuel seq).2) :=
  have h := reorder_preserves_functions (bubbleSort fuel seq).2 inv (fun u hu => by
    rw [← hlen]; exact validSwaps_inRange _ _ (bubbleSort_swaps seq fuel).2.1 u hu)
  ⟨h.1, h.2.1, h.2.2.1⟩

/-! ## 8. cube picking inside a history (C13) -/

/-- The handle created by `pickDD choice i` is related to operand `i`'s *specified* function `sf`
as C13 demands: it is ⊥ iff `sf` is unsatisfiable; it implies `sf`; and for a satisfiable `sf` it
is a cube diagram. -/
theorem pick_result_spec {s : MState} (inv : Inv s) (choice : Nat → Bool) {i : Nat} {a : BDD × Fn}
    (ha : s.arg i = some a) :
    opResult s (.pickDD choice i) =
      some (pickCubeDD choice a.1, den s.l2v (pickCubeDD choice a.1)) ∧
    (pickCubeDD choice a.1 = .leaf false ↔ ∀ ρ, a.2 ρ = false) ∧
    (∀ ρ, den s.l2v (pickCubeDD choice a.1) ρ = true → a.2 ρ = true) ∧
    ((∃ ρ, a.2 ρ = true) → IsCube 0 (pickCubeDD choice a.1)) := by
  have A := inv.arg ha
  have hinj := lvFun_inj inv.l2vPerm
  refine ⟨by simp only [opResult, ha, Option.bind_some], ?_, fun ρ h => ?_, fun ⟨ρ, hρ⟩ => ?_⟩
  · rw [(pick_none_iff_false choice a.1 a.1 0 A.good.1).2.1]
    constructor
    · intro h ρ; rw [← A.sem ρ]; exact h _
    · intro h σ
      obtain ⟨ρ, rfl⟩ := comp_surj hinj σ
      rw [A.sem ρ]; exact h ρ
  · rw [← A.sem ρ]
    exact pickCubeDD_implies choice a.1 _ h
  · exact (pick_is_cube choice a.1 a.1 0 A.good.1 ⟨_, (A.sem ρ).trans hρ⟩).1

/-! ## 9. non-vacuity: a concrete history

21 commands over 3 (later 4) variables: a diagram with a shared node (`x0 ? x2 : (¬x1 ∧ x2)`, the
node `x2` has two parents), intermediate garbage (accepted: `x0 ∧ x1` with its child `x1`; rejected:
a node of a non-existent level and an unreduced node), two drops, a collection that frees three
nodes, `addVars`, a level swap, a second derivation of the same function *after* the collection and
the reordering (which must and does yield the same handle), a quantification whose variable set is
a handle created before the reordering, four ill-formed commands, a cube pick and a clone. -/
namespace ExHistory

/-- `x0 ∧ x1` – an intermediate result that no handle refers to -/
def garbage : List BDD :=
  [.node 0 (.node 1 (.leaf true) (.leaf false)) (.leaf false),   -- accepted, with its child x1
   .node 5 (.leaf true) (.leaf false),                           -- rejected: level 5 ≥ numLevels
   .node 0 (.leaf true) (.leaf true)]                            -- rejected: not reduced

def histA : List (ManagerOp × List BDD) :=
  [ (.addVars 3, []),
    (.var 0, []),                        -- h0 = x0
    (.var 2, []),                        -- h1 = x2
    (.notVar 1, []),                     -- h2 = ¬x1
    (.bin .and 2 1, garbage),            -- h3 = ¬x1 ∧ x2
    (.ite 0 1 3, []),                    -- h4 = x0 ? x2 : (¬x1 ∧ x2)   (node x2 shared)
    (.drop 2, []),                       -- drop ¬x1          → [x0, x2, ¬x1∧x2, ite]
    (.drop 2, []) ]                      -- drop ¬x1 ∧ x2     → [x0, x2, ite]

def histB : List (ManagerOp × List BDD) :=
  [ (.gc, []),                           -- frees ¬x1, x0∧x1, x1 (¬x1∧x2 is still a node of ite)
    (.addVars 1, []),                    -- a fourth variable
    (.swap 0, []),                       -- levels 0 and 1 exchanged: x1 is now on top
    (.notVar 0, []),                     -- h3 = ¬(variable at level 0) = ¬x1
    (.bin .or 0 3, []),                  -- h4 = x0 ∨ ¬x1
    (.bin .and 1 4, []),                 -- h5 = x2 ∧ (x0 ∨ ¬x1)   – the function of h2, second route
    (.quant .exists_ 2 0, []) ]          -- h6 = ∃x0. h2 = x2       – the function of h1

def histC : List (ManagerOp × List BDD) :=
  [ (.bin .xor 0 9, []),                 -- ill-formed: no handle 9
    (.var 4, []),                        -- ill-formed: no level 4
    (.swap 3, []),                       -- ill-formed: no level 4
    (.quant .forall_ 0 2, []),           -- ill-formed: handle 2 is not a variable set
    (.pickDD (fun _ => true) 2, []),     -- h7 = x1 ∧ x0 ∧ x2
    (.clone 7, []) ]                     -- h8 = h7

def x2 : BDD := .node 2 (.leaf true) (.leaf false)
/-- `x0 ? x2 : (¬x1 ∧ x2)` in the order `x1 < x0 < x2`: `x1 ? (x0 ∧ x2) : x2` -/
def f' : BDD := .node 0 (.node 1 x2 (.leaf false)) x2
def cube : BDD := .node 0 (.node 1 x2 (.leaf false)) (.leaf false)

/-- the observable part of the final state, computed by kernel evaluation of the model -/
theorem final_core :
    (run (histA ++ histB ++ histC) init).core =
      (4,
       [.node 1 (.leaf true) (.leaf false), x2, f',
        .node 0 (.leaf false) (.leaf true),
        .node 0 (.node 1 (.leaf true) (.leaf false)) (.leaf true), f', x2, cube, cube],
       [.node 1 (.leaf true) (.leaf false), x2, .node 0 (.leaf false) x2, f',
        .node 1 x2 (.leaf false), .node 0 (.leaf false) (.leaf true),
        .node 0 (.node 1 (.leaf true) (.leaf false)) (.leaf true), cube],
       [1, 0, 2, 3]) := by
  decide +kernel

/-- … and it satisfies the invariant (as does every state on the way) -/
theorem final_inv : Inv (run (histA ++ histB ++ histC) init) := inv_run _

/-- the invariant's executable parts, checked directly on the computed state (independently of
`inv_run`): all handles and stored nodes are well-formed, the store is duplicate-free and holds
every inner node of every handle -/
example :
    let s := run (histA ++ histB ++ histC) init
    s.handles.all (goodB s.numLevels) = true ∧ s.store.all (goodB s.numLevels) = true ∧
    s.store.Nodup ∧ (reachList s.handles).all (fun x => s.store.contains x) = true := by
  decide +kernel

/-- the collection frees garbage: 7 nodes before, 4 after, and exactly the reachable ones remain;
the rejected garbage never entered the store -/
example :
    (run histA init).store.length = 7 ∧ (run (histA ++ [(.gc, [])]) init).store.length = 4 ∧
    (run (histA ++ [(.gc, [])]) init).store.Perm (reachList (run histA init).handles) ∧
    BDD.node 5 (.leaf true) (.leaf false) ∉ (run histA init).store ∧
    BDD.node 0 (.node 1 (.leaf true) (.leaf false)) (.leaf false) ∈ (run histA init).store := by
  decide +kernel

/-- shared subgraph: `x2` is reached through both children of the root; the diagram has 5 nodes
(3 inner nodes stored once each, 2 terminals) -/
example :
    (run histA init).handles[2]? =
      some (.node 0 x2 (.node 1 (.leaf false) x2)) ∧
    nodeCount (.node 0 x2 (.node 1 (.leaf false) x2)) = 5 ∧
    (reachList [.node 0 x2 (.node 1 (.leaf false) x2)]).length = 3 := by
  decide +kernel

/-- the four ill-formed commands change nothing observable -/
example : (run (histA ++ histB ++ histC.take 4) init).core = (run (histA ++ histB) init).core := by
  decide +kernel

/-- the specified functions (ghost state) of the interesting handles, over *variables* -/
def fnAt (s : MState) (i : Nat) : Fn := (s.spec[i]?).getD (fun _ => false)

theorem spec_h2 (ρ : Nat → Bool) :
    fnAt (run (histA ++ histB) init) 2 ρ = (if ρ 0 then ρ 2 else (!ρ 1 && ρ 2)) := rfl
theorem spec_h5 (ρ : Nat → Bool) :
    fnAt (run (histA ++ histB) init) 5 ρ = (ρ 2 && (ρ 0 || !ρ 1)) := rfl
theorem spec_h6 (ρ : Nat → Bool) :
    fnAt (run (histA ++ histB) init) 6 ρ =
      ((if true then ρ 2 else (!ρ 1 && ρ 2)) || (if false then ρ 2 else (!ρ 1 && ρ 2))) := rfl

/-- **C01 on the example.** The two specified functions `x0 ? x2 : (¬x1 ∧ x2)` (built before the
collection and the reordering) and `x2 ∧ (x0 ∨ ¬x1)` (built afterwards) are equal, hence – by
`handles_canonical_spec`, without looking at the diagrams – the two handles are equal; and indeed
they are (`final_core`). Likewise `∃x0. h2 = x2 = h1`. -/
example :
    (run (histA ++ histB) init).handles[2]'(by decide +kernel) =
      (run (histA ++ histB) init).handles[5]'(by decide +kernel) := by
  rw [handles_canonical_spec (inv_run _) 2 5 (by decide +kernel) (by decide +kernel)
    (by decide +kernel) (by decide +kernel)]
  intro ρ
  have h2 := spec_h2 ρ
  have h5 := spec_h5 ρ
  simp only [fnAt, List.getElem?_eq_getElem (show 2 < (run (histA ++ histB) init).spec.length by
    decide +kernel), List.getElem?_eq_getElem (show 5 < (run (histA ++ histB) init).spec.length by
    decide +kernel), Option.getD_some] at h2 h5
  rw [h2, h5]
  cases ρ 0 <;> cases ρ 1 <;> cases ρ 2 <;> rfl

/-- instances of the headline theorems on the example state -/
example := inv_step final_inv (.bin .xor 1 2) garbage
example := handles_canonical final_inv 2 5 (by decide +kernel) (by decide +kernel)
example := history_semantics ((reachable_iff _).mpr ⟨histA ++ histB ++ histC, rfl⟩) 5
  (by decide +kernel) (by decide +kernel)
example := canonical_after_any_history (histA ++ histB ++ histC) 2 5 (by decide +kernel)
  (by decide +kernel) (by decide +kernel) (by decide +kernel)
example := gc_preserves_handles (inv_run histA) []
example := stored_nodes_c03 final_inv
example := l2v_bijective final_inv
example := nodecount_minimal final_inv 2 (by decide +kernel)
example := addVars_denotation_stable (inv_run (histA ++ [(.gc, [])])) 1 []
example := swap_preserves_functions (inv_run (histA ++ histB.take 2)) (u := 0) (by decide +kernel) []
example := set_var_order_preserves_functions final_inv [2, 0, 3, 1] 4 (by decide +kernel)
example := pick_result_spec final_inv (fun _ => true) (i := 2)
  (arg_some final_inv (i := 2) (by decide +kernel))
example := step_wellformed final_inv (.bin .xor 1 2) []
  (by
    show 1 < (run (histA ++ histB ++ histC) init).handles.length ∧
      2 < (run (histA ++ histB ++ histC) init).handles.length
    decide +kernel) rfl
example := step_illformed (run (histA ++ histB) init) (.var 4) []
  (by show ¬ 4 < (run (histA ++ histB) init).numLevels; decide +kernel)

end ExHistory

end OxiddModel.Bdd.History
