import OxiddModel.Bdd.LevelTableReinsert

/-!
# C01 (mechanism) — the hashed per-level unique tables refine the abstract store: headline theorems

Property C01 names `linear-hashtbl/src/raw.rs` and `LevelViewSet::get_or_insert` as the mechanism
of canonicity.  The store-level theorems of this framework (`inj_of_unique`, `applyS_spec`, the
C06/C07/C14/C20 layers) are stated over `Refine.Store`, whose unique table is a **linear search**
(`Store.find?`) and whose hash-consing invariant is `Store.Unique`.  The table theorems of C17
(`HashTbl/Properties.lean`) are about `RawTable` alone.  This file closes the gap between the two:

* the model `LStore` (`LevelTable.lean`) = slot array + one `HashTbl.Tbl` of ids per level, with
  `getOrInsert`/`mkNode`/`find`/`gcLevel` mirroring `LevelViewSet::get_or_insert` / `reduce` /
  `LevelViewSet::get` / the `retain` of `Manager::gc`, for an **arbitrary** hash function of the
  children;
* `LInv` — every level table satisfies the C17 invariant with "stored hash = hash of the node's
  *current* children", holds exactly the live ids of its level, no two with equal children;
* under `LInv` the hashed operations return what the linear-search operations return, `abs`
  commutes, `LInv` is preserved, and `LInv → (abs s).Unique`.  Hence every theorem about
  `Refine.Store` under `Unique` applies to stores maintained by the real table algorithm.
* changing a node's children in place without re-filing it breaks `LInv` and, two steps later,
  `Unique` (cause 1 of the `level_swap` defect repaired in /repo 1415cc0): concrete witness.

The only failure under `LInv` is `Err.capacity` (`Status::check_capacity`: a level table would
need more than `2^31` slots — a panic in the real code); `Err.panic`/`Err.diverge` are excluded.
-/
namespace OxiddModel.Bdd.LevelTable
open OxiddModel.HashTbl OxiddModel.HashTbl.Tbl OxiddModel.Bdd OxiddModel.Bdd.Refine

/-! ## the invariant: initial state, hash consing -/

/-- a fresh manager with `n` levels satisfies `LInv`, for every hash function -/
theorem linv_empty (h : Hash) (n : Nat) : LInv h (LStore.empty n) := LInv_empty h n

/-- **`unique_of_LInv`**: the table invariant implies the hash-consing invariant of the abstract
store … -/
theorem unique_of_LInv {h : Hash} {s : LStore} (hinv : LInv h s) : s.abs.Unique :=
  unique_of_LInv' hinv

/-- … and therefore canonicity at the store level (`inj_of_unique`): two edges of a store
maintained through the level tables that denote the same tree are the same edge. -/
theorem canonical_of_LInv {h : Hash} {s : LStore} (hinv : LInv h s) {x y : Edge} {a : BDD}
    (hx : Denotes s.abs x a) (hy : Denotes s.abs y a) : x = y :=
  inj_of_unique (unique_of_LInv hinv) x y a hx hy

/-- what `LInv` says about one stored node: it is in the table of its level (and no other), under
the status `from_hash(h children)`, and no other id of that table has the same children -/
theorem linv_node {h : Hash} {s : LStore} (hinv : LInv h s) {id : Nat} {n : Node}
    (hn : s.abs.get? id = some n) :
    n.level < s.tables.size ∧
    (∃ i, (s.tbl n.level).get i = .occ (fromHash (h n.t n.e)) id) ∧
    (∀ l, (s.tbl l).Mem id → l = n.level) ∧
    (∀ id' n', (s.tbl n.level).Mem id' → s.abs.get? id' = some n' → n'.t = n.t → n'.e = n.e → id' = id) := by
  refine ⟨hinv.level_lt hn, ?_, ?_, ?_⟩
  · obtain ⟨i, st, hi⟩ := (hinv.mem n.level id).2 ⟨n, hn, rfl⟩
    refine ⟨i, ?_⟩
    have := (hinv.tbl n.level).inv.statusOK i st id hi
    rw [hi, this]
    have hk : (keyed h s.nodes).kf id = some (n.t, n.e) := kidsAt_some hn
    rw [Keyed.hf_of_kf hk]
    rfl
  · intro l hm
    obtain ⟨n', hn', hl⟩ := (hinv.mem l id).1 hm
    rw [hn] at hn'; cases hn'; exact hl.symm
  · intro id' n' hm hn' ht he
    refine (hinv.tbl n.level).inj id' id hm ((hinv.mem n.level id).2 ⟨n, hn, rfl⟩) ?_
    show kidsAt s.nodes id' = kidsAt s.nodes id
    rw [kidsAt_some hn', kidsAt_some hn, ht, he]

/-! ## lookup -/

/-- **`find_iff`**: the hashed lookup (`LevelViewSet::get`: hash of the children, probe with the
"same children" closure) terminates and returns exactly what the linear search `Store.find?`
returns — for any hash function, total collisions included. -/
theorem find_iff {h : Hash} {s : LStore} (hinv : LInv h s) {level : Nat} (hl : level < s.tables.size)
    (t e : Edge) : find h s level t e = .ok (s.abs.find? ⟨level, t, e⟩) :=
  find_eq hinv hl t e

/-- in words: an id is found iff that slot holds the node -/
theorem find_some_iff {h : Hash} {s : LStore} (hinv : LInv h s) {level : Nat}
    (hl : level < s.tables.size) (t e : Edge) (id : Nat) :
    find h s level t e = .ok (some id) ↔ s.abs.get? id = some ⟨level, t, e⟩ := by
  rw [find_iff hinv hl]
  constructor
  · intro hf
    exact find?_some (Except.ok.inj hf)
  · intro hg
    rw [find?_of_unique (unique_of_LInv hinv) hg]

/-! ## `get_or_insert`, `reduce` -/

/-- **`getOrInsert_refines`**: under `LInv`, `LevelViewSet::get_or_insert` on the hashed table
returns the same edge as the abstract lookup-or-allocate (`Store.find?`, else a slot from the same
allocator `add`; `none` = `Err(OutOfMemory)`), the abstraction commutes, and `LInv` is preserved
(also when the table was rehashed by the `reserve(1)` of a *hit*, and when allocation failed after
the reserve). -/
theorem getOrInsert_refines {h : Hash} {add : Add} {s : LStore} (hinv : LInv h s) {level : Nat}
    (hl : level < s.tables.size) (hadd : AddOK add) (t e : Edge) :
    (∃ s' r, getOrInsert h add s level t e = .ok (s', r) ∧ LInv h s' ∧
      s'.tables.size = s.tables.size ∧ (s'.abs, r) = lookupOrAlloc add s.abs level t e) ∨
    (getOrInsert h add s level t e = .error .capacity ∧
      checkCapacity (nextCapacity ((s.tbl level).len + 1)) = false) :=
  getOrInsert_refines' hinv hl hadd t e

/-- an allocator that never fails -/
def addOf (alloc : Alloc) : Add := fun s n => some (alloc s n)

theorem addOf_ok {alloc : Alloc} (hok : AllocOK alloc) : AddOK (addOf alloc) := by
  intro s n a h
  cases h
  exact hok s n

/-- `reduce` over the hashed tables **is** `Store.mkNodeA alloc` (`reduce` over the linear-search
store with the same allocator): same edge, same slot array. -/
theorem mkNode_refines {h : Hash} {alloc : Alloc} {s : LStore} (hinv : LInv h s) {level : Nat}
    (hl : level < s.tables.size) (hok : AllocOK alloc) (t e : Edge) :
    (∃ s' r, mkNode h (addOf alloc) s level t e = .ok (s', some r) ∧ LInv h s' ∧
      s'.tables.size = s.tables.size ∧ (s'.abs, r) = s.abs.mkNodeA alloc level t e) ∨
    (mkNode h (addOf alloc) s level t e = .error .capacity ∧ t ≠ e ∧
      checkCapacity (nextCapacity ((s.tbl level).len + 1)) = false) := by
  unfold mkNode Store.mkNodeA
  by_cases hte : t = e
  · simp only [hte, if_true]
    exact .inl ⟨s, e, rfl, hinv, rfl, rfl⟩
  · simp only [hte, if_false]
    rcases getOrInsert_refines hinv hl (addOf_ok hok) t e with ⟨s', r, h1, h2, h3, h4⟩ | ⟨h1, h2⟩
    · left
      unfold lookupOrAlloc addOf at h4
      cases hf : s.abs.find? ⟨level, t, e⟩ with
      | some i =>
        rw [hf] at h4
        simp only [Prod.mk.injEq] at h4
        exact ⟨s', .inner i, by rw [h1, h4.2], h2, h3, by rw [h4.1]⟩
      | none =>
        rw [hf] at h4
        simp only [Prod.mk.injEq] at h4
        exact ⟨s', _, by rw [h1, h4.2], h2, h3, by rw [h4.1]⟩
    · exact .inr ⟨h1, hte, h2⟩

/-- … in particular it is `Store.mkNode` (first-free allocation), the function all store-level
theorems (`mkNode_denotes`, `applyS_spec`, …) are about -/
theorem mkNode_refines_firstFree {h : Hash} {s : LStore} (hinv : LInv h s) {level : Nat}
    (hl : level < s.tables.size) (t e : Edge) :
    (∃ s' r, mkNode h (addOf firstFree) s level t e = .ok (s', some r) ∧ LInv h s' ∧
      s'.tables.size = s.tables.size ∧ (s'.abs, r) = s.abs.mkNode level t e) ∨
    (mkNode h (addOf firstFree) s level t e = .error .capacity ∧ t ≠ e ∧
      checkCapacity (nextCapacity ((s.tbl level).len + 1)) = false) := by
  rw [mkNode_eq_mkNodeA]
  exact mkNode_refines hinv hl firstFree_ok t e

/-- `add_node` with a node capacity (C14) -/
def addCap (cap : Nat) : Add := fun s n => if s.count < cap then some (firstFree s n) else none

theorem addCap_ok (cap : Nat) : AddOK (addCap cap) := by
  intro s n a h
  unfold addCap at h
  split at h
  · cases h; exact firstFree_ok s n
  · cases h

/-- with a capacity-bounded allocator `reduce` over the hashed tables is `Store.mkNodeC cap`
(C14): on out-of-memory the slot array is unchanged and the tables still satisfy `LInv`
(although `reserve(1)` may already have rehashed the level's table). -/
theorem mkNode_refines_cap {h : Hash} {cap : Nat} {s : LStore} (hinv : LInv h s) {level : Nat}
    (hl : level < s.tables.size) (t e : Edge) :
    (∃ s' r, mkNode h (addCap cap) s level t e = .ok (s', r) ∧ LInv h s' ∧
      s'.tables.size = s.tables.size ∧
      match s.abs.mkNodeC cap level t e with
      | some (st, ed) => s'.abs = st ∧ r = some ed
      | none => s'.abs = s.abs ∧ r = none) ∨
    (mkNode h (addCap cap) s level t e = .error .capacity ∧ t ≠ e ∧
      checkCapacity (nextCapacity ((s.tbl level).len + 1)) = false) := by
  unfold mkNode Store.mkNodeC
  by_cases hte : t = e
  · simp only [hte, if_true]
    exact .inl ⟨s, some e, rfl, hinv, rfl, rfl, rfl⟩
  · simp only [hte, if_false]
    rcases getOrInsert_refines hinv hl (addCap_ok cap) t e with ⟨s', r, h1, h2, h3, h4⟩ | ⟨h1, h2⟩
    · left
      refine ⟨s', r, h1, h2, h3, ?_⟩
      unfold lookupOrAlloc addCap at h4
      cases hf : s.abs.find? ⟨level, t, e⟩ with
      | some i =>
        rw [hf] at h4
        simp only [Prod.mk.injEq] at h4
        exact ⟨h4.1, h4.2⟩
      | none =>
        rw [hf] at h4
        simp only at h4 ⊢
        by_cases hc : s.abs.count < cap
        · simp only [hc, if_true, Prod.mk.injEq] at h4 ⊢
          rw [alloc_eq_put]
          exact ⟨h4.1, h4.2⟩
        · simp only [hc, if_false, Prod.mk.injEq] at h4 ⊢
          exact ⟨h4.1, h4.2⟩
    · exact .inr ⟨h1, hte, h2⟩

/-! ## the collector's level pass -/

/-- **`gcLevel_refines`**: the `retain` of `Manager::gc` on the level's table, followed by
`free_slot` of the dropped ids, empties exactly the slots the abstract level pass empties (the
nodes of that level rejected by `keep`), never fails, and preserves `LInv` — through tombstone
clean-up and the shrinking rehash of `retain`. -/
theorem gcLevel_refines {h : Hash} {s : LStore} (hinv : LInv h s) {level : Nat}
    (hl : level < s.tables.size) (keep : Nat → Bool) :
    ∃ s', gcLevel s level keep = .ok s' ∧ LInv h s' ∧ s'.tables.size = s.tables.size ∧
      s'.abs = gcLevelA s.abs level keep :=
  gcLevel_refines' hinv hl keep

/-- which slots are occupied after the level pass -/
theorem gcLevel_get? {h : Hash} {s s' : LStore} (hinv : LInv h s) {level : Nat}
    (hl : level < s.tables.size) (keep : Nat → Bool) (hg : gcLevel s level keep = .ok s') (id : Nat)
    (n : Node) : s'.abs.get? id = some n ↔ (s.abs.get? id = some n ∧ ¬ (n.level = level ∧ keep id = false)) := by
  obtain ⟨s1, h1, _, _, h4⟩ := gcLevel_refines hinv hl keep
  rw [h1] at hg; cases hg
  rw [h4, get?_gcLevelA]
  cases hx : s.abs.get? id with
  | none => simp
  | some m =>
    simp only
    split
    · rename_i hc
      constructor
      · intro h; cases h
      · rintro ⟨h1, h2⟩; cases h1; exact (h2 hc).elim
    · rename_i hc
      constructor
      · intro h; cases h; exact ⟨rfl, hc⟩
      · rintro ⟨h1, _⟩; exact h1

/-! ## histories -/

/-- what a manager does to its unique tables between reorderings -/
inductive LOp where
  /-- `reduce(level, t, e)` -/
  | mk (level : Nat) (t e : Edge)
  /-- the collector's pass over one level -/
  | gc (level : Nat) (keep : Nat → Bool)

def LOp.level : LOp → Nat
  | .mk l _ _ => l
  | .gc l _ => l

/-- run a history on the hashed tables; the outputs are the edges returned by `reduce` -/
def runL (h : Hash) (add : Add) : LStore → List LOp → Except Err (LStore × List (Option Edge))
  | s, [] => .ok (s, [])
  | s, .mk l t e :: ops =>
    match mkNode h add s l t e with
    | .error err => .error err
    | .ok (s', r) =>
      match runL h add s' ops with
      | .error err => .error err
      | .ok (s'', rs) => .ok (s'', r :: rs)
  | s, .gc l keep :: ops =>
    match gcLevel s l keep with
    | .error err => .error err
    | .ok s' => runL h add s' ops

/-- the same history on the abstract (linear-search) store -/
def runA (add : Add) : Store → List LOp → Store × List (Option Edge)
  | s, [] => (s, [])
  | s, .mk l t e :: ops =>
    let r := if t = e then (s, some t) else lookupOrAlloc add s l t e
    let rest := runA add r.1 ops
    (rest.1, r.2 :: rest.2)
  | s, .gc l keep :: ops => runA add (gcLevelA s l keep) ops

theorem run_refines_from {h : Hash} {add : Add} (hadd : AddOK add) : ∀ (ops : List LOp) (s : LStore),
    LInv h s → (∀ op ∈ ops, op.level < s.tables.size) →
    (∃ s' rs, runL h add s ops = .ok (s', rs) ∧ LInv h s' ∧ (s'.abs, rs) = runA add s.abs ops) ∨
    runL h add s ops = .error .capacity := by
  intro ops
  induction ops with
  | nil => intro s hinv _; exact .inl ⟨s, [], rfl, hinv, rfl⟩
  | cons op ops ih =>
    intro s hinv hlv
    have hl : op.level < s.tables.size := hlv op List.mem_cons_self
    cases op with
    | mk l t e =>
      simp only [runL, runA]
      have hstep : (∃ s' r, mkNode h add s l t e = .ok (s', r) ∧ LInv h s' ∧
          s'.tables.size = s.tables.size ∧
          (s'.abs, r) = (if t = e then (s.abs, some t) else lookupOrAlloc add s.abs l t e)) ∨
          mkNode h add s l t e = .error .capacity := by
        unfold mkNode
        by_cases hte : t = e
        · simp only [hte, if_true]; exact .inl ⟨s, some e, rfl, hinv, rfl, rfl⟩
        · simp only [hte, if_false]
          rcases getOrInsert_refines hinv hl hadd t e with ⟨s', r, h1, h2, h3, h4⟩ | ⟨h1, _⟩
          · exact .inl ⟨s', r, h1, h2, h3, h4⟩
          · exact .inr h1
      rcases hstep with ⟨s', r, h1, h2, h3, h4⟩ | h1
      · rw [h1]
        simp only
        have h4a : s'.abs = (if t = e then (s.abs, some t) else lookupOrAlloc add s.abs l t e).1 := by
          rw [← h4]
        have h4b : r = (if t = e then (s.abs, some t) else lookupOrAlloc add s.abs l t e).2 := by
          rw [← h4]
        rcases ih s' h2 (fun op hop => by rw [h3]; exact hlv op (List.mem_cons_of_mem _ hop)) with
          ⟨s'', rs, g1, g2, g3⟩ | g1
        · left
          rw [g1]
          refine ⟨s'', r :: rs, rfl, g2, ?_⟩
          rw [← h4a, ← g3, h4b]
        · right; rw [g1]
      · right; rw [h1]
    | gc l keep =>
      simp only [runL, runA]
      have hl' : l < s.tables.size := hl
      obtain ⟨s', h1, h2, h3, h4⟩ := gcLevel_refines hinv hl' keep
      rw [h1]
      simp only
      rw [← h4]
      exact ih s' h2 (fun op hop => by rw [h3]; exact hlv op (List.mem_cons_of_mem _ hop))

/-- **`run_refines`**: for every hash function, every allocator that hands out free slots
(possibly failing) and every history of `reduce` calls and collector passes on a fresh manager
with `n` levels: if the run completes, the hashed tables satisfy `LInv`, every `reduce` returned
the edge the linear-search store returns, and the slot arrays are equal.  The run can only stop
with the capacity panic of a level table (`> 2^31` slots). -/
theorem run_refines {h : Hash} {add : Add} (hadd : AddOK add) (n : Nat) (ops : List LOp)
    (hlv : ∀ op ∈ ops, op.level < n) :
    (∃ s' rs, runL h add (LStore.empty n) ops = .ok (s', rs) ∧ LInv h s' ∧
      (s'.abs, rs) = runA add ⟨#[]⟩ ops) ∨
    runL h add (LStore.empty n) ops = .error .capacity :=
  run_refines_from hadd ops (LStore.empty n) (linv_empty h n)
    (fun op hop => by simpa [LStore.empty] using hlv op hop)

/-- hash consing after any history on the hashed tables -/
theorem run_unique {h : Hash} {add : Add} (hadd : AddOK add) (n : Nat) (ops : List LOp)
    (hlv : ∀ op ∈ ops, op.level < n) {s' : LStore} {rs : List (Option Edge)}
    (hr : runL h add (LStore.empty n) ops = .ok (s', rs)) : s'.abs.Unique ∧ s'.abs.Inj := by
  rcases run_refines (h := h) hadd n ops hlv with ⟨s1, rs1, h1, h2, _⟩ | h1
  · rw [h1] at hr; cases hr
    exact ⟨unique_of_LInv h2, inj_of_unique (unique_of_LInv h2)⟩
  · rw [h1] at hr; cases hr

/-! ## what reordering needs: rewriting a node requires taking it out of its table

(`LevelTableReinsert.lean` has the pieces: `LInvX` — `LInv` relative to the ids currently in no
table —, `takeLevel_spec`, `setNode_out`, `insertEdge_spec`, `removeNode_spec`.) -/

/-- **`reinsert_restores`**: `remove(node)` under the *old* children, `set_child` ×2, `insert(edge)`
restores `LInv`, and the slot array is that of the plain in-place rewrite — provided no other node
of the level has the new children (otherwise `insert` answers `false` and the caller has to
redirect the parents, which `level_swap` avoids by asking `get`/`get_or_insert` first).
Compare `stale_hash_breaks` below: the same rewrite without `remove`/`insert`. -/
theorem reinsert_restores {h : Hash} {s : LStore} (hinv : LInv h s) {id : Nat} {n : Node}
    (hn : s.abs.get? id = some n) (t' e' : Edge)
    (hfresh : ∀ x m, s.abs.get? x = some m → m.level = n.level → m.t = t' → m.e = e' → x = id) :
    (∃ s', reinsert h s n.level id n.t n.e t' e' = .ok (s', true) ∧ LInv h s' ∧
      s'.abs = (setChildren s id t' e').abs) ∨
    (reinsert h s n.level id n.t n.e t' e' = .error .capacity) :=
  reinsert_restores' hinv hn t' e' hfresh

/-- **`findTaken_spec`**: `level_swap` keeps looking nodes up in the *taken* table of the old upper
level (`old_upper.get(&node)`) while it rewrites that table's nodes in place, so the table
contains stale entries.  The lookup for `(t, e)` is nevertheless exact — for any hash function —
as long as none of the rewritten nodes currently has the children `(t, e)`. -/
theorem findTaken_spec {h : Hash} {nodes0 nodes : Array (Option Node)} {tk : Tbl}
    (hK : KInv (keyed h nodes0) tk) (t e : Edge)
    (hst : ∀ x, tk.Mem x → kidsAt nodes x = kidsAt nodes0 x ∨ kidsAt nodes x ≠ some (t, e)) :
    (∃ id, findTaken h nodes tk t e = .ok (some id) ∧ tk.Mem id ∧ kidsAt nodes id = some (t, e) ∧
      kidsAt nodes0 id = some (t, e)) ∨
    (findTaken h nodes tk t e = .ok none ∧ ∀ id, tk.Mem id → kidsAt nodes id ≠ some (t, e)) :=
  findTaken_spec' hK t e hst

/-! ## Non-vacuity and the stale-hash witness

`hCol` maps **all** nodes to the same hash (total collision); `hKid` separates them. -/

def hCol : Hash := fun _ _ => 5

def edgeCode : Edge → Nat
  | .term false => 0
  | .term true => 1
  | .inner i => i + 2

def hKid : Hash := fun t e => edgeCode t + 3 * edgeCode e

/-- three nodes on level 1 and one on level 0, a repeated request, a redundant one, then a
collection of level 1 that rejects id 2 -/
def exOps : List LOp :=
  [.mk 1 (.term false) (.term true), .mk 1 (.term true) (.term false), .mk 1 (.term true) (.term true),
   .mk 1 (.inner 0) (.term true), .mk 0 (.inner 0) (.inner 1), .mk 1 (.term true) (.term false),
   .gc 1 (fun id => id != 2), .mk 1 (.term false) (.inner 9)]

deriving instance DecidableEq for LStore

def exS : LStore := (match runL hCol (addOf firstFree) (LStore.empty 2) exOps with
  | .ok (s, _) => s
  | .error _ => LStore.empty 0)

theorem exS_run : (runL hCol (addOf firstFree) (LStore.empty 2) exOps).map (·.2) =
    .ok [some (.inner 0), some (.inner 1), some (.term true), some (.inner 2), some (.inner 3),
      some (.inner 1), some (.inner 2)] := by
  decide +kernel

theorem exS_inv : LInv hCol exS := by
  rcases run_refines (h := hCol) (addOf_ok firstFree_ok) 2 exOps (by decide) with ⟨s', rs, h1, h2, _⟩ | h1
  · have : exS = s' := by unfold exS; rw [h1]
    rw [this]; exact h2
  · have h2 := exS_run
    rw [h1] at h2
    cases h2

-- the state is non-trivial: all four ids of level 1 went through one probe chain, the collected
-- slot was reused
example : exS.nodes = #[some ⟨1, .term false, .term true⟩, some ⟨1, .term true, .term false⟩,
      some ⟨1, .term false, .inner 9⟩, some ⟨0, .inner 0, .inner 1⟩] ∧
    (exS.tbl 1).keys = [0, 1, 2] ∧ (exS.tbl 0).keys = [3] := by decide +kernel

-- `find_iff`: both outcomes, under total collision
example : find hCol exS 1 (.term true) (.term false) = .ok (some 1) ∧
    find hCol exS 1 (.inner 0) (.term true) = .ok none ∧
    find hCol exS 0 (.term true) (.term false) = .ok none := by decide +kernel

-- `unique_of_LInv`, `canonical_of_LInv`
example : exS.abs.Unique := unique_of_LInv exS_inv

-- `getOrInsert_refines`: hit and miss
example : (getOrInsert hCol (addOf firstFree) exS 1 (.term true) (.term false)).map (·.2) = .ok (some (.inner 1)) ∧
    (getOrInsert hCol (addOf firstFree) exS 1 (.inner 3) (.term false)).map (·.2) = .ok (some (.inner 4)) := by
  decide +kernel

-- `mkNode_refines_cap`: out of memory after the reserve
example : (mkNode hCol (addCap 4) exS 1 (.inner 3) (.term false)).map (fun r => (r.1.nodes == exS.nodes, r.2)) =
    .ok (true, none) := by decide +kernel

-- `gcLevel_refines`
example : (gcLevel exS 1 (fun id => id == 1)).map (fun s => (s.nodes, (s.tbl 1).keys)) =
    .ok (#[none, some ⟨1, .term true, .term false⟩, none, some ⟨0, .inner 0, .inner 1⟩], [1]) := by
  decide +kernel

/-- growth: 13 colliding nodes on one level do not fit into 16 slots; the table is rehashed to 32
slots between a lookup and the insertion that uses the reported slot -/
def exOpsGrow : List LOp := (List.range 13).map fun i => .mk 0 (.term false) (.inner (100 + i))

example : (runL hCol (addOf firstFree) (LStore.empty 1) exOpsGrow).map
    (fun r => ((r.1.tbl 0).cap, (r.1.tbl 0).len)) = .ok (32, 13) := by decide +kernel

/-! ### stale hash: rewriting children in place without re-filing the node

`stS`: nodes 0 and 1 on level 1, node 2 = `(0, inner 0, inner 1)` on level 0, hash `hKid`.
`level_swap` before commit 1415cc0 changed the children of the nodes of the old upper level in
place (`set_child`) while they were still (or again, under their *old* hash) in a table. -/

def stOps : List LOp :=
  [.mk 1 (.term false) (.term true), .mk 1 (.term true) (.term false), .mk 0 (.inner 0) (.inner 1)]

def stS : LStore := (match runL hKid (addOf firstFree) (LStore.empty 2) stOps with
  | .ok (s, _) => s
  | .error _ => LStore.empty 0)

theorem stS_inv : LInv hKid stS := by
  rcases run_refines (h := hKid) (addOf_ok firstFree_ok) 2 stOps (by decide) with ⟨s', rs, h1, h2, _⟩ | h1
  · have : stS = s' := by unfold stS; rw [h1]
    rw [this]; exact h2
  · have h2 : (runL hKid (addOf firstFree) (LStore.empty 2) stOps).map (·.2)
        = .ok [some (.inner 0), some (.inner 1), some (.inner 2)] := by decide +kernel
    rw [h1] at h2
    cases h2

/-- node 2 gets the children `(inner 1, inner 0)` in place; the table of level 0 is not touched -/
def stS' : LStore := setChildren stS 2 (.inner 1) (.inner 0)

/-- **`stale_hash_breaks`**: after the in-place rewrite
* the slot array still has hash consing (`Unique`) and the node is there for the linear search,
* but the hashed lookup for the node's *current* children misses it (it is filed under the hash of
  its old children), so `LInv` is broken,
* and the next `reduce` for those children allocates a **second** slot with the same node: the
  abstract store is no longer `Unique` — two different edges for one function, the negation of C01. -/
theorem stale_hash_breaks :
    LInv hKid stS ∧ stS'.abs.Unique ∧
    stS'.abs.find? ⟨0, .inner 1, .inner 0⟩ = some 2 ∧
    find hKid stS' 0 (.inner 1) (.inner 0) = .ok none ∧
    ¬ LInv hKid stS' ∧
    ∃ s'' , mkNode hKid (addOf firstFree) stS' 0 (.inner 1) (.inner 0) = .ok (s'', some (.inner 3)) ∧
      s''.abs.get? 2 = some ⟨0, .inner 1, .inner 0⟩ ∧ s''.abs.get? 3 = some ⟨0, .inner 1, .inner 0⟩ ∧
      ¬ s''.abs.Unique := by
  have hfind : stS'.abs.find? ⟨0, .inner 1, .inner 0⟩ = some 2 := by decide +kernel
  have hmiss : find hKid stS' 0 (.inner 1) (.inner 0) = .ok none := by decide +kernel
  refine ⟨stS_inv, ?_, hfind, hmiss, ?_, ?_⟩
  · intro i j n hi hj
    have hsz : ∀ k, 3 ≤ k → stS'.abs.get? k = none := by
      intro k hk
      have : stS'.abs.nodes.size = 3 := by decide +kernel
      simp only [Store.get?]
      rw [Array.getElem?_eq_none (by omega)]; rfl
    have hi3 : i < 3 := by
      by_cases hlt : i < 3
      · exact hlt
      · rw [hsz i (by omega)] at hi; cases hi
    have hj3 : j < 3 := by
      by_cases hlt : j < 3
      · exact hlt
      · rw [hsz j (by omega)] at hj; cases hj
    have hdist : ∀ i, i < 3 → ∀ j, j < 3 → stS'.abs.get? i = stS'.abs.get? j → i = j := by
      decide +kernel
    exact hdist i hi3 j hj3 (hi.trans hj.symm)
  · intro hinv
    have := find_iff hinv (level := 0) (by decide +kernel) (.inner 1) (.inner 0)
    rw [hfind, hmiss] at this
    cases this
  · have hrun : (mkNode hKid (addOf firstFree) stS' 0 (.inner 1) (.inner 0)).map
        (fun r => (r.2, r.1.abs.get? 2, r.1.abs.get? 3)) =
        .ok (some (.inner 3), some ⟨0, .inner 1, .inner 0⟩, some ⟨0, .inner 1, .inner 0⟩) := by
      decide +kernel
    cases hm : mkNode hKid (addOf firstFree) stS' 0 (.inner 1) (.inner 0) with
    | error err => rw [hm] at hrun; cases hrun
    | ok p =>
      obtain ⟨s'', r⟩ := p
      rw [hm] at hrun
      simp only [Except.map, Except.ok.injEq, Prod.mk.injEq] at hrun
      obtain ⟨hr, h2, h3⟩ := hrun
      subst hr
      refine ⟨s'', rfl, h2, h3, ?_⟩
      intro hu
      have := hu 2 3 _ h2 h3
      omega

/-! ### the repaired protocol on the same state -/

-- `reinsert_restores`: its hypotheses hold on `stS` (node 2, new children `(inner 1, inner 0)`),
-- the node is found under its new children afterwards and `reduce` returns it (no second slot)
def stR : LStore := (match reinsert hKid stS 0 2 (.inner 0) (.inner 1) (.inner 1) (.inner 0) with
  | .ok (s, _) => s
  | .error _ => LStore.empty 0)

example : (reinsert hKid stS 0 2 (.inner 0) (.inner 1) (.inner 1) (.inner 0)).map (·.2) = .ok true ∧
    stR.nodes = stS'.nodes ∧ find hKid stR 0 (.inner 1) (.inner 0) = .ok (some 2) ∧
    (mkNode hKid (addOf firstFree) stR 0 (.inner 1) (.inner 0)).map (·.2) = .ok (some (.inner 2)) := by
  decide +kernel

example : ∀ x m, stS.abs.get? x = some m → m.level = 0 → m.t = .inner 1 → m.e = .inner 0 → x = 2 := by
  intro x m hx hl ht he
  have h := (find_some_iff stS_inv (level := 0) (by decide +kernel) (.inner 1) (.inner 0) x).2
    (by cases m; simp_all)
  have : find hKid stS 0 (.inner 1) (.inner 0) = .ok none := by decide +kernel
  rw [this] at h; cases h

-- `findTaken_spec`: the taken table of level 0 of `stS` against the rewritten slot array `stS'`:
-- a lookup for other children is exact (here: absent), although entry 2 is stale
example : findTaken hKid stS'.nodes (takeLevel stS 0).2 (.inner 0) (.term true) = .ok none ∧
    (takeLevel stS 0).2.keys = [2] ∧ ((takeLevel stS 0).1.tbl 0).keys = [] := by decide +kernel

end OxiddModel.Bdd.LevelTable
