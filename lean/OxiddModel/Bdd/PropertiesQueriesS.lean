import OxiddModel.Bdd.QueriesS

/-!
# Headline theorems: the read-only queries of the simple BDD rules at store level, under any
# variable order (C02: `eval`, `var`, `not_var`, `cofactors`, `satisfiable`, `valid`;
# C03: `node_count`)

`o` ranges over ALL orders with `PermOK` (mutually inverse `var_to_level` / `level_to_var`), in
particular over orders that are not their own inverse; `s` over all stores, `e` over all edges that
denote a tree, argument lists over all lists (repetitions allowed). `evalV o ρ t` is the function
of the variable assignment `ρ` denoted by the tree `t`, whose nodes hold levels.

The negative witnesses at the end run the same code with `level_to_var` in the place of
`var_to_level` (or with no translation at all) on the 3-cycle order and show that every statement
then fails; with an order that is its own inverse (identity, a transposition) these defects are
invisible.
-/
namespace OxiddModel.Bdd.QueriesS
open OxiddModel.Bdd OxiddModel.Bdd.BDD OxiddModel.Bdd.Refine OxiddModel.OrderS OxiddModel

/-! ## eval -/

/-- **C02 `eval`.** The table filling through `var_to_level` followed by the walk from the root
returns the value of the denoted function under the assignment described by the argument list —
last value of a repeated variable counts — for every order with mutually inverse maps. -/
theorem evalS_spec (o : Order) (hp : PermOK o) (s : Store) (e : Edge) (t : BDD)
    (args : List (Nat × Bool)) (hargs : ∀ a ∈ args, a.1 < o.n) (hd : Denotes s e t)
    (fuel : Nat) (hf : t.size ≤ fuel) :
    evalS o s fuel e args = evalV o (rhoArgs args) t :=
  walkS_eq s _ _ (fillChoices_get o hp args hargs) hd fuel hf

/-- `rhoArgs`: a pair appended to the list overrides every earlier pair for the same variable and
leaves all other variables alone; the empty list is the all-`true` assignment. -/
theorem rhoArgs_spec (args : List (Nat × Bool)) (v : Nat) (b : Bool) :
    rhoArgs (args ++ [(v, b)]) v = b ∧ (∀ w, w ≠ v → rhoArgs (args ++ [(v, b)]) w = rhoArgs args w) ∧
    ∀ w, rhoArgs [] w = true := by
  refine ⟨argVal_last _ _ _ _, fun w hw => ?_, fun _ => rfl⟩
  unfold rhoArgs
  rw [argVal_append_single]
  exact if_neg (fun h => hw h.symm)

/-- For a total assignment `ρ` listed variable by variable (in any order, `vars` may repeat),
`eval` returns `⟦e⟧ ρ` whenever every level of the diagram carries a listed variable. -/
theorem evalS_total (o : Order) (hp : PermOK o) (s : Store) (e : Edge) (t : BDD) (ρ : Nat → Bool)
    (vars : List Nat) (hv : ∀ v ∈ vars, v < o.n) (hd : Denotes s e t)
    (hcover : ∀ l, o.var l ∈ vars ∨ ρ (o.var l) = true) (fuel : Nat) (hf : t.size ≤ fuel) :
    evalS o s fuel e (vars.map fun v => (v, ρ v)) = evalV o ρ t := by
  rw [evalS_spec o hp s e t _ (by
    intro a ha
    obtain ⟨v, hv', rfl⟩ := List.mem_map.mp ha
    exact hv v hv') hd fuel hf]
  unfold evalV
  congr 1
  funext l
  have key : ∀ (vs : List Nat) (d : Bool) (w : Nat), (w ∈ vs ∨ d = ρ w) →
      (vs.map fun v => (v, ρ v)).foldl (fun acc a => if a.1 = w then a.2 else acc) d = ρ w := by
    intro vs
    induction vs with
    | nil => intro d w h; rcases h with h | h; cases h; exact h
    | cons x xs ih =>
      intro d w h
      simp only [List.map_cons, List.foldl_cons]
      apply ih
      by_cases e : x = w
      · subst e; simp
      · rcases h with h | h
        · rcases List.mem_cons.mp h with rfl | h
          · exact absurd rfl e
          · exact .inl h
        · simp [e, h]
  show rhoArgs _ (o.var l) = ρ (o.var l)
  unfold rhoArgs argVal
  apply key
  rcases hcover l with h | h
  · exact .inl h
  · exact .inr h.symm

/-! ## var, not_var -/

theorem getOrInsert_spec (s : Store) (n : Node) :
    ∃ i, (getOrInsert s n).2 = .inner i ∧ (getOrInsert s n).1.get? i = some n := by
  unfold getOrInsert
  cases h : s.find? n with
  | some i => exact ⟨i, rfl, find?_some h⟩
  | none => exact ⟨_, rfl, by rw [get?_alloc]; simp⟩

/-- **C02 `var`.** The node built at `var_to_level(v)` denotes the projection on variable `v`;
the store is only extended and stays duplicate free. -/
theorem varS_spec (o : Order) (hp : PermOK o) (s : Store) (v : Nat) :
    s.Le (varS o s v).1 ∧ (s.Unique → (varS o s v).1.Unique) ∧
    Denotes (varS o s v).1 (varS o s v).2 (var (o.lvl v)) ∧
    ∀ ρ, evalV o ρ (var (o.lvl v)) = ρ v := by
  have hne : Edge.term true ≠ Edge.term false := by decide
  have e := mkNode_eq_getOrInsert s (o.lvl v) (.term true) (.term false) hne
  refine ⟨?_, ?_, ?_, ?_⟩
  · show s.Le (getOrInsert s _).1
    rw [← e]; exact mkNode_le _ _ _ _
  · intro hu
    show (getOrInsert s _).1.Unique
    rw [← e]; exact mkNode_unique _ _ _ _ hu
  · obtain ⟨i, h2, hi⟩ := getOrInsert_spec s ⟨o.lvl v, .term true, .term false⟩
    show Denotes (getOrInsert s _).1 (getOrInsert s _).2 _
    rw [h2]
    exact .inner hi .term .term
  · intro ρ
    simp only [evalV, var, BDD.eval, hp.var_lvl]
    cases ρ v <;> rfl

/-- **C02 `not_var`.** -/
theorem notVarS_spec (o : Order) (hp : PermOK o) (s : Store) (v : Nat) :
    s.Le (notVarS o s v).1 ∧ (s.Unique → (notVarS o s v).1.Unique) ∧
    Denotes (notVarS o s v).1 (notVarS o s v).2 (notVar (o.lvl v)) ∧
    ∀ ρ, evalV o ρ (notVar (o.lvl v)) = !ρ v := by
  have hne : Edge.term false ≠ Edge.term true := by decide
  have e := mkNode_eq_getOrInsert s (o.lvl v) (.term false) (.term true) hne
  refine ⟨?_, ?_, ?_, ?_⟩
  · show s.Le (getOrInsert s _).1
    rw [← e]; exact mkNode_le _ _ _ _
  · intro hu
    show (getOrInsert s _).1.Unique
    rw [← e]; exact mkNode_unique _ _ _ _ hu
  · obtain ⟨i, h2, hi⟩ := getOrInsert_spec s ⟨o.lvl v, .term false, .term true⟩
    show Denotes (getOrInsert s _).1 (getOrInsert s _).2 _
    rw [h2]
    exact .inner hi .term .term
  · intro ρ
    simp only [evalV, notVar, BDD.eval, hp.var_lvl]
    cases ρ v <;> rfl

/-- `var` then `eval`: the two maps are used consistently (the value of the handle of variable `v`
under an argument list is the list's value for `v`). -/
theorem evalS_varS (o : Order) (hp : PermOK o) (s : Store) (v : Nat)
    (args : List (Nat × Bool)) (hargs : ∀ a ∈ args, a.1 < o.n) (fuel : Nat) (hf : 3 ≤ fuel) :
    evalS o (varS o s v).1 fuel (varS o s v).2 args = rhoArgs args v ∧
    evalS o (notVarS o s v).1 fuel (notVarS o s v).2 args = !rhoArgs args v := by
  obtain ⟨_, _, hd, hs⟩ := varS_spec o hp s v
  obtain ⟨_, _, hd', hs'⟩ := notVarS_spec o hp s v
  exact ⟨by rw [evalS_spec o hp _ _ _ args hargs hd fuel (by simpa [var, BDD.size] using hf), hs],
    by rw [evalS_spec o hp _ _ _ args hargs hd' fuel (by simpa [notVar, BDD.size] using hf), hs']⟩

/-! ## cofactors -/

/-- **C02 `cofactors`.** A terminal has none; for an inner node the pair returned are the edges
of the two children, and they denote the Shannon cofactors of the handle with respect to its
top-most VARIABLE `level_to_var(level(root))`. -/
theorem cofactorsS_spec (o : Order) (hp : PermOK o) (s : Store) :
    (∀ b, cofactorsS s (.term b) = none) ∧
    ∀ (e : Edge) (l : Nat) (tt te : BDD) (n : Nat), Denotes s e (.node l tt te) →
      Ordered n (.node l tt te) →
      ∃ et ee, cofactorsS s e = some (et, ee) ∧ cofactorTrueS s e = some et ∧
        cofactorFalseS s e = some ee ∧ Denotes s et tt ∧ Denotes s ee te ∧
        ∀ ρ, evalV o ρ tt = evalV o (updV ρ (o.var l) true) (.node l tt te) ∧
             evalV o ρ te = evalV o (updV ρ (o.var l) false) (.node l tt te) := by
  refine ⟨fun _ => rfl, ?_⟩
  intro e l tt te n hd hord
  cases hd with
  | @inner i _ et ee _ _ hi ht he =>
    refine ⟨et, ee, by simp [cofactorsS, hi], by simp [cofactorTrueS, cofactorsS, hi],
      by simp [cofactorFalseS, cofactorsS, hi], ht, he, fun ρ => ?_⟩
    cases hord with
    | node _ ot oe =>
      unfold evalV
      rw [updV_var o hp, updV_var o hp]
      exact ⟨(eval_node_upd_true ot _).symm, (eval_node_upd_false oe _).symm⟩

/-! ## node_count -/

/-- **C03 `node_count` (graph reading).** The visited-set traversal returns the number of distinct
nodes reachable from the root (terminals included, each node once however many edges lead to it):
the length of ANY duplicate-free enumeration of the reachable ids. -/
theorem nodeCountS_reach (s : Store) (e : Edge) (t : BDD) (hd : Denotes s e t) (fuel : Nat)
    (hf : t.size < fuel) (L : List Edge) (hL : L.Nodup)
    (hm : ∀ y, y ∈ L ↔ VisitS.Reach (kidsS s) e y) : nodeCountS s fuel e = L.length :=
  VisitS.count_unique (kidsS s) _ fuel e (ranked_of_denotes hd) (by rw [den_eq hd]; exact hf) L hL hm

/-- … independent of the order in which the children are visited (`kids'`: any enumeration of the
same children, e.g. else before then) -/
theorem nodeCountS_order_independent (s : Store) (e : Edge) (t : BDD) (hd : Denotes s e t)
    (fuel : Nat) (hf : t.size < fuel) (kids' : Edge → List Edge)
    (h : ∀ x y, y ∈ kids' x ↔ y ∈ kidsS s x) :
    VisitS.count kids' fuel e = nodeCountS s fuel e :=
  VisitS.visit_order_independent (kidsS s) kids' _ h fuel e (ranked_of_denotes hd)
    (by rw [den_eq hd]; exact hf)

/-- **C03 `node_count` (tree reading).** In a duplicate-free store the count is the tree-level
`nodeCount` of the denoted tree, i.e. its number of distinct subterms. -/
theorem nodeCountS_spec (s : Store) (hu : s.Unique) (e : Edge) (t : BDD) (hd : Denotes s e t)
    (fuel : Nat) (hf : t.size < fuel) : nodeCountS s fuel e = nodeCount t := by
  obtain ⟨hn, hm⟩ := VisitS.visit_count (kidsS s) _ fuel e (ranked_of_denotes hd)
    (by rw [den_eq hd]; exact hf)
  have hden : ∀ y, y ∈ VisitS.visit (kidsS s) fuel [] e → ∃ ty, Subterm ty t ∧ Denotes s y ty :=
    fun y hy => reach_denotes ((hm y).mp hy) hd
  have hL : ((VisitS.visit (kidsS s) fuel [] e).map (den s)).Nodup := by
    rw [List.Nodup, List.pairwise_map]
    refine List.Pairwise.imp_of_mem ?_ hn
    intro a b ha hb hab heq
    obtain ⟨ta, _, hta⟩ := hden a ha
    obtain ⟨tb, _, htb⟩ := hden b hb
    rw [den_eq hta, den_eq htb] at heq
    subst heq
    exact hab (inj_of_unique hu _ _ _ hta htb)
  have hmem : ∀ x, x ∈ (VisitS.visit (kidsS s) fuel [] e).map (den s) ↔ Subterm x t := by
    intro x
    rw [List.mem_map]
    constructor
    · rintro ⟨y, hy, rfl⟩
      obtain ⟨ty, hs, hty⟩ := hden y hy
      rw [den_eq hty]; exact hs
    · intro hs
      obtain ⟨y, hr, hy⟩ := subterm_reach hd x hs
      exact ⟨y, (hm y).mpr hr, den_eq hy⟩
  have := (nodeCount_subtrees t).2.2 _ hL hmem
  rw [List.length_map] at this
  exact this

/-- **C03, last clause.** Two handles of normal-form diagrams of the same function (of the
variables, under the current order) have the same node count: it is the size of THE reduced
ordered diagram of that function. -/
theorem nodeCountS_canonical (o : Order) (hp : PermOK o) (s : Store) (hu : s.Unique)
    (e e' : Edge) (t t' : BDD) (n : Nat) (hd : Denotes s e t) (hd' : Denotes s e' t')
    (hnf : NF n t) (hnf' : NF n t') (hsem : ∀ ρ, evalV o ρ t = evalV o ρ t')
    (fuel : Nat) :
    nodeCountS s fuel e = nodeCountS s fuel e' ∧ e = e' := by
  have htt : t = t' := (bdd_canonical t t' n hnf hnf').mpr (fun σ => by
    rw [← evalV_lvl o hp σ t, ← evalV_lvl o hp σ t']; exact hsem _)
  subst htt
  have := inj_of_unique hu _ _ _ hd hd'
  subst this
  exact ⟨rfl, rfl⟩

/-! ## satisfiable, valid -/

/-- **C02 `satisfiable` / `valid`** = `∃ ρ` / `∀ ρ` over assignments of the variables. -/
theorem satisfiableS_validS_spec (o : Order) (hp : PermOK o) (s : Store) (e : Edge) (t : BDD)
    (n : Nat) (hd : Denotes s e t) (hnf : NF n t) :
    (satisfiableS e = true ↔ ∃ ρ, evalV o ρ t = true) ∧
    (validS e = true ↔ ∀ ρ, evalV o ρ t = true) := by
  obtain ⟨h1, h2⟩ := bdd_sat_valid t n hnf
  have hf : e = .term false ↔ t = .leaf false := by
    constructor
    · rintro rfl; cases hd; rfl
    · rintro rfl; cases hd; rfl
  have ht : e = .term true ↔ t = .leaf true := by
    constructor
    · rintro rfl; cases hd; rfl
    · rintro rfl; cases hd; rfl
  constructor
  · simp only [satisfiableS, bne_iff_ne, ne_eq, hf]
    rw [← ne_eq, h1]
    constructor
    · rintro ⟨σ, hσ⟩; exact ⟨fun v => σ (o.lvl v), by rw [evalV_lvl o hp]; exact hσ⟩
    · rintro ⟨ρ, hρ⟩; exact ⟨_, hρ⟩
  · simp only [validS, beq_iff_eq, ht]
    rw [h2]
    constructor
    · intro h ρ; exact h _
    · intro h σ; rw [← evalV_lvl o hp σ t]; exact h _

/-! ## non-vacuity: a shared, level-skipping diagram under the 3-cycle order -/

/-- slots: 0 = (level 2; ⊤, ⊥), 1 = (level 1; ⊥, #0), 2 = (level 0; #0, #1) — the diagram `exG`
of `PropertiesC12`, node 0 shared -/
def exStore : Store :=
  ⟨#[some ⟨2, .term true, .term false⟩, some ⟨1, .term false, .inner 0⟩, some ⟨0, .inner 0, .inner 1⟩]⟩

theorem exStore_denotes : Denotes exStore (.inner 2) exG :=
  .inner (i := 2) rfl (.inner (i := 0) rfl .term .term)
    (.inner (i := 1) rfl .term (.inner (i := 0) rfl .term .term))

theorem exStore_unique : exStore.Unique := by
  intro i j n hi hj
  have key : ∀ k, exStore.get? k = some n → k < 3 := by
    intro k hk
    apply Classical.byContradiction
    intro hge
    have : exStore.nodes[k]? = none := Array.getElem?_eq_none (by simp [exStore]; omega)
    simp [Store.get?, this] at hk
  have hi3 := key i hi
  have hj3 := key j hj
  have hi' : i = 0 ∨ i = 1 ∨ i = 2 := by omega
  have hj' : j = 0 ∨ j = 1 ∨ j = 2 := by omega
  rcases hi' with rfl | rfl | rfl <;> rcases hj' with rfl | rfl | rfl <;>
    first | rfl | (simp [Store.get?, exStore] at hi hj; rw [← hi] at hj; simp at hj)

/-- `eval` under the 3-cycle order (variable 0 on level 1, 1 on level 2, 2 on level 0) with a
variable named twice: `x2 ? x1 : (¬x0 ∧ x1)` at `x0 = 1, x1 = 1, x2 = 0` (the first `(2, true)`
is overridden) is `false`; 5 nodes; satisfiable, not valid; cofactors are slots 0 and 1 -/
example :
    evalS threeCycle exStore 10 (.inner 2) [(2, true), (0, true), (1, true), (2, false)] = false ∧
    evalS threeCycle exStore 10 (.inner 2) [(2, true), (0, true), (1, true)] = true ∧
    nodeCountS exStore 10 (.inner 2) = 5 ∧ nodeCount exG = 5 ∧
    cofactorsS exStore (.inner 2) = some (.inner 0, .inner 1) ∧
    satisfiableS (.inner 2) = true ∧ validS (.inner 2) = false := by decide

example := evalS_spec threeCycle threeCycle_ok exStore (.inner 2) exG
  [(2, true), (0, true), (1, true), (2, false)] (by decide) exStore_denotes 10 (by decide)
example := nodeCountS_spec exStore exStore_unique (.inner 2) exG exStore_denotes 10 (by decide)
example := (cofactorsS_spec threeCycle threeCycle_ok exStore).2 (.inner 2) 0 _ _ 0 exStore_denotes
  exG_nf.1
example := satisfiableS_validS_spec threeCycle threeCycle_ok exStore (.inner 2) exG 0
  exStore_denotes exG_nf
example := varS_spec threeCycle threeCycle_ok exStore 1
example := evalS_varS threeCycle threeCycle_ok exStore 0 [(0, false), (0, true)] (by decide) 3
  (by decide)

/-! ## negative witnesses: the wrong map is visible under the 3-cycle order -/

/-- the store after `var(0)` on a fresh manager with the 3-cycle order: one node on level
`var_to_level(0) = 1` -/
def varStore : Store := ⟨#[some ⟨1, .term true, .term false⟩]⟩

/-- `eval` with `level_to_var` (or no translation) in the table filling: the handle of variable 0
evaluates to `true` although the argument list sets variable 0 to `false`. -/
theorem evalS_wrong_map_fails :
    let args := [(0, false), (1, true), (2, true)]
    Denotes varStore (.inner 0) (var (threeCycle.lvl 0)) ∧
    evalS threeCycle varStore 3 (.inner 0) args = false ∧ rhoArgs args 0 = false ∧
    evalS_l2v threeCycle varStore 3 (.inner 0) args = true ∧
    evalS_nomap threeCycle varStore 3 (.inner 0) args = true :=
  ⟨.inner (i := 0) rfl .term .term, by decide⟩

/-- … and both are invisible under every order that is its own inverse, e.g. the identity -/
theorem evalS_wrong_map_hidden (n : Nat) (s : Store) (fuel : Nat) (e : Edge)
    (args : List (Nat × Bool)) (hargs : ∀ a ∈ args, a.1 < n) :
    evalS_l2v (Order.id n) s fuel e args = evalS (Order.id n) s fuel e args ∧
    evalS_nomap (Order.id n) s fuel e args = evalS (Order.id n) s fuel e args := by
  have g : ∀ v, v < n → (Order.id n).lvl v = v ∧ (Order.id n).var v = v := by
    intro v hv
    simp [Order.lvl, Order.var, Order.id, Array.getD_eq_getD_getElem?, hv]
  have key : ∀ (ch : Array Bool) (as : List (Nat × Bool)), (∀ a ∈ as, a.1 < n) →
      as.foldl (fun ch a => ch.setIfInBounds ((Order.id n).var a.1) (!a.2)) ch
        = as.foldl (fun ch a => ch.setIfInBounds ((Order.id n).lvl a.1) (!a.2)) ch ∧
      as.foldl (fun ch a => ch.setIfInBounds a.1 (!a.2)) ch
        = as.foldl (fun ch a => ch.setIfInBounds ((Order.id n).lvl a.1) (!a.2)) ch := by
    intro ch as
    induction as generalizing ch with
    | nil => intro _; exact ⟨rfl, rfl⟩
    | cons a as ih =>
      intro h
      have ha := g a.1 (h a List.mem_cons_self)
      simp only [List.foldl_cons, ha.1, ha.2]
      have := ih (ch.setIfInBounds a.1 (!a.2)) (fun b hb => h b (List.mem_cons_of_mem _ hb))
      exact this
  unfold evalS_l2v evalS_nomap evalS fillChoices
  rw [(key _ args hargs).1, (key _ args hargs).2]
  exact ⟨rfl, rfl⟩

/-- what the variants with the wrong map build -/
theorem varS_wrong_map_denotes (o : Order) (s : Store) (v : Nat) :
    Denotes (varS_l2v o s v).1 (varS_l2v o s v).2 (var (o.var v)) ∧
    Denotes (notVarS_l2v o s v).1 (notVarS_l2v o s v).2 (notVar (o.var v)) ∧
    Denotes (notVarS_nomap s v).1 (notVarS_nomap s v).2 (notVar v) := by
  refine ⟨?_, ?_, ?_⟩
  · obtain ⟨i, h2, hi⟩ := getOrInsert_spec s ⟨o.var v, .term true, .term false⟩
    show Denotes (getOrInsert s _).1 (getOrInsert s _).2 _
    rw [h2]; exact .inner hi .term .term
  · obtain ⟨i, h2, hi⟩ := getOrInsert_spec s ⟨o.var v, .term false, .term true⟩
    show Denotes (getOrInsert s _).1 (getOrInsert s _).2 _
    rw [h2]; exact .inner hi .term .term
  · obtain ⟨i, h2, hi⟩ := getOrInsert_spec s ⟨v, .term false, .term true⟩
    show Denotes (getOrInsert s _).1 (getOrInsert s _).2 _
    rw [h2]; exact .inner hi .term .term

/-- `var` / `not_var` with `level_to_var`, `not_var` with the variable number as level (seeded
`C02-bdd-notvar-level`): under the 3-cycle order the handle "of variable 0" is the projection on
another variable, in every store. -/
theorem varS_wrong_map_fails :
    let ρ : Nat → Bool := fun v => v == 0
    evalV threeCycle ρ (var (threeCycle.var 0)) ≠ ρ 0 ∧
    evalV threeCycle ρ (notVar (threeCycle.var 0)) ≠ !ρ 0 ∧
    evalV threeCycle ρ (notVar 0) ≠ !ρ 0 := by
  decide

/-- Observation (documentation vs code, not part of C02's statement): `BooleanFunction::eval`
documents `false` as the decision value of a variable that is not named; the zero-initialised bit
set selects child 0, the THEN child, so the value used is `true`. -/
theorem evalS_unnamed_is_true : evalS threeCycle varStore 3 (.inner 0) [] = true := by
  decide

end OxiddModel.Bdd.QueriesS
