import OxiddModel.Bdd.QuantSem

/-!
# `quant` (`forall`, `exists`, `unique`): semantics and normal form, for all trees and variable sets
-/
namespace OxiddModel.Bdd
open BDD

/-! ## unfolding `quant` -/

theorem quant_leaf (q : Quant) (b : Bool) (vars : BDD) :
    quant q (.leaf b) vars = if q ≠ .unique || vars.isLeaf then .leaf b else .leaf false := by
  simp only [quant]

/-- the body of `quant` at an inner node, after the (optional) `set_pop` -/
def quantStep (q : Quant) (fl : Nat) (ft fe : BDD) (vars' : BDD) : BDD :=
  match vars' with
  | .leaf _ => .node fl ft fe
  | .node vl vt ve =>
    if q = .unique ∧ vl < fl then .leaf false else
    if fl = vl then applyBin q.op (quant q ft vt) (quant q fe vt)
    else mk fl (quant q ft (.node vl vt ve)) (quant q fe (.node vl vt ve))

theorem quant_node (q : Quant) (fl : Nat) (ft fe vars : BDD) :
    quant q (.node fl ft fe) vars =
      quantStep q fl ft fe (if q ≠ .unique then setPop vars fl else vars) := by
  rw [quant]
  generalize (if q ≠ .unique then setPop vars fl else vars) = vars'
  cases vars' with
  | leaf b => rfl
  | node vl vt ve =>
    simp only [quantStep]
    by_cases h1 : q = .unique ∧ vl < fl
    · simp only [h1, and_self, if_true]
    · simp only [h1, if_false]
      by_cases h2 : fl = vl
      · subst h2; simp only [if_true]
      · have : ¬ vl = fl := fun h => h2 h.symm
        simp only [h2, this, if_false]

/-! ## semantic step lemmas (shared by `quant` and `apply_quant`) -/

/-- Shannon expansion from the two cofactor equations -/
theorem shannon_of_upd {G Gt Ge : (Nat → Bool) → Bool} {L : Nat}
    (ht : ∀ τ, G (upd τ L true) = Gt τ) (he : ∀ τ, G (upd τ L false) = Ge τ) :
    G = fun τ => if τ L then Gt τ else Ge τ := by
  funext τ
  conv => lhs; rw [← upd_self τ L]
  cases h : τ L
  · simp [he]
  · simp [ht]

/-- the quantified level is the top level: combine the quantified cofactors -/
theorem qsem_step_eq (q : Quant) {G Gt Ge : (Nat → Bool) → Bool} {L : Nat} {ls : List Nat}
    (hL : L ∉ ls) (ht : ∀ τ, G (upd τ L true) = Gt τ) (he : ∀ τ, G (upd τ L false) = Ge τ)
    (σ : Nat → Bool) :
    qsem q (L :: ls) G σ = q.op.sem (qsem q ls Gt σ) (qsem q ls Ge σ) := by
  simp only [qsem_cons, q1]
  rw [qsem_upd hL, qsem_upd hL, qsem_congr q ls ht, qsem_congr q ls he]

/-- the top level is not quantified: Shannon node over the quantified cofactors -/
theorem qsem_step_ne (q : Quant) {G Gt Ge : (Nat → Bool) → Bool} {L : Nat} {ls : List Nat}
    (hL : L ∉ ls) (ht : ∀ τ, G (upd τ L true) = Gt τ) (he : ∀ τ, G (upd τ L false) = Ge τ)
    (σ : Nat → Bool) :
    qsem q ls G σ = if σ L then qsem q ls Gt σ else qsem q ls Ge σ := by
  rw [shannon_of_upd ht he, qsem_ite hL]

/-- an ordered diagram is independent of every level above its bound -/
theorem eval_indep_lt {n l : Nat} {f : BDD} (h : Ordered n f) (hl : l < n) : Indep f.eval l :=
  fun σ b => eval_upd_lt h hl σ b

/-- a variable strictly above everything the function depends on: `∃!` gives `⊥` -/
theorem qsem_unique_above {l : Nat} {ls : List Nat} {G : (Nat → Bool) → Bool} (h : Indep G l)
    (σ : Nat → Bool) : qsem .unique (l :: ls) G σ = false :=
  q1_unique_of_indep (qsem_indep h ls) σ

theorem isLeaf_eq_isEmpty (vars : BDD) : vars.isLeaf = (varsOf vars).isEmpty := by
  cases vars <;> rfl

/-! ## `quant` -/

/-- **`quant_sem`** -/
theorem quant_sem (q : Quant) {n m : Nat} {f vars : BDD} (hf : Ordered n f) (hv : IsVarSet m vars)
    (σ : Nat → Bool) : (quant q f vars).eval σ = qsem q (varsOf vars) f.eval σ := by
  induction f generalizing vars n m σ with
  | leaf b =>
    have : (BDD.leaf b).eval = fun _ => b := rfl
    rw [quant_leaf, this, qsem_const, isLeaf_eq_isEmpty]
    split <;> rfl
  | node fl ft fe iht ihe =>
    cases hf with
    | node hn hft hfe =>
    have hfo : Ordered fl (.node fl ft fe) := .node (Nat.le_refl _) hft hfe
    rw [quant_node]
    -- the popped set denotes the same quantification and is again a variable set
    have hsem : qsem q (varsOf (if q ≠ .unique then setPop vars fl else vars)) (BDD.node fl ft fe).eval
        = qsem q (varsOf vars) (BDD.node fl ft fe).eval := by
      split
      · rename_i hq
        exact qsem_setPop hq vars fl (fun l hl => eval_indep_lt hfo hl)
      · rfl
    have hv' : IsVarSet m (if q ≠ .unique then setPop vars fl else vars) := by
      split
      · exact hv.setPop fl
      · exact hv
    have hge : ∀ vl vt ve, (if q ≠ .unique then setPop vars fl else vars) = .node vl vt ve →
        q ≠ .unique → fl ≤ vl := by
      intro vl vt ve h hq
      rw [if_pos hq] at h
      exact setPop_node_ge h
    rw [← hsem]
    generalize (if q ≠ .unique then setPop vars fl else vars) = vars' at hv' hge ⊢
    cases hv' with
    | top => rfl
    | @node _ vl vt hvl hvt =>
      have hge' := hge vl vt _ rfl
      simp only [quantStep, varsOf]
      have ct : ∀ τ, (BDD.node fl ft fe).eval (upd τ fl true) = ft.eval τ :=
        fun τ => eval_node_upd_true hft τ
      have ce : ∀ τ, (BDD.node fl ft fe).eval (upd τ fl false) = fe.eval τ :=
        fun τ => eval_node_upd_false hfe τ
      by_cases h1 : q = .unique ∧ vl < fl
      · rw [if_pos h1]
        obtain ⟨rfl, hlt⟩ := h1
        rw [qsem_unique_above (eval_indep_lt hfo hlt)]; rfl
      · rw [if_neg h1]
        have hle : fl ≤ vl := by
          by_cases hq : q = .unique
          · exact Nat.le_of_not_lt (fun h => h1 ⟨hq, h⟩)
          · exact hge' hq
        by_cases h2 : fl = vl
        · subst h2
          rw [if_pos rfl, applyBin_eval, iht hft hvt, ihe hfe hvt]
          exact (qsem_step_eq q (hvt.not_mem (Nat.lt_succ_self _)) ct ce σ).symm
        · rw [if_neg h2, mk_eval]
          have hvs : IsVarSet (fl+1) (.node vl vt (.leaf false)) := .node (by omega) hvt
          rw [iht hft hvs, ihe hfe hvs]
          exact (qsem_step_ne q (hvs.not_mem (Nat.lt_succ_self _)) ct ce σ).symm

theorem quant_ordered (q : Quant) {n : Nat} {f : BDD} (vars : BDD) (hf : Ordered n f) :
    Ordered n (quant q f vars) := by
  induction f generalizing vars n with
  | leaf b => rw [quant_leaf]; split <;> exact .leaf
  | node fl ft fe iht ihe =>
    rw [quant_node]
    generalize (if q ≠ .unique then setPop vars fl else vars) = vars'
    cases hf with
    | node hn hft hfe =>
    cases vars' with
    | leaf b => exact .node hn hft hfe
    | node vl vt ve =>
      simp only [quantStep]
      split
      · exact .leaf
      · split
        · exact (applyBin_ordered _ _ _ _ (iht _ hft) (ihe _ hfe)).mono (by omega)
        · exact mk_ordered hn (iht _ hft) (ihe _ hfe)

theorem quant_reduced (q : Quant) {f : BDD} (vars : BDD) (hf : Reduced f) :
    Reduced (quant q f vars) := by
  induction f generalizing vars with
  | leaf b => rw [quant_leaf]; split <;> trivial
  | node fl ft fe iht ihe =>
    rw [quant_node]
    generalize (if q ≠ .unique then setPop vars fl else vars) = vars'
    cases vars' with
    | leaf b => exact hf
    | node vl vt ve =>
      simp only [quantStep]
      split
      · trivial
      · split
        · exact applyBin_reduced _ _ _ (iht _ hf.2.1) (ihe _ hf.2.2)
        · exact mk_reduced (iht _ hf.2.1) (ihe _ hf.2.2)

/-- **`quant_nf`**: the result is in normal form (for every `vars` operand) -/
theorem quant_nf (q : Quant) {n : Nat} {f : BDD} (vars : BDD) (hf : NF n f) : NF n (quant q f vars) :=
  ⟨quant_ordered q vars hf.1, quant_reduced q vars hf.2⟩

end OxiddModel.Bdd
