import OxiddModel.Bdd.ApplyX
import OxiddModel.Bdd.Quant

/-!
# `quant::<Q>` (`forall`, `exists`, `unique`) on the store, with the apply cache

`quantS` follows `quant` of `crates/oxidd-rules-bdd/src/simple/apply_rec.rs` step by step:
terminal case → `set_pop(vars, flevel)` (not for `Unique`) → empty set ⇒ `f` → `Unique` with a
variable above `f` ⇒ `⊥` → cache query under the key `(Forall|Exists|Unique, [f, vars])` **with the
popped `vars`** → recursion on the children of `f` with `vt` → `apply_bin::<Q>(t, e)` if the top
variable is quantified, `reduce` otherwise → cache add under the same key.

Fuel: `fuel` bounds the recursion on `f`; `af` is handed to `set_pop` and to the inner
`apply_bin::<Q>` calls (whose operands are results, so their size is not bounded by the operands
of `quant`); `quantNeed q a v` is the amount that suffices.

`quantS_spec`: for every admissible policy, every sound cache (`CacheOKX`), every store: the result
denotes `quant q a v` for the trees `a`, `v` denoted by `f`, `vars`; store only extended; `Unique`,
`CacheOKX` and `NoRed` preserved (`PostW`). No orderedness assumption is needed: the store-level
algorithm and the tree-level `quant` make the same case distinctions on the same data.
-/
namespace OxiddModel.Bdd.Refine
open OxiddModel.Bdd OxiddModel.Bdd.BDD

/-! ## `set_pop` -/

def Edge.isTerm : Edge → Bool
  | .term _ => true
  | .inner _ => false

theorem isTerm_denotes {s : Store} {x : Edge} {a : BDD} (h : Denotes s x a) :
    x.isTerm = a.isLeaf := by
  cases h <;> rfl

/-- `set_pop` (lib.rs) on edges -/
def Store.setPopS (s : Store) : Nat → Edge → Nat → Edge
  | 0, set, _ => set
  | fuel+1, set, u =>
    match set with
    | .term _ => set
    | .inner i =>
      match s.get? i with
      | none => set -- dangling edge (excluded by `Denotes`)
      | some n => if n.level ≥ u then set else s.setPopS fuel n.t u

theorem setPopS_denotes {s : Store} (u : Nat) (fuel : Nat) : ∀ {set : Edge} {v : BDD},
    Denotes s set v → v.size ≤ fuel → Denotes s (s.setPopS fuel set u) (setPop v u) := by
  induction fuel with
  | zero => intro set v _ hsz; have := size_pos v; omega
  | succ fuel ih =>
    intro set v h hsz
    cases h with
    | term => simp only [Store.setPopS, setPop]; exact .term
    | @inner i l t e tt te hi ht he =>
      simp only [Store.setPopS, hi, setPop]
      split
      · exact .inner hi ht he
      · simp only [BDD.size] at hsz
        exact ih ht (by omega)

theorem setPop_idem (v : BDD) (u : Nat) : setPop (setPop v u) u = setPop v u := by
  induction v with
  | leaf b => simp [setPop]
  | node l t e iht _ =>
    simp only [setPop]
    split
    · rename_i h; simp only [setPop, h, if_true]
    · exact iht

theorem setPop_size_le (v : BDD) (u : Nat) : (setPop v u).size ≤ v.size := by
  induction v with
  | leaf b => simp [setPop]
  | node l t e iht _ =>
    simp only [setPop]
    split
    · exact Nat.le_refl _
    · simp only [BDD.size]; omega

/-! ## tree level: the popped variable set, the fuel that suffices -/

/-- the variable set after the optional `set_pop` -/
def popVars (q : Quant) (vars : BDD) (fl : Nat) : BDD :=
  if q ≠ .unique then setPop vars fl else vars

theorem popVars_idem (q : Quant) (v : BDD) (fl : Nat) :
    popVars q (popVars q v fl) fl = popVars q v fl := by
  unfold popVars
  split
  · exact setPop_idem v fl
  · rfl

theorem quant_node' (q : Quant) (fl : Nat) (ft fe vars : BDD) :
    quant q (.node fl ft fe) vars = quantStep q fl ft fe (popVars q vars fl) :=
  quant_node q fl ft fe vars

/-- **the cache key is normalised soundly**: quantifying over the popped set is quantifying over
the set -/
theorem quant_popVars (q : Quant) (fl : Nat) (ft fe vars : BDD) :
    quant q (.node fl ft fe) (popVars q vars fl) = quant q (.node fl ft fe) vars := by
  rw [quant_node', quant_node', popVars_idem]

/-- fuel that suffices for `set_pop` and the inner `apply_bin::<Q>` calls of `quant q f vars` -/
def quantNeed (q : Quant) : BDD → BDD → Nat
  | .leaf _, _ => 0
  | .node fl ft fe, vars =>
    max vars.size
      (match popVars q vars fl with
       | .leaf _ => 0
       | .node vl vt ve =>
         if q = .unique ∧ vl < fl then 0 else
         if fl = vl then
           max (max (quantNeed q ft vt) (quantNeed q fe vt))
             ((quant q ft vt).size + (quant q fe vt).size)
         else max (quantNeed q ft (.node vl vt ve)) (quantNeed q fe (.node vl vt ve)))

/-! ## the algorithm -/

/-- `quant::<Q>` -/
def quantS (p : Policy) (q : Quant) (af : Nat) : Nat → St → Edge → Edge → St × Edge
  | 0, st, f, _ => (st, f)
  | fuel+1, st, f, vars =>
    match f with
    | .term _ =>
      if q ≠ .unique || vars.isTerm then (st, f) else (st, .term false)
    | .inner i =>
      match st.store.get? i with
      | none => (st, f) -- dangling edge (excluded by `Denotes`)
      | some fn =>
        let vars := if q ≠ .unique then st.store.setPopS af vars fn.level else vars
        match vars with
        | .term _ => (st, f)
        | .inner j =>
          match st.store.get? j with
          | none => (st, f) -- dangling edge
          | some vn =>
            if q = .unique ∧ vn.level < fn.level then (st, .term false) else
            -- query apply cache
            match p.get st.tick st.cache (encKey (quantKey q f vars)) with
            | some r => (st.tickd, r)
            | none =>
              let vt := if vn.level = fn.level then vn.t else vars
              let r1 := quantS p q af fuel st.tickd fn.t vt
              let r0 := quantS p q af fuel r1.1 fn.e vt
              if fn.level = vn.level then
                let r := applyS p q.op af r0.1 r1.2 r0.2
                addS p r.1 (encKey (quantKey q f vars)) r.2
              else
                finishS p r0.1 (encKey (quantKey q f vars)) fn.level r1.2 r0.2

/-! ## specification -/

theorem quantKey_means {reg : Nat → List BDD} {s : Store} {q : Quant} {f vars : Edge} {a v : BDD}
    (hf : Denotes s f a) (hv : Denotes s vars v) :
    KeyMeans reg s (encKey (quantKey q f vars)) (quant q a v) :=
  KeyMeans.of (quantKey_wf q f vars) (DenotesL.two hf hv) rfl

theorem quantS_spec {p : Policy} (pok : p.OK) (reg : Nat → List BDD) (q : Quant) (af : Nat)
    (fuel : Nat) : ∀ (st : St) (f vars : Edge) (a v : BDD),
    InvX reg st → Denotes st.store f a → Denotes st.store vars v → a.size ≤ fuel →
    quantNeed q a v ≤ af →
    PostW reg st.store (quant q a v) (quantS p q af fuel st f vars) := by
  induction fuel with
  | zero =>
    intro st f vars a v _ _ _ hsz _
    have := size_pos a
    omega
  | succ fuel ih =>
    intro st f vars a v hinv hf hv hsz hneed
    cases hf with
    | @term x =>
      simp only [quantS, quant_leaf, isTerm_denotes hv]
      split
      · exact PostW.done hinv .term
      · exact PostW.done hinv .term
    | @inner i l t e tt te hi hft hfe =>
      have hdf : Denotes st.store (.inner i) (.node l tt te) := .inner hi hft hfe
      simp only [BDD.size] at hsz
      simp only [quantNeed] at hneed
      -- the popped variable set, on both levels
      have hpop : Denotes st.store
          (if q ≠ .unique then st.store.setPopS af vars l else vars) (popVars q v l) := by
        unfold popVars
        split
        · exact setPopS_denotes l af hv (by omega)
        · exact hv
      rw [← quant_popVars, quant_node', popVars_idem]
      simp only [quantS, hi]
      generalize (if q ≠ .unique then st.store.setPopS af vars l else vars) = vars' at hpop ⊢
      generalize hv' : popVars q v l = v' at hpop hneed
      cases hpop with
      | @term y => exact PostW.done hinv hdf
      | @inner j vl vt ve vtt vte hj hvt hve =>
        have hdv : Denotes st.store (.inner j) (.node vl vtt vte) := .inner hj hvt hve
        simp only [hj, quantStep]
        by_cases hu : q = .unique ∧ vl < l
        · simp only [hu, and_self, if_true]
          exact PostW.done hinv .term
        · simp only [hu, if_false] at hneed ⊢
          have hkey : KeyMeans reg st.store (encKey (quantKey q (.inner i) (.inner j)))
              (quantStep q l tt te (.node vl vtt vte)) := by
            have := quantKey_means (reg := reg) (q := q) hdf hdv
            rw [quant_node', ← hv', popVars_idem, hv'] at this
            exact this
          simp only [quantStep, hu, if_false] at hkey
          cases hget : p.get st.tick st.cache (encKey (quantKey q (.inner i) (.inner j))) with
          | some r =>
            -- cache hit
            have hent := hinv.2 _ _ (pok.get_mem _ _ _ _ hget)
            have := hent.hit (quantKey_wf q _ _) (DenotesL.two hdf hdv) rfl
            rw [quant_node', ← hv', popVars_idem, hv'] at this
            simp only [quantStep, hu, if_false] at this
            exact PostW.done (st := st.tickd) hinv.tickd this
          | none =>
            -- cache miss
            simp only
            by_cases hlv : l = vl
            · subst hlv
              simp only [if_true] at hneed hkey ⊢
              have p1 := ih st.tickd t vt tt vtt hinv.tickd hft hvt (by omega) (by omega)
              have p0 := ih _ e vt te vtt p1.inv (hfe.mono p1.le) (hvt.mono p1.le) (by omega)
                (by omega)
              have pa := (applyS_specX pok reg q.op af _ _ _ _ _ p0.inv (p1.den.mono p0.le) p0.den
                (by omega)).toW
              have pa' : PostW reg st.store _ _ :=
                PostW.trans (p1.le.trans p0.le) (fun hr => p0.nored (p1.nored hr)) pa
              exact addS_postW pok pa' _ hkey
            · have hvl : ¬ vl = l := fun h => hlv h.symm
              simp only [hlv, hvl, if_false] at hneed hkey ⊢
              have p1 := ih st.tickd t (.inner j) tt _ hinv.tickd hft hdv (by omega) (by omega)
              have p0 := ih _ e (.inner j) te _ p1.inv (hfe.mono p1.le) (hdv.mono p1.le) (by omega)
                (by omega)
              exact finishS_postW pok p1 p0 _ l hkey

end OxiddModel.Bdd.Refine
