import OxiddModel.Bdd.Ite
import OxiddModel.Bdd.Canon

/-!
# Reference semantics of quantification, variable sets and literal cubes

`qsem q ls g` is the specification of `∀/∃/∃!` over the levels `ls` of a Boolean function `g`
(given as a predicate on assignments): for each listed level the two cofactors `g[l:=⊤]`, `g[l:=⊥]`
are combined with `∧`/`∨`/`⊕`. This file contains only facts about that specification (no BDD
operation is mentioned), plus the shape predicates for the `vars` operands.
-/
namespace OxiddModel.Bdd
open BDD

/-! ## assignments -/

@[simp] theorem upd_same (σ : Nat → Bool) (l : Nat) (b : Bool) : upd σ l b l = b := by simp [upd]

theorem upd_upd_same (σ : Nat → Bool) (l : Nat) (b b' : Bool) :
    upd (upd σ l b) l b' = upd σ l b' := by
  funext w; simp only [upd]; split <;> rfl

theorem upd_comm (σ : Nat → Bool) {l l' : Nat} (b b' : Bool) (h : l ≠ l') :
    upd (upd σ l b) l' b' = upd (upd σ l' b') l b := by
  funext w; simp only [upd]
  by_cases h1 : w = l' <;> by_cases h2 : w = l <;> simp [h1, h2]
  · subst h1; subst h2; exact absurd rfl h
  · intro h3; exact absurd h3.symm h
  · intro h3; exact absurd h3 h

theorem upd_self (σ : Nat → Bool) (l : Nat) : upd σ l (σ l) = σ := by
  funext w; simp only [upd]; split
  · rename_i h; rw [h]
  · rfl

/-- an ordered diagram does not depend on levels above its root bound -/
theorem eval_upd_lt {n l : Nat} {f : BDD} (h : Ordered n f) (hl : l < n) (σ : Nat → Bool) (b : Bool) :
    f.eval (upd σ l b) = f.eval σ :=
  eval_indep h _ _ (fun v hv => upd_ne σ b (by omega))

/-! ## variable sets and literal cubes -/

/-- a variable set as the quantifiers expect it: a conjunction of positive literals
`x_{l1} ∧ x_{l2} ∧ …` with `n ≤ l1 < l2 < …` -/
inductive IsVarSet : Nat → BDD → Prop
  | top {n : Nat} : IsVarSet n (.leaf true)
  | node {n l : Nat} {rest : BDD} : n ≤ l → IsVarSet (l+1) rest → IsVarSet n (.node l rest (.leaf false))

/-- the levels of a variable set, top-most first (follows the then-child like `set_pop`) -/
def varsOf : BDD → List Nat
  | .leaf _ => []
  | .node l t _ => l :: varsOf t

/-- a literal cube as `restrict` expects it: a conjunction of literals with increasing levels -/
inductive IsLitCube : Nat → BDD → Prop
  | top {n : Nat} : IsLitCube n (.leaf true)
  | pos {n l : Nat} {rest : BDD} : n ≤ l → IsLitCube (l+1) rest → IsLitCube n (.node l rest (.leaf false))
  | neg {n l : Nat} {rest : BDD} : n ≤ l → IsLitCube (l+1) rest → IsLitCube n (.node l (.leaf false) rest)

/-- the literals `(level, polarity)` of a cube, top-most first -/
def litsOf : BDD → List (Nat × Bool)
  | .leaf _ => []
  | .node l t e =>
    match t with
    | .leaf false => (l, false) :: litsOf e
    | _ => (l, true) :: litsOf t

/-- the partial assignment `lits` laid over `σ` -/
def override (σ : Nat → Bool) (lits : List (Nat × Bool)) : Nat → Bool :=
  fun v => match lits.lookup v with
    | some b => b
    | none => σ v

@[simp] theorem override_nil (σ : Nat → Bool) : override σ [] = σ := rfl

theorem override_cons (σ : Nat → Bool) (l : Nat) (b : Bool) (r : List (Nat × Bool)) :
    override σ ((l, b) :: r) = upd (override σ r) l b := by
  funext v
  simp only [override, List.lookup, upd]
  by_cases h : v = l
  · subst h; simp
  · have : (v == l) = false := by simp [h]
    simp [this, h]

theorem IsVarSet.mono {n m : Nat} {v : BDD} (h : IsVarSet n v) (hmn : m ≤ n) : IsVarSet m v := by
  cases h with
  | top => exact .top
  | node hl hr => exact .node (by omega) hr

theorem IsLitCube.mono {n m : Nat} {v : BDD} (h : IsLitCube n v) (hmn : m ≤ n) : IsLitCube m v := by
  cases h with
  | top => exact .top
  | pos hl hr => exact .pos (by omega) hr
  | neg hl hr => exact .neg (by omega) hr

/-- a variable set is a cube of positive literals -/
theorem IsVarSet.isCube {n : Nat} {v : BDD} (h : IsVarSet n v) : IsLitCube n v := by
  induction h with
  | top => exact .top
  | node hl _ ih => exact .pos hl ih

theorem IsVarSet.ordered {n : Nat} {v : BDD} (h : IsVarSet n v) : Ordered n v := by
  induction h with
  | top => exact .leaf
  | node hl _ ih => exact .node hl ih .leaf

theorem IsVarSet.reduced {n : Nat} {v : BDD} (h : IsVarSet n v) : Reduced v := by
  induction h with
  | top => trivial
  | @node n l rest hl hr ih =>
    refine ⟨?_, ih, trivial⟩
    intro he; subst he; cases hr

/-- the function denoted by a variable set is the conjunction of its variables -/
theorem IsVarSet.eval_eq {n : Nat} {v : BDD} (h : IsVarSet n v) (σ : Nat → Bool) :
    v.eval σ = (varsOf v).all σ := by
  induction h with
  | top => rfl
  | node hl _ ih => simp only [eval, varsOf, List.all_cons, ih]; cases σ _ <;> simp

theorem IsVarSet.lt_of_mem {n : Nat} {v : BDD} (h : IsVarSet n v) : ∀ l ∈ varsOf v, n ≤ l := by
  induction h with
  | top => intro l hl; simp [varsOf] at hl
  | node hl _ ih =>
    intro l' hl'
    simp only [varsOf, List.mem_cons] at hl'
    rcases hl' with rfl | h'
    · exact hl
    · have := ih l' h'; omega

theorem IsVarSet.not_mem {n l : Nat} {v : BDD} (h : IsVarSet n v) (hl : l < n) : l ∉ varsOf v :=
  fun hm => by have := h.lt_of_mem l hm; omega

theorem IsVarSet.nodup {n : Nat} {v : BDD} (h : IsVarSet n v) : (varsOf v).Nodup := by
  induction h with
  | top => simp [varsOf]
  | node hl hr ih => simp only [varsOf, List.nodup_cons]; exact ⟨hr.not_mem (by omega), ih⟩

theorem IsLitCube.ordered {n : Nat} {c : BDD} (h : IsLitCube n c) : Ordered n c := by
  induction h with
  | top => exact .leaf
  | pos h1 _ ih => exact .node h1 ih .leaf
  | neg h1 _ ih => exact .node h1 .leaf ih

/-- levels above the cube's bound are not touched by the cube's partial assignment -/
theorem IsLitCube.override_lt {n : Nat} {c : BDD} (h : IsLitCube n c) (σ : Nat → Bool) {v : Nat} (hv : v < n) :
    override σ (litsOf c) v = σ v := by
  induction h with
  | top => rfl
  | @pos n l rest hl hr ih =>
    have : litsOf (.node l rest (.leaf false)) = (l, true) :: litsOf rest := by
      cases hr <;> rfl
    rw [this, override_cons, upd_ne _ _ (by omega)]; exact ih (by omega)
  | @neg n l rest hl hr ih =>
    have : litsOf (.node l (.leaf false) rest) = (l, false) :: litsOf rest := rfl
    rw [this, override_cons, upd_ne _ _ (by omega)]; exact ih (by omega)

/-- the partial assignment of a cube makes the cube true, and is the identity on assignments that
already satisfy the cube -/
theorem IsLitCube.eval_override {n : Nat} {c : BDD} (h : IsLitCube n c) (σ : Nat → Bool) :
    c.eval (override σ (litsOf c)) = true := by
  induction h with
  | top => rfl
  | @pos n l rest hl hr ih =>
    have : litsOf (.node l rest (.leaf false)) = (l, true) :: litsOf rest := by
      cases hr <;> rfl
    rw [this, override_cons]
    simp only [eval, upd_same, if_true]
    rw [eval_upd_lt hr.ordered (by omega)]
    exact ih
  | @neg n l rest hl hr ih =>
    have : litsOf (.node l (.leaf false) rest) = (l, false) :: litsOf rest := rfl
    rw [this, override_cons]
    simp only [eval, upd_same, Bool.false_eq_true, if_false]
    rw [eval_upd_lt hr.ordered (by omega)]
    exact ih

/-- on assignments that satisfy the cube its partial assignment changes nothing -/
theorem IsLitCube.override_of_eval {n : Nat} {c : BDD} (h : IsLitCube n c) {σ : Nat → Bool}
    (hσ : c.eval σ = true) : override σ (litsOf c) = σ := by
  induction h with
  | top => rfl
  | @pos n l rest hl hr ih =>
    have : litsOf (.node l rest (.leaf false)) = (l, true) :: litsOf rest := by
      cases hr <;> rfl
    rw [this, override_cons]
    simp only [eval] at hσ
    cases hl' : σ l
    · rw [hl'] at hσ; simp at hσ
    · rw [hl'] at hσ; simp only [if_true] at hσ
      rw [ih hσ, ← hl', upd_self]
  | @neg n l rest hl hr ih =>
    have : litsOf (.node l (.leaf false) rest) = (l, false) :: litsOf rest := rfl
    rw [this, override_cons]
    simp only [eval] at hσ
    cases hl' : σ l
    · rw [hl'] at hσ; simp only [Bool.false_eq_true, if_false] at hσ
      rw [ih hσ, ← hl', upd_self]
    · rw [hl'] at hσ; simp at hσ

/-! ## `set_pop` -/

theorem setPop_leaf (b : Bool) (u : Nat) : setPop (.leaf b) u = .leaf b := by simp [setPop]

/-- the root of a popped set is at or below `until` -/
theorem setPop_node_ge {vars : BDD} {u vl : Nat} {vt ve : BDD} (h : setPop vars u = .node vl vt ve) :
    u ≤ vl := by
  induction vars with
  | leaf b => simp [setPop] at h
  | node l t e iht _ =>
    simp only [setPop] at h
    split at h
    · cases h; omega
    · exact iht h

theorem IsVarSet.setPop {n : Nat} {vars : BDD} (h : IsVarSet n vars) (u : Nat) :
    IsVarSet n (setPop vars u) := by
  induction h with
  | top => simp only [Bdd.setPop]; exact .top
  | node hl hr ih =>
    simp only [Bdd.setPop]
    split
    · exact .node hl hr
    · exact ih.mono (by omega)

/-- popped set: bound by `until` as well -/
theorem IsVarSet.setPop_bound {n : Nat} {vars : BDD} (h : IsVarSet n vars) (u : Nat) :
    IsVarSet (max n u) (Bdd.setPop vars u) := by
  induction h with
  | top => simp only [Bdd.setPop]; exact .top
  | node hl hr ih =>
    simp only [Bdd.setPop]
    split
    · exact .node (by omega) hr
    · exact ih.mono (by omega)

/-- `set_pop` removes exactly the levels above `until` -/
theorem IsVarSet.varsOf_setPop {n : Nat} {vars : BDD} (h : IsVarSet n vars) (u : Nat) :
    varsOf (Bdd.setPop vars u) = (varsOf vars).filter (fun l => decide (u ≤ l)) := by
  induction h with
  | top => simp [Bdd.setPop, varsOf]
  | @node n l rest hl hr ih =>
    simp only [Bdd.setPop, varsOf]
    split
    · rename_i hge
      simp only [varsOf, List.filter_cons, hge, decide_true, if_true]
      congr 1
      symm
      apply List.filter_eq_self.mpr
      intro a ha
      have := hr.lt_of_mem a ha
      simp only [decide_eq_true_eq]; omega
    · rename_i hlt
      rw [ih]
      simp [hlt]

/-! ## the specification `qsem` -/

/-- quantification of one level: combine the two cofactors with the quantifier's connective -/
def q1 (q : Quant) (l : Nat) (g : (Nat → Bool) → Bool) : (Nat → Bool) → Bool :=
  fun σ => q.op.sem (g (upd σ l true)) (g (upd σ l false))

/-- quantification of a list of levels (the head is the outermost quantifier) -/
def qsem (q : Quant) : List Nat → ((Nat → Bool) → Bool) → (Nat → Bool) → Bool
  | [], g => g
  | l :: ls, g => q1 q l (qsem q ls g)

@[simp] theorem qsem_nil (q : Quant) (g : (Nat → Bool) → Bool) : qsem q [] g = g := rfl
theorem qsem_cons (q : Quant) (l : Nat) (ls : List Nat) (g : (Nat → Bool) → Bool) :
    qsem q (l :: ls) g = q1 q l (qsem q ls g) := rfl

/-- `g` does not depend on level `l` -/
def Indep (g : (Nat → Bool) → Bool) (l : Nat) : Prop := ∀ σ b, g (upd σ l b) = g σ

theorem q1_indep_self (q : Quant) (l : Nat) (g : (Nat → Bool) → Bool) : Indep (q1 q l g) l := by
  intro σ b; simp only [q1, upd_upd_same]

theorem q1_indep {q : Quant} {l l' : Nat} {g : (Nat → Bool) → Bool} (h : Indep g l) :
    Indep (q1 q l' g) l := by
  by_cases hll : l' = l
  · subst hll; exact q1_indep_self q _ g
  · intro σ b
    simp only [q1]
    rw [upd_comm σ b true (Ne.symm hll), upd_comm σ b false (Ne.symm hll), h, h]

theorem qsem_indep {q : Quant} {l : Nat} {g : (Nat → Bool) → Bool} (h : Indep g l) (ls : List Nat) :
    Indep (qsem q ls g) l := by
  induction ls with
  | nil => exact h
  | cons l' ls ih => exact q1_indep ih

theorem qsem_indep_mem (q : Quant) {l : Nat} (g : (Nat → Bool) → Bool) {ls : List Nat} (h : l ∈ ls) :
    Indep (qsem q ls g) l := by
  induction ls with
  | nil => cases h
  | cons l' ls ih =>
    rcases List.mem_cons.mp h with rfl | h'
    · exact q1_indep_self q _ _
    · exact q1_indep (ih h')

/-- `∀x.g = g` and `∃x.g = g` if `g` does not depend on `x` -/
theorem q1_of_indep {q : Quant} (hq : q ≠ .unique) {l : Nat} {g : (Nat → Bool) → Bool} (h : Indep g l) :
    q1 q l g = g := by
  funext σ
  have h' : ∀ σ b, g (upd σ l b) = g σ := h
  simp only [q1, h']
  cases q <;> simp_all [Quant.op, Op.sem]

/-- `∃!x.g = g ⊕ g = ⊥` if `g` does not depend on `x` (the special cases in `quant`/`apply_quant`) -/
theorem q1_unique_of_indep {l : Nat} {g : (Nat → Bool) → Bool} (h : Indep g l) (σ : Nat → Bool) :
    q1 .unique l g σ = false := by
  have h' : ∀ σ b, g (upd σ l b) = g σ := h
  simp [q1, h', Quant.op, Op.sem]

theorem qsem_congr (q : Quant) (ls : List Nat) {g g' : (Nat → Bool) → Bool} (h : ∀ σ, g σ = g' σ) :
    qsem q ls g = qsem q ls g' := by
  have : g = g' := funext h
  rw [this]

/-- fixing a level that is not quantified commutes with the quantification -/
theorem qsem_upd {q : Quant} {l : Nat} {ls : List Nat} (hl : l ∉ ls) (g : (Nat → Bool) → Bool)
    (σ : Nat → Bool) (b : Bool) :
    qsem q ls g (upd σ l b) = qsem q ls (fun τ => g (upd τ l b)) σ := by
  induction ls generalizing σ with
  | nil => rfl
  | cons l' ls ih =>
    have hne : l ≠ l' := fun h => hl (h ▸ List.mem_cons_self)
    have hl' : l ∉ ls := fun h => hl (List.mem_cons_of_mem _ h)
    simp only [qsem_cons, q1]
    rw [upd_comm σ b true hne, upd_comm σ b false hne, ih hl', ih hl']

/-- Shannon expansion on a level that is not quantified commutes with the quantification -/
theorem qsem_ite {q : Quant} {l : Nat} {ls : List Nat} (hl : l ∉ ls) (a b : (Nat → Bool) → Bool)
    (σ : Nat → Bool) :
    qsem q ls (fun τ => if τ l then a τ else b τ) σ = if σ l then qsem q ls a σ else qsem q ls b σ := by
  induction ls generalizing σ with
  | nil => rfl
  | cons l' ls ih =>
    have hne : l ≠ l' := fun h => hl (h ▸ List.mem_cons_self)
    have hl' : l ∉ ls := fun h => hl (List.mem_cons_of_mem _ h)
    simp only [qsem_cons, q1]
    rw [ih hl', ih hl', upd_ne σ true hne, upd_ne σ false hne]
    cases σ l <;> simp

/-- quantifying a constant: `∀/∃` leave it, `∃!` over a non-empty set gives `⊥` -/
theorem qsem_const (q : Quant) (ls : List Nat) (c : Bool) (σ : Nat → Bool) :
    qsem q ls (fun _ => c) σ = if q ≠ .unique || ls.isEmpty then c else false := by
  induction ls generalizing σ with
  | nil => simp
  | cons l ls ih =>
    simp only [qsem_cons, q1, ih]
    cases q <;> cases c <;> cases ls <;> simp [Quant.op, Op.sem]

/-- popping the levels above `u` does not change `∀/∃` of a function that does not depend on them -/
theorem qsem_setPop {q : Quant} (hq : q ≠ .unique) (vars : BDD) (u : Nat) {g : (Nat → Bool) → Bool}
    (hg : ∀ l, l < u → Indep g l) :
    qsem q (varsOf (setPop vars u)) g = qsem q (varsOf vars) g := by
  induction vars with
  | leaf b => simp [setPop]
  | node l t e iht _ =>
    simp only [setPop]
    split
    · rfl
    · rename_i hlt
      rw [iht]
      simp only [varsOf, qsem_cons]
      rw [q1_of_indep hq (qsem_indep (hg l (by omega)) _)]

/-! ## order independence -/

theorem q1_comm (q : Quant) (l l' : Nat) (g : (Nat → Bool) → Bool) :
    q1 q l (q1 q l' g) = q1 q l' (q1 q l g) := by
  by_cases h : l = l'
  · subst h; rfl
  · funext σ
    simp only [q1]
    rw [upd_comm σ true true h, upd_comm σ true false h, upd_comm σ false true h,
      upd_comm σ false false h]
    generalize g (upd (upd σ l' true) l true) = a
    generalize g (upd (upd σ l' false) l true) = b
    generalize g (upd (upd σ l' true) l false) = c
    generalize g (upd (upd σ l' false) l false) = d
    cases q <;> cases a <;> cases b <;> cases c <;> cases d <;> rfl

/-- **`quant_comm`**: the result of a quantification does not depend on the order in which the
levels are listed -/
theorem qsem_perm (q : Quant) {ls ls' : List Nat} (h : ls.Perm ls') (g : (Nat → Bool) → Bool) :
    qsem q ls g = qsem q ls' g := by
  induction h with
  | nil => rfl
  | cons x _ ih => simp only [qsem_cons, ih]
  | swap x y l => simp only [qsem_cons]; exact q1_comm q y x _
  | trans _ _ ih1 ih2 => exact ih1.trans ih2

theorem qsem_append (q : Quant) (ls ls' : List Nat) (g : (Nat → Bool) → Bool) :
    qsem q (ls ++ ls') g = qsem q ls (qsem q ls' g) := by
  induction ls with
  | nil => rfl
  | cons l ls ih => simp only [List.cons_append, qsem_cons, ih]

/-- `∀/∃` are idempotent per level: listing a level twice changes nothing -/
theorem q1_idem {q : Quant} (hq : q ≠ .unique) (l : Nat) (g : (Nat → Bool) → Bool) :
    q1 q l (q1 q l g) = q1 q l g := q1_of_indep hq (q1_indep_self q l g)

/-! ## the classical reading of `∃` and `∀` -/

/-- `τ` differs from `σ` at most on the levels `ls` -/
def AgreeOff (ls : List Nat) (σ τ : Nat → Bool) : Prop := ∀ v, v ∉ ls → τ v = σ v

theorem qsem_exists_iff (ls : List Nat) (g : (Nat → Bool) → Bool) (σ : Nat → Bool) :
    qsem .exists_ ls g σ = true ↔ ∃ τ, AgreeOff ls σ τ ∧ g τ = true := by
  induction ls generalizing σ with
  | nil =>
    constructor
    · intro h; exact ⟨σ, fun _ _ => rfl, h⟩
    · rintro ⟨τ, ha, hg⟩
      have : τ = σ := funext fun v => ha v (by simp)
      rw [← this]; exact hg
  | cons l ls ih =>
    simp only [qsem_cons, q1, Quant.op, Op.sem, Bool.or_eq_true, ih]
    constructor
    · rintro (⟨τ, ha, hg⟩ | ⟨τ, ha, hg⟩) <;>
        exact ⟨τ, fun v hv => by
          rw [ha v (fun h => hv (List.mem_cons_of_mem _ h))]
          exact upd_ne σ _ (fun h => hv (h ▸ List.mem_cons_self)), hg⟩
    · rintro ⟨τ, ha, hg⟩
      have key : AgreeOff ls (upd σ l (τ l)) τ := by
        intro v hv
        by_cases hvl : v = l
        · subst hvl; simp
        · rw [upd_ne σ _ hvl]
          exact ha v (fun h => by rcases List.mem_cons.mp h with h | h <;> contradiction)
      cases hτ : τ l
      · right; rw [hτ] at key; exact ⟨τ, key, hg⟩
      · left; rw [hτ] at key; exact ⟨τ, key, hg⟩

theorem qsem_forall_iff (ls : List Nat) (g : (Nat → Bool) → Bool) (σ : Nat → Bool) :
    qsem .forall_ ls g σ = true ↔ ∀ τ, AgreeOff ls σ τ → g τ = true := by
  induction ls generalizing σ with
  | nil =>
    constructor
    · intro h τ ha
      have : τ = σ := funext fun v => ha v (by simp)
      rw [this]; exact h
    · intro h; exact h σ (fun _ _ => rfl)
  | cons l ls ih =>
    simp only [qsem_cons, q1, Quant.op, Op.sem, Bool.and_eq_true, ih]
    constructor
    · rintro ⟨h1, h2⟩ τ ha
      have key : AgreeOff ls (upd σ l (τ l)) τ := by
        intro v hv
        by_cases hvl : v = l
        · subst hvl; simp
        · rw [upd_ne σ _ hvl]
          exact ha v (fun h => by rcases List.mem_cons.mp h with h | h <;> contradiction)
      cases hτ : τ l
      · rw [hτ] at key; exact h2 τ key
      · rw [hτ] at key; exact h1 τ key
    · intro h
      constructor <;> intro τ ha <;>
        exact h τ (fun v hv => by
          rw [ha v (fun h => hv (List.mem_cons_of_mem _ h))]
          exact upd_ne σ _ (fun h => hv (h ▸ List.mem_cons_self)))

end OxiddModel.Bdd
