import OxiddModel.Bdd.StoreRefine
import OxiddModel.Bdd.Properties
import OxiddModel.Bdd.PropertiesC12
import OxiddModel.Util.OrderS
import OxiddModel.Util.VisitS

/-!
# The read-only queries of the simple BDD rules at STORE level, under a variable order

The nodes of the store (`StoreRefine.lean`) hold LEVELS; the user speaks about VARIABLES; the
manager's `var_to_level` / `level_to_var` arrays (`OrderS.Order`) translate. This file models, on
the id-indexed store and with the maps explicit,

* `eval_edge` (`crates/oxidd-rules-bdd/src/simple/apply_rec.rs`): a `FixedBitSet` with one bit per
  LEVEL, zero-initialised, `choices.set(var_to_level(var), !val)` for every `(var, val)` of the
  argument list in order (`fillChoices`), then the tail-recursive walk
  `node.child(choices.contains(node.level()) as usize)` (`walkS`);
* `var_edge` / `not_var_edge`: `get_or_insert` of the node `(var_to_level(var); ⊤, ⊥)` resp.
  `(…; ⊥, ⊤)` — no `reduce`, the children differ (`varS`, `notVarS`);
* `cofactors_edge` / `cofactor_true` / `cofactor_false` (`oxidd-core/src/function.rs`,
  `DiagramRules::cofactors` of `simple/mod.rs` = `node.children()`): `cofactorsS`;
* `Function::node_count` with the index manager's `NodeSet` (`nodeCountS`, on top of
  `Util/VisitS.lean`); ids are the edges themselves (no tags), the two terminals are nodes with
  their own ids and are counted;
* `satisfiable` / `valid`: comparison with `f_edge` / `t_edge`.

`evalV o ρ t` is the function over VARIABLES denoted by the tree `t` (levels read through
`level_to_var`): `⟦e⟧ ρ = evalV o ρ t` for `Denotes s e t`.

Recursion is by fuel; the specifications hold whenever the fuel is at least the size of the
denoted tree (as in `ApplyS.lean`).
-/
namespace OxiddModel.Bdd.QueriesS
open OxiddModel.Bdd OxiddModel.Bdd.BDD OxiddModel.Bdd.Refine OxiddModel.OrderS OxiddModel

/-! ## denotation over variables -/

/-- the Boolean function over variables denoted by a tree over levels -/
def evalV (o : Order) (ρ : Nat → Bool) (t : BDD) : Bool := t.eval (fun l => ρ (o.var l))

/-- every level assignment is the image of a variable assignment, and vice versa -/
theorem evalV_lvl (o : Order) (hp : PermOK o) (σ : Nat → Bool) (t : BDD) :
    evalV o (fun v => σ (o.lvl v)) t = t.eval σ := by
  unfold evalV
  congr 1
  funext l
  show σ (o.lvl (o.var l)) = σ l
  rw [hp.lvl_var]

theorem updV_var (o : Order) (hp : PermOK o) (ρ : Nat → Bool) (l : Nat) (b : Bool) :
    (fun k => updV ρ (o.var l) b (o.var k)) = upd (fun k => ρ (o.var k)) l b := by
  funext k
  simp only [updV, upd]
  by_cases e : k = l
  · subst e; simp
  · have : ¬ o.var k = o.var l := fun h => e (hp.var_inj h)
    simp [e, this]

/-! ## `eval_edge` -/

/-- the loop `for (var, val) in args { choices.set(var_to_level(var), !val) }` over a zeroed bit
set with one bit per level (`FixedBitSet::set` panics out of range; here: no effect) -/
def fillChoices (o : Order) (args : List (Nat × Bool)) : Array Bool :=
  args.foldl (fun ch a => ch.setIfInBounds (o.lvl a.1) (!a.2)) (Array.replicate o.n false)

/-- `inner`: `node.child(choices.contains(node.level()) as usize)`; child 0 is "then"
(`FixedBitSet::contains` is `false` out of range) -/
def walkS (s : Store) (ch : Array Bool) : Nat → Edge → Bool
  | 0, _ => false
  | _+1, .term b => b
  | fuel+1, .inner i =>
    match s.get? i with
    | none => false -- dangling edge (excluded by `Denotes`)
    | some n => walkS s ch fuel (if ch.getD n.level false then n.e else n.t)

/-- `eval_edge(manager, edge, args)` -/
def evalS (o : Order) (s : Store) (fuel : Nat) (e : Edge) (args : List (Nat × Bool)) : Bool :=
  walkS s (fillChoices o args) fuel e

/-- the assignment described by an argument list: last value counts; a variable that is not named
gets `true` — the zeroed bit selects child 0, the then-child (the documentation of
`BooleanFunction::eval` says `false`; the callers of the property always name every variable) -/
def rhoArgs (args : List (Nat × Bool)) : Nat → Bool := argVal true args

theorem getD_setIfInBounds (t : Array Bool) (l k : Nat) (x : Bool) (hl : l < t.size) :
    (t.setIfInBounds l x).getD k false = if k = l then x else t.getD k false := by
  simp only [Array.getD_eq_getD_getElem?, Array.getElem?_setIfInBounds]
  by_cases e : k = l
  · subst e; simp [hl]
  · have : ¬ l = k := fun h => e h.symm
    simp [e, this]

/-- the bit of level `l` after the loop is the negated value of the variable on that level -/
theorem fillChoices_get (o : Order) (hp : PermOK o) (args : List (Nat × Bool))
    (hargs : ∀ a ∈ args, a.1 < o.n) (l : Nat) :
    (fillChoices o args).getD l false = !(rhoArgs args (o.var l)) := by
  unfold fillChoices rhoArgs argVal
  exact table_fill o hp (fun t l x => t.setIfInBounds l (!x)) (fun t l => t.getD l false)
    (fun x => !x) (fun t => t.size = o.n)
    (fun t l x _ ht => by simpa using ht)
    (fun t l x k hl ht => getD_setIfInBounds t l k (!x) (by omega))
    args hargs (Array.replicate o.n false) true l (by simp)
    (by simp [Array.getD_eq_getD_getElem?, Array.getElem?_replicate]; split <;> rfl)

theorem walkS_eq (s : Store) (ch : Array Bool) (σ : Nat → Bool)
    (h : ∀ l, ch.getD l false = !σ l) {e : Edge} {t : BDD} (hd : Denotes s e t) :
    ∀ fuel, t.size ≤ fuel → walkS s ch fuel e = t.eval σ := by
  induction hd with
  | term =>
    intro fuel hf
    cases fuel with
    | zero => simp [BDD.size] at hf
    | succ fuel => rfl
  | @inner i l t e tt te hi _ _ iht ihe =>
    intro fuel hf
    cases fuel with
    | zero => simp [BDD.size] at hf
    | succ fuel =>
      simp only [BDD.size] at hf
      simp only [walkS, hi, h l, BDD.eval]
      cases σ l
      · simp only [Bool.not_false, if_true]
        exact ihe fuel (by omega)
      · simp only [Bool.not_true, Bool.false_eq_true, if_false]
        exact iht fuel (by omega)

/-! ## `var_edge`, `not_var_edge` -/

/-- `LevelView::get_or_insert` (without the reduction rule) -/
def getOrInsert (s : Store) (n : Node) : Store × Edge :=
  match s.find? n with
  | some i => (s, .inner i)
  | none => let r := s.alloc n; (r.1, .inner r.2)

theorem mkNode_eq_getOrInsert (s : Store) (l : Nat) (t e : Edge) (h : t ≠ e) :
    s.mkNode l t e = getOrInsert s ⟨l, t, e⟩ := by
  unfold Store.mkNode getOrInsert
  rw [if_neg h]
  cases s.find? ⟨l, t, e⟩ <;> rfl

/-- `var_edge` -/
def varS (o : Order) (s : Store) (v : Nat) : Store × Edge :=
  let level := o.lvl v
  getOrInsert s ⟨level, .term true, .term false⟩

/-- `not_var_edge` -/
def notVarS (o : Order) (s : Store) (v : Nat) : Store × Edge :=
  let level := o.lvl v
  getOrInsert s ⟨level, .term false, .term true⟩

/-! ## `cofactors_edge` -/

/-- `cofactors_edge`: `None` for a terminal, else `(child 0, child 1)` -/
def cofactorsS (s : Store) : Edge → Option (Edge × Edge)
  | .term _ => none
  | .inner i => (s.get? i).map fun n => (n.t, n.e)

/-- `cofactor_true` / `cofactor_false` -/
def cofactorTrueS (s : Store) (e : Edge) : Option Edge := (cofactorsS s e).map (·.1)
def cofactorFalseS (s : Store) (e : Edge) : Option Edge := (cofactorsS s e).map (·.2)

/-! ## `node_count` -/

/-- ids of the children in iteration order (`node.children()`: then, else); terminals have none -/
def kidsS (s : Store) : Edge → List Edge
  | .term _ => []
  | .inner i =>
    match s.get? i with
    | none => []
    | some n => [n.t, n.e]

/-- `Function::node_count` -/
def nodeCountS (s : Store) (fuel : Nat) (e : Edge) : Nat := VisitS.count (kidsS s) fuel e

open Classical in
/-- the tree an edge denotes, as a (noncomputable) function; used only as the rank of the
traversal and to transport the visited set to trees -/
noncomputable def den (s : Store) (e : Edge) : BDD :=
  if h : ∃ t, Denotes s e t then Classical.choose h else .leaf false

theorem den_eq {s : Store} {e : Edge} {t : BDD} (h : Denotes s e t) : den s e = t := by
  have hex : ∃ t, Denotes s e t := ⟨t, h⟩
  unfold den
  rw [dif_pos hex]
  exact Denotes.functional (Classical.choose_spec hex) h

theorem reach_denotes {s : Store} {e y : Edge} (hr : VisitS.Reach (kidsS s) e y) :
    ∀ {t : BDD}, Denotes s e t → ∃ ty, Subterm ty t ∧ Denotes s y ty := by
  induction hr with
  | refl => intro t hd; exact ⟨t, Subterm.refl t, hd⟩
  | @step x k z hk _ ih =>
    intro t hd
    cases hd with
    | term => simp [kidsS] at hk
    | @inner i l a b ta tb hi ha hb =>
      simp only [kidsS, hi, List.mem_cons, List.not_mem_nil, or_false] at hk
      rcases hk with rfl | rfl
      · obtain ⟨ty, hs, hy⟩ := ih ha
        exact ⟨ty, .inr (.inl hs), hy⟩
      · obtain ⟨ty, hs, hy⟩ := ih hb
        exact ⟨ty, .inr (.inr hs), hy⟩

theorem subterm_reach {s : Store} {e : Edge} {t : BDD} (hd : Denotes s e t) :
    ∀ ty, Subterm ty t → ∃ y, VisitS.Reach (kidsS s) e y ∧ Denotes s y ty := by
  induction hd with
  | @term b => intro ty hs; cases hs; exact ⟨_, .refl, .term⟩
  | @inner i l a b ta tb hi ha hb iha ihb =>
    intro ty hs
    rcases hs with rfl | hs | hs
    · exact ⟨_, .refl, .inner hi ha hb⟩
    · obtain ⟨y, hr, hy⟩ := iha ty hs
      exact ⟨y, .step (by simp [kidsS, hi]) hr, hy⟩
    · obtain ⟨y, hr, hy⟩ := ihb ty hs
      exact ⟨y, .step (by simp [kidsS, hi]) hr, hy⟩

/-- the diagram below an edge that denotes a tree is acyclic: the size of the denoted tree is a
rank -/
theorem ranked_of_denotes {s : Store} {e : Edge} {t : BDD} (hd : Denotes s e t) :
    VisitS.Ranked (kidsS s) (fun x => (den s x).size) e := by
  intro y hy z hz
  obtain ⟨ty, _, hty⟩ := reach_denotes hy hd
  cases hty with
  | term => simp [kidsS] at hz
  | @inner i l a b ta tb hi ha hb =>
    simp only [kidsS, hi, List.mem_cons, List.not_mem_nil, or_false] at hz
    show (den s z).size < (den s (.inner i)).size
    rw [den_eq (.inner hi ha hb)]
    rcases hz with rfl | rfl
    · rw [den_eq ha]; simp only [BDD.size]; omega
    · rw [den_eq hb]; simp only [BDD.size]; omega

/-! ## `satisfiable`, `valid` -/

/-- `edge != f_edge(manager)` -/
def satisfiableS (e : Edge) : Bool := e != .term false

/-- `edge == t_edge(manager)` -/
def validS (e : Edge) : Bool := e == .term true

/-! ## the same code with the wrong map (what the seeded defects did) -/

/-- `eval_edge` with `level_to_var` where `var_to_level` belongs -/
def evalS_l2v (o : Order) (s : Store) (fuel : Nat) (e : Edge) (args : List (Nat × Bool)) : Bool :=
  walkS s (args.foldl (fun ch a => ch.setIfInBounds (o.var a.1) (!a.2)) (Array.replicate o.n false))
    fuel e

/-- `eval_edge` with the variable number used as level -/
def evalS_nomap (o : Order) (s : Store) (fuel : Nat) (e : Edge) (args : List (Nat × Bool)) : Bool :=
  walkS s (args.foldl (fun ch a => ch.setIfInBounds a.1 (!a.2)) (Array.replicate o.n false)) fuel e

/-- `var_edge` / `not_var_edge` with `level_to_var` where `var_to_level` belongs -/
def varS_l2v (o : Order) (s : Store) (v : Nat) : Store × Edge :=
  getOrInsert s ⟨o.var v, .term true, .term false⟩
def notVarS_l2v (o : Order) (s : Store) (v : Nat) : Store × Edge :=
  getOrInsert s ⟨o.var v, .term false, .term true⟩

/-- `not_var_edge` with the variable number used as level (seeded `C02-bdd-notvar-level`) -/
def notVarS_nomap (s : Store) (v : Nat) : Store × Edge :=
  getOrInsert s ⟨v, .term false, .term true⟩

end OxiddModel.Bdd.QueriesS
