import OxiddModel.Bdd.ThreadsRun
import OxiddModel.Bdd.RcSLemmasGc

/-!
# The interleaving machine with reference counters as shared state (`RThreads`)

`Threads.lean` is the fine-grained interleaving machine of the BDD apply algorithms (threads as
continuation trees, one atomic action per step, fork/join of the parallel recursor, a phased
collector) **without counters**: its collector frees "what is not a root and not the child of a
stored node". `RcS.lean` has the counters (`rc` per node, `cloneEdge`/`dropEdge`, every clone, drop
and `EdgeDropGuard` of `apply_rec.rs`), but only **sequentially**.

This file joins them. The shared state is `Rc.RSt` (unique table + apply cache + time stamp **and
one counter per slot**); the atomic actions (`RAct`) are the real ones:

* `retain e` — `NodeBase::retain` = `rc.fetch_add(1, Relaxed)` (`node/fixed_arity.rs`), called by
  `clone_edge`: **one step**;
* `release e` — `NodeBase::release` = `rc.fetch_sub(1, Release)`, called by `drop_edge`: **one step**;
* `mk l t e` — `LevelViewSet::get_or_insert` under the level mutex (`manager.rs`): lookup; on a miss
  `add_node` (`rc = 2`: the table's reference and the returned edge; the children move into the
  node), on a hit `clone_edge_unchecked(found)` (a retain) — one step, atomic with respect to the
  sweep of that level and to other `get_or_insert`s of that level because of the mutex;
* the children of the rejected node (`drop(node)` in the hit branch) are released by **separate**
  `release` steps;
* `cacheGet hit` — `ApplyCache::get` under the bucket lock (`oxidd-cache/src/direct.rs`): compares
  the key and returns `manager.clone_edge(value)`, i.e. a retain of the result, before the bucket
  is unlocked (entries hold **no** counted reference);
* `cacheAdd` — as in `Threads.lean` (stores borrowed edges, no counter changes);
* collector: `gcBegin` (`pre_gc`: cache cleared, buckets stay locked), `gcLevel l` — **one level per
  step** under that level's mutex, `LevelViewSet::gc`: `retain(|e| rc != 1, free_slot)`, deciding by
  the **counter** and releasing the children of what it frees (`Rc.gcLevel` of `RcS.lean`) —,
  `gcEnd` (`post_gc`).

## the program text

`RTask` is `Threads.Task` with the counter operations of `apply_rec.rs` / `recursor.rs` /
`simple/mod.rs::reduce` made explicit (reference: `Rc.notR/applyR/iteR/forkR/mkNodeR`):

* `Operation::Done(h)` of `terminal_bin` and the terminal cases of `apply_ite` return
  `clone_edge(..)` (or `get_terminal`, terminals have no counter): entering such a call is a
  `retain` step;
* a cache hit returns a clone (`cacheGet (some h)`);
* the operands of recursive calls (`Borrowed<M::Edge>`: cofactors, the operands themselves) and
  the cache keys are **borrowed** — no counter operation;
* `rec.binary(..)`: the result of the then-call is wrapped in an `EdgeDropGuard` (`seq0 fr r1 _`
  owns `r1`); with the `ParallelRecursor` both closures return `EdgeDropGuard`s (`par fr (ret r1)
  (ret r0)` owns both);
* `reduce(manager, level, t.into_edge(), e.into_edge(), op)` consumes both: `t == e`:
  `drop_edge(e)`, return `t`; unique-table hit: the rejected node's children `t`, `e` are dropped
  and the node found is retained; miss: the children move into the new node. The machine's state
  after `reduce` is `made key r ds` where `ds` are the edges **still to be released** (each by its
  own step), then `apply_cache().add` and `Ok(h)`.
  *Order inside the hit branch.* The code releases `t`, `e` and then retains `found`, all under the
  level mutex; the machine retains `found` in the `mk` step and releases afterwards. The two
  orders differ only in the value of `found`'s counter while the mutex is held, which nobody who
  could act on it (the sweep of that level) can observe. Retaining *after* unlocking is the seeded
  defect `R3-C07-terminal-getedge-unlock-before-retain` (`RThreadsBad.lean`).
* handles: `clone i` is one `retain` step, `drop i` one `release` step, on any thread.

Out of memory is not modelled (allocation always succeeds), as in `Threads.lean`.

Forgetting the counters and the pending releases (`RCfg.erase`) this machine **is** the machine of
`Threads.lean` (`RThreadsErase.lean`, `RThreadsProof.lean`).
-/
namespace OxiddModel.Bdd.RThreads
open OxiddModel.Bdd OxiddModel.Bdd.BDD OxiddModel.Bdd.Refine OxiddModel.Bdd.Threads
open OxiddModel.Bdd.Rc (RSt rcGet rcSet cloneEdge dropEdge)

/-! ## tasks -/

/-- `Threads.Task` with the pending releases after `reduce` -/
inductive RTask where
  | call (d : Nat) (c : Call)
  | miss (d : Nat) (c : Call) (key : Key)
  | seq1 (fr : Frame) (c0 : Call) (t1 : RTask)
  | seq0 (fr : Frame) (r1 : Edge) (t0 : RTask)
  | par (fr : Frame) (t1 t0 : RTask)
  /-- `reduce` has returned `r` (owned); the edges `ds` (owned) are still to be released: the
  children of the rejected node after a unique-table hit, or `e` when `t == e` -/
  | made (key : Key) (r : Edge) (ds : List Edge)
  | ret (r : Edge)
deriving DecidableEq, Repr

def RTask.ret? : RTask → Option Edge
  | .ret r => some r
  | _ => none

/-- forget the pending releases -/
def RTask.erase : RTask → Task
  | .call d c => .call d c
  | .miss d c key => .miss d c key
  | .seq1 fr c0 t1 => .seq1 fr c0 t1.erase
  | .seq0 fr r1 t0 => .seq0 fr r1 t0.erase
  | .par fr t1 t0 => .par fr t1.erase t0.erase
  | .made key r _ => .made key r
  | .ret r => .ret r

/-- a task of `Threads.lean` as a task of this machine (nothing pending) -/
def lift : Task → RTask
  | .call d c => .call d c
  | .miss d c key => .miss d c key
  | .seq1 fr c0 t1 => .seq1 fr c0 (lift t1)
  | .seq0 fr r1 t0 => .seq0 fr r1 (lift t0)
  | .par fr t1 t0 => .par fr (lift t1) (lift t0)
  | .made key r => .made key r []
  | .ret r => .ret r

/-- the edges a task **owns** (each is counted in its node's `rc`): the then-result kept in an
`EdgeDropGuard`, results of finished sub-tasks, the edge `reduce` returned, and the edges still to
be released -/
def RTask.owned : RTask → List Edge
  | .call _ _ => []
  | .miss _ _ _ => []
  | .seq1 _ _ t1 => t1.owned
  | .seq0 _ r1 t0 => r1 :: t0.owned
  | .par _ t1 t0 => t1.owned ++ t0.owned
  | .made _ r ds => r :: ds
  | .ret r => [r]

/-- all edges a task holds (owned and borrowed) -/
def RTask.held : RTask → List Edge
  | .call _ c => c.edges
  | .miss _ c key => c.edges ++ key.2
  | .seq1 fr c0 t1 => fr.key.2 ++ (c0.edges ++ t1.held)
  | .seq0 fr r1 t0 => fr.key.2 ++ (r1 :: t0.held)
  | .par fr t1 t0 => fr.key.2 ++ (t1.held ++ t0.held)
  | .made key r ds => r :: (key.2 ++ ds)
  | .ret r => [r]

/-! ## atomic actions on the shared state -/

inductive RAct where
  | skip
  /-- `rc.fetch_add(1)` on the node of `e` (nothing for a terminal) -/
  | retain (e : Edge)
  /-- `rc.fetch_sub(1)` on the node of `e` -/
  | release (e : Edge)
  /-- a cache query under the bucket lock; a hit retains the result before unlocking -/
  | cacheGet (hit : Option Edge)
  /-- `get_or_insert` under the level mutex -/
  | mk (l : Nat) (t e : Edge)
  | cacheAdd (p : Policy) (k : Key) (r : Edge)
deriving Inhabited

/-- `LevelViewSet::get_or_insert` for a node with `t ≠ e` (for `t = e` `reduce` does not call it):
hit: retain the node found; miss: `add_node`, the new node starts with `rc = 2` -/
def getOrInsert (r : RSt) (l : Nat) (t e : Edge) : RSt :=
  if t = e then r else
  match r.st.store.find? ⟨l, t, e⟩ with
  | some i => cloneEdge r (.inner i)
  | none =>
    let a := r.st.store.alloc ⟨l, t, e⟩
    { st := { r.st with store := a.1 }, rc := rcSet r.rc a.2 2 }

def RAct.run : RAct → RSt → RSt
  | .skip, r => r
  | .retain e, r => cloneEdge r e
  | .release e, r => dropEdge r e
  | .cacheGet (some h), r => cloneEdge r.tickd h
  | .cacheGet Option.none, r => r.tickd
  | .mk l t e, r => getOrInsert r l t e
  | .cacheAdd p k x, r =>
    { r with st := ⟨r.st.store, p.add r.st.tick r.st.cache k x, r.st.tick + 1⟩ }

/-- the action of `Threads.lean` this action is, counters forgotten -/
def RAct.erase : RAct → Option Action
  | .skip => Option.none
  | .retain _ => Option.none
  | .release _ => Option.none
  | .cacheGet _ => some .cacheGet
  | .mk l t e => some (.mk l t e)
  | .cacheAdd p k r => some (.cacheAdd p k r)

/-! ## one step of a task -/

abbrev ROut := RAct × RTask

/-- entry of a call: `Call.entry` of `Threads.lean` (terminal cases, delegation, cache query);
whenever it *returns* an edge `h`, the caller receives an owned reference: `clone_edge(h)` /
`get_terminal` in the terminal cases, the clone made by `ApplyCache::get` on a hit -/
def rentry (p : Policy) (st : St) (d : Nat) (c : Call) : ROut :=
  let o := c.entry p st d
  match o.2 with
  | .ret h =>
    (match o.1 with
     | some _ => .cacheGet (some h)
     | Option.none => .retain h, .ret h)
  | t =>
    (match o.1 with
     | some _ => .cacheGet Option.none
     | Option.none => .skip, lift t)

/-- after a miss: `Call.expand` (cofactors are borrowed: no counter operation). A dangling operand
(excluded by the invariant) is returned as an owned clone, as in `Rc.applyR`. -/
def rexpand (s : Store) (d : Nat) (key : Key) (c : Call) : ROut :=
  match c.expand s d key with
  | .ret f => (.retain f, .ret f)
  | t => (.skip, lift t)

/-- `reduce(manager, level, t, e, op)` with owned `t`, `e` up to the return of `get_or_insert`:
* `t == e`: nothing shared happens yet, `e` is still to be released (`drop_edge(e)`);
* hit: `found` retained inside `get_or_insert`; `t`, `e` (the rejected node's children) still to be
  released;
* miss: the children moved into the new node, nothing to release. -/
def rreduce (st : St) (fr : Frame) (r1 r0 : Edge) : ROut :=
  if r1 = r0 then (.mk fr.lvl r1 r0, .made fr.key r1 [r0]) else
  match st.store.find? ⟨fr.lvl, r1, r0⟩ with
  | some i => (.mk fr.lvl r1 r0, .made fr.key (.inner i) [r1, r0])
  | Option.none => (.mk fr.lvl r1 r0, .made fr.key (.inner (st.store.alloc ⟨fr.lvl, r1, r0⟩).2) [])

def rpickLeft (path : List Bool) (t1 t0 : RTask) : Bool :=
  match t1.ret?, t0.ret? with
  | some _, _ => false
  | Option.none, some _ => true
  | Option.none, Option.none => path.headD true

/-- **one step of a task**: exactly one atomic action on the shared state (or a thread-local
transition). The program reads store and cache only (`st`), never a counter. -/
def RTask.step (p : Policy) (st : St) : RTask → List Bool → ROut
  | .ret r, _ => (.skip, .ret r)
  | .call d c, _ => rentry p st d c
  | .miss d c key, _ => rexpand st.store d key c
  | .seq1 fr c0 t1, path =>
    match t1.ret? with
    | some r1 => (.skip, .seq0 fr r1 (.call 0 c0))
    | Option.none => let o := t1.step p st path; (o.1, .seq1 fr c0 o.2)
  | .seq0 fr r1 t0, path =>
    match t0.ret? with
    | some r0 => rreduce st fr r1 r0
    | Option.none => let o := t0.step p st path; (o.1, .seq0 fr r1 o.2)
  | .par fr t1 t0, path =>
    match t1.ret?, t0.ret? with
    | some r1, some r0 => rreduce st fr r1 r0
    | _, _ =>
      if rpickLeft path t1 t0 then
        let o := t1.step p st path.tail; (o.1, .par fr o.2 t0)
      else
        let o := t0.step p st path.tail; (o.1, .par fr t1 o.2)
  | .made key r (d :: ds), _ => (.release d, .made key r ds)
  | .made key r [], _ => (.cacheAdd p key r, .ret r)

/-! ## threads -/

structure RThread where
  depth : Nat
  hs : List (Option Edge)
  script : List Threads.Cmd
  cur : Option RTask
deriving DecidableEq, Repr

def RThread.erase (th : RThread) : Thread := ⟨th.depth, th.hs, th.script, th.cur.map RTask.erase⟩

def unerase (th : Thread) : RThread := ⟨th.depth, th.hs, th.script, th.cur.map lift⟩

/-- the counter operation of issuing a command: `clone` of a live handle is a `retain`, `drop` of
a live handle a `release`; operands of operations are borrowed from the handles -/
def startAct (hs : List (Option Edge)) : Threads.Cmd → RAct
  | .clone i =>
    match hget hs i with
    | some f => .retain f
    | Option.none => .skip
  | .drop i =>
    match hget hs i with
    | some f => .release f
    | Option.none => .skip
  | _ => .skip

/-- **one step of a thread** (as `Thread.step`): continue the running operation, or turn its
result into a handle (the owned reference moves, no counter operation), or issue the next command -/
def RThread.step (p : Policy) (st : St) (th : RThread) (path : List Bool) : RAct × RThread :=
  match th.cur with
  | some t =>
    match t.ret? with
    | some r => (.skip, { th with hs := th.hs ++ [some r], cur := Option.none })
    | Option.none => let o := t.step p st path; (o.1, { th with cur := some o.2 })
  | Option.none =>
    match th.script with
    | [] => (.skip, th)
    | c :: rest => (startAct th.hs c, unerase (c.start th.erase rest))

def RThread.done (th : RThread) : Bool := th.cur.isNone && th.script.isEmpty

def RThread.handles (th : RThread) : List Edge := th.hs.filterMap id

/-- the **counted references** of a thread: its live handles and the edges its continuation owns -/
def RThread.owned (th : RThread) : List Edge :=
  th.handles ++ (match th.cur with | some t => t.owned | Option.none => [])

/-- every edge the thread holds -/
def RThread.held (th : RThread) : List Edge :=
  th.handles ++ (match th.cur with | some t => t.held | Option.none => [])

/-! ## the machine -/

structure RCfg where
  rst : RSt
  threads : List RThread
  gcActive : Bool := false

/-- **all counted references of the configuration** (as a multiset): the handles of all threads and
the edges owned by their continuations (results, guards, clones in flight, pending releases) -/
def RCfg.ext (c : RCfg) : List Edge := c.threads.flatMap RThread.owned

inductive RSel where
  | thread (tid : Nat) (path : List Bool)
  | gcBegin
  | gcLevel (l : Nat)
  | gcEnd
deriving DecidableEq, Repr

/-- **one step of the machine**. The collector's level sweep is `Rc.gcLevel`: it looks at the
**counters** only. -/
def RCfg.step (p : Policy) (c : RCfg) : RSel → RCfg
  | .thread tid path =>
    match c.threads[tid]? with
    | Option.none => c
    | some th =>
      let o := th.step (effPol p c.gcActive) c.rst.st path
      { c with rst := o.1.run c.rst, threads := c.threads.set tid o.2 }
  | .gcBegin => { c with rst := { c.rst with st := ⟨c.rst.st.store, [], c.rst.st.tick⟩ }, gcActive := true }
  | .gcLevel l => if c.gcActive then { c with rst := Rc.gcLevel c.rst l } else c
  | .gcEnd => { c with gcActive := false }

def RCfg.run (p : Policy) (c : RCfg) : List RSel → RCfg
  | [] => c
  | s :: ss => (c.step p s).run p ss

def RCfg.allDone (c : RCfg) : Bool := c.threads.all RThread.done

/-- forget counters and pending releases: a configuration of `Threads.lean` -/
def RCfg.erase (c : RCfg) : Cfg := ⟨c.rst.st, c.threads.map RThread.erase, c.gcActive⟩

/-- the scheduling decision of `Threads.lean` an `RSel` corresponds to -/
def RSel.erase : RSel → Sel
  | .thread tid path => .thread tid path
  | .gcBegin => .gcBegin
  | .gcLevel l => .gcLevel l
  | .gcEnd => .gcEnd

end OxiddModel.Bdd.RThreads
