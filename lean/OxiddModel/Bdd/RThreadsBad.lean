import OxiddModel.Bdd.RThreads

/-!
# Why `retain` must be ONE step and why `get_or_insert` must retain BEFORE unlocking

Two defective variants of the machine `RThreads.lean`, each identical to it except for one
atomicity, and for each a concrete schedule (checked by `decide`) that ends with a **handle on a
freed slot** — while the unchanged machine, run on the corresponding schedule, keeps the node.
Both defects were seeded into the Rust code (there in the dynamic terminal manager, whose
`retain` / `get_edge` have the same shape as `NodeBase::retain` / `LevelViewSet::get_or_insert` of
inner nodes):

* **(a)** `R4-C07-terminal-retain-load-store`: `retain` as `let rc = load(); store(rc + 1)` — two
  steps (`ACfg`: a per-thread register holds the loaded value). Two threads cloning a handle on the
  same node lose one update; after the drops the counter says `1` although a handle is left, and
  the next sweep frees the node.
* **(b)** `R3-C07-terminal-getedge-unlock-before-retain`: `get_or_insert` returns the node found
  and releases the level mutex **before** retaining it (`BCfg`: the retain is a separate, later step
  of the thread). In the gap the last handle on that node is dropped and the collector sweeps the
  level: the node is freed, the late `retain` hits a freed slot, and the operation returns a
  handle on it.

Theorems `rc_invariant_interleaved` and `no_use_after_free` (`PropertiesC07R.lean`) say that in
the unchanged machine no schedule can do this.
-/
namespace OxiddModel.Bdd.RThreadsBad
open OxiddModel.Bdd OxiddModel.Bdd.BDD OxiddModel.Bdd.Refine OxiddModel.Bdd.Threads
open OxiddModel.Bdd.RThreads
open OxiddModel.Bdd.Rc (RSt rcGet rcSet cloneEdge dropEdge)

/-! ## (a) retain = load; store -/

structure ACfg where
  c : RCfg
  /-- per thread: the counter value loaded by a `retain` in progress -/
  reg : List (Option Nat)

/-- as `RCfg.step`, except that a `retain` of an inner node by a thread takes two steps: `load`
(the thread does not move) and `store (loaded + 1)` -/
def ACfg.step (p : Policy) (a : ACfg) : RSel → ACfg
  | .thread tid path =>
    match a.c.threads[tid]? with
    | none => a
    | some th =>
      let o := th.step (effPol p a.c.gcActive) a.c.rst.st path
      match o.1 with
      | .retain (.inner i) =>
        match (a.reg[tid]?).join with
        | none => { a with reg := a.reg.set tid (some (rcGet a.c.rst.rc i)) }
        | some v =>
          ⟨{ a.c with rst := { a.c.rst with rc := rcSet a.c.rst.rc i (v + 1) },
                      threads := a.c.threads.set tid o.2 }, a.reg.set tid none⟩
      | _ => { a with c := a.c.step p (.thread tid path) }
  | s => { a with c := a.c.step p s }

def ACfg.run (p : Policy) (a : ACfg) : List RSel → ACfg
  | [] => a
  | s :: ss => (a.step p s).run p ss

/-- one node `#0 = x0`; each of the two threads owns one handle on it (`rc = 3`) -/
def exA : RCfg :=
  ⟨⟨⟨⟨#[some ⟨0, .term true, .term false⟩]⟩, [], 0⟩, #[3]⟩,
   [⟨0, [some (.inner 0)], [.clone 0, .drop 0, .drop 1], none⟩,
    ⟨0, [some (.inner 0)], [.clone 0, .drop 0], none⟩], false⟩

def a0 : RSel := .thread 0 []
def a1 : RSel := .thread 1 []

/-- both threads load `3`, both store `4`: one update is lost; thread 0 drops both its handles,
thread 1 one of its two; a collection sweeps level 0 -/
def schedA : List RSel := [a0, a1, a0, a1, a0, a0, a1, .gcBegin, .gcLevel 0, .gcEnd]

/-- **(a)** with `retain` as `load; store` the schedule `schedA` ends with thread 1 owning a
handle on slot 0, the counter having been `1`, and **slot 0 freed** -/
theorem split_retain_use_after_free :
    let a := ACfg.run Policy.exact ⟨exA, [none, none]⟩ schedA
    (ACfg.run Policy.exact ⟨exA, [none, none]⟩ (schedA.take 7)).c.rst.rc = #[1] ∧
    a.c.threads.map (·.hs) = [[none, none], [none, some (.inner 0)]] ∧
    a.c.rst.st.store.get? 0 = none := by decide +kernel

/-- the unchanged machine on the corresponding schedule (one step per clone): the counter is `2`
before the collection and the node survives -/
theorem atomic_retain_ok :
    let c := exA.run Policy.exact [a0, a1, a0, a0, a1, .gcBegin, .gcLevel 0, .gcEnd]
    (exA.run Policy.exact [a0, a1, a0, a0, a1]).rst.rc = #[2] ∧
    c.threads.map (·.hs) = [[none, none], [none, some (.inner 0)]] ∧
    c.rst.st.store.get? 0 = some ⟨0, .term true, .term false⟩ := by decide +kernel

/-! ## (b) unlock before retain -/

structure BCfg where
  c : RCfg
  /-- per thread: the node `get_or_insert` found and returned, not yet retained -/
  pend : List (Option Edge)

/-- as `RCfg.step`, except that a unique-table **hit** returns the node found without retaining
it (the level mutex is released); the retain is the thread's next step -/
def BCfg.step (p : Policy) (b : BCfg) : RSel → BCfg
  | .thread tid path =>
    match (b.pend[tid]?).join with
    | some e => ⟨{ b.c with rst := cloneEdge b.c.rst e }, b.pend.set tid none⟩
    | none =>
      match b.c.threads[tid]? with
      | none => b
      | some th =>
        let o := th.step (effPol p b.c.gcActive) b.c.rst.st path
        match o.1 with
        | .mk l t e =>
          if t = e then { b with c := b.c.step p (.thread tid path) } else
          match b.c.rst.st.store.find? ⟨l, t, e⟩ with
          | some i =>
            ⟨{ b.c with threads := b.c.threads.set tid o.2 }, b.pend.set tid (some (.inner i))⟩
          | none => { b with c := b.c.step p (.thread tid path) }
        | _ => { b with c := b.c.step p (.thread tid path) }
  | s => { b with c := b.c.step p s }

def BCfg.run (p : Policy) (b : BCfg) : List RSel → BCfg
  | [] => b
  | s :: ss => (b.step p s).run p ss

/-- `#0 = x0` (handle of thread 0), `#1 = ¬x0` (handle of thread 1); thread 0 computes `¬x0`,
thread 1 drops its handle -/
def exB : RCfg :=
  ⟨⟨⟨⟨#[some ⟨0, .term true, .term false⟩, some ⟨0, .term false, .term true⟩]⟩, [], 0⟩, #[2, 2]⟩,
   [⟨0, [some (.inner 0)], [.not 0], none⟩,
    ⟨0, [some (.inner 1)], [.drop 0], none⟩], false⟩

/-- thread 0 runs `apply_not(x0)` up to `get_or_insert`, which finds `#1` (not retained);
thread 1 drops the last handle on `#1`; a collection sweeps level 0; thread 0 retains (a freed
slot) and finishes -/
def schedB : List RSel :=
  List.replicate 7 a0 ++ [a1, .gcBegin, .gcLevel 0, .gcEnd] ++ List.replicate 5 a0

/-- **(b)** with the retain after the unlock the schedule `schedB` ends with thread 0 owning the
handle `#1` for `¬x0` although **slot 1 has been freed** in the gap -/
theorem late_retain_use_after_free :
    let b := BCfg.run Policy.exact ⟨exB, [none, none]⟩ schedB
    (BCfg.run Policy.exact ⟨exB, [none, none]⟩ (List.replicate 7 a0)).pend = [some (.inner 1), none] ∧
    (BCfg.run Policy.exact ⟨exB, [none, none]⟩ (List.replicate 7 a0 ++ [a1])).c.rst.rc = #[2, 1] ∧
    b.c.threads.map (·.hs) = [[some (.inner 0), some (.inner 1)], [none]] ∧
    b.c.allDone = true ∧
    b.c.rst.st.store.get? 1 = none := by decide +kernel

/-- the unchanged machine on the corresponding schedule: `#1` is retained inside `get_or_insert`
(`rc = 3`), survives the sweep, and thread 0's handle is valid -/
theorem retain_under_lock_ok :
    let c := exB.run Policy.exact
      (List.replicate 7 a0 ++ [a1, .gcBegin, .gcLevel 0, .gcEnd] ++ List.replicate 4 a0)
    (exB.run Policy.exact (List.replicate 7 a0)).rst.rc = #[2, 3] ∧
    c.threads.map (·.hs) = [[some (.inner 0), some (.inner 1)], [none]] ∧
    c.allDone = true ∧
    c.rst.rc = #[2, 2] ∧
    c.rst.st.store.get? 1 = some ⟨0, .term false, .term true⟩ := by decide +kernel

end OxiddModel.Bdd.RThreadsBad
