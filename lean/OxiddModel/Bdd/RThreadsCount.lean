import OxiddModel.Bdd.RThreadsErase
import OxiddModel.Bdd.RcSLemmasInv

/-!
# Ownership accounting: every step changes the counters exactly as it changes the counted references

`gainOf s a` / `loseOf s a`: the counted references action `a` creates / consumes in store `s`
(`retain e`: `+e`; `release e`: `-e`; cache hit: `+h`; `get_or_insert` hit: `+found`; miss:
`-t, -e` (they become the new node's child edges) and `+new`).

* `RTask.step_acct`, `RThread.step_acct`, `RCfg.ext_acct`: the multiset of counted references of
  the continuation / thread / configuration changes by exactly `gain - lose`, and what is consumed
  was owned (`Acct`).
* `RAct.run_rc`: an action whose consumed references are counted in `ext` takes
  `RcInv r ext` to `RcInv (a.run r) ext'` for every `ext'` with `Acct ext ext' gain lose`.
-/
namespace OxiddModel.Bdd.RThreads
open OxiddModel.Bdd OxiddModel.Bdd.BDD OxiddModel.Bdd.Refine OxiddModel.Bdd.Threads
open OxiddModel.Bdd.Rc (RSt rcGet rcSet cloneEdge dropEdge cloneEdge_st dropEdge_st RcInv)

/-! ## gains and losses -/

def gainOf (s : Store) : RAct → List Edge
  | .retain e => [e]
  | .cacheGet (some h) => [h]
  | .mk l t e =>
    if t = e then [] else
    match s.find? ⟨l, t, e⟩ with
    | some i => [.inner i]
    | none => [.inner (s.alloc ⟨l, t, e⟩).2]
  | _ => []

def loseOf (s : Store) : RAct → List Edge
  | .release e => [e]
  | .mk l t e =>
    if t = e then [] else
    match s.find? ⟨l, t, e⟩ with
    | some _ => []
    | none => [t, e]
  | _ => []

/-- `new = old - lose + gain` as multisets, and `lose ⊆ old` -/
def Acct (old new gain lose : List Edge) : Prop :=
  ∀ x : Edge, lose.count x ≤ old.count x ∧ new.count x + lose.count x = old.count x + gain.count x

theorem Acct.same (l : List Edge) : Acct l l [] [] := fun x => by simp

theorem Acct.of_eq {old new : List Edge} (h : new = old) : Acct old new [] [] := by
  subst h; exact Acct.same _

theorem Acct.frame {old new g l : List Edge} (h : Acct old new g l) (a b : List Edge) :
    Acct (a ++ old ++ b) (a ++ new ++ b) g l := by
  intro x
  have := h x
  simp only [List.count_append]
  omega

theorem Acct.left {old new g l : List Edge} (h : Acct old new g l) (b : List Edge) :
    Acct (old ++ b) (new ++ b) g l := by
  simpa using h.frame [] b

theorem Acct.right {old new g l : List Edge} (h : Acct old new g l) (a : List Edge) :
    Acct (a ++ old) (a ++ new) g l := by
  simpa using h.frame a []

theorem Acct.cons {old new g l : List Edge} (h : Acct old new g l) (a : Edge) :
    Acct (a :: old) (a :: new) g l := h.right [a]

/-! ## a task step -/

@[simp] theorem owned_lift (t : Task) : (lift t).owned = t.owned := by
  induction t with
  | call d c => rfl
  | miss d c key => rfl
  | seq1 fr c0 t1 ih => simp [lift, RTask.owned, Task.owned, ih]
  | seq0 fr r1 t0 ih => simp [lift, RTask.owned, Task.owned, ih]
  | par fr t1 t0 ih1 ih0 => simp [lift, RTask.owned, Task.owned, ih1, ih0]
  | made key r => rfl
  | ret r => rfl

theorem query_owned (p : Policy) (st : St) (d : Nat) (c : Call) (key : Key) :
    (query p st d c key).2.ret? = none → (query p st d c key).2.owned = [] := by
  unfold query; split <;> simp [Task.ret?, Task.owned]

theorem entry_owned_nil (p : Policy) (st : St) (d : Nat) (c : Call) :
    (c.entry p st d).2.ret? = none → (c.entry p st d).2.owned = [] := by
  cases c with
  | not f =>
    cases f with
    | term b => simp [Call.entry, Task.ret?]
    | inner i => exact query_owned p st d _ _
  | bin op f g =>
    simp only [Call.entry]
    cases terminalBinS op f g with
    | done h => simp [Task.ret?]
    | notOf h => simp [Task.owned]
    | binary tag o1 o2 => exact query_owned p st d _ _
  | ite f g h =>
    simp only [Call.entry]
    repeat' split
    all_goals first
      | exact query_owned p st d _ _
      | simp [Task.ret?, Task.owned]

theorem rentry_acct (p : Policy) (st : St) (d : Nat) (c : Call) :
    Acct [] (rentry p st d c).2.owned (gainOf st.store (rentry p st d c).1)
      (loseOf st.store (rentry p st d c).1) := by
  have hact := entry_act p st d c
  have hown := entry_owned_nil p st d c
  unfold rentry
  cases ht : (c.entry p st d).2 with
  | ret h =>
    rcases hact with h1 | h1 <;> simp [h1, ht, Acct, gainOf, loseOf, RTask.owned]
  | call d' c' =>
    rw [ht] at hown
    rcases hact with h1 | h1 <;> simp [h1, ht, Acct, gainOf, loseOf, lift, RTask.owned]
  | miss d' c' key =>
    rw [ht] at hown
    rcases hact with h1 | h1 <;> simp [h1, ht, Acct, gainOf, loseOf, lift, RTask.owned]
  | seq1 fr c0 t1 =>
    rw [ht] at hown
    have := hown rfl
    rcases hact with h1 | h1 <;> simp [h1, ht, Acct, gainOf, loseOf, this]
  | seq0 fr r1 t0 =>
    rw [ht] at hown
    have := hown rfl
    rcases hact with h1 | h1 <;> simp [h1, ht, Acct, gainOf, loseOf, this]
  | par fr t1 t0 =>
    rw [ht] at hown
    have := hown rfl
    rcases hact with h1 | h1 <;> simp [h1, ht, Acct, gainOf, loseOf, this]
  | made key r =>
    rw [ht] at hown
    have := hown rfl
    rcases hact with h1 | h1 <;> simp [h1, ht, Acct, gainOf, loseOf, this]

theorem fork_owned (d : Nat) (fr : Frame) (c1 c0 : Call) : (fork d fr c1 c0).owned = [] := by
  cases d <;> rfl

theorem expand_owned_nil (s : Store) (d : Nat) (key : Key) (c : Call) :
    (c.expand s d key).ret? = none → (c.expand s d key).owned = [] := by
  cases c with
  | not f =>
    cases f with
    | term b => simp [Call.expand, Task.ret?]
    | inner i =>
      simp only [Call.expand]
      cases s.get? i with
      | none => simp [Task.ret?]
      | some n => intro _; exact fork_owned _ _ _ _
  | bin op f g =>
    simp only [Call.expand]
    split
    · intro _; exact fork_owned _ _ _ _
    · simp [Task.ret?]
  | ite f g h =>
    simp only [Call.expand]
    split
    · intro _; exact fork_owned _ _ _ _
    · simp [Task.ret?]

theorem rexpand_acct (s : Store) (d : Nat) (key : Key) (c : Call) :
    Acct [] (rexpand s d key c).2.owned (gainOf s (rexpand s d key c).1)
      (loseOf s (rexpand s d key c).1) := by
  have hown := expand_owned_nil s d key c
  unfold rexpand
  generalize c.expand s d key = t at hown
  cases t with
  | ret h => simp [Acct, gainOf, loseOf, RTask.owned]
  | call d' c' => simp [Acct, gainOf, loseOf, lift, RTask.owned]
  | miss d' c' key => simp [Acct, gainOf, loseOf, lift, RTask.owned]
  | seq1 fr c0 t1 => have := hown rfl; simp [Acct, gainOf, loseOf, this]
  | seq0 fr r1 t0 => have := hown rfl; simp [Acct, gainOf, loseOf, this]
  | par fr t1 t0 => have := hown rfl; simp [Acct, gainOf, loseOf, this]
  | made key r => have := hown rfl; simp [Acct, gainOf, loseOf, this]

theorem rreduce_acct (st : St) (fr : Frame) (r1 r0 : Edge) :
    Acct [r1, r0] (rreduce st fr r1 r0).2.owned (gainOf st.store (rreduce st fr r1 r0).1)
      (loseOf st.store (rreduce st fr r1 r0).1) := by
  unfold rreduce
  by_cases h : r1 = r0
  · subst h
    simp [Acct, gainOf, loseOf, RTask.owned]
  · simp only [h, if_false]
    cases hf : st.store.find? ⟨fr.lvl, r1, r0⟩ with
    | some i =>
      intro x
      simp only [gainOf, loseOf, h, if_false, hf, RTask.owned, List.count_cons, List.count_nil]
      omega
    | none =>
      intro x
      simp only [gainOf, loseOf, h, if_false, hf, RTask.owned, List.count_cons, List.count_nil]
      omega

/-- **ownership accounting of one task step** -/
theorem RTask.step_acct (p : Policy) (st : St) (t : RTask) :
    ∀ path, Acct t.owned (t.step p st path).2.owned (gainOf st.store (t.step p st path).1)
      (loseOf st.store (t.step p st path).1) := by
  induction t with
  | call d c => intro _; exact rentry_acct p st d c
  | miss d c key => intro _; exact rexpand_acct st.store d key c
  | ret r => intro _; exact Acct.same _
  | made key r ds =>
    intro _
    cases ds with
    | nil => simp [RTask.step, Acct, gainOf, loseOf, RTask.owned]
    | cons d ds =>
      intro x
      simp only [RTask.step, gainOf, loseOf, RTask.owned, List.count_cons, List.count_nil]
      omega
  | seq1 fr c0 t1 ih =>
    intro path
    cases hr : t1.ret? with
    | some r1 =>
      have := rret?_eq_some hr
      subst this
      simp [RTask.step, RTask.ret?, Acct, gainOf, loseOf, RTask.owned]
    | none =>
      simp only [RTask.step, hr, RTask.owned]
      exact ih path
  | seq0 fr r1 t0 ih =>
    intro path
    cases hr : t0.ret? with
    | some r0 =>
      have := rret?_eq_some hr
      subst this
      simp only [RTask.step, RTask.ret?, RTask.owned]
      exact rreduce_acct st fr r1 r0
    | none =>
      simp only [RTask.step, hr, RTask.owned]
      exact (ih path).cons r1
  | par fr t1 t0 ih1 ih0 =>
    intro path
    have left : t1.ret? = none → Acct (t1.owned ++ t0.owned)
        ((t1.step p st path.tail).2.owned ++ t0.owned)
        (gainOf st.store (t1.step p st path.tail).1) (loseOf st.store (t1.step p st path.tail).1) :=
      fun _ => (ih1 path.tail).left _
    have right : t0.ret? = none → Acct (t1.owned ++ t0.owned)
        (t1.owned ++ (t0.step p st path.tail).2.owned)
        (gainOf st.store (t0.step p st path.tail).1) (loseOf st.store (t0.step p st path.tail).1) :=
      fun _ => (ih0 path.tail).right _
    cases hr1 : t1.ret? with
    | some r1 =>
      cases hr0 : t0.ret? with
      | some r0 =>
        have e1 := rret?_eq_some hr1
        have e0 := rret?_eq_some hr0
        subst e1 e0
        simp only [RTask.step, RTask.ret?, RTask.owned, List.singleton_append]
        exact rreduce_acct st fr r1 r0
      | none =>
        simp only [RTask.step, hr1, hr0, rpickLeft, Bool.false_eq_true, if_false, RTask.owned]
        exact right hr0
    | none =>
      cases hr0 : t0.ret? with
      | some r0 =>
        simp only [RTask.step, hr1, hr0, rpickLeft, if_true, RTask.owned]
        exact left hr1
      | none =>
        simp only [RTask.step, hr1, hr0, rpickLeft, RTask.owned]
        split
        · exact left hr1
        · exact right hr0

/-! ## a thread step -/

theorem filterMap_append_some (hs : List (Option Edge)) (r : Edge) :
    (hs ++ [some r]).filterMap id = hs.filterMap id ++ [r] := by
  simp [List.filterMap_append]

/-- dropping a live handle removes exactly one counted reference -/
theorem handles_set_some : ∀ (hs : List (Option Edge)) (i : Nat) (f x : Edge), hget hs i = some f →
    ((hs.set i none).filterMap id).count x + [f].count x = (hs.filterMap id).count x := by
  intro hs
  induction hs with
  | nil => intro i f x h; simp [hget] at h
  | cons a as ih =>
    intro i f x h
    cases i with
    | zero =>
      simp only [hget, List.getElem?_cons_zero, Option.join_some] at h
      subst h
      simp [List.filterMap_cons, List.count_cons]
    | succ i =>
      have h' : hget as i = some f := by simpa [hget] using h
      have := ih i f x h'
      cases a with
      | none => simpa [List.filterMap_cons] using this
      | some g =>
        simp only [List.set_cons_succ, List.filterMap_cons, id, List.count_cons] at this ⊢
        omega

/-- dropping a dead slot changes nothing -/
theorem handles_set_dead : ∀ (hs : List (Option Edge)) (i : Nat), hget hs i = none →
    (hs.set i none).filterMap id = hs.filterMap id := by
  intro hs
  induction hs with
  | nil => intro i _; rfl
  | cons a as ih =>
    intro i h
    cases i with
    | zero =>
      simp only [hget, List.getElem?_cons_zero, Option.join_some] at h
      subst h; rfl
    | succ i =>
      have h' : hget as i = none := by simpa [hget] using h
      simp only [List.set_cons_succ, List.filterMap_cons, ih i h']

/-- a store for store-independent gains -/
def noStore : Store := ⟨#[]⟩

theorem start_owned (th : RThread) (c : Threads.Cmd) (rest : List Threads.Cmd)
    (hc : th.cur = none) :
    Acct th.owned (unerase (c.start th.erase rest)).owned (gainOf noStore (startAct th.hs c))
      (loseOf noStore (startAct th.hs c)) := by
  have hown : th.owned = th.hs.filterMap id := by simp [RThread.owned, RThread.handles, hc]
  rw [hown]
  cases c with
  | not i =>
    simp only [Cmd.start, RThread.erase, startAct]
    split <;> simp [unerase, RThread.owned, RThread.handles, hc, lift, RTask.owned, Acct, gainOf, loseOf]
  | bin op i j =>
    simp only [Cmd.start, RThread.erase, startAct]
    split <;> simp [unerase, RThread.owned, RThread.handles, hc, lift, RTask.owned, Acct, gainOf, loseOf]
  | ite i j k =>
    simp only [Cmd.start, RThread.erase, startAct]
    split <;> simp [unerase, RThread.owned, RThread.handles, hc, lift, RTask.owned, Acct, gainOf, loseOf]
  | clone i =>
    simp only [Cmd.start, RThread.erase, startAct]
    cases hi : hget th.hs i with
    | none => simp [unerase, RThread.owned, RThread.handles, hc, Acct, gainOf, loseOf]
    | some f =>
      intro x
      simp [unerase, RThread.owned, RThread.handles, hc, gainOf, loseOf, List.filterMap_append,
        List.count_append]
  | drop i =>
    simp only [Cmd.start, RThread.erase, startAct]
    intro x
    cases hi : hget th.hs i with
    | none =>
      have := handles_set_dead th.hs i hi
      simp [unerase, RThread.owned, RThread.handles, hc, gainOf, loseOf, this]
    | some f =>
      have := handles_set_some th.hs i f x hi
      simp only [unerase, RThread.owned, RThread.handles, hc, Option.map_none, gainOf, loseOf,
        List.append_nil, List.count_nil]
      omega

/-- the gains and losses of `startAct` do not depend on the store -/
theorem startAct_gain (s : Store) (hs : List (Option Edge)) (c : Threads.Cmd) :
    gainOf s (startAct hs c) = gainOf noStore (startAct hs c) ∧
    loseOf s (startAct hs c) = loseOf noStore (startAct hs c) := by
  cases c <;> simp only [startAct] <;> (try split) <;> exact ⟨rfl, rfl⟩

/-- **ownership accounting of one thread step** -/
theorem RThread.step_acct (p : Policy) (st : St) (th : RThread) (path : List Bool) :
    Acct th.owned (th.step p st path).2.owned (gainOf st.store (th.step p st path).1)
      (loseOf st.store (th.step p st path).1) := by
  cases hc : th.cur with
  | some t =>
    cases hr : t.ret? with
    | some r =>
      have := rret?_eq_some hr
      subst this
      simp only [RThread.step, hc, RTask.ret?, RThread.owned, RThread.handles,
        filterMap_append_some, RTask.owned, gainOf, loseOf, List.append_nil]
      exact Acct.same _
    | none =>
      simp only [RThread.step, hc, hr, RThread.owned, RThread.handles]
      exact (RTask.step_acct p st t path).right _
  | none =>
    cases hs : th.script with
    | nil =>
      simp only [RThread.step, hc, hs, gainOf, loseOf]
      exact Acct.same _
    | cons c rest =>
      simp only [RThread.step, hc, hs]
      rw [(startAct_gain st.store th.hs c).1, (startAct_gain st.store th.hs c).2]
      exact start_owned th c rest hc

/-! ## the configuration -/

theorem count_flatMap_set {α} (f : α → List Edge) : ∀ (l : List α) (i : Nat) (a b : α),
    l[i]? = some a → ∀ x, ((l.set i b).flatMap f).count x + (f a).count x =
      (l.flatMap f).count x + (f b).count x := by
  intro l
  induction l with
  | nil => intro i a b h; simp at h
  | cons c cs ih =>
    intro i a b h x
    cases i with
    | zero =>
      simp only [List.getElem?_cons_zero, Option.some.injEq] at h
      subst h
      simp only [List.set_cons_zero, List.flatMap_cons, List.count_append]
      omega
    | succ i =>
      simp only [List.getElem?_cons_succ] at h
      have := ih i a b h x
      simp only [List.set_cons_succ, List.flatMap_cons, List.count_append]
      omega

theorem count_le_flatMap {α} (f : α → List Edge) {l : List α} {i : Nat} {a : α}
    (h : l[i]? = some a) (x : Edge) : (f a).count x ≤ (l.flatMap f).count x := by
  have := count_flatMap_set f l i a a h x
  induction l generalizing i with
  | nil => simp at h
  | cons c cs ih =>
    cases i with
    | zero =>
      simp only [List.getElem?_cons_zero, Option.some.injEq] at h
      subst h
      simp only [List.flatMap_cons, List.count_append]
      omega
    | succ i =>
      simp only [List.getElem?_cons_succ] at h
      have := ih h (count_flatMap_set f cs i a a h x)
      simp only [List.flatMap_cons, List.count_append]
      omega

/-- a thread step changes the counted references of the configuration by `gain - lose` -/
theorem ext_acct_set {l : List RThread} {tid : Nat} {th th' : RThread} {g lo : List Edge}
    (ht : l[tid]? = some th) (h : Acct th.owned th'.owned g lo) :
    Acct (l.flatMap RThread.owned) ((l.set tid th').flatMap RThread.owned) g lo := by
  intro x
  have h1 := count_flatMap_set RThread.owned l tid th th' ht x
  have h2 := count_le_flatMap RThread.owned ht x
  have := h x
  omega

/-! ## an action keeps the counters exact -/

theorem count_split (n : Edge) (L : List Edge) (x : Edge) :
    (n :: L).count x = L.count x + [n].count x := by
  simp [List.count_cons]

theorem count_erase2 {ext : List Edge} {t e : Edge} (hte : t ≠ e) (x : Edge)
    (h : [t, e].count x ≤ ext.count x) :
    ((ext.erase t).erase e).count x + [t, e].count x = ext.count x := by
  simp only [List.count_cons, List.count_nil, List.count_erase] at h ⊢
  omega

/-- what an action needs: the edge it retains / caches points to a stored node -/
def ActPre (s : Store) : RAct → Prop
  | .retain e => s.has e
  | .cacheGet (some h) => s.has h
  | .cacheAdd p _ x => p.OK ∧ s.has x
  | _ => True

theorem acct_nil_congr {ext ext' : List Edge} (h : Acct ext ext' [] []) (e : Edge) :
    ext.count e = ext'.count e := by
  have := (h e).2; simp at this; omega

theorem RcInv.st_congr {r r' : RSt} {ext : List Edge} (h : RcInv r ext)
    (hs : r'.st.store = r.st.store) (hc : r'.st.cache = r.st.cache) (hrc : r'.rc = r.rc) :
    RcInv r' ext := by
  refine ⟨?_, ?_, ?_, ?_⟩
  · rw [hs]; exact h.ext_ok
  · rw [hs]; exact h.kids_ok
  · rw [hs, hc]; exact h.cache_ok
  · rw [hs, hrc]; exact h.rc_eq

theorem acct_retain {ext ext' : List Edge} {x : Edge} (h : Acct ext ext' [x] []) (e : Edge) :
    (x :: ext).count e = ext'.count e := by
  have := (h e).2
  simp only [List.count_nil, List.count_cons] at this ⊢
  omega

theorem acct_release {ext ext' : List Edge} {x : Edge} (h : Acct ext ext' [] [x]) (e : Edge) :
    ext.count e = (x :: ext').count e := by
  have := (h e).2
  simp only [List.count_nil, List.count_cons] at this ⊢
  omega

/-- **every action keeps `RcInv`**, for the counted references after the action -/
theorem RAct.run_rc {r : RSt} {ext ext' : List Edge} (a : RAct) (h : RcInv r ext)
    (hacct : Acct ext ext' (gainOf r.st.store a) (loseOf r.st.store a))
    (hpre : ActPre r.st.store a) : RcInv (a.run r) ext' := by
  cases a with
  | skip => exact h.congr (acct_nil_congr hacct)
  | retain x => exact (Rc.cloneEdge_rc h hpre).congr (acct_retain hacct)
  | release x => exact Rc.dropEdge_rc (h.congr (acct_release hacct))
  | cacheGet hit =>
    cases hit with
    | none => exact (h.congr (acct_nil_congr hacct)).tickd
    | some x => exact (Rc.cloneEdge_rc h.tickd hpre).congr (acct_retain hacct)
  | cacheAdd p k x =>
    have h' := h.congr (acct_nil_congr hacct)
    refine ⟨h'.ext_ok, h'.kids_ok, ?_, h'.rc_eq⟩
    intro k' v hm
    rcases hpre.1.add_sub _ _ _ _ _ hm with hm' | hm'
    · exact h.cache_ok k' v hm'
    · cases hm'; exact hpre.2
  | mk l t e =>
    simp only [RAct.run, getOrInsert]
    simp only [gainOf, loseOf] at hacct
    by_cases hte : t = e
    · simp only [hte, if_true] at hacct ⊢
      exact h.congr (acct_nil_congr hacct)
    · simp only [hte, if_false] at hacct ⊢
      cases hf : r.st.store.find? ⟨l, t, e⟩ with
      | some i =>
        simp only [hf] at hacct ⊢
        exact (Rc.cloneEdge_rc h (Rc.has_of_find hf)).congr (acct_retain hacct)
      | none =>
        simp only [hf] at hacct ⊢
        -- `ext ~ t :: e :: rest`, `ext' ~ new :: rest`
        have hle := fun x => (hacct x).1
        have heq := fun x => (hacct x).2
        have hR : RcInv r (t :: e :: (ext.erase t).erase e) := by
          apply h.congr
          intro x
          have h1 := count_erase2 hte x (hle x)
          simp only [List.count_cons, List.count_nil] at h1 ⊢
          omega
        have hM := Rc.mkNodeR_rc (cap := r.st.store.count + 1) (l := l) hR
        simp only [Rc.mkNodeR, hte, if_false, hf, Nat.lt_succ_self, if_true] at hM
        apply hM.congr
        intro x
        have h1 := count_erase2 hte x (hle x)
        have h2 := heq x
        rw [count_split]
        omega

end OxiddModel.Bdd.RThreads
