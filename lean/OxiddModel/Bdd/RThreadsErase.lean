import OxiddModel.Bdd.RThreads

/-!
# Erasure: every thread step of `RThreads` is a step of `Threads` or a stutter

Forgetting counters and pending releases (`RTask.erase`, `RThread.erase`, `RCfg.erase`):

* a step that performs a pending release (`made key r (d :: ds)`; `stutters`) leaves the erased
  configuration unchanged;
* every other thread step **is** the step of `Threads.lean` with the same selector: same next
  task, same action on store / cache / time stamp (`RAct.run_st`).

These hold for all configurations, without any invariant. (The collector's level sweep is the
step of `Threads.lean` only where the counters are exact: `RThreadsGc.lean`.)
-/
namespace OxiddModel.Bdd.RThreads
open OxiddModel.Bdd OxiddModel.Bdd.BDD OxiddModel.Bdd.Refine OxiddModel.Bdd.Threads
open OxiddModel.Bdd.Rc (RSt rcGet rcSet cloneEdge dropEdge cloneEdge_st dropEdge_st)

@[simp] theorem erase_lift (t : Task) : (lift t).erase = t := by
  induction t with
  | call d c => rfl
  | miss d c key => rfl
  | seq1 fr c0 t1 ih => simp [lift, RTask.erase, ih]
  | seq0 fr r1 t0 ih => simp [lift, RTask.erase, ih]
  | par fr t1 t0 ih1 ih0 => simp [lift, RTask.erase, ih1, ih0]
  | made key r => rfl
  | ret r => rfl

@[simp] theorem ret?_erase (t : RTask) : t.erase.ret? = t.ret? := by
  cases t <;> rfl

theorem rret?_eq_some {t : RTask} {r : Edge} (h : t.ret? = some r) : t = .ret r := by
  cases t <;> simp [RTask.ret?] at h
  subst h; rfl

theorem St.eta (st : St) : (⟨st.store, st.cache, st.tick⟩ : St) = st := by cases st; rfl

/-- the counters do not influence store, cache and time stamp: on those an action is the action
of `Threads.lean` -/
theorem RAct.run_st (a : RAct) (r : RSt) : (a.run r).st = runOpt a.erase r.st := by
  cases a with
  | skip => rfl
  | retain e => simp [RAct.run, RAct.erase, runOpt]
  | release e => simp [RAct.run, RAct.erase, runOpt]
  | cacheGet hit =>
    cases hit with
    | none => rfl
    | some h => simp [RAct.run, RAct.erase, runOpt, Action.run]
  | mk l t e =>
    simp only [RAct.run, RAct.erase, runOpt, Action.run, getOrInsert, Store.mkNode]
    by_cases hte : t = e
    · simp only [hte, if_true]
    · simp only [hte, if_false]
      cases hf : r.st.store.find? ⟨l, t, e⟩ with
      | some i => simp only [cloneEdge_st]
      | none => rfl
  | cacheAdd p k x => rfl

/-! ## entry, expansion, reduce -/

theorem query_act (p : Policy) (st : St) (d : Nat) (c : Call) (key : Key) :
    (query p st d c key).1 = some .cacheGet := by
  unfold query; split <;> rfl

theorem entry_act (p : Policy) (st : St) (d : Nat) (c : Call) :
    (c.entry p st d).1 = none ∨ (c.entry p st d).1 = some .cacheGet := by
  cases c with
  | not f =>
    cases f with
    | term b => exact .inl rfl
    | inner i => exact .inr (query_act p st d _ _)
  | bin op f g =>
    simp only [Call.entry]
    cases terminalBinS op f g with
    | done h => exact .inl rfl
    | notOf h => exact .inl rfl
    | binary tag o1 o2 => exact .inr (query_act p st d _ _)
  | ite f g h =>
    simp only [Call.entry]
    repeat' split
    all_goals first
      | exact .inl rfl
      | exact .inr (query_act p st d _ _)

theorem rentry_erase (p : Policy) (st : St) (d : Nat) (c : Call) :
    (rentry p st d c).2.erase = (c.entry p st d).2 ∧
    (rentry p st d c).1.erase = (c.entry p st d).1 := by
  unfold rentry
  rcases entry_act p st d c with h | h
  · cases ht : (c.entry p st d).2 <;> simp [h, ht, RAct.erase, RTask.erase, lift]
  · cases ht : (c.entry p st d).2 <;> simp [h, ht, RAct.erase, RTask.erase, lift]

theorem rexpand_erase (s : Store) (d : Nat) (key : Key) (c : Call) :
    (rexpand s d key c).2.erase = c.expand s d key ∧ (rexpand s d key c).1.erase = none := by
  unfold rexpand
  cases ht : c.expand s d key <;> simp [RAct.erase, RTask.erase, lift]

theorem rreduce_erase (st : St) (fr : Frame) (r1 r0 : Edge) :
    (rreduce st fr r1 r0).2.erase = (reduceOut st fr r1 r0).2 ∧
    (rreduce st fr r1 r0).1.erase = (reduceOut st fr r1 r0).1 := by
  unfold rreduce reduceOut Store.mkNode
  by_cases h : r1 = r0
  · simp [h, RTask.erase, RAct.erase]
  · simp only [h, if_false]
    cases hf : st.store.find? ⟨fr.lvl, r1, r0⟩ <;> simp [RTask.erase, RAct.erase]

/-! ## steps of a task -/

/-- the step selected by `path` performs a pending release -/
def RTask.stutters : RTask → List Bool → Bool
  | .made _ _ (_ :: _), _ => true
  | .seq1 _ _ t1, path => t1.stutters path
  | .seq0 _ _ t0, path => t0.stutters path
  | .par _ t1 t0, path =>
    if rpickLeft path t1 t0 then t1.stutters path.tail else t0.stutters path.tail
  | _, _ => false

theorem stutters_ret {t : RTask} {r : Edge} (h : t.ret? = some r) (path : List Bool) :
    t.stutters path = false := by
  rw [rret?_eq_some h]; rfl

theorem rpickLeft_erase (path : List Bool) (t1 t0 : RTask) :
    pickLeft path t1.erase t0.erase = rpickLeft path t1 t0 := by
  unfold pickLeft rpickLeft
  rw [ret?_erase, ret?_erase]
  cases t1.ret? <;> cases t0.ret? <;> rfl

/-- **a pending release is a stutter**: the erased task does not move and the action is a
`release` -/
theorem RTask.step_stutter (p : Policy) (st : St) (t : RTask) :
    ∀ path, t.stutters path = true →
      (t.step p st path).2.erase = t.erase ∧ ∃ d, (t.step p st path).1 = .release d := by
  induction t with
  | call d c => intro _ h; cases h
  | miss d c key => intro _ h; cases h
  | ret r => intro _ h; cases h
  | made key r ds =>
    intro path h
    cases ds with
    | nil => cases h
    | cons d ds => exact ⟨rfl, d, rfl⟩
  | seq1 fr c0 t1 ih =>
    intro path h
    simp only [RTask.stutters] at h
    cases hr : t1.ret? with
    | some r1 => rw [stutters_ret hr] at h; cases h
    | none =>
      obtain ⟨h1, d, h2⟩ := ih path h
      simp only [RTask.step, hr, RTask.erase, h1]
      exact ⟨trivial, d, h2⟩
  | seq0 fr r1 t0 ih =>
    intro path h
    simp only [RTask.stutters] at h
    cases hr : t0.ret? with
    | some r0 => rw [stutters_ret hr] at h; cases h
    | none =>
      obtain ⟨h1, d, h2⟩ := ih path h
      simp only [RTask.step, hr, RTask.erase, h1]
      exact ⟨trivial, d, h2⟩
  | par fr t1 t0 ih1 ih0 =>
    intro path h
    simp only [RTask.stutters] at h
    cases hp : rpickLeft path t1 t0 with
    | true =>
      rw [hp] at h
      simp only [if_true] at h
      have hr1 : t1.ret? = none := by
        cases hr : t1.ret? with
        | none => rfl
        | some r => rw [stutters_ret hr] at h; cases h
      obtain ⟨h1, d, h2⟩ := ih1 path.tail h
      have : (RTask.par fr t1 t0).step p st path =
          ((t1.step p st path.tail).1, .par fr (t1.step p st path.tail).2 t0) := by
        simp only [RTask.step, hr1, hp, if_true]
      rw [this]
      simp only [RTask.erase, h1]
      exact ⟨trivial, d, h2⟩
    | false =>
      rw [hp] at h
      simp only [Bool.false_eq_true, if_false] at h
      have hr0 : t0.ret? = none := by
        cases hr : t0.ret? with
        | none => rfl
        | some r => rw [stutters_ret hr] at h; cases h
      obtain ⟨h1, d, h2⟩ := ih0 path.tail h
      have : (RTask.par fr t1 t0).step p st path =
          ((t0.step p st path.tail).1, .par fr t1 (t0.step p st path.tail).2) := by
        cases hr1 : t1.ret? <;> simp only [RTask.step, hr1, hr0, hp, Bool.false_eq_true, if_false]
      rw [this]
      simp only [RTask.erase, h1]
      exact ⟨trivial, d, h2⟩

/-- **every other step is the step of `Threads.lean`** -/
theorem RTask.step_proper (p : Policy) (st : St) (t : RTask) :
    ∀ path, t.stutters path = false →
      (t.step p st path).2.erase = (t.erase.step p st path).2 ∧
      (t.step p st path).1.erase = (t.erase.step p st path).1 := by
  induction t with
  | call d c => intro _ _; exact rentry_erase p st d c
  | miss d c key => intro _ _; exact rexpand_erase st.store d key c
  | ret r => intro _ _; exact ⟨rfl, rfl⟩
  | made key r ds =>
    intro path h
    cases ds with
    | nil => exact ⟨rfl, rfl⟩
    | cons d ds => cases h
  | seq1 fr c0 t1 ih =>
    intro path h
    simp only [RTask.stutters] at h
    cases hr : t1.ret? with
    | some r1 => simp [RTask.step, Task.step, RTask.erase, hr, RAct.erase]
    | none =>
      obtain ⟨h1, h2⟩ := ih path h
      simp only [RTask.step, Task.step, RTask.erase, hr, ret?_erase, h1, h2]
      exact ⟨trivial, trivial⟩
  | seq0 fr r1 t0 ih =>
    intro path h
    simp only [RTask.stutters] at h
    cases hr : t0.ret? with
    | some r0 =>
      simp only [RTask.step, Task.step, RTask.erase, hr, ret?_erase]
      exact rreduce_erase st fr r1 r0
    | none =>
      obtain ⟨h1, h2⟩ := ih path h
      simp only [RTask.step, Task.step, RTask.erase, hr, ret?_erase, h1, h2]
      exact ⟨trivial, trivial⟩
  | par fr t1 t0 ih1 ih0 =>
    intro path h
    simp only [RTask.stutters] at h
    cases hr1 : t1.ret? with
    | some r1 =>
      cases hr0 : t0.ret? with
      | some r0 =>
        simp only [RTask.step, Task.step, RTask.erase, hr1, hr0, ret?_erase]
        exact rreduce_erase st fr r1 r0
      | none =>
        have hp : rpickLeft path t1 t0 = false := by simp [rpickLeft, hr1]
        rw [hp] at h
        simp only [Bool.false_eq_true, if_false] at h
        obtain ⟨h1, h2⟩ := ih0 path.tail h
        simp only [RTask.step, Task.step, RTask.erase, hr1, hr0, ret?_erase, rpickLeft_erase, hp,
          Bool.false_eq_true, if_false, h1, h2]
        exact ⟨trivial, trivial⟩
    | none =>
      cases hp : rpickLeft path t1 t0 with
      | true =>
        rw [hp] at h
        simp only [if_true] at h
        obtain ⟨h1, h2⟩ := ih1 path.tail h
        simp only [RTask.step, Task.step, RTask.erase, hr1, ret?_erase, rpickLeft_erase, hp,
          if_true, h1, h2]
        exact ⟨trivial, trivial⟩
      | false =>
        rw [hp] at h
        simp only [Bool.false_eq_true, if_false] at h
        obtain ⟨h1, h2⟩ := ih0 path.tail h
        simp only [RTask.step, Task.step, RTask.erase, hr1, ret?_erase, rpickLeft_erase, hp,
          Bool.false_eq_true, if_false, h1, h2]
        exact ⟨trivial, trivial⟩

/-! ## steps of a thread -/

def RThread.stutters (th : RThread) (path : List Bool) : Bool :=
  match th.cur with
  | some t => t.stutters path
  | none => false

@[simp] theorem erase_unerase (th : Thread) : (unerase th).erase = th := by
  cases th with
  | mk d hs sc cur =>
    cases cur with
    | none => rfl
    | some t => simp [unerase, RThread.erase]

theorem startAct_erase (hs : List (Option Edge)) (c : Threads.Cmd) : (startAct hs c).erase = none := by
  cases c <;> simp only [startAct] <;> (try split) <;> rfl

theorem RThread.step_stutter (p : Policy) (st : St) (th : RThread) (path : List Bool)
    (h : th.stutters path = true) :
    (th.step p st path).2.erase = th.erase ∧ ∃ d, (th.step p st path).1 = .release d := by
  unfold RThread.stutters at h
  cases hc : th.cur with
  | none => simp [hc] at h
  | some t =>
    simp only [hc] at h
    have hr : t.ret? = none := by
      cases hr : t.ret? with
      | none => rfl
      | some r => rw [stutters_ret hr] at h; cases h
    obtain ⟨h1, d, h2⟩ := RTask.step_stutter p st t path h
    simp only [RThread.step, hc, hr, RThread.erase, Option.map_some, h1]
    exact ⟨trivial, d, h2⟩

theorem RThread.step_proper (p : Policy) (st : St) (th : RThread) (path : List Bool)
    (h : th.stutters path = false) :
    (th.step p st path).2.erase = (th.erase.step p st path).2 ∧
    (th.step p st path).1.erase = (th.erase.step p st path).1 := by
  unfold RThread.stutters at h
  cases hc : th.cur with
  | none =>
    cases hs : th.script with
    | nil => simp [RThread.step, Thread.step, RThread.erase, hc, hs, RAct.erase]
    | cons c rest =>
      have he : th.erase.cur = none := by simp [RThread.erase, hc]
      have hs' : th.erase.script = c :: rest := by simp [RThread.erase, hs]
      simp only [RThread.step, Thread.step, hc, hs, he, hs', erase_unerase, startAct_erase]
      exact ⟨trivial, trivial⟩
  | some t =>
    simp only [hc] at h
    cases hr : t.ret? with
    | some r =>
      simp [RThread.step, Thread.step, RThread.erase, hc, hr, RAct.erase]
    | none =>
      obtain ⟨h1, h2⟩ := RTask.step_proper p st t path h
      simp only [RThread.step, Thread.step, RThread.erase, hc, hr, Option.map_some, ret?_erase, h1, h2]
      exact ⟨trivial, trivial⟩

/-! ## steps of the machine -/

/-- the selected step performs a pending release -/
def RCfg.stutters (c : RCfg) : RSel → Bool
  | .thread tid path =>
    match c.threads[tid]? with
    | some th => th.stutters path
    | none => false
  | _ => false

theorem map_set_erase (l : List RThread) (i : Nat) (th : RThread) :
    (l.set i th).map RThread.erase = (l.map RThread.erase).set i th.erase := by
  simp [List.map_set]

/-- a stuttering step leaves the erased configuration unchanged -/
theorem RCfg.step_stutter (p : Policy) (c : RCfg) (sel : RSel) (h : c.stutters sel = true) :
    (c.step p sel).erase = c.erase := by
  cases sel with
  | gcBegin => cases h
  | gcLevel l => cases h
  | gcEnd => cases h
  | thread tid path =>
    simp only [RCfg.stutters] at h
    cases ht : c.threads[tid]? with
    | none => simp [ht] at h
    | some th =>
      simp only [ht] at h
      obtain ⟨h1, d, h2⟩ := RThread.step_stutter (effPol p c.gcActive) c.rst.st th path h
      simp only [RCfg.step, ht, RCfg.erase, h2, RAct.run, dropEdge_st, map_set_erase, h1]
      congr 1
      have hlt : tid < c.threads.length := by
        apply Classical.byContradiction; intro hl
        rw [List.getElem?_eq_none (by omega)] at ht; cases ht
      apply List.ext_getElem?
      intro i
      rw [List.getElem?_set]
      by_cases hi : tid = i
      · subst hi
        have : c.threads[tid] = th := by
          rw [List.getElem?_eq_getElem hlt] at ht; exact Option.some.inj ht
        simp [hlt, this]
      · simp [hi]

/-- every other thread step, `gcBegin` and `gcEnd` are the steps of `Threads.lean` with the same
selector -/
theorem RCfg.step_proper (p : Policy) (c : RCfg) (sel : RSel) (h : c.stutters sel = false)
    (hl : ∀ l, sel ≠ .gcLevel l) : (c.step p sel).erase = c.erase.step p sel.erase := by
  cases sel with
  | gcBegin => rfl
  | gcLevel l => exact absurd rfl (hl l)
  | gcEnd => rfl
  | thread tid path =>
    simp only [RCfg.stutters] at h
    simp only [RCfg.step, Cfg.step, RSel.erase, RCfg.erase, List.getElem?_map]
    cases ht : c.threads[tid]? with
    | none => rfl
    | some th =>
      simp only [ht] at h
      obtain ⟨h1, h2⟩ := RThread.step_proper (effPol p c.gcActive) c.rst.st th path h
      simp only [Option.map_some, RAct.run_st, map_set_erase, h1, h2]

end OxiddModel.Bdd.RThreads
