import OxiddModel.Bdd.RThreadsCount
import OxiddModel.Bdd.ThreadsGc

/-!
# The counter-driven level sweep is the reference-driven one

`Rc.gcLevel r l` walks over the slots and frees those of level `l` whose **counter** is `1`,
releasing the children of what it frees. With exact counters (`RcInv r ext`) and an ordered store
(children on strictly deeper levels, so the releases of this sweep cannot change a counter of
level `l`):

* `get?_gcLevel`: slot `j` is emptied iff it holds a node of level `l` with `rc = 1`, decided on
  the counters **before** the sweep; every other slot is untouched;
* `rc_one_iff`: `rc j = 1` iff `j` is no counted reference (`.inner j ∉ ext`) and no stored node
  has a child edge to `j`;
* `gcLevel_eq_sweepLevel`: hence the store afterwards is `Threads.sweepLevel s ext l`, the
  collector of `Threads.lean` with the counted references as roots.
-/
namespace OxiddModel.Bdd.RThreads
open OxiddModel.Bdd OxiddModel.Bdd.BDD OxiddModel.Bdd.Refine OxiddModel.Bdd.Threads
open OxiddModel.Bdd.Rc (RSt rcGet rcSet cloneEdge dropEdge RcInv parents cnt gcSlot freeSlot)

/-! ## `refd` and `parents` -/

theorem refd_iff_parent (s : Store) (j : Nat) :
    s.refd j = true ↔ ∃ k n, s.get? k = some n ∧ (n.t = .inner j ∨ n.e = .inner j) := by
  constructor
  · intro h
    unfold Store.refd at h
    rw [Array.any_eq_true] at h
    obtain ⟨k, hk, hp⟩ := h
    cases hn : s.nodes[k] with
    | none => rw [hn] at hp; cases hp
    | some n =>
      rw [hn] at hp
      refine ⟨k, n, by simp [Store.get?, hk, hn], ?_⟩
      simp only [Bool.or_eq_true, beq_iff_eq] at hp
      exact hp
  · rintro ⟨k, n, hk, hc⟩
    exact refd_of_child hk hc

theorem refd_iff_parents_pos (s : Store) (j : Nat) : s.refd j = true ↔ 0 < parents s j := by
  rw [refd_iff_parent]
  constructor
  · rintro ⟨k, n, hk, hc⟩
    apply Classical.byContradiction
    intro h0
    have hz : parents s j = 0 := by omega
    obtain ⟨h1, h2⟩ := Rc.parents_zero_no_child hz hk
    rcases hc with hc | hc
    · exact h1 hc
    · exact h2 hc
  · exact Rc.parents_pos

/-- with exact counters: `rc = 1` iff neither a counted reference nor a stored parent edge -/
theorem rc_one_iff {r : RSt} {ext : List Edge} (h : RcInv r ext) {j : Nat} {n : Node}
    (hj : r.st.store.get? j = some n) :
    rcGet r.rc j = 1 ↔ prot r.st.store ext j = false := by
  have := h.rc_eq j n hj
  unfold prot
  constructor
  · intro h1
    have hc : ext.count (.inner j) = 0 := by omega
    have hp : parents r.st.store j = 0 := by omega
    have h2 : ext.contains (.inner j) = false := by
      simpa using List.count_eq_zero.mp hc
    have h3 : r.st.store.refd j = false := by
      cases hr : r.st.store.refd j with
      | false => rfl
      | true => have := (refd_iff_parents_pos _ _).mp hr; omega
    rw [h2, h3]; rfl
  · intro h1
    simp only [Bool.or_eq_false_iff] at h1
    have hc : ext.count (.inner j) = 0 :=
      List.count_eq_zero.mpr (by simpa using h1.1)
    have hp : parents r.st.store j = 0 := by
      apply Classical.byContradiction
      intro hne
      have := (refd_iff_parents_pos r.st.store j).mpr (by omega)
      rw [this] at h1; exact absurd h1.2 (by simp)
    omega

/-! ## the fold over the slots -/

/-- the decision of the sweep for slot `j`, on the state **before** the sweep -/
def frees (r : RSt) (l j : Nat) : Prop :=
  ∃ n, r.st.store.get? j = some n ∧ n.level = l ∧ rcGet r.rc j = 1

/-- state of the fold after the slots `< k` -/
structure Swept (r : RSt) (l k : Nat) (r' : RSt) : Prop where
  /-- slots not yet visited are untouched -/
  later : ∀ j, k ≤ j → r'.st.store.get? j = r.st.store.get? j
  /-- visited slots: emptied iff the sweep's decision on the initial state says so -/
  earlier : ∀ j, j < k → (frees r l j → r'.st.store.get? j = none) ∧
    (¬ frees r l j → r'.st.store.get? j = r.st.store.get? j)
  /-- counters of nodes of the swept level are untouched -/
  rc_lvl : ∀ j n, r.st.store.get? j = some n → n.level = l → rcGet r'.rc j = rcGet r.rc j
  size : r'.st.store.nodes.size = r.st.store.nodes.size

theorem swept_step {r : RSt} {l k : Nat} {r' : RSt} (ho : r.st.store.Ordered)
    (hk : ∀ i n, r.st.store.get? i = some n → r.st.store.has n.t ∧ r.st.store.has n.e)
    (h : Swept r l k r') : Swept r l (k + 1) (gcSlot l r' k) := by
  rw [Rc.gcSlot_eq]
  have hkk := h.later k (Nat.le_refl _)
  cases hn : r.st.store.get? k with
  | none =>
    rw [hn] at hkk
    rw [hkk]
    refine ⟨fun j hj => h.later j (by omega), fun j hj => ?_, h.rc_lvl, h.size⟩
    by_cases hjk : j = k
    · subst hjk
      refine ⟨fun ⟨n, hn', _⟩ => (by rw [hn] at hn'; cases hn'), fun _ => (by rw [hkk, hn])⟩
    · exact h.earlier j (by omega)
  | some n =>
    rw [hn] at hkk
    rw [hkk]
    simp only
    by_cases hc : n.level = l ∧ rcGet r'.rc k = 1
    · simp only [hc, and_self, if_true]
      have hrc0 : rcGet r.rc k = 1 := by rw [← h.rc_lvl k n hn hc.1]; exact hc.2
      refine ⟨?_, ?_, ?_, ?_⟩
      · intro j hj
        rw [Rc.freeSlot_store, Rc.get?_free]
        have : j ≠ k := by omega
        simp only [this, if_false]
        exact h.later j (by omega)
      · intro j hj
        rw [Rc.freeSlot_store, Rc.get?_free]
        by_cases hjk : j = k
        · subst hjk
          constructor
          · intro _; simp
          · intro hnf; exact absurd ⟨n, hn, hc.1, hrc0⟩ hnf
        · simp only [hjk, if_false]
          exact h.earlier j (by omega)
      · intro j m hj hm
        rw [Rc.freeSlot_rc, h.rc_lvl j m hj hm]
        -- a child of the freed node is on a deeper level
        have h1 : cnt n.t j = 0 := by
          unfold cnt; split
          · rename_i heq
            have := ho k n j m hn (.inl heq) hj
            omega
          · rfl
        have h2 : cnt n.e j = 0 := by
          unfold cnt; split
          · rename_i heq
            have := ho k n j m hn (.inr heq) hj
            omega
          · rfl
        omega
      · rw [Rc.freeSlot_store]; simpa using h.size
    · simp only [hc, if_false]
      refine ⟨fun j hj => h.later j (by omega), fun j hj => ?_, h.rc_lvl, h.size⟩
      by_cases hjk : j = k
      · subst hjk
        refine ⟨fun ⟨n', hn', hl', hr'⟩ => ?_, fun _ => (by rw [hkk, hn])⟩
        rw [hn] at hn'; cases hn'
        exact absurd ⟨hl', by rw [h.rc_lvl j n hn hl']; exact hr'⟩ hc
      · exact h.earlier j (by omega)

theorem swept_fold {r : RSt} {l : Nat} (ho : r.st.store.Ordered)
    (hk : ∀ i n, r.st.store.get? i = some n → r.st.store.has n.t ∧ r.st.store.has n.e) :
    ∀ k, Swept r l k ((List.range k).foldl (gcSlot l) r) := by
  intro k
  induction k with
  | zero =>
    exact ⟨fun _ _ => rfl, fun j hj => by omega, fun _ _ _ _ => rfl, rfl⟩
  | succ k ih =>
    rw [List.range_succ, List.foldl_append]
    exact swept_step ho hk ih

/-- **what a level sweep does to a slot**, decided by the counters before the sweep -/
theorem get?_gcLevel {r : RSt} {l : Nat} (ho : r.st.store.Ordered)
    (hk : ∀ i n, r.st.store.get? i = some n → r.st.store.has n.t ∧ r.st.store.has n.e) (j : Nat) :
    (frees r l j → (Rc.gcLevel r l).st.store.get? j = none) ∧
    (¬ frees r l j → (Rc.gcLevel r l).st.store.get? j = r.st.store.get? j) := by
  have S := swept_fold (l := l) ho hk r.st.store.nodes.size
  by_cases hj : j < r.st.store.nodes.size
  · exact S.earlier j hj
  · have h0 : r.st.store.get? j = none := by simp [Store.get?, hj]
    have := S.later j (by omega)
    refine ⟨fun _ => ?_, fun _ => this⟩
    exact this.trans h0

theorem gcLevel_size (r : RSt) (l : Nat) :
    (Rc.gcLevel r l).st.store.nodes.size = r.st.store.nodes.size :=
  Rc.gcLevel_ind (P := fun r' => r'.st.store.nodes.size = r.st.store.nodes.size)
    (fun l r' i h => (Rc.gcSlot_size l r' i).trans h) r l rfl

theorem gcLevel_cache (r : RSt) (l : Nat) : (Rc.gcLevel r l).st.cache = r.st.cache :=
  Rc.gcLevel_ind (P := fun r' => r'.st.cache = r.st.cache)
    (fun l r' i h => by
      rw [Rc.gcSlot_eq]
      cases r'.st.store.get? i with
      | none => exact h
      | some n =>
        simp only
        split
        · rw [Rc.freeSlot_cache]; exact h
        · exact h) r l rfl

theorem gcLevel_tick (r : RSt) (l : Nat) : (Rc.gcLevel r l).st.tick = r.st.tick :=
  Rc.gcLevel_ind (P := fun r' => r'.st.tick = r.st.tick)
    (fun l r' i h => by
      rw [Rc.gcSlot_eq]
      cases r'.st.store.get? i with
      | none => exact h
      | some n =>
        simp only
        split
        · simpa [freeSlot] using h
        · exact h) r l rfl

theorem Store.ext_get? {s s' : Store} (hs : s.nodes.size = s'.nodes.size)
    (h : ∀ j, s.get? j = s'.get? j) : s = s' := by
  cases s with
  | mk a =>
    cases s' with
    | mk b =>
      congr 1
      apply Array.ext hs
      intro j h1 h2
      have := h j
      simp only [Store.get?] at this
      rw [Array.getElem?_eq_getElem h1, Array.getElem?_eq_getElem h2] at this
      simpa using this

theorem sweepLevel_size (s : Store) (roots : List Edge) (l : Nat) :
    (sweepLevel s roots l).nodes.size = s.nodes.size := by
  simp [sweepLevel]

/-- **the counter-driven sweep of level `l` is the sweep of `Threads.lean`** with the counted
references as root set -/
theorem gcLevel_eq_sweepLevel {r : RSt} {ext : List Edge} (h : RcInv r ext)
    (ho : r.st.store.Ordered) (l : Nat) :
    (Rc.gcLevel r l).st.store = sweepLevel r.st.store ext l := by
  apply Store.ext_get?
  · rw [gcLevel_size, sweepLevel_size]
  · intro j
    rw [get?_sweepLevel]
    have G := get?_gcLevel (l := l) ho h.kids_ok j
    cases hj : r.st.store.get? j with
    | none =>
      have : ¬ frees r l j := fun ⟨n, hn, _⟩ => by rw [hj] at hn; cases hn
      rw [G.2 this, hj]
      split <;> rfl
    | some n =>
      have hrc := rc_one_iff h hj
      by_cases hp : prot r.st.store ext j = true
      · have : ¬ frees r l j := by
          rintro ⟨n', _, _, h1⟩
          rw [hrc.mp h1] at hp; cases hp
        rw [G.2 this, hj, if_pos hp]
      · have hp' : prot r.st.store ext j = false := by simpa using hp
        rw [if_neg hp]
        by_cases hl : n.level = l
        · rw [G.1 ⟨n, hj, hl, hrc.mpr hp'⟩]
          simp [Option.filter, hl]
        · have : ¬ frees r l j := by
            rintro ⟨n', hn', hl', _⟩
            rw [hj] at hn'; cases hn'; exact hl hl'
          rw [G.2 this, hj]
          simp [Option.filter, hl]

/-- the sweep depends on the root set only through `prot` -/
theorem sweepLevel_congr (s : Store) (roots roots' : List Edge) (l : Nat)
    (h : ∀ j, prot s roots j = prot s roots' j) : sweepLevel s roots l = sweepLevel s roots' l := by
  apply Store.ext_get?
  · rw [sweepLevel_size, sweepLevel_size]
  · intro j
    rw [get?_sweepLevel, get?_sweepLevel, h j]

/-- the sweep keeps the counters exact (the cache is empty during a collection) -/
theorem gcLevel_rc {r : RSt} {ext : List Edge} (h : RcInv r ext) (hc : r.st.cache = []) (l : Nat) :
    RcInv (Rc.gcLevel r l) ext :=
  (Rc.gcLevel_ind (P := fun r => RcInv r ext ∧ r.st.cache = [])
    (fun _ r i ⟨h1, h2⟩ => Rc.gcSlot_rc i h1 h2) r l ⟨h, hc⟩).1

end OxiddModel.Bdd.RThreads
