import OxiddModel.Bdd.RThreadsProof

/-!
# The counter machine with FAILING allocation (`ROom`): OutOfMemory in the sequential and the parallel recursor

`RThreads.lean` is the interleaving machine of `apply_not` / `apply_bin::<OP>` / `apply_ite`
(`crates/oxidd-rules-bdd/src/simple/apply_rec.rs`) with one reference counter per node as shared
state; its limit: *"Out of memory is not modelled (allocation always succeeds)"*.
`RcS.lean` / `PropertiesC05R.lean` have `OutOfMemory` at any allocation point, but only for the
sequential recursor running alone. This file is the machine that has both.

## what is new with respect to `RThreads.lean`

* **`get_or_insert` may fail.** A `get_or_insert` *miss* (`t ≠ e`, the unique table of the level
  does not contain `(l, t, e)`) calls `Store::add_node` (`oxidd-manager-index/src/manager.rs`).
  `add_node` takes a slot from the thread-local free list, else from the thread-local chunk, else
  (`get_slot_from_shared`) from the shared free-list stack, else a fresh chunk / single slot, and
  returns `Err(OutOfMemory)` when all of these are exhausted. Slots sitting in the local free list
  of ANOTHER thread are invisible to it, so with several threads "the store is full" is a per-thread
  observation. The model: the outcome of a miss is chosen by the **scheduler**
  (`OSel.thread tid path oom`); the only constraint is the one the code guarantees —
  the miss **must** fail when no slot is free globally (`cap ≤ count`), it **may** fail at any
  other time (`oom = true`) and **may** succeed whenever a slot is free (`oom = false`).
  All theorems quantify over every such pattern of failures.
* **what a failing `add_node` does**: `node.drop_with(|e| self.drop_edge(e))` — the children of the
  rejected node are released (`fail [t, e]`: one `release` step each), nothing else changes.
* **error propagation** (`?` and guards, exactly as in `recursor.rs`):
  * `SequentialRecursor::binary`: `let ra = EdgeDropGuard::new(manager, op(a)?); let rb =
    EdgeDropGuard::new(manager, op(b)?);` — then-call fails: return, nothing owned (`seq1` with a
    failed then-branch becomes `fail []`); else-call fails: the guard `ra` drops the then-result
    (`seq0 fr r1 (fail [])` becomes `fail [r1]`);
  * `ParallelRecursor::binary` = `let (ra, rb) = manager.workers().join(|| Ok(EdgeDropGuard::new(..,
    op(a)?)), || Ok(EdgeDropGuard::new(.., op(b)?))); Ok((ra?, rb?))`: `join` runs **both**
    closures to completion whatever the other one returns (in `par fr t1 t0` the unfinished branch
    keeps moving after the other one has failed); then `ra?` returns on the first error and `rb`,
    a `Result<EdgeDropGuard>`, is dropped — a surviving else-result is released (`fail [r0]`); if
    only `rb` is the error, the temporary guard obtained from `ra?` is dropped — the then-result
    is released (`fail [r1]`); both failed: `fail []`;
  * `reduce(..)?` and the callers (`apply_bin` delegating to `apply_not`, `apply_ite` delegating to
    `apply_bin`) pass the error on: no cache entry is added;
  * the operation ends with `Ok(edge)` (a new handle) or with `Err(OutOfMemory)`: the result slot
    stays empty (`none` is appended to the handle list, so later script indices keep their
    meaning) and the thread's log records the failure.
* `Variant`: the unchanged code (`ok`), the two seeded defects of the parallel join
  (`firstErrNoRelease`, `noThenGuard`) and the leaking `add_node` (`oomLeaksChildren`) share the
  step function; the theorems are about `ok`, the
  defective variants are refuted by concrete runs (`PropertiesC14P.lean`).

Everything else (actions `RAct`, counters, collector, handle clone/drop, cache behaviour while a
collection holds the buckets locked) is reused from `RThreads.lean` unchanged.
-/
namespace OxiddModel.Bdd.ROom
open OxiddModel.Bdd OxiddModel.Bdd.BDD OxiddModel.Bdd.Refine OxiddModel.Bdd.Threads
open OxiddModel.Bdd.RThreads
open OxiddModel.Bdd.Rc (RSt rcGet rcSet cloneEdge dropEdge RcInv)

/-- the join of the parallel recursor: as in the code, or with one of the two seeded defects -/
inductive Variant where
  /-- `Ok((ra?, rb?))` with both closures returning `EdgeDropGuard`s -/
  | ok
  /-- seeded: the join returns on the first error without releasing the other branch's result -/
  | firstErrNoRelease
  /-- seeded: the then-closure returns the bare edge (no guard): lost when the else-branch fails -/
  | noThenGuard
  /-- seeded (`C05-oom-leaks-children`): a failing `add_node` does not release the children of the
  rejected node -/
  | oomLeaksChildren
deriving DecidableEq, Repr

/-! ## tasks -/

/-- `RThreads.RTask` plus `fail ds`: the call is returning `Err(OutOfMemory)`; the edges `ds`
(owned) are still to be released before the error reaches the caller -/
inductive OTask where
  | call (d : Nat) (c : Call)
  | miss (d : Nat) (c : Call) (key : Key)
  | seq1 (fr : Frame) (c0 : Call) (t1 : OTask)
  | seq0 (fr : Frame) (r1 : Edge) (t0 : OTask)
  | par (fr : Frame) (t1 t0 : OTask)
  | made (key : Key) (r : Edge) (ds : List Edge)
  | ret (r : Edge)
  | fail (ds : List Edge)
deriving DecidableEq, Repr

/-- the outcome of a finished task: `some (some r)` = `Ok(r)`; `some none` = `Err(OutOfMemory)`
with nothing left to release; `none` = still running -/
def OTask.res? : OTask → Option (Option Edge)
  | .ret r => some (some r)
  | .fail [] => some none
  | _ => none

/-- a task of `RThreads.lean` as a task of this machine -/
def ofR : RTask → OTask
  | .call d c => .call d c
  | .miss d c key => .miss d c key
  | .seq1 fr c0 t1 => .seq1 fr c0 (ofR t1)
  | .seq0 fr r1 t0 => .seq0 fr r1 (ofR t0)
  | .par fr t1 t0 => .par fr (ofR t1) (ofR t0)
  | .made key r ds => .made key r ds
  | .ret r => .ret r

/-- the edges a task **owns** (each is counted in its node's `rc`) -/
def OTask.owned : OTask → List Edge
  | .call _ _ => []
  | .miss _ _ _ => []
  | .seq1 _ _ t1 => t1.owned
  | .seq0 _ r1 t0 => r1 :: t0.owned
  | .par _ t1 t0 => t1.owned ++ t0.owned
  | .made _ r ds => r :: ds
  | .ret r => [r]
  | .fail ds => ds

/-- the edges whose **denotation** the continuation relies on: operands of pending calls, cache
keys, guarded results, the edge `reduce` returned (not the edges that are only to be released) -/
def OTask.dheld : OTask → List Edge
  | .call _ c => c.edges
  | .miss _ c key => c.edges ++ key.2
  | .seq1 fr c0 t1 => fr.key.2 ++ (c0.edges ++ t1.dheld)
  | .seq0 fr r1 t0 => fr.key.2 ++ (r1 :: t0.dheld)
  | .par fr t1 t0 => fr.key.2 ++ (t1.dheld ++ t0.dheld)
  | .made key r _ => r :: key.2
  | .ret r => [r]
  | .fail _ => []

/-- all edges a task holds (owned and borrowed) -/
def OTask.held : OTask → List Edge
  | .call _ c => c.edges
  | .miss _ c key => c.edges ++ key.2
  | .seq1 fr c0 t1 => fr.key.2 ++ (c0.edges ++ t1.held)
  | .seq0 fr r1 t0 => fr.key.2 ++ (r1 :: t0.held)
  | .par fr t1 t0 => fr.key.2 ++ (t1.held ++ t0.held)
  | .made key r ds => r :: (key.2 ++ ds)
  | .ret r => [r]
  | .fail ds => ds

/-! ## one step of a task -/

abbrev OOut := RAct × OTask

/-- `get_or_insert(l, t, e)` would have to allocate -/
def isMiss (s : Store) (l : Nat) (t e : Edge) : Bool := t != e && (s.find? ⟨l, t, e⟩).isNone

/-- `reduce(manager, level, t, e, op)?` with owned `t`, `e`. `full`: a miss fails now.
A failing `add_node` releases the children of the rejected node (`node.drop_with(drop_edge)`) and
returns `Err(OutOfMemory)`; the store is untouched. Everything else is `rreduce`. -/
def oreduce (v : Variant) (full : Bool) (st : St) (fr : Frame) (r1 r0 : Edge) : OOut :=
  if full && isMiss st.store fr.lvl r1 r0 then
    (.skip, .fail (if v = .oomLeaksChildren then [] else [r1, r0]))
  else ((rreduce st fr r1 r0).1, ofR (rreduce st fr r1 r0).2)

/-- what the join of the parallel recursor releases when at least one branch returned the error
(`none`): `Ok((ra?, rb?))` drops the other branch's guard -/
def joinErr (v : Variant) (a b : Option Edge) : List Edge :=
  match a, b with
  | none, some r0 => if v = .firstErrNoRelease then [] else [r0]
  | some r1, none => if v = .noThenGuard then [] else [r1]
  | _, _ => []

/-- both closures of `join` have returned -/
def ojoin (v : Variant) (full : Bool) (st : St) (fr : Frame) : Option Edge → Option Edge → OOut
  | some r1, some r0 => oreduce v full st fr r1 r0
  | a, b => (.skip, .fail (joinErr v a b))

/-- which branch of a `par` node moves: the one the scheduler asks for unless it has returned
(with a result or with the error) already -/
def opick (path : List Bool) (t1 t0 : OTask) : Bool :=
  match t1.res?, t0.res? with
  | some _, _ => false
  | none, some _ => true
  | none, none => path.headD true

/-- **one step of a task**: exactly one atomic action on the shared state (or a thread-local
transition). `full`: a `get_or_insert` miss performed by this step returns `OutOfMemory`. -/
def OTask.step (v : Variant) (p : Policy) (st : St) (full : Bool) : OTask → List Bool → OOut
  | .ret r, _ => (.skip, .ret r)
  | .fail [], _ => (.skip, .fail [])
  | .fail (d :: ds), _ => (.release d, .fail ds)
  | .call d c, _ => ((rentry p st d c).1, ofR (rentry p st d c).2)
  | .miss d c key, _ => ((rexpand st.store d key c).1, ofR (rexpand st.store d key c).2)
  | .seq1 fr c0 t1, path =>
    match t1.res? with
    | some (some r1) => (.skip, .seq0 fr r1 (.call 0 c0))
    | some none => (.skip, .fail [])
    | none => let o := t1.step v p st full path; (o.1, .seq1 fr c0 o.2)
  | .seq0 fr r1 t0, path =>
    match t0.res? with
    | some (some r0) => oreduce v full st fr r1 r0
    | some none => (.skip, .fail [r1])
    | none => let o := t0.step v p st full path; (o.1, .seq0 fr r1 o.2)
  | .par fr t1 t0, path =>
    match t1.res?, t0.res? with
    | some a, some b => ojoin v full st fr a b
    | _, _ =>
      if opick path t1 t0 then
        let o := t1.step v p st full path.tail; (o.1, .par fr o.2 t0)
      else
        let o := t0.step v p st full path.tail; (o.1, .par fr t1 o.2)
  | .made key r (d :: ds), _ => (.release d, .made key r ds)
  | .made key r [], _ => (.cacheAdd p key r, .ret r)

/-! ## threads -/

structure OThread where
  depth : Nat
  hs : List (Option Edge)
  script : List Threads.Cmd
  cur : Option OTask
  /-- what the caller has seen so far: one entry per command issued, `true` = the operation
  returned `Err(OutOfMemory)` -/
  log : List Bool
deriving DecidableEq, Repr

/-- the thread of `Threads.lean` with the same handles and script, idle -/
def OThread.base (th : OThread) : Thread := ⟨th.depth, th.hs, th.script, none⟩

/-- issue the next command (`Threads.Cmd.start`); a command that completes at once (clone, drop,
an operation whose operand slot is empty) is logged as "no error" -/
def ostart (th : OThread) (c : Threads.Cmd) (rest : List Threads.Cmd) : OThread :=
  let th' := c.start th.base rest
  ⟨th'.depth, th'.hs, th'.script, th'.cur.map (fun t => ofR (lift t)),
    match th'.cur with
    | some _ => th.log
    | none => th.log ++ [false]⟩

/-- **one step of a thread**: continue the running operation; or deliver its result — `Ok(r)`: the
owned reference becomes a new handle; `Err(OutOfMemory)`: no new handle (the result slot stays
empty) —; or issue the next command -/
def OThread.step (v : Variant) (p : Policy) (st : St) (full : Bool) (th : OThread)
    (path : List Bool) : RAct × OThread :=
  match th.cur with
  | some t =>
    match t.res? with
    | some (some r) =>
      (.skip, { th with hs := th.hs ++ [some r], cur := none, log := th.log ++ [false] })
    | some none => (.skip, { th with hs := th.hs ++ [none], cur := none, log := th.log ++ [true] })
    | none => let o := t.step v p st full path; (o.1, { th with cur := some o.2 })
  | none =>
    match th.script with
    | [] => (.skip, th)
    | c :: rest => (startAct th.hs c, ostart th c rest)

def OThread.done (th : OThread) : Bool := th.cur.isNone && th.script.isEmpty

def OThread.handles (th : OThread) : List Edge := th.hs.filterMap id

/-- the **counted references** of a thread: its live handles and the edges its continuation owns -/
def OThread.owned (th : OThread) : List Edge :=
  th.handles ++ (match th.cur with | some t => t.owned | none => [])

/-- every edge the thread holds -/
def OThread.held (th : OThread) : List Edge :=
  th.handles ++ (match th.cur with | some t => t.held | none => [])

/-! ## the machine -/

structure OCfg where
  rst : RSt
  threads : List OThread
  gcActive : Bool := false

/-- **all counted references of the configuration** -/
def OCfg.ext (c : OCfg) : List Edge := c.threads.flatMap OThread.owned

inductive OSel where
  /-- thread `tid` performs one step; `path` picks the branch at `par` nodes; `oom`: if the step is
  a `get_or_insert` miss, `add_node` finds no slot (local list, local chunk, shared stack and
  unallocated range all empty **for this thread**) -/
  | thread (tid : Nat) (path : List Bool) (oom : Bool)
  | gcBegin
  | gcLevel (l : Nat)
  | gcEnd
deriving DecidableEq, Repr

/-- a miss must fail when no slot is free globally; otherwise the scheduler decides -/
def fullNow (cap : Nat) (s : Store) (oom : Bool) : Bool := oom || decide (cap ≤ s.count)

/-- **one step of the machine** (`cap`: the manager's inner-node capacity) -/
def OCfg.step (v : Variant) (p : Policy) (cap : Nat) (c : OCfg) : OSel → OCfg
  | .thread tid path oom =>
    match c.threads[tid]? with
    | none => c
    | some th =>
      let o := th.step v (effPol p c.gcActive) c.rst.st (fullNow cap c.rst.st.store oom) path
      { c with rst := o.1.run c.rst, threads := c.threads.set tid o.2 }
  | .gcBegin =>
    { c with rst := { c.rst with st := ⟨c.rst.st.store, [], c.rst.st.tick⟩ }, gcActive := true }
  | .gcLevel l => if c.gcActive then { c with rst := Rc.gcLevel c.rst l } else c
  | .gcEnd => { c with gcActive := false }

def OCfg.run (v : Variant) (p : Policy) (cap : Nat) (c : OCfg) : List OSel → OCfg
  | [] => c
  | s :: ss => (c.step v p cap s).run v p cap ss

def OCfg.allDone (c : OCfg) : Bool := c.threads.all OThread.done

/-! ## the tree-level specification of a script with failures -/

/-- what a command does to the denotations of the handles when the operation it starts ends with
`failed`: a failed operation leaves its result slot empty; everything else is `Threads.evalCmd` -/
def evalCmdF (ts : List (Option BDD)) (c : Threads.Cmd) (failed : Bool) : List (Option BDD) :=
  if failed then
    match c with
    | .not i =>
      match hget ts i with
      | some _ => ts ++ [none]
      | none => ts
    | .bin _ i j =>
      match hget ts i, hget ts j with
      | some _, some _ => ts ++ [none]
      | _, _ => ts
    | .ite i j k =>
      match hget ts i, hget ts j, hget ts k with
      | some _, some _, some _ => ts ++ [none]
      | _, _, _ => ts
    | c => evalCmd ts c
  else evalCmd ts c

/-- the handles (as trees) after the whole script executed sequentially, where `fs` says which
commands end in `OutOfMemory` (one flag per command, missing flags = no failure) -/
def evalScriptF : List Threads.Cmd → List Bool → List (Option BDD) → List (Option BDD)
  | [], _, ts => ts
  | c :: cs, fs, ts => evalScriptF cs fs.tail (evalCmdF ts c (fs.headD false))

theorem evalCmdF_false (ts : List (Option BDD)) (c : Threads.Cmd) : evalCmdF ts c false = evalCmd ts c := by
  simp [evalCmdF]

/-- without failures the specification is `Threads.evalScript` -/
theorem evalScriptF_nofail (sc : List Threads.Cmd) (fs : List Bool) (ts : List (Option BDD))
    (h : ∀ f, f ∈ fs → f = false) : evalScriptF sc fs ts = evalScript sc ts := by
  induction sc generalizing fs ts with
  | nil => rfl
  | cons c cs ih =>
    simp only [evalScriptF, evalScript]
    have h0 : fs.headD false = false := by
      cases fs with
      | nil => rfl
      | cons f fs => exact h f List.mem_cons_self
    rw [h0, evalCmdF_false]
    exact ih fs.tail _ (fun f hf => h f (List.mem_of_mem_tail hf))

end OxiddModel.Bdd.ROom
