import OxiddModel.Bdd.RThreadsOom

/-!
# Ownership accounting of the machine with failing allocation

Every step of a task / thread / configuration of `ROom` — including every step of an error path —
changes the multiset of counted references by exactly what its atomic action gains and loses
(`Acct`, `gainOf`, `loseOf` of `RThreadsCount.lean`): a failing `add_node` moves the two children
into the list of pending releases; `?` moves a guarded result there; a `release` step removes one.
Nothing is forgotten and nothing is released twice — for the unchanged join (`Variant.ok`).
-/
namespace OxiddModel.Bdd.ROom
open OxiddModel.Bdd OxiddModel.Bdd.BDD OxiddModel.Bdd.Refine OxiddModel.Bdd.Threads
open OxiddModel.Bdd.RThreads
open OxiddModel.Bdd.Rc (RSt rcGet rcSet cloneEdge dropEdge RcInv)

/-! ## embedding -/

@[simp] theorem owned_ofR (t : RTask) : (ofR t).owned = t.owned := by
  induction t with
  | call d c => rfl
  | miss d c key => rfl
  | seq1 fr c0 t1 ih => simp [ofR, OTask.owned, RTask.owned, ih]
  | seq0 fr r1 t0 ih => simp [ofR, OTask.owned, RTask.owned, ih]
  | par fr t1 t0 ih1 ih0 => simp [ofR, OTask.owned, RTask.owned, ih1, ih0]
  | made key r ds => rfl
  | ret r => rfl

theorem res?_ok {t : OTask} {r : Edge} (h : t.res? = some (some r)) : t = .ret r := by
  cases t with
  | ret r' => simp only [OTask.res?, Option.some.injEq] at h; subst h; rfl
  | fail ds => cases ds <;> simp [OTask.res?] at h
  | call d c => simp [OTask.res?] at h
  | miss d c key => simp [OTask.res?] at h
  | seq1 fr c0 t1 => simp [OTask.res?] at h
  | seq0 fr r1 t0 => simp [OTask.res?] at h
  | par fr t1 t0 => simp [OTask.res?] at h
  | made key r ds => simp [OTask.res?] at h

theorem res?_err {t : OTask} (h : t.res? = some none) : t = .fail [] := by
  cases t with
  | ret r' => simp [OTask.res?] at h
  | fail ds => cases ds <;> simp [OTask.res?] at h; rfl
  | call d c => simp [OTask.res?] at h
  | miss d c key => simp [OTask.res?] at h
  | seq1 fr c0 t1 => simp [OTask.res?] at h
  | seq0 fr r1 t0 => simp [OTask.res?] at h
  | par fr t1 t0 => simp [OTask.res?] at h
  | made key r ds => simp [OTask.res?] at h

/-- the three possible outcomes of `res?` -/
theorem res?_cases (t : OTask) :
    (∃ r, t = .ret r) ∨ t = .fail [] ∨ t.res? = none := by
  cases h : t.res? with
  | none => exact .inr (.inr rfl)
  | some o =>
    cases o with
    | some r => exact .inl ⟨r, res?_ok h⟩
    | none => exact .inr (.inl (res?_err h))

/-! ## reduce, join -/

theorem oreduce_acct (full : Bool) (st : St) (fr : Frame) (r1 r0 : Edge) :
    Acct [r1, r0] (oreduce .ok full st fr r1 r0).2.owned (gainOf st.store (oreduce .ok full st fr r1 r0).1)
      (loseOf st.store (oreduce .ok full st fr r1 r0).1) := by
  unfold oreduce
  split
  · simp [Acct, gainOf, loseOf, OTask.owned]
  · simp only [owned_ofR]
    exact rreduce_acct st fr r1 r0

theorem ojoin_acct (full : Bool) (st : St) (fr : Frame) (a b : Option Edge) :
    Acct (a.toList ++ b.toList) (ojoin .ok full st fr a b).2.owned
      (gainOf st.store (ojoin .ok full st fr a b).1) (loseOf st.store (ojoin .ok full st fr a b).1) := by
  cases a with
  | none =>
    cases b with
    | none => simp [ojoin, joinErr, Acct, gainOf, loseOf, OTask.owned]
    | some r0 => simp [ojoin, joinErr, Acct, gainOf, loseOf, OTask.owned]
  | some r1 =>
    cases b with
    | none => simp [ojoin, joinErr, Acct, gainOf, loseOf, OTask.owned]
    | some r0 => exact oreduce_acct full st fr r1 r0

/-- the owned edges of a finished task are its result -/
theorem owned_of_res? {t : OTask} {a : Option Edge} (h : t.res? = some a) : t.owned = a.toList := by
  cases a with
  | some r => rw [res?_ok h]; rfl
  | none => rw [res?_err h]; rfl

/-! ## a task step -/

/-- **ownership accounting of one task step**, error paths included -/
theorem OTask.step_acct (p : Policy) (st : St) (full : Bool) (t : OTask) :
    ∀ path, Acct t.owned (t.step .ok p st full path).2.owned
      (gainOf st.store (t.step .ok p st full path).1)
      (loseOf st.store (t.step .ok p st full path).1) := by
  induction t with
  | call d c =>
    intro _
    simp only [OTask.step, owned_ofR, OTask.owned]
    exact rentry_acct p st d c
  | miss d c key =>
    intro _
    simp only [OTask.step, owned_ofR, OTask.owned]
    exact rexpand_acct st.store d key c
  | ret r => intro _; exact Acct.same _
  | fail ds =>
    intro _
    cases ds with
    | nil => exact Acct.same _
    | cons d ds =>
      intro x
      simp only [OTask.step, gainOf, loseOf, OTask.owned, List.count_cons, List.count_nil]
      omega
  | made key r ds =>
    intro _
    cases ds with
    | nil => simp [OTask.step, Acct, gainOf, loseOf, OTask.owned]
    | cons d ds =>
      intro x
      simp only [OTask.step, gainOf, loseOf, OTask.owned, List.count_cons, List.count_nil]
      omega
  | seq1 fr c0 t1 ih =>
    intro path
    rcases res?_cases t1 with ⟨r1, rfl⟩ | rfl | hr
    · simp [OTask.step, OTask.res?, Acct, gainOf, loseOf, OTask.owned]
    · simp [OTask.step, OTask.res?, Acct, gainOf, loseOf, OTask.owned]
    · simp only [OTask.step, hr, OTask.owned]
      exact ih path
  | seq0 fr r1 t0 ih =>
    intro path
    rcases res?_cases t0 with ⟨r0, rfl⟩ | rfl | hr
    · simp only [OTask.step, OTask.res?, OTask.owned]
      exact oreduce_acct full st fr r1 r0
    · simp [OTask.step, OTask.res?, Acct, gainOf, loseOf, OTask.owned]
    · simp only [OTask.step, hr, OTask.owned]
      exact (ih path).cons r1
  | par fr t1 t0 ih1 ih0 =>
    intro path
    have left : Acct (t1.owned ++ t0.owned)
        ((t1.step .ok p st full path.tail).2.owned ++ t0.owned)
        (gainOf st.store (t1.step .ok p st full path.tail).1)
        (loseOf st.store (t1.step .ok p st full path.tail).1) := (ih1 path.tail).left _
    have right : Acct (t1.owned ++ t0.owned)
        (t1.owned ++ (t0.step .ok p st full path.tail).2.owned)
        (gainOf st.store (t0.step .ok p st full path.tail).1)
        (loseOf st.store (t0.step .ok p st full path.tail).1) := (ih0 path.tail).right _
    cases hr1 : t1.res? with
    | some a =>
      cases hr0 : t0.res? with
      | some b =>
        simp only [OTask.step, hr1, hr0, OTask.owned, owned_of_res? hr1, owned_of_res? hr0]
        exact ojoin_acct full st fr a b
      | none =>
        simp only [OTask.step, hr1, hr0, opick, Bool.false_eq_true, if_false, OTask.owned]
        exact right
    | none =>
      cases hr0 : t0.res? with
      | some b =>
        simp only [OTask.step, hr1, hr0, opick, if_true, OTask.owned]
        exact left
      | none =>
        simp only [OTask.step, hr1, hr0, opick, OTask.owned]
        split
        · exact left
        · exact right

/-! ## a thread step -/

theorem base_handles (th : OThread) : th.base.hs = th.hs := rfl

theorem ostart_owned (th : OThread) (c : Threads.Cmd) (rest : List Threads.Cmd)
    (hc : th.cur = none) :
    Acct th.owned (ostart th c rest).owned (gainOf noStore (startAct th.hs c))
      (loseOf noStore (startAct th.hs c)) := by
  -- the thread of `RThreads.lean` with the same handles
  let rth : RThread := ⟨th.depth, th.hs, th.script, none⟩
  have h0 := start_owned rth c rest rfl
  have e1 : rth.owned = th.owned := by
    simp [rth, RThread.owned, OThread.owned, RThread.handles, OThread.handles, hc]
  have e2 : (unerase (c.start rth.erase rest)).owned = (ostart th c rest).owned := by
    have : rth.erase = th.base := rfl
    rw [this]
    simp only [unerase, ostart, RThread.owned, OThread.owned, RThread.handles, OThread.handles]
    cases (c.start th.base rest).cur with
    | none => rfl
    | some t => simp
  rw [e1, e2] at h0
  exact h0

/-- **ownership accounting of one thread step** -/
theorem OThread.step_acct (p : Policy) (st : St) (full : Bool) (th : OThread) (path : List Bool) :
    Acct th.owned (th.step .ok p st full path).2.owned
      (gainOf st.store (th.step .ok p st full path).1)
      (loseOf st.store (th.step .ok p st full path).1) := by
  cases hc : th.cur with
  | some t =>
    rcases res?_cases t with ⟨r, rfl⟩ | rfl | hr
    · simp only [OThread.step, hc, OTask.res?, OThread.owned, OThread.handles,
        filterMap_append_some, OTask.owned, gainOf, loseOf, List.append_nil]
      exact Acct.same _
    · simp only [OThread.step, hc, OTask.res?, OThread.owned, OThread.handles, OTask.owned,
        gainOf, loseOf, List.append_nil]
      apply Acct.of_eq
      simp [List.filterMap_append]
    · simp only [OThread.step, hc, hr, OThread.owned, OThread.handles]
      exact (OTask.step_acct p st full t path).right _
  | none =>
    cases hs : th.script with
    | nil =>
      simp only [OThread.step, hc, hs, gainOf, loseOf]
      exact Acct.same _
    | cons c rest =>
      simp only [OThread.step, hc, hs]
      rw [(startAct_gain st.store th.hs c).1, (startAct_gain st.store th.hs c).2]
      exact ostart_owned th c rest hc

/-- a thread step changes the counted references of the configuration by `gain - lose` -/
theorem oext_acct_set {l : List OThread} {tid : Nat} {th th' : OThread} {g lo : List Edge}
    (ht : l[tid]? = some th) (h : Acct th.owned th'.owned g lo) :
    Acct (l.flatMap OThread.owned) ((l.set tid th').flatMap OThread.owned) g lo := by
  intro x
  have h1 := count_flatMap_set OThread.owned l tid th th' ht x
  have h2 := count_le_flatMap OThread.owned ht x
  have := h x
  omega

end OxiddModel.Bdd.ROom
