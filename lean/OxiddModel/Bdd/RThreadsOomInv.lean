import OxiddModel.Bdd.RThreadsOomCount

/-!
# The per-task invariant of the machine with failing allocation, and its step theorem

`OTaskOK s t T n`: `Threads.TaskOK` (every edge the continuation relies on denotes a tree of its
*obligation* `T`, cache keys are keys for the obligation, the task finishes within `n` of its own
steps) extended to the error paths: a failing call (`fail ds`) satisfies every obligation — it will
deliver the error, not an edge — within `|ds|` steps, and the edges still to be released carry no
obligation (they are only counted references). The budgets are three times those of `Threads.lean`
(`OTaskOK.of_lift`): a `reduce` may be followed by two release steps (rejected children after a
unique-table hit, or after a failing `add_node`), a join by one.
`OBorrowOK`: the borrowed edges are reachable from the handles of the thread.

`OTask.step_ok`: every step — of a running call, of a branch of a `par` node while the other
branch has failed already, of an error path — performs an admissible action, keeps the
obligation, uses up one unit of the budget, keeps "every stored node denotes an ordered tree", and the action's precondition
(`ActPre`: what is retained / cached is stored) holds. The cases are discharged by the leaf
lemmas of `ThreadsStep.lean` (`entry_ok`, `expand_ok`, `reduce_ok`).
-/
namespace OxiddModel.Bdd.ROom
open OxiddModel.Bdd OxiddModel.Bdd.BDD OxiddModel.Bdd.Refine OxiddModel.Bdd.Threads
open OxiddModel.Bdd.RThreads
open OxiddModel.Bdd.Rc (RSt rcGet rcSet cloneEdge dropEdge RcInv)

/-! ## the invariant of a task -/

inductive OTaskOK (s : Store) : OTask → BDD → Nat → Prop
  | ret {r T n} : Denotes s r T → OTaskOK s (.ret r) T n
  | call {d c T n} (m : Nat) : CallDen s c T m → 3 * W m ≤ n → OTaskOK s (.call d c) T n
  | miss {d c key T n} (m : Nat) : MissDen s c T m → KeyDen s key T → 3 * (2 * W m + 4) ≤ n →
      OTaskOK s (.miss d c key) T n
  | seq1 {fr c0 t1 T n} (T1 T0 : BDD) (n1 m0 : Nat) : OTaskOK s t1 T1 n1 → CallDen s c0 T0 m0 →
      KeyDen s fr.key T → T = mk fr.lvl T1 T0 → n1 + 3 * W m0 + 9 ≤ n →
      OTaskOK s (.seq1 fr c0 t1) T n
  | seq0 {fr r1 t0 T n} (T1 T0 : BDD) (n0 : Nat) : Denotes s r1 T1 → OTaskOK s t0 T0 n0 →
      KeyDen s fr.key T → T = mk fr.lvl T1 T0 → n0 + 6 ≤ n → OTaskOK s (.seq0 fr r1 t0) T n
  | par {fr t1 t0 T n} (T1 T0 : BDD) (n1 n0 : Nat) : OTaskOK s t1 T1 n1 → OTaskOK s t0 T0 n0 →
      KeyDen s fr.key T → T = mk fr.lvl T1 T0 → n1 + n0 + 6 ≤ n → OTaskOK s (.par fr t1 t0) T n
  | made {key r ds T n} : Denotes s r T → KeyDen s key T → ds.length + 1 ≤ n →
      OTaskOK s (.made key r ds) T n
  /-- an error path owes nothing (but its pending releases) -/
  | fail {ds T n} : ds.length ≤ n → OTaskOK s (.fail ds) T n

/-- the budget may be increased -/
theorem OTaskOK.le {s : Store} {t : OTask} {T : BDD} {n n' : Nat} (h : OTaskOK s t T n)
    (hn : n ≤ n') : OTaskOK s t T n' := by
  cases h with
  | ret h => exact .ret h
  | call m h hw => exact .call m h (by omega)
  | miss m h hk hw => exact .miss m h hk (by omega)
  | seq1 T1 T0 n1 m0 h1 h0 hk hT hw => exact .seq1 T1 T0 n1 m0 h1 h0 hk hT (by omega)
  | seq0 T1 T0 n0 h1 h0 hk hT hw => exact .seq0 T1 T0 n0 h1 h0 hk hT (by omega)
  | par T1 T0 n1 n0 h1 h0 hk hT hw => exact .par T1 T0 n1 n0 h1 h0 hk hT (by omega)
  | made h hk hw => exact .made h hk (by omega)
  | fail hw => exact .fail (by omega)

/-- an unfinished task has a positive budget -/
theorem OTaskOK.pos {s : Store} {t : OTask} {T : BDD} {n : Nat} (h : OTaskOK s t T n)
    (hr : t.res? = none) : 1 ≤ n := by
  cases h with
  | ret h => simp [OTask.res?] at hr
  | call m h hw => have := W_pos m; omega
  | miss m h hk hw => omega
  | seq1 T1 T0 n1 m0 h1 h0 hk hT hw => omega
  | seq0 T1 T0 n0 h1 h0 hk hT hw => omega
  | par T1 T0 n1 n0 h1 h0 hk hT hw => omega
  | made h hk hw => omega
  | @fail ds _ _ hw =>
    cases ds with
    | nil => simp [OTask.res?] at hr
    | cons d ds => simp only [List.length_cons] at hw; omega

/-- **Stability**: the invariant survives every store change that keeps the denotations of the
edges the continuation relies on -/
theorem OTaskOK.stable {s s' : Store} {t : OTask} {T : BDD} {n : Nat} (h : OTaskOK s t T n)
    (hst : StableOn t.dheld s s') : OTaskOK s' t T n := by
  induction h with
  | ret h => exact .ret (hst _ (by simp [OTask.dheld]) _ h)
  | call m h hw => exact .call m (h.stable hst) hw
  | miss m h hk hw =>
    exact .miss m (h.stable (hst.subset fun e he => mem_append_l he))
      (hk.stable (hst.subset fun e he => mem_append_r he)) hw
  | seq1 T1 T0 n1 m0 _ h0 hk hT hw ih =>
    exact .seq1 T1 T0 n1 m0 (ih (hst.subset fun e he => mem_append_r (mem_append_r he)))
      (h0.stable (hst.subset fun e he => mem_append_r (mem_append_l he)))
      (hk.stable (hst.subset fun e he => mem_append_l he)) hT hw
  | seq0 T1 T0 n0 h1 _ hk hT hw ih =>
    exact .seq0 T1 T0 n0 (hst _ (mem_append_r List.mem_cons_self) _ h1)
      (ih (hst.subset fun e he => mem_append_r (List.mem_cons_of_mem _ he)))
      (hk.stable (hst.subset fun e he => mem_append_l he)) hT hw
  | par T1 T0 n1 n0 _ _ hk hT hw ih1 ih0 =>
    exact .par T1 T0 n1 n0 (ih1 (hst.subset fun e he => mem_append_r (mem_append_l he)))
      (ih0 (hst.subset fun e he => mem_append_r (mem_append_r he)))
      (hk.stable (hst.subset fun e he => mem_append_l he)) hT hw
  | made h hk hw =>
    exact .made (hst _ (by simp [OTask.dheld]) _ h)
      (hk.stable (hst.subset fun e he => List.mem_cons_of_mem _ he)) hw
  | fail hw => exact .fail hw

theorem OTaskOK.mono {s s' : Store} {t : OTask} {T : BDD} {n : Nat} (h : OTaskOK s t T n)
    (hle : s.Le s') : OTaskOK s' t T n := h.stable (StableOn.of_le hle)

/-- a task of `Threads.lean` that satisfies `TaskOK` satisfies `OTaskOK` in this machine -/
theorem OTaskOK.of_lift {s : Store} {t : Task} {T : BDD} {n : Nat} (h : TaskOK s t T n) :
    OTaskOK s (ofR (lift t)) T (3 * n) := by
  induction h with
  | ret h => exact .ret h
  | call m h hw => exact .call m h (by omega)
  | miss m h hk hw => exact .miss m h hk (by omega)
  | seq1 T1 T0 n1 m0 _ h0 hk hT hw ih => exact .seq1 T1 T0 _ m0 ih h0 hk hT (by omega)
  | seq0 T1 T0 n0 h1 _ hk hT hw ih => exact .seq0 T1 T0 _ h1 ih hk hT (by omega)
  | par T1 T0 n1 n0 _ _ hk hT hw ih1 ih0 => exact .par T1 T0 _ _ ih1 ih0 hk hT (by omega)
  | made h hk hw => exact .made h hk (by simp only [List.length_nil]; omega)

/-- the edges a continuation relies on point to stored nodes -/
theorem OTaskOK.dheld_has {s : Store} {t : OTask} {T : BDD} {n : Nat} (h : OTaskOK s t T n) :
    ∀ e, e ∈ t.dheld → s.has e := by
  induction h with
  | ret hd =>
    intro e he
    simp only [OTask.dheld, List.mem_cons, List.not_mem_nil, or_false] at he
    subst he; exact has_of_denotes hd
  | call m hc _ => exact CallDen.has hc
  | miss m hm hk _ =>
    intro e he
    rcases List.mem_append.mp he with h1 | h1
    · exact MissDen.has hm e h1
    · exact KeyDen.has hk e h1
  | seq1 T1 T0 n1 m0 _ h0 hk _ _ ih =>
    intro e he
    simp only [OTask.dheld, List.mem_append] at he
    rcases he with h1 | h1 | h1
    · exact KeyDen.has hk e h1
    · exact CallDen.has h0 e h1
    · exact ih e h1
  | seq0 T1 T0 n0 h1 _ hk _ _ ih =>
    intro e he
    simp only [OTask.dheld, List.mem_append, List.mem_cons] at he
    rcases he with h2 | h2 | h2
    · exact KeyDen.has hk e h2
    · subst h2; exact has_of_denotes h1
    · exact ih e h2
  | par T1 T0 n1 n0 _ _ hk _ _ ih1 ih0 =>
    intro e he
    simp only [OTask.dheld, List.mem_append] at he
    rcases he with h2 | h2 | h2
    · exact KeyDen.has hk e h2
    · exact ih1 e h2
    · exact ih0 e h2
  | made hd hk _ =>
    intro e he
    simp only [OTask.dheld, List.mem_cons] at he
    rcases he with h2 | h2
    · subst h2; exact has_of_denotes hd
    · exact KeyDen.has hk e h2
  | fail _ => intro e he; cases he

/-- every edge a task holds is one it relies on or one it owns -/
theorem held_sub (t : OTask) : ∀ e, e ∈ t.held → e ∈ t.dheld ∨ e ∈ t.owned := by
  induction t with
  | call d c => intro e h; exact .inl h
  | miss d c key => intro e h; exact .inl h
  | ret r => intro e h; exact .inl h
  | fail ds => intro e h; exact .inr h
  | made key r ds =>
    intro e h
    simp only [OTask.held, List.mem_cons, List.mem_append] at h
    rcases h with h | h | h
    · exact .inl (by simp [OTask.dheld, h])
    · exact .inl (by simp [OTask.dheld, h])
    · exact .inr (by simp [OTask.owned, h])
  | seq1 fr c0 t1 ih =>
    intro e h
    simp only [OTask.held, List.mem_append] at h
    rcases h with h | h | h
    · exact .inl (by simp [OTask.dheld, h])
    · exact .inl (by simp [OTask.dheld, h])
    · rcases ih e h with h1 | h1
      · exact .inl (by simp [OTask.dheld, h1])
      · exact .inr h1
  | seq0 fr r1 t0 ih =>
    intro e h
    simp only [OTask.held, List.mem_append, List.mem_cons] at h
    rcases h with h | h | h
    · exact .inl (by simp [OTask.dheld, h])
    · exact .inl (by simp [OTask.dheld, h])
    · rcases ih e h with h1 | h1
      · exact .inl (by simp [OTask.dheld, h1])
      · exact .inr (by simp [OTask.owned, h1])
  | par fr t1 t0 ih1 ih0 =>
    intro e h
    simp only [OTask.held, List.mem_append] at h
    rcases h with h | h | h
    · exact .inl (by simp [OTask.dheld, h])
    · rcases ih1 e h with h1 | h1
      · exact .inl (by simp [OTask.dheld, h1])
      · exact .inr (by simp [OTask.owned, h1])
    · rcases ih0 e h with h1 | h1
      · exact .inl (by simp [OTask.dheld, h1])
      · exact .inr (by simp [OTask.owned, h1])

/-! ## borrowed edges -/

def OBorrowOK (s : Store) (H : List Edge) : OTask → Prop
  | .call _ c => ∀ e, e ∈ c.edges → Reach s H e
  | .miss _ c key => (∀ e, e ∈ c.edges → Reach s H e) ∧ (∀ e, e ∈ key.2 → Reach s H e)
  | .seq1 fr c0 t1 =>
    (∀ e, e ∈ fr.key.2 → Reach s H e) ∧ (∀ e, e ∈ c0.edges → Reach s H e) ∧ OBorrowOK s H t1
  | .seq0 fr _ t0 => (∀ e, e ∈ fr.key.2 → Reach s H e) ∧ OBorrowOK s H t0
  | .par fr t1 t0 => (∀ e, e ∈ fr.key.2 → Reach s H e) ∧ OBorrowOK s H t1 ∧ OBorrowOK s H t0
  | .made key _ _ => ∀ e, e ∈ key.2 → Reach s H e
  | .ret _ => True
  | .fail _ => True

theorem OBorrowOK.map {s s' : Store} {H : List Edge} (hr : ∀ e, Reach s H e → Reach s' H e)
    {t : OTask} (h : OBorrowOK s H t) : OBorrowOK s' H t := by
  induction t with
  | call d c => exact fun e he => hr e (h e he)
  | miss d c key => exact ⟨fun e he => hr e (h.1 e he), fun e he => hr e (h.2 e he)⟩
  | seq1 fr c0 t1 ih =>
    exact ⟨fun e he => hr e (h.1 e he), fun e he => hr e (h.2.1 e he), ih h.2.2⟩
  | seq0 fr r1 t0 ih => exact ⟨fun e he => hr e (h.1 e he), ih h.2⟩
  | par fr t1 t0 ih1 ih0 => exact ⟨fun e he => hr e (h.1 e he), ih1 h.2.1, ih0 h.2.2⟩
  | made key r ds => exact fun e he => hr e (h e he)
  | ret r => trivial
  | fail ds => trivial

theorem OBorrowOK.mono {s s' : Store} {H : List Edge} {t : OTask} (h : OBorrowOK s H t)
    (hle : s.Le s') : OBorrowOK s' H t := h.map fun _ hr => hr.mono hle

theorem OBorrowOK.of_lift {s : Store} {H : List Edge} {t : Task} (h : BorrowOK s H t) :
    OBorrowOK s H (ofR (lift t)) := by
  induction t with
  | call d c => exact h
  | miss d c key => exact h
  | seq1 fr c0 t1 ih => exact ⟨h.1, h.2.1, ih h.2.2⟩
  | seq0 fr r1 t0 ih => exact ⟨h.1, ih h.2⟩
  | par fr t1 t0 ih1 ih0 => exact ⟨h.1, ih1 h.2.1, ih0 h.2.2⟩
  | made key r => exact h
  | ret r => trivial

/-- every edge a continuation relies on is owned by it or reachable from the thread's handles -/
theorem OBorrowOK.held {s : Store} {H : List Edge} {t : OTask} (h : OBorrowOK s H t) :
    ∀ e, e ∈ t.dheld → e ∈ t.owned ∨ Reach s H e := by
  induction t with
  | call d c => exact fun e he => .inr (h e he)
  | miss d c key =>
    intro e he
    rcases List.mem_append.mp he with h1 | h1
    · exact .inr (h.1 e h1)
    · exact .inr (h.2 e h1)
  | seq1 fr c0 t1 ih =>
    intro e he
    simp only [OTask.dheld, List.mem_append] at he
    rcases he with h1 | h1 | h1
    · exact .inr (h.1 e h1)
    · exact .inr (h.2.1 e h1)
    · exact ih h.2.2 e h1
  | seq0 fr r1 t0 ih =>
    intro e he
    simp only [OTask.dheld, List.mem_append, List.mem_cons] at he
    rcases he with h1 | h1 | h1
    · exact .inr (h.1 e h1)
    · exact .inl (by simp [OTask.owned, h1])
    · rcases ih h.2 e h1 with h2 | h2
      · exact .inl (by simp [OTask.owned, h2])
      · exact .inr h2
  | par fr t1 t0 ih1 ih0 =>
    intro e he
    simp only [OTask.dheld, List.mem_append] at he
    rcases he with h1 | h1 | h1
    · exact .inr (h.1 e h1)
    · rcases ih1 h.2.1 e h1 with h2 | h2
      · exact .inl (by simp [OTask.owned, h2])
      · exact .inr h2
    · rcases ih0 h.2.2 e h1 with h2 | h2
      · exact .inl (by simp [OTask.owned, h2])
      · exact .inr h2
  | made key r ds =>
    intro e he
    simp only [OTask.dheld, List.mem_cons] at he
    rcases he with h1 | h1
    · exact .inl (by simp [OTask.owned, h1])
    · exact .inr (h e h1)
  | ret r =>
    intro e he
    simp only [OTask.dheld, List.mem_cons, List.not_mem_nil, or_false] at he
    exact .inl (by simp [OTask.owned, he])
  | fail ds => intro e he; cases he

/-! ## facts about `rentry`, `rexpand`, `rreduce` -/

theorem rentry_snd (p : Policy) (st : St) (d : Nat) (c : Call) :
    (rentry p st d c).2 = lift (c.entry p st d).2 := by
  unfold rentry
  cases ht : (c.entry p st d).2 <;> simp [ht, lift]

theorem rexpand_snd (s : Store) (d : Nat) (key : Key) (c : Call) :
    (rexpand s d key c).2 = lift (c.expand s d key) := by
  unfold rexpand
  cases ht : c.expand s d key <;> simp [ht, lift]

theorem rreduce_fst (st : St) (fr : Frame) (r1 r0 : Edge) :
    (rreduce st fr r1 r0).1 = .mk fr.lvl r1 r0 := by
  unfold rreduce
  split
  · rfl
  · split <;> rfl

theorem rreduce_made (st : St) (fr : Frame) (r1 r0 : Edge) :
    ∃ ds, (rreduce st fr r1 r0).2 = .made fr.key (st.store.mkNode fr.lvl r1 r0).2 ds ∧
      ds.length ≤ 2 := by
  unfold rreduce Store.mkNode
  by_cases h : r1 = r0
  · simp [h]
  · simp only [h, if_false]
    cases st.store.find? ⟨fr.lvl, r1, r0⟩ <;> simp

/-- the actions of a call's entry do not change the store -/
theorem entry_store (p : Policy) (st : St) (d : Nat) (c : Call) :
    (runOpt (c.entry p st d).1 st).store = st.store := by
  rcases entry_act p st d c with h | h <;> rw [h] <;> rfl

/-! ## what a step achieves -/

structure OStepOK (st : St) (o : OOut) (T : BDD) (n : Nat) : Prop where
  /-- the action (seen without counters) is admissible and not a collection -/
  act : ActOK st o.1.erase
  /-- the task's invariant afterwards: same obligation, one step less -/
  ok : OTaskOK (runOpt o.1.erase st).store o.2 T n
  /-- what the action retains / caches is stored -/
  pre : ActPre st.store o.1
  /-- a node created by the action denotes an ordered tree -/
  ord : AllOrd st.store → AllOrd (runOpt o.1.erase st).store

theorem OStepOK.local {st : St} {t : OTask} {T : BDD} {n : Nat} (h : OTaskOK st.store t T n) :
    OStepOK st (.skip, t) T n := ⟨ActOK.none st, h, trivial, fun h => h⟩

theorem OStepOK.release {st : St} {t : OTask} {T : BDD} {n : Nat} (d : Edge)
    (h : OTaskOK st.store t T n) :
    OStepOK st (.release d, t) T n := ⟨ActOK.none st, h, trivial, fun h => h⟩

theorem OStepOK.le {st : St} {o : OOut} {T : BDD} {n : Nat} (h : OStepOK st o T n) :
    st.store.Le (runOpt o.1.erase st).store := h.act.le

theorem oentry_ok {p : Policy} (pok : p.OK) {st : St} (hinv : Inv st) (d : Nat) (c : Call)
    {T : BDD} {m n : Nat} (h : CallDen st.store c T m) (hw : 3 * W m ≤ n + 1) :
    OStepOK st ((rentry p st d c).1, ofR (rentry p st d c).2) T n := by
  have S := entry_ok (n := W m - 1) pok hinv d c h (by have := W_pos m; omega)
  have he := rentry_erase p st d c
  refine ⟨?_, ?_, ?_, ?_⟩
  · show ActOK st (rentry p st d c).1.erase
    rw [he.2]; exact S.act
  · show OTaskOK (runOpt (rentry p st d c).1.erase st).store (ofR (rentry p st d c).2) T n
    rw [he.2, rentry_snd]; exact (OTaskOK.of_lift S.ok).le (by have := W_pos m; omega)
  · show ActPre st.store (rentry p st d c).1
    refine RTask.step_pre pok st st.store (.call d c) [] (fun e hm => ?_)
    have hh := TaskOK.held_has S.ok
    rw [entry_store] at hh
    apply hh
    have : ((RTask.call d c).step p st []).2.erase = (c.entry p st d).2 := he.1
    rw [this] at hm
    exact hm
  · intro ho
    show AllOrd (runOpt (rentry p st d c).1.erase st).store
    rw [he.2, entry_store]; exact ho

theorem oexpand_ok {p : Policy} (pok : p.OK) {st : St} (d : Nat) (key : Key) (c : Call) {T : BDD}
    {m n : Nat} (hm : MissDen st.store c T m) (hk : KeyDen st.store key T)
    (hw : 3 * (2 * W m + 4) ≤ n + 1) :
    OStepOK st ((rexpand st.store d key c).1, ofR (rexpand st.store d key c).2) T n := by
  have S := expand_ok d key c hm hk
  have he := rexpand_erase st.store d key c
  refine ⟨?_, ?_, ?_, ?_⟩
  · show ActOK st (rexpand st.store d key c).1.erase
    rw [he.2]; exact ActOK.none st
  · show OTaskOK (runOpt (rexpand st.store d key c).1.erase st).store
      (ofR (rexpand st.store d key c).2) T n
    rw [he.2, rexpand_snd]; exact (OTaskOK.of_lift S).le (by omega)
  · show ActPre st.store (rexpand st.store d key c).1
    refine RTask.step_pre (p := p) pok st st.store (.miss d c key) [] (fun e hm' => ?_)
    apply TaskOK.held_has S
    have : ((RTask.miss d c key).step p st []).2.erase = c.expand st.store d key := he.1
    rw [this] at hm'
    exact hm'
  · intro ho
    show AllOrd (runOpt (rexpand st.store d key c).1.erase st).store
    rw [he.2]; exact ho

theorem oreduce_ok {st : St} (hinv : Inv st) (full : Bool) (fr : Frame) {r1 r0 : Edge}
    {T1 T0 T : BDD} (h1 : Denotes st.store r1 T1) (h0 : Denotes st.store r0 T0)
    (hk : KeyDen st.store fr.key T) (hT : T = mk fr.lvl T1 T0) {n : Nat} (hn : 3 ≤ n) :
    OStepOK st (oreduce .ok full st fr r1 r0) T n := by
  unfold oreduce
  split
  · exact OStepOK.local (.fail (by simp; omega))
  · have S := reduce_ok (n := 1) hinv fr h1 h0 hk hT (Nat.le_refl _)
    have he := rreduce_erase st fr r1 r0
    obtain ⟨ds, hds, hlen⟩ := rreduce_made st fr r1 r0
    refine ⟨?_, ?_, ?_, ?_⟩
    · show ActOK st (rreduce st fr r1 r0).1.erase
      rw [he.2]; exact S.act
    · show OTaskOK (runOpt (rreduce st fr r1 r0).1.erase st).store (ofR (rreduce st fr r1 r0).2) T n
      rw [he.2, hds]
      have := S.ok
      simp only [reduceOut] at this ⊢
      cases this with
      | made hd hk' _ => exact .made hd hk' (by omega)
    · show ActPre st.store (rreduce st fr r1 r0).1
      rw [rreduce_fst]; trivial
    · intro ho
      show AllOrd (runOpt (rreduce st fr r1 r0).1.erase st).store
      rw [rreduce_fst]
      show AllOrd (st.store.mkNode fr.lvl r1 r0).1
      unfold Store.mkNode
      by_cases hre : r1 = r0
      · simp only [hre, if_true]; exact ho
      · simp only [hre, if_false]
        cases st.store.find? ⟨fr.lvl, r1, r0⟩ with
        | some i => exact ho
        | none => exact ho.mk hinv.1 hre h1 h0 (hT ▸ hk)

/-! ## the step theorem -/

/-- **One step of a task** — running, joining, or on an error path: the obligation is kept, one
unit of the budget is used up, the action is admissible and acts on stored nodes only. -/
theorem OTask.step_ok {p : Policy} (pok : p.OK) {st : St} (hinv : Inv st) (full : Bool) (t : OTask) :
    ∀ (path : List Bool) (T : BDD) (n : Nat), OTaskOK st.store t T (n + 1) → t.res? = none →
      OStepOK st (t.step .ok p st full path) T n := by
  induction t with
  | ret r => intro _ T n h hr; simp [OTask.res?] at hr
  | fail ds =>
    intro _ T n h hr
    cases ds with
    | nil => simp [OTask.res?] at hr
    | cons d ds =>
      cases h with
      | fail hw =>
        simp only [List.length_cons] at hw
        exact OStepOK.release d (.fail (by omega))
  | call d c =>
    intro _ T n h _
    cases h with
    | call m hc hw => exact oentry_ok pok hinv d c hc hw
  | miss d c key =>
    intro _ T n h _
    cases h with
    | miss m hm hk hw => exact oexpand_ok pok d key c hm hk hw
  | made key r ds =>
    intro _ T n h _
    cases h with
    | made hd hk hw =>
      cases ds with
      | cons d ds =>
        simp only [List.length_cons] at hw
        exact OStepOK.release d (.made hd hk (by omega))
      | nil =>
        obtain ⟨ts, hds, hs⟩ := hk
        exact ⟨fun a ha => by cases ha; exact ⟨⟨pok, ts, T, hds, hs, hd⟩, trivial⟩, .ret hd,
          ⟨pok, has_of_denotes hd⟩, fun h => h⟩
  | seq1 fr c0 t1 ih =>
    intro path T n h _
    cases h with
    | seq1 T1 T0 n1 m0 h1 h0 hk hT hw =>
      rcases res?_cases t1 with ⟨r1, rfl⟩ | rfl | hr
      · cases h1 with
        | ret hd =>
          simp only [OTask.step, OTask.res?]
          exact OStepOK.local (.seq0 T1 T0 (3 * W m0) hd (.call m0 h0 (Nat.le_refl _)) hk hT
            (by omega))
      · simp only [OTask.step, OTask.res?]
        exact OStepOK.local (.fail (by simp))
      · simp only [OTask.step, hr]
        have hp := h1.pos hr
        obtain ⟨n1', rfl⟩ : ∃ k, n1 = k + 1 := ⟨n1 - 1, by omega⟩
        have S := ih path T1 n1' h1 hr
        have hle := S.le
        exact ⟨S.act, .seq1 T1 T0 n1' m0 S.ok (h0.mono hle) (hk.mono hle) hT (by omega), S.pre,
          S.ord⟩
  | seq0 fr r1 t0 ih =>
    intro path T n h _
    cases h with
    | seq0 T1 T0 n0 h1 h0 hk hT hw =>
      rcases res?_cases t0 with ⟨r0, rfl⟩ | rfl | hr
      · cases h0 with
        | ret hd =>
          simp only [OTask.step, OTask.res?]
          exact oreduce_ok hinv full fr h1 hd hk hT (by omega)
      · simp only [OTask.step, OTask.res?]
        exact OStepOK.local (.fail (by simp; omega))
      · simp only [OTask.step, hr]
        have hp := h0.pos hr
        obtain ⟨n0', rfl⟩ : ∃ k, n0 = k + 1 := ⟨n0 - 1, by omega⟩
        have S := ih path T0 n0' h0 hr
        have hle := S.le
        exact ⟨S.act, .seq0 T1 T0 n0' (h1.mono hle) S.ok (hk.mono hle) hT (by omega), S.pre, S.ord⟩
  | par fr t1 t0 ih1 ih0 =>
    intro path T n h _
    cases h with
    | par T1 T0 n1 n0 h1 h0 hk hT hw =>
      have left : t1.res? = none → OStepOK st
          ((t1.step .ok p st full path.tail).1, .par fr (t1.step .ok p st full path.tail).2 t0) T n := by
        intro hr
        have hp := h1.pos hr
        obtain ⟨n1', rfl⟩ : ∃ k, n1 = k + 1 := ⟨n1 - 1, by omega⟩
        have S := ih1 path.tail T1 n1' h1 hr
        have hle := S.le
        exact ⟨S.act, .par T1 T0 n1' n0 S.ok (h0.mono hle) (hk.mono hle) hT (by omega), S.pre, S.ord⟩
      have right : t0.res? = none → OStepOK st
          ((t0.step .ok p st full path.tail).1, .par fr t1 (t0.step .ok p st full path.tail).2) T n := by
        intro hr
        have hp := h0.pos hr
        obtain ⟨n0', rfl⟩ : ∃ k, n0 = k + 1 := ⟨n0 - 1, by omega⟩
        have S := ih0 path.tail T0 n0' h0 hr
        have hle := S.le
        exact ⟨S.act, .par T1 T0 n1 n0' (h1.mono hle) S.ok (hk.mono hle) hT (by omega), S.pre, S.ord⟩
      cases hr1 : t1.res? with
      | some a =>
        cases hr0 : t0.res? with
        | some b =>
          simp only [OTask.step, hr1, hr0]
          cases a with
          | none => cases b <;> exact OStepOK.local (.fail (by simp [joinErr] <;> omega))
          | some r1 =>
            cases b with
            | none => exact OStepOK.local (.fail (by simp [joinErr] <;> omega))
            | some r0 =>
              have e1 := res?_ok hr1
              have e0 := res?_ok hr0
              subst e1 e0
              cases h1 with
              | ret hd1 =>
                cases h0 with
                | ret hd0 => exact oreduce_ok hinv full fr hd1 hd0 hk hT (by omega)
        | none =>
          simp only [OTask.step, hr1, hr0, opick, Bool.false_eq_true, if_false]
          exact right hr0
      | none =>
        cases hr0 : t0.res? with
        | some b =>
          simp only [OTask.step, hr1, hr0, opick, if_true]
          exact left hr1
        | none =>
          simp only [OTask.step, hr1, hr0, opick]
          split
          · exact left hr1
          · exact right hr0

/-! ## borrowed edges stay reachable -/

theorem oreduce_borrow {s' : Store} {H : List Edge} (full : Bool) (st : St) (fr : Frame)
    (r1 r0 : Edge) (hk : ∀ e, e ∈ fr.key.2 → Reach s' H e) :
    OBorrowOK s' H (oreduce .ok full st fr r1 r0).2 := by
  unfold oreduce
  split
  · trivial
  · obtain ⟨ds, hds, _⟩ := rreduce_made st fr r1 r0
    simp only [hds, ofR]
    exact hk

/-- **One step of a task keeps its borrowed edges reachable from the handles.** -/
theorem OTask.step_borrow {p : Policy} {st : St} {H : List Edge} (full : Bool) (t : OTask) :
    ∀ (path : List Bool), OBorrowOK st.store H t →
      st.store.Le (runOpt (t.step .ok p st full path).1.erase st).store →
      OBorrowOK (runOpt (t.step .ok p st full path).1.erase st).store H
        (t.step .ok p st full path).2 := by
  induction t with
  | ret r => intro _ _ _; trivial
  | fail ds => intro _ _ _; cases ds <;> trivial
  | call d c =>
    intro path h hle
    simp only [OTask.step] at hle ⊢
    rw [rentry_snd]
    exact (OBorrowOK.of_lift (entry_borrow p st d c h)).mono hle
  | miss d c key =>
    intro path h hle
    simp only [OTask.step] at hle ⊢
    rw [rexpand_snd]
    exact (OBorrowOK.of_lift (expand_borrow d key c h.1 h.2)).mono hle
  | made key r ds =>
    intro _ h hle
    cases ds with
    | nil => trivial
    | cons d ds => exact fun e he => (h e he).mono hle
  | seq1 fr c0 t1 ih =>
    intro path h hle
    rcases res?_cases t1 with ⟨r1, rfl⟩ | rfl | hr
    · simp only [OTask.step, OTask.res?]
      exact ⟨h.1, h.2.1⟩
    · simp only [OTask.step, OTask.res?]; trivial
    · simp only [OTask.step, hr] at hle ⊢
      exact ⟨fun e he => (h.1 e he).mono hle, fun e he => (h.2.1 e he).mono hle,
        ih path h.2.2 hle⟩
  | seq0 fr r1 t0 ih =>
    intro path h hle
    rcases res?_cases t0 with ⟨r0, rfl⟩ | rfl | hr
    · simp only [OTask.step, OTask.res?] at hle ⊢
      exact oreduce_borrow full st fr r1 r0 (fun e he => (h.1 e he).mono hle)
    · simp only [OTask.step, OTask.res?]; trivial
    · simp only [OTask.step, hr] at hle ⊢
      exact ⟨fun e he => (h.1 e he).mono hle, ih path h.2 hle⟩
  | par fr t1 t0 ih1 ih0 =>
    intro path h hle
    have left : (OTask.par fr t1 t0).step .ok p st full path =
        ((t1.step .ok p st full path.tail).1, .par fr (t1.step .ok p st full path.tail).2 t0) →
        OBorrowOK (runOpt ((OTask.par fr t1 t0).step .ok p st full path).1.erase st).store H
          ((OTask.par fr t1 t0).step .ok p st full path).2 := by
      intro e
      rw [e] at hle ⊢
      exact ⟨fun e he => (h.1 e he).mono hle, ih1 path.tail h.2.1 hle, h.2.2.mono hle⟩
    have right : (OTask.par fr t1 t0).step .ok p st full path =
        ((t0.step .ok p st full path.tail).1, .par fr t1 (t0.step .ok p st full path.tail).2) →
        OBorrowOK (runOpt ((OTask.par fr t1 t0).step .ok p st full path).1.erase st).store H
          ((OTask.par fr t1 t0).step .ok p st full path).2 := by
      intro e
      rw [e] at hle ⊢
      exact ⟨fun e he => (h.1 e he).mono hle, h.2.1.mono hle, ih0 path.tail h.2.2 hle⟩
    cases hr1 : t1.res? with
    | some a =>
      cases hr0 : t0.res? with
      | some b =>
        simp only [OTask.step, hr1, hr0] at hle ⊢
        cases a with
        | none => cases b <;> trivial
        | some r1 =>
          cases b with
          | none => trivial
          | some r0 =>
            exact oreduce_borrow full st fr r1 r0 (fun e he => (h.1 e he).mono hle)
      | none => exact right (by simp [OTask.step, hr1, hr0, opick])
    | none =>
      cases hr0 : t0.res? with
      | some b => exact left (by simp [OTask.step, hr1, hr0, opick])
      | none =>
        cases hp : path.headD true with
        | true => exact left (by simp only [OTask.step, hr1, hr0, opick, hp, if_true])
        | false =>
          exact right (by simp only [OTask.step, hr1, hr0, opick, hp, Bool.false_eq_true, if_false])

end OxiddModel.Bdd.ROom
