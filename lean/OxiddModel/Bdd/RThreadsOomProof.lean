import OxiddModel.Bdd.RThreadsOomInv

/-!
# The invariant of the machine with failing allocation, kept by every step of every schedule

`OGInv c F B`:
* `inv` — `Unique ∧ CacheOK` of the shared state; `gcc` — the cache is empty while a phased
  collection is going on;
* `rc` — `RcInv c.rst c.ext`: for every stored node
  `rc = 1 + (occurrences among all counted references of all threads, edges still to be released on
  error paths included) + (stored parent edges)`;
* `ord` — every stored node denotes an ordered tree;
* `thr` — every thread: its handles denote trees `ts`, its running operation satisfies `OTaskOK`
  for an obligation `T`, the borrowed edges are reachable from its handles, and — **whatever the
  outcomes (`Ok` / `OutOfMemory`) of the running and of all future operations are** — executing the
  rest of the script on trees from `ts` yields the thread's specification `F` for the outcome list
  `log ++ outcomes` (`F fs = evalScriptF script₀ fs ts₀`, fixed at the start); `B i` bounds the
  number of own steps thread `i` still needs, for every pattern of failures (`sbF`).

`OCfg.step_oginv`: every step — of any thread along any `par` path with any allocation outcome
(succeeding, failing by the scheduler's choice, failing because the store is full), `gcBegin`, the
counter-driven sweep of any level, `gcEnd` — keeps `OGInv`, and the acting thread's budget
decreases. `OCfg.run_oginv`: so does every schedule; a thread that is not finished has used up one
unit of its budget for every time it was selected.
-/
namespace OxiddModel.Bdd.ROom
open OxiddModel.Bdd OxiddModel.Bdd.BDD OxiddModel.Bdd.Refine OxiddModel.Bdd.Threads
open OxiddModel.Bdd.RThreads
open OxiddModel.Bdd.Rc (RSt rcGet rcSet cloneEdge dropEdge RcInv)

/-! ## the invariant of a thread -/

/-- the edges whose denotation the thread relies on -/
def OThread.dheld (th : OThread) : List Edge :=
  th.handles ++ (match th.cur with | some t => t.dheld | none => [])

/-- **the step bound of a thread under failures**: own steps needed at most to execute the script
from handles denoting `ts`, whatever operations fail — a function of the script and the operand
*trees* only (three machine steps per step of `Threads.lean`: a `reduce` may be followed by two
releases) -/
def sbF : List Threads.Cmd → List (Option BDD) → Nat
  | [], _ => 0
  | c :: cs, ts =>
    1 + 3 * cmdCost ts c + max (sbF cs (evalCmdF ts c false)) (sbF cs (evalCmdF ts c true))

def OThreadInv (s : Store) (th : OThread) (F : List Bool → List (Option BDD)) (N : Nat) : Prop :=
  ∃ ts, HsDen s th.hs ts ∧
    match th.cur with
    | none => (∀ fs, evalScriptF th.script fs ts = F (th.log ++ fs)) ∧ sbF th.script ts ≤ N
    | some t => ∃ T n, OTaskOK s t T n ∧
        (∀ fs, evalScriptF th.script fs (ts ++ [some T]) = F (th.log ++ false :: fs)) ∧
        (∀ fs, evalScriptF th.script fs (ts ++ [none]) = F (th.log ++ true :: fs)) ∧
        n + 1 + max (sbF th.script (ts ++ [some T])) (sbF th.script (ts ++ [none])) ≤ N

def OThreadCov (s : Store) (th : OThread) : Prop :=
  match th.cur with
  | none => True
  | some t => OBorrowOK s th.handles t

theorem OThreadInv.stable {s s' : Store} {th : OThread} {F : List Bool → List (Option BDD)}
    {N : Nat} (h : OThreadInv s th F N) (hst : StableOn th.dheld s s') : OThreadInv s' th F N := by
  obtain ⟨ts, hhs, hcur⟩ := h
  have hhs' : HsDen s' th.hs ts := hhs.stable (hst.subset fun e he => mem_append_l he)
  refine ⟨ts, hhs', ?_⟩
  cases hc : th.cur with
  | none => rw [hc] at hcur; exact hcur
  | some t =>
    rw [hc] at hcur
    obtain ⟨T, n, hok, hF⟩ := hcur
    refine ⟨T, n, hok.stable (hst.subset fun e he => ?_), hF⟩
    unfold OThread.dheld
    rw [hc]
    exact mem_append_r he

theorem OThreadInv.mono {s s' : Store} {th : OThread} {F : List Bool → List (Option BDD)}
    {N : Nat} (h : OThreadInv s th F N) (hle : s.Le s') : OThreadInv s' th F N :=
  h.stable (StableOn.of_le hle)

theorem OThreadCov.map {s s' : Store} {th : OThread}
    (hr : ∀ e, Reach s th.handles e → Reach s' th.handles e) (h : OThreadCov s th) :
    OThreadCov s' th := by
  unfold OThreadCov at *
  cases hc : th.cur with
  | none => trivial
  | some t => rw [hc] at h; exact h.map hr

/-! ## issuing a command -/

/-- what issuing a command does, on handles and on trees: either it completes at once (the
specification does not depend on the outcome flag), or an operation with obligation `T` starts -/
theorem start_cases {s : Store} (th : Thread) (c : Threads.Cmd) (rest : List Threads.Cmd)
    (ts : List (Option BDD)) (hhs : HsDen s th.hs ts) (hc : th.cur = none) :
    ((c.start th rest).cur = none ∧ (c.start th rest).script = rest ∧
      HsDen s (c.start th rest).hs (evalCmd ts c) ∧ evalCmdF ts c true = evalCmd ts c) ∨
    (∃ t T n, (c.start th rest).cur = some t ∧ (c.start th rest).script = rest ∧
      (c.start th rest).hs = th.hs ∧ TaskOK s t T n ∧ evalCmd ts c = ts ++ [some T] ∧
      evalCmdF ts c true = ts ++ [none] ∧ cmdCost ts c = n + 1) := by
  cases c with
  | not i =>
    cases h1 : hget th.hs i with
    | none =>
      have t1 := hhs.dead h1
      refine .inl ?_
      simp only [Cmd.start, h1, evalCmd, evalCmdF, t1, if_true]
      exact ⟨hc, trivial, hhs, trivial⟩
    | some f =>
      obtain ⟨a, t1, d1⟩ := hhs.live h1
      refine .inr ⟨.call th.depth (.not f), applyNot a, W a.size, ?_⟩
      simp only [Cmd.start, h1, evalCmd, evalCmdF, cmdCost, t1, if_true]
      exact ⟨trivial, trivial, trivial, .call a.size ⟨a, d1, rfl, Nat.le_refl _⟩ (Nat.le_refl _),
        trivial, trivial, trivial⟩
  | bin op i j =>
    cases h1 : hget th.hs i with
    | none =>
      have t1 := hhs.dead h1
      refine .inl ?_
      simp only [Cmd.start, h1, evalCmd, evalCmdF, t1, if_true]
      exact ⟨hc, trivial, hhs, trivial⟩
    | some f =>
      obtain ⟨a, t1, d1⟩ := hhs.live h1
      cases h2 : hget th.hs j with
      | none =>
        have t2 := hhs.dead h2
        refine .inl ?_
        simp only [Cmd.start, h1, h2, evalCmd, evalCmdF, t1, t2, if_true]
        exact ⟨hc, trivial, hhs, trivial⟩
      | some g =>
        obtain ⟨b, t2, d2⟩ := hhs.live h2
        refine .inr ⟨.call th.depth (.bin op f g), applyBin op a b, W (a.size + b.size), ?_⟩
        simp only [Cmd.start, h1, h2, evalCmd, evalCmdF, cmdCost, t1, t2, if_true]
        exact ⟨trivial, trivial, trivial, .call _ ⟨a, b, d1, d2, rfl, Nat.le_refl _⟩ (Nat.le_refl _),
          trivial, trivial, trivial⟩
  | ite i j k =>
    cases h1 : hget th.hs i with
    | none =>
      have t1 := hhs.dead h1
      refine .inl ?_
      simp only [Cmd.start, h1, evalCmd, evalCmdF, t1, if_true]
      exact ⟨hc, trivial, hhs, trivial⟩
    | some f =>
      obtain ⟨a, t1, d1⟩ := hhs.live h1
      cases h2 : hget th.hs j with
      | none =>
        have t2 := hhs.dead h2
        refine .inl ?_
        simp only [Cmd.start, h1, h2, evalCmd, evalCmdF, t1, t2, if_true]
        exact ⟨hc, trivial, hhs, trivial⟩
      | some g =>
        obtain ⟨b, t2, d2⟩ := hhs.live h2
        cases h3 : hget th.hs k with
        | none =>
          have t3 := hhs.dead h3
          refine .inl ?_
          simp only [Cmd.start, h1, h2, h3, evalCmd, evalCmdF, t1, t2, t3, if_true]
          exact ⟨hc, trivial, hhs, trivial⟩
        | some h =>
          obtain ⟨c, t3, d3⟩ := hhs.live h3
          refine .inr ⟨.call th.depth (.ite f g h), applyIte a b c, W (a.size + b.size + c.size), ?_⟩
          simp only [Cmd.start, h1, h2, h3, evalCmd, evalCmdF, cmdCost, t1, t2, t3, if_true]
          exact ⟨trivial, trivial, trivial,
            .call _ ⟨a, b, c, d1, d2, d3, rfl, Nat.le_refl _⟩ (Nat.le_refl _), trivial, trivial,
            trivial⟩
  | clone i =>
    refine .inl ?_
    cases h1 : hget th.hs i with
    | none =>
      have t1 := hhs.dead h1
      simp only [Cmd.start, h1, evalCmd, evalCmdF, t1, if_true]
      exact ⟨hc, trivial, hhs, trivial⟩
    | some f =>
      obtain ⟨a, t1, d1⟩ := hhs.live h1
      simp only [Cmd.start, h1, evalCmd, evalCmdF, t1, if_true]
      exact ⟨hc, trivial, hhs.append d1, trivial⟩
  | drop i =>
    refine .inl ?_
    simp only [Cmd.start, evalCmd, evalCmdF, if_true]
    exact ⟨hc, trivial, hhs.drop i, trivial⟩

theorem ostart_ok {s : Store} (th : OThread) (c : Threads.Cmd) (rest : List Threads.Cmd)
    {F : List Bool → List (Option BDD)} {N : Nat} (ts : List (Option BDD)) (hhs : HsDen s th.hs ts)
    (hF : ∀ fs, evalScriptF (c :: rest) fs ts = F (th.log ++ fs))
    (hN : sbF (c :: rest) ts ≤ N) :
    OThreadInv s (ostart th c rest) F (N - 1) := by
  have hF0 : ∀ (f : Bool) fs, evalScriptF rest fs (evalCmdF ts c f) = F (th.log ++ f :: fs) := by
    intro f fs
    have := hF (f :: fs)
    simpa [evalScriptF] using this
  simp only [sbF] at hN
  rcases start_cases th.base c rest ts hhs rfl with
    ⟨h1, h2, h3, h4⟩ | ⟨t, T, n, h1, h2, h3, h4, h5, h6, h7⟩
  · refine ⟨evalCmd ts c, by simpa [ostart] using h3, ?_⟩
    simp only [ostart, h1, h2, Option.map_none]
    refine ⟨fun fs => ?_, ?_⟩
    · have := hF0 false fs
      rw [evalCmdF_false] at this
      simpa using this
    · rw [evalCmdF_false] at hN
      omega
  · refine ⟨ts, by simp only [ostart, h3]; exact hhs, ?_⟩
    simp only [ostart, h1, h2, Option.map_some]
    refine ⟨T, 3 * n, OTaskOK.of_lift h4, fun fs => ?_, fun fs => ?_, ?_⟩
    · have := hF0 false fs
      rwa [evalCmdF_false, h5] at this
    · have := hF0 true fs
      rwa [h6] at this
    · rw [evalCmdF_false, h5, h6, h7] at hN
      omega

/-! ## one step of a thread -/

theorem startAct_pre {s : Store} {hs : List (Option Edge)} {ts : List (Option BDD)}
    (hhs : HsDen s hs ts) (c : Threads.Cmd) : ActPre s (startAct hs c) := by
  cases c with
  | not i => trivial
  | bin op i j => trivial
  | ite i j k => trivial
  | drop i => simp only [startAct]; split <;> trivial
  | clone i =>
    simp only [startAct]
    cases hi : hget hs i with
    | none => trivial
    | some f =>
      obtain ⟨a, _, d1⟩ := hhs.live hi
      exact has_of_denotes d1

/-- **One step of a thread** keeps its invariant (same specification `F`) and uses up one unit of
its budget; the action is admissible and acts on stored nodes. -/
theorem OThread.step_ok {p : Policy} (pok : p.OK) {st : St} (hinv : Inv st) (full : Bool)
    (th : OThread) (path : List Bool) {F : List Bool → List (Option BDD)} {N : Nat}
    (h : OThreadInv st.store th F N) :
    ActOK st (th.step .ok p st full path).1.erase ∧
    OThreadInv (runOpt (th.step .ok p st full path).1.erase st).store
      (th.step .ok p st full path).2 F (N - 1) ∧
    ActPre st.store (th.step .ok p st full path).1 ∧
    (AllOrd st.store → AllOrd (runOpt (th.step .ok p st full path).1.erase st).store) ∧
    (th.done = false → 1 ≤ N) := by
  obtain ⟨ts, hhs, hcur⟩ := h
  cases hc : th.cur with
  | some t =>
    rw [hc] at hcur
    obtain ⟨T, n, hok, hF1, hF2, hN⟩ := hcur
    rcases res?_cases t with ⟨r, rfl⟩ | rfl | hr
    · cases hok with
      | ret hd =>
        simp only [OThread.step, hc, OTask.res?]
        refine ⟨ActOK.none st, ⟨ts ++ [some T], hhs.append hd, ?_, ?_⟩, trivial, fun h => h,
          fun _ => by omega⟩
        · intro fs
          simpa using hF1 fs
        · show sbF th.script (ts ++ [some T]) ≤ N - 1
          omega
    · simp only [OThread.step, hc, OTask.res?]
      refine ⟨ActOK.none st, ⟨ts ++ [none], hhs.append (x := none) (y := none) trivial, ?_, ?_⟩,
        trivial, fun h => h, fun _ => by omega⟩
      · intro fs
        simpa using hF2 fs
      · show sbF th.script (ts ++ [none]) ≤ N - 1
        omega
    · have hp := hok.pos hr
      obtain ⟨n', rfl⟩ : ∃ k, n = k + 1 := ⟨n - 1, by omega⟩
      have S := OTask.step_ok pok hinv full t path T n' hok hr
      simp only [OThread.step, hc, hr]
      refine ⟨S.act, ⟨ts, hhs.stable (StableOn.of_le S.le), T, n', S.ok, hF1, hF2, ?_⟩,
        S.pre, S.ord, fun _ => by omega⟩
      show n' + 1 + max (sbF th.script (ts ++ [some T])) (sbF th.script (ts ++ [none])) ≤ N - 1
      omega
  | none =>
    rw [hc] at hcur
    cases hs : th.script with
    | nil =>
      simp only [OThread.step, hc, hs]
      refine ⟨ActOK.none st, ⟨ts, hhs, ?_⟩, trivial, fun h => h, ?_⟩
      · rw [hc, hs]
        rw [hs] at hcur
        exact ⟨hcur.1, by simp [sbF]⟩
      · intro hd; simp [OThread.done, hc, hs] at hd
    | cons c rest =>
      rw [hs] at hcur
      simp only [OThread.step, hc, hs]
      have he : (startAct th.hs c).erase = none := startAct_erase th.hs c
      rw [he]
      refine ⟨ActOK.none st, ostart_ok th c rest ts hhs hcur.1 hcur.2, startAct_pre hhs c,
        fun h => h, fun _ => ?_⟩
      have := hcur.2
      simp only [sbF] at this
      omega

/-! ## borrowed edges of a thread -/

theorem ostart_cov {s : Store} (th : OThread) (c : Threads.Cmd) (rest : List Threads.Cmd) :
    OThreadCov s (ostart th c rest) := by
  have h := Cmd.start_cov (s := s) th.base c rest rfl
  unfold ThreadCov at h
  unfold OThreadCov
  simp only [ostart]
  cases hcur : (c.start th.base rest).cur with
  | none => trivial
  | some t =>
    rw [hcur] at h
    exact OBorrowOK.of_lift h

theorem OThread.step_cov {p : Policy} {st : St} (full : Bool) (th : OThread) (path : List Bool)
    (h : OThreadCov st.store th)
    (hle : st.store.Le (runOpt (th.step .ok p st full path).1.erase st).store) :
    OThreadCov (runOpt (th.step .ok p st full path).1.erase st).store
      (th.step .ok p st full path).2 := by
  unfold OThreadCov at h
  cases hc : th.cur with
  | some t =>
    rw [hc] at h
    rcases res?_cases t with ⟨r, rfl⟩ | rfl | hr
    · simp only [OThread.step, hc, OTask.res?, OThreadCov]
    · simp only [OThread.step, hc, OTask.res?, OThreadCov]
    · simp only [OThread.step, hc, hr] at hle ⊢
      exact OTask.step_borrow full t path h hle
  | none =>
    cases hs : th.script with
    | nil => simp only [OThread.step, hc, hs, OThreadCov]
    | cons c rest =>
      simp only [OThread.step, hc, hs]
      exact ostart_cov th c rest

/-! ## the cache is unusable while a collection holds it locked -/

/-- a cache add of a step goes through the policy the step was given -/
def AddVia (p : Policy) (a : RAct) : Prop := ∀ q k r, a = .cacheAdd q k r → q = p

theorem rentry_via (p q : Policy) (st : St) (d : Nat) (c : Call) : AddVia q (rentry p st d c).1 := by
  intro q' k r h
  have := (rentry_erase p st d c).2
  rw [h] at this
  rcases entry_act p st d c with e | e <;> rw [e] at this <;> cases this

theorem rexpand_via (q : Policy) (s : Store) (d : Nat) (key : Key) (c : Call) :
    AddVia q (rexpand s d key c).1 := by
  intro q' k r h
  have := (rexpand_erase s d key c).2
  rw [h] at this
  cases this

theorem oreduce_via (q : Policy) (full : Bool) (st : St) (fr : Frame) (r1 r0 : Edge) :
    AddVia q (oreduce .ok full st fr r1 r0).1 := by
  intro q' k r h
  unfold oreduce at h
  split at h
  · cases h
  · simp only [rreduce_fst] at h
    cases h

theorem OTask.step_via (p : Policy) (st : St) (full : Bool) (t : OTask) :
    ∀ path, AddVia p (t.step .ok p st full path).1 := by
  induction t with
  | ret r => intro _ q k r h; cases h
  | fail ds => intro _ q k r h; cases ds <;> cases h
  | call d c => intro _; exact rentry_via p p st d c
  | miss d c key => intro _; exact rexpand_via p st.store d key c
  | made key r ds =>
    intro _ q k r' h
    cases ds with
    | nil => simp only [OTask.step, RAct.cacheAdd.injEq] at h; exact h.1.symm
    | cons d ds => cases h
  | seq1 fr c0 t1 ih =>
    intro path
    rcases res?_cases t1 with ⟨r1, rfl⟩ | rfl | hr
    · intro q k r h; cases h
    · intro q k r h; cases h
    · simp only [OTask.step, hr]; exact ih path
  | seq0 fr r1 t0 ih =>
    intro path
    rcases res?_cases t0 with ⟨r0, rfl⟩ | rfl | hr
    · simp only [OTask.step, OTask.res?]; exact oreduce_via p full st fr r1 r0
    · intro q k r h; cases h
    · simp only [OTask.step, hr]; exact ih path
  | par fr t1 t0 ih1 ih0 =>
    intro path
    simp only [OTask.step]
    split
    · rename_i a b _ _
      cases a with
      | none => cases b <;> (intro q k r h; cases h)
      | some r1 =>
        cases b with
        | none => intro q k r h; cases h
        | some r0 => exact oreduce_via p full st fr r1 r0
    · split
      · exact ih1 path.tail
      · exact ih0 path.tail

theorem startAct_via (p : Policy) (hs : List (Option Edge)) (c : Threads.Cmd) :
    AddVia p (startAct hs c) := by
  intro q k r h
  have := startAct_erase hs c
  rw [h] at this
  cases this

theorem OThread.step_via (p : Policy) (st : St) (full : Bool) (th : OThread) (path : List Bool) :
    AddVia p (th.step .ok p st full path).1 := by
  unfold OThread.step
  cases th.cur with
  | some t =>
    simp only
    rcases res?_cases t with ⟨r, rfl⟩ | rfl | hr
    · intro q k r h; cases h
    · intro q k r h; cases h
    · simp only [hr]; exact OTask.step_via p st full t path
  | none =>
    simp only
    cases th.script with
    | nil => intro q k r h; cases h
    | cons c rest => exact startAct_via p th.hs c

/-- while the cache is locked no step of a thread changes it -/
theorem run_cache_none {a : RAct} (h : AddVia Policy.none a) (r : RSt) :
    (a.run r).st.cache = r.st.cache := by
  rw [RAct.run_st]
  cases a with
  | skip => rfl
  | retain e => rfl
  | release e => rfl
  | cacheGet hit => rfl
  | mk l t e => rfl
  | cacheAdd q k x =>
    have := h q k x rfl
    subst this
    rfl

/-! ## the invariant of the machine -/

structure OGInv (c : OCfg) (F : Nat → List Bool → List (Option BDD)) (B : Nat → Nat) : Prop where
  inv : Inv c.rst.st
  gcc : c.gcActive = true → c.rst.st.cache = []
  rc : RcInv c.rst c.ext
  ord : AllOrd c.rst.st.store
  thr : ∀ i th, c.threads[i]? = some th →
    OThreadInv c.rst.st.store th (F i) (B i) ∧ OThreadCov c.rst.st.store th

theorem oowned_sub_ext {c : OCfg} {i : Nat} {th : OThread} (h : c.threads[i]? = some th) :
    ∀ e, e ∈ th.owned → e ∈ c.ext :=
  fun _ he => List.mem_flatMap.mpr ⟨th, List.mem_of_getElem? h, he⟩

/-- **a collection step keeps the denotation of every edge a thread relies on**, although only the
counted references are roots -/
theorem dheld_stable_of_removal {s s' : Store} {roots : List Edge} {th : OThread}
    (hrem : Removal s s' roots) (hsub : ∀ e, e ∈ th.owned → e ∈ roots) (hcov : OThreadCov s th) :
    StableOn th.dheld s s' := by
  intro e he t hd
  have root_ok : e ∈ roots → Denotes s' e t :=
    fun hm => hrem.denotes_reach (O := roots) (fun _ h => h) (.root hm) hd
  have hhand : ∀ x, x ∈ th.handles → x ∈ roots :=
    fun x hx => hsub x (by unfold OThread.owned; exact mem_append_l hx)
  unfold OThread.dheld at he
  rcases List.mem_append.mp he with h1 | h1
  · exact root_ok (hhand e h1)
  · unfold OThreadCov at hcov
    cases hc : th.cur with
    | none => rw [hc] at h1; cases h1
    | some tk =>
      rw [hc] at h1 hcov
      rcases hcov.held e h1 with h2 | h2
      · exact root_ok (hsub e (by unfold OThread.owned; rw [hc]; exact mem_append_r h2))
      · exact hrem.denotes_reach hhand h2 hd

/-- what a step does to the store: a thread step extends it, a collector step removes unprotected
nodes (protected: counted reference or child of a stored node) -/
theorem OCfg.step_store {p : Policy} {cap : Nat} {c : OCfg}
    {F : Nat → List Bool → List (Option BDD)} {B : Nat → Nat} (h : OGInv c F B) (sel : OSel) :
    c.rst.st.store.Le (c.step .ok p cap sel).rst.st.store ∨
    Removal c.rst.st.store (c.step .ok p cap sel).rst.st.store c.ext := by
  cases sel with
  | gcBegin => exact .inl (Store.Le.refl _)
  | gcEnd => exact .inl (Store.Le.refl _)
  | gcLevel l =>
    cases ha : c.gcActive with
    | false =>
      have e : c.step .ok p cap (.gcLevel l) = c := by simp [OCfg.step, ha]
      rw [e]; exact .inl (Store.Le.refl _)
    | true =>
      have e : c.step .ok p cap (.gcLevel l) = { c with rst := Rc.gcLevel c.rst l } := by
        simp [OCfg.step, ha]
      rw [e]
      refine .inr ?_
      show Removal c.rst.st.store (Rc.gcLevel c.rst l).st.store c.ext
      rw [gcLevel_eq_sweepLevel h.rc h.ord.ordered l]
      exact sweepLevel_removal _ _ l
  | thread tid path oom =>
    refine .inl ?_
    simp only [OCfg.step]
    cases c.threads[tid]? with
    | none => exact Store.Le.refl _
    | some th => exact RAct.run_le _ _

/-- the budget function after a step: the acting thread's budget decreases -/
def ostepB (c : OCfg) (B : Nat → Nat) : OSel → Nat → Nat
  | .thread tid _ _, i => if i = tid ∧ tid < c.threads.length then B i - 1 else B i
  | _, i => B i

/-- **Every step of the machine keeps the invariant** — with any allocation outcome —, and uses up
one unit of the acting thread's budget. -/
theorem OCfg.step_oginv {p : Policy} (pok : p.OK) (cap : Nat) {c : OCfg}
    {F : Nat → List Bool → List (Option BDD)} {B : Nat → Nat} (h : OGInv c F B) (sel : OSel) :
    OGInv (c.step .ok p cap sel) F (ostepB c B sel) := by
  cases sel with
  | gcBegin =>
    exact ⟨⟨h.inv.1, CacheOK.nil _⟩, fun _ => rfl,
      ⟨h.rc.ext_ok, h.rc.kids_ok, fun _ _ hm => (by cases hm), h.rc.rc_eq⟩, h.ord, h.thr⟩
  | gcEnd =>
    refine ⟨h.inv, ?_, h.rc, h.ord, h.thr⟩
    intro hh
    change false = true at hh
    cases hh
  | gcLevel l =>
    cases ha : c.gcActive with
    | false =>
      have e : c.step .ok p cap (.gcLevel l) = c := by simp [OCfg.step, ha]
      rw [e]; exact h
    | true =>
      have e : c.step .ok p cap (.gcLevel l) = { c with rst := Rc.gcLevel c.rst l } := by
        simp [OCfg.step, ha]
      have hcache : c.rst.st.cache = [] := h.gcc ha
      have hstore : (Rc.gcLevel c.rst l).st.store = sweepLevel c.rst.st.store c.ext l :=
        gcLevel_eq_sweepLevel h.rc h.ord.ordered l
      have hrem : Removal c.rst.st.store (Rc.gcLevel c.rst l).st.store c.ext := by
        rw [hstore]; exact sweepLevel_removal _ _ l
      rw [e]
      refine ⟨⟨hrem.unique h.inv.1, ?_⟩, fun _ => ?_, gcLevel_rc h.rc hcache l,
        h.ord.removal hrem, fun i th hi => ?_⟩
      · show CacheOK _ (Rc.gcLevel c.rst l).st.cache
        rw [gcLevel_cache, hcache]; exact CacheOK.nil _
      · show (Rc.gcLevel c.rst l).st.cache = []
        rw [gcLevel_cache, hcache]
      · obtain ⟨h1, h2⟩ := h.thr i th hi
        have hsub := oowned_sub_ext hi
        exact ⟨h1.stable (dheld_stable_of_removal hrem hsub h2),
          h2.map fun e hr => hrem.reach
            (fun e he => hsub e (by unfold OThread.owned; exact mem_append_l he)) hr⟩
  | thread tid path oom =>
    cases ht : c.threads[tid]? with
    | none =>
      have e : c.step .ok p cap (.thread tid path oom) = c := by simp [OCfg.step, ht]
      have hlen : ¬ tid < c.threads.length := by
        intro hl; rw [List.getElem?_eq_getElem hl] at ht; cases ht
      rw [e]
      refine ⟨h.inv, h.gcc, h.rc, h.ord, fun i th hi => ?_⟩
      simp only [ostepB, hlen, and_false, if_false]
      exact h.thr i th hi
    | some th =>
      have e : c.step .ok p cap (.thread tid path oom) =
          { c with
            rst := (th.step .ok (effPol p c.gcActive) c.rst.st
              (fullNow cap c.rst.st.store oom) path).1.run c.rst,
            threads := c.threads.set tid (th.step .ok (effPol p c.gcActive) c.rst.st
              (fullNow cap c.rst.st.store oom) path).2 } := by
        simp [OCfg.step, ht]
      have hlt : tid < c.threads.length := lt_of_getElem?_some ht
      have hpok := effPol_ok pok c.gcActive
      obtain ⟨hact, hti, hpre, hord, _⟩ := OThread.step_ok hpok h.inv
        (fullNow cap c.rst.st.store oom) th path (h.thr tid th ht).1
      have hacct := oext_acct_set (l := c.threads) ht
        (OThread.step_acct (effPol p c.gcActive) c.rst.st (fullNow cap c.rst.st.store oom) th path)
      generalize ho : th.step .ok (effPol p c.gcActive) c.rst.st
        (fullNow cap c.rst.st.store oom) path = o at e hact hti hpre hord hacct
      have hst : (o.1.run c.rst).st = runOpt o.1.erase c.rst.st := RAct.run_st _ _
      have hle : c.rst.st.store.Le (runOpt o.1.erase c.rst.st).store := hact.le
      have hcov : OThreadCov (runOpt o.1.erase c.rst.st).store o.2 := by
        rw [← ho] at hle ⊢
        exact OThread.step_cov (p := effPol p c.gcActive) _ th path (h.thr tid th ht).2 hle
      rw [e]
      refine ⟨?_, ?_, ?_, ?_, ?_⟩
      · show Inv (o.1.run c.rst).st
        rw [hst]; exact hact.inv h.inv
      · intro ha
        have ha' : c.gcActive = true := ha
        show (o.1.run c.rst).st.cache = []
        have hvia : AddVia Policy.none o.1 := by
          rw [← ho, ha']
          exact OThread.step_via Policy.none c.rst.st _ th path
        rw [run_cache_none hvia]
        exact h.gcc ha'
      · exact RAct.run_rc o.1 h.rc hacct hpre
      · show AllOrd (o.1.run c.rst).st.store
        rw [hst]; exact hord h.ord
      · intro i th' hi
        show OThreadInv (o.1.run c.rst).st.store th' (F i) (ostepB c B (.thread tid path oom) i) ∧
          OThreadCov (o.1.run c.rst).st.store th'
        rw [hst]
        simp only [ostepB, hlt, and_true]
        simp only [List.getElem?_set] at hi
        by_cases hit : tid = i
        · subst hit
          simp only [if_true, hlt] at hi
          cases hi
          simp only [if_true]
          exact ⟨hti, hcov⟩
        · simp only [hit, if_false] at hi
          have : ¬ i = tid := fun e => hit e.symm
          simp only [this, if_false]
          exact ⟨(h.thr i th' hi).1.mono hle, (h.thr i th' hi).2.map fun e hr => hr.mono hle⟩

/-! ## schedules: invariant and termination -/

/-- how often the schedule selects thread `tid` -/
def oselCount (tid : Nat) : List OSel → Nat
  | [] => 0
  | .thread i _ _ :: ss => (if i = tid then 1 else 0) + oselCount tid ss
  | _ :: ss => oselCount tid ss

theorem OThread.step_done {v : Variant} {p : Policy} (st : St) (full : Bool) (th : OThread)
    (path : List Bool) (hd : th.done = true) : th.step v p st full path = (.skip, th) := by
  simp only [OThread.done, Bool.and_eq_true, Option.isNone_iff_eq_none, List.isEmpty_iff] at hd
  simp only [OThread.step, hd.1, hd.2]

theorem OCfg.step_length {v : Variant} {p : Policy} {cap : Nat} (c : OCfg) (sel : OSel) :
    (c.step v p cap sel).threads.length = c.threads.length := by
  cases sel with
  | gcBegin => rfl
  | gcEnd => rfl
  | gcLevel l => simp only [OCfg.step]; split <;> rfl
  | thread tid path oom =>
    simp only [OCfg.step]
    cases c.threads[tid]? with
    | none => rfl
    | some th => simp

theorem OCfg.run_length {v : Variant} {p : Policy} {cap : Nat} (c : OCfg) (sched : List OSel) :
    (c.run v p cap sched).threads.length = c.threads.length := by
  induction sched generalizing c with
  | nil => rfl
  | cons s ss ih => simp only [OCfg.run]; rw [ih, OCfg.step_length]

/-- a finished thread stays as it is, whatever the others do -/
theorem OCfg.step_done {v : Variant} {p : Policy} {cap : Nat} (c : OCfg) (sel : OSel) {i : Nat}
    {th : OThread} (hi : c.threads[i]? = some th) (hd : th.done = true) :
    (c.step v p cap sel).threads[i]? = some th := by
  cases sel with
  | gcBegin => exact hi
  | gcEnd => exact hi
  | gcLevel l => simp only [OCfg.step]; split <;> exact hi
  | thread tid path oom =>
    simp only [OCfg.step]
    cases ht : c.threads[tid]? with
    | none => exact hi
    | some th' =>
      simp only [List.getElem?_set]
      by_cases hit : tid = i
      · subst hit
        rw [hi] at ht; cases ht
        rw [OThread.step_done c.rst.st _ th path hd]
        have hlen := lt_of_getElem?_some hi
        simp [hlen]
      · simp only [hit, if_false]; exact hi

theorem OCfg.run_done {v : Variant} {p : Policy} {cap : Nat} (c : OCfg) (sched : List OSel)
    {i : Nat} {th : OThread} (hi : c.threads[i]? = some th) (hd : th.done = true) :
    (c.run v p cap sched).threads[i]? = some th := by
  induction sched generalizing c with
  | nil => exact hi
  | cons s ss ih => exact ih _ (OCfg.step_done c s hi hd)

/-- **Every schedule keeps the invariant** — every pattern of allocation failures included —, and
every thread that is not finished at the end has used up one unit of its budget for every time it
was selected. -/
theorem OCfg.run_oginv {p : Policy} (pok : p.OK) (cap : Nat) (sched : List OSel) :
    ∀ {c : OCfg} {F : Nat → List Bool → List (Option BDD)} {B : Nat → Nat}, OGInv c F B →
      ∃ B', OGInv (c.run .ok p cap sched) F B' ∧
        ∀ i th, (c.run .ok p cap sched).threads[i]? = some th → th.done = true ∨
          B' i + oselCount i sched ≤ B i := by
  induction sched with
  | nil =>
    intro c F B h
    exact ⟨B, h, fun i th _ => .inr (by simp [oselCount])⟩
  | cons s ss ih =>
    intro c F B h
    have h1 := OCfg.step_oginv pok cap h s
    obtain ⟨B', hB', hcount⟩ := ih h1
    refine ⟨B', hB', fun i th hi => ?_⟩
    simp only [OCfg.run] at hi
    rcases hcount i th hi with hd | hle
    · exact .inl hd
    · cases s with
      | gcBegin => exact .inr (by simpa [oselCount, ostepB] using hle)
      | gcEnd => exact .inr (by simpa [oselCount, ostepB] using hle)
      | gcLevel l => exact .inr (by simpa [oselCount, ostepB] using hle)
      | thread tid path oom =>
        simp only [oselCount]
        by_cases hit : tid = i
        · subst hit
          simp only [if_true]
          have hlen : tid < c.threads.length := by
            have h1 : tid < (((c.step .ok p cap (.thread tid path oom)).run .ok p cap ss).threads).length :=
              lt_of_getElem?_some hi
            rwa [OCfg.run_length, OCfg.step_length] at h1
          have hget : c.threads[tid]? = some c.threads[tid] := List.getElem?_eq_getElem hlen
          by_cases hd : (c.threads[tid]).done = true
          · have := OCfg.run_done (v := .ok) (p := p) (cap := cap) c (.thread tid path oom :: ss) hget hd
            simp only [OCfg.run] at this
            rw [this] at hi; cases hi
            exact .inl hd
          · have hpos := (OThread.step_ok (effPol_ok pok c.gcActive) h.inv
              (fullNow cap c.rst.st.store oom) _ path (h.thr tid _ hget).1).2.2.2.2
              (by simpa using hd)
            simp only [ostepB, hlen, and_true, if_true] at hle
            exact .inr (by omega)
        · simp only [hit, if_false]
          have : ¬ i = tid := fun e => hit e.symm
          simp only [ostepB, this, false_and, if_false] at hle
          exact .inr (by omega)

end OxiddModel.Bdd.ROom
