import OxiddModel.Bdd.RThreadsOom

/-!
# Without allocation failure the machine `ROom` IS the machine `RThreads`

`RThreadsOom.lean` defines a new step function. This file shows that it is a **conservative
extension** of `RThreads.lean`: on configurations without error paths, a step whose `get_or_insert`
does not fail (`fullNow = false`: the scheduler does not ask for a failure and a slot is free) is
exactly the step of `RThreads.lean` with the same thread and `par` path — same action on the shared
state (store, cache, time stamp **and counters**), same next continuation —, for every variant of
the join; collector steps are literally the same. Hence every schedule that stays within the
capacity and requests no failure (`Roomy`) is a schedule of `RThreads.lean`
(`roomy_run_is_rthreads_run`), and what `PropertiesC07R.lean` / `PropertiesC07T.lean` prove of that
machine is about the same program as `PropertiesC14P.lean`.
-/
namespace OxiddModel.Bdd.ROom
open OxiddModel.Bdd OxiddModel.Bdd.BDD OxiddModel.Bdd.Refine OxiddModel.Bdd.Threads
open OxiddModel.Bdd.RThreads
open OxiddModel.Bdd.Rc (RSt rcGet rcSet cloneEdge dropEdge)

/-! ## tasks -/

theorem res?_ofR (t : RTask) : (ofR t).res? = t.ret?.map some := by
  cases t <;> rfl

theorem opick_ofR (path : List Bool) (t1 t0 : RTask) :
    opick path (ofR t1) (ofR t0) = rpickLeft path t1 t0 := by
  unfold opick rpickLeft
  rw [res?_ofR, res?_ofR]
  cases t1.ret? <;> cases t0.ret? <;> rfl

theorem oreduce_roomy (v : Variant) (st : St) (fr : Frame) (r1 r0 : Edge) :
    oreduce v false st fr r1 r0 = ((rreduce st fr r1 r0).1, ofR (rreduce st fr r1 r0).2) := by
  simp [oreduce]

/-- **a non-failing step of an embedded task is the step of `RThreads.lean`** -/
theorem step_ofR (v : Variant) (p : Policy) (st : St) (t : RTask) :
    ∀ path, (ofR t).step v p st false path = ((t.step p st path).1, ofR (t.step p st path).2) := by
  induction t with
  | call d c => intro _; rfl
  | miss d c key => intro _; rfl
  | ret r => intro _; rfl
  | made key r ds => intro _; cases ds <;> rfl
  | seq1 fr c0 t1 ih =>
    intro path
    cases hr : t1.ret? with
    | some r1 => simp [ofR, OTask.step, RTask.step, res?_ofR, hr]
    | none => simp [ofR, OTask.step, RTask.step, res?_ofR, hr, ih path]
  | seq0 fr r1 t0 ih =>
    intro path
    cases hr : t0.ret? with
    | some r0 => simp [ofR, OTask.step, RTask.step, res?_ofR, hr, oreduce_roomy]
    | none => simp [ofR, OTask.step, RTask.step, res?_ofR, hr, ih path]
  | par fr t1 t0 ih1 ih0 =>
    intro path
    cases hr1 : t1.ret? with
    | some r1 =>
      cases hr0 : t0.ret? with
      | some r0 => simp [ofR, OTask.step, RTask.step, res?_ofR, hr1, hr0, ojoin, oreduce_roomy]
      | none =>
        have hp : rpickLeft path t1 t0 = false := by simp [rpickLeft, hr1]
        simp [ofR, OTask.step, RTask.step, res?_ofR, hr1, hr0, opick_ofR, hp, ih0 path.tail]
    | none =>
      cases hp : rpickLeft path t1 t0 with
      | true => simp [ofR, OTask.step, RTask.step, res?_ofR, hr1, opick_ofR, hp, ih1 path.tail]
      | false => simp [ofR, OTask.step, RTask.step, res?_ofR, hr1, opick_ofR, hp, ih0 path.tail]

/-! ## threads and configurations -/

/-- a thread of `RThreads.lean` as a thread of this machine, with the log `lg` -/
def embT (th : RThread) (lg : List Bool) : OThread :=
  ⟨th.depth, th.hs, th.script, th.cur.map ofR, lg⟩

/-- forget the log -/
def projT (th : OThread) (cur : Option RTask) : RThread := ⟨th.depth, th.hs, th.script, cur⟩

/-- **a non-failing step of an embedded thread is the step of `RThreads.lean`** (for some log) -/
theorem step_embT (v : Variant) (p : Policy) (st : St) (th : RThread) (lg : List Bool)
    (path : List Bool) :
    ∃ lg', (embT th lg).step v p st false path =
      ((th.step p st path).1, embT (th.step p st path).2 lg') := by
  cases hc : th.cur with
  | some t =>
    cases hr : t.ret? with
    | some r =>
      exact ⟨lg ++ [false], by simp [embT, OThread.step, RThread.step, hc, res?_ofR, hr]⟩
    | none =>
      exact ⟨lg, by simp [embT, OThread.step, RThread.step, hc, res?_ofR, hr, step_ofR]⟩
  | none =>
    cases hs : th.script with
    | nil => exact ⟨lg, by simp [embT, OThread.step, RThread.step, hc, hs]⟩
    | cons c rest =>
      have hb : (embT th lg).base = th.erase := by simp [embT, OThread.base, RThread.erase, hc]
      refine ⟨match (c.start th.erase rest).cur with | some _ => lg | none => lg ++ [false], ?_⟩
      simp only [OThread.step, RThread.step, embT, hc, hs, Option.map_none]
      congr 1
      have hb' : OThread.base ⟨th.depth, th.hs, c :: rest, none, lg⟩ = th.erase := by
        rw [← hb]; simp [embT, hc, hs]
      simp only [ostart, hb', unerase, embT]
      cases (c.start th.erase rest).cur <;> simp

/-- configurations correspond: same shared state, same threads up to the logs -/
def Emb (c : OCfg) (r : RCfg) : Prop :=
  c.rst = r.rst ∧ c.gcActive = r.gcActive ∧ c.threads.length = r.threads.length ∧
  ∀ (i : Nat) (th : RThread), r.threads[i]? = some th → ∃ lg, c.threads[i]? = some (embT th lg)

def OSel.toR : OSel → RSel
  | .thread tid path _ => .thread tid path
  | .gcBegin => .gcBegin
  | .gcLevel l => .gcLevel l
  | .gcEnd => .gcEnd

/-- the step does not ask for a failing allocation and a slot is free -/
def RoomyStep (cap : Nat) (c : OCfg) : OSel → Prop
  | .thread _ _ oom => oom = false ∧ c.rst.st.store.count < cap
  | _ => True

/-- **one step**: corresponding configurations make corresponding steps -/
theorem step_emb (v : Variant) (p : Policy) (cap : Nat) {c : OCfg} {r : RCfg} (h : Emb c r)
    (sel : OSel) (hroom : RoomyStep cap c sel) : Emb (c.step v p cap sel) (r.step p sel.toR) := by
  obtain ⟨h1, h2, h3, h4⟩ := h
  cases sel with
  | gcBegin => exact ⟨by simp [OCfg.step, RCfg.step, OSel.toR, h1], rfl, h3, h4⟩
  | gcEnd => exact ⟨h1, rfl, h3, h4⟩
  | gcLevel l =>
    simp only [OCfg.step, RCfg.step, OSel.toR, h2]
    split
    · exact ⟨by simp [h1], rfl, h3, h4⟩
    · exact ⟨h1, h2, h3, h4⟩
  | thread tid path oom =>
    obtain ⟨ho, hc⟩ := hroom
    have hfull : fullNow cap c.rst.st.store oom = false := by
      simp [fullNow, ho]; omega
    simp only [OCfg.step, RCfg.step, OSel.toR]
    cases hr : r.threads[tid]? with
    | none =>
      have : c.threads[tid]? = none := by
        rw [List.getElem?_eq_none_iff] at hr ⊢; omega
      rw [this]
      exact ⟨h1, h2, h3, h4⟩
    | some th =>
      obtain ⟨lg, hlg⟩ := h4 tid th hr
      rw [hlg]
      simp only [hfull]
      obtain ⟨lg', hstep⟩ := step_embT v (effPol p c.gcActive) c.rst.st th lg path
      rw [hstep, ← h1, ← h2]
      refine ⟨rfl, rfl, by simp [h3], fun i th' hi => ?_⟩
      rw [List.getElem?_set] at hi ⊢
      by_cases hit : tid = i
      · subst hit
        have hl : tid < r.threads.length := by
          apply Classical.byContradiction; intro hl
          rw [List.getElem?_eq_none (by omega)] at hr; cases hr
        simp only [if_true, hl] at hi
        cases hi
        exact ⟨lg', by simp [h3, hl]⟩
      · simp only [hit, if_false] at hi ⊢
        exact h4 i th' hi

/-- every step of the schedule is `RoomyStep` -/
def Roomy (v : Variant) (p : Policy) (cap : Nat) : OCfg → List OSel → Prop
  | _, [] => True
  | c, s :: ss => RoomyStep cap c s ∧ Roomy v p cap (c.step v p cap s) ss

/-- **`roomy_run_is_rthreads_run`.** A run of this machine in which no allocation is asked to fail
and the store never reaches the capacity is, step by step, the run of `RThreads.lean` under the
same schedule: same shared state (counters included), same handles, same continuations. -/
theorem roomy_run_is_rthreads_run (v : Variant) (p : Policy) (cap : Nat) (sched : List OSel) :
    ∀ {c : OCfg} {r : RCfg}, Emb c r → Roomy v p cap c sched →
      Emb (c.run v p cap sched) (r.run p (sched.map OSel.toR)) := by
  induction sched with
  | nil => intro c r h _; exact h
  | cons s ss ih =>
    intro c r h hroom
    exact ih (step_emb v p cap h s hroom.1) hroom.2

/-- embedding a configuration of `RThreads.lean` -/
def embC (r : RCfg) : OCfg := ⟨r.rst, r.threads.map (fun th => embT th []), r.gcActive⟩

theorem emb_embC (r : RCfg) : Emb (embC r) r := by
  refine ⟨rfl, rfl, by simp [embC], fun i th hi => ⟨[], ?_⟩⟩
  simp [embC, hi]

end OxiddModel.Bdd.ROom
