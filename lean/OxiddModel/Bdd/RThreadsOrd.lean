import OxiddModel.Bdd.RThreadsGc
import OxiddModel.Bdd.ThreadsProof
import OxiddModel.Bdd.Apply
import OxiddModel.Bdd.Ite

/-!
# Side invariants of the counter machine

* `AllOrd s`: every stored node denotes an **ordered** tree. It gives `Store.Ordered` (children
  on strictly deeper levels), which is what makes the counter-driven sweep of one level
  independent of the order in which it visits the slots (`RThreadsGc.lean`). It is kept by every
  `get_or_insert` of the machine because the node created denotes `mk l T1 T0` = the tree-level
  result of the operator on ordered operands (`Task.step_mk_facts`, `specOf_ordered`), and by every
  removal of unprotected nodes.
* `PendOK s t`: an edge still to be released after `reduce` is the edge returned or a child of the
  (stored) node returned — hence "counted reference or stored parent edge" does not depend on the
  pending releases (`prot_ext_roots`).
* `TaskOK.held_has`, `RTask.step_pre`: the edges an action retains / caches point to stored nodes.
-/
namespace OxiddModel.Bdd.RThreads
open OxiddModel.Bdd OxiddModel.Bdd.BDD OxiddModel.Bdd.Refine OxiddModel.Bdd.Threads
open OxiddModel.Bdd.Rc (RSt rcGet rcSet cloneEdge dropEdge RcInv)

/-! ## every stored node denotes an ordered tree -/

def AllOrd (s : Store) : Prop :=
  ∀ i n, s.get? i = some n → ∃ T, Denotes s (.inner i) T ∧ Ordered 0 T

theorem AllOrd.denotes_ordered {s : Store} (h : AllOrd s) {e : Edge} {T : BDD}
    (hd : Denotes s e T) : Ordered 0 T := by
  cases hd with
  | term => exact .leaf
  | @inner i l t e tt te hi ht he =>
    obtain ⟨T', hd', ho⟩ := h i _ hi
    have := Denotes.functional hd' (.inner hi ht he)
    subst this
    exact ho

theorem ordered_child_level {l l' : Nat} {t e : BDD} (h : Ordered (l + 1) (.node l' t e)) :
    l < l' := by
  cases h with
  | node hl _ _ => omega

/-- children live on strictly deeper levels -/
theorem AllOrd.ordered {s : Store} (h : AllOrd s) : s.Ordered := by
  intro i n j m hi hc hj
  obtain ⟨T, hd, ho⟩ := h i n hi
  cases hd with
  | @inner _ l t e tt te hi' ht he =>
    rw [hi] at hi'
    cases hi'
    cases ho with
    | node _ ot oe =>
      rcases hc with hc | hc
      · simp only at hc
        subst hc
        cases ht with
        | @inner _ l2 t2 e2 tt2 te2 hj' _ _ =>
          rw [hj] at hj'; cases hj'
          exact ordered_child_level ot
      · simp only at hc
        subst hc
        cases he with
        | @inner _ l2 t2 e2 tt2 te2 hj' _ _ =>
          rw [hj] at hj'; cases hj'
          exact ordered_child_level oe

theorem AllOrd.alloc {s : Store} (h : AllOrd s) {l : Nat} {r1 r0 : Edge} {T1 T0 : BDD}
    (h1 : Denotes s r1 T1) (h0 : Denotes s r0 T0) (ho : Ordered 0 (.node l T1 T0)) :
    AllOrd (s.alloc ⟨l, r1, r0⟩).1 := by
  have hle := alloc_le s ⟨l, r1, r0⟩
  intro i n hi
  rw [get?_alloc] at hi
  split at hi
  · rename_i hij
    cases hi
    refine ⟨.node l T1 T0, ?_, ho⟩
    refine .inner ?_ (h1.mono hle) (h0.mono hle)
    rw [get?_alloc, if_pos hij]
  · obtain ⟨T, hd, hT⟩ := h i n hi
    exact ⟨T, hd.mono hle, hT⟩

theorem AllOrd.removal {s s' : Store} {roots : List Edge} (h : AllOrd s)
    (hrem : Removal s s' roots) : AllOrd s' := by
  intro i n hi
  have hi0 : s.get? i = some n := by
    rcases (hrem i).1 with e | e
    · rw [← e]; exact hi
    · rw [e] at hi; cases hi
  obtain ⟨T, hd, ho⟩ := h i n hi0
  refine ⟨T, ?_, ho⟩
  cases hd with
  | @inner _ l t e tt te hi' ht he =>
    rw [hi0] at hi'
    cases hi'
    refine .inner hi ?_ ?_
    · exact hrem.denotes ht (fun j hj => prot_child roots hi0 (.inl hj))
    · exact hrem.denotes he (fun j hj => prot_child roots hi0 (.inr hj))

theorem denotesL_mem {s : Store} {es : List Edge} {ts : List BDD} (h : DenotesL s es ts) :
    (∀ t, t ∈ ts → ∃ e, Denotes s e t) ∧ (∀ e, e ∈ es → ∃ t, Denotes s e t) := by
  induction h with
  | nil => exact ⟨fun _ h => (by cases h), fun _ h => (by cases h)⟩
  | @cons e t es ts hd _ ih =>
    constructor
    · intro t' ht'
      rcases List.mem_cons.mp ht' with rfl | ht'
      · exact ⟨e, hd⟩
      · exact ih.1 t' ht'
    · intro e' he'
      rcases List.mem_cons.mp he' with rfl | he'
      · exact ⟨t, hd⟩
      · exact ih.2 e' he'

theorem specOf_ordered {tag : OpTag} {ts : List BDD} {T : BDD} (h : specOf tag ts = some T)
    (ho : ∀ t, t ∈ ts → Ordered 0 t) : Ordered 0 T := by
  unfold specOf at h
  split at h
  all_goals first
    | (cases h; exact applyNot_ordered (ho _ (by simp)))
    | (cases h; exact applyBin_ordered _ _ _ 0 (ho _ (by simp)) (ho _ (by simp)))
    | (cases h; exact applyIte_ordered _ _ _ 0 (ho _ (by simp)) (ho _ (by simp)) (ho _ (by simp)))
    | cases h

theorem AllOrd.keyDen {s : Store} (h : AllOrd s) {key : Key} {T : BDD} (hk : KeyDen s key T) :
    Ordered 0 T := by
  obtain ⟨ts, hd, hs⟩ := hk
  refine specOf_ordered hs (fun t ht => ?_)
  obtain ⟨e, he⟩ := (denotesL_mem hd).1 t ht
  exact h.denotes_ordered he

/-! ## what `reduce` is called with -/

/-- if a step of a task performs `get_or_insert(l, a, b)` then `a`, `b` denote trees `T1`, `T0`
and the frame's cache key is a key for `mk l T1 T0` -/
theorem Task.step_mk_facts {p : Policy} {st : St} (t : Task) :
    ∀ (path : List Bool) (T : BDD) (n l : Nat) (a b : Edge), TaskOK st.store t T n →
      (t.step p st path).1 = some (.mk l a b) →
      ∃ T1 T0 key, Denotes st.store a T1 ∧ Denotes st.store b T0 ∧
        KeyDen st.store key (mk l T1 T0) := by
  induction t with
  | ret r => intro _ _ _ _ _ _ _ h; cases h
  | call d c =>
    intro path T n l a b _ h
    rcases entry_act p st d c with e | e <;> simp only [Task.step] at h <;> rw [e] at h <;> cases h
  | miss d c key => intro _ _ _ _ _ _ _ h; cases h
  | made key r => intro _ _ _ _ _ _ _ h; cases h
  | seq1 fr c0 t1 ih =>
    intro path T n l a b hok h
    cases hok with
    | seq1 T1 T0 n1 m0 h1 h0 hk hT hw =>
      simp only [Task.step] at h
      cases hr : t1.ret? with
      | some r1 => rw [hr] at h; cases h
      | none => rw [hr] at h; exact ih path T1 n1 l a b h1 h
  | seq0 fr r1 t0 ih =>
    intro path T n l a b hok h
    cases hok with
    | seq0 T1 T0 n0 h1 h0 hk hT hw =>
      simp only [Task.step] at h
      cases hr : t0.ret? with
      | some r0 =>
        rw [hr] at h
        have := ret?_eq_some hr
        subst this
        simp only [reduceOut, Option.some.injEq, Action.mk.injEq] at h
        obtain ⟨rfl, rfl, rfl⟩ := h
        cases h0 with
        | ret hd => exact ⟨T1, T0, fr.key, h1, hd, hT ▸ hk⟩
      | none => rw [hr] at h; exact ih path T0 n0 l a b h0 h
  | par fr t1 t0 ih1 ih0 =>
    intro path T n l a b hok h
    cases hok with
    | par T1 T0 n1 n0 h1 h0 hk hT hw =>
      simp only [Task.step] at h
      cases hr1 : t1.ret? with
      | some r1 =>
        cases hr0 : t0.ret? with
        | some r0 =>
          rw [hr1, hr0] at h
          have e1 := ret?_eq_some hr1
          have e0 := ret?_eq_some hr0
          subst e1 e0
          simp only [reduceOut, Option.some.injEq, Action.mk.injEq] at h
          obtain ⟨rfl, rfl, rfl⟩ := h
          cases h1 with
          | ret hd1 =>
            cases h0 with
            | ret hd0 => exact ⟨T1, T0, fr.key, hd1, hd0, hT ▸ hk⟩
        | none =>
          simp only [hr1, hr0, pickLeft, Bool.false_eq_true, if_false] at h
          exact ih0 path.tail T0 n0 l a b h0 h
      | none =>
        cases hr0 : t0.ret? with
        | some r0 =>
          simp only [hr1, hr0, pickLeft, if_true] at h
          exact ih1 path.tail T1 n1 l a b h1 h
        | none =>
          simp only [hr1, hr0, pickLeft] at h
          split at h
          · exact ih1 path.tail T1 n1 l a b h1 h
          · exact ih0 path.tail T0 n0 l a b h0 h

/-- the node a `get_or_insert` miss creates keeps `AllOrd` -/
theorem AllOrd.mk {s : Store} (h : AllOrd s) (hu : s.Unique) {l : Nat} {a b : Edge} {T1 T0 : BDD}
    {key : Key} (hab : a ≠ b) (ha : Denotes s a T1) (hb : Denotes s b T0)
    (hk : KeyDen s key (mk l T1 T0)) : AllOrd (s.alloc ⟨l, a, b⟩).1 := by
  have hne : T1 ≠ T0 := fun e => hab (inj_of_unique hu _ _ _ ha (e ▸ hb))
  have ho := h.keyDen hk
  simp only [OxiddModel.Bdd.mk, hne, if_false] at ho
  exact h.alloc ha hb ho

/-! ## held edges point to stored nodes -/

theorem has_of_denotes {s : Store} {e : Edge} {a : BDD} (h : Denotes s e a) : s.has e := by
  cases h with
  | term => trivial
  | inner hi _ _ => exact ⟨_, hi⟩

theorem CallDen.has {s : Store} {c : Call} {T : BDD} {m : Nat} (h : CallDen s c T m) :
    ∀ e, e ∈ c.edges → s.has e := by
  cases c with
  | not f =>
    obtain ⟨a, ha, _⟩ := h
    intro e he
    simp only [Call.edges, List.mem_cons, List.not_mem_nil, or_false] at he
    subst he; exact has_of_denotes ha
  | bin op f g =>
    obtain ⟨a, b, ha, hb, _⟩ := h
    intro e he
    simp only [Call.edges, List.mem_cons, List.not_mem_nil, or_false] at he
    rcases he with rfl | rfl
    · exact has_of_denotes ha
    · exact has_of_denotes hb
  | ite f g h' =>
    obtain ⟨a, b, c, ha, hb, hc, _⟩ := h
    intro e he
    simp only [Call.edges, List.mem_cons, List.not_mem_nil, or_false] at he
    rcases he with rfl | rfl | rfl
    · exact has_of_denotes ha
    · exact has_of_denotes hb
    · exact has_of_denotes hc

theorem MissDen.has {s : Store} {c : Call} {T : BDD} {m : Nat} (h : MissDen s c T m) :
    ∀ e, e ∈ c.edges → s.has e := by
  cases c with
  | not f =>
    obtain ⟨l, tt, te, ha, _⟩ := h
    intro e he
    simp only [Call.edges, List.mem_cons, List.not_mem_nil, or_false] at he
    subst he; exact has_of_denotes ha
  | bin op f g =>
    obtain ⟨a, b, o, x, y, ha, hb, _⟩ := h
    intro e he
    simp only [Call.edges, List.mem_cons, List.not_mem_nil, or_false] at he
    rcases he with rfl | rfl
    · exact has_of_denotes ha
    · exact has_of_denotes hb
  | ite f g h' =>
    obtain ⟨lf, ft, fe, lg, gt, ge, lh, ht, he', ha, hb, hc, _⟩ := h
    intro e he
    simp only [Call.edges, List.mem_cons, List.not_mem_nil, or_false] at he
    rcases he with rfl | rfl | rfl
    · exact has_of_denotes ha
    · exact has_of_denotes hb
    · exact has_of_denotes hc

theorem KeyDen.has {s : Store} {key : Key} {T : BDD} (h : KeyDen s key T) :
    ∀ e, e ∈ key.2 → s.has e := by
  obtain ⟨ts, hd, _⟩ := h
  intro e he
  obtain ⟨t, ht⟩ := (denotesL_mem hd).2 e he
  exact has_of_denotes ht

/-- every edge a task of `Threads.lean` holds points to a stored node -/
theorem TaskOK.held_has {s : Store} {t : Task} {T : BDD} {n : Nat} (h : TaskOK s t T n) :
    ∀ e, e ∈ t.held → s.has e := by
  induction h with
  | ret hd =>
    intro e he
    simp only [Task.held, List.mem_cons, List.not_mem_nil, or_false] at he
    subst he; exact has_of_denotes hd
  | call m hc _ => exact CallDen.has hc
  | miss m hm hk _ =>
    intro e he
    rcases List.mem_append.mp he with h1 | h1
    · exact MissDen.has hm e h1
    · exact KeyDen.has hk e h1
  | seq1 T1 T0 n1 m0 _ h0 hk _ _ ih =>
    intro e he
    simp only [Task.held, List.mem_append] at he
    rcases he with h1 | h1 | h1
    · exact KeyDen.has hk e h1
    · exact CallDen.has h0 e h1
    · exact ih e h1
  | seq0 T1 T0 n0 h1 _ hk _ _ ih =>
    intro e he
    simp only [Task.held, List.mem_append, List.mem_cons] at he
    rcases he with h2 | h2 | h2
    · exact KeyDen.has hk e h2
    · subst h2; exact has_of_denotes h1
    · exact ih e h2
  | par T1 T0 n1 n0 _ _ hk _ _ ih1 ih0 =>
    intro e he
    simp only [Task.held, List.mem_append] at he
    rcases he with h2 | h2 | h2
    · exact KeyDen.has hk e h2
    · exact ih1 e h2
    · exact ih0 e h2
  | made hd hk _ =>
    intro e he
    simp only [Task.held, List.mem_cons] at he
    rcases he with h2 | h2
    · subst h2; exact has_of_denotes hd
    · exact KeyDen.has hk e h2

/-- **the precondition of every action of a task step** follows from: the edges held after the
step point to stored nodes -/
theorem RTask.step_pre {p : Policy} (pok : p.OK) (st : St) (s : Store) (t : RTask) :
    ∀ path, (∀ e, e ∈ (t.step p st path).2.erase.held → s.has e) →
      ActPre s (t.step p st path).1 := by
  induction t with
  | ret r => intro _ _; trivial
  | call d c =>
    intro _ h
    have hact := entry_act p st d c
    simp only [RTask.step, rentry] at h ⊢
    cases ht : (c.entry p st d).2 with
    | ret x =>
      rw [ht] at h
      rcases hact with h1 | h1 <;> simp only [h1, ActPre] <;>
        exact h x (by simp [RTask.erase, Task.held])
    | call d' c' => rcases hact with h1 | h1 <;> simp [h1, ActPre]
    | miss d' c' k => rcases hact with h1 | h1 <;> simp [h1, ActPre]
    | seq1 fr c0 t1 => rcases hact with h1 | h1 <;> simp [h1, ActPre]
    | seq0 fr r1 t0 => rcases hact with h1 | h1 <;> simp [h1, ActPre]
    | par fr t1 t0 => rcases hact with h1 | h1 <;> simp [h1, ActPre]
    | made k r => rcases hact with h1 | h1 <;> simp [h1, ActPre]
  | miss d c key =>
    intro _ h
    simp only [RTask.step, rexpand] at h ⊢
    cases ht : c.expand st.store d key with
    | ret x => rw [ht] at h; exact h x (by simp [RTask.erase, Task.held])
    | call d' c' => trivial
    | miss d' c' k => trivial
    | seq1 fr c0 t1 => trivial
    | seq0 fr r1 t0 => trivial
    | par fr t1 t0 => trivial
    | made k r => trivial
  | made key r ds =>
    intro _ h
    cases ds with
    | nil => exact ⟨pok, h r (by simp [RTask.step, RTask.erase, Task.held])⟩
    | cons d ds => trivial
  | seq1 fr c0 t1 ih =>
    intro path h
    cases hr : t1.ret? with
    | some r1 => simp only [RTask.step, hr]; trivial
    | none =>
      simp only [RTask.step, hr] at h ⊢
      exact ih path (fun e he => h e (by
        simp only [RTask.erase, Task.held, List.mem_append]; exact .inr (.inr he)))
  | seq0 fr r1 t0 ih =>
    intro path h
    cases hr : t0.ret? with
    | some r0 =>
      simp only [RTask.step, hr, rreduce]
      split
      · trivial
      · split <;> trivial
    | none =>
      simp only [RTask.step, hr] at h ⊢
      exact ih path (fun e he => h e (by
        simp only [RTask.erase, Task.held, List.mem_append, List.mem_cons]; exact .inr (.inr he)))
  | par fr t1 t0 ih1 ih0 =>
    intro path h
    have red : ∀ r1 r0, ActPre s (rreduce st fr r1 r0).1 := by
      intro r1 r0
      simp only [rreduce]
      split
      · trivial
      · split <;> trivial
    have left : (∀ e, e ∈ (RTask.par fr (t1.step p st path.tail).2 t0).erase.held → s.has e) →
        ActPre s (t1.step p st path.tail).1 := fun h =>
      ih1 path.tail (fun e he => h e (by
        simp only [RTask.erase, Task.held, List.mem_append]; exact .inr (.inl he)))
    have right : (∀ e, e ∈ (RTask.par fr t1 (t0.step p st path.tail).2).erase.held → s.has e) →
        ActPre s (t0.step p st path.tail).1 := fun h =>
      ih0 path.tail (fun e he => h e (by
        simp only [RTask.erase, Task.held, List.mem_append]; exact .inr (.inr he)))
    cases hr1 : t1.ret? with
    | some r1 =>
      cases hr0 : t0.ret? with
      | some r0 => simp only [RTask.step, hr1, hr0]; exact red r1 r0
      | none =>
        simp only [RTask.step, hr1, hr0, rpickLeft, Bool.false_eq_true, if_false] at h ⊢
        exact right h
    | none =>
      cases hr0 : t0.ret? with
      | some r0 =>
        simp only [RTask.step, hr1, hr0, rpickLeft, if_true] at h ⊢
        exact left h
      | none =>
        simp only [RTask.step, hr1, hr0, rpickLeft] at h ⊢
        split
        · rename_i hp; simp only [hp, if_true] at h; exact left h
        · rename_i hp; simp only [hp, if_false] at h; exact right h

/-! ## pending releases -/

/-- an edge still to be released is the edge `reduce` returned or a child of the node returned -/
def PendOK (s : Store) : RTask → Prop
  | .made _ r ds =>
    ∀ d, d ∈ ds → d = r ∨ ∃ i n, r = .inner i ∧ s.get? i = some n ∧ (n.t = d ∨ n.e = d)
  | .seq1 _ _ t1 => PendOK s t1
  | .seq0 _ _ t0 => PendOK s t0
  | .par _ t1 t0 => PendOK s t1 ∧ PendOK s t0
  | _ => True

theorem pend_lift (s : Store) (t : Task) : PendOK s (lift t) := by
  induction t with
  | call d c => trivial
  | miss d c key => trivial
  | seq1 fr c0 t1 ih => exact ih
  | seq0 fr r1 t0 ih => exact ih
  | par fr t1 t0 ih1 ih0 => exact ⟨ih1, ih0⟩
  | made key r => intro d hd; cases hd
  | ret r => trivial

/-- kept by every store change that keeps the slots of owned edges -/
theorem PendOK.keep {s s' : Store} {t : RTask} (h : PendOK s t)
    (hk : ∀ i n, .inner i ∈ t.owned → s.get? i = some n → s'.get? i = some n) : PendOK s' t := by
  induction t with
  | call d c => trivial
  | miss d c key => trivial
  | ret r => trivial
  | seq1 fr c0 t1 ih => exact ih h hk
  | seq0 fr r1 t0 ih =>
    exact ih h (fun i n hm => hk i n (List.mem_cons_of_mem _ hm))
  | par fr t1 t0 ih1 ih0 =>
    exact ⟨ih1 h.1 (fun i n hm => hk i n (List.mem_append.mpr (.inl hm))),
      ih0 h.2 (fun i n hm => hk i n (List.mem_append.mpr (.inr hm)))⟩
  | made key r ds =>
    intro d hd
    rcases h d hd with h1 | ⟨i, n, hr, hi, hc⟩
    · exact .inl h1
    · exact .inr ⟨i, n, hr, hk i n (by rw [hr]; exact List.mem_cons_self) hi, hc⟩

theorem PendOK.mono {s s' : Store} {t : RTask} (h : PendOK s t) (hle : s.Le s') : PendOK s' t :=
  h.keep (fun i n _ hi => hle i n hi)

theorem rreduce_pend (st : St) (fr : Frame) (r1 r0 : Edge) :
    PendOK st.store (rreduce st fr r1 r0).2 := by
  unfold rreduce
  by_cases h : r1 = r0
  · simp only [h, if_true]
    intro d hd
    simp only [List.mem_cons, List.not_mem_nil, or_false] at hd
    exact .inl hd
  · simp only [h, if_false]
    cases hf : st.store.find? ⟨fr.lvl, r1, r0⟩ with
    | some i =>
      intro d hd
      simp only [List.mem_cons, List.not_mem_nil, or_false] at hd
      refine .inr ⟨i, _, rfl, find?_some hf, ?_⟩
      rcases hd with rfl | rfl
      · exact .inl rfl
      · exact .inr rfl
    | none => intro d hd; cases hd

/-- a task step keeps `PendOK` (`hle`: the step only extends the store) -/
theorem RTask.step_pend (p : Policy) (st : St) {s' : Store} (hle : st.store.Le s') (t : RTask) :
    ∀ path, PendOK st.store t → PendOK s' (t.step p st path).2 := by
  induction t with
  | ret r => intro _ _; trivial
  | call d c =>
    intro _ _
    simp only [RTask.step, rentry]
    split
    · trivial
    · exact pend_lift _ _
  | miss d c key =>
    intro _ _
    simp only [RTask.step, rexpand]
    split
    · trivial
    · exact pend_lift _ _
  | made key r ds =>
    intro _ h
    cases ds with
    | nil => trivial
    | cons d ds =>
      have : PendOK st.store (.made key r ds) := fun d' hd' => h d' (List.mem_cons_of_mem _ hd')
      exact this.mono hle
  | seq1 fr c0 t1 ih =>
    intro path h
    cases hr : t1.ret? with
    | some r1 => simp only [RTask.step, hr]; trivial
    | none => simp only [RTask.step, hr]; exact ih path h
  | seq0 fr r1 t0 ih =>
    intro path h
    cases hr : t0.ret? with
    | some r0 => simp only [RTask.step, hr]; exact (rreduce_pend st fr r1 r0).mono hle
    | none => simp only [RTask.step, hr]; exact ih path h
  | par fr t1 t0 ih1 ih0 =>
    intro path h
    cases hr1 : t1.ret? with
    | some r1 =>
      cases hr0 : t0.ret? with
      | some r0 => simp only [RTask.step, hr1, hr0]; exact (rreduce_pend st fr r1 r0).mono hle
      | none =>
        simp only [RTask.step, hr1, hr0, rpickLeft, Bool.false_eq_true, if_false]
        exact ⟨h.1.mono hle, ih0 path.tail h.2⟩
    | none =>
      cases hr0 : t0.ret? with
      | some r0 =>
        simp only [RTask.step, hr1, hr0, rpickLeft, if_true]
        exact ⟨ih1 path.tail h.1, h.2.mono hle⟩
      | none =>
        simp only [RTask.step, hr1, hr0, rpickLeft]
        split
        · exact ⟨ih1 path.tail h.1, h.2.mono hle⟩
        · exact ⟨h.1.mono hle, ih0 path.tail h.2⟩

/-! ## counted references vs. the roots of `Threads.lean` -/

theorem erase_owned_sub (t : RTask) : ∀ e, e ∈ t.erase.owned → e ∈ t.owned := by
  induction t with
  | call d c => intro _ h; cases h
  | miss d c key => intro _ h; cases h
  | ret r => intro _ h; exact h
  | made key r ds =>
    intro e h
    simp only [RTask.erase, Task.owned, List.mem_cons, List.not_mem_nil, or_false] at h
    subst h; exact List.mem_cons_self
  | seq1 fr c0 t1 ih => exact ih
  | seq0 fr r1 t0 ih =>
    intro e h
    simp only [RTask.erase, Task.owned, List.mem_cons] at h
    rcases h with h | h
    · subst h; exact List.mem_cons_self
    · exact List.mem_cons_of_mem _ (ih e h)
  | par fr t1 t0 ih1 ih0 =>
    intro e h
    simp only [RTask.erase, Task.owned, List.mem_append] at h
    rcases h with h | h
    · exact List.mem_append.mpr (.inl (ih1 e h))
    · exact List.mem_append.mpr (.inr (ih0 e h))

/-- a counted reference of a task is a root of `Threads.lean` or the child of a stored node -/
theorem pend_owned {s : Store} {t : RTask} (h : PendOK s t) :
    ∀ j, .inner j ∈ t.owned → .inner j ∈ t.erase.owned ∨ s.refd j = true := by
  induction t with
  | call d c => intro _ h; cases h
  | miss d c key => intro _ h; cases h
  | ret r => intro _ h; exact .inl h
  | made key r ds =>
    intro j hj
    simp only [RTask.owned, List.mem_cons] at hj
    rcases hj with hj | hj
    · exact .inl (by simp [RTask.erase, Task.owned, hj])
    · rcases h _ hj with h1 | ⟨i, n, hr, hi, hc⟩
      · exact .inl (by simp [RTask.erase, Task.owned, h1])
      · exact .inr (refd_of_child hi (by rcases hc with hc | hc <;> simp [hc]))
  | seq1 fr c0 t1 ih => exact ih h
  | seq0 fr r1 t0 ih =>
    intro j hj
    simp only [RTask.owned, List.mem_cons] at hj
    rcases hj with hj | hj
    · exact .inl (by simp [RTask.erase, Task.owned, hj])
    · rcases ih h j hj with h1 | h1
      · exact .inl (by simp [RTask.erase, Task.owned, h1])
      · exact .inr h1
  | par fr t1 t0 ih1 ih0 =>
    intro j hj
    simp only [RTask.owned, List.mem_append] at hj
    rcases hj with hj | hj
    · rcases ih1 h.1 j hj with h1 | h1
      · exact .inl (by simp [RTask.erase, Task.owned, h1])
      · exact .inr h1
    · rcases ih0 h.2 j hj with h1 | h1
      · exact .inl (by simp [RTask.erase, Task.owned, h1])
      · exact .inr h1

/-- `PendOK` of the running operation of every thread -/
def PendAll (c : RCfg) : Prop :=
  ∀ (i : Nat) (th : RThread) (t : RTask), c.threads[i]? = some th → th.cur = some t →
    PendOK c.rst.st.store t

theorem mem_ext {c : RCfg} {e : Edge} (h : e ∈ c.ext) :
    ∃ (i : Nat) (th : RThread), c.threads[i]? = some th ∧ e ∈ th.owned := by
  obtain ⟨th, hm, he⟩ := List.mem_flatMap.mp h
  obtain ⟨i, hi⟩ := List.getElem?_of_mem hm
  exact ⟨i, th, hi, he⟩

theorem roots_sub_ext (c : RCfg) : ∀ e, e ∈ c.erase.roots → e ∈ c.ext := by
  intro e he
  simp only [Cfg.roots, RCfg.erase, List.mem_flatMap, List.mem_map] at he
  obtain ⟨_, ⟨th, hm, rfl⟩, he⟩ := he
  refine List.mem_flatMap.mpr ⟨th, hm, ?_⟩
  simp only [Thread.owned, RThread.erase, Thread.handles] at he
  rcases List.mem_append.mp he with h | h
  · exact List.mem_append.mpr (.inl h)
  · refine List.mem_append.mpr (.inr ?_)
    cases hc : th.cur with
    | none => rw [hc] at h; cases h
    | some t => rw [hc] at h; exact erase_owned_sub t e h

/-- **"counted reference or stored parent edge" = "root of `Threads.lean` or stored parent
edge"**: the pending releases do not matter -/
theorem prot_ext_roots {c : RCfg} (hp : PendAll c) (j : Nat) :
    prot c.rst.st.store c.ext j = prot c.rst.st.store c.erase.roots j := by
  unfold prot
  cases hr : c.rst.st.store.refd j with
  | true => simp
  | false =>
    simp only [Bool.or_false]
    cases h1 : c.erase.roots.contains (.inner j) with
    | true =>
      have := roots_sub_ext c _ (by simpa using h1)
      simpa using this
    | false =>
      cases h2 : c.ext.contains (.inner j) with
      | false => rfl
      | true =>
        exfalso
        have hm : Edge.inner j ∈ c.ext := by simpa using h2
        obtain ⟨i, th, hi, he⟩ := mem_ext hm
        have hroot : Edge.inner j ∈ c.erase.roots := by
          simp only [Cfg.roots, RCfg.erase, List.mem_flatMap, List.mem_map]
          refine ⟨th.erase, ⟨th, List.mem_of_getElem? hi, rfl⟩, ?_⟩
          simp only [Thread.owned, RThread.erase, Thread.handles]
          rcases List.mem_append.mp he with h | h
          · exact List.mem_append.mpr (.inl h)
          · refine List.mem_append.mpr (.inr ?_)
            cases hc : th.cur with
            | none => rw [hc] at h; cases h
            | some t =>
              rw [hc] at h
              rcases pend_owned (hp i th t hi hc) j h with h3 | h3
              · exact h3
              · rw [hr] at h3; cases h3
        have : c.erase.roots.contains (.inner j) = true := by simpa using hroot
        rw [h1] at this; cases this

end OxiddModel.Bdd.RThreads
