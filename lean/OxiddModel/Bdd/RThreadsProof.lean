import OxiddModel.Bdd.RThreadsOrd

/-!
# The invariant of the counter machine, kept by every step of every schedule

`RGInv c F B`:
* `ginv` — the erased configuration satisfies the invariant `GInv` of `Threads.lean`
  (`Unique ∧ CacheOK`, every handle and every frame of every running operation denotes the trees of
  its obligation, borrowed edges reachable from handles);
* `rc` — `RcInv c.rst c.ext`: for every stored node
  `rc = 1 + (occurrences among all counted references of all threads) + (stored parent edges)`;
* `pend` — pending releases are the returned edge or children of the returned node;
* `ord` — every stored node denotes an ordered tree.

`RCfg.step_rginv`: every step of the machine — a `retain`, a `release`, a `get_or_insert`, a cache
access of any thread along any `par` path, `gcBegin`, the counter-driven sweep of any level,
`gcEnd` — keeps `RGInv`, and the erased configuration either does not move (a pending release)
or makes the step of `Threads.lean` with the same selector. `RCfg.run_rginv`: so does every
schedule.
-/
namespace OxiddModel.Bdd.RThreads
open OxiddModel.Bdd OxiddModel.Bdd.BDD OxiddModel.Bdd.Refine OxiddModel.Bdd.Threads
open OxiddModel.Bdd.Rc (RSt rcGet rcSet cloneEdge dropEdge cloneEdge_st dropEdge_st RcInv)

structure RGInv (c : RCfg) (F : Nat → List (Option BDD)) (B : Nat → Nat) : Prop where
  ginv : GInv c.erase F B
  rc : RcInv c.rst c.ext
  pend : PendAll c
  ord : AllOrd c.rst.st.store

/-! ## helpers about actions -/

theorem RAct.run_le (a : RAct) (r : RSt) : r.st.store.Le (a.run r).st.store := by
  rw [RAct.run_st]
  cases a with
  | skip => exact Store.Le.refl _
  | retain e => exact Store.Le.refl _
  | release e => exact Store.Le.refl _
  | cacheGet hit => exact Store.Le.refl _
  | mk l t e => exact mkNode_le _ _ _ _
  | cacheAdd p k x => exact Store.Le.refl _

/-- an action either leaves the store alone or is a `get_or_insert` miss -/
theorem RAct.run_store (a : RAct) (r : RSt) :
    (a.run r).st.store = r.st.store ∨
    ∃ l t e, a = .mk l t e ∧ t ≠ e ∧ r.st.store.find? ⟨l, t, e⟩ = none ∧
      (a.run r).st.store = (r.st.store.alloc ⟨l, t, e⟩).1 := by
  cases a with
  | skip => exact .inl rfl
  | retain e => exact .inl (by simp [RAct.run])
  | release e => exact .inl (by simp [RAct.run])
  | cacheGet hit => cases hit <;> exact .inl (by simp [RAct.run])
  | cacheAdd p k x => exact .inl rfl
  | mk l t e =>
    simp only [RAct.run, getOrInsert]
    by_cases hte : t = e
    · simp [hte]
    · simp only [hte, if_false]
      cases hf : r.st.store.find? ⟨l, t, e⟩ with
      | some i => exact .inl (by simp)
      | none => exact .inr ⟨l, t, e, rfl, hte, hf, rfl⟩

theorem ActPre.old {a : RAct} {r : RSt} (h : ActPre (a.run r).st.store a) : ActPre r.st.store a := by
  cases a with
  | skip => trivial
  | retain e => simpa [ActPre, RAct.run] using h
  | release e => trivial
  | cacheGet hit =>
    cases hit with
    | none => trivial
    | some x => simpa [ActPre, RAct.run] using h
  | mk l t e => trivial
  | cacheAdd p k x => exact h

/-! ## helpers about threads -/

theorem ThreadInv.held_has {s : Store} {th : Thread} {F : List (Option BDD)} {N : Nat}
    (h : ThreadInv s th F N) : ∀ e, e ∈ th.held → s.has e := by
  obtain ⟨ts, hhs, hcur⟩ := h
  intro e he
  unfold Thread.held at he
  rcases List.mem_append.mp he with h1 | h1
  · simp only [Thread.handles, List.mem_filterMap, id] at h1
    obtain ⟨o, ho, rfl⟩ := h1
    obtain ⟨i, hi⟩ := List.getElem?_of_mem ho
    have hg : hget th.hs i = some e := by simp [hget, hi]
    obtain ⟨t, _, hd⟩ := hhs.live hg
    exact has_of_denotes hd
  · cases hc : th.cur with
    | none => rw [hc] at h1; cases h1
    | some t =>
      rw [hc] at h1 hcur
      obtain ⟨T, n, hok, _⟩ := hcur
      exact TaskOK.held_has hok e h1

theorem RThread.step_pre {p : Policy} (pok : p.OK) (st : St) (s : Store) (th : RThread)
    (path : List Bool) (h : ∀ e, e ∈ (th.step p st path).2.erase.held → s.has e) :
    ActPre s (th.step p st path).1 := by
  cases hc : th.cur with
  | some t =>
    cases hr : t.ret? with
    | some r => simp only [RThread.step, hc, hr]; trivial
    | none =>
      simp only [RThread.step, hc, hr] at h ⊢
      exact RTask.step_pre pok st s t path (fun e he => h e (by
        simp only [RThread.erase, Thread.held, Option.map_some]
        exact List.mem_append.mpr (.inr he)))
  | none =>
    cases hs : th.script with
    | nil => simp only [RThread.step, hc, hs]; trivial
    | cons c rest =>
      simp only [RThread.step, hc, hs, erase_unerase] at h ⊢
      cases c with
      | not i => trivial
      | bin op i j => trivial
      | ite i j k => trivial
      | drop i => simp only [startAct]; split <;> trivial
      | clone i =>
        simp only [startAct]
        cases hi : hget th.hs i with
        | none => trivial
        | some f =>
          simp only [ActPre]
          apply h f
          simp only [Cmd.start, RThread.erase, hi, Thread.held, Thread.handles]
          refine List.mem_append.mpr (.inl ?_)
          simp [List.filterMap_append]

theorem RThread.step_pend (p : Policy) (st : St) {s' : Store} (hle : st.store.Le s')
    (th : RThread) (path : List Bool) (h : ∀ t, th.cur = some t → PendOK st.store t) :
    ∀ t', (th.step p st path).2.cur = some t' → PendOK s' t' := by
  intro t' ht'
  cases hc : th.cur with
  | some t =>
    cases hr : t.ret? with
    | some r => simp [RThread.step, hc, hr] at ht'
    | none =>
      simp only [RThread.step, hc, hr, Option.some.injEq] at ht'
      subst ht'
      exact RTask.step_pend p st hle t path (h t hc)
  | none =>
    cases hs : th.script with
    | nil => simp [RThread.step, hc, hs] at ht'
    | cons c rest =>
      simp only [RThread.step, hc, hs, unerase] at ht'
      cases hcur : (Cmd.start th.erase rest c).cur with
      | none => rw [hcur] at ht'; cases ht'
      | some t0 =>
        rw [hcur] at ht'
        simp only [Option.map_some, Option.some.injEq] at ht'
        subst ht'
        exact pend_lift _ _

/-- a `get_or_insert` of a thread step is the `get_or_insert` of the erased running task -/
theorem RThread.step_mk {p : Policy} {st : St} {th : RThread} {path : List Bool} {l : Nat}
    {a b : Edge} (h : (th.step p st path).1 = .mk l a b) :
    ∃ t, th.cur = some t ∧ (t.erase.step p st path).1 = some (.mk l a b) := by
  cases hc : th.cur with
  | some t =>
    cases hr : t.ret? with
    | some r => simp [RThread.step, hc, hr] at h
    | none =>
      simp only [RThread.step, hc, hr] at h
      refine ⟨t, rfl, ?_⟩
      cases hst : t.stutters path with
      | true =>
        obtain ⟨_, d, hd⟩ := RTask.step_stutter p st t path hst
        rw [hd] at h; cases h
      | false =>
        have := (RTask.step_proper p st t path hst).2
        rw [h] at this
        exact this.symm
  | none =>
    cases hs : th.script with
    | nil => simp [RThread.step, hc, hs] at h
    | cons c rest =>
      simp only [RThread.step, hc, hs] at h
      cases c <;> simp only [startAct] at h <;> (try split at h) <;> cases h

theorem St.ext' {a b : St} (h1 : a.store = b.store) (h2 : a.cache = b.cache) (h3 : a.tick = b.tick) :
    a = b := by
  cases a; cases b; simp only at h1 h2 h3; subst h1 h2 h3; rfl

theorem getElem?_erase_threads (c : RCfg) (i : Nat) :
    c.erase.threads[i]? = (c.threads[i]?).map RThread.erase := by
  simp [RCfg.erase]

/-! ## the step theorem -/

/-- a counted reference is never freed by a level sweep -/
theorem gcLevel_keeps_ext {r : RSt} {ext : List Edge} (h : RcInv r ext) (ho : r.st.store.Ordered)
    (l : Nat) {i : Nat} (hm : Edge.inner i ∈ ext) {n : Node} (hi : r.st.store.get? i = some n) :
    (Rc.gcLevel r l).st.store.get? i = some n := by
  have G := get?_gcLevel (l := l) ho h.kids_ok i
  have : ¬ frees r l i := by
    rintro ⟨n', hn', _, h1⟩
    have := h.rc_eq i n' hn'
    have hc : 0 < ext.count (.inner i) := List.count_pos_iff.mpr hm
    omega
  rw [G.2 this, hi]

/-- **Every step of the counter machine keeps the invariant**, and is a stutter or the step of
`Threads.lean` with the same selector. -/
theorem RCfg.step_rginv {p : Policy} (pok : p.OK) {c : RCfg} {F : Nat → List (Option BDD)}
    {B : Nat → Nat} (h : RGInv c F B) (sel : RSel) :
    ∃ B', RGInv (c.step p sel) F B' ∧
      (((c.step p sel).erase = c.erase ∧ B' = B) ∨
       ((c.step p sel).erase = c.erase.step p sel.erase ∧ B' = stepB c.erase B sel.erase)) := by
  cases sel with
  | gcBegin =>
    have he : (c.step p .gcBegin).erase = c.erase.step p .gcBegin := rfl
    refine ⟨_, ⟨?_, ?_, ?_, h.ord⟩, .inr ⟨he, rfl⟩⟩
    · rw [he]; exact Cfg.step_ginv pok h.ginv .gcBegin
    · exact ⟨h.rc.ext_ok, h.rc.kids_ok, fun _ _ hm => (by cases hm), h.rc.rc_eq⟩
    · exact h.pend
  | gcEnd =>
    have he : (c.step p .gcEnd).erase = c.erase.step p .gcEnd := rfl
    refine ⟨_, ⟨?_, h.rc, h.pend, h.ord⟩, .inr ⟨he, rfl⟩⟩
    rw [he]; exact Cfg.step_ginv pok h.ginv .gcEnd
  | gcLevel l =>
    cases ha : c.gcActive with
    | false =>
      have e : c.step p (.gcLevel l) = c := by simp [RCfg.step, ha]
      rw [e]
      exact ⟨B, h, .inl ⟨rfl, rfl⟩⟩
    | true =>
      have e : c.step p (.gcLevel l) = { c with rst := Rc.gcLevel c.rst l } := by
        simp [RCfg.step, ha]
      have hcache : c.rst.st.cache = [] := h.ginv.2.1 ha
      have hord := h.ord.ordered
      have hstore : (Rc.gcLevel c.rst l).st.store = sweepLevel c.rst.st.store c.erase.roots l := by
        rw [gcLevel_eq_sweepLevel h.rc hord l]
        exact sweepLevel_congr _ _ _ l (prot_ext_roots h.pend)
      have he : (c.step p (.gcLevel l)).erase = c.erase.step p (.gcLevel l) := by
        rw [e]
        have ha' : c.erase.gcActive = true := ha
        simp only [Cfg.step, ha', if_true]
        simp only [RCfg.erase]
        congr 1
        exact St.ext' hstore (gcLevel_cache _ _) (gcLevel_tick _ _)
      refine ⟨_, ⟨?_, ?_, ?_, ?_⟩, .inr ⟨he, rfl⟩⟩
      · rw [he]; exact Cfg.step_ginv pok h.ginv (.gcLevel l)
      · rw [e]; exact gcLevel_rc h.rc hcache l
      · rw [e]
        intro i th t hi hc
        refine (h.pend i th t hi hc).keep (fun j n hm hj => ?_)
        refine gcLevel_keeps_ext h.rc hord l ?_ hj
        refine List.mem_flatMap.mpr ⟨th, List.mem_of_getElem? hi, ?_⟩
        unfold RThread.owned
        rw [hc]
        exact List.mem_append.mpr (.inr hm)
      · rw [e]
        show AllOrd (Rc.gcLevel c.rst l).st.store
        rw [hstore]
        exact h.ord.removal (sweepLevel_removal _ _ l)
  | thread tid path =>
    cases ht : c.threads[tid]? with
    | none =>
      have e : c.step p (.thread tid path) = c := by simp [RCfg.step, ht]
      rw [e]
      exact ⟨B, h, .inl ⟨rfl, rfl⟩⟩
    | some th =>
      have e : c.step p (.thread tid path) =
          { c with rst := (th.step (effPol p c.gcActive) c.rst.st path).1.run c.rst,
                   threads := c.threads.set tid (th.step (effPol p c.gcActive) c.rst.st path).2 } := by
        simp [RCfg.step, ht]
      generalize ho : th.step (effPol p c.gcActive) c.rst.st path = o at e
      have hlt : tid < c.threads.length := by
        apply Classical.byContradiction; intro hl
        rw [List.getElem?_eq_none (by omega)] at ht; cases ht
      have hpok := effPol_ok pok c.gcActive
      have hle : c.rst.st.store.Le (o.1.run c.rst).st.store := RAct.run_le _ _
      -- (1) the erased step and `GInv` afterwards
      have hG : ∃ B', GInv (c.step p (.thread tid path)).erase F B' ∧
          (((c.step p (.thread tid path)).erase = c.erase ∧ B' = B) ∨
           ((c.step p (.thread tid path)).erase = c.erase.step p (.thread tid path) ∧
             B' = stepB c.erase B (.thread tid path))) := by
        cases hst : c.stutters (.thread tid path) with
        | true =>
          have := RCfg.step_stutter p c _ hst
          exact ⟨B, by rw [this]; exact h.ginv, .inl ⟨this, rfl⟩⟩
        | false =>
          have := RCfg.step_proper p c _ hst (fun l hl => by cases hl)
          exact ⟨_, by rw [this]; exact Cfg.step_ginv pok h.ginv _, .inr ⟨this, rfl⟩⟩
      obtain ⟨B', hG', hsim⟩ := hG
      refine ⟨B', ⟨hG', ?_, ?_, ?_⟩, hsim⟩
      · -- (2) the counters
        rw [e]
        show RcInv (o.1.run c.rst) ((c.threads.set tid o.2).flatMap RThread.owned)
        have hacct := ext_acct_set (l := c.threads) ht
          (RThread.step_acct (effPol p c.gcActive) c.rst.st th path)
        rw [ho] at hacct
        refine RAct.run_rc o.1 h.rc hacct (ActPre.old ?_)
        rw [← ho]
        refine RThread.step_pre hpok c.rst.st _ th path (fun x hx => ?_)
        rw [ho] at hx ⊢
        -- the acting thread after the step, in the erased configuration after the step
        have hget : (c.step p (.thread tid path)).erase.threads[tid]? = some o.2.erase := by
          rw [e]; simp [RCfg.erase, hlt]
        have hinv := (hG'.2.2 tid _ hget).1
        have := ThreadInv.held_has hinv x hx
        rw [e] at this
        exact this
      · -- (3) pending releases
        rw [e]
        intro i th' t' hi hc'
        simp only [List.getElem?_set] at hi
        by_cases hit : tid = i
        · subst hit
          simp only [if_true, hlt] at hi
          cases hi
          rw [← ho] at hc'
          exact RThread.step_pend (effPol p c.gcActive) c.rst.st hle th path
            (fun t htc => h.pend tid th t ht htc) t' hc'
        · simp only [hit, if_false] at hi
          exact (h.pend i th' t' hi hc').mono hle
      · -- (4) ordered trees
        rw [e]
        show AllOrd (o.1.run c.rst).st.store
        rcases RAct.run_store o.1 c.rst with hs | ⟨l, a, b, ha, hab, hf, hs⟩
        · rw [hs]; exact h.ord
        · rw [hs]
          rw [← ho] at ha
          obtain ⟨t, htc, hmk⟩ := RThread.step_mk ha
          have hte : c.erase.threads[tid]? = some th.erase := by
            rw [getElem?_erase_threads, ht]; rfl
          obtain ⟨ts, _, hcur⟩ := (h.ginv.2.2 tid th.erase hte).1
          have : th.erase.cur = some t.erase := by simp [RThread.erase, htc]
          rw [this] at hcur
          obtain ⟨T, n, hok, _⟩ := hcur
          obtain ⟨T1, T0, key, hd1, hd0, hk⟩ := Task.step_mk_facts t.erase path T n l a b hok hmk
          exact h.ord.mk h.ginv.1.1 hab hd1 hd0 hk

/-! ## schedules -/

/-- the schedule of `Threads.lean` a schedule of this machine corresponds to, from configuration
`c`: pending releases are dropped -/
def eraseSched (p : Policy) : RCfg → List RSel → List Sel
  | _, [] => []
  | c, s :: ss =>
    if c.stutters s then eraseSched p (c.step p s) ss
    else s.erase :: eraseSched p (c.step p s) ss

/-- **Every schedule keeps the invariant, and the erased run is a run of `Threads.lean`.** -/
theorem RCfg.run_rginv {p : Policy} (pok : p.OK) (sched : List RSel) :
    ∀ {c : RCfg} {F : Nat → List (Option BDD)} {B : Nat → Nat}, RGInv c F B →
      (∃ B', RGInv (c.run p sched) F B') ∧
      ∃ sched' : List Sel, (c.run p sched).erase = c.erase.run p sched' ∧
        sched'.length ≤ sched.length := by
  induction sched with
  | nil => intro c F B h; exact ⟨⟨B, h⟩, [], rfl, Nat.le_refl _⟩
  | cons s ss ih =>
    intro c F B h
    obtain ⟨B1, h1, hsim⟩ := RCfg.step_rginv pok h s
    obtain ⟨hB, sched', hrun, hlen⟩ := ih h1
    refine ⟨hB, ?_⟩
    rcases hsim with ⟨he, _⟩ | ⟨he, _⟩
    · exact ⟨sched', by simp only [RCfg.run]; rw [hrun, he], by simp; omega⟩
    · exact ⟨s.erase :: sched', by simp only [RCfg.run, Cfg.run]; rw [hrun, he], by simp; omega⟩

end OxiddModel.Bdd.RThreads
